#!/venv/bin/python
"""py2v translator for the printing / hashing / equality part of xdeps/refs.py.

Writes coq/gen/GenRefsRepr.v with

  repr_tpl     : the text built by every __repr__ as segments (resolved through
                 the MRO), obtained by a small symbolic evaluation of the method
                 body (local assignments, f-strings, str()/repr(), ", ".join of a
                 comprehension, `x += [...]`, `if` with simple assignments)
  op_str       : the class attribute _op_str
  hash_tpl     : the tuple hashed by the __cinit__ that assigns self._hash
  eq_impl      : body of BaseRef.__eq__
  builtin_fn, builtin_dunder, dunder_bin, dunder_un, dunder_access :
                 what the operator dunders of BaseRef build

Fail closed: any construct that is not recognised raises Unrecognised and the
program exits 1 without touching the output.
"""
import ast, sys, os
sys.path.insert(0, os.path.dirname(os.path.abspath(__file__)))
from refs_common import (parse, classes, methods, strip_doc, coq_string_codes, write_if_changed,
                         Unrecognised, fail)

FIELDS = {"_key": "FKey", "_owner": "FOwner", "_manager": "FManager", "_lhs": "FLhs", "_rhs": "FRhs",
          "_arg": "FArg", "_op": "FOp", "_params": "FParams", "_func": "FFunc", "_args": "FArgs",
          "_kwargs": "FKwargs"}
LIST_FIELDS = {"FParams", "FArgs"}
KW_FIELDS = {"FKwargs"}


def comment(s):
    return "(* " + repr(s).replace("*)", "* )").replace("(*", "( *") + " *)"


# ---- symbolic values -------------------------------------------------------------

class Obj:                      # the object stored in a field
    def __init__(self, f): self.f = f

class Elem:                     # loop variable of a comprehension
    def __init__(self, name): self.name = name

class Text:                     # a str, as a list of segments (atoms or ('if', c, a, b))
    def __init__(self, segs): self.segs = segs

class CondV:                    # value depending on a condition
    def __init__(self, c, a, b): self.c, self.a, self.b = c, a, b

class Lst:                      # a list / generator of str
    def __init__(self, parts): self.parts = parts

class Seq:                      # a sequence of objects: [('one', field) | ('each', field)]
    def __init__(self, items): self.items = items


def is_self_attr(node, name=None):
    return (isinstance(node, ast.Attribute) and isinstance(node.value, ast.Name) and node.value.id == "self"
            and (name is None or node.attr == name))


def un(node):
    return ast.unparse(node)


def to_segs(v, conv):
    """segments of conv(v)"""
    if isinstance(v, Obj):
        return [("AConv", conv, v.f)]
    if isinstance(v, Text):
        if conv != "CvStr":
            raise Unrecognised("repr() of an already built string")
        return list(v.segs)
    if isinstance(v, CondV):
        a, b = to_segs(v.a, conv), to_segs(v.b, conv)
        for s in a + b:
            if s[0] == "if":
                raise Unrecognised("nested conditional text")
        return [("if", v.c, a, b)]
    raise Unrecognised(f"cannot print symbolic value {v!r}")


def ev_cond(node, env):
    if isinstance(node, ast.BoolOp) and isinstance(node.op, ast.And):
        cs = [ev_cond(x, env) for x in node.values]
        out = cs[-1]
        for c in reversed(cs[:-1]):
            out = ("CAnd", c, out)
        return out
    if isinstance(node, ast.UnaryOp) and isinstance(node.op, ast.Not):
        return ("CNot", ev_cond(node.operand, env))
    if isinstance(node, ast.Compare) and len(node.ops) == 1 and isinstance(node.ops[0], ast.Eq):
        l, r = node.left, node.comparators[0]
        if is_self_attr(l, "_op_str") and isinstance(r, ast.Constant) and isinstance(r.value, str):
            return ("COpStrIs", r.value)
        if (isinstance(l, ast.Call) and isinstance(l.func, ast.Name) and l.func.id == "getattr" and len(l.args) == 3
                and is_self_attr(l.args[0], "_op") and isinstance(l.args[1], ast.Constant) and l.args[1].value == "__module__"
                and isinstance(l.args[2], ast.Constant) and l.args[2].value is None
                and isinstance(r, ast.Constant) and isinstance(r.value, str)):
            return ("COpModuleIs", r.value)
    if (isinstance(node, ast.Call) and isinstance(node.func, ast.Name) and node.func.id == "isinstance" and len(node.args) == 2
            and isinstance(node.args[1], ast.Name) and node.args[1].id == "BaseRef"):
        v = ev(node.args[0], env)
        if isinstance(v, Obj):
            return ("CIsRef", v.f)
    if (isinstance(node, ast.Call) and isinstance(node.func, ast.Attribute) and node.func.attr == "startswith"
            and len(node.args) == 1 and isinstance(node.args[0], ast.Constant) and isinstance(node.args[0].value, str)
            and isinstance(node.func.value, ast.Call) and isinstance(node.func.value.func, ast.Name)
            and node.func.value.func.id == "str" and len(node.func.value.args) == 1):
        v = ev(node.func.value.args[0], env)
        if isinstance(v, Obj):
            return ("CStrStarts", v.f, node.args[0].value)
    raise Unrecognised("condition " + un(node))


def ev_seq(node, env):
    """a sequence of objects being iterated"""
    if is_self_attr(node) and node.attr in FIELDS:
        f = FIELDS[node.attr]
        if f in LIST_FIELDS or f in KW_FIELDS:
            return Seq([("each", f)])
    if isinstance(node, ast.BinOp) and isinstance(node.op, ast.Add):
        return Seq(ev_seq(node.left, env).items + ev_seq(node.right, env).items)
    if isinstance(node, ast.Tuple) and all(is_self_attr(e) and e.attr in FIELDS for e in node.elts):
        return Seq([("one", FIELDS[e.attr]) for e in node.elts])
    raise Unrecognised("iterated sequence " + un(node))


def ev_comp(node, env):
    if len(node.generators) != 1:
        raise Unrecognised("comprehension " + un(node))
    g = node.generators[0]
    if g.ifs or g.is_async:
        raise Unrecognised("comprehension filter " + un(node))
    seq = ev_seq(g.iter, env)
    parts = []
    if isinstance(g.target, ast.Name):
        env2 = dict(env); env2[g.target.id] = Elem(g.target.id)
        elt = node.elt
        if (isinstance(elt, ast.Call) and isinstance(elt.func, ast.Name) and elt.func.id in ("str", "repr")
                and len(elt.args) == 1 and isinstance(elt.args[0], ast.Name) and elt.args[0].id == g.target.id):
            conv = "CvStr" if elt.func.id == "str" else "CvRepr"
        elif (isinstance(elt, ast.JoinedStr) and len(elt.values) == 1 and isinstance(elt.values[0], ast.FormattedValue)
              and isinstance(elt.values[0].value, ast.Name) and elt.values[0].value.id == g.target.id
              and elt.values[0].format_spec is None and elt.values[0].conversion in (-1, 115, 114)):
            conv = "CvRepr" if elt.values[0].conversion == 114 else "CvStr"
        else:
            raise Unrecognised("comprehension element " + un(elt))
        for kind, f in seq.items:
            if f in KW_FIELDS:
                raise Unrecognised("keyword pairs iterated with a single variable")
            parts.append(("JOne" if kind == "one" else "JEach", conv, f))
        return Lst(parts)
    if isinstance(g.target, ast.Tuple) and len(g.target.elts) == 2 and all(isinstance(e, ast.Name) for e in g.target.elts):
        k, v = (e.id for e in g.target.elts)
        elt = node.elt
        ok = (isinstance(elt, ast.JoinedStr) and len(elt.values) == 3
              and isinstance(elt.values[0], ast.FormattedValue) and isinstance(elt.values[0].value, ast.Name)
              and elt.values[0].value.id == k and elt.values[0].conversion in (-1, 115) and elt.values[0].format_spec is None
              and isinstance(elt.values[1], ast.Constant) and isinstance(elt.values[1].value, str)
              and isinstance(elt.values[2], ast.FormattedValue) and isinstance(elt.values[2].value, ast.Name)
              and elt.values[2].value.id == v and elt.values[2].conversion in (-1, 115, 114) and elt.values[2].format_spec is None)
        if not ok or seq.items != [("each", "FKwargs")]:
            raise Unrecognised("keyword comprehension " + un(node))
        conv = "CvRepr" if elt.values[2].conversion == 114 else "CvStr"
        return Lst([("JEachKw", elt.values[1].value, conv, "FKwargs")])
    raise Unrecognised("comprehension target " + un(node))


def ev(node, env):
    if is_self_attr(node):
        if node.attr in FIELDS:
            return Obj(FIELDS[node.attr])
        if node.attr == "_op_str":
            return Text([("AOpStr",)])
        raise Unrecognised("attribute " + un(node))
    if isinstance(node, ast.Name):
        if node.id in env:
            return env[node.id]
        raise Unrecognised("free name " + node.id)
    if isinstance(node, ast.Constant) and isinstance(node.value, str):
        return Text([("ALit", node.value)] if node.value else [])
    if isinstance(node, ast.JoinedStr):
        segs = []
        for p in node.values:
            if isinstance(p, ast.Constant) and isinstance(p.value, str):
                if p.value:
                    segs.append(("ALit", p.value))
            elif isinstance(p, ast.FormattedValue) and p.format_spec is None and p.conversion in (-1, 115, 114):
                segs += to_segs(ev(p.value, env), "CvRepr" if p.conversion == 114 else "CvStr")
            else:
                raise Unrecognised("f-string part " + un(node))
        return Text(segs)
    if isinstance(node, ast.Call):
        f = node.func
        if isinstance(f, ast.Name) and f.id in ("str", "repr") and len(node.args) == 1 and not node.keywords:
            return Text(to_segs(ev(node.args[0], env), "CvStr" if f.id == "str" else "CvRepr"))
        if (isinstance(f, ast.Attribute) and f.attr == "join" and isinstance(f.value, ast.Constant)
                and isinstance(f.value.value, str) and len(node.args) == 1 and not node.keywords):
            v = ev(node.args[0], env)
            if isinstance(v, Lst):
                return Text([("AJoin", f.value.value, v.parts)])
            raise Unrecognised("join of " + un(node.args[0]))
        if (isinstance(f, ast.Attribute) and f.attr == "get" and isinstance(f.value, ast.Name) and f.value.id == "OPERATOR_SYMBOLS"
                and len(node.args) == 2 and is_self_attr(node.args[0], "_op")
                and isinstance(node.args[1], ast.Attribute) and node.args[1].attr == "__name__" and is_self_attr(node.args[1].value, "_op")):
            return Text([("AOpSymbol",)])
        raise Unrecognised("call " + un(node))
    if isinstance(node, ast.Attribute) and node.attr == "__name__" and is_self_attr(node.value, "_func"):
        return Text([("AFuncName",)])
    if isinstance(node, (ast.ListComp, ast.GeneratorExp)):
        return ev_comp(node, env)
    raise Unrecognised("expression " + un(node))


def run_block(stmts, env):
    """executes simple statements; returns the returned value or None"""
    for st in stmts:
        if isinstance(st, ast.Assert):
            continue
        if isinstance(st, ast.Expr) and isinstance(st.value, ast.Constant) and isinstance(st.value.value, str):
            continue
        if isinstance(st, ast.Assign) and len(st.targets) == 1 and isinstance(st.targets[0], ast.Name):
            env[st.targets[0].id] = ev(st.value, env)
            continue
        if isinstance(st, ast.AugAssign) and isinstance(st.op, ast.Add) and isinstance(st.target, ast.Name):
            a, b = env.get(st.target.id), ev(st.value, env)
            if isinstance(a, Lst) and isinstance(b, Lst):
                env[st.target.id] = Lst(a.parts + b.parts)
                continue
            raise Unrecognised("augmented assignment " + un(st))
        if isinstance(st, ast.If):
            c = ev_cond(st.test, env)
            e1, e2 = dict(env), dict(env)
            for blk, e in ((st.body, e1), (st.orelse, e2)):
                for s2 in blk:
                    if not (isinstance(s2, ast.Assign) and len(s2.targets) == 1 and isinstance(s2.targets[0], ast.Name)):
                        if isinstance(s2, ast.Expr) and isinstance(s2.value, ast.Constant):
                            continue
                        raise Unrecognised("statement in a conditional: " + un(s2))
                    e[s2.targets[0].id] = ev(s2.value, e)
            for k in set(e1) | set(e2):
                a, b = e1.get(k), e2.get(k)
                if a is b:
                    continue
                if a is None or b is None:
                    raise Unrecognised("name bound on one branch only: " + k)
                env[k] = CondV(c, a, b)
            continue
        if isinstance(st, ast.Return) and st.value is not None:
            return ev(st.value, env)
        raise Unrecognised("statement " + un(st))
    return None


def repr_template(fn):
    if [a.arg for a in fn.args.args] != ["self"] or fn.args.vararg or fn.args.kwarg or fn.args.kwonlyargs:
        raise Unrecognised("signature of __repr__")
    v = run_block(strip_doc(fn.body), {})
    if isinstance(v, Obj):
        if v.f != "FKey":
            raise Unrecognised("__repr__ returns a raw field that is not the label")
        return [("ARaw", v.f)]
    if isinstance(v, Text):
        return v.segs
    if isinstance(v, CondV):
        return to_segs(v, "CvStr")
    raise Unrecognised("__repr__ does not return text")


# ---- Coq emission ------------------------------------------------------------------

def e_cond(c):
    k = c[0]
    if k == "COpStrIs":
        return f"(COpStrIs {coq_string_codes(c[1])})"
    if k == "CIsRef":
        return f"(CIsRef {c[1]})"
    if k == "CStrStarts":
        return f"(CStrStarts {c[1]} {coq_string_codes(c[2])})"
    if k == "COpModuleIs":
        return f"(COpModuleIs {coq_string_codes(c[1])})"
    if k == "CNot":
        return f"(CNot {e_cond(c[1])})"
    if k == "CAnd":
        return f"(CAnd {e_cond(c[1])} {e_cond(c[2])})"
    raise Unrecognised(str(c))


def e_jpart(p):
    if p[0] in ("JOne", "JEach"):
        return f"{p[0]} {p[1]} {p[2]}"
    return f"JEachKw {coq_string_codes(p[1])} {p[2]} {p[3]}"


def e_atom(a):
    k = a[0]
    if k == "ALit":
        return f"ALit {coq_string_codes(a[1])} {comment(a[1])}"
    if k == "ARaw":
        return f"ARaw {a[1]}"
    if k == "AConv":
        return f"AConv {a[1]} {a[2]}"
    if k in ("AOpStr", "AOpSymbol", "AFuncName"):
        return k
    if k == "AJoin":
        return f"AJoin {coq_string_codes(a[1])} [" + "; ".join(e_jpart(p) for p in a[2]) + "]"
    raise Unrecognised(str(a))


def e_seg(s):
    if s[0] == "if":
        return (f"SIf {e_cond(s[1])}\n        [" + "; ".join(e_atom(a) for a in s[2]) + "]\n        ["
                + "; ".join(e_atom(a) for a in s[3]) + "]")
    return "SAtom (" + e_atom(s) + ")"


def main():
    tree = parse("xdeps/refs.py")
    cls = classes(tree)
    by_name = {n: (i, b, d) for i, n, b, d in cls}
    ref_classes = [n for _, n, _, _ in cls if n == "BaseRef" or "BaseRef" in mro_names(n, by_name)]

    def mro(n):
        return mro_names(n, by_name)

    # -- no class overrides equality / hashing / str
    for n in ref_classes:
        ms = methods(by_name[n][2])
        for special in ("__eq__", "__hash__", "__ne__", "__str__", "__format__"):
            if special in ms and not (n == "BaseRef" and special in ("__eq__", "__hash__")):
                raise Unrecognised(f"{n} defines {special}")
    base = methods(by_name["BaseRef"][2])
    eqb = strip_doc(base["__eq__"].body)
    if [a.arg for a in base["__eq__"].args.args] != ["self", "other"] or len(eqb) != 1 or \
            ast.dump(eqb[0]) != ast.dump(ast.parse("return str(self) == str(other)").body[0]):
        raise Unrecognised("BaseRef.__eq__ is not `return str(self) == str(other)`: " + un(base["__eq__"]))
    hb = strip_doc(base["__hash__"].body)
    if len(hb) != 1 or ast.dump(hb[0]) != ast.dump(ast.parse("return self._hash").body[0]):
        raise Unrecognised("BaseRef.__hash__ is not `return self._hash`")

    # -- OPERATOR_SYMBOLS keys are all functions of the operator module
    opsym_ok = None
    for node in tree.body:
        if isinstance(node, ast.Assign) and len(node.targets) == 1 and isinstance(node.targets[0], ast.Name) \
                and node.targets[0].id == "OPERATOR_SYMBOLS":
            if not isinstance(node.value, ast.Dict):
                raise Unrecognised("OPERATOR_SYMBOLS is not a dict display")
            opsym_ok = all(isinstance(k, ast.Attribute) and isinstance(k.value, ast.Name) and k.value.id == "operator"
                           for k in node.value.keys)
    if opsym_ok is not True:
        raise Unrecognised("OPERATOR_SYMBOLS has keys outside the operator module (builtin printing would change)")

    # -- __repr__ templates, resolved through the MRO
    tpl_of_def, repr_owner = {}, {}
    for n in ref_classes:
        for c in [n] + mro(n):
            ms = methods(by_name[c][2])
            if "__repr__" in ms:
                if c not in tpl_of_def:
                    tpl_of_def[c] = repr_template(ms["__repr__"])
                repr_owner[n] = c
                break

    # -- _op_str
    op_str = {}
    for n in ref_classes:
        for st in by_name[n][2].body:
            if isinstance(st, ast.Assign) and len(st.targets) == 1 and isinstance(st.targets[0], ast.Name) and st.targets[0].id == "_op_str":
                if not (isinstance(st.value, ast.Constant) and isinstance(st.value.value, str)):
                    raise Unrecognised(f"{n}._op_str is not a string constant")
                op_str[n] = st.value.value
    for n in ref_classes:
        if n not in op_str:
            for c in mro(n):
                if c in op_str:
                    op_str[n] = op_str[c]
                    break

    # -- hash tuples
    hash_of_def = {}
    for n in ref_classes:
        ms = methods(by_name[n][2])
        if "__cinit__" not in ms:
            continue
        fn = ms["__cinit__"]
        params = [a.arg for a in fn.args.args][1:]
        assigned = {}
        for st in ast.walk(fn):
            if isinstance(st, ast.Assign) and len(st.targets) == 1 and is_self_attr(st.targets[0]):
                assigned.setdefault(st.targets[0].attr, []).append(st.value)
        if "_hash" not in assigned:
            continue
        if len(assigned["_hash"]) != 1:
            raise Unrecognised(f"{n}.__cinit__ assigns _hash more than once")
        v = assigned["_hash"][0]
        if not (isinstance(v, ast.Call) and isinstance(v.func, ast.Name) and v.func.id == "hash" and len(v.args) == 1
                and isinstance(v.args[0], ast.Tuple)):
            raise Unrecognised(f"{n}: _hash is not hash((...)): " + un(v))
        # parameter -> field, through `self._x = x` of this class or of a base with the same signature
        p2f = {}
        for c in [n] + mro(n):
            cm = methods(by_name[c][2])
            if "__cinit__" not in cm:
                continue
            cparams = [a.arg for a in cm["__cinit__"].args.args][1:]
            if cparams[:len(params)] != params and params[:len(cparams)] != cparams:
                raise Unrecognised(f"__cinit__ signatures of {n} and {c} differ")
            for st in cm["__cinit__"].body:
                if isinstance(st, ast.Assign) and len(st.targets) == 1 and is_self_attr(st.targets[0]) \
                        and isinstance(st.value, ast.Name) and st.value.id in cparams and st.targets[0].attr in FIELDS:
                    p2f[st.value.id] = FIELDS[st.targets[0].attr]
        elts = []
        for e in v.args[0].elts:
            if ast.dump(e) == ast.dump(ast.parse("type(self).__name__").body[0].value):
                elts.append("HTypeName")
            elif ast.dump(e) == ast.dump(ast.parse("self.__class__").body[0].value):
                elts.append("HClass")
            elif is_self_attr(e) and e.attr in FIELDS:
                if n == "CallRef" and e.attr == "_kwargs":
                    check_kwargs_norm(fn)
                elts.append(f"HField {FIELDS[e.attr]}")
            elif isinstance(e, ast.Name) and e.id in p2f:
                elts.append(f"HField {p2f[e.id]}")
            else:
                raise Unrecognised(f"{n}: hashed element " + un(e))
        hash_of_def[n] = elts
    hash_owner = {}
    for n in ref_classes:
        owners = [c for c in [n] + mro(n) if c in hash_of_def]
        if len(owners) > 1:
            raise Unrecognised(f"{n}: _hash assigned by several __cinit__ of the MRO: {owners}")
        if owners:
            hash_owner[n] = owners[0]

    # -- what the dunders of BaseRef build
    builtin_fns, builtin_dunder, dunder_bin, dunder_un, access = [], [], [], [], []

    def builtin_id(node):
        if not (isinstance(node, ast.Attribute) and isinstance(node.value, ast.Name) and node.value.id in ("builtins", "math")):
            raise Unrecognised("builtin function " + un(node))
        key = (node.value.id, node.attr)
        if key not in builtin_fns:
            builtin_fns.append(key)
        return builtin_fns.index(key)

    def builtin_call(call, params):
        """BuiltinRef(self, fn[, (p1, ...)]) -> (fn id, number of extra parameters)"""
        if not (isinstance(call, ast.Call) and isinstance(call.func, ast.Name) and call.func.id == "BuiltinRef" and not call.keywords
                and len(call.args) in (2, 3) and isinstance(call.args[0], ast.Name) and call.args[0].id == "self"):
            raise Unrecognised("builtin dunder body " + un(call))
        extra = []
        if len(call.args) == 3:
            t = call.args[2]
            if not (isinstance(t, ast.Tuple) and all(isinstance(e, ast.Name) for e in t.elts)):
                raise Unrecognised("BuiltinRef parameters " + un(t))
            extra = [e.id for e in t.elts]
        if extra != params[:len(extra)]:
            raise Unrecognised("BuiltinRef parameters are not the dunder's arguments in order: " + un(call))
        return builtin_id(call.args[1]), len(extra)

    method_bin = []
    for name, fn in methods(by_name["BaseRef"][2]).items():
        if name.startswith("__") or fn.decorator_list:
            continue
        body = strip_doc(fn.body)
        params = [a.arg for a in fn.args.args][1:]
        if (len(body) == 1 and isinstance(body[0], ast.Return) and isinstance(body[0].value, ast.Call)
                and isinstance(body[0].value.func, ast.Name) and body[0].value.func.id in by_name
                and "BinOpExpr" in mro_names(body[0].value.func.id, by_name)):
            call = body[0].value
            argn = [a.id if isinstance(a, ast.Name) else None for a in call.args]
            if params == ["other"] and argn == ["self", "other"] and not call.keywords and not fn.args.defaults:
                method_bin.append((name, call.func.id, "OSelfOther"))
            else:
                raise Unrecognised(f"method {name} builds {un(call)}")
    for cname in ("BaseRef", "ObjectAttrRef"):
        for name, fn in methods(by_name[cname][2]).items():
            body = strip_doc(fn.body)
            params = [a.arg for a in fn.args.args][1:]
            if not (name.startswith("__") and name.endswith("__")):
                continue
            if name in ("__init__", "__hash__", "__reduce__", "__eq__", "__repr__", "__cinit__", "__setattr__", "__setitem__"):
                continue
            if name == "__call__":
                want = "return CallRef(self, args, kwargs)"
                if not (fn.args.vararg and fn.args.vararg.arg == "args" and fn.args.kwarg and fn.args.kwarg.arg == "kwargs"
                        and len(body) == 1 and ast.dump(body[0]) == ast.dump(ast.parse(want).body[0])):
                    raise Unrecognised("__call__: " + un(fn))
                access.append((cname, name, "CallRef"))
                continue
            if name in ("__getitem__", "__getattr__"):
                if name == "__getattr__":
                    g = body[0]
                    if not (len(body) == 2 and isinstance(g, ast.If) and un(g.test) == f"{params[0]} in special_methods"
                            and len(g.body) == 1 and isinstance(g.body[0], ast.Raise) and not g.orelse):
                        raise Unrecognised(f"{cname}.__getattr__ guard")
                    body = body[1:]
                r = body[0] if len(body) == 1 else None
                if not (isinstance(r, ast.Return) and isinstance(r.value, ast.Call) and isinstance(r.value.func, ast.Name)
                        and r.value.func.id in ("ItemRef", "AttrRef") and un(r.value) == f"{r.value.func.id}(self, {params[0]}, self._manager)"):
                    raise Unrecognised(f"{cname}.{name}: " + un(fn))
                access.append((cname, name, r.value.func.id))
                continue
            if cname != "BaseRef":
                raise Unrecognised(f"unexpected dunder {cname}.{name}")
            # __round__: optional parameter
            if len(body) == 2 and isinstance(body[0], ast.If) and len(params) == 1 and fn.args.defaults \
                    and isinstance(fn.args.defaults[0], ast.Constant) and fn.args.defaults[0].value is None \
                    and un(body[0].test) == f"{params[0]} is None" and len(body[0].body) == 1 and not body[0].orelse \
                    and isinstance(body[0].body[0], ast.Return) and isinstance(body[1], ast.Return):
                f0, n0 = builtin_call(body[0].body[0].value, params)
                f1, n1 = builtin_call(body[1].value, params)
                if f0 != f1 or (n0, n1) != (0, 1):
                    raise Unrecognised(f"{name}: " + un(fn))
                builtin_dunder.append((name, f0, 0, 1))
                continue
            if not (len(body) == 1 and isinstance(body[0], ast.Return) and isinstance(body[0].value, ast.Call)
                    and isinstance(body[0].value.func, ast.Name) and not body[0].value.keywords) or fn.args.defaults:
                raise Unrecognised(f"dunder {name}: " + un(fn))
            call = body[0].value
            if call.func.id == "BuiltinRef":
                f0, n0 = builtin_call(call, params)
                if n0 != len(params):
                    raise Unrecognised(f"{name}: unused parameter")
                builtin_dunder.append((name, f0, n0, n0))
                continue
            k = call.func.id
            if k not in by_name or not all(isinstance(a, ast.Name) for a in call.args):
                raise Unrecognised(f"dunder {name} builds " + un(call))
            argn = [a.id for a in call.args]
            if params == ["other"] and argn == ["self", "other"]:
                dunder_bin.append((name, k, "OSelfOther"))
            elif params == ["other"] and argn == ["other", "self"]:
                dunder_bin.append((name, k, "OOtherSelf"))
            elif params == ["other"] and argn == ["other"]:
                dunder_bin.append((name, k, "OOther"))
            elif params == [] and argn == ["self"]:
                dunder_un.append((name, k))
            else:
                raise Unrecognised(f"dunder {name}: arguments {argn}")

    # ---------------------------------------------------------------- emit
    cid = lambda n: by_name[n][0]
    N = lambda i: f"{i}%N"
    out = []
    w = out.append
    w("(* GENERATED by tools/py2v/gen_refsrepr.py from xdeps/refs.py -- do not edit. *)")
    w("From Coq Require Import List NArith.")
    w("From XD Require Import model.RefSyntax model.ReprSyntax.")
    w("Import ListNotations.")
    w("Open Scope N_scope.")
    w("")
    for n in ("BaseRef", "MutableRef", "Ref", "ObjectAttrRef", "AttrRef", "ItemRef", "BinOpExpr", "UnaryOpExpr",
              "LiteralExpr", "BuiltinRef", "CallRef"):
        if n not in by_name:
            raise Unrecognised("class " + n + " is gone")
        w(f"Definition cls_{n} : N := {cid(n)}.")
    w("")
    w("Definition class_name (c : N) : option pystr :=\n  match c with")
    for n in ref_classes:
        w(f"  | {cid(n)} => Some {coq_string_codes(n)} {comment(n)}")
    w("  | _ => None\n  end.")
    w("")
    for kind, basecls in (("bin_classes", "BinOpExpr"), ("un_classes", "UnaryOpExpr")):
        lst = [n for n in ref_classes if basecls in mro(n)]
        w(f"Definition {kind} : list N := [" + "; ".join(str(cid(n)) for n in lst) + "].")
    w("")
    w("Definition op_str (c : N) : option pystr :=\n  match c with")
    for n in ref_classes:
        if n in op_str:
            w(f"  | {cid(n)} => Some {coq_string_codes(op_str[n])} {comment(n + ': ' + op_str[n])}")
    w("  | _ => None\n  end.")
    w("")
    for c, segs in tpl_of_def.items():
        w(f"Definition repr_{c} : list seg :=\n  [ " + ";\n    ".join(e_seg(s) for s in segs) + " ].")
        w("")
    w("Definition repr_tpl (c : N) : option (list seg) :=\n  match c with")
    for n in ref_classes:
        if n in repr_owner:
            w(f"  | {cid(n)} => Some repr_{repr_owner[n]} {comment(n)}")
    w("  | _ => None\n  end.")
    w("")
    w("Definition hash_tpl (c : N) : option (list hfield) :=\n  match c with")
    for n in ref_classes:
        if n in hash_owner:
            w(f"  | {cid(n)} => Some [" + "; ".join(hash_of_def[hash_owner[n]]) + f"] {comment(n + ' via ' + hash_owner[n])}")
    w("  | _ => None\n  end.")
    w("")
    w("Definition eq_impl : eqimpl := EqStrStr.")
    w("")
    w("(* function objects wrapped by BuiltinRef: (module, name) *)")
    w("Definition builtin_fn (f : N) : option (pystr * pystr) :=\n  match f with")
    for i, (m, nm) in enumerate(builtin_fns):
        w(f"  | {i} => Some ({coq_string_codes(m)}, {coq_string_codes(nm)}) {comment(m + '.' + nm)}")
    w("  | _ => None\n  end.")
    w(f"Definition builtin_count : N := {len(builtin_fns)}.")
    w("")
    w("(* dunder, function, minimal and maximal number of extra parameters *)")
    w("Definition builtin_dunder : list (pystr * N * nat * nat) :=\n  [ " +
      ";\n    ".join(f"({coq_string_codes(d)}, {N(f)}, {a}%nat, {b}%nat) {comment(d)}" for d, f, a, b in builtin_dunder) + " ].")
    w("")
    w("Definition dunder_bin : list (pystr * N * argorder) :=\n  [ " +
      ";\n    ".join(f"({coq_string_codes(d)}, {N(cid(k))}, {o}) {comment(d + ' -> ' + k)}" for d, k, o in dunder_bin) + " ].")
    w("")
    w("(* plain methods of BaseRef that build a binary node: ref._eq(other), ref._neq(other) *)")
    w("Definition method_bin : list (pystr * N * argorder) :=\n  [ " +
      ";\n    ".join(f"({coq_string_codes(d)}, {N(cid(k))}, {o}) {comment(d + ' -> ' + k)}" for d, k, o in method_bin) + " ].")
    w("")
    w("Definition dunder_un : list (pystr * N) :=\n  [ " +
      ";\n    ".join(f"({coq_string_codes(d)}, {N(cid(k))}) {comment(d + ' -> ' + k)}" for d, k in dunder_un) + " ].")
    w("")
    w("(* defining class, dunder, class of the node built from (self, argument, self._manager) / (self, args, kwargs) *)")
    w("Definition dunder_access : list (N * pystr * N) :=\n  [ " +
      ";\n    ".join(f"({N(cid(c))}, {coq_string_codes(d)}, {N(cid(k))}) {comment(c + '.' + d + ' -> ' + k)}" for c, d, k in access) + " ].")
    w("")
    write_if_changed("GenRefsRepr.v", "\n".join(out))


def mro_names(n, by_name):
    """proper ancestors of class n (single inheritance chain inside refs.py)"""
    out, cur = [], n
    while True:
        bases = [b for b in by_name[cur][1] if b in by_name]
        if len(by_name[cur][1]) > 1 and cur != n or len(bases) > 1:
            raise Unrecognised("multiple inheritance at " + cur)
        if not bases:
            return out
        cur = bases[0]
        out.append(cur)


def check_kwargs_norm(fn):
    """CallRef.__cinit__: self._kwargs is the tuple of (name, value) pairs"""
    want = ast.parse(
        "if isinstance(kwargs, dict):\n    self._kwargs = tuple(kwargs.items())\nelse:\n    self._kwargs = tuple(kwargs)\n").body[0]
    if not any(ast.dump(st) == ast.dump(want) for st in fn.body):
        raise Unrecognised("CallRef.__cinit__: normalisation of kwargs changed")


if __name__ == "__main__":
    try:
        main()
    except Unrecognised as e:
        fail("gen_refsrepr: " + str(e))
    except (KeyError, IndexError, AttributeError, SyntaxError) as e:
        fail(f"gen_refsrepr: source shape not recognised ({type(e).__name__}: {e})")
