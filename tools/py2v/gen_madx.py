#!/venv/bin/python
"""py2v translator for C19: xdeps/madxutils.py (+ the part of xdeps/refs.py the
deferred MAD-X evaluator reaches) -> coq/gen/GenMadx.v.

Emits *data* (types in coq/model/MadxSyn.v):
  grammar        the rules of calc_grammar with their '->' aliases, the
                 regular-expression terminals, %import and %ignore lines
  callbacks      the MadxEval class attributes: names imported from `operator`
                 (under their alias), `number = float`, and the bodies of the
                 methods call/getitem/getattr/var/... as small expression trees
  eval_cfg       @v_args(inline=True), __init__ field assignments, the Lark(...)
                 construction and the getitem->getattr replacement
  env_cfg        what MadxEnv builds madexpr / madeval over
  ref_tables     BaseRef operator dunders used by the 7 arithmetic callbacks,
                 __getitem__/__getattr__/__call__, and the _get_value bodies of
                 the node classes they construct

Fail closed: any construct outside the recognised patterns exits 1.
With --json the same data is printed as JSON (used by the check to name what
changed)."""
import ast, sys, os, re, json
sys.path.insert(0, os.path.dirname(os.path.abspath(__file__)))
from refs_common import parse, classes, methods, strip_doc, write_if_changed, fail, Unrecognised


def U(msg, node=None):
    where = f" (line {node.lineno})" if node is not None and hasattr(node, "lineno") else ""
    raise Unrecognised(msg + where)


# ------------------------------------------------------------------ grammar text
TOK = re.compile(r'''\s*(?:
    (?P<str>"(?:[^"\\]|\\.)*")   |
    (?P<arrow>->)                |
    (?P<name>[A-Za-z_][A-Za-z_0-9]*) |
    (?P<punct>[|()*?:])          )''', re.X)


def tokenize_rule(text):
    out, i = [], 0
    while i < len(text):
        if text[i:].strip() == "":
            break
        m = TOK.match(text, i)
        if not m:
            U(f"grammar: cannot tokenise {text[i:i+30]!r}")
        i = m.end()
        for k in ("str", "arrow", "name", "punct"):
            if m.group(k) is not None:
                out.append((k, m.group(k)))
    return out


def parse_alt(toks):
    """one alternative: symbols [-> alias]"""
    syms, alias, i = [], None, 0

    def parse_seq(i, closing):
        seq = []
        while i < len(toks):
            k, v = toks[i]
            if k == "str":
                seq.append(["lit", json.loads(v)]); i += 1
            elif k == "name":
                seq.append(["term" if v.isupper() else "rule", v]); i += 1
            elif k == "punct" and v == "(":
                inner, i = parse_seq(i + 1, True)
                if i >= len(toks) or toks[i] != ("punct", ")"):
                    U("grammar: unbalanced parenthesis")
                i += 1
                if i < len(toks) and toks[i] == ("punct", "*"):
                    seq.append(["star", inner]); i += 1
                else:
                    U("grammar: a group without '*' is not recognised")
            elif k == "punct" and v == ")" and closing:
                return seq, i
            elif k == "arrow" and not closing:
                return seq, i
            else:
                U(f"grammar: unexpected token {v!r}")
        return seq, i

    syms, i = parse_seq(0, False)
    if i < len(toks):
        if toks[i][0] != "arrow" or i + 2 != len(toks) or toks[i + 1][0] != "name":
            U("grammar: malformed alias")
        alias = toks[i + 1][1]
    if not syms:
        U("grammar: empty alternative")
    return {"syms": syms, "alias": alias}


def parse_grammar(text):
    rules, terms, imports, ignore = [], [], [], []
    # logical lines: a rule continues on following lines that start with '|'
    logical = []
    for raw in text.splitlines():
        line = raw.strip()
        if not line:
            continue
        if line.startswith("//"):
            continue
        if line.startswith("|"):
            if not logical:
                U("grammar: continuation without a rule")
            logical[-1] += " " + line
        else:
            logical.append(line)
    for line in logical:
        if line.startswith("%import"):
            m = re.fullmatch(r"%import\s+([A-Za-z_.]+)", line)
            if not m:
                U(f"grammar: {line!r}")
            imports.append(m.group(1))
        elif line.startswith("%ignore"):
            m = re.fullmatch(r"%ignore\s+([A-Za-z_]+)", line)
            if not m:
                U(f"grammar: {line!r}")
            ignore.append(m.group(1))
        elif line.startswith("%"):
            U(f"grammar: directive {line!r}")
        else:
            m = re.match(r"^(\??)([A-Za-z_][A-Za-z_0-9]*)\s*(\.\d+)?\s*:(.*)$", line, re.S)
            if not m:
                U(f"grammar: {line!r}")
            inline, name, prio, body = m.groups()
            if prio:
                U("grammar: rule/terminal priorities are not recognised")
            if name.isupper():
                mm = re.fullmatch(r"\s*/(.*)/\s*", body)
                if not mm or inline:
                    U(f"grammar: terminal {name} is not a plain regular expression")
                terms.append({"name": name, "regex": mm.group(1)})
            else:
                # split on top-level '|' (strings and parentheses respected by the tokeniser)
                toks = tokenize_rule(body)
                alts, cur, depth = [], [], 0
                for t in toks:
                    if t == ("punct", "("):
                        depth += 1
                    elif t == ("punct", ")"):
                        depth -= 1
                    if t == ("punct", "|") and depth == 0:
                        alts.append(cur); cur = []
                    else:
                        cur.append(t)
                alts.append(cur)
                rules.append({"name": name, "inline": inline == "?", "alts": [parse_alt(a) for a in alts]})
    return {"rules": rules, "terms": terms, "imports": imports, "ignore": ignore}


# ------------------------------------------------------------------ madxutils.py
def cexpr_of(node, params, star, locs):
    """callback body expression -> nested list"""
    if isinstance(node, ast.Name):
        if node.id in locs:
            return locs[node.id]
        if node.id in params:
            return ["param", params.index(node.id)]
        U(f"callback: free name {node.id}", node)
    if isinstance(node, ast.Attribute):
        if isinstance(node.value, ast.Name) and node.value.id == "self":
            return ["self", node.attr]
        if node.attr == "value":
            return ["value", cexpr_of(node.value, params, star, locs)]
        U("callback: attribute access other than self.<field> / <token>.value", node)
    if isinstance(node, ast.Subscript):
        return ["getitem", cexpr_of(node.value, params, star, locs), cexpr_of(node.slice, params, star, locs)]
    if isinstance(node, ast.Call):
        if node.keywords:
            U("callback: keyword arguments", node)
        if isinstance(node.func, ast.Name) and node.func.id == "getattr" and "getattr" not in locs and "getattr" not in params:
            if len(node.args) != 2 or any(isinstance(a, ast.Starred) for a in node.args):
                U("callback: getattr with other than two arguments", node)
            return ["getattr", cexpr_of(node.args[0], params, star, locs), cexpr_of(node.args[1], params, star, locs)]
        if (len(node.args) == 1 and isinstance(node.args[0], ast.Starred) and isinstance(node.args[0].value, ast.Name)
                and node.args[0].value.id == star):
            return ["callstar", cexpr_of(node.func, params, star, locs)]
        U("callback: call shape not recognised", node)
    U(f"callback: expression {type(node).__name__} not recognised", node)


def method_body(fn):
    a = fn.args
    if a.posonlyargs or a.kwonlyargs or a.kwarg or a.defaults or a.kw_defaults:
        U(f"callback {fn.name}: parameter list shape", fn)
    names = [x.arg for x in a.args]
    if not names or names[0] != "self":
        U(f"callback {fn.name}: first parameter is not self", fn)
    params = names[1:]
    star = a.vararg.arg if a.vararg else None
    body = strip_doc(fn.body)
    locs = {}
    for st in body[:-1]:
        if (isinstance(st, ast.Assign) and len(st.targets) == 1 and isinstance(st.targets[0], ast.Name)
                and st.targets[0].id not in params and st.targets[0].id != "self"):
            locs[st.targets[0].id] = cexpr_of(st.value, params, star, locs)
        else:
            U(f"callback {fn.name}: statement {type(st).__name__}", st)
    last = body[-1]
    if isinstance(last, ast.Return) and last.value is not None:
        e = cexpr_of(last.value, params, star, locs)
    elif (isinstance(last, ast.Try) and len(last.body) == 1 and isinstance(last.body[0], ast.Return)
          and not last.orelse and not last.finalbody and len(last.handlers) == 1
          and isinstance(last.handlers[0].type, ast.Name) and last.handlers[0].type.id == "KeyError"
          and len(last.handlers[0].body) == 1 and isinstance(last.handlers[0].body[0], ast.Raise)
          and isinstance(last.handlers[0].body[0].exc, ast.Call)
          and isinstance(last.handlers[0].body[0].exc.func, ast.Name)
          and last.handlers[0].body[0].exc.func.id == "Exception"):
        e = ["trykey", cexpr_of(last.body[0].value, params, star, locs)]
    else:
        U(f"callback {fn.name}: body does not end in a return (or try/return/except KeyError/raise)", last)
    return {"kind": "method", "nparams": len(params), "star": star is not None, "body": e}


BUILTINS_OK = {"float", "int", "str", "abs", "complex", "bool", "round"}


def extract_madx():
    tree = parse("xdeps/madxutils.py")
    grammar_text = None
    for node in tree.body:
        if isinstance(node, ast.Assign) and len(node.targets) == 1 and isinstance(node.targets[0], ast.Name) \
                and node.targets[0].id == "calc_grammar":
            if grammar_text is not None:
                U("calc_grammar assigned twice", node)
            if not (isinstance(node.value, ast.Constant) and isinstance(node.value.value, str)):
                U("calc_grammar is not a string literal", node)
            grammar_text = node.value.value
        elif isinstance(node, (ast.AugAssign, ast.AnnAssign)) and "calc_grammar" in ast.unparse(node):
            U("calc_grammar modified", node)
    if grammar_text is None:
        U("calc_grammar not found")
    # any other statement of the module that mentions calc_grammar must be inside MadxEval.__init__
    cls = {name: c for _, name, _, c in classes(tree)}
    for need in ("MadxEval", "MadxEnv"):
        if need not in cls:
            U(f"class {need} not found")
    me = cls["MadxEval"]
    if [ast.unparse(b) for b in me.bases] != ["Transformer"]:
        U("MadxEval bases", me)
    decos = [ast.unparse(d) for d in me.decorator_list]
    if decos == ["v_args(inline=True)"]:
        inline_args = True
    elif decos == []:
        inline_args = False
    else:
        U("MadxEval decorators: " + repr(decos), me)
    callbacks, order = {}, []

    def bind(name, val, node):
        if name in callbacks:
            U(f"MadxEval attribute {name} bound twice", node)
        callbacks[name] = val; order.append(name)

    init = None
    for st in strip_doc(me.body):
        if isinstance(st, ast.ImportFrom):
            if st.level != 0:
                U("relative import in MadxEval", st)
            for al in st.names:
                if st.module != "operator":
                    U(f"MadxEval imports from {st.module}", st)
                bind(al.asname or al.name, {"kind": "operator", "name": al.name}, st)
        elif isinstance(st, ast.Assign):
            if len(st.targets) != 1 or not isinstance(st.targets[0], ast.Name):
                U("MadxEval class-level assignment target", st)
            if isinstance(st.value, ast.Name) and st.value.id in BUILTINS_OK:
                bind(st.targets[0].id, {"kind": "builtin", "name": st.value.id}, st)
            else:
                U(f"MadxEval attribute {st.targets[0].id} = {ast.unparse(st.value)[:40]} not recognised", st)
        elif isinstance(st, ast.FunctionDef):
            if st.decorator_list:
                U(f"decorated method {st.name}", st)
            if st.name == "__init__":
                init = st
            elif st.name.startswith("__"):
                U(f"special method {st.name} on the transformer", st)
            else:
                bind(st.name, method_body(st) if st.name != "assign_var" else {"kind": "assign"}, st)
        else:
            U(f"MadxEval body statement {type(st).__name__}", st)
    if init is None:
        U("MadxEval.__init__ not found")
    # __init__(self, variables, functions, elements, get="item")
    a = init.args
    pnames = [x.arg for x in a.args]
    if a.vararg or a.kwarg or a.kwonlyargs or a.posonlyargs or pnames[0] != "self":
        U("MadxEval.__init__ parameter list", init)
    if len(a.defaults) != 1 or not isinstance(a.defaults[0], ast.Constant) or a.defaults[0].value != "item":
        U("MadxEval.__init__ defaults", init)
    ctor = pnames[1:]
    fields, gram_var, replace, key, lark = [], None, None, None, None
    for st in strip_doc(init.body):
        if isinstance(st, ast.Assign) and len(st.targets) == 1:
            t = st.targets[0]
            if isinstance(t, ast.Attribute) and isinstance(t.value, ast.Name) and t.value.id == "self":
                if isinstance(st.value, ast.Name) and st.value.id in ctor:
                    fields.append([t.attr, ctor.index(st.value.id)])
                    continue
                if t.attr == "eval":
                    v = st.value
                    if (isinstance(v, ast.Attribute) and v.attr == "parse" and isinstance(v.value, ast.Call)
                            and isinstance(v.value.func, ast.Name) and v.value.func.id == "Lark"
                            and len(v.value.args) == 1 and isinstance(v.value.args[0], ast.Name)
                            and v.value.args[0].id == gram_var):
                        kw = {k.arg: k.value for k in v.value.keywords}
                        if set(kw) != {"parser", "transformer"} or not isinstance(kw["parser"], ast.Constant):
                            U("Lark(...) keywords", st)
                        lark = {"parser": kw["parser"].value,
                                "transformer_self": isinstance(kw["transformer"], ast.Name) and kw["transformer"].id == "self"}
                        continue
                U(f"MadxEval.__init__: assignment to self.{t.attr}", st)
            if isinstance(t, ast.Name) and isinstance(st.value, ast.Name) and st.value.id == "calc_grammar" and gram_var is None:
                gram_var = t.id
                continue
            U("MadxEval.__init__: assignment", st)
        elif isinstance(st, ast.If) and not st.orelse and len(st.body) == 1:
            c, b = st.test, st.body[0]
            ok = (isinstance(c, ast.Compare) and len(c.ops) == 1 and isinstance(c.ops[0], ast.Eq)
                  and isinstance(c.left, ast.Name) and c.left.id in ctor
                  and isinstance(c.comparators[0], ast.Constant) and isinstance(c.comparators[0].value, str))
            ok = ok and (isinstance(b, ast.Assign) and len(b.targets) == 1 and isinstance(b.targets[0], ast.Name)
                         and b.targets[0].id == gram_var and isinstance(b.value, ast.Call)
                         and isinstance(b.value.func, ast.Attribute) and b.value.func.attr == "replace"
                         and isinstance(b.value.func.value, ast.Name) and b.value.func.value.id == gram_var
                         and len(b.value.args) == 2 and all(isinstance(x, ast.Constant) and isinstance(x.value, str) for x in b.value.args)
                         and not b.value.keywords)
            if not ok or replace is not None:
                U("MadxEval.__init__: conditional", st)
            replace = [b.value.args[0].value, b.value.args[1].value]
            key = [c.left.id, c.comparators[0].value]
        else:
            U(f"MadxEval.__init__: statement {type(st).__name__}", st)
    if lark is None or replace is None or gram_var is None:
        U("MadxEval.__init__: Lark construction / attribute-mode replacement not found")
    # the replacement must only touch aliases: check on the text
    gram = parse_grammar(grammar_text)
    gram_attr = parse_grammar(grammar_text.replace(replace[0], replace[1]))
    cfg = {"inline_args": inline_args, "init_fields": fields, "parser": lark["parser"],
           "transformer_self": lark["transformer_self"], "attr_replace": replace, "attr_key": key}
    # MadxEnv.__init__
    env = cls["MadxEnv"]
    einit = methods(env).get("__init__")
    if einit is None:
        U("MadxEnv.__init__ not found")
    refs, madexpr, madeval = [], None, None
    for st in ast.walk(einit):
        if isinstance(st, ast.Assign) and len(st.targets) == 1 and isinstance(st.targets[0], ast.Attribute):
            t, v = st.targets[0], st.value
            if not (isinstance(t.value, ast.Name) and t.value.id == "self"):
                continue
            if (isinstance(v, ast.Call) and isinstance(v.func, ast.Attribute) and v.func.attr == "ref"
                    and ast.unparse(v.func.value) == "self.manager"):
                if len(v.args) != 2 or v.keywords or not isinstance(v.args[1], ast.Constant):
                    U("MadxEnv: manager.ref call shape", st)
                refs.append([t.attr, ast.unparse(v.args[0]).replace("self.", ""), v.args[1].value])
            elif t.attr in ("madexpr", "madeval"):
                if not (isinstance(v, ast.Attribute) and v.attr == "eval" and isinstance(v.value, ast.Call)
                        and isinstance(v.value.func, ast.Name) and v.value.func.id == "MadxEval" and not v.value.keywords):
                    U(f"MadxEnv.{t.attr} shape", st)
                args = [ast.unparse(x).replace("self.", "") for x in v.value.args]
                if t.attr == "madexpr":
                    madexpr = args
                else:
                    madeval = args
    if madexpr is None or madeval is None:
        U("MadxEnv: madexpr/madeval not found")
    return {"grammar": gram, "grammar_attr": gram_attr, "callbacks": [[k, callbacks[k]] for k in order], "cfg": cfg,
            "env": {"refs": refs, "madexpr": madexpr, "madeval": madeval}}


# ------------------------------------------------------------------ refs.py
BIN_DUNDERS = ["__add__", "__radd__", "__sub__", "__rsub__", "__mul__", "__rmul__",
               "__truediv__", "__rtruediv__", "__pow__", "__rpow__"]
UN_DUNDERS = ["__neg__", "__pos__"]


def ret_call(fn, what):
    body = strip_doc(fn.body)
    if not (len(body) >= 1 and isinstance(body[-1], ast.Return) and isinstance(body[-1].value, ast.Call)
            and isinstance(body[-1].value.func, ast.Name) and not body[-1].value.keywords):
        U(f"{what}: body is not `return Class(...)`", fn)
    return body[:-1], body[-1].value


def mk_value_calls(stmts, fields, what, node):
    """`x = BaseRef._mk_value(self.<field>)` for each field in order; returns local names"""
    if len(stmts) != len(fields):
        U(f"{what}: expected {len(fields)} _mk_value assignments", node)
    names = []
    for st, f in zip(stmts, fields):
        if not (isinstance(st, ast.Assign) and len(st.targets) == 1 and isinstance(st.targets[0], ast.Name)
                and ast.unparse(st.value) == f"BaseRef._mk_value(self.{f})"):
            U(f"{what}: expected `<x> = BaseRef._mk_value(self.{f})`", st)
        names.append(st.targets[0].id)
    return names


def extract_refs():
    tree = parse("xdeps/refs.py")
    cls = {name: (bases, c) for _, name, bases, c in classes(tree)}
    for need in ("BaseRef", "MutableRef", "BinOpExpr", "UnaryOpExpr", "ItemRef", "AttrRef", "CallRef"):
        if need not in cls:
            U(f"refs.py: class {need} not found")
    bm = methods(cls["BaseRef"][1])
    dbin, dun, access = [], [], []
    for d in BIN_DUNDERS:
        if d not in bm:
            U(f"BaseRef.{d} missing")
        fn = bm[d]
        if [a.arg for a in fn.args.args] != ["self", "other"]:
            U(f"BaseRef.{d} parameters", fn)
        pre, call = ret_call(fn, d)
        if pre:
            U(f"BaseRef.{d}: extra statements", fn)
        args = [ast.unparse(a) for a in call.args]
        if args == ["self", "other"]:
            sw = False
        elif args == ["other", "self"]:
            sw = True
        else:
            U(f"BaseRef.{d}: arguments {args}", fn)
        dbin.append([d, call.func.id, sw])
    for d in UN_DUNDERS:
        fn = bm.get(d)
        if fn is None or [a.arg for a in fn.args.args] != ["self"]:
            U(f"BaseRef.{d} missing or parameters")
        pre, call = ret_call(fn, d)
        if pre or [ast.unparse(a) for a in call.args] != ["self"]:
            U(f"BaseRef.{d}: shape", fn)
        dun.append([d, call.func.id])
    # __getitem__(self, item) -> ItemRef(self, item, self._manager)
    fn = bm.get("__getitem__")
    pre, call = ret_call(fn, "__getitem__")
    p = [a.arg for a in fn.args.args]
    if pre or len(p) != 2 or [ast.unparse(a) for a in call.args] != ["self", p[1], "self._manager"]:
        U("BaseRef.__getitem__ shape", fn)
    access.append(["__getitem__", call.func.id, False])
    fn = bm.get("__getattr__")
    pre, call = ret_call(fn, "__getattr__")
    p = [a.arg for a in fn.args.args]
    guarded = False
    if len(pre) == 1:
        g = pre[0]
        if not (isinstance(g, ast.If) and ast.unparse(g.test) == f"{p[1]} in special_methods" and not g.orelse
                and len(g.body) == 1 and isinstance(g.body[0], ast.Raise)):
            U("BaseRef.__getattr__ guard", fn)
        guarded = True
    elif pre:
        U("BaseRef.__getattr__ statements", fn)
    if len(p) != 2 or [ast.unparse(a) for a in call.args] != ["self", p[1], "self._manager"]:
        U("BaseRef.__getattr__ shape", fn)
    access.append(["__getattr__", call.func.id, guarded])
    fn = bm.get("__call__")
    pre, call = ret_call(fn, "__call__")
    if pre or fn.args.vararg is None or fn.args.kwarg is None or len(fn.args.args) != 1 or \
            [ast.unparse(a) for a in call.args] != ["self", fn.args.vararg.arg, fn.args.kwarg.arg]:
        U("BaseRef.__call__ shape", fn)
    access.append(["__call__", call.func.id, False])
    # special_methods: a set of dunder-like names (none can be a MAD-X attribute name reached here
    # unless it is literally one of them; recorded so that the harness excludes exactly these)
    special = None
    for node in tree.body:
        if isinstance(node, ast.Assign) and ast.unparse(node.targets[0]) == "special_methods":
            if not isinstance(node.value, ast.Set) or not all(isinstance(e, ast.Constant) for e in node.value.elts):
                U("special_methods is not a set of constants", node)
            special = sorted(e.value for e in node.value.elts)
    if guarded and special is None:
        U("special_methods not found")
    # node classes
    cbin, cun, cacc = [], [], []
    for _, cname, _ in dbin:
        if any(c[0] == cname for c in cbin):
            continue
        if cname not in cls or cls[cname][0] != ["BinOpExpr"]:
            U(f"{cname} is not a direct BinOpExpr subclass")
        gv = methods(cls[cname][1]).get("_get_value")
        if gv is None:
            U(f"{cname}._get_value missing")
        body = strip_doc(gv.body)
        lhs, rhs = mk_value_calls(body[:2], ["_lhs", "_rhs"], cname, gv)
        rest = body[2:]
        guarded_zd = False
        if len(rest) == 1 and isinstance(rest[0], ast.Try):
            t = rest[0]
            if not (len(t.body) == 1 and len(t.handlers) == 1 and not t.orelse and not t.finalbody
                    and ast.unparse(t.handlers[0].type) == "ZeroDivisionError" and len(t.handlers[0].body) == 1
                    and ast.unparse(t.handlers[0].body[0]) == "return float('nan')"):
                U(f"{cname}._get_value: try shape", t)
            guarded_zd = True
            rest = t.body
        if not (len(rest) == 1 and isinstance(rest[0], ast.Return) and isinstance(rest[0].value, ast.BinOp)
                and isinstance(rest[0].value.left, ast.Name) and isinstance(rest[0].value.right, ast.Name)):
            U(f"{cname}._get_value: not `return lhs <op> rhs`", gv)
        l, r = rest[0].value.left.id, rest[0].value.right.id
        if (l, r) != (lhs, rhs):
            U(f"{cname}._get_value: operands are ({l}, {r}), expected ({lhs}, {rhs})", gv)
        cbin.append([cname, type(rest[0].value.op).__name__, guarded_zd])
    for _, cname in dun:
        if any(c[0] == cname for c in cun):
            continue
        if cname not in cls or cls[cname][0] != ["UnaryOpExpr"]:
            U(f"{cname} is not a direct UnaryOpExpr subclass")
        gv = methods(cls[cname][1]).get("_get_value")
        body = strip_doc(gv.body)
        (arg,) = mk_value_calls(body[:1], ["_arg"], cname, gv)
        if not (len(body) == 2 and isinstance(body[1], ast.Return) and isinstance(body[1].value, ast.UnaryOp)
                and isinstance(body[1].value.operand, ast.Name) and body[1].value.operand.id == arg):
            U(f"{cname}._get_value shape", gv)
        cun.append([cname, type(body[1].value.op).__name__])
    for d, cname, _ in access:
        if cname not in cls:
            U(f"{cname} not found")
        gv = methods(cls[cname][1]).get("_get_value")
        if gv is None:
            U(f"{cname}._get_value missing")
        body = strip_doc(gv.body)
        if d in ("__getitem__", "__getattr__"):
            if cls[cname][0] != ["MutableRef"]:
                U(f"{cname} bases")
            o, k = mk_value_calls(body[:2], ["_owner", "_key"], cname, gv)
            if len(body) != 3 or not isinstance(body[2], ast.Return):
                U(f"{cname}._get_value shape", gv)
            r = ast.unparse(body[2].value)
            if r == f"{o}[{k}]":
                cacc.append([cname, "getitem"])
            elif r == f"getattr({o}, {k})":
                cacc.append([cname, "getattr"])
            else:
                U(f"{cname}._get_value returns {r}", gv)
        else:
            want = ["func = BaseRef._mk_value(self._func)",
                    "args = [BaseRef._mk_value(a) for a in self._args]",
                    "kwargs = {n: BaseRef._mk_value(v) for n, v in self._kwargs}",
                    "return func(*args, **kwargs)"]
            if [ast.unparse(s) for s in body] != want:
                U(f"{cname}._get_value shape", gv)
            cacc.append([cname, "call"])
    # _mk_value
    mv = bm.get("_mk_value")
    mv_ok = mv is not None and [ast.unparse(s) for s in strip_doc(mv.body)] == \
        ["if isinstance(value, BaseRef):\n    return value._get_value()\nelse:\n    return value"]
    if not mv_ok:
        U("BaseRef._mk_value shape", mv)
    # constructors store their operands in order

    def cinit_assigns(cname, pairs):
        ci = methods(cls[cname][1]).get("__cinit__")
        if ci is None:
            U(f"{cname}.__cinit__ missing")
        src = [ast.unparse(s) for s in strip_doc(ci.body)]
        pn = [a.arg for a in ci.args.args][1:]
        for (field, idx) in pairs:
            if f"self.{field} = {pn[idx]}" not in src:
                U(f"{cname}.__cinit__ does not store parameter {idx} in {field}", ci)
            if sum(1 for s in src if s.startswith(f"self.{field} =")) != 1:
                U(f"{cname}.__cinit__ assigns {field} more than once", ci)
    cinit_assigns("BinOpExpr", [("_lhs", 0), ("_rhs", 1)])
    cinit_assigns("UnaryOpExpr", [("_arg", 0)])
    cinit_assigns("MutableRef", [("_owner", 0), ("_key", 1)])
    cinit_assigns("CallRef", [("_func", 0), ("_args", 1)])
    for cname in [c[0] for c in cbin] + [c[0] for c in cun] + [c[0] for c in cacc if c[1] != "call"]:
        ms = methods(cls[cname][1])
        ci = ms.get("__cinit__")
        if ci is not None:
            for s in strip_doc(ci.body):
                if not ast.unparse(s).startswith("self._hash ="):
                    U(f"{cname}.__cinit__ does more than set the hash", s)
    return {"dunder_bin": dbin, "dunder_un": dun, "access": access, "class_bin": cbin, "class_un": cun,
            "class_access": cacc, "mk_value_ok": True, "fields_ok": True, "special_methods": special or []}


# ------------------------------------------------------------------ Coq emission
def cs(s):
    if any(ord(c) > 126 or ord(c) < 32 for c in s):
        U(f"non-printable character in {s!r}")
    return '"' + s.replace('"', '""') + '"'


def cb(b):
    return "true" if b else "false"


def clist(xs):
    return "[" + "; ".join(xs) + "]"


def csym(s):
    k = s[0]
    if k == "rule":
        return f"GRule {cs(s[1])}"
    if k == "term":
        return f"GTerm {cs(s[1])}"
    if k == "lit":
        return f"GLit {cs(s[1])}"
    return f"GStar {clist([csym(x) for x in s[1]])}"


def cgrammar(g):
    rules = []
    for r in g["rules"]:
        alts = [f"mk_galt {clist([csym(s) for s in a['syms']])} " + ("None" if a["alias"] is None else f"(Some {cs(a['alias'])})")
                for a in r["alts"]]
        rules.append(f"mk_grule {cs(r['name'])} {cb(r['inline'])}\n      " + clist(alts).replace("; mk_galt", ";\n       mk_galt"))
    terms = [f"mk_gterm {cs(t['name'])} {cs(t['regex'])}" for t in g["terms"]]
    return ("mk_grammar\n   " + clist(rules).replace("; mk_grule", ";\n    mk_grule") + "\n   " + clist(terms) + "\n   "
            + clist([cs(x) for x in g["imports"]]) + " " + clist([cs(x) for x in g["ignore"]]))


def ccexpr(e):
    k = e[0]
    if k == "param":
        return f"(CParam {e[1]})"
    if k == "self":
        return f"(CSelf {cs(e[1])})"
    if k == "value":
        return f"(CValue {ccexpr(e[1])})"
    if k == "getitem":
        return f"(CGetItem {ccexpr(e[1])} {ccexpr(e[2])})"
    if k == "getattr":
        return f"(CGetAttr {ccexpr(e[1])} {ccexpr(e[2])})"
    if k == "callstar":
        return f"(CCallStar {ccexpr(e[1])})"
    if k == "trykey":
        return f"(CTryKey {ccexpr(e[1])})"
    raise Unrecognised(str(e))


def ccallback(c):
    if c["kind"] == "operator":
        return f"CbOperator {cs(c['name'])}"
    if c["kind"] == "builtin":
        return f"CbBuiltin {cs(c['name'])}"
    return f"CbMethod {c['nparams']} {cb(c['star'])} {ccexpr(c['body'])}"


def emit(m, r):
    out = ["(* GENERATED by tools/py2v/gen_madx.py from xdeps/madxutils.py and xdeps/refs.py - do not edit *)",
           "From Coq Require Import String List.", "From XD Require Import model.MadxSyn.", "Import ListNotations.",
           "Open Scope string_scope.", ""]
    out.append("Definition madx_grammar : MadxSyn.grammar :=\n  " + cgrammar(m["grammar"]) + ".\n")
    out.append("(* the same text after grammar.replace(...) of attribute mode *)")
    out.append("Definition madx_grammar_attr : MadxSyn.grammar :=\n  " + cgrammar(m["grammar_attr"]) + ".\n")
    cbs = [f"({cs(k)}, {ccallback(v)})" for k, v in m["callbacks"] if v["kind"] != "assign"]
    out.append("Definition callbacks : list (string * callback) :=\n  " + clist(cbs).replace("; (", ";\n   (") + ".\n")
    c = m["cfg"]
    out.append("Definition eval_cfg : madx_eval_cfg :=\n  mk_cfg " + cb(c["inline_args"]) + " "
               + clist([f"({cs(f)}, {i})" for f, i in c["init_fields"]]) + f" {cs(c['parser'])} {cb(c['transformer_self'])} "
               + f"({cs(c['attr_replace'][0])}, {cs(c['attr_replace'][1])}) ({cs(c['attr_key'][0])}, {cs(c['attr_key'][1])}).\n")
    e = m["env"]
    out.append("Definition env_cfg : madx_env_cfg :=\n  mk_envcfg " + clist([f"({cs(a)}, {cs(b)}, {cs(l)})" for a, b, l in e["refs"]])
               + " " + clist([cs(x) for x in e["madexpr"]]) + " " + clist([cs(x) for x in e["madeval"]]) + ".\n")
    out.append("Definition ref_tabs : MadxSyn.ref_tables :=\n  mk_reftab\n   "
               + clist([f"({cs(d)}, ({cs(k)}, {cb(s)}))" for d, k, s in r["dunder_bin"]]) + "\n   "
               + clist([f"({cs(d)}, {cs(k)})" for d, k in r["dunder_un"]]) + "\n   "
               + clist([f"({cs(d)}, ({cs(k)}, {cb(g)}))" for d, k, g in r["access"]]) + "\n   "
               + clist([f"({cs(k)}, ({cs(o)}, {cb(g)}))" for k, o, g in r["class_bin"]]) + "\n   "
               + clist([f"({cs(k)}, {cs(o)})" for k, o in r["class_un"]]) + "\n   "
               + clist([f"({cs(k)}, {cs(o)})" for k, o in r["class_access"]]) + "\n   "
               + cb(r["mk_value_ok"]) + " " + cb(r["fields_ok"]) + ".\n")
    out.append("Definition special_methods : list string :=\n  " + clist([cs(x) for x in r["special_methods"]]) + ".\n")
    return "\n".join(out)


def main():
    try:
        m = extract_madx()
        r = extract_refs()
        if "--json" in sys.argv:
            json.dump({"madx": m, "refs": r}, sys.stdout, indent=1)
            return
        write_if_changed("GenMadx.v", emit(m, r))
    except Unrecognised as e:
        if "--json" not in sys.argv:
            # never leave the tables of another tree behind: the development must not build against stale data
            msg = str(e).replace("*)", "* )").replace("(*", "( *")
            write_if_changed("GenMadx.v", "(* tools/py2v translator FAILED on the current source: " + msg + " *)\n"
                             "Definition translator_failed_no_tables : bool := true.\n")
        fail("gen_madx: " + str(e))


if __name__ == "__main__":
    main()
