"""Shared by the refs.py translators: fail-closed parsing helpers and the
class numbering (index of the class definition in xdeps/refs.py, in source
order) that every generated table uses as class id."""
import ast, os, sys

REPO = os.environ.get("VERIF_REPO", "/repo")
VERIF = os.path.dirname(os.path.dirname(os.path.dirname(os.path.abspath(__file__))))
GEN = os.path.join(VERIF, "coq", "gen")


class Unrecognised(Exception):
    """A construct the translator does not understand: the tie is broken
    (fail closed), never guessed."""


def parse(relpath):
    p = os.path.join(REPO, relpath)
    return ast.parse(open(p).read(), filename=p)


def classes(tree):
    """[(id, name, [base names], ClassDef)] in source order"""
    out = []
    for node in tree.body:
        if isinstance(node, ast.ClassDef):
            bases = [b.id if isinstance(b, ast.Name) else ast.unparse(b) for b in node.bases]
            out.append((len(out), node.name, bases, node))
    return out


def methods(cdef):
    return {n.name: n for n in cdef.body if isinstance(n, ast.FunctionDef)}


def strip_doc(body):
    if body and isinstance(body[0], ast.Expr) and isinstance(body[0].value, ast.Constant) and isinstance(body[0].value.value, str):
        return body[1:]
    return body


def coq_string_codes(s):
    """a Python str as a Coq `list N` of code points"""
    return "[" + "; ".join(f"{ord(c)}%N" for c in s) + "]"


def write_if_changed(name, text):
    os.makedirs(GEN, exist_ok=True)
    p = os.path.join(GEN, name)
    if not os.path.exists(p) or open(p).read() != text:
        open(p, "w").write(text)
    return p


def fail(msg):
    print("py2v: " + msg, file=sys.stderr)
    sys.exit(1)
