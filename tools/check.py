#!/venv/bin/python
"""./check <ID> [--tier quick|thorough] [--replay FILE]

exit 0: property held on everything explored (KNOWN-FINDING lines possible)
exit 1: VIOLATION line(s) printed
exit 2: infrastructure failure of the machinery itself (a bug to fix, not a finding)
"""
import subprocess, sys, os, argparse, importlib, traceback, json
sys.path.insert(0, os.path.dirname(os.path.abspath(__file__)))
sys.path.insert(0, os.path.join(os.path.dirname(os.path.abspath(__file__)), "checks"))
import vlib


def main():
    ap = argparse.ArgumentParser()
    ap.add_argument("pid")
    ap.add_argument("--tier", default=os.environ.get("VERIF_TIER", "quick"), choices=["quick", "thorough"])
    ap.add_argument("--replay", default=None)
    a = ap.parse_args()
    seed = int(os.environ.get("VERIF_SEED", "0") or 0)
    ctx = vlib.Ctx(a.pid, a.tier, seed)
    try:
        mod = importlib.import_module(f"checks.{a.pid}")
    except Exception:
        traceback.print_exc()
        print(f"[{a.pid}] INFRASTRUCTURE ERROR (cannot import the check)", file=sys.stderr)
        sys.exit(2)
    try:
        if a.replay:
            rc = mod.replay(ctx, json.load(open(a.replay)))
            sys.exit(rc)
        mod.run(ctx)
        rc = vlib.finish(ctx)
    except vlib.ImplCrash as e:
        # the library raised where the harness only observes it: a behaviour change, not an infrastructure problem
        ctx.obligations.append(("the implementation runners ran to the end", False, str(e)[-300:]))
        vlib.violation(ctx, {"kind": "proof-or-correspondence",
                             "no_longer_checks": ["the implementation runner was brought down by an exception raised inside the library: " + str(e)[-3000:]],
                             "searched": "the run stopped at the crash; no minimised input"}, no_input=True)
        sys.exit(vlib.finish(ctx))
    except vlib.InfraError as e:
        print(f"[{a.pid}] INFRASTRUCTURE ERROR: {e}", file=sys.stderr)
        sys.exit(2)
    except (OSError, MemoryError, subprocess.TimeoutExpired):
        traceback.print_exc()
        print(f"[{a.pid}] INFRASTRUCTURE ERROR (resources)", file=sys.stderr)
        sys.exit(2)
    except Exception:
        # the harness could not digest what the implementation returned (unexpected shapes, missing fields, ...): on the
        # unchanged tree this does not happen, so the correspondence can no longer be evaluated on this tree and the
        # property is no longer shown to hold; reported without a minimised input
        tb = traceback.format_exc()
        traceback.print_exc()
        ctx.obligations.append(("the correspondence harness ran to the end", False, tb[-300:]))
        vlib.violation(ctx, {"kind": "proof-or-correspondence",
                             "no_longer_checks": ["the correspondence harness could not complete on this tree: " + tb[-3000:]],
                             "searched": "the run stopped at the exception; no minimised input"}, no_input=True)
        sys.exit(vlib.finish(ctx))
    sys.exit(rc)


if __name__ == "__main__":
    main()
