#!/venv/bin/python
"""./check <ID> [--tier quick|thorough] [--replay FILE]

exit 0: property held on everything explored (KNOWN-FINDING lines possible)
exit 1: VIOLATION line(s) printed
exit 2: infrastructure failure of the machinery itself (a bug to fix, not a finding)
"""
import sys, os, argparse, importlib, traceback, json
sys.path.insert(0, os.path.dirname(os.path.abspath(__file__)))
sys.path.insert(0, os.path.join(os.path.dirname(os.path.abspath(__file__)), "checks"))
import vlib


def main():
    ap = argparse.ArgumentParser()
    ap.add_argument("pid")
    ap.add_argument("--tier", default=os.environ.get("VERIF_TIER", "quick"), choices=["quick", "thorough"])
    ap.add_argument("--replay", default=None)
    a = ap.parse_args()
    seed = int(os.environ.get("VERIF_SEED", "0") or 0)
    ctx = vlib.Ctx(a.pid, a.tier, seed)
    try:
        mod = importlib.import_module(f"checks.{a.pid}")
    except Exception:
        traceback.print_exc()
        print(f"[{a.pid}] INFRASTRUCTURE ERROR (cannot import the check)", file=sys.stderr)
        sys.exit(2)
    try:
        if a.replay:
            rc = mod.replay(ctx, json.load(open(a.replay)))
            sys.exit(rc)
        mod.run(ctx)
        rc = vlib.finish(ctx)
    except vlib.InfraError as e:
        print(f"[{a.pid}] INFRASTRUCTURE ERROR: {e}", file=sys.stderr)
        sys.exit(2)
    except Exception:
        traceback.print_exc()
        print(f"[{a.pid}] INFRASTRUCTURE ERROR (unhandled exception in the check)", file=sys.stderr)
        sys.exit(2)
    sys.exit(rc)


if __name__ == "__main__":
    main()
