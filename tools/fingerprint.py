#!/venv/bin/python
"""Normalised-AST fingerprints of the functions the hand-written manager models mirror
(docstrings, comments and logging calls removed).  A fingerprint that differs from the one
the model was last validated against NEVER raises an alarm by itself: it only makes the quick
tier run its correspondence at a larger size (DESIGN section 3.3)."""
import ast, hashlib, json, os, sys

VERIF = os.path.dirname(os.path.dirname(os.path.abspath(__file__)))
STORE = os.path.join(VERIF, "tools", "fingerprints.json")
TARGETS = {
    "xdeps/tasks.py": ["Manager.set_value", "Manager.run_tasks", "Manager.register", "Manager.unregister", "Manager.find_deps",
                       "Manager.find_taskids", "Manager.find_tasks", "Manager.freeze_tree", "Manager.unfreeze_tree", "Manager.load",
                       "Manager.copy_expr_from", "Manager.iter_expr_tasks_owner", "Manager.mk_fun", "Manager.gen_fun", "Manager.dump",
                       "Manager.cleanup", "Manager.clone", "Manager.verify", "Manager.refresh", "ExprTask.__init__", "ExprTask.run",
                       "FunctionTask.__init__", "FunctionTask.run", "LinearKnob.__init__", "LinearKnob.run"],
    "xdeps/sorting.py": ["_dfs", "toposort"],
    "xdeps/refs.py": ["RefCount.append", "RefCount.extend", "RefCount.remove", "MutableRef._get_dependencies", "MutableRef.__setitem__",
                      "MutableRef.__setattr__", "Ref._get_dependencies", "ItemRef._set_value", "AttrRef._set_value"],
}


class Strip(ast.NodeTransformer):
    def visit_Expr(self, node):
        v = node.value
        if isinstance(v, ast.Constant) and isinstance(v.value, str):
            return None
        if isinstance(v, ast.Call) and isinstance(v.func, ast.Attribute) and isinstance(v.func.value, ast.Name) and v.func.value.id in ("logger", "log"):
            return None
        return self.generic_visit(node)


def fingerprints(repo):
    out = {}
    for rel, names in TARGETS.items():
        tree = ast.parse(open(os.path.join(repo, rel)).read())
        defs = {}
        for n in tree.body:
            if isinstance(n, ast.FunctionDef):
                defs[n.name] = n
            elif isinstance(n, ast.ClassDef):
                for m in n.body:
                    if isinstance(m, ast.FunctionDef):
                        defs[f"{n.name}.{m.name}"] = m
        for name in names:
            node = defs.get(name)
            if node is None:
                out[f"{rel}:{name}"] = "missing"
                continue
            node = Strip().visit(ast.parse(ast.unparse(node)))
            out[f"{rel}:{name}"] = hashlib.sha256(ast.dump(node).encode()).hexdigest()[:16]
    return out


def changed(repo):
    """names of the mirrored functions whose fingerprint differs from the recorded one"""
    cur = fingerprints(repo)
    old = json.load(open(STORE)) if os.path.exists(STORE) else {}
    return sorted(k for k in cur if old.get(k) != cur[k])


if __name__ == "__main__":
    repo = os.environ.get("VERIF_REPO", "/repo")
    if len(sys.argv) > 1 and sys.argv[1] == "record":
        json.dump(fingerprints(repo), open(STORE, "w"), indent=1, sort_keys=True)
        print("recorded", len(fingerprints(repo)))
    else:
        print(json.dumps(changed(repo)))
