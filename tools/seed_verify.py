#!/usr/bin/env python3
"""Confirms a seeded change (patch.diff + demo.py written by an independent agent) and runs
the registered checks against it.   usage: seed_verify.py <seedout dir>/<ID> [extra check ids...]
Writes /verif/seeded/<ID>-<tag>/{patch.diff,demo.py,notes.md,meta.json}."""
import sys, os, subprocess, json, shutil, tempfile, re, time

src = sys.argv[1].rstrip("/")
pid = os.path.basename(src)
extra = sys.argv[2:]
tag = os.path.basename(os.path.dirname(src)).replace("seedout_", "s")
dst = f"/verif/seeded/{pid}-{tag}"
PY = "/venv/bin/python"


def sh(cmd, **kw):
    return subprocess.run(cmd, shell=True, capture_output=True, text=True, **kw)


d = tempfile.mkdtemp(prefix="seedverify.")
wt = os.path.join(d, "repo")
assert sh(f"git -C /repo worktree add -q --detach {wt} HEAD").returncode == 0
meta = {"property": pid, "source": src, "confirmed": False}
try:
    sh(f"/tmp/seedtools/build_ext.sh {wt}")
    r0 = sh(f"PYTHONPATH={wt} PYTHONHASHSEED=0 {PY} {src}/demo.py", cwd=d, timeout=900)
    meta["demo_original"] = {"rc": r0.returncode, "tail": (r0.stdout + r0.stderr)[-300:]}
    ap = sh(f"git -C {wt} apply {src}/patch.diff")
    meta["patch_applies"] = ap.returncode == 0
    touched = sh(f"git -C {wt} diff --stat").stdout
    meta["touched"] = re.findall(r"(xdeps/\S+)", touched)
    sh(f"/tmp/seedtools/build_ext.sh {wt}")
    t = sh(f"cd {wt} && PYTHONPATH={wt} {PY} -m pytest -q -p no:cacheprovider tests 2>&1 | tail -3", timeout=1800)
    meta["suite_with_patch"] = t.stdout.strip().splitlines()[-1] if t.stdout.strip() else t.stderr[-200:]
    r1 = sh(f"PYTHONPATH={wt} PYTHONHASHSEED=0 {PY} {src}/demo.py", cwd=d, timeout=900)
    meta["demo_patched"] = {"rc": r1.returncode, "tail": (r1.stdout + r1.stderr)[-400:]}
    meta["confirmed"] = (meta["patch_applies"] and r0.returncode == 0 and r1.returncode != 0 and "76 passed" in meta["suite_with_patch"])
    checks = {}
    for cid in [pid] + extra:
        t0 = time.time()
        c = sh(f"VERIF_REPO={wt} /verif/check {cid} --tier quick", timeout=3600)
        lines = [l for l in c.stdout.splitlines() if l.startswith("VIOLATION") or l.startswith("KNOWN") or l.startswith("[")]
        checks[cid] = {"rc": c.returncode, "lines": lines[-4:], "wall_s": round(time.time() - t0, 1)}
        m = re.search(r"replay=(\S+)", c.stdout)
        if m and os.path.exists(m.group(1)):
            checks[cid]["replay_excerpt"] = open(m.group(1)).read()[:1200]
        if c.returncode == 2:
            checks[cid]["stderr"] = c.stderr[-600:]
    meta["checks"] = checks
    meta["detected_by"] = [k for k, v in checks.items() if v["rc"] == 1]
finally:
    sh(f"git -C /repo worktree remove --force {wt}")
    shutil.rmtree(d, ignore_errors=True)
os.makedirs(dst, exist_ok=True)
for f in ("patch.diff", "demo.py", "notes.md"):
    if os.path.exists(os.path.join(src, f)):
        shutil.copy(os.path.join(src, f), os.path.join(dst, f))
json.dump(meta, open(os.path.join(dst, "meta.json"), "w"), indent=1)
print(pid, tag, "confirmed" if meta["confirmed"] else "NOT CONFIRMED", "detected_by", meta.get("detected_by"),
      {k: v["rc"] for k, v in meta.get("checks", {}).items()})
