import sys, pickle, math, traceback
import numpy as np
import xdeps as xd
from xdeps.refs import is_cythonized
print("cythonized", is_cythonized(), xd.__file__)
res = {}
def chk(name, f):
    try:
        ok = f()
    except BaseException as e:
        ok = f"EXC {type(e).__name__}: {str(e)[:80]}"
    res[name] = ok
    print(name, "->", ok)

def F1():
    m = xd.Manager(); d = {'v0': 1}; r = m.ref(d, 'd')
    n = 3000
    for i in range(1, n): r[f'v{i}'] = r[f'v{i-1}'] + 1
    r['v0'] = 5
    return d[f'v{n-1}'] == 5 + n - 1
chk("F1 chain3000", F1)

class O: pass
def F3():
    m = xd.Manager(); c = O(); c.n = O(); c.n.x = 1; c.n.y = 2; c.n.z = 0; c.n.w = 0
    r = m.ref(c, 'c')
    r.n.z = r.n.x + 1
    r.n.w = r.n.y * 2
    r.n.z = 5
    r.n.y = 7
    m.verify()
    return c.n.w == 14
chk("F3 unregister", F3)

def F4a():
    m = xd.Manager(); d = {'a': 2.5}; r = m.ref(d, 'd')
    v = round(r['a'])._get_value()
    return type(v) is int and v == round(2.5)
chk("F4a round", F4a)
def F4b():
    m = xd.Manager(); d = {'a': 7, 'b': 6}; r = m.ref(d, 'd')
    r['b'] &= 3
    ok1 = d['b'] == 2 and r['b']._expr is None
    r['b'] |= 8
    return ok1 and d['b'] == 10 and r['b']._expr is None
chk("F4b iand/ior", F4b)
def F5a():
    m = xd.Manager(); d = {'a': 2.567, 'b': 1}; r = m.ref(d, 'd')
    e = round(r['a'], r['b'])
    return r['b'] in e._get_dependencies() and r['b'] in divmod(r['a'], r['b'])._get_dependencies()
chk("F5a builtin deps", F5a)
def F5b():
    m = xd.Manager(); d = {'a': 2.567, 'b': 1}; r = m.ref(d, 'd')
    return r._get_dependencies() == set() and (-r)._get_dependencies() == set()
chk("F5b Ref deps None", F5b)
def F11():
    m = xd.Manager(); d = {'a': -2.5, 'b': 1}; r = m.ref(d, 'd')
    r['b'] = abs(r['a']); r['c'] = round(r['a'], 1)
    m2 = pickle.loads(pickle.dumps(m))
    m2.containers['d']['a'] = -4.26
    return m2.containers['d']._owner['b'] == 4.26 and m2.containers['d']._owner['c'] == -4.3
chk("F11 pickle builtin", F11)
def F12():
    m = xd.Manager(); c = {'n': [1, 2, 3], 's': 0}; f = m.ref({'sum': sum}, 'f'); r = m.ref(c, 'c')
    r['s'] = f['sum'](r['n'])
    g = m.gen_fun('g', x=r['n'][1])
    g(10)
    return c['s'] == 14
chk("F12 mk_fun", F12)
def F13():
    m = xd.Manager(); d = {'a': 1, 'b': 0}; r = m.ref(d, 'd')
    r['b'] = r['a'] * 2
    m.freeze_tree()
    try: m.refresh()
    except ValueError: pass
    r['a'] = 5
    return d['b'] == 10
chk("F13 refresh frozen", F13)
def F7():
    t = xd.Table({'name': np.array(['ip1', 'ip2', 'ip3', 'ip4']), 'betx': np.array([1., 2., 3., 4.])})
    t['betx', 'ip3']
    t['name', 2] = 'foo'
    a = t['betx', 'foo'] == 3.
    try: t['betx', 'ip3']; b = False
    except KeyError: b = True
    return a and b
chk("F7 table cache", F7)
def F8a():
    t = xd.Table({'name': np.array(['a', 'b', 'c', 'd']), 's': np.array([1., 2., 3., 4.])})
    return list(t.rows[1.5::'s'].name) == ['b', 'c', 'd'] and list(t.rows[:2.5:'s'].name) == ['a', 'b']
chk("F8a open range", F8a)
def F8b():
    t = xd.Table({'name': np.array(['ip1', 'ip2', 'ip1', 'x', 'ip2']), 's': np.array([1., 2., 3., 4., 5.])})
    return list(t.rows['ip.*::-1'].s) == [3., 5.]
chk("F8b regex::-1", F8b)
def F8c():
    t = xd.Table({'name': np.array(['ip3', 'ip1', 'ip2', 'ip2', 'ip1', 'ip3']), 's': np.arange(6.)})
    return list(t.rows['ip.*::1'].s) == [3., 4., 5.] and list(t.rows['ip.*::0'].s) == [0., 1., 2.]
chk("F8c regex::count order", F8c)
def mkopt(**kw):
    x = {'k0': 0., 'k1': 0.}
    class A(xd.Action):
        def run(self): return {'t0': x['k0'] + 0.5 * x['k1'], 't1': x['k1'] - 0.2 * x['k0']}
    a = A()
    opt = xd.Optimize(vary=[xd.Vary('k0', x, step=1e-6, **kw.get('v0', {})), xd.Vary('k1', x, step=1e-6, **kw.get('v1', {}))],
        targets=[a.target('t0', 10., tol=1e-9), a.target('t1', 10., tol=1e-9)], show_call_counter=False)
    return opt, x
def F9a():
    opt, x = mkopt()
    opt.step(1, disable_target=[0])
    return all(t.active for t in opt.targets)
chk("F9a step disable_target", F9a)
def F9b():
    opt, x = mkopt(v0=dict(max_step=1.), v1=dict(max_step=5.))
    opt.step(1)
    return abs(x['k0']) <= 1 + 1e-12 and abs(x['k1']) <= 5 + 1e-12
chk("F9b clip", F9b)
def F9c():
    opt, x = mkopt(v0=dict(max_step=1., weight=4.), v1=dict(max_step=5.))
    opt.step(1)
    return abs(x['k0']) <= 1 + 1e-12 and abs(x['k1']) <= 5 + 1e-12
chk("F9c clip weight", F9c)
print("FAILED:", [k for k, v in res.items() if v is not True])
