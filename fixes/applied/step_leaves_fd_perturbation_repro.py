"""Failing input for C10 on the unchanged tree: when Optimize.step()/solve(restore_if_fail=False)
raises after get_jacobian (here: numpy's LinAlgError for a NaN Jacobian; any exception of the
user's action does the same) the container keeps the last finite-difference perturbation x+h.
A knob sitting on its upper limit is then left ABOVE the limit (0.75 + 1e-10 > 0.75) and, once it
is disabled, every later log row records it outside the closed limits.
Run:  PYTHONPATH=<build of /repo> /venv/bin/python step_leaves_fd_perturbation_repro.py
"""
import numpy as np
import xdeps.general
import xdeps.optimize.optimize as xo
xdeps.general._print.suppress = True
np.seterr(all="ignore")

cont = {"a": 0.5, "b": 0.75}


class Act(xo.Action):
    def run(self):
        a, b = np.float64(cont["a"]), np.float64(cont["b"])
        u = a - 0.5
        return [a + 0.5 * b + (u * 0.0) / u, 0.25 * a + b]      # first target undefined (0/0) at a == 0.5


act = Act()
opt = xo.Optimize(vary=[xo.Vary("a", cont, limits=(-2.0, 2.0)), xo.Vary("b", cont, limits=(None, 0.75))],
                  targets=[xo.Target(0, 1.0, tol=1e-8, action=act), xo.Target(1, 2.0, tol=1e-8, action=act)],
                  restore_if_fail=False, show_call_counter=False)
try:
    opt.solve()
except Exception as e:
    print("solve raised:", type(e).__name__)
print("b in the container:", repr(float(cont["b"])), " limit 0.75")
opt.step(0, disable_vary=[1])
print("last log row:", [float(v) for v in opt._log["knobs"][-1]])
assert float(cont["b"]) <= 0.75, "container above the upper limit"
