"""Failing input for C15 on the unchanged tree: an exception of the user's action
inside add_point_to_log() leaves _log["knobs"] one entry longer than the other
columns; every later row pairs the knob values of one point with the penalty /
targets of another, and reload(i) loads the wrong point.
Run:  PYTHONPATH=<build of /repo> /venv/bin/python add_point_to_log_ragged_repro.py
"""
import xdeps.general
import xdeps.optimize.optimize as xo
xdeps.general._print.suppress = True

cont = {"k": 1.0}


class Act(xo.Action):
    def run(self):
        if cont["k"] < 0.5:
            raise RuntimeError("user action fails here")
        return [cont["k"]]


act = Act()
opt = xo.Optimize(vary=[xo.Vary("k", container=cont, step=1e-4)],
                  targets=[xo.Target(0, 0.0, tol=1e-9, action=act)], show_call_counter=False)
try:
    opt.step(1)          # the Newton step lands in the failing region: raises, container left there
except RuntimeError as e:
    print("step raised:", e, " k =", cont["k"])
try:
    opt.tag("a")         # add_point_to_log: knobs appended, then the evaluation raises
except RuntimeError as e:
    print("tag raised:", e)
cont["k"] = 1.0
opt.tag("b")             # a good point
L = opt._log
print("column lengths:", {k: len(v) for k, v in L.items() if k in ("knobs", "penalty", "targets", "tag")})
i = len(L["penalty"]) - 1
print("row", i, "tag", L["tag"][i], "knobs", L["knobs"][i], "penalty", L["penalty"][i], "(penalty of k=1.0 is 1.0)")
opt.reload(iteration=i) if False else None
assert len(L["knobs"]) == len(L["penalty"]), "log columns misaligned"
