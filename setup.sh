#!/bin/sh
# Offline setup after a fresh restore: build the implementation scratch copies
# and the whole Coq development (full .vo build).
cd "$(dirname "$0")" || exit 1
set -e
/venv/bin/python - <<'PY'
import sys
sys.path.insert(0, "tools")
import vlib
print("impl builds:", vlib.build_impl())
print("translators:", vlib.regenerate())
vlib.ensure_makefile()
PY
cd coq && timeout 3000 make -k -j16 2>&1 | tail -5
