(* tools/py2v translator FAILED on the current source: SVD.lstsq: s_inv initialisation (line 74) *)
Definition translator_failed_no_tables : bool := true.
