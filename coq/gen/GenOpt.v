(* tools/py2v translator FAILED on the current source: chain rule: expression 'self.merit_function._get_x_limits()' not recognised (line 480) *)
Definition translator_failed_no_tables : bool := true.
