(* tools/py2v translator FAILED on the current source: MeritFuctionView.get_jacobian: rescale branch (line 478) *)
Definition translator_failed_no_tables : bool := true.
