(* tools/py2v translator FAILED on the current source: CallRef._get_value shape (line 1175) *)
Definition translator_failed_no_tables : bool := true.
