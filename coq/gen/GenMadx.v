(* tools/py2v translator FAILED on the current source: ItemRef._get_value shape (line 728) *)
Definition translator_failed_no_tables : bool := true.
