(* tools/py2v translator FAILED on the current source: callback _element: body does not end in a return (or try/return/except KeyError/raise) (line 81) *)
Definition translator_failed_no_tables : bool := true.
