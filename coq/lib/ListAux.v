(* Association lists with Python-dict semantics (update in place, else append)
   and a few list facts used across the models.  Executable definitions and
   their characterising lemmas. *)
From Coq Require Import List Bool Arith ZArith NArith Lia.
Import ListNotations.

Section Assoc.
  Context {K V : Type}.
  Variable eqb : K -> K -> bool.
  Hypothesis eqb_spec : forall a b, eqb a b = true <-> a = b.

  Fixpoint aget (k : K) (l : list (K * V)) : option V :=
    match l with
    | [] => None
    | (k', v) :: t => if eqb k k' then Some v else aget k t
    end.

  Fixpoint aset (k : K) (v : V) (l : list (K * V)) : list (K * V) :=
    match l with
    | [] => [(k, v)]
    | (k', v') :: t => if eqb k k' then (k, v) :: t else (k', v') :: aset k v t
    end.

  Fixpoint adel (k : K) (l : list (K * V)) : list (K * V) :=
    match l with
    | [] => []
    | (k', v') :: t => if eqb k k' then t else (k', v') :: adel k t
    end.

  Lemma eqb_refl k : eqb k k = true.
  Proof. apply eqb_spec; reflexivity. Qed.

  Lemma eqb_neq a b : a <> b -> eqb a b = false.
  Proof. intros H; destruct (eqb a b) eqn:E; auto. apply eqb_spec in E; contradiction. Qed.

  Lemma aget_aset_same k v l : aget k (aset k v l) = Some v.
  Proof.
    induction l as [|[k' v'] t IH]; cbn.
    - now rewrite eqb_refl.
    - destruct (eqb k k') eqn:E; cbn; rewrite ?eqb_refl, ?E; auto.
  Qed.

  Lemma aget_aset_other k k' v l : k <> k' -> aget k' (aset k v l) = aget k' l.
  Proof.
    intros Hn. induction l as [|[k2 v2] t IH]; cbn.
    - rewrite eqb_neq; auto.
    - destruct (eqb k k2) eqn:E; cbn.
      + apply eqb_spec in E; subst k2. rewrite eqb_neq; auto.
      + rewrite IH; reflexivity.
  Qed.
End Assoc.

Lemma nth_error_snoc {A} (l : list A) x n :
  nth_error (l ++ [x]) n =
  if n <? length l then nth_error l n else if n =? length l then Some x else None.
Proof.
  destruct (Nat.ltb_spec n (length l)).
  - now rewrite nth_error_app1.
  - rewrite nth_error_app2 by lia. destruct (Nat.eqb_spec n (length l)).
    + subst; now rewrite Nat.sub_diag.
    + destruct (n - length l) as [|k] eqn:E; [lia|]. cbn. now destruct k.
Qed.

Lemma NoDup_snoc {A} (l : list A) k : NoDup l -> ~ In k l -> NoDup (l ++ [k]).
Proof.
  induction l as [|x t IH]; cbn; intros H Hn.
  - constructor; auto.
  - inversion H; subst. constructor.
    + rewrite in_app_iff; cbn. intros [H1|[H1|[]]]; auto.
    + apply IH; auto.
Qed.

Lemma NoDup_app_l {A} (l1 l2 : list A) : NoDup (l1 ++ l2) -> NoDup l1.
Proof.
  induction l1 as [|x t IH]; cbn; intros H; [constructor|]. inversion H; subst. constructor.
  - intros Hin. apply H2. apply in_app_iff. now left.
  - now apply IH.
Qed.

(* deletion of every entry with the key (a Python dict has at most one) and
   facts about key lists of association lists *)
Section Assoc2.
  Context {K V : Type}.
  Variable eqb : K -> K -> bool.
  Hypothesis eqb_spec : forall a b, eqb a b = true <-> a = b.

  Fixpoint adrop (k : K) (l : list (K * V)) : list (K * V) :=
    match l with
    | [] => []
    | (k', v') :: t => if eqb k k' then adrop k t else (k', v') :: adrop k t
    end.

  Lemma aget_adrop_same k l : aget eqb k (adrop k l) = None.
  Proof.
    induction l as [|[k' v'] t IH]; cbn; auto.
    destruct (eqb k k') eqn:E; cbn; rewrite ?E; auto.
  Qed.

  Lemma aget_adrop_other k k' l : k <> k' -> aget eqb k' (adrop k l) = aget eqb k' l.
  Proof.
    intros Hn. induction l as [|[k2 v2] t IH]; cbn; auto.
    destruct (eqb k k2) eqn:E; cbn.
    - apply eqb_spec in E; subst k2. rewrite (eqb_neq eqb eqb_spec k' k) by congruence. exact IH.
    - rewrite IH; reflexivity.
  Qed.

  Lemma aget_In_keys k (l : list (K * V)) : (exists v, aget eqb k l = Some v) <-> In k (map fst l).
  Proof.
    induction l as [|[k' v'] t IH]; cbn.
    - split; [intros (w & H); discriminate|tauto].
    - destruct (eqb k k') eqn:E.
      + apply eqb_spec in E; subst. split; [auto|intros _; eauto].
      + rewrite IH. split; [auto|]. intros [H|H]; auto. subst.
        rewrite (eqb_refl eqb eqb_spec) in E; discriminate.
  Qed.

  Lemma aget_None_keys k (l : list (K * V)) : aget eqb k l = None <-> ~ In k (map fst l).
  Proof.
    rewrite <- aget_In_keys. destruct (aget eqb k l) eqn:E.
    - split; [discriminate|]. intros H; exfalso; apply H; eauto.
    - split; [intros _ (w & H); discriminate | reflexivity].
  Qed.

  Lemma keys_aset k v (l : list (K * V)) :
    map fst (aset eqb k v l) = if existsb (eqb k) (map fst l) then map fst l else map fst l ++ [k].
  Proof.
    induction l as [|[k' v'] t IH]; cbn; auto.
    destruct (eqb k k') eqn:E; cbn.
    - apply eqb_spec in E; subst; reflexivity.
    - rewrite IH. destruct (existsb (eqb k) (map fst t)); reflexivity.
  Qed.

  Lemma NoDup_keys_aset k v (l : list (K * V)) : NoDup (map fst l) -> NoDup (map fst (aset eqb k v l)).
  Proof.
    intros H. rewrite keys_aset. destruct (existsb (eqb k) (map fst l)) eqn:E; auto.
    apply NoDup_snoc; auto.
    intros Hin. assert (existsb (eqb k) (map fst l) = true); [|congruence].
    apply existsb_exists. exists k; split; auto. apply eqb_spec; reflexivity.
  Qed.

  Lemma keys_adrop_incl k (l : list (K * V)) x : In x (map fst (adrop k l)) -> In x (map fst l) /\ x <> k.
  Proof.
    induction l as [|[k' v'] t IH]; cbn; [tauto|].
    destruct (eqb k k') eqn:E; cbn.
    - intros H; destruct (IH H); split; auto.
    - intros [H|H]; [subst; split; auto; intros ->; rewrite (eqb_refl eqb eqb_spec) in E; discriminate|].
      destruct (IH H); split; auto.
  Qed.

  Lemma NoDup_keys_adrop k (l : list (K * V)) : NoDup (map fst l) -> NoDup (map fst (adrop k l)).
  Proof.
    induction l as [|[k' v'] t IH]; cbn; auto. intros H; inversion H; subst.
    destruct (eqb k k'); cbn; auto. constructor; auto.
    intros Hin. apply keys_adrop_incl in Hin. tauto.
  Qed.

  Lemma aget_app k (l1 l2 : list (K * V)) :
    aget eqb k (l1 ++ l2) = match aget eqb k l1 with Some v => Some v | None => aget eqb k l2 end.
  Proof. induction l1 as [|[k' v'] t IH]; cbn; auto. destruct (eqb k k'); auto. Qed.
End Assoc2.
