(* Association lists with Python-dict semantics (update in place, else append)
   and a few list facts used across the models.  Executable definitions and
   their characterising lemmas. *)
From Coq Require Import List Bool Arith ZArith NArith Lia.
Import ListNotations.

Section Assoc.
  Context {K V : Type}.
  Variable eqb : K -> K -> bool.
  Hypothesis eqb_spec : forall a b, eqb a b = true <-> a = b.

  Fixpoint aget (k : K) (l : list (K * V)) : option V :=
    match l with
    | [] => None
    | (k', v) :: t => if eqb k k' then Some v else aget k t
    end.

  Fixpoint aset (k : K) (v : V) (l : list (K * V)) : list (K * V) :=
    match l with
    | [] => [(k, v)]
    | (k', v') :: t => if eqb k k' then (k, v) :: t else (k', v') :: aset k v t
    end.

  Fixpoint adel (k : K) (l : list (K * V)) : list (K * V) :=
    match l with
    | [] => []
    | (k', v') :: t => if eqb k k' then t else (k', v') :: adel k t
    end.

  Lemma eqb_refl k : eqb k k = true.
  Proof. apply eqb_spec; reflexivity. Qed.

  Lemma eqb_neq a b : a <> b -> eqb a b = false.
  Proof. intros H; destruct (eqb a b) eqn:E; auto. apply eqb_spec in E; contradiction. Qed.

  Lemma aget_aset_same k v l : aget k (aset k v l) = Some v.
  Proof.
    induction l as [|[k' v'] t IH]; cbn.
    - now rewrite eqb_refl.
    - destruct (eqb k k') eqn:E; cbn; rewrite ?eqb_refl, ?E; auto.
  Qed.

  Lemma aget_aset_other k k' v l : k <> k' -> aget k' (aset k v l) = aget k' l.
  Proof.
    intros Hn. induction l as [|[k2 v2] t IH]; cbn.
    - rewrite eqb_neq; auto.
    - destruct (eqb k k2) eqn:E; cbn.
      + apply eqb_spec in E; subst k2. rewrite eqb_neq; auto.
      + rewrite IH; reflexivity.
  Qed.
End Assoc.

Lemma nth_error_snoc {A} (l : list A) x n :
  nth_error (l ++ [x]) n =
  if n <? length l then nth_error l n else if n =? length l then Some x else None.
Proof.
  destruct (Nat.ltb_spec n (length l)).
  - now rewrite nth_error_app1.
  - rewrite nth_error_app2 by lia. destruct (Nat.eqb_spec n (length l)).
    + subst; now rewrite Nat.sub_diag.
    + destruct (n - length l) as [|k] eqn:E; [lia|]. cbn. now destruct k.
Qed.
