(* Python's repr of the hashable constants that xdeps uses as keys and
   operands: str (CPython's unicode_repr: quote choice, escapes, \xNN \uNNNN
   \UNNNNNNNN for non-printable code points), int (decimal), tuples, floats
   (through an oracle) -- with left-inverse parsers.

   A Python str is a list of code points (N).  The Unicode table is not
   modelled: [printable] is a Section variable, every statement holds for every
   such table.  [repr_float] is a Section variable as well (Python's shortest
   round-trip printing is trusted, not modelled). *)
From Coq Require Import List Bool Arith NArith ZArith Lia Decimal DecimalN DecimalZ DecimalPos.
From XD Require Import model.RefSyntax.
Import ListNotations.
Open Scope N_scope.

Ltac Zify.zify_post_hook ::= Z.div_mod_to_equations.

(* ---------------------------------------------------------------- basics *)

Fixpoint pystr_eqb (a b : pystr) : bool :=
  match a, b with
  | [], [] => true
  | x :: s, y :: t => (x =? y) && pystr_eqb s t
  | _, _ => false
  end.

Lemma pystr_eqb_spec a b : pystr_eqb a b = true <-> a = b.
Proof.
  revert b; induction a as [|x a IH]; intros [|y b]; cbn; try (split; congruence).
  rewrite andb_true_iff, N.eqb_eq, IH. split; [intros [-> ->]; reflexivity|intros H; inversion H; auto].
Qed.

Lemma pystr_eqb_refl a : pystr_eqb a a = true.
Proof. apply pystr_eqb_spec; reflexivity. Qed.

Fixpoint span (p : N -> bool) (s : list N) : list N * list N :=
  match s with
  | [] => ([], [])
  | c :: r => if p c then let '(a, b) := span p r in (c :: a, b) else ([], s)
  end.

Definition head_not (p : N -> bool) (s : list N) : Prop :=
  match s with [] => True | c :: _ => p c = false end.

Lemma span_app p a rest : forallb p a = true -> head_not p rest -> span p (a ++ rest) = (a, rest).
Proof.
  induction a as [|c a IH]; cbn; intros Ha Hr.
  - destruct rest as [|c r]; cbn in *; [reflexivity|rewrite Hr; reflexivity].
  - apply andb_true_iff in Ha as [Hc Ha]. rewrite Hc, IH by assumption. reflexivity.
Qed.

Fixpoint starts_with (pre s : pystr) : bool :=
  match pre, s with
  | [], _ => true
  | x :: p, y :: t => (x =? y) && starts_with p t
  | _ :: _, [] => false
  end.

Fixpoint join {A} (sep : list A) (l : list (list A)) : list A :=
  match l with
  | [] => []
  | [x] => x
  | x :: r => x ++ sep ++ join sep r
  end.

(* ------------------------------------------------------------- hex digits *)

Definition hexd (d : N) : N := if d <? 10 then 48 + d else 87 + d.

Definition unhexd (c : N) : option N :=
  if (48 <=? c) && (c <=? 57) then Some (c - 48)
  else if (97 <=? c) && (c <=? 102) then Some (c - 87)
  else None.

Lemma unhexd_hexd d : d < 16 -> unhexd (hexd d) = Some d.
Proof.
  intros H. unfold unhexd, hexd. destruct (N.ltb_spec d 10).
  - replace ((48 <=? 48 + d) && (48 + d <=? 57)) with true; [f_equal; lia|].
    symmetry. apply andb_true_iff; split; apply N.leb_le; lia.
  - replace ((48 <=? 87 + d) && (87 + d <=? 57)) with false.
    + replace ((97 <=? 87 + d) && (87 + d <=? 102)) with true; [f_equal; lia|].
      symmetry. apply andb_true_iff; split; apply N.leb_le; lia.
    + symmetry. apply andb_false_iff; right. apply N.leb_gt. lia.
Qed.

(* w digits, most significant first *)
Fixpoint to_hex (w : nat) (c : N) : list N :=
  match w with
  | O => []
  | S w' => hexd (c / 16 ^ N.of_nat w') :: to_hex w' (c mod 16 ^ N.of_nat w')
  end.

Fixpoint hexval (acc : N) (ds : list N) : option N :=
  match ds with
  | [] => Some acc
  | d :: r => match unhexd d with Some v => hexval (acc * 16 + v) r | None => None end
  end.

Lemma to_hex_length w c : length (to_hex w c) = w.
Proof. revert c; induction w; cbn; intros; [reflexivity|f_equal; auto]. Qed.

Lemma hexval_to_hex w : forall c acc, c < 16 ^ N.of_nat w ->
  hexval acc (to_hex w c) = Some (acc * 16 ^ N.of_nat w + c).
Proof.
  induction w as [|w IH]; intros c acc Hc.
  - cbn in *. f_equal. lia.
  - cbn [to_hex hexval].
    assert (Hp : 0 < 16 ^ N.of_nat w) by (apply N.neq_0_lt_0, N.pow_nonzero; lia).
    assert (E : 16 ^ N.of_nat (S w) = 16 * 16 ^ N.of_nat w)
      by (rewrite Nat2N.inj_succ, N.pow_succ_r'; reflexivity).
    rewrite E in *.
    assert (Hq : c / 16 ^ N.of_nat w < 16) by (apply N.div_lt_upper_bound; lia).
    rewrite unhexd_hexd by assumption.
    rewrite IH by (apply N.mod_lt; lia). f_equal.
    pose proof (N.div_mod c (16 ^ N.of_nat w) ltac:(lia)) as D.
    set (q := c / 16 ^ N.of_nat w) in *. set (r := c mod 16 ^ N.of_nat w) in *.
    set (P := 16 ^ N.of_nat w) in *. nia.
Qed.

(* ------------------------------------------------------------ repr of str *)

Section Str.
  Variable printable : N -> bool.

  Definition esc_char (q c : N) : list N :=
    if (c =? 92) || (c =? q) then [92; c]
    else if c =? 9 then [92; 116]
    else if c =? 10 then [92; 110]
    else if c =? 13 then [92; 114]
    else if (c <? 32) || (c =? 127) then 92 :: 120 :: to_hex 2 c
    else if c <? 127 then [c]
    else if printable c then [c]
    else if c <? 256 then 92 :: 120 :: to_hex 2 c
    else if c <? 65536 then 92 :: 117 :: to_hex 4 c
    else 92 :: 85 :: to_hex 8 c.

  Definition quote_of (s : pystr) : N :=
    if existsb (N.eqb 39) s && negb (existsb (N.eqb 34) s) then 34 else 39.

  Definition repr_str (s : pystr) : pystr :=
    let q := quote_of s in q :: flat_map (esc_char q) s ++ [q].

  (* body of a string literal up to the closing quote q *)
  Fixpoint unesc (q : N) (s : list N) : option (pystr * list N) :=
    match s with
    | [] => None
    | c :: r =>
      if c =? q then Some ([], r)
      else if c =? 92 then
        match r with
        | [] => None
        | e :: r2 =>
          if e =? 120 then
            match r2 with
            | a :: b :: r3 =>
              match hexval 0 [a; b], unesc q r3 with
              | Some v, Some (t, rest) => Some (v :: t, rest) | _, _ => None end
            | _ => None
            end
          else if e =? 117 then
            match r2 with
            | a :: b :: c1 :: d :: r3 =>
              match hexval 0 [a; b; c1; d], unesc q r3 with
              | Some v, Some (t, rest) => Some (v :: t, rest) | _, _ => None end
            | _ => None
            end
          else if e =? 85 then
            match r2 with
            | a :: b :: c1 :: d :: a2 :: b2 :: c2 :: d2 :: r3 =>
              match hexval 0 [a; b; c1; d; a2; b2; c2; d2], unesc q r3 with
              | Some v, Some (t, rest) => Some (v :: t, rest) | _, _ => None end
            | _ => None
            end
          else
            let ch := if e =? 116 then Some 9 else if e =? 110 then Some 10 else if e =? 114 then Some 13
                      else if (e =? 92) || (e =? 39) || (e =? 34) then Some e else None in
            match ch, unesc q r2 with
            | Some v, Some (t, rest) => Some (v :: t, rest) | _, _ => None end
        end
      else match unesc q r with Some (t, rest) => Some (c :: t, rest) | None => None end
    end.

  Definition unrepr_str (s : list N) : option (pystr * list N) :=
    match s with
    | q :: r => if (q =? 39) || (q =? 34) then unesc q r else None
    | [] => None
    end.

  Definition valid_str (s : pystr) : Prop := Forall (fun c => c < 1114112) s.

  Lemma quote_of_cases s : quote_of s = 39 \/ quote_of s = 34.
  Proof. unfold quote_of. destruct (_ && _); auto. Qed.

  Lemma unesc_hex2 q c s r : (q = 39 \/ q = 34) -> c < 256 ->
    unesc q s = Some (r) -> unesc q (92 :: 120 :: to_hex 2 c ++ s) = Some (c :: fst r, snd r).
  Proof.
    intros Hq Hc Hs. destruct r as [t rest].
    pose proof (hexval_to_hex 2 c 0 ltac:(cbn; lia)) as Hx.
    pose proof (to_hex_length 2 c) as Hl.
    destruct (to_hex 2 c) as [|a [|b [|? ?]]]; try discriminate Hl.
    cbn [List.app unesc]. replace (92 =? q) with false by (symmetry; apply N.eqb_neq; lia).
    cbn [N.eqb Pos.eqb List.app]. rewrite Hx, Hs. cbn. f_equal.
  Qed.

  Lemma unesc_hex4 q c s r : (q = 39 \/ q = 34) -> c < 65536 ->
    unesc q s = Some (r) -> unesc q (92 :: 117 :: to_hex 4 c ++ s) = Some (c :: fst r, snd r).
  Proof.
    intros Hq Hc Hs. destruct r as [t rest].
    pose proof (hexval_to_hex 4 c 0 ltac:(cbn; lia)) as Hx.
    pose proof (to_hex_length 4 c) as Hl.
    destruct (to_hex 4 c) as [|a [|b [|c1 [|d [|? ?]]]]]; try discriminate Hl.
    cbn [List.app unesc]. replace (92 =? q) with false by (symmetry; apply N.eqb_neq; lia).
    cbn [N.eqb Pos.eqb List.app]. rewrite Hx, Hs. cbn. f_equal.
  Qed.

  Lemma unesc_hex8 q c s r : (q = 39 \/ q = 34) -> c < 4294967296 ->
    unesc q s = Some (r) -> unesc q (92 :: 85 :: to_hex 8 c ++ s) = Some (c :: fst r, snd r).
  Proof.
    intros Hq Hc Hs. destruct r as [t rest].
    pose proof (hexval_to_hex 8 c 0 ltac:(cbn; lia)) as Hx.
    pose proof (to_hex_length 8 c) as Hl.
    destruct (to_hex 8 c) as [|a [|b [|c1 [|d [|a2 [|b2 [|c2 [|d2 [|? ?]]]]]]]]]; try discriminate Hl.
    cbn [List.app unesc]. replace (92 =? q) with false by (symmetry; apply N.eqb_neq; lia).
    cbn [N.eqb Pos.eqb List.app]. rewrite Hx, Hs. cbn. f_equal.
  Qed.

  Lemma unesc_esc_char q c s r : (q = 39 \/ q = 34) -> c < 1114112 ->
    unesc q s = Some r -> unesc q (esc_char q c ++ s) = Some (c :: fst r, snd r).
  Proof.
    intros Hq Hc Hs. unfold esc_char.
    destruct (N.eqb_spec c 92) as [->|N92].
    { cbn [orb List.app unesc]. replace (92 =? q) with false by (symmetry; apply N.eqb_neq; lia).
      cbn. rewrite Hs. destruct r; reflexivity. }
    destruct (N.eqb_spec c q) as [->|Nq].
    { cbn [orb List.app unesc]. rewrite N.eqb_refl.
      replace (92 =? q) with false by (symmetry; apply N.eqb_neq; lia). cbn [N.eqb Pos.eqb].
      destruct Hq as [-> | ->]; cbn; rewrite Hs; destruct r; reflexivity. }
    cbn [orb].
    destruct (N.eqb_spec c 9) as [->|N9].
    { cbn [List.app unesc]. replace (92 =? q) with false by (symmetry; apply N.eqb_neq; lia).
      cbn. rewrite Hs. destruct r; reflexivity. }
    destruct (N.eqb_spec c 10) as [->|N10].
    { cbn [List.app unesc]. replace (92 =? q) with false by (symmetry; apply N.eqb_neq; lia).
      cbn. rewrite Hs. destruct r; reflexivity. }
    destruct (N.eqb_spec c 13) as [->|N13].
    { cbn [List.app unesc]. replace (92 =? q) with false by (symmetry; apply N.eqb_neq; lia).
      cbn. rewrite Hs. destruct r; reflexivity. }
    assert (Raw : unesc q ([c] ++ s) = Some (c :: fst r, snd r)).
    { cbn [List.app unesc]. replace (c =? q) with false by (symmetry; apply N.eqb_neq; lia).
      replace (c =? 92) with false by (symmetry; apply N.eqb_neq; lia). rewrite Hs. destruct r; reflexivity. }
    destruct (N.ltb_spec c 32).
    { cbn [orb]. apply unesc_hex2; auto; lia. }
    destruct (N.eqb_spec c 127) as [->|N127].
    { cbn [orb]. apply unesc_hex2; auto; lia. }
    cbn [orb].
    destruct (N.ltb_spec c 127); [exact Raw|].
    destruct (printable c); [exact Raw|].
    destruct (N.ltb_spec c 256); [apply unesc_hex2; auto|].
    destruct (N.ltb_spec c 65536); [apply unesc_hex4; auto|].
    apply unesc_hex8; auto; lia.
  Qed.

  Lemma unesc_body q s rest : (q = 39 \/ q = 34) -> valid_str s ->
    unesc q (flat_map (esc_char q) s ++ q :: rest) = Some (s, rest).
  Proof.
    intros Hq. induction s as [|c s IH]; intros Hv.
    - cbn. rewrite N.eqb_refl. reflexivity.
    - inversion Hv; subst. cbn [flat_map]. rewrite <- app_assoc.
      rewrite (unesc_esc_char q c _ (s, rest)); auto.
  Qed.

  (* repr of a str is self-delimiting and has a left inverse *)
  Theorem unrepr_repr s rest : valid_str s -> unrepr_str (repr_str s ++ rest) = Some (s, rest).
  Proof.
    intros Hv. unfold repr_str, unrepr_str. cbn [List.app].
    destruct (quote_of_cases s) as [E|E]; rewrite E; cbn [N.eqb Pos.eqb orb];
      rewrite <- app_assoc; apply unesc_body; auto.
  Qed.

  Corollary repr_str_inj s t : valid_str s -> valid_str t -> repr_str s = repr_str t -> s = t.
  Proof.
    intros Hs Ht E. pose proof (unrepr_repr s [] Hs) as A. pose proof (unrepr_repr t [] Ht) as B.
    rewrite E in A. rewrite A in B. congruence.
  Qed.

  Lemma repr_str_head s : exists q r, repr_str s = q :: r /\ (q = 39 \/ q = 34).
  Proof. unfold repr_str. eexists _, _. split; [reflexivity|]. apply quote_of_cases. Qed.
End Str.

(* ------------------------------------------------------------ repr of int *)

Fixpoint uint_chars (u : uint) : list N :=
  match u with
  | Nil => []
  | D0 u => 48 :: uint_chars u | D1 u => 49 :: uint_chars u | D2 u => 50 :: uint_chars u
  | D3 u => 51 :: uint_chars u | D4 u => 52 :: uint_chars u | D5 u => 53 :: uint_chars u
  | D6 u => 54 :: uint_chars u | D7 u => 55 :: uint_chars u | D8 u => 56 :: uint_chars u
  | D9 u => 57 :: uint_chars u
  end.

Definition is_digit (c : N) : bool := (48 <=? c) && (c <=? 57).

Fixpoint read_uint (s : list N) : uint * list N :=
  match s with
  | [] => (Nil, [])
  | c :: r =>
    if is_digit c then
      let '(u, rest) := read_uint r in
      ((match c with
        | 48 => D0 | 49 => D1 | 50 => D2 | 51 => D3 | 52 => D4
        | 53 => D5 | 54 => D6 | 55 => D7 | 56 => D8 | _ => D9 end) u, rest)
    else (Nil, s)
  end.

Lemma read_uint_chars u rest : head_not is_digit rest -> read_uint (uint_chars u ++ rest) = (u, rest).
Proof.
  intros Hr. induction u; cbn [uint_chars List.app read_uint];
    try (change (is_digit _) with true; cbn [is_digit]; rewrite IHu; reflexivity).
  destruct rest as [|c r]; [reflexivity|]. cbn in Hr. cbn [read_uint]. rewrite Hr. reflexivity.
Qed.

Lemma uint_chars_digits u : forallb is_digit (uint_chars u) = true.
Proof. induction u; cbn; auto. Qed.

Definition repr_int (z : Z) : pystr :=
  match Z.to_int z with
  | Pos u => uint_chars u
  | Neg u => 45 :: uint_chars u
  end.

(* an optional '-' and a non-empty run of digits *)
Definition read_pos (s : list N) : option (Z * list N) :=
  match read_uint s with (Nil, _) => None | (u, rest) => Some (Z.of_int (Pos u), rest) end.

Definition read_int (s : list N) : option (Z * list N) :=
  match s with
  | c :: r =>
    if c =? 45 then match read_uint r with (Nil, _) => None | (u, rest) => Some (Z.of_int (Neg u), rest) end
    else read_pos s
  | [] => None
  end.

Lemma uint_chars_head u : u <> Nil -> exists c r, uint_chars u = c :: r /\ is_digit c = true.
Proof. destruct u; intros H; try congruence; cbn; eexists _, _; split; reflexivity. Qed.

Theorem read_repr_int z rest : head_not is_digit rest -> read_int (repr_int z ++ rest) = Some (z, rest).
Proof.
  intros Hr. unfold repr_int, read_int.
  pose proof (DecimalZ.of_to z) as E.
  assert (P : forall u, u <> Nil -> Z.of_int (Pos u) = z ->
              match uint_chars u ++ rest with
              | c :: r => if c =? 45 then match read_uint r with (Nil, _) => None | (u, rest) => Some (Z.of_int (Neg u), rest) end
                          else read_pos (uint_chars u ++ rest)
              | [] => None end = Some (z, rest)).
  { intros u Hu Ez. destruct (uint_chars_head u Hu) as (c & r & Ec & Hc).
    assert (c =? 45 = false) by (apply N.eqb_neq; intros ->; discriminate Hc).
    rewrite Ec at 1. cbn [List.app]. rewrite H. unfold read_pos. rewrite read_uint_chars by assumption.
    destruct u; try congruence; rewrite <- Ez; reflexivity. }
  destruct z as [|p|p]; cbn [Z.to_int] in *.
  - apply P; [discriminate|exact E].
  - apply P; [apply Unsigned.to_uint_nonnil|exact E].
  - cbn [List.app N.eqb Pos.eqb]. rewrite read_uint_chars by assumption.
    pose proof (Unsigned.to_uint_nonnil p). destruct (Pos.to_uint p); try congruence; rewrite <- E; reflexivity.
Qed.

Lemma repr_int_chars z : forallb (fun c => is_digit c || (c =? 45)) (repr_int z) = true.
Proof.
  unfold repr_int. destruct (Z.to_int z); cbn.
  - induction d; cbn; auto.
  - induction d; cbn; auto.
Qed.

Lemma repr_int_nonempty z : repr_int z <> [].
Proof.
  unfold repr_int. destruct z; cbn; try discriminate.
  destruct (uint_chars_head _ (Unsigned.to_uint_nonnil p)) as (c & r & E & _). rewrite E. discriminate.
Qed.

(* ------------------------------------------------- constants (lit) and keys *)

Section LitInd.
  Variable P : lit -> Prop.
  Hypothesis Hint : forall z, P (LInt z).
  Hypothesis Hbool : forall b, P (LBool b).
  Hypothesis Hfloat : forall t, P (LFloat t).
  Hypothesis Hstr : forall s, P (LStr s).
  Hypothesis Hnone : P LNone.
  Hypothesis Htup : forall l, Forall P l -> P (LTup l).

  Fixpoint lit_ind' (v : lit) : P v :=
    match v with
    | LInt z => Hint z | LBool b => Hbool b | LFloat t => Hfloat t | LStr s => Hstr s | LNone => Hnone
    | LTup l => Htup l ((fix go (l : list lit) : Forall P l :=
                           match l with [] => Forall_nil _ | x :: r => Forall_cons _ (lit_ind' x) (go r) end) l)
    end.
End LitInd.

Definition valid_strb (s : pystr) : bool := forallb (fun c => c <? 1114112) s.

Lemma valid_strb_spec s : valid_strb s = true -> valid_str s.
Proof.
  unfold valid_strb, valid_str. rewrite forallb_forall, Forall_forall.
  intros H x Hx. apply N.ltb_lt. auto.
Qed.

Definition numchar (c : N) : bool := is_digit c || (c =? 43) || (c =? 45) || (c =? 46) || (c =? 101).
Definition float_mark (c : N) : bool := (c =? 46) || (c =? 101).

(* what the parser of printed keys returns: floats stay text *)
Inductive rkey :=
| RInt (z : Z)
| RFloat (txt : pystr)
| RStr (s : pystr)
| RName (s : pystr)              (* True False None: printed, not parsed *)
| RTup (l : list rkey).

Section Keys.
  Variable printable : N -> bool.
  Variable repr_float : N -> pystr.

  Fixpoint repr_lit (v : lit) : pystr :=
    match v with
    | LInt z => repr_int z
    | LBool true => [84; 114; 117; 101]
    | LBool false => [70; 97; 108; 115; 101]
    | LFloat t => repr_float t
    | LStr s => repr_str printable s
    | LNone => [78; 111; 110; 101]
    | LTup l => 40 :: join [44; 32] (map repr_lit l) ++ (match l with [_] => [44] | _ => [] end) ++ [41]
    end.

  (* str(v): differs from repr only for a str *)
  Definition str_lit (v : lit) : pystr := match v with LStr s => s | _ => repr_lit v end.

  Fixpoint raw_key (v : lit) : rkey :=
    match v with
    | LInt z => RInt z
    | LBool b => RName (repr_lit (LBool b))
    | LFloat t => RFloat (repr_float t)
    | LStr s => RStr s
    | LNone => RName (repr_lit LNone)
    | LTup l => RTup (map raw_key l)
    end.

  (* keys of the C06 quantifier: strings of any (valid) code points, ints,
     floats, tuples of these *)
  Fixpoint wf_key (v : lit) : bool :=
    match v with
    | LInt _ | LFloat _ => true
    | LStr s => valid_strb s
    | LTup l => forallb wf_key l
    | LBool _ | LNone => false
    end.

  Fixpoint lit_fuel (v : lit) : nat :=
    match v with
    | LTup l => S (fold_right (fun x acc => S (lit_fuel x + acc)) O l)
    | _ => 1
    end.

  Definition parse_num (s : list N) : option (rkey * list N) :=
    let '(sp, rest) := span numchar s in
    if existsb float_mark sp then Some (RFloat sp, rest)
    else match read_int sp with Some (z, []) => Some (RInt z, rest) | _ => None end.

  Fixpoint parse_key (n : nat) (s : list N) : option (rkey * list N) :=
    match n with
    | O => None
    | S n' =>
      match s with
      | [] => None
      | c :: r =>
        if (c =? 39) || (c =? 34) then
          match unrepr_str s with Some (x, rest) => Some (RStr x, rest) | None => None end
        else if c =? 40 then
          match r with
          | d :: rest => if d =? 41 then Some (RTup [], rest)
                         else match parse_elems n' r with Some (ks, rest) => Some (RTup ks, rest) | None => None end
          | [] => None
          end
        else parse_num s
      end
    end
  with parse_elems (n : nat) (s : list N) : option (list rkey * list N) :=
    match n with
    | O => None
    | S n' =>
      match parse_key n' s with
      | Some (k, c :: r) =>
        if c =? 41 then Some ([k], r)
        else if c =? 44 then
          match r with
          | d :: r2 =>
            if d =? 41 then Some ([k], r2)
            else if d =? 32 then
              match parse_elems n' r2 with Some (ks, rest) => Some (k :: ks, rest) | None => None end
            else None
          | [] => None
          end
        else None
      | _ => None
      end
    end.

  Hypothesis Hfl_chars : forall t, forallb numchar (repr_float t) = true.
  Hypothesis Hfl_mark : forall t, existsb float_mark (repr_float t) = true.
  Hypothesis Hfl_inj : forall t u, repr_float t = repr_float u -> t = u.

  Lemma repr_int_numchars z : forallb numchar (repr_int z) = true.
  Proof.
    pose proof (repr_int_chars z) as H. rewrite forallb_forall in *. intros c Hc. specialize (H c Hc).
    unfold numchar. apply orb_true_iff in H as [H|H]; rewrite H; [reflexivity|].
    destruct (is_digit c), (c =? 43); reflexivity.
  Qed.

  Lemma repr_int_nomark z : existsb float_mark (repr_int z) = false.
  Proof.
    pose proof (repr_int_chars z) as H. induction (repr_int z) as [|c r IH]; [reflexivity|].
    cbn in *. apply andb_true_iff in H as [Hc Hr]. rewrite IH by assumption.
    unfold float_mark, is_digit in *.
    destruct (N.eqb_spec c 46) as [->|]; [discriminate Hc|].
    destruct (N.eqb_spec c 101) as [->|]; [discriminate Hc|]. reflexivity.
  Qed.

  Lemma parse_num_int z rest : head_not numchar rest ->
    parse_num (repr_int z ++ rest) = Some (RInt z, rest).
  Proof.
    intros Hr. unfold parse_num. rewrite span_app by (auto using repr_int_numchars).
    rewrite repr_int_nomark.
    pose proof (read_repr_int z [] I) as E. rewrite app_nil_r in E. rewrite E. reflexivity.
  Qed.

  Lemma parse_num_float t rest : head_not numchar rest ->
    parse_num (repr_float t ++ rest) = Some (RFloat (repr_float t), rest).
  Proof.
    intros Hr. unfold parse_num. rewrite span_app by auto. rewrite Hfl_mark. reflexivity.
  Qed.

  Lemma numchar_head c : numchar c = true -> ((c =? 39) || (c =? 34) = false) /\ (c =? 40) = false.
  Proof.
    intros H. destruct (N.eqb_spec c 39) as [->|]; [discriminate H|].
    destruct (N.eqb_spec c 34) as [->|]; [discriminate H|].
    destruct (N.eqb_spec c 40) as [->|]; [discriminate H|]. auto.
  Qed.

  Lemma parse_key_numeric n txt rest r :
    txt <> [] -> forallb numchar txt = true -> parse_num (txt ++ rest) = r ->
    parse_key (S n) (txt ++ rest) = r.
  Proof.
    intros Hne Hc E. destruct txt as [|c t]; [congruence|].
    cbn in Hc. apply andb_true_iff in Hc as [Hc _].
    destruct (numchar_head c Hc) as [A B]. cbn [List.app parse_key]. rewrite A, B. exact E.
  Qed.

  Lemma float_nonempty t : repr_float t <> [].
  Proof. intros E. pose proof (Hfl_mark t) as H. rewrite E in H. discriminate. Qed.

  Definition elems_text (l : list lit) : pystr := join [44; 32] (map repr_lit l).

  Lemma parse_key_repr v : wf_key v = true -> forall n rest, (n >= lit_fuel v)%nat -> head_not numchar rest ->
    parse_key n (repr_lit v ++ rest) = Some (raw_key v, rest).
  Proof.
    induction v as [z|b|t|s| |l IH] using lit_ind'; intros Hwf n rest Hn Hr; try discriminate Hwf.
    - destruct n; [cbn in Hn; lia|]. cbn [repr_lit raw_key].
      apply parse_key_numeric; [apply repr_int_nonempty|apply repr_int_numchars|apply parse_num_int; assumption].
    - destruct n; [cbn in Hn; lia|]. cbn [repr_lit raw_key].
      apply parse_key_numeric; [apply float_nonempty|apply Hfl_chars|apply parse_num_float; assumption].
    - destruct n; [cbn in Hn; lia|]. cbn [repr_lit raw_key].
      destruct (repr_str_head printable s) as (q & r & E & Hq).
      pose proof (unrepr_repr printable s rest (valid_strb_spec _ Hwf)) as U.
      rewrite E in *. cbn [List.app parse_key].
      replace ((q =? 39) || (q =? 34)) with true by (destruct Hq as [-> | ->]; reflexivity).
      cbn [List.app] in U. rewrite U. reflexivity.
    - (* tuples *)
      destruct n; [cbn in Hn; lia|]. cbn [repr_lit raw_key List.app parse_key]. cbn [N.eqb Pos.eqb orb].
      cbn [wf_key] in Hwf. cbn [lit_fuel] in Hn. apply le_S_n in Hn.
      destruct l as [|x l]; [reflexivity|].
      (* parse_elems on a non-empty list, with an optional trailing comma *)
      assert (EL : forall l, l <> [] -> Forall (fun v => wf_key v = true -> forall n rest, (n >= lit_fuel v)%nat ->
                                          head_not numchar rest -> parse_key n (repr_lit v ++ rest) = Some (raw_key v, rest)) l ->
                   forallb wf_key l = true ->
                   forall tail, tail = [] \/ tail = [44] ->
                   forall m rest, (m >= fold_right (fun x acc => S (lit_fuel x + acc)) O l)%nat ->
                   parse_elems m (join [44; 32] (map repr_lit l) ++ tail ++ 41 :: rest) = Some (map raw_key l, rest)).
      { clear. intros l. induction l as [|y l IHl]; intros Hne HF Hw tail Ht m rest Hm; [congruence|].
        inversion HF as [|? ? Hy HF']; subst. cbn [forallb] in Hw. apply andb_true_iff in Hw as [Hwy Hwl].
        cbn [fold_right] in Hm. destruct m; [lia|]. cbn [parse_elems].
        destruct l as [|y2 l'].
        - cbn [map join]. rewrite (Hy Hwy m (tail ++ 41 :: rest)); [|lia|destruct Ht as [-> | ->]; reflexivity].
          destruct Ht as [-> | ->]; reflexivity.
        - change (map repr_lit (y :: y2 :: l')) with (repr_lit y :: map repr_lit (y2 :: l')).
          change (map raw_key (y :: y2 :: l')) with (raw_key y :: map raw_key (y2 :: l')).
          remember (y2 :: l') as l2 eqn:El2.
          assert (Ej : join [44; 32] (repr_lit y :: map repr_lit l2) = repr_lit y ++ [44; 32] ++ join [44; 32] (map repr_lit l2))
            by (subst l2; reflexivity).
          rewrite Ej. rewrite <- !app_assoc. rewrite (Hy Hwy m); [|lia|reflexivity].
          cbn [List.app N.eqb Pos.eqb].
          rewrite (IHl ltac:(subst l2; discriminate) HF' Hwl tail Ht m rest ltac:(lia)). reflexivity. }
      assert (HD : exists d r, join [44; 32] (map repr_lit (x :: l)) ++ (match x :: l with [_] => [44] | _ => [] end) ++ 41 :: rest = d :: r /\ (d =? 41) = false).
      { assert (HX : exists d r, repr_lit x = d :: r /\ (d =? 41) = false).
        { cbn [forallb] in Hwf. apply andb_true_iff in Hwf as [Hx _].
          destruct x as [z|b|t|s| |lx]; try discriminate Hx.
          - pose proof (repr_int_numchars z) as Hc. pose proof (repr_int_nonempty z) as Hne.
            cbn [repr_lit]. destruct (repr_int z) as [|d r]; [congruence|]. exists d, r; split; auto.
            cbn in Hc. apply andb_true_iff in Hc as [Hd _]. destruct (N.eqb_spec d 41) as [->|]; [discriminate Hd|reflexivity].
          - pose proof (Hfl_chars t) as Hc. pose proof (float_nonempty t) as Hne.
            cbn [repr_lit]. destruct (repr_float t) as [|d r]; [congruence|]. exists d, r; split; auto.
            cbn in Hc. apply andb_true_iff in Hc as [Hd _]. destruct (N.eqb_spec d 41) as [->|]; [discriminate Hd|reflexivity].
          - destruct (repr_str_head printable s) as (q & r & E & Hq). cbn [repr_lit]. rewrite E.
            exists q, r; split; auto. destruct Hq as [-> | ->]; reflexivity.
          - cbn [repr_lit]. eexists _, _; split; reflexivity. }
        destruct HX as (d & r & E & Hd). destruct l as [|x2 l'].
        - cbn [map join]. rewrite E. cbn [List.app]. eexists _, _; split; [reflexivity|exact Hd].
        - cbn [map join]. rewrite E. cbn [List.app]. eexists _, _; split; [reflexivity|exact Hd]. }
      destruct HD as (d & r & E & Hd).
      rewrite <- !app_assoc. change ([41] ++ rest) with (41 :: rest). rewrite E, Hd. rewrite <- E.
      rewrite (EL (x :: l) ltac:(discriminate) IH Hwf (match l with [] => [44] | _ :: _ => [] end) ltac:(destruct l; auto) n rest Hn). reflexivity.
  Qed.

  Lemma raw_key_inj v : wf_key v = true -> forall w, wf_key w = true -> raw_key v = raw_key w -> v = w.
  Proof.
    induction v as [z|b|t|s| |l IH] using lit_ind'; intros Hv w Hw E; try discriminate Hv;
      destruct w as [z'|b'|t'|s'| |l']; try discriminate Hw; cbn in E; try discriminate E.
    - congruence.
    - inversion E. f_equal. auto.
    - congruence.
    - f_equal. cbn [wf_key] in Hv, Hw. inversion E as [E']. clear E.
      revert l' Hw E'. induction l as [|x l IHl]; intros [|y l'] Hw E'; try discriminate E'; [reflexivity|].
      cbn in E'. inversion E'. inversion IH; subst. cbn in Hv, Hw.
      apply andb_true_iff in Hv as [? ?]. apply andb_true_iff in Hw as [? ?].
      f_equal; auto.
  Qed.
End Keys.
