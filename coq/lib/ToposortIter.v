(* sorting._dfs as written in the source (iterative, explicit stack of
   (vertex, iterator over its successors)) and the proof that it computes the
   recursive depth-first search of lib/Toposort.v — hence everything
   [toposort_correct] says holds of the code as written.

       visited.add(source)
       todo = [(source, iter(graph.get(source, [])))]
       while todo:
           vertex, neighbours = todo[-1]
           for neighbour in neighbours:            # resumes where it stopped
               if neighbour not in visited:
                   visited.add(neighbour)
                   todo.append((neighbour, iter(graph.get(neighbour, []))))
                   break
           else:
               todo.pop()
               stack.appendleft(vertex)

   A frame is (vertex, successors not yet looked at); the head of [todo] is the
   top of the Python list.  One [istep] is one pass of the while body. *)
From Coq Require Import List Bool Arith Lia.
From XD Require Import lib.Toposort.
Import ListNotations.

Section Iter.
Context {K : Type}.
Variable eqb : K -> K -> bool.
Hypothesis eqb_spec : forall a b, eqb a b = true <-> a = b.
Variable g : K -> list K.

Notation mem := (mem eqb).
Notation dfs := (dfs eqb g).

Definition frame := (K * list K)%type.
Definition istate := (list frame * list K * list K)%type.      (* todo, visited, stack *)

(* the for loop over the iterator: the first successor not yet visited, and what remains after it *)
Fixpoint advance (nb : list K) (vis : list K) : option (K * list K) :=
  match nb with
  | [] => None
  | y :: r => if mem y vis then advance r vis else Some (y, r)
  end.

Definition istep (s : istate) : option istate :=
  let '(todo, vis, out) := s in
  match todo with
  | [] => None                                            (* while todo: *)
  | (v, nb) :: rest =>
      match advance nb vis with
      | Some (y, r) => Some ((y, g y) :: (v, r) :: rest, y :: vis, out)     (* add, append, break *)
      | None => Some (rest, vis, v :: out)                                  (* else: pop, appendleft *)
      end
  end.

Fixpoint irun (fuel : nat) (s : istate) : istate :=
  match fuel with
  | 0 => s
  | S f => match istep s with None => s | Some s' => irun f s' end
  end.

(* _dfs(graph, source, stack, visited) *)
Definition idfs_init (source : K) (vis out : list K) : istate := ([(source, g source)], source :: vis, out).

(* toposort: for vertex in start: if vertex not in visited: _dfs(...) — with fuel for every while loop *)
Fixpoint itoposort_from (fuel : nat) (start : list K) (vis out : list K) : list K * list K :=
  match start with
  | [] => (vis, out)
  | v :: r => if mem v vis then itoposort_from fuel r vis out
              else let '(_, vis', out') := irun fuel (idfs_init v vis out) in itoposort_from fuel r vis' out'
  end.

Definition itoposort (fuel : nat) (start : list K) : list K := snd (itoposort_from fuel start [] []).

(* ---- simulation ----------------------------------------------------------------------------- *)
Lemma irun_S k s : irun (S k) s = match istep s with None => s | Some s' => irun k s' end.
Proof. reflexivity. Qed.

Lemma irun_step s s' k : istep s = Some s' -> irun (S k) s = irun k s'.
Proof. intros H. cbn [irun]. now rewrite H. Qed.

Lemma irun_add a b s : irun (a + b) s = irun b (irun a s).
Proof.
  revert s. induction a as [|a IH]; intros s; cbn [Nat.add irun]; [reflexivity|].
  destruct (istep s) as [s'|] eqn:E; [apply IH|].
  destruct b; cbn [irun]; [reflexivity|now rewrite E].
Qed.

Lemma irun_done k vis out : irun k ([], vis, out) = ([], vis, out).
Proof. destruct k; reflexivity. Qed.

Lemma advance_skip y r vis : mem y vis = true -> advance (y :: r) vis = advance r vis.
Proof. intros H. cbn [advance]. now rewrite H. Qed.

Lemma istep_skip v y r rest vis out : mem y vis = true ->
  istep ((v, y :: r) :: rest, vis, out) = istep ((v, r) :: rest, vis, out).
Proof. intros H. cbn [istep]. now rewrite (advance_skip y r vis H). Qed.

(* visited only grows in the recursive search *)
Lemma dfs_incl f : forall x s, incl (fst s) (fst (dfs f x s)).
Proof.
  induction f as [|f IH]; intros x s; cbn [Toposort.dfs]; [apply incl_refl|].
  destruct (mem x (fst s)); [apply incl_refl|].
  cbn [fst].
  assert (H : forall l s0, incl (fst s0) (fst (fold_left (fun s y => dfs f y s) l s0))).
  { induction l as [|y l IHl]; intros s0; cbn [fold_left]; [apply incl_refl|].
    eapply incl_tran; [apply IH|apply IHl]. }
  eapply incl_tran; [|apply H]. cbn [fst]. apply incl_tl, incl_refl.
Qed.

Lemma unvis_of_le (U vis : list K) : unvis_of eqb U vis <= length U.
Proof. unfold unvis_of. induction U as [|a l IH]; cbn [filter length]; [lia|]. destruct (negb _); cbn [length]; lia. Qed.

Section Sim.
Variable univ : list K.
Hypothesis univ_closed : forall u v, In u univ -> In v (g u) -> In v univ.

Notation unvis := (unvis_of eqb univ).

(* the search below a frame pushed for an unvisited x is the recursive dfs of x; it takes S n passes of the loop *)
Definition P (f : nat) : Prop :=
  forall x vis out rest, In x univ -> mem x vis = false -> unvis vis < f ->
  exists n, forall k,
    irun (S n + k) ((x, g x) :: rest, x :: vis, out) =
    irun k (rest, fst (dfs f x (vis, out)), snd (dfs f x (vis, out))).

(* a frame (x, nb) on top: the loop performs the recursive calls for the successors still to come, then pops x *)
Lemma frame_sim f : P f -> forall x nb rest vis out, incl nb univ -> unvis vis < f ->
  exists n, forall k,
    irun (S n + k) ((x, nb) :: rest, vis, out) =
    irun k (rest, fst (fold_left (fun s y => dfs f y s) nb (vis, out)),
            x :: snd (fold_left (fun s y => dfs f y s) nb (vis, out))).
Proof.
  intros HP x nb. induction nb as [|y nb IH]; intros rest vis out Hin Hf.
  - exists 0. intros k. cbn [fold_left fst snd Nat.add]. now rewrite (irun_step _ (rest, vis, x :: out)).
  - assert (Hin' : incl nb univ) by (intros z Hz; apply Hin; now right).
    cbn [fold_left]. destruct (mem y vis) eqn:Hy.
    + (* already visited: the recursive call returns at once, the iterator just moves on within the same pass *)
      assert (E : dfs f y (vis, out) = (vis, out)).
      { destruct f; cbn [Toposort.dfs fst]; [reflexivity|now rewrite Hy]. }
      rewrite E. destruct (IH rest vis out Hin' Hf) as (n & Hn).
      exists n. intros k. rewrite <- Hn. change (S n + k) with (S (n + k)). rewrite !irun_S.
      rewrite (istep_skip x y nb rest vis out Hy).
      destruct (istep ((x, nb) :: rest, vis, out)) eqn:Es; [reflexivity|].
      cbn [istep] in Es. destruct (advance nb vis) as [[? ?]|]; discriminate.
    + (* not visited: one pass pushes (y, g y); the search of y is P f; then the remaining successors *)
      assert (Hyu : In y univ) by (apply Hin; now left).
      destruct (HP y vis out ((x, nb) :: rest) Hyu Hy Hf) as (n1 & H1).
      set (R := dfs f y (vis, out)) in *.
      assert (HfR : unvis (fst R) < f).
      { eapply Nat.le_lt_trans; [apply (unvis_of_mono eqb eqb_spec); apply (dfs_incl f y (vis, out))|exact Hf]. }
      destruct (IH rest (fst R) (snd R) Hin' HfR) as (n2 & H2).
      exists (S n1 + S n2). intros k.
      replace (S (S n1 + S n2) + k) with (S (S n1 + (S n2 + k))) by lia.
      rewrite (irun_step _ ((y, g y) :: (x, nb) :: rest, y :: vis, out)) by (cbn [istep advance]; now rewrite Hy).
      rewrite H1. destruct R as [rv ro]. cbn [fst snd] in *. apply H2.
Qed.

Lemma P_all : forall f, P f.
Proof.
  induction f as [|f IH]; intros x vis out rest Hx Hm Hf; [lia|].
  assert (Hnin : ~ In x vis) by (apply (mem_nIn eqb eqb_spec); exact Hm).
  assert (Hf' : unvis (x :: vis) < f).
  { pose proof (unvis_of_cons eqb eqb_spec univ x vis Hx Hnin). lia. }
  assert (Hg : incl (g x) univ) by (intros z Hz; eapply univ_closed; eauto).
  destruct (frame_sim f IH x (g x) rest (x :: vis) out Hg Hf') as (n & Hn).
  exists n. intros k. rewrite Hn. cbn [Toposort.dfs fst snd]. rewrite Hm. reflexivity.
Qed.

Lemma unvis_le vis : unvis vis <= length univ.
Proof. apply unvis_of_le. Qed.

(* _dfs from an unvisited source, with enough passes, ends with an empty todo list and the recursive result *)
Lemma idfs_eq f x vis out : In x univ -> mem x vis = false -> length univ < f ->
  exists n, forall fuel, n <= fuel ->
    irun fuel (idfs_init x vis out) = ([], fst (dfs f x (vis, out)), snd (dfs f x (vis, out))).
Proof.
  intros Hx Hm Hf.
  destruct (P_all f x vis out [] Hx Hm) as (n & Hn); [pose proof (unvis_le vis); lia|].
  exists (S n). intros fuel Hle. replace fuel with (S n + (fuel - S n)) by lia.
  unfold idfs_init. rewrite Hn. apply irun_done.
Qed.

Theorem itoposort_from_eq f start : forall vis out, incl start univ -> length univ < f ->
  exists n, forall fuel, n <= fuel ->
    itoposort_from fuel start vis out = dfs_list eqb g f start (vis, out).
Proof.
  induction start as [|v r IH]; intros vis out Hin Hf.
  - exists 0. intros fuel _. reflexivity.
  - assert (Hr : incl r univ) by (intros z Hz; apply Hin; now right).
    unfold dfs_list. cbn [itoposort_from fold_left]. destruct (mem v vis) eqn:Hv.
    + assert (E : dfs f v (vis, out) = (vis, out)).
      { destruct f; cbn [Toposort.dfs fst]; [reflexivity|now rewrite Hv]. }
      rewrite E. exact (IH vis out Hr Hf).
    + assert (Hvu : In v univ) by (apply Hin; now left).
      destruct (idfs_eq f v vis out Hvu Hv Hf) as (n1 & H1).
      destruct (dfs f v (vis, out)) as [rv ro] eqn:ER. cbn [fst snd] in H1.
      destruct (IH rv ro Hr Hf) as (n2 & H2).
      exists (n1 + n2). intros fuel Hle. rewrite H1 by lia. apply H2. lia.
Qed.

(* sorting.toposort as written computes the toposort of lib/Toposort.v: with enough passes of the while loops the
   result is reached and no longer changes *)
Theorem itoposort_eq f start : incl start univ -> length univ < f ->
  exists n, forall fuel, n <= fuel -> itoposort fuel start = toposort eqb g f start.
Proof.
  intros Hin Hf. destruct (itoposort_from_eq f start [] [] Hin Hf) as (n & Hn).
  exists n. intros fuel Hle. unfold itoposort, toposort. now rewrite (Hn fuel Hle).
Qed.

End Sim.
End Iter.
