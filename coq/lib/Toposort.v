(* Model of xdeps/sorting.py: toposort/_dfs (depth-first search, reverse
   post-order collected on the left of a deque) over an arbitrary key type,
   and its correctness: the result is duplicate-free, is exactly the set
   reachable from the start list, and every edge u -> v has u before v unless
   v reaches u.  Recursion is on explicit fuel; [toposort_correct] shows that
   fuel > |universe| is always enough (the fuel-exhausted branch is never
   taken).  The visiting order is the one of the Python code (recursive
   before the fix, iterative after it: same order). *)
From Coq Require Import List Bool Arith Lia.
Import ListNotations.

Section Topo.
Context {K : Type}.
Variable eqb : K -> K -> bool.
Hypothesis eqb_spec : forall a b, eqb a b = true <-> a = b.
Variable g : K -> list K.

Definition mem (x : K) (l : list K) : bool := existsb (eqb x) l.
Lemma mem_In x l : mem x l = true <-> In x l.
Proof. unfold mem. rewrite existsb_exists. split.
  - intros (y & Hy & E). apply eqb_spec in E. subst. exact Hy.
  - intros H. exists x. split; [exact H|apply eqb_spec; reflexivity]. Qed.
Lemma mem_nIn x l : mem x l = false <-> ~ In x l.
Proof. rewrite <- mem_In. destruct (mem x l); split; congruence. Qed.

Lemma K_eq_dec : forall a b : K, {a = b} + {a <> b}.
Proof. intros a b. destruct (eqb a b) eqn:E; [left; now apply eqb_spec|right; intros H; apply eqb_spec in H; congruence]. Qed.
(* state = (visited, out) ; out is the deque, head = left end *)
Definition st := (list K * list K)%type.

Fixpoint dfs (fuel : nat) (x : K) (s : st) : st :=
  match fuel with
  | 0 => s
  | S f =>
    if mem x (fst s) then s else
    let s' := fold_left (fun s y => dfs f y s) (g x) (x :: fst s, snd s) in
    (fst s', x :: snd s')
  end.

Definition dfs_list (fuel : nat) (ys : list K) (s : st) : st :=
  fold_left (fun s y => dfs fuel y s) ys s.

Definition toposort (fuel : nat) (start : list K) : list K :=
  snd (dfs_list fuel start ([], [])).

Inductive reach : K -> K -> Prop :=
| reach_refl x : reach x x
| reach_step x y z : In y (g x) -> reach y z -> reach x z.

Lemma reach_trans x y z : reach x y -> reach y z -> reach x z.
Proof. induction 1; eauto using reach. Qed.
Lemma reach_edge x y : In y (g x) -> reach x y.
Proof. intros; eapply reach_step; eauto using reach. Qed.

(* position-based "before" : u occurs strictly before v in l *)
Definition before (u v : K) (l : list K) : Prop :=
  exists l1 l2, l = l1 ++ u :: l2 /\ In v l2.

Definition unvis_of (U vis : list K) : nat :=
  length (filter (fun v => negb (mem v vis)) U).

Lemma unvis_of_mono U vis vis' : incl vis vis' -> unvis_of U vis' <= unvis_of U vis.
Proof.
  intros H. unfold unvis_of. induction U as [|a l IH]; simpl; [lia|].
  destruct (mem a vis') eqn:E'; destruct (mem a vis) eqn:E; simpl; try lia.
  apply (proj1 (mem_In _ _)) in E. apply H in E. apply (proj2 (mem_In _ _)) in E. congruence.
Qed.

Lemma unvis_of_cons U x vis : In x U -> ~ In x vis -> unvis_of U (x :: vis) < unvis_of U vis.
Proof.
  intros Hx Hn. apply mem_nIn in Hn. unfold unvis_of, mem in *. cbn [existsb].
  assert (Hle : forall l, length (filter (fun v => negb (eqb v x || existsb (eqb v) vis)) l)
                <= length (filter (fun v => negb (existsb (eqb v) vis)) l)).
  { induction l as [|b l IH]; cbn [filter length]; [lia|].
    destruct (eqb b x); destruct (existsb (eqb b) vis); cbn [negb orb length]; lia. }
  induction U as [|a l IH]; [destruct Hx|].
  cbn [filter length]. destruct Hx as [->|Hx].
  - rewrite (proj2 (eqb_spec x x) eq_refl), Hn. cbn [negb orb length]. specialize (Hle l). lia.
  - specialize (IH Hx).
    destruct (eqb a x); destruct (existsb (eqb a) vis); cbn [negb orb length]; lia.
Qed.


Section Proofs.
Variable univ : list K.
Hypothesis univ_closed : forall u v, In u univ -> In v (g u) -> In v univ.


Definition unvis (vis : list K) : nat := unvis_of univ vis.
Lemma unvis_mono vis vis' : incl vis vis' -> unvis vis' <= unvis vis.
Proof. apply unvis_of_mono. Qed.
Lemma unvis_cons x vis : In x univ -> ~ In x vis -> unvis (x :: vis) < unvis vis.
Proof. apply unvis_of_cons. Qed.

Definition WF (s : st) : Prop :=
  incl (snd s) (fst s) /\ NoDup (snd s) /\
  (forall u v, In u (snd s) -> In v (g u) -> In v (fst s)) /\
  (forall u v, In u (snd s) -> In v (g u) -> before u v (snd s) \/ reach v u).

Definition gray (s : st) (w : K) : Prop := In w (fst s) /\ ~ In w (snd s).

Definition Post (roots : list K) (s s' : st) : Prop :=
  (exists new, snd s' = new ++ snd s /\
      (forall w, In w (fst s') <-> In w (fst s) \/ In w new) /\
      (forall w, In w new -> ~ In w (fst s)) /\
      (forall w, In w new -> exists r, In r roots /\ reach r w)) /\
  (forall r, In r roots -> In r (fst s')) /\
  WF s'.

Definition Pre (fuel : nat) (roots : list K) (s : st) : Prop :=
  WF s /\ incl roots univ /\ unvis (fst s) < fuel /\
  (forall w r, gray s w -> In r roots -> reach w r).

Lemma before_cons a u v l : before u v l -> before u v (a :: l).
Proof. intros (l1 & l2 & -> & H). exists (a :: l1), l2. split; auto. Qed.

Lemma before_head u v l : In v l -> before u v (u :: l).
Proof. intros H. exists [], l. split; auto. Qed.

Lemma Post_gray roots s s' w : Post roots s s' -> WF s -> (gray s' w <-> gray s w).
Proof.
  intros ((new & Ho & Hv & Hd & _) & _ & _) (Hincl & _). unfold gray. rewrite Ho, Hv, in_app_iff.
  split.
  - intros ([H|H] & Hn); [split; auto|]; tauto.
  - intros (H & Hn). split; [tauto|]. intros [H1|H1]; [|tauto]. apply Hd in H1. tauto.
Qed.

Lemma Post_refl roots s : WF s -> (forall r, In r roots -> In r (fst s)) -> Post roots s s.
Proof.
  intros Hwf Hr. split; [|split]; auto.
  exists []. split; [reflexivity|]. split; [|split].
  - intros w. simpl. tauto.
  - intros w [].
  - intros w [].
Qed.

Lemma list_spec fuel :
  (forall x s, Pre fuel [x] s -> Post [x] s (dfs fuel x s)) ->
  forall ys s, Pre fuel ys s -> Post ys s (dfs_list fuel ys s).
Proof.
  intros IH ys. induction ys as [|y ys IHys]; intros s (Hwf & Hu & Hf & Hg).
  - apply Post_refl; auto. intros r [].
  - unfold dfs_list in *. cbn [fold_left].
    assert (P1 : Pre fuel [y] s).
    { split; [exact Hwf|]. split; [|split; [exact Hf|]].
      - intros a [<-|[]]. apply Hu. left; auto.
      - intros w r Hw [<-|[]]. apply Hg; auto. left; auto. }
    pose proof (IH y s P1) as Q1.
    set (s1 := dfs fuel y s) in *.
    assert (P2 : Pre fuel ys s1).
    { destruct Q1 as ((new & Ho & Hv & Hd & Hr) & Hroot & Hwf1).
      split; [exact Hwf1|]. split; [|split].
      - intros a Ha. apply Hu. right; auto.
      - eapply Nat.le_lt_trans; [|exact Hf]. apply unvis_mono. intros a Ha. apply Hv. auto.
      - intros w r Hw Hr'. apply Hg; [|right; auto].
        eapply (Post_gray [y] s s1); eauto. }
    pose proof (IHys s1 P2) as Q2.
    destruct Q1 as ((n1 & Ho1 & Hv1 & Hd1 & Hr1) & Hroot1 & Hwf1).
    destruct Q2 as ((n2 & Ho2 & Hv2 & Hd2 & Hr2) & Hroot2 & Hwf2).
    split; [|split]; auto.
    + exists (n2 ++ n1). split; [|split; [|split]].
      * rewrite Ho2, Ho1, app_assoc. reflexivity.
      * intros w. rewrite Hv2, Hv1, in_app_iff. tauto.
      * intros w Hw Hin. apply in_app_iff in Hw. destruct Hw as [Hw|Hw].
        -- apply (Hd2 w Hw). apply Hv1. auto.
        -- apply (Hd1 w Hw). auto.
      * intros w Hw. apply in_app_iff in Hw. destruct Hw as [Hw|Hw].
        -- destruct (Hr2 w Hw) as (r & Hr & Hre). exists r. split; [right|]; auto.
        -- destruct (Hr1 w Hw) as (r & [<-|[]] & Hre). exists y. split; [left|]; auto.
    + intros r [<-|Hr].
      * apply Hv2. left. apply Hroot1. left; auto.
      * apply Hroot2; auto.
Qed.

Lemma dfs_spec fuel : forall x s, Pre fuel [x] s -> Post [x] s (dfs fuel x s).
Proof.
  induction fuel as [|f IH]; intros x s (Hwf & Hu & Hf & Hg).
  - lia.
  - cbn [dfs]. destruct (mem x (fst s)) eqn:Hm.
    + apply mem_In in Hm. apply Post_refl; auto. intros r [<-|[]]; auto.
    + apply mem_nIn in Hm.
      assert (Hxu : In x univ) by (apply Hu; left; auto).
      destruct Hwf as (Hincl & Hnd & Hsucc & Hord).
      set (s0 := (x :: fst s, snd s)).
      assert (P0 : Pre f (g x) s0).
      { split; [split; [|split; [|split]]|split; [|split]]; cbn [fst snd s0].
        - intros a Ha. right. apply Hincl; auto.
        - auto.
        - intros u v Hu' Hv. right. eapply Hsucc; eauto.
        - auto.
        - intros a Ha. eapply univ_closed; eauto.
        - pose proof (unvis_cons x (fst s) Hxu Hm). lia.
        - intros w r (Hw & Hnw) Hr. cbn [fst snd s0] in *. destruct Hw as [<-|Hw].
          + apply reach_edge; auto.
          + eapply reach_trans; [apply Hg; [split; eauto|left; auto]|apply reach_edge; auto]. }
      pose proof (list_spec f IH (g x) s0 P0) as Q.
      change (fold_left (fun s y => dfs f y s) (g x) s0) with (dfs_list f (g x) s0).
      set (s1 := dfs_list f (g x) s0) in *.
      destruct Q as ((new & Ho & Hv & Hd & Hr) & Hroot & (Hincl1 & Hnd1 & Hsucc1 & Hord1)).
      cbn [fst snd s0] in Ho, Hv, Hd.
      assert (Hx1 : In x (fst s1)) by (apply Hv; left; left; auto).
      assert (Hxo : ~ In x (snd s1)).
      { rewrite Ho, in_app_iff. intros [H|H]; [apply Hd in H; apply H; left; auto|apply Hincl in H; tauto]. }
      split; [|split]; cbn [fst snd].
      * exists (x :: new). split; [|split; [|split]].
        -- rewrite Ho. reflexivity.
        -- intros w. rewrite Hv. cbn [In]. tauto.
        -- intros w [<-|Hw]; auto. intros Hin. apply (Hd w Hw). right; auto.
        -- intros w [<-|Hw].
           ++ exists x. split; [left; auto|constructor].
           ++ destruct (Hr w Hw) as (r & Hr1 & Hr2). exists x. split; [left; auto|].
              eapply reach_step; eauto.
      * intros r [<-|[]]; auto.
      * split; [|split; [|split]]; cbn [fst snd].
        -- intros a [<-|Ha]; auto.
        -- constructor; auto.
        -- intros u v [<-|Hu'] Hv'; [apply Hroot; auto|eapply Hsucc1; eauto].
        -- intros u v [<-|Hu'] Hv'.
           ++ assert (Hv1 : In v (fst s1)) by (apply Hroot; auto).
              destruct (in_dec K_eq_dec v (snd s1)) as [Hvo|Hvo].
              ** left. apply before_head; auto.
              ** right. apply Hv in Hv1. destruct Hv1 as [[<-|Hv1]|Hv1].
                 --- constructor.
                 --- apply Hg; [|left; auto]. split; auto.
                     intros Hin. apply Hvo. rewrite Ho. apply in_app_iff; auto.
                 --- exfalso. apply Hvo. rewrite Ho. apply in_app_iff; auto.
           ++ destruct (Hord1 u v Hu' Hv') as [H|H]; [left; apply before_cons; auto|right; auto].
Qed.


Theorem toposort_correct fuel start :
  incl start univ -> length univ < fuel ->
  let L := toposort fuel start in
  NoDup L /\
  (forall w, In w L <-> exists r, In r start /\ reach r w) /\
  (forall u v, In u L -> In v (g u) -> before u v L \/ reach v u).
Proof.
  intros Hs Hf L.
  assert (P : Pre fuel start ([], [])).
  { split; [|split; [exact Hs|split]].
    - split; [|split; [|split]]; cbn [fst snd]; try (intros ? ? []); try constructor. intros ? [].
    - cbn [fst]. unfold unvis, unvis_of. eapply Nat.le_lt_trans; [|exact Hf]. clear. induction univ as [|a l IH]; cbn [filter length]; [lia|]. destruct (negb _); cbn [length]; lia.
    - intros w r (Hw & _). destruct Hw. }
  pose proof (list_spec fuel (dfs_spec fuel) start _ P) as Q.
  fold (dfs_list fuel start ([], [])) in L.
  destruct Q as ((new & Ho & Hv & Hd & Hr) & Hroot & (Hincl & Hnd & Hsucc & Hord)).
  cbn [fst snd] in *. rewrite app_nil_r in Ho.
  assert (Hvo : forall w, In w (fst (dfs_list fuel start ([], []))) <-> In w L).
  { intros w. unfold L, toposort. fold (dfs_list fuel start ([], [])). rewrite Ho, Hv. cbn [In]. tauto. }
  split; [exact Hnd|split].
  - intros w. split.
    + intros Hw. apply Hr. unfold L, toposort in Hw. fold (dfs_list fuel start ([], [])) in Hw. rewrite Ho in Hw. exact Hw.
    + intros (r & Hr1 & Hr2). apply Hroot in Hr1. apply Hvo in Hr1.
      induction Hr2 as [x|x y z Hxy _ IH]; auto.
      apply IH. apply Hvo. eapply Hsucc; eauto.
  - exact Hord.
Qed.

End Proofs.
End Topo.
