(* Evaluator for the generated case files of C11: model tokens against
   Python's tokenize of str(e); the model of eval ([parse]) against the
   structure of the object that eval(str(e)) built on the implementation. *)
From Coq Require Import List Bool ZArith NArith.
From XD Require Import model.RefSyntax lib.PyStr model.RefsShow model.RefsPrint run.RunRefsRepr.
Import ListNotations.
Open Scope N_scope.

Fixpoint list_eqb {A} (f : A -> A -> bool) (a b : list A) : bool :=
  match a, b with
  | [], [] => true
  | x :: s, y :: t => f x y && list_eqb f s t
  | _, _ => false
  end.

Fixpoint term_eqb (a b : term) {struct a} : bool :=
  match a, b with
  | TConst x, TConst y => lit_eqb x y
  | TTop l o, TTop l' o' => pystr_eqb l l' && Bool.eqb o o'
  | TItem o k, TItem o' k' | TAttr o k, TAttr o' k' => term_eqb o o' && term_eqb k k'
  | TBin c l r, TBin c' l' r' => (c =? c') && term_eqb l l' && term_eqb r r'
  | TUn c x, TUn c' x' => (c =? c') && term_eqb x x'
  | TLiteral x, TLiteral y => lit_eqb x y
  | TBuiltin f x ps, TBuiltin f' x' ps' =>
      (f =? f') && term_eqb x x' &&
      (fix go (p q : list term) : bool :=
         match p, q with
         | [], [] => true
         | u :: p', v :: q' => term_eqb u v && go p' q'
         | _, _ => false
         end) ps ps'
  | TCall f xs kw, TCall f' xs' kw' =>
      term_eqb f f' &&
      (fix go (p q : list term) : bool :=
         match p, q with
         | [], [] => true
         | u :: p', v :: q' => term_eqb u v && go p' q'
         | _, _ => false
         end) xs xs' &&
      (fix go (p q : list (pystr * term)) : bool :=
         match p, q with
         | [], [] => true
         | (k, u) :: p', (k', v) :: q' => pystr_eqb k k' && term_eqb u v && go p' q'
         | _, _ => false
         end) kw kw'
  | _, _ => false
  end.

(* (expression, tokens of str(expression) by Python's tokenize) *)
Definition tok_mismatches (cs : list (term * list token)) : list nat :=
  mism_from (fun c => toks_eqb (show_tokens (fst c)) (snd c)) 0 cs.

(* labels bound to an ObjectAttrRef; (expression, structure of eval(str(expression))) *)
Definition parse_mismatches (objattr : list pystr) (cs : list (term * term)) : list nat :=
  let kind := fun l => existsb (pystr_eqb l) objattr in
  mism_from (fun c => match parse (id_ns kind) (S (tsize (fst c))) (show_tokens (fst c)) with
                      | Some t => term_eqb t (snd c)
                      | None => false
                      end) 0 cs.

(* rebinding: namespace given as an association list label -> reference *)
Definition parse_ns_mismatches (binds : list (pystr * term)) (cs : list (term * term)) : list nat :=
  let ns := fun l => match find (fun p => pystr_eqb (fst p) l) binds with Some p => Some (snd p) | None => None end in
  mism_from (fun c => match parse ns (S (tsize (fst c))) (show_tokens (fst c)) with
                      | Some t => term_eqb t (snd c)
                      | None => false
                      end) 0 cs.

(* histories on one target manager: containers, operations, and the dump() the
   implementation produced after every operation (printed target, printed
   expression); the model must produce the same lists in the same order *)
Definition dump_chars (pr : list N) (fl : list (N * pystr)) (ts : list taskdef) : list (pystr * pystr) :=
  map (fun d => (show (mk_printable pr) (mk_float fl) (fst d), show (mk_printable pr) (mk_float fl) (snd d))) ts.

Definition pair_eqb (a b : pystr * pystr) : bool := pystr_eqb (fst a) (fst b) && pystr_eqb (snd a) (snd b).

Definition hist_ok (pr : list N) (fl : list (N * pystr))
  (c : list (pystr * term) * list mop * list (list (pystr * pystr))) : bool :=
  let '(cs, ops, dumps) := c in
  match mrun 400 {| ms_containers := cs; ms_tasks := [] |} ops with
  | Some sts => list_eqb (list_eqb pair_eqb) (map (fun s => dump_chars pr fl (ms_tasks s)) sts) dumps
                && forallb (fun s => list_eqb (fun a b => pystr_eqb (fst a) (fst b) && term_eqb (snd a) (snd b)) (ms_containers s) cs) sts
  | None => false
  end.

Definition hist_mismatches (pr : list N) (fl : list (N * pystr))
  (cs : list (list (pystr * term) * list mop * list (list (pystr * pystr)))) : list nat :=
  mism_from (hist_ok pr fl) 0 cs.
