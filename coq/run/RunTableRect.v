(* Evaluator used by the generated case files of C14: constructs the table with
   the checked constructor, runs the derivation chain in the model and reports
   the indices of the cases where a shape (column list with lengths, scalar
   keys, index; compared as multisets — dictionary and set order is not part
   of the property) or an exception class differs from the implementation. *)
From Coq Require Import List Bool Arith ZArith NArith.
From XD Require Import lib.ListAux model.Table model.TableSel model.TableRect run.RunTableSel.
Import ListNotations.

Definition count_of {A} (f : A -> A -> bool) (x : A) (l : list A) : nat := length (filter (f x) l).

Definition mset_eqb {A} (f : A -> A -> bool) (a b : list A) : bool :=
  Nat.eqb (length a) (length b) && forallb (fun x => Nat.eqb (count_of f x a) (count_of f x b)) a.

Definition pair_eqb (p q : N * nat) : bool := N.eqb (fst p) (fst q) && Nat.eqb (snd p) (snd q).

Definition shape_eqb (a b : shape) : bool :=
  let '(ca, sa, ia) := a in let '(cb, sb, ib) := b in
  mset_eqb pair_eqb ca cb && mset_eqb N.eqb sa sb && N.eqb ia ib.

(* data, col_names, index, operations, result of the constructor, results of the operations *)
Definition rcase := (rdata * option (list N) * N * list rop * sres shape * list (sres shape))%type.

Definition rcase_ok (c : rcase) : bool :=
  let '(d, cols, index, ops, e0, es) := c in
  match ctor d cols index with
  | Err e => sres_eqb shape_eqb (Err e) e0 && match es with [] => true | _ => false end
  | Ok t => sres_eqb shape_eqb (Ok (shape_of t)) e0 && leqb (sres_eqb shape_eqb) (rrun t ops) es &&
            (* the model's own states are rectangular whenever the side conditions hold *)
            (negb (rops_okb t ops) || (rectb t && rectb (rfinal t ops)))
  end.

Fixpoint rmismatches_from (i : nat) (cs : list rcase) : list nat :=
  match cs with
  | [] => []
  | c :: rest => if rcase_ok c then rmismatches_from (S i) rest else i :: rmismatches_from (S i) rest
  end.

Definition mismatches (cs : list rcase) : list nat := rmismatches_from 0 cs.
