(* Evaluator used by the generated case files of C07's multi-table scenarios
   (tables with different separators alive in one process). *)
From Coq Require Import List Bool ZArith NArith.
From XD Require Import lib.ListAux model.Table model.TableMulti run.RunTable.
Import ListNotations.

(* the split oracle as an explicit table: (separators, text) -> (name, count, offset);
   a text that is not listed is a plain name *)
Definition splittab := list ((N * N) * (N * option Z * Z)).

Definition pair_eqb (a b : N * N) : bool := N.eqb (fst a) (fst b) && N.eqb (snd a) (snd b).

Definition split_of (sp : splittab) (seps raw : N) : N * option Z * Z :=
  match aget pair_eqb (seps, raw) sp with Some r => r | None => (raw, None, 0%Z) end.

Definition mtcase := (list stab * list (nat * mop) * list result)%type.

Definition mtcase_ok (sp : splittab) (c : mtcase) : bool :=
  let '(tabs, steps, expected) := c in list_eqb result_eqb (mrun_tabs (split_of sp) tabs steps) expected.

Fixpoint mtmismatches_from (sp : splittab) (i : nat) (cs : list mtcase) : list nat :=
  match cs with
  | [] => []
  | c :: rest => if mtcase_ok sp c then mtmismatches_from sp (S i) rest else i :: mtmismatches_from sp (S i) rest
  end.

Definition mtmismatches (sp : splittab) (cs : list mtcase) : list nat := mtmismatches_from sp 0 cs.
