(* Evaluator used by the generated case files of C07: runs the model on an
   operation list and reports the indices of the cases whose results differ
   from what the implementation produced. *)
From Coq Require Import List Bool ZArith NArith.
From XD Require Import lib.ListAux model.Table.
Import ListNotations.

Definition opt_eqb {A} (f : A -> A -> bool) (a b : option A) : bool :=
  match a, b with Some x, Some y => f x y | None, None => true | _, _ => false end.

Fixpoint list_eqb {A} (f : A -> A -> bool) (a b : list A) : bool :=
  match a, b with
  | [], [] => true
  | x :: s, y :: t => f x y && list_eqb f s t
  | _, _ => false
  end.

Definition err_eqb (a b : err) : bool :=
  match a, b with KeyError, KeyError | IndexError, IndexError | ValueError, ValueError => true | _, _ => false end.

Definition result_eqb (a b : result) : bool :=
  match a, b with
  | RPos x, RPos y => Z.eqb x y
  | RValZ x, RValZ y => Z.eqb x y
  | RValN x, RValN y => N.eqb x y
  | RUnit, RUnit => true
  | RErr x, RErr y => err_eqb x y
  | RLabels x, RLabels y => list_eqb (fun p q => N.eqb (fst p) (fst q) && opt_eqb Z.eqb (snd p) (snd q)) x y
  | _, _ => false
  end.

(* a case: initial table, operations, the results the implementation gave *)
Definition tcase := (table * list op * list result)%type.

Definition case_ok (c : tcase) : bool :=
  let '(t, ops, expected) := c in list_eqb result_eqb (run t ops) expected.

Fixpoint mismatches_from (i : nat) (cs : list tcase) : list nat :=
  match cs with
  | [] => []
  | c :: rest => if case_ok c then mismatches_from (S i) rest else i :: mismatches_from (S i) rest
  end.

Definition mismatches (cs : list tcase) : list nat := mismatches_from 0 cs.
