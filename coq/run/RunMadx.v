(* Evaluator used by the generated case files of C19: the model of
   model/Madx.v over the *extracted* tables of gen/GenMadx.v, instantiated with
   exact rational arithmetic.  A binary64 operation whose exact result is
   representable returns that result, so on inputs where every intermediate
   value is a (small) dyadic rational the instance agrees with CPython exactly;
   whenever a result is not representable (or an exponent is not a small
   integer) the instance answers EStuck = "no prediction" and the case is not
   compared. *)
From Coq Require Import String List Bool Arith ZArith QArith Qabs NArith.
From XD Require Import model.MadxSyn model.Madx gen.GenMadx.
Import ListNotations.
Open Scope string_scope.

Inductive rval :=
| RNum (q : Q)          (* a float or int with this exact value *)
| RNaN
| RObj (id : N).        (* 0 variables, 1 functions, 2 elements, 100+i element i, 200+j function j *)

Inductive rerr := EZeroDiv | EOther | EStuck.

Definition rres := res rerr rval.

(* ---- representability ------------------------------------------------------------- *)
Fixpoint pos_log2_exact (p : positive) : option nat :=   (* Some k iff p = 2^k *)
  match p with
  | xH => Some 0%nat
  | xO p' => match pos_log2_exact p' with Some k => Some (S k) | None => None end
  | xI _ => None
  end.

Fixpoint strip_zeros (p : positive) : positive :=
  match p with xO p' => strip_zeros p' | _ => p end.

Definition fits (q : Q) : bool :=
  let q := Qred q in
  match pos_log2_exact (Qden q) with
  | None => false
  | Some k =>
      (k <=? 300)%nat &&
      match Qnum q with
      | Z0 => true
      | Zpos p | Zneg p => (Pos.size_nat (strip_zeros p) <=? 53)%nat && (Pos.size_nat p <=? 300)%nat
      end
  end.

Definition num (q : Q) : rres := if fits q then Ok (RNum (Qred q)) else Err EStuck.

Definition q_is_zero (q : Q) : bool := Z.eqb (Qnum q) 0.

Fixpoint qpow_pos (x : Q) (n : nat) : Q := match n with O => 1%Q | S k => Qred (Qmult x (qpow_pos x k)) end.

(* x ** y for an integer exponent of small magnitude *)
Definition qpow (x y : Q) : rres :=
  let y := Qred y in
  if negb (Pos.eqb (Qden y) 1) then Err EStuck else
  match Qnum y with
  | Z0 => Ok (RNum 1%Q)
  | Zpos p => if Pos.leb p 64 then num (qpow_pos x (Pos.to_nat p)) else Err EStuck
  | Zneg p => if q_is_zero x then Err EZeroDiv
              else if Pos.leb p 64 then
                     (* the result must be representable, and so must the positive power
                        (CPython computes pow(x, -n) directly; both are exact or we do not predict) *)
                     match num (qpow_pos x (Pos.to_nat p)) with
                     | Ok _ => num (Qinv (qpow_pos x (Pos.to_nat p)))
                     | Err e => Err e
                     end
                   else Err EStuck
  end.

Definition r_p2 (op : pyop2) (a b : rval) : rres :=
  match a, b with
  | RObj _, _ | _, RObj _ => Err EOther                     (* TypeError *)
  | RNum x, RNum y =>
      match op with
      | OAdd => num (Qplus x y)
      | OSub => num (Qminus x y)
      | OMul => num (Qmult x y)
      | OTruediv => if q_is_zero y then Err EZeroDiv else num (Qdiv x y)
      | OPow => qpow x y
      end
  | RNaN, RNum y =>
      match op with
      | OTruediv => if q_is_zero y then Err EZeroDiv else Ok RNaN
      | OPow => if q_is_zero y then Ok (RNum 1%Q) else Ok RNaN
      | _ => Ok RNaN
      end
  | RNum x, RNaN =>
      match op with
      | OPow => if Qeq_bool x 1%Q then Ok (RNum 1%Q) else Ok RNaN
      | _ => Ok RNaN
      end
  | RNaN, RNaN => Ok RNaN
  end.

Definition r_p1 (op : pyop1) (a : rval) : rres :=
  match a with
  | RObj _ => Err EOther
  | RNaN => Ok RNaN
  | RNum x => match op with ONeg => num (Qopp x) | OPos => num x end
  end.

(* ---- the state of the containers ---------------------------------------------------- *)
Record rstate := mk_rstate {
  s_vars : list (string * rval);
  s_vdefault : bool;                                 (* variables is a defaultdict(lambda: 0) *)
  s_elems : list (string * list (string * rval)) }.

Definition r_bind := @bind rerr.

(* the function module used for the compared cases (tools/impl/madx_runner.py, class ExactFunctions) *)
Definition fun_names : list string := ["dbl"; "avg"; "mac"; "fabs"; "sq"; "inv"; "second"].

Fixpoint index_of (k : string) (l : list string) (i : N) : option N :=
  match l with [] => None | x :: r => if String.eqb k x then Some i else index_of k r (N.succ i) end.

Fixpoint elem_index (k : string) (l : list (string * list (string * rval))) (i : N) : option N :=
  match l with [] => None | (x, _) :: r => if String.eqb k x then Some i else elem_index k r (N.succ i) end.

Definition r_getitem (st : rstate) (o : rval) (k : string) : rres :=
  match o with
  | RObj 0%N => match assoc k (s_vars st) with
                | Some v => Ok v
                | None => if s_vdefault st then Ok (RNum 0%Q) else Err EOther
                end
  | RObj 2%N => match elem_index k (s_elems st) 0%N with Some i => Ok (RObj (100 + i)%N) | None => Err EOther end
  | RObj id => if (N.leb 100 id && N.ltb id 200)%bool then
                 match nth_error (s_elems st) (N.to_nat (id - 100)) with
                 | Some (_, fields) => match assoc k fields with Some v => Ok v | None => Err EOther end
                 | None => Err EStuck
                 end
               else Err EOther
  | _ => Err EOther
  end.

(* elements of attribute mode are objects carrying the same fields as attributes *)
Definition r_getattr (st : rstate) (o : rval) (k : string) : rres :=
  match o with
  | RObj 1%N => match index_of k fun_names 0%N with Some j => Ok (RObj (200 + j)%N) | None => Err EOther end
  | RObj id => if (N.leb 100 id && N.ltb id 200)%bool then
                 match nth_error (s_elems st) (N.to_nat (id - 100)) with
                 | Some (_, fields) => match assoc k fields with Some v => Ok v | None => Err EOther end
                 | None => Err EStuck
                 end
               else Err EOther
  | _ => Err EOther
  end.

Definition two : rval := RNum 2%Q.
Definition one : rval := RNum 1%Q.

Definition r_call (st : rstate) (f : rval) (args : list rval) : rres :=
  match f with
  | RObj id =>
      if negb (N.leb 200 id && N.ltb id 207)%bool then Err EOther else
      match N.to_nat (id - 200), args with
      | 0%nat, [x] => r_p2 OAdd x x                                                 (* dbl(x) = x + x         *)
      | 1%nat, [x; y] => r_bind _ _ (r_p2 OAdd x y) (fun s => r_p2 OTruediv s two)  (* avg(x, y) = (x + y) / 2 *)
      | 2%nat, [x; y] => r_bind _ _ (r_p2 OMul x y) (fun s => r_p2 OAdd s one)      (* mac(x, y) = x * y + 1   *)
      | 3%nat, [x] => match x with                                                  (* fabs = math.fabs        *)
                      | RNum q => num (Qabs q) | RNaN => Ok RNaN | RObj _ => Err EOther end
      | 4%nat, [x] => r_p2 OMul x x                                                 (* sq(x) = x * x           *)
      | 5%nat, [x] => r_p2 OTruediv one x                                           (* inv(x) = 1 / x          *)
      | 6%nat, [x; y] => Ok y                                                       (* second(x, y) = y        *)
      | _, _ => Err EOther                                                          (* TypeError: arity        *)
      end
  | _ => Err EOther
  end.

Definition is_zd (e : rerr) : bool := match e with EZeroDiv => true | _ => false end.

Definition r_roots : list rval := [RObj 0; RObj 1; RObj 2]%N.

Definition r_float (floats : list (string * Q)) (tok : string) : rres :=
  match assoc tok floats with Some q => num q | None => Err EStuck end.

Definition r_elem_alias (attr : bool) : string :=
  match alias_of_shape (if attr then madx_grammar_attr else madx_grammar) shape_arrow with
  | Some a => a | None => "" end.

(* the two evaluators over the extracted tables *)
Definition run_imm (attr : bool) (floats : list (string * Q)) (st : rstate) (t : mtree) : rres :=
  eval rerr rval EStuck (plain_alg rerr rval rstate r_p2 r_p1 (r_float floats) r_getitem r_getattr r_call st)
       callbacks eval_cfg r_roots (r_elem_alias attr) t.

Definition run_build (attr : bool) (floats : list (string * Q)) (t : mtree) : res rerr (dv rval) :=
  eval rerr (dv rval) EStuck (def_alg rerr rval EStuck EOther r_p2 r_p1 (r_float floats) ref_tabs special_methods)
       callbacks eval_cfg [DRoot 0; DRoot 1; DRoot 2] (r_elem_alias attr) t.

Definition run_value (st : rstate) (d : dv rval) : rres :=
  value rerr rval rstate EStuck is_zd RNaN r_p2 r_p1 r_getitem r_getattr r_call r_roots ref_tabs st d.

(* ---- comparison with what the implementation produced ----------------------------- *)
Inductive obs :=
| ONum (q : Q) | ONaN
| OErrZD | OErrOther
| OOtherVal.            (* a value outside the instance (inf, a non-number): never equal *)

Inductive verdict := Same | Differ | NoPrediction.

Definition cmp (m : rres) (o : obs) : verdict :=
  match m, o with
  | Err EStuck, _ => NoPrediction
  | Ok (RNum q), ONum q' => if Qeq_bool q q' then Same else Differ
  | Ok RNaN, ONaN => Same
  | Err EZeroDiv, OErrZD => Same
  | Err EOther, OErrOther => Same
  | _, _ => Differ
  end.

(* structure of the deferred expression: classes, operands, keys, plain leaves *)
Fixpoint dv_eqb (a b : dv rval) : bool :=
  match a, b with
  | DPlain (RNum x), DPlain (RNum y) => Qeq_bool x y
  | DPlain RNaN, DPlain RNaN => true
  | DRoot i, DRoot j => Nat.eqb i j
  | DAcc c o k, DAcc c' o' k' => String.eqb c c' && dv_eqb o o' && String.eqb k k'
  | DBin c l r, DBin c' l' r' => String.eqb c c' && dv_eqb l l' && dv_eqb r r'
  | DUn c x, DUn c' x' => String.eqb c c' && dv_eqb x x'
  | DCallN c f xs, DCallN c' f' xs' =>
      String.eqb c c' && dv_eqb f f' &&
      (fix go (l1 l2 : list (dv rval)) : bool :=
         match l1, l2 with
         | [], [] => true
         | u :: r1, v :: r2 => dv_eqb u v && go r1 r2
         | _, _ => false
         end) xs xs'
  | _, _ => false
  end.

(* what the implementation's deferred evaluator returned at build time *)
Inductive bobs := BExpr (d : dv rval) | BErrZD | BErrOther | BUnknown.

Definition cmp_build (m : res rerr (dv rval)) (o : bobs) : verdict :=
  match m, o with
  | Err EStuck, _ => NoPrediction
  | _, BUnknown => NoPrediction
  | Ok d, BExpr d' => if dv_eqb d d' then Same else Differ
  | Err EZeroDiv, BErrZD => Same
  | Err EOther, BErrOther => Same
  | _, _ => Differ
  end.

Record mcase := mk_mcase {
  c_attr : bool;
  c_floats : list (string * Q);
  c_tree : mtree;
  c_st1 : rstate;
  c_st2 : rstate;                 (* after the variables changed through the manager *)
  c_imm1 : obs;                   (* madeval(s) in state 1                              *)
  c_build : bobs;                 (* structure of madexpr(s)                            *)
  c_def1 : obs;                   (* madexpr(s)._get_value() in state 1                 *)
  c_imm2 : obs;                   (* madeval(s) in state 2                              *)
  c_def2 : obs }.                 (* the same expression object, _get_value() in state 2 *)

Definition worst (a b : verdict) : verdict :=
  match a, b with
  | Differ, _ | _, Differ => Differ
  | NoPrediction, _ | _, NoPrediction => NoPrediction
  | Same, Same => Same
  end.

Definition case_verdict (c : mcase) : verdict :=
  let b := run_build (c_attr c) (c_floats c) (c_tree c) in
  let dval st := match b with Ok d => run_value st d | Err e => Err e end in
  let vb := cmp_build b (c_build c) in
  (* a build-time exception is observed by the harness as the exception of both deferred reads *)
  worst (cmp (run_imm (c_attr c) (c_floats c) (c_st1 c) (c_tree c)) (c_imm1 c))
 (worst vb
 (worst (cmp (dval (c_st1 c)) (c_def1 c))
 (worst (cmp (run_imm (c_attr c) (c_floats c) (c_st2 c) (c_tree c)) (c_imm2 c))
        (cmp (dval (c_st2 c)) (c_def2 c))))).

Fixpoint select (v : verdict -> bool) (i : nat) (cs : list mcase) : list nat :=
  match cs with
  | [] => []
  | c :: r => if v (case_verdict c) then i :: select v (S i) r else select v (S i) r
  end.

Definition mismatches (cs : list mcase) : list nat :=
  select (fun v => match v with Differ => true | _ => false end) 0 cs.
Definition unpredicted (cs : list mcase) : list nat :=
  select (fun v => match v with NoPrediction => true | _ => false end) 0 cs.
