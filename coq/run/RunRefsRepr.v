(* Evaluator for the generated case files of C06 (and the character level of
   C11): model [show] against the repr() the implementation produced, and the
   model of BaseRef.__eq__ against the implementation's ==.  The oracles
   (printable code points, float texts) are the tables sampled by the harness. *)
From Coq Require Import List Bool ZArith NArith.
From XD Require Import model.RefSyntax lib.PyStr model.RefsShow.
Import ListNotations.
Open Scope N_scope.

Definition mk_printable (l : list N) : N -> bool := fun c => existsb (N.eqb c) l.

Definition mk_float (tbl : list (N * pystr)) : N -> pystr :=
  fun t => match find (fun p => fst p =? t) tbl with Some p => snd p | None => [] end.

Fixpoint mism_from {A} (ok : A -> bool) (i : nat) (cs : list A) : list nat :=
  match cs with
  | [] => []
  | c :: r => if ok c then mism_from ok (S i) r else i :: mism_from ok (S i) r
  end.

(* (term, repr(ref) as code points) *)
Definition show_mismatches (pr : list N) (fl : list (N * pystr)) (cs : list (term * pystr)) : list nat :=
  mism_from (fun c => pystr_eqb (show (mk_printable pr) (mk_float fl) (fst c)) (snd c)) 0 cs.

(* (a, b, a == b on the implementation) *)
Definition eq_mismatches (pr : list N) (fl : list (N * pystr)) (cs : list (term * term * bool)) : list nat :=
  mism_from (fun c => Bool.eqb (eq_model (mk_printable pr) (mk_float fl) (fst (fst c)) (snd (fst c))) (snd c)) 0 cs.
