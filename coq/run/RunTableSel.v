(* Evaluator used by the generated case files of C08: runs the selection model
   (with the regex verdicts of the case file as an explicit table, and with
   two different iteration orders of the name set) and reports the indices of
   the cases where some view differs from what the implementation produced. *)
From Coq Require Import List Bool ZArith NArith.
From XD Require Import lib.ListAux model.Table model.TableSel.
Import ListNotations.

Fixpoint leqb {A} (f : A -> A -> bool) (a b : list A) : bool :=
  match a, b with
  | [], [] => true
  | x :: s, y :: t => f x y && leqb f s t
  | _, _ => false
  end.

Definition serr_eqb (a b : serr) : bool :=
  match a, b with EKey, EKey | EIndex, EIndex | EType, EType | EValue, EValue | EName, EName => true | _, _ => false end.

Definition sres_eqb {A} (f : A -> A -> bool) (a b : sres A) : bool :=
  match a, b with Ok x, Ok y => f x y | Err x, Err y => serr_eqb x y | _, _ => false end.

(* regex verdicts: pattern -> the names it fully matches *)
Definition mtable := list (N * list N).
Definition matches_of (m : mtable) (p n : N) : bool :=
  match aget N.eqb p m with Some l => existsb (N.eqb n) l | None => false end.

(* what the implementation showed for one query: rows (positions), indices, mask *)
Definition qexp := (sres (list nat) * sres (list Z) * sres (list bool))%type.

Definition query_ok (m : mtable) (ord : list N -> list N) (t : stable) (qe : query * qexp) : bool :=
  let '(q, (er, ei, em)) := qe in
  sres_eqb (leqb Nat.eqb) (rows_positions (matches_of m) ord t q) er &&
  sres_eqb (leqb Z.eqb) (indices (matches_of m) ord t q) ei &&
  sres_eqb (leqb Bool.eqb) (mask (matches_of m) ord t q) em.

Definition scase := (stable * list (query * qexp))%type.

Definition scase_ok (m : mtable) (c : scase) : bool :=
  forallb (query_ok m (fun l => l) (fst c)) (snd c) && forallb (query_ok m (@rev N) (fst c)) (snd c).

Fixpoint smismatches_from (m : mtable) (i : nat) (cs : list scase) : list nat :=
  match cs with
  | [] => []
  | c :: rest => if scase_ok m c then smismatches_from m (S i) rest else i :: smismatches_from m (S i) rest
  end.

Definition mismatches (m : mtable) (cs : list scase) : list nat := smismatches_from m 0 cs.

(* ---- histories on one table: selections interleaved with index-column edits ---- *)

Definition hobs_eqb (a b : hobs) : bool :=
  match a, b with
  | HViews r i m, HViews r' i' m' =>
      sres_eqb (leqb Nat.eqb) r r' && sres_eqb (leqb Z.eqb) i i' && sres_eqb (leqb Bool.eqb) m m'
  | HDone, HDone => true
  | HFail e, HFail e' => serr_eqb e e'
  | _, _ => false
  end.

(* table, operations, what the implementation showed *)
Definition hcase := (stable * list hop * list hobs)%type.

Definition hcase_ok (m : mtable) (c : hcase) : bool :=
  let '(t, ops, exp) := c in
  leqb hobs_eqb (hrun (matches_of m) (fun l => l) t ops) exp &&
  leqb hobs_eqb (hrun (matches_of m) (@rev N) t ops) exp.

Fixpoint hmismatches_from (m : mtable) (i : nat) (cs : list hcase) : list nat :=
  match cs with
  | [] => []
  | c :: rest => if hcase_ok m c then hmismatches_from m (S i) rest else i :: hmismatches_from m (S i) rest
  end.

Definition hmismatches (m : mtable) (cs : list hcase) : list nat := hmismatches_from m 0 cs.

(* ---- several tables with their own regex_flags in one process ------------------- *)

(* tables (fold_case, table), steps (table number, query) with what the implementation showed *)
Definition mcase := (list ftable * list (nat * query * hobs))%type.

Definition mcase_ok (mci mcs : mtable) (c : mcase) : bool :=
  let m2 := fun fc : bool => if fc then matches_of mci else matches_of mcs in
  let steps := map fst (snd c) in
  let exp := map snd (snd c) in
  leqb hobs_eqb (mrun m2 (fun l => l) (fst c) steps) exp && leqb hobs_eqb (mrun m2 (@rev N) (fst c) steps) exp.

Fixpoint mmismatches_from (mci mcs : mtable) (i : nat) (cs : list mcase) : list nat :=
  match cs with
  | [] => []
  | c :: rest => if mcase_ok mci mcs c then mmismatches_from mci mcs (S i) rest else i :: mmismatches_from mci mcs (S i) rest
  end.

Definition mmismatches (mci mcs : mtable) (cs : list mcase) : list nat := mmismatches_from mci mcs 0 cs.

(* ---- value ranges on columns of any dtype: values ranked by the harness (None = NaN) ---- *)

(* column, queries (lo, hi, rows.indices as observed) *)
Definition vcase := (list (option Z) * list (option (option Z) * option (option Z) * list Z))%type.

Definition vcase_ok (c : vcase) : bool :=
  forallb (fun q => let '(lo, hi, exp) := q in leqb Z.eqb (range_view (option Z) rank_le lo hi (fst c)) exp) (snd c).

Fixpoint vmismatches_from (i : nat) (cs : list vcase) : list nat :=
  match cs with
  | [] => []
  | c :: rest => if vcase_ok c then vmismatches_from (S i) rest else i :: vmismatches_from (S i) rest
  end.

Definition vmismatches (cs : list vcase) : list nat := vmismatches_from 0 cs.
