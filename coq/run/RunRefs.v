(* Evaluators used by the generated case files of C04, C05, C12: run the model
   over gen/GenRefs.v and report the indices of the cases where the model
   differs from what the implementation did. *)
From Coq Require Import List Bool ZArith NArith String Ascii.
From XD Require Import model.RefSyntax model.RefTables model.Refs model.RefsOk model.RefsZ model.RefsMgr gen.GenRefs.
Import ListNotations.

(* ASCII names written as Coq strings in the case files *)
Definition str (s : string) : pystr := map N_of_ascii (list_ascii_of_string s).

Definition GT := gen_tables.

(* what the implementation produced *)
Inductive xres := XVal (v : zv) | XErr (e : zerr) | XOther.

Definition res_matches (m : zres) (x : xres) : bool :=
  match m, x with
  | Err EUnsupported, _ => true                       (* outside the Z instance: not compared *)
  | Ok v, XVal w => zv_eqb v w
  | Err e, XErr f => zerr_eqb e f
  | _, _ => false
  end.
Definition is_unsupported (m : zres) : bool := match m with Err EUnsupported => true | _ => false end.

Section Generic.
  Context {A : Type} (ok : A -> bool).
  Fixpoint mism_from (i : nat) (cs : list A) : list nat :=
    match cs with
    | [] => []
    | c :: r => if ok c then mism_from (S i) r else i :: mism_from (S i) r
    end.
End Generic.

(* ---------------- C04: build + value ------------------------------------------------ *)
(* expression as written, the structure of the object the implementation built,
   and its value under several container states *)
Definition c04case := (pexp * term * list (list (pystr * zv) * xres))%type.

Definition c04_ok (c : c04case) : bool :=
  let '(p, t, obs) := c in
  match build GT p with
  | Some t' => term_eqb t' t && forallb (fun o => res_matches (zvalue GT t (zenv_of (fst o))) (snd o)) obs
  | None => false
  end.
Definition c04_mismatches (cs : list c04case) : list nat := mism_from c04_ok 0 cs.
(* number of (case, state) evaluations the Z instance really compared *)
Definition c04_compared (cs : list c04case) : nat :=
  fold_left (fun n c => let '(_, t, obs) := c in
                        n + List.length (filter (fun o => negb (is_unsupported (zvalue GT t (zenv_of (fst o))))) obs))%nat cs 0%nat.

(* in-place: operator, target, its current expression, its current value,
   the operand; what __iop__ returned *)
Inductive iobs := OExpr (t : term) | OVal (x : xres).
Definition c04icase := (binop * term * option term * lit * term * iobs)%type.
Definition c04i_ok (c : c04icase) : bool :=
  let '(op, target, cur, old, other, obs) := c in
  match zinplace GT op target cur old other, obs with
  | Some (IExpr t), OExpr t' => term_eqb t t'
  | Some (IVal v), OVal x => res_matches v x
  | _, _ => false
  end.
Definition c04i_mismatches (cs : list c04icase) : list nat := mism_from c04i_ok 0 cs.

(* nested layouts: the manager's definitions (manager.tasks, in order), what the
   derived properties of some locations returned (_expr, _tasks,
   _find_dependant_targets), and one in-place statement on a location:
   operator, target, its current value (and the same as a literal if it is one),
   operand, what __iop__ returned *)
Definition set_eq (a b : list term) : bool :=
  forallb (fun x => mem_term x b) a && forallb (fun x => mem_term x a) b.
Definition opt_term_eqb (a b : option term) : bool :=
  match a, b with Some x, Some y => term_eqb x y | None, None => true | _, _ => false end.

Definition probe := (term * option term * list term * list term)%type.
Definition probe_ok (m : tasklist) (p : probe) : bool :=
  let '(r, ex, ts, ds) := p in
  opt_term_eqb (expr_of m r) ex && set_eq (tasks_of m r) ts && set_eq (dependants m r) ds.

Definition nstmt := (binop * term * zv * option lit * term * iobs)%type.
Definition nstmt_ok (m : tasklist) (s : nstmt) : bool :=
  let '(op, target, oldv, oldl, other, obs) := s in
  match inplace_at zv zerr z_of_lit z_pyop GT op m target oldv oldl other, obs with
  | Some (IExpr t), OExpr t' => term_eqb t t'
  | Some (IVal v), OVal x => res_matches v x
  | _, _ => false
  end.

Definition c04ncase := (tasklist * list probe * list nstmt)%type.
Definition c04n_ok (c : c04ncase) : bool :=
  let '(m, ps, ss) := c in forallb (probe_ok m) ps && forallb (nstmt_ok m) ss.
Definition c04n_mismatches (cs : list c04ncase) : list nat := mism_from c04n_ok 0 cs.
(* C05 reads the same cases for the dependency-derived properties only *)
Definition probe_deps_ok (m : tasklist) (p : probe) : bool :=
  let '(r, _, ts, ds) := p in set_eq (tasks_of m r) ts && set_eq (dependants m r) ds.
Definition c05n_ok (c : c04ncase) : bool := let '(m, ps, _) := c in forallb (probe_deps_ok m) ps.
Definition c05n_mismatches (cs : list c04ncase) : list nat := mism_from c05n_ok 0 cs.

(* ---------------- C05: dependencies ---------------------------------------------------- *)
Inductive dobs := DSet (l : list term) | DNone | DRaise.
Definition c05case := (term * dobs)%type.

Definition subset (a b : list term) : bool := forallb (fun x => existsb (term_eqb x) b) a.
Definition c05_ok (c : c05case) : bool :=
  let '(t, obs) := c in
  match deps GT t, obs with
  | Some (Some s), DSet l => subset s l && subset l s && subset l (occ t) && subset (occ t) l
  | Some None, DNone => true
  | None, DRaise => true
  | _, _ => false
  end.
Definition c05_mismatches (cs : list c05case) : list nat := mism_from c05_ok 0 cs.

(* ---------------- C12: reduce / rebuild ---------------------------------------------------- *)
Definition fval_eqb (a b : fval) : bool :=
  match a, b with
  | FV1 x, FV1 y => term_eqb x y
  | FVlist x, FVlist y => list_eqb term_eqb x y
  | FVlist [], FVkw [] | FVkw [], FVlist [] => true       (* the empty tuple *)
  | FVkw x, FVkw y => list_eqb (fun p q => pystr_eqb (fst p) (fst q) && term_eqb (snd p) (snd q)) x y
  | FVop x, FVop y => N.eqb x y
  | FVmgr, FVmgr => true
  | FVcont l o, FVcont l' o' => pystr_eqb l l' && Bool.eqb o o'
  | _, _ => false
  end.

(* a node, the class and tuple its __reduce__ returned *)
Definition c12case := (term * N * list fval)%type.
Definition c12_ok (c : c12case) : bool :=
  let '(t, cid, args) := c in
  match reduce GT t with
  | Some (cid', args') =>
      N.eqb cid cid' && list_eqb fval_eqb args args' &&
      match rebuild GT (cid', args'), roundtrip GT t with
      | Some t1, Some t2 => term_eqb t1 t && term_eqb t2 t
      | _, _ => false
      end && wf GT t
  | None => false
  end.
Definition c12_mismatches (cs : list c12case) : list nat := mism_from c12_ok 0 cs.
