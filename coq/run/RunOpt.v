(* Evaluator for the generated optimizer traces (C09, C10, C15): instantiates
   model/Opt.v with Coq's primitive IEEE binary64 floats, the oracles with the
   tables recorded from the real run, replays the operation sequence and
   compares every observable (outcome class, containers, active flags, solver
   x, mask_from_limits, flags of the last evaluation, call counter, every log
   row) bit for bit. *)
From Coq Require Import List Bool Arith NArith ZArith PrimFloat Uint63 FloatClass.
From XD Require Import model.Opt.
Import ListNotations.

(* bit equality of doubles (PrimFloat has one NaN) *)
Definition feqb (a b : float) : bool :=
  match classify a, classify b with
  | NaN, NaN => true
  | PZero, PZero => true
  | NZero, NZero => true
  | PZero, _ | NZero, _ | _, PZero | _, NZero | NaN, _ | _, NaN => false
  | _, _ => PrimFloat.eqb a b
  end.

Fixpoint list_eqb {A} (g : A -> A -> bool) (a b : list A) : bool :=
  match a, b with
  | [], [] => true
  | x :: s, y :: t => g x y && list_eqb g s t
  | _, _ => false
  end.
Definition fl_eqb := list_eqb feqb.
Definition bl_eqb := list_eqb Bool.eqb.
Definition jac_eqb := list_eqb fl_eqb.
Definition opt_eqb {A} (g : A -> A -> bool) (a b : option A) : bool :=
  match a, b with Some x, Some y => g x y | None, None => true | _, _ => false end.

Definition err_eqb (a b : err) : bool :=
  match a, b with
  | EValue, EValue | ERuntime, ERuntime | EAssert, EAssert | EUser, EUser | ELinAlg, ELinAlg => true
  | _, _ => false
  end.

Definition fstate := state float.
Definition frow := row float.
Definition fcfg := cfg float.

Definition c_tolj : float := 0x1.79ca10c924223p-67%float.      (* 1e-20 *)
Definition c_atol : float := 0x1.19799812dea11p-40%float.      (* 1e-12 *)
Definition c_lo : float := (- 0x1.4e718d7d7625ap+664)%float.   (* -1e200 *)
Definition c_hi : float := 0x1.4e718d7d7625ap+664%float.       (* 1e200 *)

Section Tables.
  Variable t_f : list (list float * option (list float)).
  Variable t_pen : list (list float * float).
  Variable t_newton : list (jacm float * list float * list float).
  Variable t_svdfail : list (jacm float).
  Variable t_bro : list ((jacm float * list float * list float * list float * list float) * jacm float).
  Variable t_log : list (float * float).      (* numpy.log10: argument, result *)
  Variable t_match : list (N * N).            (* (selector string, tag or name) pairs for which re.fullmatch succeeds *)

  Fixpoint lookup {K V} (eq : K -> K -> bool) (k : K) (l : list (K * V)) : option V :=
    match l with
    | [] => None
    | (k', v) :: t => if eq k k' then Some v else lookup eq k t
    end.

  (* a point the implementation never evaluated: answer with a NaN vector so
     that the comparison fails visibly *)
  Definition f_tab (k : list float) : option (list float) :=
    match lookup fl_eqb k t_f with
    | Some r => r
    | None => Some [nan]
    end.
  Definition pen_tab (y : list float) : float :=
    match lookup fl_eqb y t_pen with Some p => p | None => nan end.
  Definition newton_tab (m : jacm float) (y : list float) : option (list float) :=
    if existsb (jac_eqb m) t_svdfail then None
    else match lookup (fun a b => jac_eqb (fst a) (fst b) && fl_eqb (snd a) (snd b)) (m, y)
                      (map (fun e => (fst e, snd e)) t_newton) with
         | Some x => Some x
         | None => Some [nan]
         end.
  Definition bro_tab (lj : jacm float) (lx ly x y : list float) : jacm float :=
    match lookup (fun a b => match a, b with
                             | (a1, a2, a3, a4, a5), (b1, b2, b3, b4, b5) =>
                                 jac_eqb a1 b1 && fl_eqb a2 b2 && fl_eqb a3 b3 && fl_eqb a4 b4 && fl_eqb a5 b5
                             end) (lj, lx, ly, x, y) t_bro with
    | Some j => j
    | None => [[nan]]
    end.

  Definition log_tab (x : float) : float :=
    match lookup feqb x t_log with Some y => y | None => nan end.

  Definition match_tab (p a : N) : bool := existsb (fun q => N.eqb (fst q) p && N.eqb (snd q) a) t_match.

  Definition fenv : env :=
    mkEnv float 0%float 1%float 0.5%float PrimFloat.add PrimFloat.sub PrimFloat.mul PrimFloat.div
          PrimFloat.abs PrimFloat.ltb PrimFloat.leb c_tolj 10%float 100%float c_atol c_lo c_hi
          f_tab pen_tab newton_tab bro_tab log_tab match_tab.
  Definition m_run_op (c : fcfg) := run_op fenv c.
  Definition m_init (c : fcfg) := init fenv c.
End Tables.

Inductive outc := OOk | OErr (e : err).
Definition outc_eqb (a b : outc) : bool :=
  match a, b with OOk, OOk => true | OErr x, OErr y => err_eqb x y | _, _ => false end.

Record obs := mkObs {
  o_knobs : list float; o_va : list bool; o_ta : list bool; o_sx : option (list float);
  o_mfl : list bool; o_lpwt : bool; o_lres : list float; o_ltw : list bool;
  o_pen_after : float; o_alpha : Z; o_ncall : nat; o_loglen : nat; o_ragged : bool;
  o_newrows : list frow }.

Definition row_eqb (a b : frow) : bool :=
  fl_eqb (r_knobs a) (r_knobs b) && bl_eqb (r_va a) (r_va b) && bl_eqb (r_ta a) (r_ta b) &&
  feqb (r_pen a) (r_pen b) && fl_eqb (r_targets a) (r_targets b) &&
  bl_eqb (r_tolmet a) (r_tolmet b) && bl_eqb (r_hit a) (r_hit b) &&
  Z.eqb (r_alpha a) (r_alpha b) && N.eqb (r_tag a) (r_tag b).

(* does the model state agree with what was observed on the implementation?
   [prev] = number of log rows already compared *)
Definition obs_ok (prev : nat) (s : fstate) (o : obs) : bool :=
  fl_eqb (knobs s) (o_knobs o) && bl_eqb (va s) (o_va o) && bl_eqb (ta s) (o_ta o) &&
  opt_eqb fl_eqb (sx s) (o_sx o) && bl_eqb (mfl s) (o_mfl o) && Bool.eqb (lpwt s) (o_lpwt o) &&
  fl_eqb (lres s) (o_lres o) && bl_eqb (ltw s) (o_ltw o) && feqb (pen_after s) (o_pen_after o) &&
  Z.eqb (alpha_last s) (o_alpha o) && Nat.eqb (ncall s) (o_ncall o) &&
  (* o_ragged: the implementation's log columns have different lengths (cannot
     happen since add_point_to_log records the knobs after the evaluation; if it
     does, the C15 oracle reports it and the rows are not compared) *)
  (o_ragged o || (Nat.eqb (length (log s)) (o_loglen o) && list_eqb row_eqb (skipn prev (log s)) (o_newrows o))).

(* one step of a recorded history: a modelled operation, run with the
   configuration current at that call (Some c = the user re-assigned attributes
   of Target / Vary objects since the previous call), or a foreign call (any
   other public entry point of Optimize: run_simplex, run_ls_trf, status tables,
   views of the merit function ...), after which the model takes over the observed
   state: nothing hidden may survive it *)
Inductive tstep :=
| TOp (c : option fcfg) (o : op) (clr : bool) (oc : outc) (ob : obs)   (* clr: clear_log, rows compared from 0 again *)
| TForeign (ob : obs).

Record tcase := mkCase {
  t_cfg : fcfg; t_k0 : list float; t_va0 : list bool;
  t_f : list (list float * option (list float));
  t_pen : list (list float * float);
  t_newton : list (jacm float * list float * list float);
  t_svdfail : list (jacm float);
  t_bro : list ((jacm float * list float * list float * list float * list float) * jacm float);
  t_log : list (float * float);
  t_match : list (N * N);
  t_init : outc * option obs;
  t_ops : list tstep }.

Definition fuel := 1200.

(* after a foreign call: every field the implementation exposes is taken from the
   observation (the Broyden memory is not touched by foreign calls) *)
Definition resync (s : fstate) (o : obs) : fstate :=
  mkState (o_knobs o) (o_va o) (o_ta o) (o_sx o) (o_mfl o) (o_lpwt o) (o_lres o) (o_ltw o)
          (o_pen_after o) (o_alpha o) (bro s) (log s ++ o_newrows o) (o_ncall o).

Fixpoint replay (c : tcase) (cf : fcfg) (k : nat) (prev : nat) (s : fstate) (ops : list tstep) : option nat :=
  match ops with
  | [] => None
  | TForeign ob :: rest => replay c cf (S k) (o_loglen ob) (resync s ob) rest
  | TOp nc o clr oc ob :: rest =>
      let cf := match nc with Some c' => c' | None => cf end in
      let prev := if clr then 0 else prev in
      match m_run_op (t_f c) (t_pen c) (t_newton c) (t_svdfail c) (t_bro c) (t_log c) (t_match c) cf fuel o s with
      | Ok s' => if outc_eqb oc OOk && obs_ok prev s' ob then replay c cf (S k) (o_loglen ob) s' rest else Some k
      | Err e s' => if outc_eqb oc (OErr e) && obs_ok prev s' ob then replay c cf (S k) (o_loglen ob) s' rest else Some k
      | Div => Some k
      end
  end.

(* None = the model reproduces the run; Some k = first differing operation
   (0 = the constructor, k+1 = step k) *)
Definition case_result (c : tcase) : option nat :=
  match m_init (t_f c) (t_pen c) (t_newton c) (t_svdfail c) (t_bro c) (t_log c) (t_match c) (t_cfg c) (t_k0 c) (t_va0 c), t_init c with
  | Ok s, (OOk, Some ob) =>
      if obs_ok 0 s ob then option_map S (replay c (t_cfg c) 0 (o_loglen ob) s (t_ops c)) else Some 0
  | Err e _, (OErr e', _) => if err_eqb e e' then None else Some 0
  | _, _ => Some 0
  end.

Fixpoint mismatches_from (i : nat) (cs : list tcase) : list nat :=
  match cs with
  | [] => []
  | c :: rest => match case_result c with
                 | None => mismatches_from (S i) rest
                 | Some _ => i :: mismatches_from (S i) rest
                 end
  end.
Definition mismatches (cs : list tcase) : list nat := mismatches_from 0 cs.
(* for diagnosis: where each case first differs *)
Definition first_diffs (cs : list tcase) : list (option nat) := map case_result cs.
