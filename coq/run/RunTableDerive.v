(* Evaluator used by the generated case files of C07's lookup / derive / lookup
   chains: indices of the cases whose results differ from the implementation. *)
From Coq Require Import List Bool ZArith NArith.
From XD Require Import lib.ListAux model.Table model.TableSel model.TableDerive run.RunTable.
Import ListNotations.

Definition dcase := (table * list dop * list result)%type.

Definition dcase_ok (c : dcase) : bool :=
  let '(t, ops, expected) := c in list_eqb result_eqb (drun t ops) expected.

Fixpoint dmismatches_from (i : nat) (cs : list dcase) : list nat :=
  match cs with
  | [] => []
  | c :: rest => if dcase_ok c then dmismatches_from (S i) rest else i :: dmismatches_from (S i) rest
  end.

Definition dmismatches (cs : list dcase) : list nat := dmismatches_from 0 cs.
