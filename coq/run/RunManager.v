(* Evaluator for the generated manager case files: runs the model on a
   history and compares, after every operation, with what the implementation
   did (exception class, run trace, container contents, task list, the four
   indices with multiplicities, knob memory, frozen flag). *)
From Coq Require Import List Bool Arith ZArith NArith.
From XD Require Import lib.ListAux lib.Toposort model.Manager model.ManagerData.
Import ListNotations.
Local Open Scope nat_scope.

Inductive leafv := LZ (z : Z) | LFun | LFun2.

Record expect := mkX {
  x_err : nat;                              (* 0 none, 1 ValueError, 2 data error, 4 fault, 9 other *)
  x_trace : list path;
  x_store : list (path * leafv);
  x_tasks : list path;
  x_rdeps : list (path * list (path * nat));
  x_rtasks : list (path * list (path * nat));
  x_deptasks : list (path * list (path * nat));
  x_tartasks : list (path * list (path * nat));
  x_prev : list (path * Z);
  x_frozen : bool
}.

Definition err_code (e : option merr) : nat :=
  match e with
  | None => 0
  | Some EFrozen | Some EValue => 1
  | Some EKey | Some EType => 2
  | Some EFault => 4
  | Some EOracle => 8
  end.

Fixpoint list_eqb {A} (f : A -> A -> bool) (a b : list A) : bool :=
  match a, b with
  | [], [] => true
  | x :: s, y :: t => f x y && list_eqb f s t
  | _, _ => false
  end.

Fixpoint nleaves (n : node) : nat :=
  match n with
  | Dict kids => (fix go (l : list (N * node)) : nat :=
                    match l with [] => 0 | (_, c) :: r => nleaves c + go r end) kids
  | _ => 1
  end.

Definition leaf_ok (st : node) (pl : path * leafv) : bool :=
  match nget st (fst pl), snd pl with
  | Some (Leaf z), LZ z' => Z.eqb z z'
  | Some (Fun false), LFun => true
  | Some (Fun true), LFun2 => true
  | _, _ => false
  end.

Definition store_ok (st : node) (x : list (path * leafv)) : bool :=
  Nat.eqb (nleaves st) (length x) && forallb (leaf_ok st) x.

Definition rc_eqb (a b : list (path * nat)) : bool :=
  list_eqb (fun p q => path_eqb (fst p) (fst q) && Nat.eqb (snd p) (snd q)) a b.

(* same entries (empty ones dropped), inner lists equal including order *)
Definition index_ok (d : @index path) (x : list (path * list (path * nat))) : bool :=
  let d' := cleanup_index d in
  Nat.eqb (length d') (length x) && forallb (fun p => rc_eqb (ipeek path_eqb (fst p) d') (snd p)) x.

Definition obs_ok (r : dmgr * dstate * outcome) (x : expect) : bool :=
  let '(m, s, out) := r in
  Nat.eqb (err_code (o_err out)) (x_err x)
  && list_eqb path_eqb (o_trace out) (x_trace x)
  && store_ok (d_st s) (x_store x)
  && list_eqb path_eqb (map fst (m_tasks m)) (x_tasks x)
  && index_ok (m_rdeps m) (x_rdeps x) && index_ok (m_rtasks m) (x_rtasks x)
  && index_ok (m_deptasks m) (x_deptasks x) && index_ok (m_tartasks m) (x_tartasks x)
  && list_eqb (fun p q => path_eqb (fst p) (fst q) && Z.eqb (snd p) (snd q))
              (filter (fun p => match aget path_eqb (fst p) (m_tasks m) with
                                | Some t => match t_act t with AKnob _ _ => true | _ => false end
                                | None => false
                                end) (d_prev s)) (x_prev x)
  && Bool.eqb (m_frozen m) (x_frozen x).

(* a case: initial store, operations, expected observation after each *)
Definition mcase := (node * list mop * list expect)%type.

(* index of the first operation whose observation differs, if any *)
Fixpoint first_bad (i : nat) (rs : list (dmgr * dstate * outcome)) (xs : list expect) : option nat :=
  match rs, xs with
  | [], [] => None
  | r :: rs', x :: xs' => if obs_ok r x then first_bad (S i) rs' xs' else Some i
  | _, _ => Some i
  end.

Definition case_bad (c : mcase) : option nat :=
  let '(st, ops, xs) := c in
  first_bad 0 (run_hist empty_mgr (mkD st [] None) ops) xs.

(* result: for every failing case, (case number, operation number) flattened *)
Fixpoint mismatches_from (i : nat) (cs : list mcase) : list nat :=
  match cs with
  | [] => []
  | c :: rest => match case_bad c with
                 | None => mismatches_from (S i) rest
                 | Some k => i :: k :: mismatches_from (S i) rest
                 end
  end.

Definition mismatches (cs : list mcase) : list nat := mismatches_from 0 cs.
