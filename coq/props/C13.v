(* C13 — generated setter functions are equivalent to assigning through the manager. *)
From Coq Require Import List Bool Arith ZArith NArith Lia.
From XD Require Import lib.ListAux lib.Toposort model.Manager model.ManagerData
  proofs.ManagerIdx proofs.ManagerInv proofs.ManagerTrace proofs.ManagerDataInv proofs.Store proofs.ManagerC01
  proofs.ManagerFun.
From XD Require Import model.TasksSem model.TasksSemData gen.GenTasks gen.GenTasksData proofs.TasksSrc proofs.TasksSrcData.
Import ListNotations.
Local Open Scope nat_scope.

(* the source produced by mk_fun: after the argument assignments it lists exactly the
   tasks triggered by the arguments or an enclosing container — the same start set
   set_value uses — once each, producers first (unless on a cycle), for every
   iteration order of the sets involved *)
Theorem C13_source : forall (m : dmgr) args sd so tl m',
  Inv path_eqb m -> mk_fun m args sd so = Ok (tl, m') ->
  let L := map (@t_id path action) tl in
  (forall x, In x sd <-> exists p, In p args /\ In x (deps_of p)) /\
  NoDup L /\
  (forall w, In w L <-> Triggered path_eqb (m_tasks m) sd w) /\
  (forall u v, In u L -> edge path_eqb (m_tasks m) u v -> before u v L \/ clos (edge path_eqb (m_tasks m)) v u) /\
  Inv path_eqb m' /\ m_tasks m' = m_tasks m.
Proof. exact mk_fun_spec. Qed.

(* executing the generated function on the plain containers: every definition holds
   the value of its expression, every argument location holds its argument, and no
   other location changes — exactly what C01 guarantees for the manager route, so
   both routes end in a store satisfying the same complete specification *)
Theorem C13_exec_consistent_partial : forall (m : dmgr) s args sd so tl m' s' tr,
  Inv path_eqb m -> Consistent (m_tasks m) (d_st s) -> d_fault s = None ->
  mk_fun m (map fst args) sd so = Ok (tl, m') -> exec_fun tl args s = (s', tr, None) ->
  sem_wf (m_tasks m) -> writes_disjoint (m_tasks m) -> no_self_read (m_tasks m) ->
  args_ok (m_tasks m) args ->
  (forall u w, In u tr -> In w tr -> u <> w -> edge path_eqb (m_tasks m) u w ->
               ~ clos (edge path_eqb (m_tasks m)) w u) ->
  Consistent (m_tasks m) (d_st s') /\
  (forall p v, In (p, v) args -> nget (d_st s') p = Some v) /\
  (forall q, (forall p, In p (map fst args) -> overlap p q = false) ->
             (forall a, In a tr -> overlap a q = false) -> nget (d_st s') q = nget (d_st s) q).
Proof. exact exec_fun_consistent. Qed.

(* two stores that satisfy that specification agree on every location: the
   function route and the manager route are observationally equal *)
Theorem C13_equiv_partial : forall (ts : list (path * @task path action)) (L : list path) (st sa sb : node) (srcs : list path),
  sem_wf ts -> no_self_read ts -> NoDup L ->
  (forall u v, In u L -> edge path_eqb ts u v -> before u v L \/ clos (edge path_eqb ts) v u) ->
  (forall u v, In u L -> In v L -> u <> v -> edge path_eqb ts u v -> ~ clos (edge path_eqb ts) v u) ->
  (forall a, In a L -> exists T, aget path_eqb a ts = Some T) ->
  (* both are consistent on the triggered tasks *)
  (forall a, In a L -> cons_at ts sa a) -> (forall a, In a L -> cons_at ts sb a) ->
  (* and agree on what the triggered tasks read off the triggered targets *)
  (forall a T e q, In a L -> aget path_eqb a ts = Some T -> t_act T = AExpr e -> In q (reads e) ->
                   (forall c, In c L -> overlap c q = false) -> nget sa q = nget sb q) ->
  (* reads of a triggered task that overlap a triggered target are covered by it *)
  (forall a T e q b, In a L -> aget path_eqb a ts = Some T -> t_act T = AExpr e -> In q (reads e) ->
                     In b L -> overlap b q = true -> is_prefix b q = true) ->
  forall a, In a L -> nget sa a = nget sb a.
Proof. exact consistent_unique. Qed.

(* tie to the source (gen/GenTasksData.v, regenerated on every run): the body lines that Manager.mk_fun writes — one
   "ref_i = arg_i" per argument, then str(task) of every task found from the arguments' dependency sets — executed top
   to bottom on the plain containers (what gen_fun's exec() does) are the model's MGenFun step, whenever the listed tasks
   are expression tasks (the only ones whose printed form is a statement) *)
Theorem C13_gen_fun_is_source : forall (m : dmgr) s args sd so,
  (forall tl m', find_tasks path_eqb m sd so = Ok (tl, m') -> Forall is_expr_task tl) ->
  src_gen_fun_call (map fst args) (map snd args) sd so (m, s, []) =
  let '(m', s', out) := step m s (MGenFun args sd so) in ((m', s', o_trace out), res_of (o_err out)).
Proof. exact src_gen_fun_eq. Qed.

Print Assumptions C13_source.
Print Assumptions C13_exec_consistent_partial.
Print Assumptions C13_equiv_partial.
Print Assumptions C13_gen_fun_is_source.
