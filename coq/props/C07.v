(* C07 — table rows addressed by name resolve against the current index column.
   Only statements, each closed by [exact] of a lemma of proofs/TableCache.v,
   followed by Print Assumptions. *)
From Coq Require Import List ZArith NArith.
From XD Require Import lib.ListAux model.Table proofs.TableCache model.TableSel model.TableDerive proofs.TableDerive model.TableMulti proofs.TableMulti.
Import ListNotations.
Open Scope Z_scope.

(* The cache built by _make_cache answers exactly like a scan of the column:
   count-th occurrence (negative counts from the last one) plus offset, for
   every column, name, count and offset; None is KeyError. *)
Theorem C07_cache_refines_scan : forall col n cnt off,
  get_row_cache (make_cache col) n cnt off =
  option_map (fun i => Z.of_nat i + off)
             (nth_occurrence col n (match cnt with None => 0 | Some c => c end)).
Proof. exact cache_refines_scan. Qed.
Print Assumptions C07_cache_refines_scan.

(* After every sequence of API updates the cache is absent or is the cache of
   the *current* index column. *)
Theorem C07_coherent : forall ops t,
  coherent t -> ops_raw_ok t ops -> coherent (final t ops).
Proof. exact final_coherent. Qed.
Print Assumptions C07_coherent.

(* rows.get_index / table // row, and table[col,row], on every reachable
   state, return what the scan of the current index column defines. *)
Theorem C07_resolve_current : forall t0 ops r,
  t_cache t0 = None -> ops_raw_ok t0 ops ->
  let t := final t0 ops in
  snd (step t (OGetIndex r)) = or_key (resolve_spec (t_idx t) r) /\
  (raw_ok (t_idx t) r -> forall cr,
   snd (step t (OGetCell cr r)) =
   match resolve_spec (t_idx t) r with Some i => cell_at t cr i | None => RErr KeyError end).
Proof. exact resolve_after_history. Qed.
Print Assumptions C07_resolve_current.

(* table[index, row] = v writes the row the scan designates and leaves the
   table coherent. *)
Theorem C07_set_cell_current : forall t r v, coherent t -> raw_ok (t_idx t) r ->
  match resolve_spec (t_idx t) r with
  | Some i => match np_pos (t_idx t) i with
              | Some k => t_idx (fst (step t (OSetCellN r v))) = list_set (t_idx t) k v
                          /\ t_cache (fst (step t (OSetCellN r v))) = None
              | None => snd (step t (OSetCellN r v)) = RErr IndexError /\ t_idx (fst (step t (OSetCellN r v))) = t_idx t
              end
  | None => snd (step t (OSetCellN r v)) = RErr KeyError /\ t_idx (fst (step t (OSetCellN r v))) = t_idx t
  end.
Proof. exact set_cell_current. Qed.
Print Assumptions C07_set_cell_current.

(* label i of get_index_unique ("name" when unique, else "name::k") resolves to i *)
Theorem C07_labels_roundtrip : forall col i n k,
  nth_error (c_lab (make_cache col)) i = Some (n, k) ->
  nth_occurrence col n (match k with None => 0 | Some c => c end) = Some i /\
  (k = None -> length (positions col n 0) = 1%nat).
Proof. exact labels_roundtrip. Qed.
Print Assumptions C07_labels_roundtrip.

Theorem C07_labels_total : forall col, length (c_lab (make_cache col)) = length col.
Proof. exact make_cache_lab_length. Qed.
Print Assumptions C07_labels_total.

(* Derived tables (t + t, t + t.rows[..], t * k, _copy, rows[..], cols[..],
   Table.concatenate, _t) are new objects without a row-name cache, and the
   in-place changes of which column is the index (t._index = other column;
   index column deleted and assigned again) drop the cache: on the
   table reached by any history of updates, lookups and derivations (lookups
   on the source BEFORE deriving included), a lookup resolves against that
   table's own current index column — nothing of the source's cache survives. *)
Theorem C07_derived_fresh : forall t0 ops r,
  t_cache t0 = None -> dops_raw_ok t0 ops ->
  let t := dfinal t0 ops in
  snd (step t (OGetIndex r)) = or_key (resolve_spec (t_idx t) r) /\
  (raw_ok (t_idx t) r -> forall cr,
   snd (step t (OGetCell cr r)) =
   match resolve_spec (t_idx t) r with Some i => cell_at t cr i | None => RErr KeyError end).
Proof. exact derived_fresh. Qed.
Print Assumptions C07_derived_fresh.

Theorem C07_derived_coherent : forall ops t, coherent t -> dops_raw_ok t ops -> coherent (dfinal t ops).
Proof. exact dfinal_coherent. Qed.
Print Assumptions C07_derived_coherent.

(* look up on the source, derive t + t, look up on the result: the last
   occurrence is in the appended half *)
Example C07_derived_nonvacuous :
  let t0 := mkTable [1; 2; 1]%N [(9%N, [10; 20; 30])] None in
  drun t0 [DOp (OGetIndex (RStr 1%N 1%N (Some (-1)) 0)); DAddSelf; DOp (OGetIndex (RStr 1%N 1%N (Some (-1)) 0));
           DOp (OGetIndex (RTup2 2%N 1)); DMul 2; DOp (OGetCell (CCol 9%N) (RTup2 1%N 7)); DOp OUnique;
           DT [50; 51]%N; DOp (OGetIndex (RStr 51%N 51%N None 0))]
  = [RPos 2; RUnit; RPos 5; RPos 4; RUnit; RValZ 30; 
     RLabels [(1%N, Some 0); (2%N, Some 0); (1%N, Some 1); (1%N, Some 2); (2%N, Some 1); (1%N, Some 3);
              (1%N, Some 4); (2%N, Some 2); (1%N, Some 5); (1%N, Some 6); (2%N, Some 3); (1%N, Some 7)];
     RUnit; RPos 1].
Proof. vm_compute. reflexivity. Qed.
Print Assumptions C07_derived_nonvacuous.

(* Several tables alive in one process, each with its own separators
   (sep_count / sep_previous / sep_next; [split seps text] is the table's own
   split of a textual selector): in any interleaving of operations on them, the
   results of the operations addressed to table k are those of table k run
   alone - nothing another table did with the same selector text matters. *)
Theorem C07_tables_independent : forall (split : N -> N -> N * option Z * Z) steps tabs k s,
  forallb (fun st => negb (is_cross (snd st))) steps = true ->     (* no t[index] = u[index] steps; those copy VALUES, see model/TableMulti.v *)
  nth_error tabs k = Some s ->
  results_of k steps (mrun_tabs split tabs steps) = srun split s (ops_of k steps).
Proof. exact tables_independent. Qed.
Print Assumptions C07_tables_independent.

(* the same text 'x::1' (token 40) on a table with the default separators
   (seps 0: splits into x, 1) and on a table with sep_count='#' (seps 1: a plain,
   absent name), the latter asked first *)
Example C07_multi_nonvacuous :
  let split := fun seps raw : N => if (N.eqb seps 0 && N.eqb raw 40)%bool then (5%N, Some 1, 0) else (raw, None, 0) in
  let A := mkStab 0%N (mkTable [5; 6; 5]%N [] None) in
  let B := mkStab 1%N (mkTable [5; 40; 5]%N [] None) in
  mrun_tabs split [A; B] [(1%nat, MGetIndex 40%N); (0%nat, MGetIndex 40%N); (1%nat, MGetIndex 5%N); (0%nat, MSetSeps 1%N true);
                          (0%nat, MGetIndex 40%N)]
  = [RPos 1; RPos 2; RPos 0; RUnit; RErr KeyError].
Proof. vm_compute. reflexivity. Qed.
Print Assumptions C07_multi_nonvacuous.

(* t2[index] = t1[index] copies the values: a later rename through t1 does not
   reach t2, whose lookups keep resolving against its own column *)
Example C07_cross_nonvacuous :
  let split := fun seps raw : N => (raw, @None Z, 0) in
  let T1 := mkStab 0%N (mkTable [5; 6; 5]%N [] None) in
  let T2 := mkStab 0%N (mkTable [7; 7; 7]%N [] None) in
  mrun_tabs split [T1; T2] [(1%nat, MSetIdxFrom 0%nat); (1%nat, MOp (OGetIndex (RTup2 5%N 1)));
                            (0%nat, MOp (OSetCellN (RInt 2) 9%N)); (1%nat, MOp (OGetIndex (RTup2 5%N 1)));
                            (0%nat, MOp (OGetIndex (RTup2 5%N 1)))]
  = [RUnit; RPos 2; RUnit; RPos 2; RErr KeyError].
Proof. vm_compute. reflexivity. Qed.
Print Assumptions C07_cross_nonvacuous.

(* re-pointing the index: look up, t._index = 'alt' (column 8 holds the names
   2,2,3 as integers), look up on the new index column, point back, look up *)
Example C07_repoint_nonvacuous :
  let t0 := mkTable [1; 2; 1]%N [(8%N, [2; 2; 3])] None in
  drun t0 [DOp (OGetIndex (RStr 1%N 1%N (Some 1) 0)); DRepoint 8%N 7%N; DOp (OGetIndex (RTup2 2%N 1));
           DOp (OGetIndex (RStr 3%N 3%N None 0)); DOp (OGetIndex (RStr 1%N 1%N None 0));
           DRepoint 7%N 8%N; DOp (OGetIndex (RTup2 1%N (-1)))]
  = [RPos 2; RUnit; RPos 1; RPos 2; RErr KeyError; RUnit; RPos 2].
Proof. vm_compute. reflexivity. Qed.
Print Assumptions C07_repoint_nonvacuous.

(* non-vacuity: a table with repeated names, a history that renames a row by
   cell assignment and replaces the column, meets the hypotheses *)
Example C07_nonvacuous :
  let t0 := mkTable [1; 2; 1; 3]%N [(9%N, [10; 20; 30; 40])] None in
  let ops := [OGetCell (CCol 9%N) (RStr 1%N 1%N None 0); OSetCellN (RInt 2) 7%N;
              OGetIndex (RStr 70%N 7%N (Some (-1)) 1); OSetIdxCol [3; 3; 7; 7]%N] in
  t_cache t0 = None /\ ops_raw_ok t0 ops /\
  run t0 (ops ++ [OGetIndex (RTup2 7%N (-1)); OGetCell (CCol 9%N) (RStr 70%N 7%N (Some 1) (-2))])
  = [RValZ 10; RUnit; RPos 3; RUnit; RPos 3; RValZ 20].
Proof. cbn. repeat split; auto; try (right; intros [H|[H|[H|[H|[]]]]]; discriminate). Qed.
Print Assumptions C07_nonvacuous.
