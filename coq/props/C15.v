(* C15 — the optimizer log is truthful: reload reproduces a row, steps never end worse.
   Model: model/Opt.v; every theorem holds for every environment E (carrier,
   element-wise operations, oracles) and every configuration. *)
From Coq Require Import List Bool NArith ZArith QArith Qcanon.
From XD Require Import model.Opt proofs.OptBase proofs.OptInner proofs.OptOuter proofs.OptThm proofs.OptClipQc.
Import ListNotations.

(* [truthful E cf r]: there is a knob vector kk, equal to r's knobs up to the
   weight round trip (k/w)*w on some coordinates (rt_rel), at which the user's
   function returns exactly r's targets, r's tol_met flags are those of that
   result and r's penalty is the norm oracle applied to the weighted residual
   masked with r's own target mask.
   [reach E cf s0 s]: s is obtained from s0 by any sequence of step / solve /
   reload / tag / enable / disable / clear_log, failing ones included. *)

(* Targets may carry a duck-typed `transform` hook (abs, square, scaling, one-sided clipping): it
   enters the residual - hence tol_met and the penalty - but never the logged value: [truthful]
   says r_targets = the RAW result of the user's function, r_tolmet / r_pen are computed from the
   transformed residual. *)
(* Every row ever appended is truthful, over all operation sequences, failing
   operations included (an exception while add_point_to_log evaluates the point
   leaves the log untouched: the knobs are recorded after the evaluation). *)
Theorem C15_rows_truthful : forall (E : env) (cf : cfg (eF E)) k0 va0 s0 s,
  init E cf k0 va0 = Ok s0 -> reach E cf s0 s -> Forall (truthful E cf) (log s).
Proof. exact rows_truthful. Qed.
Print Assumptions C15_rows_truthful.

(* for unit weights (x/1*1 = x, true of IEEE doubles): the user's function at
   the row's knobs IS the row's targets, and the penalty is that of the row *)
Theorem C15_rows_truthful_unit : forall (E : env) (cf : cfg (eF E)) k0 va0 s0 s,
  (forall x, e_mul E (e_div E x (e_one E)) (e_one E) = x) -> Forall (fun w => w = e_one E) (c_w cf) ->
  init E cf k0 va0 = Ok s0 -> reach E cf s0 s ->
  forall r, In r (log s) ->
    exists res, e_f E (r_knobs r) = Some res /\ r_targets r = res /\ r_tolmet r = within E cf res /\
                r_pen r = e_pen E (merit_out E cf (r_ta r) res).
Proof. exact rows_truthful_unit. Qed.
Print Assumptions C15_rows_truthful_unit.

(* Foreign calls.  [reach] also contains steps in which everything but the rows
   already logged changes arbitrarily (reach_havoc): any other public entry point
   of Optimize (run_simplex, run_nelder_mead, run_ls_trf, run_bfgs, run_direct,
   status tables, views of the merit function, direct assignments by the user);
   C15_rows_truthful therefore says that no such call can make a later row
   untruthful.  The reason is the frame property below: the row add_point_to_log
   writes is a function of the container values and the active flags only - no
   other field of the state (a flag left behind by an earlier call, solver x,
   last-evaluation fields, counters, earlier rows) influences it. *)
Theorem C15_foreign_calls_frame : forall (E : env) (cf : cfg (eF E)) tg s1 s2,
  knobs s1 = knobs s2 -> va s1 = va s2 -> ta s1 = ta s2 ->
  match add_point E cf tg s1, add_point E cf tg s2 with
  | Ok a, Ok b => exists r, log a = log s1 ++ [r] /\ log b = log s2 ++ [r] /\ knobs a = knobs b
  | Err e1 a, Err e2 b => e1 = e2 /\ knobs a = knobs b /\ log a = log s1 /\ log b = log s2
  | Div, Div => True
  | _, _ => False
  end.
Proof. exact add_point_frame. Qed.
Print Assumptions C15_foreign_calls_frame.

(* reload(i) returning normally: the active flags are the row's, every knob is
   the row's value or its round trip (exactly: the values the merit function
   writes for x = k/w), and the row it appends has the row's knobs and masks and
   is itself truthful *)
Theorem C15_reload : forall (E : env) (cf : cfg (eF E)) i s s',
  reload E cf i s = Ok s' ->
  exists r r', nth_error (log s) i = Some r /\ va s' = r_va r /\ ta s' = r_ta r /\
    rt_rel E (c_w cf) (r_knobs r) (knobs s') /\ knobs s' = rt_write E cf (r_va r) (r_knobs r) /\
    log s' = log s ++ [r'] /\ r_knobs r' = r_knobs r /\ r_va r' = r_va r /\ r_ta r' = r_ta r /\ truthful E cf r'.
Proof. exact reload_row. Qed.
Print Assumptions C15_reload.

(* unit weights: the knobs are put back bit for bit and the appended row has
   the same targets, tol_met and penalty as row i *)
Theorem C15_reload_unit : forall (E : env) (cf : cfg (eF E)) i s s',
  (forall x, e_mul E (e_div E x (e_one E)) (e_one E) = x) -> Forall (fun w => w = e_one E) (c_w cf) ->
  Forall (truthful E cf) (log s) -> reload E cf i s = Ok s' ->
  exists r r', nth_error (log s) i = Some r /\ va s' = r_va r /\ ta s' = r_ta r /\ knobs s' = r_knobs r /\
    log s' = log s ++ [r'] /\ r_knobs r' = r_knobs r /\ r_va r' = r_va r /\ r_ta r' = r_ta r /\
    r_targets r' = r_targets r /\ r_pen r' = r_pen r /\ r_tolmet r' = r_tolmet r.
Proof. exact reload_row_unit. Qed.
Print Assumptions C15_reload_unit.

(* step(take_best=True) returning normally: the log grew by the starting point
   r0 (whose knobs are those found in the containers), the rows M of the
   Jacobian steps and possibly one reload row; the call ends either within all
   tolerances (of the targets active during the call) or on the knobs of a row
   rb logged during the call such that no row of the call -- in particular the
   starting point -- has a penalty strictly below rb's (numpy's argmin: the first
   NaN if there is one, else the first minimum).  The three order laws are true of
   IEEE doubles, NaN included.  [pre_clip E cf s] is s itself with check_limits=True. *)
Theorem C15_take_best : forall (E : env) (cf : cfg (eF E)),
  (forall a b c, e_ltb E a b = true -> e_ltb E b c = true -> e_ltb E a c = true) ->
  (forall a, e_ltb E a a = false) ->
  (forall a b, e_leb E b b = false -> e_ltb E a b = false) ->
  forall fuel n a b s s',
  opt_step E cf fuel n true a b s = Ok s' ->
  exists r0 M extra, log s' = log s ++ (r0 :: M) ++ extra /\ r_knobs r0 = knobs (pre_clip E cf s) /\
    ((exists res, e_f E (knobs s') = Some res /\ within_tol E cf (ta (pre_flags E cf a (pre_clip E cf s))) res) \/
     exists rb, In rb (r0 :: M) /\ (forall r, In r (r0 :: M) -> e_ltb E (r_pen r) (r_pen rb) = false) /\
                rt_rel E (c_w cf) (r_knobs rb) (knobs s')).
Proof. exact take_best. Qed.
Print Assumptions C15_take_best.

(* ---- non-vacuity ------------------------------------------------------------------------- *)
Definition xenv : env :=
  mkEnv Qc 0%Qc 1%Qc (Q2Qc (1 # 2)) Qcplus Qcminus Qcmult Qcdiv qabs qltb (fun a b => negb (qltb b a))
        0%Qc (Q2Qc 10) (Q2Qc 100) 0%Qc (Q2Qc (-1000)) (Q2Qc 1000)
        (fun k => Some (k ++ k)) (fun y => fold_right (fun a acc => (a * a + acc)%Qc) 0%Qc y)
        (fun m y => Some (map (fun _ => 1%Qc) m)) (fun j _ _ _ _ => j) (fun x => x) N.eqb.
Definition xcfg : cfg Qc :=
  mkCfg [1%Qc] [Some (Some (Q2Qc (-3)), Some (Q2Qc 3))] [1%Qc] [None] [0%N] [0%N]
        [Q2Qc 2; Q2Qc 2] [Q2Qc (1 # 10); Q2Qc (1 # 10)] [1%Qc; 1%Qc] [0%N; 0%N] 3 true true true [] [].

(* a constructed optimizer, a step with take_best, a reload and a failing solve:
   a reachable state with 10 rows *)
Example C15_reach_satisfiable :
  match init xenv xcfg [0%Qc] [true] with
  | Ok s0 =>
      match opt_step xenv xcfg 50%nat 2%nat true no_args BroOff s0 with
      | Ok s1 => match reload xenv xcfg 1%nat s1 with
                 | Ok s2 => match solve xenv xcfg 50%nat (Some 1%nat) true BroOff s2 with
                            | Err ERuntime s3 => length (log s3) = 10%nat
                            | _ => False
                            end
                 | _ => False
                 end
      | _ => False
      end
  | _ => False
  end.
Proof. vm_compute. reflexivity. Qed.
Print Assumptions C15_reach_satisfiable.

Example C15_order_laws_satisfiable :
  (forall a b c, e_ltb xenv a b = true -> e_ltb xenv b c = true -> e_ltb xenv a c = true) /\
  (forall a, e_ltb xenv a a = false) /\
  (forall a b, e_leb xenv b b = false -> e_ltb xenv a b = false) /\
  (forall x, e_mul xenv (e_div xenv x (e_one xenv)) (e_one xenv) = x).
Proof.
  cbn. split; [|split; [|split]].
  - intros a b c H1 H2. apply qltb_true in H1. apply qltb_true in H2. apply qltb_true. eapply Qclt_trans; eauto.
  - intros a. apply qltb_false. apply Qcle_refl.
  - intros a b H. exfalso. assert (Hq : qltb b b = false) by (apply qltb_false; apply Qcle_refl).
    rewrite Hq in H. discriminate.
  - intros x. field. discriminate.
Qed.
Print Assumptions C15_order_laws_satisfiable.
