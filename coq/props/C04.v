(* C04 -- deferred expressions evaluate to what Python computes on the operand
   values.  Only statements, each closed by a lemma of proofs/RefsValue.v,
   followed by Print Assumptions. *)
From Coq Require Import List ZArith NArith Bool.
From XD Require Import model.RefSyntax model.RefTables model.Refs model.RefsOk model.RefsZ model.RefsMgr gen.GenRefs
  proofs.RefsBase proofs.RefsValue proofs.RefsZLaws proofs.RefsMgrProofs.
Import ListNotations.

(* TABLE OBLIGATION, re-checked against the tables regenerated from the current
   xdeps/refs.py: every binary operator has a forward dunder building K(self,
   other) and (except the ordering comparisons, which Python never reflects) a
   reflected one building the same K(other, self); K._get_value applies that
   operator to (lhs, rhs), with the ZeroDivisionError->NaN guard exactly for
   / // %; unary dunders and abs/round/divmod/trunc/floor/ceil pass the right
   function and parameters (round(x): none, round(x, n): n); each of Python's
   13 in-place operators has a dunder applying that operator, target first, to
   the old expression and to the old value; x[k], x.a, x(...) build
   ItemRef/AttrRef/CallRef.  Finite; the bound is the enumeration in
   [tables_ok]. *)
Theorem C04_tables_ok : tables_ok gen_tables = true.
Proof. vm_compute. reflexivity. Qed.
Print Assumptions C04_tables_ok.

(* HOMOMORPHISM, for every table that passes the check, every Python
   semantics (value type, operators, builtins, calls, item/attribute access:
   ints, floats, complex, numpy scalars and arrays alike), every expression of
   arbitrary depth written with operators / builtins / calls / item and
   attribute access over references and literals, every container state:
   what the overloads build is well formed and its _get_value is the direct
   Python evaluation [pyeval] of the same expression, the only deviation being
   NaN for / // % by zero.  [py_mirror] is Python's own law  a < b == b > a
   (needed only for a literal on the LEFT of an ordering comparison, where
   Python itself calls the reference's mirrored method). *)
Theorem C04_homomorphism :
  forall (V E : Type) (of_lit : lit -> V) (pyop : binop -> V -> V -> res V E)
         (pyun : unop -> V -> res V E) (pybuiltin : bfun -> list V -> res V E)
         (pycall : V -> list V -> list (pystr * V) -> res V E) (getitem getattr : V -> V -> res V E)
         (nan : V) (is_zde : E -> bool) (broken : E) (T : tables),
    tables_ok T = true ->
    (forall op a b, is_cmp op = true -> pyop op a b = pyop (mirror op) b a) ->
    forall (p : pexp) (en : env V) (t : term),
      build T p = Some t ->
      wf T t = true /\
      value V E of_lit pyop pyun pybuiltin pycall getitem getattr nan is_zde broken T t en =
      pyeval V E of_lit pyop pyun pybuiltin pycall getitem getattr nan is_zde p en.
Proof. exact build_hom. Qed.
Print Assumptions C04_homomorphism.

(* the same for the current source *)
Theorem C04_homomorphism_current :
  forall (V E : Type) (of_lit : lit -> V) (pyop : binop -> V -> V -> res V E)
         (pyun : unop -> V -> res V E) (pybuiltin : bfun -> list V -> res V E)
         (pycall : V -> list V -> list (pystr * V) -> res V E) (getitem getattr : V -> V -> res V E)
         (nan : V) (is_zde : E -> bool) (broken : E),
    (forall op a b, is_cmp op = true -> pyop op a b = pyop (mirror op) b a) ->
    forall (p : pexp) (en : env V) (t : term),
      build gen_tables p = Some t ->
      value V E of_lit pyop pyun pybuiltin pycall getitem getattr nan is_zde broken gen_tables t en =
      pyeval V E of_lit pyop pyun pybuiltin pycall getitem getattr nan is_zde p en.
Proof.
  intros V E of_lit pyop pyun pybuiltin pycall getitem getattr nan is_zde broken Hm p en t Hb.
  exact (proj2 (build_hom V E of_lit pyop pyun pybuiltin pycall getitem getattr nan is_zde broken
                  gen_tables C04_tables_ok Hm p en t Hb)).
Qed.
Print Assumptions C04_homomorphism_current.

(* IN-PLACE: target op= other, for each of Python's 13 in-place operators.
   With an expression attached to the target the result is that expression
   combined with the operand (deferred: NaN guard applies); with a plain value
   it is Python's operator on (old value, operand) -- a plain value when the
   operand is plain, a new expression when the operand is a reference. *)
Theorem C04_inplace :
  forall (V E : Type) (of_lit : lit -> V) (pyop : binop -> V -> V -> res V E)
         (pyun : unop -> V -> res V E) (pybuiltin : bfun -> list V -> res V E)
         (pycall : V -> list V -> list (pystr * V) -> res V E) (getitem getattr : V -> V -> res V E)
         (nan : V) (is_zde : E -> bool) (broken : E) (T : tables),
    tables_ok T = true ->
    forall (op : binop) (target : term) (cur : option term) (old : lit) (other : term) (en : env V),
      In op inplace_ops ->
      (forall ex, cur = Some ex -> is_ref ex = true) ->
      exists r, inplace V E of_lit pyop T op target cur old other = Some r /\
                assigned V E of_lit pyop pyun pybuiltin pycall getitem getattr nan is_zde broken T r en =
                inplace_spec V E of_lit pyop pyun pybuiltin pycall getitem getattr nan is_zde broken T
                             op cur old other en.
Proof. exact inplace_correct. Qed.
Print Assumptions C04_inplace.

(* ---- the hypotheses are satisfiable ------------------------------------------------- *)
(* Python's integers (the executable instance) satisfy the mirror law *)
Example C04_mirror_nonvacuous :
  forall op a b, is_cmp op = true -> z_pyop op a b = z_pyop (mirror op) b a.
Proof. exact z_mirror. Qed.
Print Assumptions C04_mirror_nonvacuous.

(* a nested expression with literals on both sides, a reflected comparison, a
   zero divisor, a builtin with a parameter, a call with a keyword argument and
   a computed key:   (7 - c['a']) // (c['b'] % 0)  is NaN;
   round(c['l'][c['i']], 2) < 5 ... all build, and model = direct evaluation *)
Example C04_nonvacuous :
  let c := PTop [99%N] false in
  let a := PItem c (PVal (LStr [97%N])) in
  let b := PItem c (PVal (LStr [98%N])) in
  let e1 := PBin OFloordiv (PBin OSub (PVal (LInt 7)) a) (PBin OMod b (PVal (LInt 0))) in
  let e2 := PBin OLt (PVal (LInt 5)) (PBuiltin FRound (PItem (PItem c (PVal (LStr [108%N]))) a) [PVal (LInt 2)]) in
  let e3 := PCall (PItem c (PVal (LStr [102%N]))) [a; PUn UNeg b] [([121%N], PBin OPow (PVal (LInt 2)) a)] in
  let en := zenv_of [([99%N], ZDict [(ZStr [97%N], ZInt 1); (ZStr [98%N], ZInt 4);
                                     (ZStr [108%N], ZList [ZInt 10; ZInt 20]); (ZStr [102%N], ZFun 0%N)])] in
  (exists t, build gen_tables e1 = Some t /\ zvalue gen_tables t en = Ok ZNan /\ zpyeval e1 en = Ok ZNan) /\
  (exists t, build gen_tables e2 = Some t /\ zvalue gen_tables t en = Ok (ZBool true) /\ zpyeval e2 en = Ok (ZBool true)) /\
  (exists t, build gen_tables e3 = Some t /\ zvalue gen_tables t en = Ok (ZInt 235) /\ zpyeval e3 en = Ok (ZInt 235)).
Proof. cbv zeta. repeat split; eexists; (split; [vm_compute; reflexivity|]); split; vm_compute; reflexivity. Qed.
Print Assumptions C04_nonvacuous.

(* c['a'] **= 3 with the expression (c['b'] + 1) attached: the new expression is
   ((c['b'] + 1) ** 3); c['a'] //= c['z'] on a plain value 7 with c['z'] = 0: NaN *)
Example C04_inplace_nonvacuous :
  let c := TTop [99%N] false in
  let it k := TItem c (TConst (LStr [k])) in
  let en := zenv_of [([99%N], ZDict [(ZStr [97%N], ZInt 7); (ZStr [98%N], ZInt 1); (ZStr [122%N], ZInt 0)])] in
  (exists r, zinplace gen_tables OPow (it 97%N) (Some (TBin 10%N (it 98%N) (TConst (LInt 1)))) (LInt 7) (TConst (LInt 3)) = Some r /\
             assigned zv zerr z_of_lit z_pyop z_pyun z_pybuiltin z_pycall z_getitem z_getattr ZNan z_is_zde EBroken gen_tables r en = Ok (ZInt 8)) /\
  (exists r, zinplace gen_tables OFloordiv (it 97%N) None (LInt 7) (it 122%N) = Some r /\
             assigned zv zerr z_of_lit z_pyop z_pyun z_pybuiltin z_pycall z_getitem z_getattr ZNan z_is_zde EBroken gen_tables r en = Ok ZNan).
Proof. cbv zeta. split; eexists; (split; [vm_compute; reflexivity|]); vm_compute; reflexivity. Qed.
Print Assumptions C04_inplace_nonvacuous.

(* ---- in-place operators inside a manager ----------------------------------------------
   [expr_of m r] models r._expr for a manager whose definitions are m (pairs
   (target, expression) in registration order); [inplace_at] models  r op= other.
   _expr is the expression registered under EXACTLY that reference: *)
Theorem C04_expr_own_definition :
  forall (m : tasklist) (r : term),
    (forall e, expr_of m r = Some e -> In (r, e) m) /\
    ((forall e, ~ In (r, e) m) -> expr_of m r = None) /\
    (forall e, In (r, e) m -> exists e', expr_of m r = Some e').
Proof. intros m r. split; [|split]; [apply expr_of_own|apply expr_of_none|apply expr_of_defined]. Qed.
Print Assumptions C04_expr_own_definition.

(* Definitions registered under other references -- members of the location,
   its owners, siblings, any relative -- never enter the result of an in-place
   operator on the location, wherever they stand in the manager: *)
Theorem C04_inplace_own_definition_only :
  forall (V E : Type) (of_lit : lit -> V) (pyop : binop -> V -> V -> res V E) (T : tables)
         (op : binop) (m relatives : tasklist) (target : term) (oldv : V) (oldl : option lit) (other : term),
    (forall p, In p relatives -> fst p <> target) ->
    expr_of (relatives ++ m) target = expr_of m target /\
    expr_of (m ++ relatives) target = expr_of m target /\
    inplace_at V E of_lit pyop T op (relatives ++ m) target oldv oldl other =
    inplace_at V E of_lit pyop T op m target oldv oldl other /\
    inplace_at V E of_lit pyop T op (m ++ relatives) target oldv oldl other =
    inplace_at V E of_lit pyop T op m target oldv oldl other.
Proof.
  intros V E of_lit pyop T op m relatives target oldv oldl other H.
  destruct (expr_of_relatives m relatives target H) as [H1 H2].
  destruct (inplace_at_relatives V E of_lit pyop T op m relatives target oldv oldl other H) as [H3 H4].
  auto.
Qed.
Print Assumptions C04_inplace_own_definition_only.

(* and the result is: own expression (op) operand when the location has a
   definition (deferred, NaN rule), Python's operator on its current VALUE --
   a scalar, a list, an array, a string -- and the plain operand otherwise *)
Theorem C04_inplace_at :
  forall (V E : Type) (of_lit : lit -> V) (pyop : binop -> V -> V -> res V E)
         (pyun : unop -> V -> res V E) (pybuiltin : bfun -> list V -> res V E)
         (pycall : V -> list V -> list (pystr * V) -> res V E) (getitem getattr : V -> V -> res V E)
         (nan : V) (is_zde : E -> bool) (broken : E) (T : tables),
    tables_ok T = true ->
    forall (op : binop) (m : tasklist) (target : term) (oldv : V) (oldl : option lit),
      In op inplace_ops ->
      (forall ex other en, expr_of m target = Some ex -> is_ref ex = true ->
         exists r, inplace_at V E of_lit pyop T op m target oldv oldl other = Some r /\
                   assigned V E of_lit pyop pyun pybuiltin pycall getitem getattr nan is_zde broken T r en =
                   rbind (value V E of_lit pyop pyun pybuiltin pycall getitem getattr nan is_zde broken T ex en) (fun ve =>
                   rbind (value V E of_lit pyop pyun pybuiltin pycall getitem getattr nan is_zde broken T other en) (fun vo =>
                   nan_guard V E nan is_zde op (pyop op ve vo)))) /\
      (forall k, expr_of m target = None ->
         inplace_at V E of_lit pyop T op m target oldv oldl (TConst k) = Some (IVal (pyop op oldv (of_lit k)))).
Proof.
  intros V E of_lit pyop pyun pybuiltin pycall getitem getattr nan is_zde broken T HT op m target oldv oldl Hin. split.
  - intros ex other en He Hr.
    exact (inplace_at_defined V E of_lit pyop pyun pybuiltin pycall getitem getattr nan is_zde broken T HT
             op m target ex oldv oldl other en Hin He Hr).
  - intros k He. exact (inplace_at_plain V E of_lit pyop T HT op m target oldv oldl k Hin He).
Qed.
Print Assumptions C04_inplace_at.

(* non-vacuity: c['arr'][0] = c['k'] * 2 is the only definition; c['arr'] has none
   of its own, so  c['arr'] += 1  is  <old value> + 1  (a plain value, not an
   expression) while  c['arr'][0] += 1  is the expression ((c['k'] * 2) + 1) *)
Example C04_inplace_at_nonvacuous :
  let c := TTop [99%N] false in
  let arr := TItem c (TConst (LStr [97%N; 114%N; 114%N])) in
  let arr0 := TItem arr (TConst (LInt 0)) in
  let k2 := TBin 12%N (TItem c (TConst (LStr [107%N]))) (TConst (LInt 2)) in
  let m : tasklist := [(arr0, k2)] in
  expr_of m arr = None /\ expr_of m arr0 = Some k2 /\
  inplace_at zv zerr z_of_lit z_pyop gen_tables OAdd m arr (ZInt 10) (Some (LInt 10)) (TConst (LInt 1)) = Some (IVal (Ok (ZInt 11))) /\
  inplace_at zv zerr z_of_lit z_pyop gen_tables OAdd m arr0 (ZInt 10) (Some (LInt 10)) (TConst (LInt 1))
  = Some (IExpr (TBin 10%N k2 (TConst (LInt 1)))).
Proof. cbv zeta. repeat split; vm_compute; reflexivity. Qed.
Print Assumptions C04_inplace_at_nonvacuous.

(* ---- attribute access on values and on expression results ------------------------------------
   x.name is a deferred expression for EVERY reference or expression x and every
   attribute name that is not a protocol name __x__ (the table obligation
   requires special_methods, the names __getattr__ refuses, to be of that form):
   dtype, shape, real, T, a method name ... ; its value is Python's getattr on
   the value of x (item access on an ObjectAttrRef container) by C04_homomorphism,
   where getattr is one of the Python-semantics parameters. *)
Theorem C04_attribute_total :
  forall (T : tables), tables_ok T = true ->
  forall (o : pexp) (o' : term) (n : pystr),
    build T o = Some o' -> wf T o' = true -> is_ref o' = true -> is_dunder n = false ->
    build T (PAttr o n) =
    Some (match o' with TTop _ true => TItem o' (TConst (LStr n)) | _ => TAttr o' (TConst (LStr n)) end).
Proof. exact attr_total. Qed.
Print Assumptions C04_attribute_total.

(* non-vacuity: (c['a'] * c['b']).dtype and c['f'](dtype=c['a'].dtype) build; c['a'].__array__ does not *)
Example C04_attribute_nonvacuous :
  let c := PTop [99%N] false in
  let it k := PItem c (PVal (LStr [k])) in
  let dtype := [100%N; 116%N; 121%N; 112%N; 101%N] in
  is_dunder dtype = false /\
  (exists t, build gen_tables (PAttr (PBin OMul (it 97%N) (it 98%N)) dtype) = Some t) /\
  (exists t, build gen_tables (PCall (it 102%N) [] [(dtype, PAttr (it 97%N) dtype)]) = Some t) /\
  build gen_tables (PAttr (it 97%N) [95%N; 95%N; 97%N; 114%N; 114%N; 97%N; 121%N; 95%N; 95%N]) = None.
Proof. cbv zeta. split; [reflexivity|]. split; [eexists; vm_compute; reflexivity|]. split; [eexists; vm_compute; reflexivity|]. vm_compute. reflexivity. Qed.
Print Assumptions C04_attribute_nonvacuous.
