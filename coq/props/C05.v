(* C05 -- reported dependencies contain every location an expression reads.
   Only statements, closed by lemmas of proofs/RefsDeps.v, RefsSound.v. *)
From Coq Require Import List ZArith NArith Bool.
From XD Require Import model.RefSyntax model.RefTables model.Refs model.RefsOk model.RefsZ gen.GenRefs
  proofs.RefsBase proofs.RefsValue proofs.RefsDeps proofs.RefsSound.
Import ListNotations.

(* TABLE OBLIGATION against the current source: for every node class the
   (MRO-resolved) _get_dependencies descends into every slot that can hold a
   reference (operands, call arguments, keyword arguments, the callee, builtin
   parameters, owner, computed key) under an isinstance guard (or on a slot that
   always holds a reference), adds self exactly for item/attribute references,
   and returns a set on every path. *)
Theorem C05_fields_ok : fields_ok gen_tables = true.
Proof. vm_compute. reflexivity. Qed.
Print Assumptions C05_fields_ok.

(* EXACTNESS, for every table that passes, every well-formed expression of
   arbitrary depth and every node class and slot: _get_dependencies() returns a
   set -- never None, never an exception -- whose members are exactly the
   item/attribute locations occurring anywhere in the expression. *)
Theorem C05_exact :
  forall T, fields_ok T = true ->
  forall t, is_ref t = true -> wf T t = true ->
  exists s, deps T t = Some (Some s) /\ forall l, In l s <-> In l (occ t).
Proof. exact deps_exact. Qed.
Print Assumptions C05_exact.

(* every expression the overloads can build is covered (current source) *)
Theorem C05_exact_built :
  forall p t, build gen_tables p = Some t -> is_ref t = true ->
  exists s, deps gen_tables t = Some (Some s) /\ forall l, In l s <-> In l (occ t).
Proof.
  intros p t Hb Hr. apply (deps_exact gen_tables C05_fields_ok t Hr).
  exact (proj1 (build_hom unit unit (fun _ => tt) (fun _ _ _ => Ok tt) (fun _ _ => Ok tt) (fun _ _ => Ok tt)
                  (fun _ _ _ => Ok tt) (fun _ _ => Ok tt) (fun _ _ => Ok tt) tt (fun _ => false) tt
                  gen_tables (eq_refl : tables_ok gen_tables = true) (fun _ _ _ _ => eq_refl) p (fun _ => tt) t Hb)).
Qed.
Print Assumptions C05_exact_built.

(* SOUNDNESS (non-interference), for every Python semantics: if two container
   states give the same value to every reported location (and to every
   container used bare as an operand -- containers are by design not
   dependencies), the expression has the same value in both.  Stated for all
   keys: a computed-key location c[k] is itself a reported location, as is
   every location inside k. *)
Theorem C05_sound :
  forall (V E : Type) (of_lit : lit -> V) (pyop : binop -> V -> V -> res V E)
         (pyun : unop -> V -> res V E) (pybuiltin : bfun -> list V -> res V E)
         (pycall : V -> list V -> list (pystr * V) -> res V E) (getitem getattr : V -> V -> res V E)
         (nan : V) (is_zde : E -> bool) (broken : E) (T : tables) (t : term) (en en' : env V),
    (forall l, In l (occ t) ->
       value V E of_lit pyop pyun pybuiltin pycall getitem getattr nan is_zde broken T l en =
       value V E of_lit pyop pyun pybuiltin pycall getitem getattr nan is_zde broken T l en') ->
    (forall c, In c (bare_tops t) -> en c = en' c) ->
    value V E of_lit pyop pyun pybuiltin pycall getitem getattr nan is_zde broken T t en =
    value V E of_lit pyop pyun pybuiltin pycall getitem getattr nan is_zde broken T t en'.
Proof.
  intros V E of_lit pyop pyun pybuiltin pycall getitem getattr nan is_zde broken T t en en' H1 H2.
  apply value_noninterference. split; assumption.
Qed.
Print Assumptions C05_sound.

(* non-vacuity: round(c['a'], c['b']) + f(c.o.x, k=c['l'][c['i']]) is well
   formed; its dependencies are the eight locations it mentions *)
Example C05_nonvacuous :
  let c := TTop [99%N] false in
  let it k := TItem c (TConst (LStr [k])) in
  let t := TBin 10%N (TBuiltin 1%N (it 97%N) [it 98%N])
                (TCall (it 102%N) [TAttr (TAttr c (TConst (LStr [111%N]))) (TConst (LStr [120%N]))]
                       [([107%N], TItem (it 108%N) (it 105%N))]) in
  wf gen_tables t = true /\
  exists s, deps gen_tables t = Some (Some s) /\ length s = 8%nat /\ length (occ t) = 8%nat.
Proof. cbv zeta. split; [vm_compute; reflexivity|]. eexists. split; [vm_compute; reflexivity|]. split; reflexivity. Qed.
Print Assumptions C05_nonvacuous.

(* an expression over a bare top-level container: the empty set, not None *)
Example C05_container_nonvacuous :
  deps gen_tables (TUn 29%N (TTop [99%N] false)) = Some (Some []) /\
  deps gen_tables (TTop [99%N] true) = Some (Some []).
Proof. split; vm_compute; reflexivity. Qed.
Print Assumptions C05_container_nonvacuous.
