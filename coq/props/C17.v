(* C17 — a frozen manager's expression graph cannot change, yet values still
   propagate.  Statements only; proofs in proofs/ManagerDataInv.v. *)
From Coq Require Import List Bool Arith ZArith NArith.
From XD Require Import lib.ListAux lib.Toposort model.Manager model.ManagerData
  proofs.ManagerIdx proofs.ManagerInv proofs.ManagerDataInv proofs.ManagerFrozen.
From XD Require Import model.TasksSem gen.GenTasks proofs.TasksSrc.
From XD Require Import model.TasksSemData gen.GenTasksData proofs.TasksSrcData.
Import ListNotations.
Local Open Scope nat_scope.

(* every call that would add, replace or remove an expression or task
   (assign an expression; assign a value or apply an in-place operator to a
   location that has a definition; register; unregister; load of a new or
   overwritten target; refresh) raises the frozen-tree error and the whole
   state — definitions, indices, data — is unchanged *)
Theorem C17_frozen_rejects : forall (m : dmgr) s o,
  m_frozen m = true -> changes_graph m o ->
  step m s o = (m, s, mkOut (Some EFrozen) []).
Proof. exact frozen_rejects. Qed.

(* assigning a plain value to a location without a definition behaves exactly as
   on the unfrozen manager (same triggered tasks, same writes, same result) *)
Theorem C17_values_propagate : forall (m : dmgr) s r x sd so b,
  is_task r m = false ->
  set_value (set_frozen b m) s r (SPlain x) sd so =
  let '(m', s', out) := set_value m s r (SPlain x) sd so in (set_frozen b m', s', out).
Proof. exact frozen_values_propagate. Qed.

Theorem C17_unfreeze_transparent : forall (m : dmgr),
  m_frozen m = false -> set_frozen false (set_frozen true m) = m.
Proof. exact unfreeze_transparent. Qed.

(* verify / cleanup are read-only for definitions, data and every count *)
Theorem C17_readonly : forall (m : dmgr) s o, Inv path_eqb m -> (o = MVerify \/ o = MCleanup) ->
  let m' := fst (fst (step m s o)) in
  m_tasks m' = m_tasks m /\ m_frozen m' = m_frozen m /\ snd (fst (step m s o)) = s /\
  (forall a b, icount path_eqb (m_rdeps m') a b = icount path_eqb (m_rdeps m) a b) /\
  (forall a b, icount path_eqb (m_rtasks m') a b = icount path_eqb (m_rtasks m) a b) /\
  (forall a b, icount path_eqb (m_deptasks m') a b = icount path_eqb (m_deptasks m) a b) /\
  (forall a b, icount path_eqb (m_tartasks m') a b = icount path_eqb (m_tartasks m) a b).
Proof. exact frozen_readonly. Qed.

(* the calls a frozen manager rejects are exactly those of the boolean classifier
   rejectedb (proofs/ManagerFrozen.v): such a call raises the frozen error with the
   whole state unchanged, every other call (freeze / unfreeze aside) behaves exactly
   as on the unfrozen manager — same data, same trace, same outcome, same indices *)
Theorem C17_frozen_step : forall (m : dmgr) s o, is_toggle o = false ->
  step (set_frozen true m) s o =
  if rejectedb m s o then (set_frozen true m, s, mkOut (Some EFrozen) []) else lift true (step m s o).
Proof. exact frozen_step. Qed.

Theorem C17_rejected_covers_graph_changes : forall (m : dmgr) s o,
  changes_graph m o -> rejectedb m s o = true.
Proof. exact changes_graph_rejected. Qed.

(* "after unfreeze_tree() the manager behaves as if it had never been frozen", for whole
   histories with any number of freeze / unfreeze calls in any order (freeze when frozen and
   unfreeze when not frozen included): the final state is that of the manager which was
   never frozen and on which the rejected calls were not made; only the flag differs *)
Theorem C17_never_frozen : forall ops (m : dmgr) s f, m_frozen m = false ->
  run_final (set_frozen f m) s ops =
  let '(m', s', f') := never_frozen m s f ops in (set_frozen f' m', s').
Proof. exact frozen_windows_transparent. Qed.

Theorem C17_end_unfrozen : forall ops (m : dmgr) s m' s',
  m_frozen m = false -> never_frozen m s false ops = (m', s', false) ->
  run_final m s ops = (m', s').
Proof. exact frozen_windows_end_unfrozen. Qed.

(* the flag is moved by freeze / unfreeze only, and unfreeze always unfreezes *)
Theorem C17_flag_only_toggles : forall (m : dmgr) s o, is_toggle o = false ->
  m_frozen (fst (fst (step m s o))) = m_frozen m.
Proof. exact step_frozen_eq. Qed.

Theorem C17_unfreeze_unconditional : forall (m : dmgr) s,
  m_frozen (fst (fst (step m s MUnfreeze))) = false /\
  fst (fst (step (fst (fst (step m s MFreeze))) s MFreeze)) = fst (fst (step m s MFreeze)).
Proof. intros m s. split; reflexivity. Qed.

(* non-vacuity: freeze, a rejected re-definition, a propagating plain assignment, unfreeze *)
Example C17_nonvacuous :
  let k := 1%N in let a := 2%N in let b := 3%N in
  let st := mkD (Dict [(k, Dict [(a, Leaf 1); (b, Leaf 0)])]) [] None in
  let ops := [MSet [k; b] (SExpr (EBin BMul (ERef [k; a]) (EConst 2)) [[k; a]] [[k; b]]) [[k; b]] [];
              MFreeze;
              MSet [k; b] (SPlain (Leaf 7)) [[k; b]] [];
              MSet [k; a] (SPlain (Leaf 5)) [[k; a]] [[k; b]];
              MUnfreeze;
              MSet [k; b] (SPlain (Leaf 7)) [[k; b]] []] in
  map (fun r => o_err (snd r)) (run_hist empty_mgr st ops) = [None; None; Some EFrozen; None; None; None] /\
  nget (d_st (snd (fst (nth 3 (run_hist empty_mgr st ops) (empty_mgr, st, mkOut None []))))) [k; b] = Some (Leaf 10).
Proof. cbn. split; reflexivity. Qed.

(* non-vacuity of the window theorem: unbalanced calls (unfreeze when not frozen, freeze
   twice, one unfreeze), a rejected re-definition inside the window, a definition after it *)
Example C17_windows_nonvacuous :
  let k := 1%N in let a := 2%N in let b := 3%N in
  let st := mkD (Dict [(k, Dict [(a, Leaf 1); (b, Leaf 0)])]) [] None in
  let def := MSet [k; b] (SExpr (EBin BMul (ERef [k; a]) (EConst 2)) [[k; a]] [[k; b]]) [[k; b]] [] in
  let ops := [MUnfreeze; MFreeze; MFreeze; def; MSet [k; a] (SPlain (Leaf 5)) [[k; a]] [];
              MUnfreeze; def; MSet [k; a] (SPlain (Leaf 4)) [[k; a]] [[k; b]]] in
  map (fun r => o_err (snd r)) (run_hist empty_mgr st ops) = [None; None; None; Some EFrozen; None; None; None; None] /\
  run_final empty_mgr st ops = run_final empty_mgr st [MSet [k; a] (SPlain (Leaf 5)) [[k; a]] []; def; MSet [k; a] (SPlain (Leaf 4)) [[k; a]] [[k; b]]] /\
  nget (d_st (snd (run_final empty_mgr st ops))) [k; b] = Some (Leaf 8).
Proof. vm_compute. repeat split; reflexivity. Qed.

(* tie to the source: the translated freeze_tree / unfreeze_tree and the frozen guard at the top of
   register / unregister (gen/GenTasks.v, regenerated on every run) are the model's *)
Theorem C17_freeze_is_source : forall (m : dmgr),
  src_freeze_tree m = Ok (set_frozen true m) /\ src_unfreeze_tree m = Ok (set_frozen false m).
Proof. intros m. split; reflexivity. Qed.

Theorem C17_guards_are_source : forall (t : dtask) (tid : path) (m : dmgr), m_frozen m = true ->
  src_register path_eqb t m = Err EFrozen /\ src_unregister path_eqb tid m = Err EFrozen.
Proof.
  intros t tid m H. rewrite (src_register_eq path_eqb), (src_unregister_eq path_eqb path_eqb_spec).
  unfold register, unregister. rewrite H. split; reflexivity.
Qed.

Print Assumptions C17_frozen_rejects.
Print Assumptions C17_values_propagate.
Print Assumptions C17_unfreeze_transparent.
(* copy_expr_from as written (translated on every run) is a load of the other manager's expression tasks under the named
   container: it is one MLoad step of the model, hence covered by C17_frozen_step - on a frozen manager a non-empty copy
   that would add or overwrite a definition is rejected with the whole state unchanged, whatever its size *)
Definition copied (other : dmgr) (label : N) (orders : path -> list path * list path) : list dtask :=
  map load_task (map (fun pe => (fst pe, snd pe, fst (orders (fst pe)), snd (orders (fst pe)))) (src_iter_expr_tasks_owner label other)).

Theorem C17_copy_expr_from_is_source : forall (s : dstate) other label orders ow (m : dmgr) tr,
  src_copy_expr_from other label orders ow (m, s, tr) =
  let '(m', s', out) := step m s (MLoad (copied other label orders) ow) in ((m', s', tr), res_of (o_err out)).
Proof. intros. unfold src_copy_expr_from, copied. apply src_load_eq. Qed.

Theorem C17_copy_expr_from_frozen : forall (s : dstate) other label orders ow (m : dmgr) tr,
  rejectedb m s (MLoad (copied other label orders) ow) = true ->
  src_copy_expr_from other label orders ow (set_frozen true m, s, tr) = ((set_frozen true m, s, tr), Err EFrozen).
Proof.
  intros s other label orders ow m tr H. rewrite C17_copy_expr_from_is_source.
  rewrite (frozen_step m s (MLoad (copied other label orders) ow) eq_refl).
  rewrite H. reflexivity.
Qed.

Print Assumptions C17_copy_expr_from_is_source.
Print Assumptions C17_copy_expr_from_frozen.
Print Assumptions C17_readonly.
Print Assumptions C17_nonvacuous.
Print Assumptions C17_frozen_step.
Print Assumptions C17_rejected_covers_graph_changes.
Print Assumptions C17_never_frozen.
Print Assumptions C17_end_unfrozen.
Print Assumptions C17_flag_only_toggles.
Print Assumptions C17_unfreeze_unconditional.
Print Assumptions C17_windows_nonvacuous.
Print Assumptions C17_freeze_is_source.
Print Assumptions C17_guards_are_source.
