(* C16 - Newton step is the least-squares solution; scalings and Jacobians
   consistent.  Exact arithmetic over an arbitrary real field (MathComp).
   Only statements, each closed by [exact] of a lemma of proofs/LstsqProofs.v,
   followed by Print Assumptions.

   [lstsq], [x_to_knobs_code], [knobs_to_x_code], [scaled_to_native_expr],
   [scaled_from_native_expr], [fd], [view_jac], [view_call] are regenerated
   from xdeps/optimize/matrixutils.py and optimize.py on every run
   (coq/gen/GenOpt.v); everything floating point is validated numerically by
   tools/checks/C16.py, not proved. *)
From Coq Require Import String ZArith.
From mathcomp Require Import all_ssreflect all_algebra.
From XD Require Import model.OptExpr model.Lstsq gen.GenOpt proofs.LstsqProofs.
Set Implicit Arguments.
Unset Strict Implicit.
Unset Printing Implicit Defensive.
Import GRing.Theory Num.Theory.
Local Open Scope ring_scope.

(* Tie: the extracted code has the shapes the model is written for - the product
   formula Vh.T @ (diag(s_inv) @ (U.T @ b)), the three [:sing_val_cutoff] slices,
   the parameter defaults, the forward-difference perturbation, the view
   pre-scaling - and its two masking rules mean: 1/s where s > 0, then 0 where
   s < rcond * s[0] (only when rcond is given). *)
Theorem C16_code_tie :
  (lq_formula lstsq = expected_formula /\ lq_slices lstsq = expected_slices /\
   lq_defaults lstsq = expected_defaults /\ lq_init lstsq = ("s_inv", "zeros_like(s)")%string /\
   lq_result lstsq = "x"%string /\
   wc_source x_to_knobs_code = "x"%string /\ wc_source knobs_to_x_code = "knob_values"%string /\
   wc_guard x_to_knobs_code = "weight"%string /\ wc_guard knobs_to_x_code = "weight"%string /\
   fd_steps fd = AApp "_knobs_to_x" (AVar "steps_for_jacobian") /\
   fd_perturb fd = AAdd (AVar "x") (AVar "steps") /\ fd_restore fd = ASub (AVar "x") (AVar "steps") /\
   fd_skip_inactive fd = true /\
   vj_prescale view_jac = "_scaled_to_native"%string /\ vj_native view_jac = "get_jacobian"%string /\
   vc_prescale view_call = "_scaled_to_native"%string /\
   vc_kwargs view_call = [:: "check_limits"; "return_scalar"; "zero_if_met"]%string /\
   vj_scalar_f0_kwargs view_jac = [:: "check_limits"; "zero_if_met"]%string) /\
  (forall (R : realFieldType) (si sf : R) (rcond : option R),
     sinv_elem (lq_masks lstsq) si sf rcond =
     if (0 < si) && (if rcond is Some rc then ~~ (si < rc * sf) else true) then si^-1 else 0) /\
  (forall (R : realFieldType) (x lo hi s0 s1 : R),
     to_native x lo hi s0 s1 = lo + (x - s0) * (hi - lo) / (s1 - s0) /\
     from_native x lo hi s0 s1 = s0 + (x - lo) * (s1 - s0) / (hi - lo) /\
     dxdx lo hi s0 s1 = (hi - lo) / (s1 - s0)).
Proof.
  exact (conj code_shapes (conj (fun R => @sinv_elemE R)
          (fun R x lo hi s0 s1 => conj (to_nativeE x lo hi s0 s1) (conj (from_nativeE x lo hi s0 s1) (dxdxE lo hi s0 s1))))).
Qed.
Print Assumptions C16_code_tie.

(* SVD.lstsq.  A decomposition with orthonormal columns of U and of V = Vh^T,
   any singular values s (k >= 1 of them), any rcond (or None) and cutoff:
   [keep] = the singular values retained by the slices and the two masking rules,
   [A_keep] = U diag(s restricted to keep) Vh, x = the extracted formula.
   Then x satisfies the normal equations of the restricted system, minimises
   |A_keep z - b|, and has minimum norm among the minimisers. *)
Theorem C16_lstsq_minnorm :
  forall (R : realFieldType) (m n k' : nat)
         (U : 'M[R]_(m, k'.+1)) (Vh : 'M[R]_(k'.+1, n)) (s : 'rV[R]_(k'.+1)) (rcond : option R) (cutoff : nat),
    U^T *m U = 1%:M -> Vh *m Vh^T = 1%:M ->
    forall b : 'cV[R]_m,
    let A := A_keep U Vh s rcond cutoff in
    let x := lstsq_x U Vh s (lq_masks lstsq) rcond cutoff b in
    A^T *m (A *m x - b) = 0 /\
    (forall z : 'cV[R]_n, normsq (A *m x - b) <= normsq (A *m z - b)) /\
    (forall z : 'cV[R]_n, (forall y : 'cV[R]_n, normsq (A *m z - b) <= normsq (A *m y - b)) -> normsq x <= normsq z).
Proof.
  exact (fun R m n k' U Vh s rcond cutoff HU HV b =>
    conj (normal_equations s rcond cutoff HU HV b)
      (conj (minimiser s rcond cutoff HU HV b) (@minimum_norm R m n k' U Vh s rcond cutoff HU HV b))).
Qed.
Print Assumptions C16_lstsq_minnorm.

(* Affine, consistent, full column rank, nothing truncated: forward differences
   with any non-zero steps give the matrix exactly, and one Newton step from any
   start reaches residual 0. *)
Theorem C16_newton_lands :
  forall (R : realFieldType) (m k' : nat)
         (U : 'M[R]_(m, k'.+1)) (Vh : 'M[R]_(k'.+1, k'.+1)) (s : 'rV[R]_(k'.+1)) (rcond : option R) (cutoff : nat),
    U^T *m U = 1%:M -> Vh *m Vh^T = 1%:M ->
    (forall i, keep s rcond cutoff i) ->
    forall (A : 'M[R]_(m, k'.+1)) (t : 'cV[R]_m) (xstar : 'cV[R]_(k'.+1)),
    A = U *m diag_mx s *m Vh -> A *m xstar = t ->
    forall (x0 h : 'cV[R]_(k'.+1)), (forall j, h j 0 != 0) ->
    let f := affine A t in
    let J := fd_jac (fd_column fd) f x0 h in
    J = A /\ f (x0 - lstsq_x U Vh s (lq_masks lstsq) rcond cutoff (f x0)) = 0.
Proof.
  exact (fun R m k' U Vh s rcond cutoff HU HV Hk A t xstar HA Hc x0 h h0 =>
           @newton_lands R m k' U Vh s rcond cutoff HU HV Hk A t xstar HA Hc x0 h h0).
Qed.
Print Assumptions C16_newton_lands.

(* Knob weights: _knobs_to_x and _x_to_knobs are inverse to each other. *)
Theorem C16_weights_inverse :
  forall (R : realFieldType) (x w : R), w != 0 ->
    weight_apply knobs_to_x_code (weight_apply x_to_knobs_code x w) w = x /\
    weight_apply x_to_knobs_code (weight_apply knobs_to_x_code x w) w = x.
Proof. exact weights_inverse. Qed.
Print Assumptions C16_weights_inverse.

(* rescale_x: _scaled_from_native and _scaled_to_native are inverse to each other. *)
Theorem C16_rescale_inverse :
  forall (R : realFieldType) (x lo hi s0 s1 : R), hi != lo -> s1 != s0 ->
    from_native (to_native x lo hi s0 s1) lo hi s0 s1 = x /\
    to_native (from_native x lo hi s0 s1) lo hi s0 s1 = x.
Proof. exact rescale_inverse. Qed.
Print Assumptions C16_rescale_inverse.

(* Views of an affine merit function f(x) = A x - t.  Native: the reported
   Jacobian (forward differences) equals forward differences with any other
   non-zero steps.  Rescaled: the reported Jacobian (native forward differences
   at the native point, column j times dx_native_dx_scaled[j]) equals forward
   differences of the rescaled view itself. *)
Theorem C16_view_jacobian :
  forall (R : realFieldType) (m n : nat) (A : 'M[R]_(m, n)) (t : 'cV[R]_m) (lo hi : 'cV[R]_n) (s0 s1 : R),
    s1 != s0 ->
    forall (x h h' xs : 'cV[R]_n), (forall j, h j 0 != 0) -> (forall j, h' j 0 != 0) ->
    fd_jac (fd_column fd) (affine A t) x h = fd_jac (fd_column fd) (affine A t) x h' /\
    rescaled_reported A t lo hi s0 s1 xs h = fd_jac (fd_column fd) (rescaled_view A t lo hi s0 s1) xs h'.
Proof. exact (fun R m n A t lo hi s0 s1 _ x h h' xs => @view_jacobian_vector R m n A t lo hi s0 s1 x h h' xs). Qed.
Print Assumptions C16_view_jacobian.

(* Scalar views (sum of squares of a vector view g whose forward differences are
   B: the native view with B = A, the rescaled one with B = A * slope, see
   C16_view_is_coord_affine): the reported 2 * dot(f0, jac) equals the finite
   difference of the scalar view up to the explicit term e * |column j of B|^2. *)
Theorem C16_view_jacobian_scalar :
  forall (R : realFieldType) (m n : nat) (g : 'cV[R]_n -> 'cV[R]_m) (B : 'M[R]_(m, n)) (y : 'cV[R]_n) (e : R) (j : 'I_n),
    coord_affine g B -> e != 0 ->
    (sumsq (g (y + e *: delta_mx j 0)) - sumsq (g y)) / e = scalar_reported g B y j + e * \sum_i B i j ^+ 2.
Proof. exact (fun R m n g B y e j => @view_jacobian_scalar R m n g B y e j). Qed.
Print Assumptions C16_view_jacobian_scalar.

Theorem C16_view_is_coord_affine :
  forall (R : realFieldType) (m n : nat) (A : 'M[R]_(m, n)) (t : 'cV[R]_m) (lo hi : 'cV[R]_n) (s0 s1 : R),
    coord_affine (affine A t) A /\
    coord_affine (rescaled_view A t lo hi s0 s1) (\matrix_(i, j) (A i j * slope lo hi s0 s1 j)).
Proof. exact (fun R m n A t lo hi s0 s1 => conj (affine_coord A t) (rescaled_coord A t lo hi s0 s1)). Qed.
Print Assumptions C16_view_is_coord_affine.

(* Non-vacuity: the hypotheses of C16_lstsq_minnorm and C16_newton_lands hold for
   the 1 x 1 decomposition 2 = 1 * 2 * 1 over the rationals, with rcond = 1/4. *)
Example C16_nonvacuous :
  let U : 'M[rat]_(1, 1) := 1%:M in
  let s : 'rV[rat]_1 := const_mx 2%:R in
  U^T *m U = 1%:M /\ (forall i, keep s (Some (1%:R / 4%:R)) 1 i).
Proof.
  split; first by rewrite trmx1 mulmx1.
  by move=> i; rewrite /keep /s_first !mxE ord1.
Qed.
Print Assumptions C16_nonvacuous.
