(* C16 - Newton step is the least-squares solution; scalings and Jacobians
   consistent.  Exact arithmetic over an arbitrary real field (MathComp).
   Only statements, each closed by [exact] of a lemma of proofs/LstsqProofs.v,
   followed by Print Assumptions.

   [lstsq], [x_to_knobs_code], [knobs_to_x_code], [scaled_to_native_expr],
   [scaled_from_native_expr], [fd], [view_jac], [view_call] are regenerated
   from xdeps/optimize/matrixutils.py and optimize.py on every run
   (coq/gen/GenOpt.v); everything floating point is validated numerically by
   tools/checks/C16.py, not proved. *)
From Coq Require Import String ZArith.
From mathcomp Require Import all_ssreflect all_algebra.
From XD Require Import model.OptExpr model.Lstsq gen.GenOpt proofs.LstsqProofs.
Set Implicit Arguments.
Unset Strict Implicit.
Unset Printing Implicit Defensive.
Import GRing.Theory Num.Theory.
Local Open Scope ring_scope.

(* Tie: the extracted code has the shapes the model is written for - the product
   formula Vh.T @ (diag(s_inv) @ (U.T @ b)), the three [:sing_val_cutoff] slices,
   the parameter defaults, the forward-difference perturbation, the view
   pre-scaling - and its two masking rules mean: 1/s where s > 0, then 0 where
   s < rcond * s[0] (only when rcond is given). *)
Theorem C16_code_tie :
  (lq_formula lstsq = expected_formula /\ lq_slices lstsq = expected_slices /\
   lq_defaults lstsq = expected_defaults /\ lq_init lstsq = ("s_inv", "zeros_like(s)")%string /\
   lq_result lstsq = "x"%string /\
   wc_source x_to_knobs_code = "x"%string /\ wc_source knobs_to_x_code = "knob_values"%string /\
   wc_guard x_to_knobs_code = "weight"%string /\ wc_guard knobs_to_x_code = "weight"%string /\
   fd_steps fd = AApp "_knobs_to_x" (AVar "steps_for_jacobian") /\
   fd_perturb fd = AAdd (AVar "x") (AVar "steps") /\ fd_restore fd = ASub (AVar "x") (AVar "steps") /\
   fd_skip_inactive fd = true /\
   vj_prescale view_jac = "_scaled_to_native"%string /\ vj_native view_jac = "get_jacobian"%string /\
   vc_prescale view_call = "_scaled_to_native"%string /\
   vc_kwargs view_call = [:: "check_limits"; "return_scalar"; "zero_if_met"]%string /\
   vj_scalar_f0_kwargs view_jac = [:: "check_limits"; "zero_if_met"]%string) /\
  (forall (R : realFieldType) (si sf : R) (rcond : option R),
     sinv_elem (lq_masks lstsq) si sf rcond =
     if (0 < si) && (if rcond is Some rc then ~~ (si < rc * sf) else true) then si^-1 else 0) /\
  (forall (R : realFieldType) (x lo hi s0 s1 : R),
     to_native x lo hi s0 s1 = lo + (x - s0) * (hi - lo) / (s1 - s0) /\
     from_native x lo hi s0 s1 = s0 + (x - lo) * (s1 - s0) / (hi - lo) /\
     dxdx lo hi s0 s1 = (hi - lo) / (s1 - s0)).
Proof.
  exact (conj code_shapes (conj (fun R => @sinv_elemE R)
          (fun R x lo hi s0 s1 => conj (to_nativeE x lo hi s0 s1) (conj (from_nativeE x lo hi s0 s1) (dxdxE lo hi s0 s1))))).
Qed.
Print Assumptions C16_code_tie.

(* SVD.lstsq.  A decomposition with orthonormal columns of U and of V = Vh^T,
   any singular values s (k >= 1 of them), any rcond (or None) and cutoff:
   [keep] = the singular values retained by the slices and the two masking rules,
   [A_keep] = U diag(s restricted to keep) Vh, x = the extracted formula.
   Then x satisfies the normal equations of the restricted system, minimises
   |A_keep z - b|, and has minimum norm among the minimisers. *)
Theorem C16_lstsq_minnorm :
  forall (R : realFieldType) (m n k' : nat)
         (U : 'M[R]_(m, k'.+1)) (Vh : 'M[R]_(k'.+1, n)) (s : 'rV[R]_(k'.+1)) (rcond : option R) (cutoff : nat),
    U^T *m U = 1%:M -> Vh *m Vh^T = 1%:M ->
    forall b : 'cV[R]_m,
    let A := A_keep U Vh s rcond cutoff in
    let x := lstsq_x U Vh s (lq_masks lstsq) rcond cutoff b in
    A^T *m (A *m x - b) = 0 /\
    (forall z : 'cV[R]_n, normsq (A *m x - b) <= normsq (A *m z - b)) /\
    (forall z : 'cV[R]_n, (forall y : 'cV[R]_n, normsq (A *m z - b) <= normsq (A *m y - b)) -> normsq x <= normsq z).
Proof.
  exact (fun R m n k' U Vh s rcond cutoff HU HV b =>
    conj (normal_equations s rcond cutoff HU HV b)
      (conj (minimiser s rcond cutoff HU HV b) (@minimum_norm R m n k' U Vh s rcond cutoff HU HV b))).
Qed.
Print Assumptions C16_lstsq_minnorm.

(* Affine, consistent, full column rank, nothing truncated: forward differences
   with any non-zero steps give the matrix exactly, and one Newton step from any
   start reaches residual 0. *)
Theorem C16_newton_lands :
  forall (R : realFieldType) (m k' : nat)
         (U : 'M[R]_(m, k'.+1)) (Vh : 'M[R]_(k'.+1, k'.+1)) (s : 'rV[R]_(k'.+1)) (rcond : option R) (cutoff : nat),
    U^T *m U = 1%:M -> Vh *m Vh^T = 1%:M ->
    (forall i, keep s rcond cutoff i) ->
    forall (A : 'M[R]_(m, k'.+1)) (t : 'cV[R]_m) (xstar : 'cV[R]_(k'.+1)),
    A = U *m diag_mx s *m Vh -> A *m xstar = t ->
    forall (x0 h : 'cV[R]_(k'.+1)), (forall j, h j 0 != 0) ->
    let f := affine A t in
    let J := fd_jac (fd_column fd) f x0 h in
    J = A /\ f (x0 - lstsq_x U Vh s (lq_masks lstsq) rcond cutoff (f x0)) = 0.
Proof.
  exact (fun R m k' U Vh s rcond cutoff HU HV Hk A t xstar HA Hc x0 h h0 =>
           @newton_lands R m k' U Vh s rcond cutoff HU HV Hk A t xstar HA Hc x0 h h0).
Qed.
Print Assumptions C16_newton_lands.

(* Knob weights: _knobs_to_x and _x_to_knobs are inverse to each other. *)
Theorem C16_weights_inverse :
  forall (R : realFieldType) (x w : R), w != 0 ->
    weight_apply knobs_to_x_code (weight_apply x_to_knobs_code x w) w = x /\
    weight_apply x_to_knobs_code (weight_apply knobs_to_x_code x w) w = x.
Proof. exact weights_inverse. Qed.
Print Assumptions C16_weights_inverse.

(* rescale_x: _scaled_from_native and _scaled_to_native are inverse to each other. *)
Theorem C16_rescale_inverse :
  forall (R : realFieldType) (x lo hi s0 s1 : R), hi != lo -> s1 != s0 ->
    from_native (to_native x lo hi s0 s1) lo hi s0 s1 = x /\
    to_native (from_native x lo hi s0 s1) lo hi s0 s1 = x.
Proof. exact rescale_inverse. Qed.
Print Assumptions C16_rescale_inverse.

(* Views of an affine merit function f(x) = A x - t.  Native: the reported
   Jacobian (forward differences) equals forward differences with any other
   non-zero steps.  Rescaled: the reported Jacobian (native forward differences
   at the native point, column j times dx_native_dx_scaled[j]) equals forward
   differences of the rescaled view itself. *)
Theorem C16_view_jacobian :
  forall (R : realFieldType) (m n : nat) (A : 'M[R]_(m, n)) (t : 'cV[R]_m) (lo hi : 'cV[R]_n) (s0 s1 : R),
    s1 != s0 ->
    forall (x h h' xs : 'cV[R]_n), (forall j, h j 0 != 0) -> (forall j, h' j 0 != 0) ->
    fd_jac (fd_column fd) (affine A t) x h = fd_jac (fd_column fd) (affine A t) x h' /\
    rescaled_reported A t lo hi s0 s1 xs h = fd_jac (fd_column fd) (rescaled_view A t lo hi s0 s1) xs h'.
Proof. exact (fun R m n A t lo hi s0 s1 _ x h h' xs => @view_jacobian_vector R m n A t lo hi s0 s1 x h h' xs). Qed.
Print Assumptions C16_view_jacobian.

(* Scalar views (sum of squares of a vector view g whose forward differences are
   B: the native view with B = A, the rescaled one with B = A * slope, see
   C16_view_is_coord_affine): the reported 2 * dot(f0, jac) equals the finite
   difference of the scalar view up to the explicit term e * |column j of B|^2. *)
Theorem C16_view_jacobian_scalar :
  forall (R : realFieldType) (m n : nat) (g : 'cV[R]_n -> 'cV[R]_m) (B : 'M[R]_(m, n)) (y : 'cV[R]_n) (e : R) (j : 'I_n),
    coord_affine g B -> e != 0 ->
    (sumsq (g (y + e *: delta_mx j 0)) - sumsq (g y)) / e = scalar_reported g B y j + e * \sum_i B i j ^+ 2.
Proof. exact (fun R m n g B y e j => @view_jacobian_scalar R m n g B y e j). Qed.
Print Assumptions C16_view_jacobian_scalar.

Theorem C16_view_is_coord_affine :
  forall (R : realFieldType) (m n : nat) (A : 'M[R]_(m, n)) (t : 'cV[R]_m) (lo hi : 'cV[R]_n) (s0 s1 : R),
    coord_affine (affine A t) A /\
    coord_affine (rescaled_view A t lo hi s0 s1) (\matrix_(i, j) (A i j * slope lo hi s0 s1 j)).
Proof. exact (fun R m n A t lo hi s0 s1 => conj (affine_coord A t) (rescaled_coord A t lo hi s0 s1)). Qed.
Print Assumptions C16_view_is_coord_affine.

(* The Newton step of a call depends on that call's arguments only.
   Code: in JacobianSolver.step the keywords of jac_svd.lstsq(...) are the step's own
   parameters rcond / sing_val_cutoff, which are never re-bound and never stored on the solver
   (no self.rcond / self.sing_val_cutoff anywhere in the class); Optimize.step and
   Optimize.solve hand their own parameters through; the Broyden update has the modelled shape.
   Model ([solver_step], state = current point + Jacobian cache only): the step taken is the
   least-squares solution [lst a J y] for THIS call's arguments [a], and two histories of calls
   - with whatever rcond / cutoff / broyden arguments - that reach the same point with the same
   cache take the same step for the same arguments. *)
Theorem C16_step_args_local :
  (sc_lstsq_kwargs step_args = [:: ("rcond", ArgParam "rcond"); ("sing_val_cutoff", ArgParam "sing_val_cutoff")]%string /\
   sc_params_rebound step_args = [::] /\ sc_self_stores step_args = [::] /\
   sc_optimize_step_kwargs step_args =
     [:: ("rcond", ArgParam "rcond"); ("sing_val_cutoff", ArgParam "sing_val_cutoff"); ("broyden", ArgLocal "this_broyden")]%string /\
   sc_solve_kwargs step_args =
     [:: ("rcond", ArgParam "rcond"); ("sing_val_cutoff", ArgParam "sing_val_cutoff"); ("broyden", ArgParam "broyden")]%string /\
   sc_broyden_update step_args = true) /\
  (forall (R : realFieldType) (m k' : nat) (f : 'cV[R]_(k'.+1) -> 'cV[R]_m) (h : 'cV[R]_(k'.+1))
          (lst : call_args R -> 'M[R]_(m, k'.+1) -> 'cV[R]_m -> 'cV[R]_(k'.+1)),
     let sstep := solver_step f h (fd_column fd) lst in
     let run := run_calls f h (fd_column fd) lst in
     (forall a st, sstep a st =
        mk_sstate (st_x st - lst a (step_jac f h (fd_column fd) a st) (f (st_x st)))
                  (Some (step_jac f h (fd_column fd) a st, st_x st, f (st_x st)))) /\
     (forall pre1 pre2 st1 st2 a,
        st_x (run pre1 st1) = st_x (run pre2 st2) -> st_cache (run pre1 st1) = st_cache (run pre2 st2) ->
        sstep a (run pre1 st1) = sstep a (run pre2 st2))).
Proof.
  exact (conj step_code_local (fun R m k' f h lst =>
           conj (@solver_stepE R m k' f h lst) (@step_args_local R m k' f h lst))).
Qed.
Print Assumptions C16_step_args_local.

(* Consequence for consistent affine problems of full column rank: after ANY sequence of
   earlier calls on the same solver (any rcond, sing_val_cutoff, broyden - truncating or not,
   Broyden updates of the cached Jacobian included) a call whose own arguments retain every
   singular value (None = the SVD default) reaches residual 0 in one step. *)
Theorem C16_plain_call_lands_after_any_history :
  forall (R : realFieldType) (m k' : nat) (f : 'cV[R]_(k'.+1) -> 'cV[R]_m) (h : 'cV[R]_(k'.+1))
         (lst : call_args R -> 'M[R]_(m, k'.+1) -> 'cV[R]_m -> 'cV[R]_(k'.+1))
         (U : 'M[R]_(m, k'.+1)) (Vh : 'M[R]_(k'.+1, k'.+1)) (s : 'rV[R]_(k'.+1)) (default_rcond : R),
    U^T *m U = 1%:M -> Vh *m Vh^T = 1%:M ->
    forall (A : 'M[R]_(m, k'.+1)) (t : 'cV[R]_m) (xstar : 'cV[R]_(k'.+1)),
    A = U *m diag_mx s *m Vh -> A *m xstar = t -> (forall j, h j 0 != 0) -> f = affine A t ->
    (forall a y, lst a A y = lstsq_x U Vh s (lq_masks lstsq) (eff_rcond default_rcond a) (eff_cutoff k' a) y) ->
    forall (calls : seq (call_args R)) (x0 : 'cV[R]_(k'.+1)) (a : call_args R),
    (forall i, keep s (eff_rcond default_rcond a) (eff_cutoff k' a) i) ->
    f (st_x (solver_step f h (fd_column fd) lst a (run_calls f h (fd_column fd) lst calls (mk_sstate x0 None)))) = 0.
Proof.
  exact (fun R m k' f h lst U Vh s dr HU HV A t xstar HA Hc Hh Hf Hl =>
           @plain_call_lands_after_any_history R m k' f h lst U Vh s dr HU HV A t xstar HA Hc Hh Hf Hl).
Qed.
Print Assumptions C16_plain_call_lands_after_any_history.

(* Non-vacuity: the hypotheses of C16_lstsq_minnorm and C16_newton_lands hold for
   the 1 x 1 decomposition 2 = 1 * 2 * 1 over the rationals, with rcond = 1/4. *)
Example C16_nonvacuous :
  let U : 'M[rat]_(1, 1) := 1%:M in
  let s : 'rV[rat]_1 := const_mx 2%:R in
  U^T *m U = 1%:M /\ (forall i, keep s (Some (1%:R / 4%:R)) 1 i).
Proof.
  split; first by rewrite trmx1 mulmx1.
  by move=> i; rewrite /keep /s_first !mxE ord1.
Qed.
Print Assumptions C16_nonvacuous.
