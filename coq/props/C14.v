(* C14 — every Table the API produces is rectangular and leaves its source
   untouched.  Only statements, each closed by [exact] of a lemma of
   proofs/TableRect.v, followed by Print Assumptions.

   Rect t : every listed column is present in the dictionary, is an array, and
   has the common length len(t); the index is a listed column; (strengthening
   that makes the invariant inductive) no column is listed twice.
   Proved here: the shape part of the property.  "Deriving never changes the
   source" and "column expressions evaluate element-wise" are validated on the
   implementation by the harness (a pure model cannot alias; the evaluation is
   numpy's), see tools/checks/C14.py and DESIGN.md section 5. *)
From Coq Require Import List ZArith NArith.
From XD Require Import lib.ListAux model.Table model.TableSel model.TableRect proofs.TableRect.
Import ListNotations.

(* the checked constructor: whatever it accepts is rectangular (given that the
   column list it is handed names no column twice — automatic for
   col_names=None, the keys of a dictionary) and keeps every entry *)
Theorem C14_ctor : forall d cols index t,
  ctor d cols index = Ok t -> NoDup (match cols with Some l => l | None => map fst d end) ->
  Rect t /\ r_data t = d /\ r_index t = index.
Proof. exact ctor_rect. Qed.
Print Assumptions C14_ctor.

(* row selection: rectangular, same columns and index, as long as the index
   selects, scalars (every non-column entry) carried over *)
Theorem C14_rows : forall t ix t', Rect t -> rsel_rows t ix = Ok t' ->
  Rect t' /\ r_cols t' = r_cols t /\ r_index t' = r_index t /\
  (exists ps, idx_positions (rlen t) ix = Some ps /\ rlen t' = length ps) /\
  (forall k, ~ In k (r_cols t) -> aget N.eqb k (r_data t') = aget N.eqb k (r_data t)).
Proof. exact rows_rect. Qed.
Print Assumptions C14_rows.

(* column selection (names of columns and expressions over them; a name
   requested twice is listed once: dedup_reqs, as _ColView.__getitem__ does): rectangular, same length, exactly the requested columns
   (index first when not requested), scalars carried over, requested columns
   keep their cells *)
Theorem C14_cols : forall t reqs t', Rect t -> reqs_okb t (dedup_reqs reqs) = true -> rsel_cols t reqs = Ok t' ->
  Rect t' /\ r_cols t' = reqs_names t (dedup_reqs reqs) /\ r_index t' = r_index t /\ rlen t' = rlen t /\
  (forall k, ~ In k (r_cols t) -> aget N.eqb k (r_data t) <> None -> aget N.eqb k (r_data t') = aget N.eqb k (r_data t)) /\
  (forall c, In c (r_cols t) -> In c (reqs_names t (dedup_reqs reqs)) -> aget N.eqb c (r_data t') = aget N.eqb c (r_data t)).
Proof. exact cols_rect_dedup. Qed.
Print Assumptions C14_cols.

(* t + u for tables with the same columns *)
Theorem C14_concat_same_cols : forall t u r, Rect t -> Rect u -> (forall c, In c (r_cols u) <-> In c (r_cols t)) ->
  add t u = Ok r ->
  Rect r /\ r_cols r = r_cols t /\ r_index r = r_index t /\ rlen r = (rlen t + rlen u)%nat /\
  (forall x, ~ In x (r_cols t) -> aget N.eqb x (r_data r) = aget N.eqb x (r_data t)).
Proof. exact add_rect. Qed.
Print Assumptions C14_concat_same_cols.

(* Table.concatenate: whatever it returns is rectangular (it goes through the
   checked constructor), and for rectangular tables with the same columns the
   length is the sum *)
Theorem C14_concatenate : forall ts r, concatenate ts = Ok r -> Rect r /\ r_index r = name_tok.
Proof. exact concatenate_rect. Qed.
Print Assumptions C14_concatenate.

Theorem C14_concatenate_len : forall ts r, concatenate ts = Ok r ->
  (forall t, In t ts -> Rect t) ->
  (forall t t', In t ts -> In t' ts -> forall c, In c (r_cols t) <-> In c (r_cols t')) ->
  rlen r = list_sum (map rlen ts).
Proof. exact concatenate_len. Qed.
Print Assumptions C14_concatenate_len.

Theorem C14_mul : forall t k r, Rect t -> mul t k = Ok r ->
  Rect r /\ r_cols r = r_cols t /\ r_index r = r_index t /\ (0 < k)%Z /\ rlen r = (Z.to_nat k * rlen t)%nat /\
  (forall x, ~ In x (r_cols t) -> aget N.eqb x (r_data r) = aget N.eqb x (r_data t)).
Proof. exact mul_rect. Qed.
Print Assumptions C14_mul.

(* _copy of a rectangular table succeeds and is the same table *)
Theorem C14_copy : forall t, Rect t -> copy t = Ok t.
Proof. exact copy_rect. Qed.
Print Assumptions C14_copy.

(* _t: len = number of columns of the source, one column per source row plus "columns" *)
Theorem C14_transpose : forall t r, transpose t = Ok r ->
  Rect r /\ r_index r = columns_tok /\ rlen r = length (r_cols t) /\ length (r_cols r) = S (rlen t).
Proof. exact transpose_rect. Qed.
Print Assumptions C14_transpose.

Theorem C14_transpose_total : forall t, Rect t -> exists r, transpose t = Ok r.
Proof. exact transpose_ok. Qed.
Print Assumptions C14_transpose_total.

(* table[key] = array | scalar, for an existing column, a new column, or a scalar entry *)
Theorem C14_assign : forall t key v t', Rect t -> assign t key v = Ok t' ->
  Rect t' /\ rlen t' = rlen t /\ r_index t' = r_index t.
Proof. exact assign_rect. Qed.
Print Assumptions C14_assign.

(* del table[key] for a column other than the index, or a scalar entry *)
Theorem C14_delete : forall t key t', Rect t -> key <> r_index t -> delete t key = Ok t' ->
  Rect t' /\ rlen t' = rlen t /\ r_index t' = r_index t.
Proof. exact delete_rect. Qed.
Print Assumptions C14_delete.

(* any finite chain of derivations and assignments (a failing operation raises
   and leaves the table as it was) keeps the table rectangular; the only side
   conditions, checked along the chain, are that a column selection names
   columns/expressions and no name twice, and that the index column is not
   deleted *)
Theorem C14_chain : forall ops t, Rect t -> rops_okb t ops = true -> Rect (rfinal t ops).
Proof. exact chain_rect. Qed.
Print Assumptions C14_chain.

(* ... and so is every table produced on the way: each current table and each
   table derived from a current table that stays current (OStay: selections
   and assignments interleaved on one source table, including a scalar entry
   promoted to a column by an array of len(table) and deletions) *)
Theorem C14_chain_every_table : forall ops1 o ops2 t t',
  Rect t -> rops_okb t (ops1 ++ o :: ops2) = true -> rstep (rfinal t ops1) o = Ok t' -> Rect t'.
Proof. exact chain_every_table. Qed.
Print Assumptions C14_chain_every_table.

(* non-vacuity: name=2 (index), a=4, b=6 columns of 3 rows, s=8 a scalar;
   a chain through every operation satisfies the side conditions and ends in a
   table of the computed shape *)
Definition ex_data : rdata :=
  [(2%N, EArr [1; 2; 3]%Z); (4%N, EArr [10; 20; 30]%Z); (8%N, EVal 7%Z); (6%N, EArr [5; 6; 7]%Z)].
Definition ex_ops : list rop :=
  [OStay (ORows (ISlice None (Some 2%Z))); OSet 8%N (VArr [0; 0; 0]%Z); OStay (ORows (ISlice None (Some 2%Z)));
   ODel 8%N; OSet 8%N (VScalar 1%Z);
   ORows (IArr [2; 0; -1]%Z); OCols [CName 4%N; CExpr 100%N]; OAddSelf; OMul 2%Z; OSet 10%N (VArr (repeat 0%Z 12));
   OCopy; OAddRows (ISlice (Some 1%Z) (Some 3%Z)); OConcat [ISlice None None; IArr [0%Z]]; OT; OMul 0%Z].

Example C14_nonvacuous :
  exists t, ctor ex_data (Some [2; 4; 6]%N) 2%N = Ok t /\ Rect t /\ rops_okb t ex_ops = true /\
            rrun t [ORows (IArr [2; 0; -1]%Z); OCols [CName 4%N; CExpr 100%N]; OMul 2%Z] =
              [Ok ([(2%N, 3%nat); (4%N, 3%nat); (6%N, 3%nat)], [8%N], 2%N);
               Ok ([(2%N, 3%nat); (4%N, 3%nat); (100%N, 3%nat)], [8%N], 2%N);
               Ok ([(2%N, 6%nat); (4%N, 6%nat); (100%N, 6%nat)], [8%N], 2%N)] /\
            (* a scalar entry promoted to a column, then a row selection from the same table *)
            rrun t [OStay (ORows (ISlice None (Some 2%Z))); OSet 8%N (VArr [0; 0; 0]%Z); OStay (ORows (ISlice None (Some 2%Z)))] =
              [Ok ([(2%N, 2%nat); (4%N, 2%nat); (6%N, 2%nat)], [8%N], 2%N);
               Ok ([(2%N, 3%nat); (4%N, 3%nat); (6%N, 3%nat); (8%N, 3%nat)], [], 2%N);
               Ok ([(2%N, 2%nat); (4%N, 2%nat); (6%N, 2%nat); (8%N, 2%nat)], [], 2%N)] /\
            shape_of (rfinal t ex_ops) =
              ([(0%N, 4%nat); (1%N, 4%nat); (3%N, 4%nat); (5%N, 4%nat); (7%N, 4%nat); (9%N, 4%nat); (11%N, 4%nat); (13%N, 4%nat);
                (15%N, 4%nat); (17%N, 4%nat); (19%N, 4%nat); (21%N, 4%nat); (23%N, 4%nat); (25%N, 4%nat); (27%N, 4%nat);
                (29%N, 4%nat)], [], 0%N).
Proof.
  eexists. split; [vm_compute; reflexivity|]. split; [apply rectb_Rect; vm_compute; reflexivity|].
  vm_compute. repeat split; reflexivity.
Qed.
Print Assumptions C14_nonvacuous.
