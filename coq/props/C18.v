(* C18 — a failure in the middle of an update is reported and fully recoverable.
   Fault oracle: the k-th container write of the update raises (k = 0 is the write
   of the assigned location itself).  Statements only; proofs in proofs/ManagerFault.v. *)
From Coq Require Import List Bool Arith ZArith NArith Lia.
From XD Require Import lib.ListAux lib.Toposort model.Manager model.ManagerData
  proofs.ManagerIdx proofs.ManagerInv proofs.ManagerTrace proofs.ManagerDataInv proofs.Store proofs.ManagerC01
  proofs.ManagerFault.
From XD Require Import model.TasksSem model.TasksSemData gen.GenTasks gen.GenTasksData proofs.TasksSrc proofs.TasksSrcData.
Import ListNotations.
Local Open Scope nat_scope.

(* definitions and every index count after the faulty call are those of the
   fault-free call (for any two data states, armed or not) *)
Theorem C18_defs_unchanged : forall (m : dmgr) s1 s2 r v sd so,
  Inv path_eqb m -> vsrc_wf v ->
  let ma := fst (fst (set_value m s1 r v sd so)) in
  let mb := fst (fst (set_value m s2 r v sd so)) in
  m_tasks ma = m_tasks mb /\
  (forall d t, icount path_eqb (m_rdeps ma) d t = icount path_eqb (m_rdeps mb) d t) /\
  (forall d a, icount path_eqb (m_deptasks ma) d a = icount path_eqb (m_deptasks mb) d a) /\
  (forall t a, icount path_eqb (m_tartasks ma) t a = icount path_eqb (m_tartasks mb) t a) /\
  (forall a b, icount path_eqb (m_rtasks ma) a b = icount path_eqb (m_rtasks mb) a b).
Proof. exact fault_defs_unchanged. Qed.

(* the injected fault is what run_tasks reports; the tasks that ran are a prefix of
   the scheduled list, they ran exactly as in the fault-free execution (same data),
   and no task after the failing one ran *)
Theorem C18_reported_prefix : forall tl, Forall is_expr_task tl -> forall k s sf trf,
  d_fault s = None ->
  run_tasks tl (with_fault s (Some k)) = (sf, trf, Some EFault) ->
  exists tl1 t tl2 s0,
    tl = tl1 ++ t :: tl2 /\
    run_tasks tl1 s = (s0, map (@t_id path action) tl1, None) /\
    trf = map (@t_id path action) tl1 /\
    d_st sf = d_st s0 /\ d_prev sf = d_prev s0.
Proof. exact run_tasks_fault_prefix. Qed.

(* whatever the outcome, only the assigned location and targets of triggered tasks
   can have changed *)
Theorem C18_frame : forall (m : dmgr) s r v sd so m' s' out,
  Inv path_eqb m -> vsrc_wf v -> set_value m s r v sd so = (m', s', out) -> sem_wf (m_tasks m') ->
  forall q, overlap r q = false ->
            (forall b, Triggered path_eqb (m_tasks m') sd b -> overlap b q = false) ->
            nget (d_st s') q = nget (d_st s) q.
Proof. exact set_value_frame. Qed.

(* FULL STATEMENT: for all task graphs, after any faulty update a fault-free repeat
   yields the data of a run that never faulted.  PROVED (partial): for expression
   tasks (whose effect is a function of the current data), under C01's hypotheses,
   the repeat re-establishes every definition.  False for LinearKnob: see below. *)
Theorem C18_recover_partial : forall (m : dmgr) s sfault r v sd so mf sf outf sok so2 m' s' out,
  Inv path_eqb m -> vsrc_wf v -> Consistent (m_tasks m) (d_st s) ->
  d_st sfault = d_st s -> set_value m sfault r v sd so = (mf, sf, outf) ->
  d_st sok = d_st sf -> d_fault sok = None ->
  set_value mf sok r v sd so2 = (m', s', out) -> o_err out = None ->
  (forall k, aget path_eqb k (m_tasks m') = aget path_eqb k (m_tasks mf)) ->
  2 <= length r -> (forall x, In x (deps_of r) -> In x sd) ->
  sem_wf (m_tasks mf) -> writes_disjoint (m_tasks mf) -> no_self_read (m_tasks mf) ->
  (forall a T, aget path_eqb a (m_tasks mf) = Some T -> a <> r -> overlap r a = false) ->
  (forall u w, In u (o_trace out) -> In w (o_trace out) -> u <> w -> edge path_eqb (m_tasks m') u w ->
               ~ clos (edge path_eqb (m_tasks m')) w u) ->
  Consistent (m_tasks m') (d_st s').
Proof. exact fault_recover. Qed.

(* LinearKnob(source s, weights 1 2 3, targets t1 t2 t3): the write of t3 fails, t1 and
   t2 are already incremented and prev_value is not advanced; the fault-free repeat
   increments them a second time: t1 = 2, t2 = 4 instead of 1, 2. *)
Definition kc := 1%N. Definition ks := 2%N. Definition k1 := 3%N. Definition k2 := 4%N. Definition k3 := 5%N.
Definition knob_id : path := [99%N; 1%N].
Definition knob_store := mkD (Dict [(kc, Dict [(ks, Leaf 0); (k1, Leaf 0); (k2, Leaf 0); (k3, Leaf 0)])]) [] None.
Definition knob_task : dtask :=
  mkTask knob_id [[kc; k1]; [kc; k2]; [kc; k3]] [[kc; ks]]
         (AKnob [kc; ks] [(1%Z, [kc; k1]); (2%Z, [kc; k2]); (3%Z, [kc; k3])]).
Definition knob_ops (faulty : bool) : list mop :=
  [MRegister knob_task] ++
  (if faulty then [MArmFault 3; MSet [kc; ks] (SPlain (Leaf 1)) [[kc; ks]] [knob_id]; MDisarm] else []) ++
  [MSet [kc; ks] (SPlain (Leaf 1)) [[kc; ks]] [knob_id]].

Definition final_store (ops : list mop) : node :=
  d_st (snd (fst (last (run_hist empty_mgr knob_store ops) (empty_mgr, knob_store, mkOut None [])))).

Theorem C18_refuted_linear_knob :
  map (fun r => o_err (snd r)) (run_hist empty_mgr knob_store (knob_ops true)) = [None; None; Some EFault; None; None] /\
  (nget (final_store (knob_ops false)) [kc; k1], nget (final_store (knob_ops false)) [kc; k2], nget (final_store (knob_ops false)) [kc; k3])
    = (Some (Leaf 1), Some (Leaf 2), Some (Leaf 3)) /\
  (nget (final_store (knob_ops true)) [kc; k1], nget (final_store (knob_ops true)) [kc; k2], nget (final_store (knob_ops true)) [kc; k3])
    = (Some (Leaf 2), Some (Leaf 4), Some (Leaf 3)).
Proof. vm_compute. repeat split; reflexivity. Qed.

(* non-vacuity: a chain a -> b -> c of expression tasks; the update of a faults at the
   write of c, the caller sees the fault, b has its new value, c the old one; the
   repeat restores c *)
Definition fa := 2%N. Definition fb := 3%N. Definition fc := 4%N.
Definition chain_store := mkD (Dict [(kc, Dict [(fa, Leaf 1); (fb, Leaf 0); (fc, Leaf 0)])]) [] None.
Definition chain_ops : list mop :=
  [MSet [kc; fb] (SExpr (EBin BAdd (ERef [kc; fa]) (EConst 1)) [[kc; fa]] [[kc; fb]]) [[kc; fb]] [];
   MSet [kc; fc] (SExpr (EBin BMul (ERef [kc; fb]) (EConst 2)) [[kc; fb]] [[kc; fc]]) [[kc; fc]] [];
   MArmFault 2; MSet [kc; fa] (SPlain (Leaf 5)) [[kc; fa]] [[kc; fb]]; MDisarm;
   MSet [kc; fa] (SPlain (Leaf 5)) [[kc; fa]] [[kc; fb]]].

Example C18_nonvacuous :
  let res := run_hist empty_mgr chain_store chain_ops in
  map (fun r => (o_err (snd r), o_trace (snd r))) res =
    [(None, []); (None, []); (None, []); (Some EFault, [[kc; fb]]); (None, []); (None, [[kc; fb]; [kc; fc]])] /\
  (let st := d_st (snd (fst (nth 3 res (empty_mgr, chain_store, mkOut None [])))) in
   (nget st [kc; fb], nget st [kc; fc]) = (Some (Leaf 6), Some (Leaf 4))) /\
  (let st := d_st (snd (fst (nth 5 res (empty_mgr, chain_store, mkOut None [])))) in
   (nget st [kc; fb], nget st [kc; fc]) = (Some (Leaf 6), Some (Leaf 12))).
Proof. vm_compute. repeat split; reflexivity. Qed.

(* tie to the source: the translated Manager.run_tasks (a plain loop, no exception handling: the first exception
   leaves the loop with the state reached so far) is the model's run_tasks *)
Theorem C18_run_tasks_is_source : forall ts (m : dmgr) s tr,
  src_run_tasks task_run ts (m, s, tr) =
  let '(s2, tr2, er) := run_tasks ts s in ((m, s2, tr ++ tr2), res_of er).
Proof. exact src_run_tasks_eq. Qed.

Print Assumptions C18_defs_unchanged.
Print Assumptions C18_reported_prefix.
Print Assumptions C18_frame.
Print Assumptions C18_recover_partial.
Print Assumptions C18_refuted_linear_knob.
Print Assumptions C18_nonvacuous.
Print Assumptions C18_run_tasks_is_source.
