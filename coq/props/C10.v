(* C10 — accepted optimizer iterates respect limits, max_step and disabled knobs.
   Model: model/Opt.v; every theorem holds for every environment E (carrier,
   element-wise operations, oracles: user function, norm, least-squares solve,
   Broyden update) and every configuration. *)
From Coq Require Import List Bool NArith ZArith QArith Qcanon.
From XD Require Import model.Opt proofs.OptBase proofs.OptInner proofs.OptOuter proofs.OptThm
                       proofs.OptLimits proofs.OptClip proofs.OptClipQc proofs.OptNonint.
Import ListNotations.

(* ---- limits ------------------------------------------------------------------------
   The limit theorems hold in both settings of Optimize(check_limits=...):
   check_limits=True  - the merit function refuses every value outside the limits,
                        for any positive weights;
   check_limits=False - only the Jacobian solver's limit test protects the knobs; it
                        works on x = knob/weight, so the statement is exact for unit
                        weights ([unit_laws]: all weights 1, x*1 = x, x/1 = x, x-0 = x,
                        true of IEEE doubles) - for other weights the knob can overshoot
                        by the rounding of the weight scaling (checked with an ulp slack
                        by the oracle).
   [good E cf s]: shapes are consistent, every container knob is inside its
   closed limits (not v < lo, not hi < v), every row of the log too, and the log
   is not empty.  [wfc]: one limits entry per knob. *)
Theorem C10_limits_meaning : forall (E : env) (cf : cfg (eF E)) s, good E cf s ->
  forall i lo hi v, nth_error (c_lim cf) i = Some (Some (lo, hi)) ->
    (nth_error (knobs s) i = Some v -> inside E lo hi v) /\
    (forall r, In r (log s) -> nth_error (r_knobs r) i = Some v -> inside E lo hi v).
Proof. intros E cf s. exact (good_meaning E cf s). Qed.
Print Assumptions C10_limits_meaning.

(* [inside E lo hi v]: each side of a limit pair is optional (limits=(0, None),
   (None, 5); an infinite side behaves like an absent one): v is not below lo when
   lo is given and not above hi when hi is given *)
Theorem C10_inside_meaning : forall (E : env) lo hi v, inside E lo hi v <->
  (forall a, lo = Some a -> e_ltb E v a = false) /\ (forall b, hi = Some b -> e_ltb E b v = false).
Proof. intros; reflexivity. Qed.
Print Assumptions C10_inside_meaning.

(* a constructed optimizer whose start point is inside the limits is good *)
Theorem C10_limits_init : forall (E : env) (cf : cfg (eF E)), wfc E cf -> (c_check cf = true \/ (c_check cf = false /\ unit_laws E cf)) -> forall k0 va0 s0,
  init E cf k0 va0 = Ok s0 -> length k0 = length (c_w cf) -> length va0 = length (c_w cf) ->
  lims_ok E (c_lim cf) k0 -> good E cf s0.
Proof. exact init_good. Qed.
Print Assumptions C10_limits_init.

(* every operation that returns normally keeps containers and all log rows
   inside the limits: the Jacobian solver's limit test and its update compute the
   same x_i - step_i, and every value the merit function writes with
   check_limits has passed the test *)
Theorem C10_limits : forall (E : env) (cf : cfg (eF E)), wfc E cf -> (c_check cf = true \/ (c_check cf = false /\ unit_laws E cf)) -> forall fuel o s s',
  good E cf s -> run_op E cf fuel o s = Ok s' -> good E cf s'.
Proof.
  intros E cf Hc Hk fuel o s s' Hg Ho. pose proof (run_op_good E cf Hc Hk fuel o s Hg) as P. rewrite Ho in P. exact P.
Qed.
Print Assumptions C10_limits.

(* When the loop of Optimize.step fails (solver.step raised: LinAlgError, an
   exception of the user's action, a limit ValueError, "penalty increased"), the
   containers are put back on the last accepted point: they agree with solver.x on
   every active knob ("except Exception: self.set_knobs_from_x(self.solver.x); raise"). *)
Theorem C10_failed_step_on_accepted_point : forall (E : env) (cf : cfg (eF E)) fuel b n i s e s',
  step_loop E cf fuel n i b s = Err e s' ->
  exists x, sx s' = Some x /\
            fst (write_knobs E false (va s') (c_lim cf) (x_to_knobs E cf x) (knobs s')) = knobs s'.
Proof. intros E cf fuel b. exact (step_loop_err_on_x E cf fuel b). Qed.
Print Assumptions C10_failed_step_on_accepted_point.

(* a failing operation: the rows of the log always stay inside the limits.  The
   containers too
   - for unit weights after ANY failing operation (bare step(), solve() without
     restore_if_fail included): the last accepted point is inside the limits
     (only a failing clear_log() does not leave a good state: it leaves no row 0);
   - for arbitrary weights (check_limits=True) after solve() with restore_if_fail,
     reload and tag (after a failing bare step() the restored value x*w is inside
     up to the rounding of the weight scaling). *)
Theorem C10_limits_failure : forall (E : env) (cf : cfg (eF E)), wfc E cf ->
  (c_check cf = true \/ (c_check cf = false /\ unit_laws E cf)) -> forall fuel o s e s',
  good E cf s -> run_op E cf fuel o s = Err e s' ->
  Forall (row_ok E cf) (log s') /\
  (restoring E cf o \/ (unit_laws E cf /\ keeps_log o) -> good E cf s').
Proof.
  intros E cf Hc Hk fuel o s e s' Hg Ho. pose proof (run_op_good E cf Hc Hk fuel o s Hg) as P. rewrite Ho in P. exact P.
Qed.
Print Assumptions C10_limits_failure.

(* all sequences of operations; for unit weights every failing operation except
   clear_log may occur, otherwise only the restoring ones *)
Theorem C10_limits_sequences_partial : forall (E : env) (cf : cfg (eF E)), wfc E cf ->
  (c_check cf = true \/ (c_check cf = false /\ unit_laws E cf)) -> forall s0 s,
  good E cf s0 -> reach_r E cf s0 s -> good E cf s.
Proof. exact reach_good. Qed.
Print Assumptions C10_limits_sequences_partial.

(* ---- max_step (exact arithmetic) ------------------------------------------------------
   What _clip_to_max_steps guarantees after the fix: every entry with a max_step
   ends with |step_i| <= max_step_i / weight_i, although the loop rescales the whole
   vector once per offending entry.  Needs exact-field facts (hypotheses 2 and 3;
   floating point adds one rounding of (m/|s|)*s) and max_step_i/weight_i >= 0. *)
Theorem C10_max_step_exact_partial : forall (E : env),
  (forall a, e_ltb E a a = false) ->
  (forall l o, e_ltb E l (e_abs E o) = true -> e_ltb E l (e_zero E) = false ->
               e_abs E (e_mul E o (e_div E l (e_abs E o))) = l) ->
  (forall l x o l', e_ltb E l x = true -> e_ltb E l (e_zero E) = false -> e_ltb E l' (e_abs E o) = false ->
                    e_ltb E l' (e_abs E (e_mul E o (e_div E l x))) = false) ->
  forall (cf : cfg (eF E)) xstep,
  (forall i mx w, nth_error (c_maxstep cf) i = Some (Some mx) -> nth_error (c_w cf) i = Some w ->
                  e_ltb E (e_div E mx w) (e_zero E) = false) ->
  forall i mx w o, nth_error (c_maxstep cf) i = Some (Some mx) -> nth_error (c_w cf) i = Some w ->
    nth_error (clip_to_max_steps E cf xstep) i = Some o -> e_ltb E (e_div E mx w) (e_abs E o) = false.
Proof. exact max_step_exact. Qed.
Print Assumptions C10_max_step_exact_partial.

(* max_step = 0 is a bound like any other (not "no max_step"): such a knob is not moved by a
   Jacobian step - the magnitude of its step is not positive *)
Theorem C10_max_step_zero_partial : forall (E : env),
  (forall a, e_ltb E a a = false) ->
  (forall l o, e_ltb E l (e_abs E o) = true -> e_ltb E l (e_zero E) = false ->
               e_abs E (e_mul E o (e_div E l (e_abs E o))) = l) ->
  (forall l x o l', e_ltb E l x = true -> e_ltb E l (e_zero E) = false -> e_ltb E l' (e_abs E o) = false ->
                    e_ltb E l' (e_abs E (e_mul E o (e_div E l x))) = false) ->
  forall (cf : cfg (eF E)) xstep,
  (forall i mx w, nth_error (c_maxstep cf) i = Some (Some mx) -> nth_error (c_w cf) i = Some w ->
                  e_ltb E (e_div E mx w) (e_zero E) = false) ->
  forall i w o, nth_error (c_maxstep cf) i = Some (Some (e_zero E)) -> nth_error (c_w cf) i = Some w ->
    e_div E (e_zero E) w = e_zero E ->
    nth_error (clip_to_max_steps E cf xstep) i = Some o -> e_ltb E (e_zero E) (e_abs E o) = false.
Proof.
  intros E H1 H2 H3 cf xstep Hnn i w o Hm Hw Hd Ho.
  pose proof (max_step_exact E H1 H2 H3 cf xstep Hnn i (e_zero E) w o Hm Hw Ho) as H. rewrite Hd in H. exact H.
Qed.
Print Assumptions C10_max_step_zero_partial.

(* the three exact-arithmetic facts hold in an ordered field (the rationals) *)
Example C10_max_step_hypotheses_satisfiable :
  (forall a, e_ltb qenv a a = false) /\
  (forall l o, e_ltb qenv l (e_abs qenv o) = true -> e_ltb qenv l (e_zero qenv) = false ->
               e_abs qenv (e_mul qenv o (e_div qenv l (e_abs qenv o))) = l) /\
  (forall l x o l', e_ltb qenv l x = true -> e_ltb qenv l (e_zero qenv) = false -> e_ltb qenv l' (e_abs qenv o) = false ->
                    e_ltb qenv l' (e_abs qenv (e_mul qenv o (e_div qenv l x))) = false).
Proof. split; [exact q_irrefl|split; [exact q_clip_self|exact q_clip_others]]. Qed.
Print Assumptions C10_max_step_hypotheses_satisfiable.

(* the case of the defect report: max_step = (1, 5), raw step (10, 10) *)
Example C10_max_step_example :
  map this (clip_to_max_steps qenv (mkCfg [1%Qc; 1%Qc] [None; None] [1%Qc; 1%Qc] [Some 1%Qc; Some (Q2Qc 5)]
                                          [] [] [] [] [] [] 1 true true true [] []) [Q2Qc 10; Q2Qc 10]) = [1%Q; 1%Q].
Proof. vm_compute. reflexivity. Qed.
Print Assumptions C10_max_step_example.

(* max_step = (0, None): the whole step is scaled to zero *)
Example C10_max_step_zero_example :
  map this (clip_to_max_steps qenv (mkCfg [1%Qc; 1%Qc] [None; None] [1%Qc; 1%Qc] [Some 0%Qc; None]
                                          [] [] [] [] [] [] 1 true true true [] []) [Q2Qc 10; Q2Qc 7]) = [0%Q; 0%Q].
Proof. vm_compute. reflexivity. Qed.
Print Assumptions C10_max_step_zero_example.

(* ---- disabled knobs ------------------------------------------------------------------- *)
(* a knob that is disabled while step() runs (persistently or by the call's own
   disable_vary / disable_vary_name arguments) keeps its container value, whether
   step() returns or raises.  [pre_clip E cf s] is s itself with check_limits=True;
   with check_limits=False it is s after _clip_to_limits, which only moves active
   knobs that start outside their limits *)
Theorem C10_inactive_unchanged : forall (E : env) (cf : cfg (eF E)) fuel n take_best a b s s',
  opt_step E cf fuel n take_best a b s = Ok s' ->
  forall i, nth_error (va (pre_flags E cf a s)) i = Some false ->
            nth_error (knobs s') i = nth_error (knobs (pre_clip E cf s)) i.
Proof. exact step_inactive_ok. Qed.
Print Assumptions C10_inactive_unchanged.

Theorem C10_inactive_unchanged_on_error : forall (E : env) (cf : cfg (eF E)) fuel n take_best a b s e s',
  opt_step E cf fuel n take_best a b s = Err e s' ->
  forall i, nth_error (va (pre_flags E cf a s)) i = Some false ->
            nth_error (knobs s') i = nth_error (knobs (pre_clip E cf s)) i.
Proof. exact step_inactive_err. Qed.
Print Assumptions C10_inactive_unchanged_on_error.

Theorem C10_inactive_unchanged_solve : forall (E : env) (cf : cfg (eF E)) fuel n take_best b s s',
  solve E cf fuel n take_best b s = Ok s' ->
  forall i, nth_error (va s) i = Some false -> nth_error (knobs s') i = nth_error (knobs s) i.
Proof. exact solve_inactive_ok. Qed.
Print Assumptions C10_inactive_unchanged_solve.

(* ---- a disabled target has no influence ------------------------------------------------
   Two runs whose user functions f1, f2 differ at most in component j (agree_off).
   [stR j]: the two states are equal in everything that controls the optimizer
   (containers, flags, solver x, masks, penalties, every logged knob vector and
   penalty) and may differ only at index j of last_res_values /
   last_targets_within_tol / the logged target columns.  If target j is disabled
   while the operation runs ([quiet]) and in every logged row ([rows_off]), the
   two runs stay related: same outcome, same steps.  The model includes
   Target(optimize_log=True): an ACTIVE optimize_log target enters the penalty as
   log10(res) - log10(value) (numpy.log10 is an oracle), a disabled one is zeroed
   like any other disabled target - also in the assertion "res > 0". *)
Theorem C10_disabled_target_noninterference :
  forall (E : env) (cf : cfg (eF E)) (f1 f2 : list (eF E) -> option (list (eF E))) (j : nat),
  (forall k, match f1 k, f2 k with
             | Some a, Some b => agree_off j a b
             | None, None => True
             | _, _ => False
             end) ->
  forall fuel o s1 s2,
  stR E j s1 s2 -> rows_off E j s1 -> quiet E cf f1 j o s1 ->
  resR E j (stRl E j) (run_op (with_f E f1) cf fuel o s1) (run_op (with_f E f2) cf fuel o s2).
Proof. exact run_op_R. Qed.
Print Assumptions C10_disabled_target_noninterference.

(* ---- temporary arguments ----------------------------------------------------------------
   step(disable_target=dt, disable_vary=dv, disable_vary_name=dvn) given as lists of
   indices / tags / names and returning normally: every knob and target they name
   is active afterwards, every other flag is what it was. *)
Theorem C10_temporary_restored : forall (E : env) (cf : cfg (eF E)) fuel n take_best dt dv dvn b s s',
  list_sel dt -> list_sel dv -> list_sel dvn ->
  opt_step E cf fuel n take_best (mkArgs None None None dt dv dvn) b s = Ok s' ->
  (forall i f0, nth_error (va s) i = Some f0 ->
     nth_error (va s') i = Some (if hits_opt E (c_vtag cf) dv i || hits_opt E (c_vname cf) dvn i then true else f0)) /\
  (forall i f0, nth_error (ta s) i = Some f0 ->
     nth_error (ta s') i = Some (if hits_opt E (c_ttag cf) dt i then true else f0)).
Proof. exact temporary_restored. Qed.
Print Assumptions C10_temporary_restored.

(* ---- string selectors ----------------------------------------------------------------------
   A string entry of enable()/disable() and of step()'s enable_*/disable_* arguments is a
   regular expression matched with re.fullmatch against the TAG (`target`, `vary`) or the NAME
   (`vary_name`) of each element; [e_match E pattern string] is that verdict (an oracle
   computed independently by the harness), [hits E attr l i] says whether entry list l names
   position i (an integer entry names its index, a string entry every position whose
   attribute fully matches).  Applying a list selector changes exactly the positions it
   names; C10_inactive_unchanged and C10_temporary_restored above are stated over the flags
   computed through this selector layer. *)
Theorem C10_selection_full_match : forall (E : env) attr st l flags i b,
  nth_error flags i = Some b ->
  nth_error (set_flags E attr st (Some (SList l)) flags) i = Some (if hits E attr l i then st else b).
Proof. intros E attr st l. exact (set_flags_list E attr st l). Qed.
Print Assumptions C10_selection_full_match.

(* ---- non-vacuity ------------------------------------------------------------------------- *)
Definition xenv : env :=
  mkEnv Qc 0%Qc 1%Qc (Q2Qc (1 # 2)) Qcplus Qcminus Qcmult Qcdiv qabs qltb (fun a b => negb (qltb b a))
        0%Qc (Q2Qc 10) (Q2Qc 100) 0%Qc (Q2Qc (-1000)) (Q2Qc 1000)
        (fun k => Some (k ++ k)) (fun y => fold_right (fun a acc => (a * a + acc)%Qc) 0%Qc y)
        (fun m y => Some (map (fun _ => 1%Qc) m)) (fun j _ _ _ _ => j) (fun x => x) N.eqb.
(* one knob limited below only, limits = (-3, None), with max_step 1/2, two targets *)
Definition xcfg : cfg Qc :=
  mkCfg [1%Qc] [Some (Some (Q2Qc (-3)), None)] [1%Qc] [Some (Q2Qc (1 # 2))] [0%N] [0%N]
        [Q2Qc 2; Q2Qc 2] [Q2Qc (1 # 10); Q2Qc (1 # 10)] [1%Qc; 1%Qc] [0%N; 0%N] 3 true true true [] [].

Example C10_unit_laws_satisfiable : unit_laws xenv xcfg.
Proof.
  unfold unit_laws. cbn. split; [repeat constructor|]. split; [intros x; ring|]. split; [intros x; field; discriminate|intros x; ring].
Qed.
Print Assumptions C10_unit_laws_satisfiable.

Example C10_good_satisfiable :
  wfc xenv xcfg /\
  match init xenv xcfg [0%Qc] [true] with
  | Ok s0 => lims_ok xenv (c_lim xcfg) (knobs s0) /\
             match opt_step xenv xcfg 50 2 true (mkArgs None None None (Some (SList [EIdx 1])) None None) BroOff s0 with
             | Ok s1 => length (log s1) = 5%nat /\ ta s1 = [true; true]
             | _ => False
             end
  | _ => False
  end.
Proof. vm_compute. repeat split. Qed.
Print Assumptions C10_good_satisfiable.
