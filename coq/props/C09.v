(* C09 — solve() returns only on a matched point and otherwise restores the knobs.
   Model: model/Opt.v (state machine mirroring optimize.py / jacobian.py, driven
   by the oracles of an environment E: carrier and element-wise operations, the
   user's function e_f, the norm e_pen, the least-squares solve e_newton, the
   Broyden update).  Every theorem holds for every E and every configuration. *)
From Coq Require Import List Bool NArith ZArith QArith Qcanon.
From XD Require Import model.Opt proofs.OptBase proofs.OptInner proofs.OptOuter proofs.OptThm proofs.OptHist proofs.OptClipQc.
Import ListNotations.

(* [within_tol E cf act r]: every target i with act_i = true has |transform_i(r_i) - value_i| < tol_i
   (transform_i = the target's duck-typed `transform` hook, the identity when it has none).
   [evaluating o]: o is tag / clear_log / reload / solve / step without temporary
   enable/disable arguments (the operations that end on a merit evaluation). *)

(* After every such operation that returns normally, from ANY state: the flag
   last_point_within_tol, when set, describes the point now in the containers
   -- the user's function evaluated there is last_res_values and every active
   target is within its tolerance.  (The finite-difference evaluations inside
   get_jacobian also set the flag; it is re-established before it is read.) *)
Theorem C09_flag_invariant : forall (E : env) (cf : cfg (eF E)) fuel o s s',
  run_op E cf fuel o s = Ok s' -> evaluating o -> lpwt s' = true ->
  exists r, e_f E (knobs s') = Some r /\ lres s' = r /\ within_tol E cf (ta s') r.
Proof. exact flag_invariant. Qed.
Print Assumptions C09_flag_invariant.

(* solve() returning normally with assert_within_tol: the user's function,
   re-evaluated at the knob values left in the containers, has every active
   target within its tolerance. *)
Theorem C09_success : forall (E : env) (cf : cfg (eF E)) fuel n take_best b s s',
  solve E cf fuel n take_best b s = Ok s' -> c_assert cf = true ->
  exists r, e_f E (knobs s') = Some r /\ within_tol E cf (ta s') r.
Proof. exact solve_success. Qed.
Print Assumptions C09_success.

(* in particular a residual that is not below its tolerance -- a NaN residual
   (sin(x)/x at 0, sqrt or log outside the domain) or a NaN tolerance (tol=None):
   every comparison with NaN is false -- is never accepted: solve() cannot return
   normally with such an active target at the knobs it leaves *)
Theorem C09_undefined_residual_not_accepted : forall (E : env) (cf : cfg (eF E)) fuel n take_best b s s' r i ri v t,
  solve E cf fuel n take_best b s = Ok s' -> c_assert cf = true ->
  e_f E (knobs s') = Some r -> nth_error (ta s') i = Some true -> nth_error r i = Some ri ->
  nth_error (c_tval cf) i = Some v -> nth_error (c_tol cf) i = Some t ->
  e_ltb E (e_abs E (e_sub E (apply_tr E (tr_at E cf i) ri) v)) t = false -> False.
Proof.
  intros E cf fuel n tb b s s' r i ri v t Hs Ha Hf Hi Hr Hv Ht Hn.
  destruct (solve_success E cf fuel n tb b s s' Hs Ha) as (r' & Hf' & Hw).
  rewrite Hf in Hf'. inversion Hf'; subst r'. rewrite (Hw i ri v t Hi Hr Hv Ht) in Hn. discriminate.
Qed.
Print Assumptions C09_undefined_residual_not_accepted.

(* Reconfiguration between calls.  The configuration (tolerances, target values,
   weights, limits, max_step, optimize_log ...) is an explicit argument of every
   operation of the model and the state keeps no copy of it.  [run_hist E fuel h s0]
   is the state after a history h of (configuration, operation) pairs.  Whatever
   configurations the earlier calls ran with, solve() returning normally means
   "within the tolerances current at THIS call" ... *)
Theorem C09_success_after_any_history : forall (E : env) fuel (h : list (cfg (eF E) * op)) s0 c n take_best b s',
  solve E c fuel n take_best b (run_hist E fuel h s0) = Ok s' -> c_assert c = true ->
  exists r, e_f E (knobs s') = Some r /\ within_tol E c (ta s') r.
Proof. exact success_after_history. Qed.
Print Assumptions C09_success_after_any_history.

(* ... and the outcome of a call depends on the history only through the state reached *)
Theorem C09_outcome_depends_on_current_config_only : forall (E : env) fuel h1 h2 s1 s2 c o,
  run_hist E fuel h1 s1 = run_hist E fuel h2 s2 ->
  run_op E c fuel o (run_hist E fuel h1 s1) = run_op E c fuel o (run_hist E fuel h2 s2).
Proof. exact outcome_local. Qed.
Print Assumptions C09_outcome_depends_on_current_config_only.

(* solve() raising (any exception: not within tolerance, limit violation, the
   user's action, LinAlgError, assertion) with restore_if_fail: the active flags
   are those of row 0 of the log and every knob is row 0's value or its weight
   round trip (k/w)*w  (rt_rel) -- the evaluation inside reload(0) writes
   x*w with x = k/w. *)
Theorem C09_failure_restores : forall (E : env) (cf : cfg (eF E)) fuel n take_best b s e s' r0 rest,
  solve E cf fuel n take_best b s = Err e s' -> c_restore cf = true -> log s = r0 :: rest ->
  va s' = r_va r0 /\ ta s' = r_ta r0 /\ rt_rel E (c_w cf) (r_knobs r0) (knobs s').
Proof. exact solve_failure_restores. Qed.
Print Assumptions C09_failure_restores.

(* ... hence bit-exact for unit weights (x/1*1 = x holds for IEEE doubles) *)
Theorem C09_failure_restores_unit : forall (E : env) (cf : cfg (eF E)) fuel n take_best b s e s' r0 rest,
  (forall x, e_mul E (e_div E x (e_one E)) (e_one E) = x) -> Forall (fun w => w = e_one E) (c_w cf) ->
  solve E cf fuel n take_best b s = Err e s' -> c_restore cf = true -> log s = r0 :: rest ->
  va s' = r_va r0 /\ ta s' = r_ta r0 /\ knobs s' = r_knobs r0.
Proof. exact solve_failure_restores_unit. Qed.
Print Assumptions C09_failure_restores_unit.

(* ---- non-vacuity: a concrete environment (rationals, identity user function,
   squared norm, a least-squares oracle that returns no step) in which solve()
   returns normally from a constructed optimizer, and one in which it raises
   RuntimeError and restores ---------------------------------------------------- *)
Definition xenv : env :=
  mkEnv Qc 0%Qc 1%Qc (Q2Qc (1 # 2)) Qcplus Qcminus Qcmult Qcdiv qabs qltb (fun a b => negb (qltb b a))
        0%Qc (Q2Qc 10) (Q2Qc 100) 0%Qc (Q2Qc (-1000)) (Q2Qc 1000)
        (fun k => Some k) (fun y => fold_right (fun a acc => (a * a + acc)%Qc) 0%Qc y)
        (fun _ _ => Some []) (fun j _ _ _ _ => j) (fun x => x) N.eqb.
Definition xcfg (target : Qc) : cfg Qc :=
  mkCfg [1%Qc] [None] [1%Qc] [None] [0%N] [0%N] [target] [1%Qc] [1%Qc] [0%N] 2 true true true [] [].

Example C09_success_satisfiable :
  match bind (init xenv (xcfg 0%Qc) [0%Qc] [true]) (fun s0 => solve xenv (xcfg 0%Qc) 50 None true BroOff s0) with
  | Ok _ => True | _ => False end.
Proof. vm_compute. exact I. Qed.
Print Assumptions C09_success_satisfiable.

Example C09_failure_satisfiable :
  match bind (init xenv (xcfg (Q2Qc 5)) [0%Qc] [true]) (fun s0 => solve xenv (xcfg (Q2Qc 5)) 50 None true BroOff s0) with
  | Err ERuntime s' => log s' <> [] | _ => False end.
Proof. vm_compute. discriminate. Qed.
Print Assumptions C09_failure_satisfiable.

Example C09_unit_law_satisfiable : forall x : Qc, e_mul xenv (e_div xenv x (e_one xenv)) (e_one xenv) = x.
Proof. intros x. cbn. field. discriminate. Qed.
Print Assumptions C09_unit_law_satisfiable.
