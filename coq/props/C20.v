(* C20 — results do not depend on the build (compiled or pure Python) or the hash seed.
   Hash-seed half: every model that iterates a Python set takes the iteration order
   from an oracle; the theorems below (and C02, C03, C08) are quantified over it.
   Build half: no Gallina model of Cython's code generation exists — validated by
   running the same programs on both builds (tools/checks/C20.py), not proved. *)
From Coq Require Import List Bool Arith ZArith NArith Lia Permutation.
From XD Require Import lib.ListAux lib.Toposort model.Manager model.ManagerData
  proofs.ManagerIdx proofs.ManagerInv proofs.ManagerHist proofs.ManagerTrace proofs.ManagerDataInv
  proofs.Store proofs.ManagerC01 proofs.ManagerFault proofs.ManagerDefs.
Import ListNotations.
Local Open Scope nat_scope.

(* one assignment executed under two different sets of iteration orders (of the new
   task's dependencies/targets, of the assigned reference's dependencies, of the start
   set) and even on different data: same definitions, same dumped text *)
Theorem C20_defs_assign_indep : forall (m1 m2 : dmgr) s1 s2 r v1 v2 sd1 so1 sd2 so2,
  Inv path_eqb m1 -> Inv path_eqb m2 -> vsrc_wf v1 -> vsrc_wf v2 -> same_assign v1 v2 ->
  defs m1 = defs m2 -> m_frozen m1 = m_frozen m2 ->
  let ma := fst (fst (set_value m1 s1 r v1 sd1 so1)) in
  let mb := fst (fst (set_value m2 s2 r v2 sd2 so2)) in
  defs ma = defs mb /\ dump ma = dump mb /\ m_frozen ma = m_frozen mb /\ Inv path_eqb ma /\ Inv path_eqb mb.
Proof. exact defs_assign_indep. Qed.

(* dump() lists the definitions in insertion order of the task dictionary; over any
   history of assignments it is independent of every set iteration order *)
Theorem C20_dump_deterministic : forall ops1 ops2, assigns_related ops1 ops2 ->
  forall (m1 m2 : dmgr) s1 s2, Inv path_eqb m1 -> Inv path_eqb m2 -> defs m1 = defs m2 -> m_frozen m1 = m_frozen m2 ->
  dump (fst (final_mgr m1 s1 ops1)) = dump (fst (final_mgr m2 s2 ops2)) /\
  defs (fst (final_mgr m1 s1 ops1)) = defs (fst (final_mgr m2 s2 ops2)).
Proof. exact dump_history_indep. Qed.

(* the set of tasks an assignment runs does not depend on the iteration order of the
   start set (two accepted orders of the same start set give permutations) *)
Theorem C20_triggered_set_seed_independent : forall (m : dmgr) sd order1 order2 L1 L2 m1 m2,
  Inv path_eqb m ->
  find_taskids path_eqb m sd order1 = Ok (L1, m1) -> find_taskids path_eqb m sd order2 = Ok (L2, m2) ->
  Permutation L1 L2.
Proof.
  intros m sd o1 o2 L1 L2 m1 m2 HI E1 E2.
  destruct (find_taskids_spec path_eqb path_eqb_spec m sd o1 L1 m1 HI E1) as (N1 & T1 & _).
  destruct (find_taskids_spec path_eqb path_eqb_spec m sd o2 L2 m2 HI E2) as (N2 & T2 & _).
  apply NoDup_Permutation; auto. intros x. now rewrite T1, T2.
Qed.

(* the index counts reached by two histories with the same surviving definitions agree
   (C03), whatever orders were used on the way *)
Theorem C20_indices_seed_independent : forall (m1 m2 : dmgr),
  Inv path_eqb m1 -> Inv path_eqb m2 -> Permutation (m_tasks m1) (m_tasks m2) ->
  (forall d t, icount path_eqb (m_rdeps m1) d t = icount path_eqb (m_rdeps m2) d t) /\
  (forall d a, icount path_eqb (m_deptasks m1) d a = icount path_eqb (m_deptasks m2) d a) /\
  (forall t a, icount path_eqb (m_tartasks m1) t a = icount path_eqb (m_tartasks m2) t a) /\
  (forall a b, icount path_eqb (m_rtasks m1) a b = icount path_eqb (m_rtasks m2) a b).
Proof. exact (history_independent path_eqb path_eqb_spec). Qed.

(* non-vacuity: the two runs of C01's nested-sibling history that differ in one start
   order have the same dump although their data differ *)
Example C20_nonvacuous :
  let k := 1%N in let a := 2%N in let b := 3%N in
  let st := mkD (Dict [(k, Dict [(a, Leaf 1); (b, Leaf 0)])]) [] None in
  let o1 := [MSet [k; b] (SExpr (EBin BMul (ERef [k; a]) (EConst 2)) [[k; a]] [[k; b]]) [[k; b]] []] in
  let o2 := [MSet [k; b] (SExpr (EBin BMul (ERef [k; a]) (EConst 2)) [[k; a]] [[k; b]]) [[k; b]] [[k; b]]] in
  assigns_related o1 o2 /\
  dump (fst (final_mgr empty_mgr st o1)) = [([k; b], EBin BMul (ERef [k; a]) (EConst 2))] /\
  o_err (snd (step empty_mgr st (hd MFreeze o2))) = Some EOracle.
Proof.
  cbv zeta. split; [|split; vm_compute; reflexivity].
  constructor; cbn; try (split; repeat constructor; cbn; intuition discriminate); auto. constructor.
Qed.

Print Assumptions C20_defs_assign_indep.
Print Assumptions C20_dump_deterministic.
Print Assumptions C20_triggered_set_seed_independent.
Print Assumptions C20_indices_seed_independent.
Print Assumptions C20_nonvacuous.
