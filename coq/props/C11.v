(* C11 — printed expressions rebuild themselves; dump / load / copy_expr_from
   are faithful.  Statements only; proofs in proofs/RefsPrintProofs.v (generic)
   and proofs/RefsPrintEqs.v (obligations re-checked against the tables
   regenerated from xdeps/refs.py).

   Token level: [show_tokens] interprets repr_tpl; [parse ns fuel] is the model
   of Python's eval in the namespace [ns] (grammar of the printed sub-language
   with Python's precedence of unary minus against **, operator dispatch
   through the regenerated dunder tables).  The character/token boundary is
   validated against Python's tokenize by tools/checks/C11.py.

   [wf ns e]: e is built from references bound in ns, numeric constants of
   either sign, every arithmetic / bitwise / shift / comparison operator class,
   the deferred comparisons EqExpr / NeExpr built by ref._eq(x) / ref._neq(x),
   unary operators, abs / round(x[, n]) / divmod / math.floor / ceil / trunc,
   attribute and item access (string, numeric or computed keys) and calls with
   positional and keyword arguments, nested at will.  Not in wf (and not built
   by any operator of the API): LiteralExpr, string operands of operators,
   private attribute names.  _partial: token level (the lexical layer is
   validated against Python's tokenize, not proved). *)
From Coq Require Import List Bool Arith ZArith NArith String.
From XD Require Import model.RefSyntax model.ReprSyntax gen.GenRefsRepr lib.PyStr model.RefsShow model.RefsPrint
  proofs.RefsPrintEqs proofs.RefsPrintProofs.
Import ListNotations.
Open Scope N_scope.

(* eval(str(e)) in the namespace of the manager rebuilds e itself, for every
   node class (EqExpr / NeExpr included).  _partial: token level only. *)
Theorem C11_parse_show_partial : forall (kind : pystr -> bool) (e : term) (fuel : nat),
  wf (id_ns kind) e = true -> kinds_okb kind e = true -> (fuel > tsize e)%nat ->
  parse (id_ns kind) fuel (show_tokens e) = Some e.
Proof. exact parse_show. Qed.
Print Assumptions C11_parse_show_partial.

(* in a namespace that rebinds the labels (to nested references, to other
   containers) the same text rebuilds e with the labels substituted *)
Theorem C11_parse_show_rebound_partial : forall (ns : pystr -> option term) (e : term) (fuel : nat),
  wf ns e = true -> (fuel > tsize e)%nat ->
  parse ns fuel (show_tokens e) = Some (subst ns e).
Proof. exact parse_show_subst. Qed.
Print Assumptions C11_parse_show_rebound_partial.

(* hence value and dependencies -- any functions of the expression -- are preserved *)
Theorem C11_value_deps_preserved : forall (V D : Type) (value : term -> V) (deps : term -> D)
  (kind : pystr -> bool) (e e' : term) (fuel : nat),
  wf (id_ns kind) e = true -> kinds_okb kind e = true -> (fuel > tsize e)%nat ->
  parse (id_ns kind) fuel (show_tokens e) = Some e' ->
  e' = e /\ value e' = value e /\ deps e' = deps e.
Proof.
  intros V D value deps kind e e' fuel Hw Hk Hf Hp.
  rewrite (parse_show kind e fuel Hw Hk Hf) in Hp. injection Hp as <-. auto.
Qed.
Print Assumptions C11_value_deps_preserved.

(* Loading a dump into a fresh manager over equivalent containers yields the
   same list of (target, expression) definitions, with either overwrite flag.
   [fresh_targets [] m]: the targets of a manager's tasks are pairwise unequal
   (they are the keys of one dict). *)
Theorem C11_load_dump : forall (kind : pystr -> bool) (fuel : nat) (overwrite : bool) (m : list taskdef),
  forallb (wf_task (id_ns kind) fuel) m = true ->
  forallb (fun d => kinds_okb kind (fst d) && kinds_okb kind (snd d)) m = true ->
  fresh_targets [] m = true ->
  load (id_ns kind) fuel overwrite (dump m) [] = Some m.
Proof.
  intros kind fuel ow m Hw Hk Hf. rewrite load_dump_spec by assumption.
  assert (E : map (subpair (id_ns kind)) m = m).
  { clear - Hk. induction m as [|[t e] m IH]; [reflexivity|]. cbn in Hk.
    apply andb_true_iff in Hk as [Hd Hm]. apply andb_true_iff in Hd as [Ht He].
    cbn [map]. rewrite IH by assumption. unfold subpair. cbn [fst snd]. rewrite !subst_id by assumption. reflexivity. }
  rewrite E. rewrite merge_fresh by assumption. reflexivity.
Qed.
Print Assumptions C11_load_dump.

(* copy_expr_from = load of the printed tasks of the source container ([sel], in
   whatever order iter_expr_tasks_owner yields them) in a namespace [ns] that
   rebinds labels: the result is the destination merged with the rebound
   definitions; with overwrite=False every existing definition is kept, in
   place, and only definitions of new targets are added. *)
Theorem C11_copy_expr_from : forall (ns : pystr -> option term) (fuel : nat) (overwrite : bool)
  (sel dst : list taskdef),
  forallb (wf_task ns fuel) sel = true ->
  load ns fuel overwrite (dump sel) dst = Some (merge overwrite dst (map (subpair ns) sel)) /\
  (overwrite = false ->
   exists extra, merge overwrite dst (map (subpair ns) sel) = dst ++ extra /\
                 forall d, In d extra -> In d (map (subpair ns) sel) /\ has_task dst (fst d) = false) /\
  (fresh_targets dst (map (subpair ns) sel) = true ->
   merge overwrite dst (map (subpair ns) sel) = dst ++ map (subpair ns) sel).
Proof.
  intros ns fuel ow sel dst Hw. split; [apply load_dump_spec; assumption|]. split.
  - intros ->. apply merge_keep.
  - apply merge_fresh.
Qed.
Print Assumptions C11_copy_expr_from.

(* Repeated use of one target manager.  Every operation (load of a dump,
   copy_expr_from with or without bindings, assignment) returns a state whose
   label -> container map is the one it started from: a rebinding lives in the
   evaluation namespace of that one copy only. *)
Theorem C11_copy_expr_from_containers_frame : forall (fuel : nat) (st st' : mstate) (op : mop),
  mstep fuel st op = Some st' -> ms_containers st' = ms_containers st.
Proof. intros fuel st st' op H. exact (mstep_containers fuel st op st' H). Qed.
Print Assumptions C11_copy_expr_from_containers_frame.

(* Hence after any history of such operations the definitions are those obtained
   by evaluating every printed text against the ORIGINAL containers [cs] (plus
   the bindings of that very copy): a later load / copy is not affected by an
   earlier rebinding. *)
Theorem C11_history_partial : forall (cs : list (pystr * term)) (fuel : nat) (ops : list mop) (ts : list taskdef),
  forallb (op_wf cs fuel) ops = true ->
  mrun fuel {| ms_containers := cs; ms_tasks := ts |} ops =
  Some (map (fun t => {| ms_containers := cs; ms_tasks := t |}) (spec_run cs ts ops)).
Proof. intros; apply mrun_spec; assumption. Qed.
Print Assumptions C11_history_partial.

(* the seeded shape: copy with a -> b['inner'], then a plain copy of the same
   definitions: the second copy defines c['p'] over a, not over b['inner'] *)
Example C11_history_nonvacuous : exists mul,
  find (fun c => match op_str c with Some t => pystr_eqb t (s2p "*") | None => false end) bin_classes = Some mul /\
  let top l := TTop (s2p l) false in
  let it o k := TItem o (TConst (LStr (s2p k))) in
  let cs := [(s2p "a", top "a"); (s2p "b", top "b"); (s2p "c", top "c")]%string in
  let src := [(it (top "c") "p", TBin mul (it (top "a") "x") (TConst (LInt 2)))]%string in
  let ops := [MCopy true src [(s2p "a", it (top "b") "inner")]; MCopy true src []]%string in
  forallb (op_wf cs 20) ops = true /\
  option_map (map ms_tasks) (mrun 20 {| ms_containers := cs; ms_tasks := [] |} ops) =
  Some [ [(it (top "c") "p", TBin mul (it (it (top "b") "inner") "x") (TConst (LInt 2)))];
         [(it (top "c") "p", TBin mul (it (top "a") "x") (TConst (LInt 2)))] ]%string.
Proof. eexists. split; [vm_compute; reflexivity|]. cbv zeta. split; vm_compute; reflexivity. Qed.
Print Assumptions C11_history_nonvacuous.

(* copy_expr_from takes from the source manager exactly the ExprTasks whose
   target is rooted in the requested container (identity of the container =
   its label), in dict order, whatever else the source manager controls; the
   container objects themselves (their type, their ==) do not enter. *)
Theorem C11_copy_selects_root_label : forall (name : pystr) (tasks : list taskdef) (d : taskdef),
  In d (select_owner name tasks) <-> In d tasks /\ root_label (fst d) = Some name.
Proof. exact select_owner_spec. Qed.
Print Assumptions C11_copy_selects_root_label.

Theorem C11_copy_expr_from_selected_partial : forall (cs : list (pystr * term)) (fuel : nat) (ts src : list taskdef)
  (name : pystr) (binds : list (pystr * term)) (overwrite : bool),
  forallb (wf_task (ns_with cs binds) fuel) (select_owner name src) = true ->
  copy_expr_from fuel {| ms_containers := cs; ms_tasks := ts |} src name binds overwrite =
  Some {| ms_containers := cs;
          ms_tasks := merge overwrite ts (map (subpair (ns_with cs binds)) (select_owner name src)) |}.
Proof. exact copy_expr_from_spec. Qed.
Print Assumptions C11_copy_expr_from_selected_partial.

(* a source with definitions in three containers: asking for v takes v[1] only,
   the definition that is not even well formed for the target is never looked at *)
Example C11_select_nonvacuous : exists add,
  find (fun c => match op_str c with Some t => pystr_eqb t (s2p "+") | None => false end) bin_classes = Some add /\
  let top l := TTop (s2p l) false in
  let src := [(TItem (top "c") (TConst (LStr (s2p "b"))), TBin add (TItem (top "c") (TConst (LStr (s2p "a")))) (TConst (LInt 3)));
              (TItem (top "v") (TConst (LInt 1)), TBin add (TItem (top "c") (TConst (LStr (s2p "a")))) (TConst (LInt 1)));
              (TAttr (top "ob") (TConst (LStr (s2p "k"))), TLiteral (LInt 0))]%string in
  let cs := [(s2p "c", top "c"); (s2p "v", top "v"); (s2p "ob", top "ob")]%string in
  select_owner (s2p "v") src = [(TItem (top "v") (TConst (LInt 1)), TBin add (TItem (top "c") (TConst (LStr (s2p "a")))) (TConst (LInt 1)))]%string /\
  option_map ms_tasks (copy_expr_from 20 {| ms_containers := cs; ms_tasks := [] |} src (s2p "v") [] true) =
  Some [(TItem (top "v") (TConst (LInt 1)), TBin add (TItem (top "c") (TConst (LStr (s2p "a")))) (TConst (LInt 1)))]%string.
Proof. eexists. split; [vm_compute; reflexivity|]. cbv zeta. split; vm_compute; reflexivity. Qed.
Print Assumptions C11_select_nonvacuous.

(* The deferred comparisons round trip: a['x']._eq(a['y'] + 1) prints as
   (a['x'])._eq((a['y'] + 1)), which rebuilds it (fix 9341d34; before it the
   text was (a['x'] == ...), which Python evaluates to a bool: second part). *)
Definition eq_class : option N :=
  find (fun c => match op_str c with Some s => pystr_eqb s (s2p "==") | None => false end) bin_classes.
Definition ne_class : option N :=
  find (fun c => match op_str c with Some s => pystr_eqb s (s2p "!=") | None => false end) bin_classes.

Theorem C11_eq_expr_roundtrip : exists ceq cne add, eq_class = Some ceq /\ ne_class = Some cne /\
  find (fun c => match op_str c with Some t => pystr_eqb t (s2p "+") | None => false end) bin_classes = Some add /\
  let kind := fun _ : pystr => false in
  let a := TItem (TTop (s2p "a") false) (TConst (LStr (s2p "x"))) in
  let b := TItem (TTop (s2p "a") false) (TConst (LStr (s2p "y"))) in
  let e := TBin cne (TBin ceq a (TBin add b (TConst (LInt 1)))) (TConst (LFloat 5)) in
  wf (id_ns kind) e = true /\ kinds_okb kind e = true /\
  show_tokens (TBin ceq a b) = [K "("; KName (s2p "a"); K "["; KStr (s2p "x"); K "]"; K ")"; K "."; KName (s2p "_eq"); K "(";
                                KName (s2p "a"); K "["; KStr (s2p "y"); K "]"; K ")"] /\
  parse (id_ns kind) (S (tsize e)) (show_tokens e) = Some e /\
  (* the operator == itself is the identity test of references *)
  parse (id_ns kind) 10 [K "("; KName (s2p "a"); KOp (s2p "=="); KName (s2p "b"); K ")"] = Some (TConst (LBool false)).
Proof.
  eexists _, _, _. split; [reflexivity|]. split; [reflexivity|]. split; [reflexivity|]. cbv zeta.
  repeat split; vm_compute; reflexivity.
Qed.
Print Assumptions C11_eq_expr_roundtrip.

(* With the fix reverted (no parentheses around a negative literal on the left
   of the power operator) the text would be ( - 3 ** a ), which the model of
   Python reads as the negation of 3 ** a. *)
Example C11_python_precedence : exists neg pw,
  op_str neg = Some (s2p "-") /\ op_str pw = Some (s2p "**") /\
  parse (id_ns (fun _ => false)) 10 [K "("; K "-"; KNum (LInt 3); K "**"; KName (s2p "a"); K ")"] =
  Some (TUn neg (TBin pw (TConst (LInt 3)) (TTop (s2p "a") false))).
Proof. eexists _, _. split; [|split]; [| |vm_compute; reflexivity]; reflexivity. Qed.
Print Assumptions C11_python_precedence.

(* ---- non-vacuity: one expression through every node class *)
Definition demo_ns (kind : pystr -> bool) := id_ns kind.
Definition demo_expr : option term :=
  let a := TTop (s2p "a") false in
  let f := TTop (s2p "f") false in
  let o := TTop (s2p "o") true in
  let ax := TItem a (TConst (LStr (s2p "x' ]"))) in
  let cls s := find (fun c => match op_str c with Some t => pystr_eqb t (s2p s) | None => false end)
                    (bin_classes ++ un_classes) in
  match cls "+"%string, cls "**"%string, cls "<"%string, cls "//"%string, cls "~"%string with
  | Some add, Some pw, Some lt, Some fd, Some inv =>
      Some (TBin add
              (TBin pw (TConst (LInt (-3))) (TItem ax (TConst (LInt (-1)))))
              (TCall (TAttr f (TConst (LStr (s2p "sin"))))
                 [TBuiltin 1 (TUn inv (TItem o (TConst (LStr (s2p "k"))))) [TConst (LInt 2)];
                  TConst (LFloat 7);
                  TBuiltin 3 (TBin lt (TItem a ax) (TConst (LFloat 4))) [];
                  TBuiltin 0 (TBin fd (TConst (LInt 5)) (TAttr ax (TConst (LStr (s2p "real"))))) [TBuiltin 5 ax []]]
                 [(s2p "k", TConst (LInt (-2))); (s2p "w", TCall ax [] [])]))
  | _, _, _, _, _ => None
  end.

Example C11_nonvacuous :
  let kind := fun l : pystr => pystr_eqb l (s2p "o") in
  exists e, demo_expr = Some e /\
            wf (id_ns kind) e = true /\ kinds_okb kind e = true /\
            parse (id_ns kind) (S (tsize e)) (show_tokens e) = Some e /\
            (* rebinding a -> b['inner'], o -> c.sub *)
            let ns := fun l : pystr =>
                        if pystr_eqb l (s2p "a") then Some (TItem (TTop (s2p "b") false) (TConst (LStr (s2p "inner"))))
                        else if pystr_eqb l (s2p "o") then Some (TAttr (TTop (s2p "c") false) (TConst (LStr (s2p "sub"))))
                        else Some (TTop l false) in
            wf ns e = true /\ parse ns (S (tsize e)) (show_tokens e) = Some (subst ns e) /\ subst ns e <> e.
Proof.
  cbv zeta. eexists. split; [vm_compute; reflexivity|].
  repeat split; try (vm_compute; reflexivity). vm_compute. discriminate.
Qed.
Print Assumptions C11_nonvacuous.

(* a manager with three definitions meets the hypotheses of C11_load_dump *)
Example C11_load_nonvacuous :
  let kind := fun _ : pystr => false in
  let c k := TItem (TTop (s2p "c") false) (TConst (LStr (s2p k))) in
  let a k := TItem (TTop (s2p "a") false) (TConst (LStr (s2p k))) in
  exists add, find (fun c => match op_str c with Some t => pystr_eqb t (s2p "+") | None => false end) bin_classes = Some add /\
  let m := [(c "p", TBin add (a "x") (TConst (LInt 2))); (c "q", TBuiltin 1 (c "p") [TConst (LInt (-1))]);
            (TItem (c "sub") (TConst (LInt 0)), TBin add (c "q") (a "c['p']"))]%string in
  forallb (wf_task (id_ns kind) 20) m = true /\
  forallb (fun d => kinds_okb kind (fst d) && kinds_okb kind (snd d)) m = true /\
  fresh_targets [] m = true /\
  load (id_ns kind) 20 true (dump m) [] = Some m.
Proof. cbv zeta. eexists. split; [vm_compute; reflexivity|]. repeat split; vm_compute; reflexivity. Qed.
Print Assumptions C11_load_nonvacuous.
