(* C19 — MAD-X expressions mean the same deferred as evaluated immediately.
   Only statements, each closed by [exact] of a lemma of proofs/MadxTables.v /
   proofs/MadxProofs.v, followed by Print Assumptions.

   [callbacks], [eval_cfg], [madx_grammar], [madx_grammar_attr], [ref_tabs],
   [special_methods], [env_cfg] are regenerated from xdeps/madxutils.py and
   xdeps/refs.py on every run (coq/gen/GenMadx.v). *)
From Coq Require Import String List Bool Arith QArith.
From XD Require Import model.MadxSyn model.Madx gen.GenMadx proofs.MadxProofs proofs.MadxTables run.RunMadx.
Import ListNotations.
Open Scope string_scope.

(* Finite table obligation.  The extracted transformer maps add sub mul div pow
   neg pos to Python's + - * / ** unary- unary+ (for every object algebra: plain
   values or references), number to float, var / getitem / getattr / call index
   the variables, elements and function module; both "^" and "**" carry the
   alias pow, the element access alias is getitem, or getattr in attribute
   mode; all rules are inlined, parentheses carry no alias.  The BaseRef dunders
   build the node class whose _get_value applies the same Python operator to the
   operand values in the same order, only true division being guarded
   (ZeroDivisionError -> nan).  MadxEnv builds madexpr over references to the
   containers madeval reads. *)
Theorem C19_callbacks_ok :
  (forall (E X : Type) (stuck : E) (A : algebra E X) (v f e : X),
     let nd := node E X stuck A callbacks eval_cfg [v; f; e] in
     (forall op a b, nd (alias2 op) [AObj a; AObj b] = x_op2 A op a b) /\
     (forall op a, nd (alias1 op) [AObj a] = x_op1 A op a) /\
     (forall tok, nd "number" [ATok tok] = x_float A tok) /\
     (forall n, nd "var" [ATok n] = x_getitem A v n) /\
     (forall el k, nd "getitem" [ATok el; ATok k] = bind (x_getitem A e el) (fun o => x_getitem A o k)) /\
     (forall el k, nd "getattr" [ATok el; ATok k] = bind (x_getitem A e el) (fun o => x_getattr A o k)) /\
     (forall fn args, nd "call" (ATok fn :: map AObj args) = bind (x_getattr A f fn) (fun g => x_call A g args))) /\
  ((forall attr : bool, let g := if attr then madx_grammar_attr else madx_grammar in
     alias_of_shape g (shape_bin "+") = Some "add" /\ alias_of_shape g (shape_bin "-") = Some "sub" /\
     alias_of_shape g (shape_bin "*") = Some "mul" /\ alias_of_shape g (shape_bin "/") = Some "div" /\
     alias_of_shape g (shape_bin "^") = Some "pow" /\ alias_of_shape g (shape_bin "**") = Some "pow" /\
     alias_of_shape g (shape_un "-") = Some "neg" /\ alias_of_shape g (shape_un "+") = Some "pos" /\
     alias_of_shape g shape_number = Some "number" /\ alias_of_shape g shape_name = Some "var" /\
     alias_of_shape g shape_call = Some "call" /\ aliases_of_shape g shape_paren = [None] /\
     forallb gr_inline (g_rules g) = true) /\
   elem_alias false = "getitem" /\ elem_alias true = "getattr") /\
  ((forall op, assoc (dunder2 op false) (rt_dunder_bin ref_tabs) = Some (cls_of op, false) /\
               assoc (dunder2 op true) (rt_dunder_bin ref_tabs) = Some (cls_of op, true) /\
               exists opn, assoc (cls_of op) (rt_class_bin ref_tabs) = Some (opn, pyop2_eqb op OTruediv) /\ ast_op2 opn = Some op) /\
   (forall op, assoc (dunder1 op) (rt_dunder_un ref_tabs) = Some (cls1_of op) /\
               exists opn, assoc (cls1_of op) (rt_class_un ref_tabs) = Some opn /\ ast_op1 opn = Some op) /\
   rt_mk_value_ok ref_tabs = true /\ rt_fields_ok ref_tabs = true) /\
  (* precedence and associativity (rule nesting) are the pinned ones *)
  ((callbacks = expected_callbacks \/ callbacks = expected_callbacks_alt) /\ eval_cfg = expected_cfg /\ ref_tabs = expected_rt /\
   madx_grammar = expected_grammar "getitem" /\ madx_grammar_attr = expected_grammar "getattr" /\
   env_consistent env_cfg = true /\ env_cfg = expected_env).
Proof.
  split; [intros E X stuck A v f e; exact (callbacks_meaning E X stuck A v f e)|].
  exact (conj grammar_meaning (conj refs_meaning tables_pinned)).
Qed.
Print Assumptions C19_callbacks_ok.

Section Statements.
  (* Python's own semantics and the state of the containers: arbitrary *)
  Variables (E V S : Type).
  Variable stuck : E.                                   (* value of the model outside the pinned tables (never produced) *)
  Variable is_zd : E -> bool.                           (* isinstance(e, ZeroDivisionError) *)
  Variable e_attr : E.                                  (* the AttributeError BaseRef.__getattr__ raises on special names *)
  Variable nan : V.
  Variable padd_etc : pyop2 -> V -> V -> res E V.       (* padd psub pmul pdiv ppow *)
  Variable pneg_pos : pyop1 -> V -> res E V.            (* pneg ppos *)
  Variable pfloat : string -> res E V.                  (* float(token) *)
  Variable getitem : S -> V -> string -> res E V.       (* o[k] in a state of the containers *)
  Variable getattr : S -> V -> string -> res E V.       (* getattr(o, k) *)
  Variable fcall : S -> V -> list V -> res E V.         (* f( *args ) *)
  Variables variables functions elements : V.           (* the three containers *)
  Variable attr : bool.                                 (* get="attr" *)

  Let imm := c19_imm E V S stuck padd_etc pneg_pos pfloat getitem getattr fcall variables functions elements attr.
  Let dfr := c19_def E V stuck e_attr padd_etc pneg_pos pfloat attr.
  Let val := c19_value E V S stuck is_zd nan padd_etc pneg_pos getitem getattr fcall variables functions elements.
  Let py := c19_py E V S stuck is_zd nan padd_etc pneg_pos pfloat getitem getattr fcall variables functions elements.

  (* For every parse tree, of any depth, and every state: when the immediate
     evaluator returns a number, the deferred expression evaluates to the same
     number; when it raises something other than ZeroDivisionError, so does the
     deferred path.  Hypothesis not in the property text: no function name (and,
     in attribute mode, no element attribute name) is one of the names of
     refs.special_methods - see C19_special_name_refuted. *)
  Theorem C19_deferred_eq_immediate_partial : forall st t,
    names_ok special_methods attr t = true ->
    match imm st t with
    | Ok v => bind (dfr t) (val st) = Ok v
    | Err e => is_zd e = true \/ exists e', bind (dfr t) (val st) = Err e'
    end.
  Proof. exact (c19_deferred_eq_immediate E V S stuck is_zd e_attr nan padd_etc pneg_pos pfloat getitem getattr fcall variables functions elements attr). Qed.

  (* The deferred expression, built once, keeps agreeing in every later state
     of the containers (the variables changed through the manager). *)
  Theorem C19_tracks_updates_partial : forall t d,
    names_ok special_methods attr t = true -> dfr t = Ok d ->
    forall st', match imm st' t with
                | Ok v => val st' d = Ok v
                | Err e => is_zd e = true \/ exists e', val st' d = Err e'
                end.
  Proof. exact (c19_tracks_updates E V S stuck is_zd e_attr nan padd_etc pneg_pos pfloat getitem getattr fcall variables functions elements attr). Qed.

  (* The only deviation: the deferred value is Python's value of the same
     expression in which a true division with a non-constant operand yields nan
     instead of raising ZeroDivisionError ([py true]); and [py true] equals
     ordinary Python arithmetic [py false] whenever that returns a value. *)
  Theorem C19_zero_division_nan_partial : forall st t,
    names_ok special_methods attr t = true ->
    res_sim (bind (dfr t) (val st)) (py true st (translit attr t)) /\
    (forall v, py false st (translit attr t) = Ok v -> py true st (translit attr t) = Ok v).
  Proof. exact (c19_deferred_nan E V S stuck is_zd e_attr nan padd_etc pneg_pos pfloat getitem getattr fcall variables functions elements attr). Qed.

  (* Fully parenthesised input [p] (operators as written): the tree the
     extracted grammar labels it with evaluates, immediately, to what Python
     computes for the same spelling with ^ read as ** ([to_python]); and so does
     the deferred expression, up to x/0 = nan. *)
  Theorem C19_paren_python : forall st p t,
    parse_paren (if attr then madx_grammar_attr else madx_grammar) (elem_alias attr) p = Some t ->
    exists e, to_python attr p = Some e /\
      res_sim (imm st t) (py false st e) /\
      (names_ok special_methods attr t = true -> res_sim (bind (dfr t) (val st)) (py true st e)).
  Proof. exact (c19_paren_python E V S stuck is_zd e_attr nan padd_etc pneg_pos pfloat getitem getattr fcall variables functions elements attr). Qed.
End Statements.
Print Assumptions C19_deferred_eq_immediate_partial.
Print Assumptions C19_tracks_updates_partial.
Print Assumptions C19_zero_division_nan_partial.
Print Assumptions C19_paren_python.

(* Refutation witness for the unrestricted statement: in attribute mode an
   element attribute whose name is in refs.special_methods is read by the
   immediate evaluator but the deferred evaluator raises AttributeError while
   building the expression (rational instance of run/RunMadx.v). *)
Definition wit_state : rstate :=
  mk_rstate [("a", RNum 2)] false [("q", [("__wrapped__", RNum 3); ("k1", RNum 5)])].

Theorem C19_special_name_refuted :
  names_ok special_methods true (MElem "q" "__wrapped__") = false /\
  run_imm true [] wit_state (MElem "q" "__wrapped__") = Ok (RNum 3) /\
  run_build true [] (MElem "q" "__wrapped__") = Err EOther.
Proof. vm_compute. repeat split; reflexivity. Qed.
Print Assumptions C19_special_name_refuted.

(* Non-vacuity: the hypotheses hold on an expression using every node kind; the
   division by zero shows the stated deviation (immediate raises, deferred is
   nan, then 1 after ** 0) and the value follows a change of the variable. *)
Definition def_values (attr : bool) fl (t : mtree) (sts : list rstate) : list rres :=
  match run_build attr fl t with
  | Ok d => map (fun st => run_value st d) sts
  | Err e => [Err e]
  end.

Example C19_nonvacuous :
  let fl := [("1", 1 # 1); ("2", 2 # 1); ("0", 0 # 1); (".5", 1 # 2)]%Q in
  let t := MAdd (MMul (MVar "a") (MElem "q" "k1")) (MCall "avg" [MNeg (MNumber "2"); MPow (MVar "a") (MNumber "2")]) in
  let z := MPow (MDiv (MNumber "1") (MSub (MVar "a") (MVar "a"))) (MNumber "0") in
  let st2 := mk_rstate [("a", RNum 4)] false [("q", [("k1", RNum 5)])] in
  names_ok special_methods false t = true /\ names_ok special_methods true z = true /\
  run_imm false fl wit_state t = Ok (RNum 11) /\
  def_values false fl t [wit_state; st2] = [Ok (RNum 11); Ok (RNum 27)] /\
  run_imm false fl st2 t = Ok (RNum 27) /\
  run_imm false fl wit_state z = Err EZeroDiv /\
  def_values false fl z [wit_state] = [Ok (RNum 1)] /\
  parse_paren madx_grammar (elem_alias false)
    (PBinary LCaret (PUnary ULMinus (PNumber "2")) (PBinary LStarStar (PName "a") (PNumber ".5")))
  = Some (MPow (MNeg (MNumber "2")) (MPow (MVar "a") (MNumber ".5"))).
Proof. vm_compute. repeat split. Qed.
Print Assumptions C19_nonvacuous.
