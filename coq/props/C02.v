(* C02 — one assignment runs exactly the downstream tasks, once each, in
   dependency order.  Statements only. *)
From Coq Require Import List Bool Arith ZArith NArith Permutation.
From XD Require Import lib.ListAux lib.Toposort model.Manager model.ManagerData
  proofs.ManagerIdx proofs.ManagerInv proofs.ManagerHist proofs.ManagerTrace proofs.ManagerDataInv.
From XD Require Import model.TasksSem model.TasksSemData gen.GenTasks gen.GenTasksData proofs.TasksSrc proofs.TasksSrcData lib.ToposortIter gen.GenSorting proofs.TasksSrcSorting.
Import ListNotations.
Local Open Scope nat_scope.

(* sorting.toposort/_dfs, on every graph (cyclic or not) and every start list:
   with fuel above the size of the universe the search never runs out of fuel —
   the result is duplicate-free, is exactly the set reachable from the start
   list, and u comes before v for every edge u -> v unless v reaches u *)
Theorem C02_toposort : forall (K : Type) (eqb : K -> K -> bool),
  (forall a b, eqb a b = true <-> a = b) ->
  forall (g : K -> list K) (univ : list K),
  (forall u v, In u univ -> In v (g u) -> In v univ) ->
  forall fuel start, incl start univ -> length univ < fuel ->
  let L := toposort eqb g fuel start in
  NoDup L /\
  (forall w, In w L <-> exists r, In r start /\ reach g r w) /\
  (forall u v, In u L -> In v (g u) -> before u v L \/ reach g v u).
Proof. exact @toposort_correct. Qed.

(* find_taskids on a manager satisfying the index invariant, for EVERY iteration
   order of the start set (any list accepted as a permutation of it):
   Triggered = tasks having a start location among their dependencies, closed
   under "a target of A is a dependency of B" (defined from the public task
   attributes only) *)
Theorem C02_find_taskids : forall (K A : Type) (eqb : K -> K -> bool),
  (forall a b, eqb a b = true <-> a = b) ->
  forall (m : @mgr K A) sd order L m',
  Inv eqb m -> find_taskids eqb m sd order = Ok (L, m') ->
  NoDup L /\
  (forall w, In w L <-> Triggered eqb (m_tasks m) sd w) /\
  (forall u v, In u L -> edge eqb (m_tasks m) u v -> before u v L \/ clos (edge eqb (m_tasks m)) v u) /\
  Inv eqb m' /\ m_tasks m' = m_tasks m /\ m_frozen m' = m_frozen m /\ m_rtasks m' = m_rtasks m.
Proof. exact @find_taskids_spec. Qed.

(* one assignment: the run trace is exactly the triggered set, once each, never a
   consumer before a triggered producer (unless they lie on a cycle); and also
   when the update stops on an exception nothing outside the set ran and nothing
   ran twice *)
Theorem C02_assignment : forall (m : dmgr) s r v sd so m' s' out,
  Inv path_eqb m -> vsrc_wf v -> set_value m s r v sd so = (m', s', out) ->
  Inv path_eqb m' /\
  (o_err out = None ->
   NoDup (o_trace out) /\
   (forall w, In w (o_trace out) <-> Triggered path_eqb (m_tasks m') sd w) /\
   (forall u v, In u (o_trace out) -> edge path_eqb (m_tasks m') u v ->
                before u v (o_trace out) \/ clos (edge path_eqb (m_tasks m')) v u)) /\
  (forall w, In w (o_trace out) -> Triggered path_eqb (m_tasks m') sd w) /\ NoDup (o_trace out).
Proof. exact set_value_trace. Qed.

(* acyclic case: producers strictly first *)
Corollary C02_order_dag : forall (m : dmgr) s r v sd so m' s' out,
  Inv path_eqb m -> vsrc_wf v -> set_value m s r v sd so = (m', s', out) -> o_err out = None ->
  forall u w, In u (o_trace out) -> edge path_eqb (m_tasks m') u w ->
  ~ clos (edge path_eqb (m_tasks m')) w u -> before u w (o_trace out).
Proof.
  intros m s r v sd so m' s' out HI Hv E He u w Hu Hed Hn.
  destruct (set_value_trace m s r v sd so m' s' out HI Hv E) as (_ & H & _).
  destruct (H He) as (_ & _ & Ho). destruct (Ho u w Hu Hed); [assumption|contradiction].
Qed.

(* non-vacuity: a diamond a -> (b, c) -> d over a flat container; assigning a runs b, c, d *)
Example C02_nonvacuous :
  let k := 1%N in let a := 2%N in let b := 3%N in let c := 4%N in let d := 5%N in
  let st := mkD (Dict [(k, Dict [(a, Leaf 1); (b, Leaf 0); (c, Leaf 0); (d, Leaf 0)])]) [] None in
  let ops := [MSet [k; d] (SExpr (EBin BAdd (ERef [k; b]) (ERef [k; c])) [[k; b]; [k; c]] [[k; d]]) [[k; d]] [];
              MSet [k; b] (SExpr (EBin BMul (ERef [k; a]) (EConst 2)) [[k; a]] [[k; b]]) [[k; b]] [[k; d]];
              MSet [k; c] (SExpr (EBin BAdd (ERef [k; a]) (EConst 1)) [[k; a]] [[k; c]]) [[k; c]] [[k; d]];
              MSet [k; a] (SPlain (Leaf 5)) [[k; a]] [[k; c]; [k; b]]] in
  map (fun r => o_trace (snd r)) (run_hist empty_mgr st ops)
  = [[]; [[k; d]]; [[k; d]]; [[k; b]; [k; c]; [k; d]]] /\
  nget (d_st (snd (fst (last (run_hist empty_mgr st ops) (empty_mgr, st, mkOut None []))))) [k; d] = Some (Leaf 16).
Proof. cbn. split; reflexivity. Qed.

(* tie to the source: the translated Manager.find_taskids (gen/GenTasks.v, regenerated on every run)
   is the model's find_taskids *)
Theorem C02_find_taskids_is_source : forall (sd order : list path) (m : dmgr),
  src_find_taskids path_eqb sd order m = find_taskids path_eqb m sd order.
Proof. exact (src_find_taskids_eq path_eqb). Qed.

Theorem C02_find_tasks_is_source : forall (sd order : list path) (m : dmgr),
  src_find_tasks path_eqb sd order m = find_tasks path_eqb m sd order.
Proof. exact src_find_tasks_eq. Qed.

(* sorting.toposort / sorting._dfs AS WRITTEN (an explicit stack of (vertex, iterator) frames; gen/GenSorting.v checks on
   every run that the source is, statement for statement, the text lib/ToposortIter.v models): on every graph closed
   in a finite universe, with enough passes of the while loop the iterative search has emptied its stack and returns
   exactly the recursive toposort that C02_toposort speaks about - and further passes change nothing *)
Theorem C02_iterative_dfs_is_recursive : forall (K : Type) (eqb : K -> K -> bool),
  (forall a b, eqb a b = true <-> a = b) ->
  forall (g : K -> list K) (univ : list K), (forall u v, In u univ -> In v (g u) -> In v univ) ->
  forall f start, incl start univ -> length univ < f ->
  exists n, forall passes, n <= passes -> itoposort eqb g passes start = toposort eqb g f start.
Proof. intros K eqb Hs g univ Hc f start. exact (itoposort_eq eqb Hs g univ Hc f start). Qed.

(* ... in particular for the call made by find_taskids: the manager's rtasks graph, the fuel the model uses *)
Theorem C02_toposort_is_source : forall (rt : @index path) (order : list path),
  exists n, forall passes, n <= passes ->
    src_toposort path_eqb (succs path_eqb rt) passes order =
    toposort path_eqb (succs path_eqb rt) (S (graph_size rt + length order)) order.
Proof. exact (src_toposort_eq path_eqb path_eqb_spec). Qed.

Print Assumptions C02_toposort.
Print Assumptions C02_find_taskids.
Print Assumptions C02_assignment.
Print Assumptions C02_order_dag.
Print Assumptions C02_nonvacuous.
Print Assumptions C02_find_taskids_is_source.
Print Assumptions C02_find_tasks_is_source.
Print Assumptions C02_iterative_dfs_is_recursive.
Print Assumptions C02_toposort_is_source.
