(* C12 -- a pickled manager restores to a behaviourally identical copy: the
   part that is a theorem (reconstruction of every reference and expression
   from its __reduce__ tuple).  Independence of the two object graphs is heap
   aliasing, which a pure model does not have: validated by tools/checks/C12.py. *)
From Coq Require Import List ZArith NArith Bool.
From XD Require Import model.RefSyntax model.RefTables model.Refs model.RefsOk gen.GenRefs
  proofs.RefsBase proofs.RefsPickle.
Import ListNotations.

(* TABLE OBLIGATION against the current source: for every node class the
   tuple returned by (the MRO-resolved) __reduce__ has one element per
   parameter of the __cinit__ chain, element i is the attribute that __cinit__
   stores from parameter i, and every attribute of the node is in the tuple. *)
Theorem C12_sig_ok : sig_ok gen_tables = true.
Proof. vm_compute. reflexivity. Qed.
Print Assumptions C12_sig_ok.

(* one node: calling the class on the reduced tuple gives the node back *)
Theorem C12_rebuild_reduce_node :
  forall T, sig_ok T = true ->
  forall t, is_ref t = true -> cls_ok T t = true ->
  exists r, reduce T t = Some r /\ rebuild T r = Some t.
Proof.
  intros T HS t Hr Hc. pose proof (renode_id T HS t Hr Hc) as H. unfold renode, obind in H.
  destruct (reduce T t) as [r|]; [|discriminate]. exists r. split; [reflexivity|exact H].
Qed.
Print Assumptions C12_rebuild_reduce_node.

(* deep: pickle reduces and rebuilds bottom-up; every well-formed expression of
   arbitrary depth, of every node class, comes back equal (sharing-agnostic) *)
Theorem C12_rebuild_reduce :
  forall T, sig_ok T = true -> forall t, wf T t = true -> roundtrip T t = Some t.
Proof. exact roundtrip_id. Qed.
Print Assumptions C12_rebuild_reduce.

(* the manager: its definitions (target, expression), in registration order,
   survive; all indices of a manager are functions of this list (register),
   so verify() passes on the copy and it reacts like the original (C01-C03) *)
Theorem C12_manager_roundtrip :
  forall T, sig_ok T = true ->
  forall m : tasklist, Forall (fun p => wf T (fst p) = true /\ wf T (snd p) = true) m ->
  roundtrip_tasks T m = Some m.
Proof. exact roundtrip_tasks_id. Qed.
Print Assumptions C12_manager_roundtrip.

(* non-vacuity: c['b'] = abs(c['a']) ; c.o.z = round(c['a'], c['b']) + f(c['a'], k=-c['b']) *)
Example C12_nonvacuous :
  let c := TTop [99%N] false in
  let it k := TItem c (TConst (LStr [k])) in
  let m : tasklist :=
    [(it 98%N, TBuiltin 5%N (it 97%N) []);
     (TAttr (TAttr c (TConst (LStr [111%N]))) (TConst (LStr [122%N])),
      TBin 10%N (TBuiltin 1%N (it 97%N) [it 98%N])
           (TCall (it 102%N) [it 97%N] [([107%N], TUn 29%N (it 98%N))]))] in
  Forall (fun p => wf gen_tables (fst p) = true /\ wf gen_tables (snd p) = true) m /\
  roundtrip_tasks gen_tables m = Some m.
Proof. cbv zeta. split; [repeat constructor|vm_compute; reflexivity]. Qed.
Print Assumptions C12_nonvacuous.
