(* C08 — table row selection follows the documented selector semantics, in
   table order.  Only statements, each closed by [exact] of a lemma of
   proofs/TableSel.v, followed by Print Assumptions.

   matches : pattern -> name -> bool  is Python's re.fullmatch with IGNORECASE (oracle);
   ord     : the iteration order of the Python set of matching names; any
             permutation (perm_oracle) — this is how the hash seed enters.
   rows / indices / mask are the models of table.rows[...], table.rows.indices[...],
   table.rows.mask[...];  sel_spec is the naive specification (scans of the raw
   columns).  Hypotheses, stated as boolean predicates:
     names_plainb : a row name used as a pattern matches only itself among the
                    names of the table (DESIGN section 5, C08) — needed only for
                    the exact-name shortcut of 'p::c';
     sel_okb      : the ends of a name span, after their offsets, lie at
                    non-negative positions (offsets leaving the table are
                    outside the property) and at least one end is a name. *)
From Coq Require Import List ZArith NArith Permutation.
From XD Require Import lib.ListAux model.Table model.TableSel proofs.TableSelAux proofs.TableSel.
Import ListNotations.
Open Scope Z_scope.

(* rows.indices[s] is the specified list of rows for every selector form
   (position, position list, mask, regex with count and offset, name list, name
   span, value range with optional bounds, slice, None), every table, every
   set order. *)
Theorem C08_refines : forall matches ord, perm_oracle ord -> forall t s,
  names_plainb matches (s_idx t) = true -> sel_okb t s = true ->
  indices matches ord t (QOne s) = sel_spec matches t s.
Proof. exact indices_refines. Qed.
Print Assumptions C08_refines.

(* ... and rows[s] is the table made of exactly those rows, in that order *)
Theorem C08_rows_refine : forall matches ord t s,
  perm_oracle ord -> names_plainb matches (s_idx t) = true -> sel_okb t s = true ->
  rows matches ord t (QOne s) = sbind (sel_spec matches t s) (fun l => select_rows t (IArr l)).
Proof. exact rows_refines. Qed.
Print Assumptions C08_rows_refine.

(* rows[s1, s2] = rows[s1].rows[s2]: equal tables when either succeeds, and
   when one raises so does the other (no hypothesis on names or selectors) *)
Theorem C08_compose : forall matches ord t s1 s2,
  res_agree (rows matches ord t (QTup [s1; s2])) (rows_then matches ord t s1 s2).
Proof. exact compose_pair. Qed.
Print Assumptions C08_compose.

Theorem C08_compose_many : forall matches ord t s ss,
  res_agree (rows matches ord t (QTup (s :: ss))) (chain matches ord t (s :: ss)).
Proof. exact compose_many. Qed.
Print Assumptions C08_compose_many.

(* rows[...], rows.indices[...] and rows.mask[...] describe the same rows, for
   single selectors and tuples: the rows are the (wrapped) indices in order, the
   mask is true exactly at those positions; an error of one is the error of all *)
Theorem C08_indices_mask : forall matches ord t q,
  match indices matches ord t q with
  | Err e => rows matches ord t q = Err e /\ mask matches ord t q = Err e /\ rows_positions matches ord t q = Err e
  | Ok l =>
      match wrap_all (slen t) l with
      | None => rows matches ord t q = Err EIndex /\ mask matches ord t q = Err EIndex /\
                rows_positions matches ord t q = Err EIndex
      | Some ps =>
          rows matches ord t q = Ok (take_table t ps) /\
          rows_positions matches ord t q = Ok ps /\
          Forall (fun p => (p < slen t)%nat) ps /\
          exists m, mask matches ord t q = Ok m /\ length m = slen t /\
                    forall i, (i < slen t)%nat -> (nth i m false = true <-> In i ps)
      end
  end.
Proof. exact views_agree. Qed.
Print Assumptions C08_indices_mask.

(* the result does not depend on the iteration order of the name set (hash
   seed): any two permutation oracles give the same three views, for every
   table and query, with no further hypothesis *)
Theorem C08_seed_independent : forall matches ord1 ord2,
  perm_oracle ord1 -> perm_oracle ord2 -> forall t q,
  rows matches ord1 t q = rows matches ord2 t q /\
  indices matches ord1 t q = indices matches ord2 t q /\
  mask matches ord1 t q = mask matches ord2 t q.
Proof. exact seed_independent. Qed.
Print Assumptions C08_seed_independent.

(* Histories on ONE table object: selections (rows / indices / mask, single
   selectors and tuples) interleaved with edits of the index column (a cell by
   position, a cell by name, the whole column).  No hidden state: whatever was
   selected or edited before, a selection shows the three views of the table
   whose index column is the edited column ... *)
Theorem C08_reselect : forall matches ord t ops q,
  let t' := set_idx t (edited (s_idx t) ops) in
  hrun matches ord t (ops ++ [HSel q]) =
  hrun matches ord t ops ++
  [HViews (rows_positions matches ord t' q) (indices matches ord t' q) (mask matches ord t' q)].
Proof. exact select_after_history. Qed.
Print Assumptions C08_reselect.

(* ... hence, with C08_refines, the rows the specification denotes on the edited column *)
Theorem C08_reselect_spec : forall matches ord t ops s, perm_oracle ord ->
  let t' := set_idx t (edited (s_idx t) ops) in
  names_plainb matches (s_idx t') = true -> sel_okb t' s = true ->
  indices matches ord (hfinal matches ord t ops) (QOne s) = sel_spec matches t' s.
Proof. exact reselect_spec. Qed.
Print Assumptions C08_reselect_spec.

(* Value ranges lo:hi:'col' over ANY column dtype: values are abstract and
   numpy's <= is an oracle [le] (exact on numbers, false on NaN); the rows
   selected are exactly those with lo <= v <= hi under that comparison, in
   table order, for every column (sorted or not) and either bound optional. *)
Theorem C08_range_abstract : forall (V : Type) (le : V -> V -> bool) lo hi col,
  range_view V le lo hi col = range_spec V le lo hi col.
Proof. exact range_refines_abstract. Qed.
Print Assumptions C08_range_abstract.

(* the integer-column selector of the model is the instance V = Z, le = Z.leb *)
Theorem C08_range_instance : forall matches ord t lo hi cn vals,
  aget N.eqb cn (s_cols t) = Some vals -> length vals = slen t ->
  indices matches ord t (QOne (SRange lo hi cn)) = Ok (range_view Z Z.leb lo hi vals).
Proof. exact srange_is_instance. Qed.
Print Assumptions C08_range_instance.

(* Tables with their own regex_flags (constructor argument): the oracle takes
   the table's case folding, matches2 true = IGNORECASE (default), matches2
   false = case-sensitive.  C08_refines for both values ... *)
Theorem C08_refines_flags : forall (matches2 : bool -> N -> N -> bool) ord, perm_oracle ord ->
  forall fold_case t s,
  names_plainb (matches2 fold_case) (s_idx t) = true -> sel_okb t s = true ->
  indices (matches2 fold_case) ord t (QOne s) = sel_spec (matches2 fold_case) t s.
Proof. exact refines_flags. Qed.
Print Assumptions C08_refines_flags.

(* ... and with several tables alive in one process and selections on them in
   any interleaving, step i on table k shows the views of table k under its own
   flag: nothing done with the same pattern text on another table matters *)
Theorem C08_tables_independent : forall (matches2 : bool -> N -> N -> bool) ord tabs steps i k q ft,
  nth_error steps i = Some (k, q) -> nth_error tabs k = Some ft ->
  nth_error (mrun matches2 ord tabs steps) i = Some (fviews matches2 ord ft q).
Proof. exact tables_independent. Qed.
Print Assumptions C08_tables_independent.

(* non-vacuity: names a=1, ab=2, c=3; pattern 10 = 'a.*' (matches a, ab), 11 = 'A|c';
   table [a; ab; a; c; ab] with x = [1;2;3;0;2]; reversing set order is a
   permutation oracle; hypotheses hold; the model computes what the spec says *)
Definition ex_matches (p n : N) : bool :=
  match p with
  | 10%N => N.eqb n 1 || N.eqb n 2
  | 11%N => N.eqb n 1 || N.eqb n 3
  | _ => N.eqb p n
  end.
Definition ex_table := mkST [1; 2; 1; 3; 2]%N [(7%N, [1; 2; 3; 0; 2])].

Example C08_nonvacuous :
  perm_oracle (@rev N) /\ names_plainb ex_matches (s_idx ex_table) = true /\
  sel_okb ex_table (SSpan (EpName 1%N (Some 1) 0) (EpName 2%N (Some (-1)) (-1))) = true /\
  indices ex_matches (@rev N) ex_table (QOne (SRegex 10%N (Some (-1)) 0)) = Ok [2; 4] /\
  sel_spec ex_matches ex_table (SRegex 10%N (Some (-1)) 0) = Ok [2; 4] /\
  indices ex_matches (@rev N) ex_table (QOne (SRegex 1%N (Some 1) 1)) = Ok [3] /\
  indices ex_matches (@rev N) ex_table (QOne (SSpan (EpName 1%N (Some 1) 0) (EpName 2%N (Some (-1)) (-1)))) = Ok [2; 3] /\
  indices ex_matches (@rev N) ex_table (QOne (SRange (Some 2) None 7%N)) = Ok [1; 2; 4] /\
  rows_positions ex_matches (@rev N) ex_table (QTup [SRegex 10%N None 0; SRegex 2%N (Some 1) 0]) = Ok [4%nat] /\
  mask ex_matches (@rev N) ex_table (QOne (SRegex 11%N (Some 0) 0)) = Ok [true; false; false; true; false].
Proof. split; [exact perm_oracle_rev | vm_compute; repeat split; reflexivity]. Qed.
Print Assumptions C08_nonvacuous.

(* select 'a.*', rename row 3 (c) to ab, select again; rename the last 'a' by name to c, select again *)
Example C08_history_nonvacuous :
  hrun ex_matches (@rev N) ex_table
    [HSel (QOne (SRegex 10%N None 0)); HSetCell 3 2%N; HSel (QOne (SRegex 10%N None 0));
     HSetCellName 1%N (Some (-1)) 0 3%N; HSel (QOne (SRegex 10%N None 0)); HSetCell 9 1%N] =
  [HViews (Ok [0; 1; 2; 4]%nat) (Ok [0; 1; 2; 4]) (Ok [true; true; true; false; true]); HDone;
   HViews (Ok [0; 1; 2; 3; 4]%nat) (Ok [0; 1; 2; 3; 4]) (Ok [true; true; true; true; true]); HDone;
   HViews (Ok [0; 1; 3; 4]%nat) (Ok [0; 1; 3; 4]) (Ok [true; true; false; true; true]); HFail EIndex] /\
  edited (s_idx ex_table) [HSetCell 3 2%N; HSetCellName 1%N (Some (-1)) 0 3%N] = [1; 2; 3; 2; 2]%N.
Proof. vm_compute. split; reflexivity. Qed.
Print Assumptions C08_history_nonvacuous.
