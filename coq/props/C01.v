(* C01 — expression-defined locations always equal their definition on current data.
   Statements only; proofs in proofs/ManagerC01.v. *)
From Coq Require Import List Bool Arith ZArith NArith Lia.
From XD Require Import lib.ListAux lib.Toposort model.Manager model.ManagerData
  proofs.ManagerIdx proofs.ManagerInv proofs.ManagerTrace proofs.ManagerDataInv proofs.Store proofs.ManagerC01 proofs.ManagerOrder proofs.ManagerExtra.
From XD Require Import model.TasksSem model.TasksSemData gen.GenTasks gen.GenTasksData proofs.TasksSrc proofs.TasksSrcData.
Import ListNotations.
Local Open Scope nat_scope.

(* FULL STATEMENT of the property on the model (not provable as such — see
   C01_refuted_nested_siblings):  after every successful assignment of a history
   of assignments over an acyclic data-flow graph, Consistent holds, for every
   iteration order of the sets involved.

   PROVED (partial): the same with the extra hypothesis, on each assignment, that
   the manager's ORDERING relation (a target of A is a reported dependency of B;
   self-loops ignored) restricted to the triggered tasks has no cycle.  For
   references below a shared nested container this relation is strictly larger
   than the data flow, which is exactly where the implementation fails.
   Remaining hypotheses are those of the property text: expression tasks as the
   library builds them (sem_wf), no two definitions write overlapping locations
   and the assigned location is not a container holding a defined member
   (writes_disjoint, and r does not overlap another target), no expression reads
   its own target (no_self_read; acyclic data flow). *)
Theorem C01_step_partial : forall (m : dmgr) s r v sd so m' s' out,
  Inv path_eqb m -> vsrc_wf v -> set_value m s r v sd so = (m', s', out) -> o_err out = None -> d_fault s = None ->
  2 <= length r -> (forall x, In x (deps_of r) -> In x sd) ->
  sem_wf (m_tasks m') -> writes_disjoint (m_tasks m') -> no_self_read (m_tasks m') ->
  (forall a T, aget path_eqb a (m_tasks m') = Some T -> a <> r -> overlap r a = false) ->
  (forall u w, In u (o_trace out) -> In w (o_trace out) -> u <> w -> edge path_eqb (m_tasks m') u w ->
               ~ clos (edge path_eqb (m_tasks m')) w u) ->
  (forall a, a <> r -> ~ In a (o_trace out) -> cons_at (m_tasks m) (d_st s) a) ->
  (* every definition holds the value of its expression on the current data *)
  Consistent (m_tasks m') (d_st s') /\
  (* every location no triggered task writes keeps its value *)
  (forall q, overlap r q = false -> (forall a, In a (o_trace out) -> overlap a q = false) ->
             nget (d_st s') q = nget (d_st s) q) /\
  (* the assigned location holds the assigned value *)
  ((forall a, In a (o_trace out) -> overlap a r = false) ->
   exists x, nget (d_st s') r = Some x /\
             match v with SPlain y => x = y | SExpr e _ _ => eval (d_st s) e = Some x end).
Proof. exact set_value_consistent. Qed.

(* any history of assignments (any definition order, any length, any depth) *)
Theorem C01_history_partial : forall ops (m : dmgr) s,
  Inv path_eqb m -> Consistent (m_tasks m) (d_st s) -> hist_ok m s ops ->
  Consistent (m_tasks (fst (final_mgr m s ops))) (d_st (snd (final_mgr m s ops))).
Proof. exact history_consistent. Qed.

(* running the triggered expression tasks in the order toposort gives: each one ends
   consistent and nothing else is touched (the core of the two theorems above) *)
Theorem C01_run_order : forall (ts : list (path * @task path action)) (L : list path),
  sem_wf ts -> writes_disjoint ts -> no_self_read ts -> NoDup L ->
  (forall u v, In u L -> edge path_eqb ts u v -> before u v L \/ clos (edge path_eqb ts) v u) ->
  (forall u v, In u L -> In v L -> u <> v -> edge path_eqb ts u v -> ~ clos (edge path_eqb ts) v u) ->
  forall todo done tl s s2 tr st1,
  L = done ++ todo -> lookup_tasks path_eqb ts todo = Ok tl -> d_fault s = None ->
  run_tasks tl s = (s2, tr, None) ->
  (forall a, In a done -> cons_at ts (d_st s) a) ->
  (forall q, (forall a, In a done -> overlap a q = false) -> nget (d_st s) q = nget st1 q) ->
  (forall a, In a L -> cons_at ts (d_st s2) a) /\
  (forall q, (forall a, In a L -> overlap a q = false) -> nget (d_st s2) q = nget st1 q) /\
  d_fault s2 = None.
Proof. exact run_expr_tasks. Qed.

(* "independent of the order in which ... and of the hash seed": assigning a plain value
   under two different iteration orders (of the assigned reference's dependency set and
   of the start set of the search) runs the same set of tasks and leaves the same value
   at every triggered target, at the assigned location and at every location that
   overlaps neither — under the acyclicity hypothesis above and when what a triggered
   task reads is disjoint from, or at or below, each written location. *)
Theorem C01_order_independent_partial : forall (m : dmgr) s r x sd1 so1 sd2 so2 m1 s1 out1 m2 s2 out2,
  Inv path_eqb m -> Consistent (m_tasks m) (d_st s) -> d_fault s = None ->
  set_value m s r (SPlain x) sd1 so1 = (m1, s1, out1) -> o_err out1 = None ->
  set_value m s r (SPlain x) sd2 so2 = (m2, s2, out2) -> o_err out2 = None ->
  2 <= length r ->
  (forall y, In y sd1 <-> In y (deps_of r)) -> (forall y, In y sd2 <-> In y (deps_of r)) ->
  let ts := m_tasks m1 in
  sem_wf ts -> writes_disjoint ts -> no_self_read ts ->
  (forall a T, aget path_eqb a ts = Some T -> a <> r -> overlap r a = false) ->
  (forall u w, Triggered path_eqb ts sd1 u -> Triggered path_eqb ts sd1 w -> u <> w -> edge path_eqb ts u w ->
               ~ clos (edge path_eqb ts) w u) ->
  (forall a T e q, Triggered path_eqb ts sd1 a -> aget path_eqb a ts = Some T -> t_act T = AExpr e -> In q (reads e) ->
                   (overlap r q = true -> is_prefix r q = true) /\
                   (forall b, Triggered path_eqb ts sd1 b -> overlap b q = true -> is_prefix b q = true)) ->
  m_tasks m2 = ts /\
  (forall a, In a (o_trace out1) <-> In a (o_trace out2)) /\
  (forall a, In a (o_trace out1) -> nget (d_st s1) a = nget (d_st s2) a) /\
  nget (d_st s1) r = nget (d_st s2) r /\
  (forall q, overlap r q = false -> (forall a, In a (o_trace out1) -> overlap a q = false) ->
             nget (d_st s1) q = nget (d_st s2) q).
Proof. exact plain_assign_order_independent. Qed.

(* "each target of a ... linear-knob task holds what that task prescribes": a LinearKnob that
   runs to completion adds weight * (new source value - source value at its previous run) to each of
   its (non-overlapping, numeric) targets, remembers the new source value and touches nothing else *)
Theorem C01_linear_knob : forall (t : @task path action) s src wts v p,
  t_act t = AKnob src wts -> d_fault s = None ->
  nget (d_st s) src = Some (Leaf v) -> aget path_eqb (t_id t) (d_prev s) = Some p ->
  (forall w tg, In (w, tg) wts -> exists z, nget (d_st s) tg = Some (Leaf z)) ->
  ForallOrdPairs (fun a b => overlap (snd a) (snd b) = false) wts ->
  exists s', exec t s = (s', None) /\
    (forall w tg z, In (w, tg) wts -> nget (d_st s) tg = Some (Leaf z) ->
                    nget (d_st s') tg = Some (Leaf (z + w * (v - p))%Z)) /\
    aget path_eqb (t_id t) (d_prev s') = Some v /\
    (forall q, (forall w tg, In (w, tg) wts -> overlap tg q = false) -> nget (d_st s') q = nget (d_st s) q).
Proof. exact knob_exec_spec. Qed.

(* The unrestricted statement is false of the faithful model: siblings of one nested
   object, defined n.x = a*2; n.z = n.y*3; n.y = n.x+1, then a = 5.  With the set
   iteration orders the implementation used under PYTHONHASHSEED=0 (replayed here),
   every call succeeds and n.z is left at 9 although n.y*3 = 33. *)
Definition rf_g := 0%N. Definition rf_n := 1%N. Definition rf_x := 2%N.
Definition rf_a := 3%N. Definition rf_z := 4%N. Definition rf_y := 5%N.
Definition rf_store : node :=
  Dict [(rf_g, Dict [(rf_a, Leaf 1); (rf_n, Dict [(rf_x, Leaf 0); (rf_y, Leaf 0); (rf_z, Leaf 0)])])].
Definition rf_ops : list mop :=
  [MSet [rf_g; rf_n; rf_x] (SExpr (EBin BMul (ERef [rf_g; rf_a]) (EConst 2)) [[rf_g; rf_a]] [[rf_g; rf_n]; [rf_g; rf_n; rf_x]])
        [[rf_g; rf_n]; [rf_g; rf_n; rf_x]] [];
   MSet [rf_g; rf_n; rf_z] (SExpr (EBin BMul (ERef [rf_g; rf_n; rf_y]) (EConst 3)) [[rf_g; rf_n]; [rf_g; rf_n; rf_y]] [[rf_g; rf_n]; [rf_g; rf_n; rf_z]])
        [[rf_g; rf_n]; [rf_g; rf_n; rf_z]] [[rf_g; rf_n; rf_z]];
   MSet [rf_g; rf_n; rf_y] (SExpr (EBin BAdd (ERef [rf_g; rf_n; rf_x]) (EConst 1)) [[rf_g; rf_n]; [rf_g; rf_n; rf_x]] [[rf_g; rf_n]; [rf_g; rf_n; rf_y]])
        [[rf_g; rf_n]; [rf_g; rf_n; rf_y]] [[rf_g; rf_n; rf_z]; [rf_g; rf_n; rf_y]];
   MSet [rf_g; rf_a] (SPlain (Leaf 5)) [[rf_g; rf_a]] [[rf_g; rf_n; rf_x]]].

Theorem C01_refuted_nested_siblings :
  let res := run_hist empty_mgr (mkD rf_store [] None) rf_ops in
  let st := d_st (snd (fst (last res (empty_mgr, mkD rf_store [] None, mkOut None [])))) in
  map (fun r => o_err (snd r)) res = [None; None; None; None] /\
  nget st [rf_g; rf_n; rf_z] = Some (Leaf 9) /\
  eval st (EBin BMul (ERef [rf_g; rf_n; rf_y]) (EConst 3)) = Some (Leaf 33).
Proof. vm_compute. repeat split; reflexivity. Qed.

(* non-vacuity of the hypotheses: a nested target defined from a flat location *)
Definition nv_c := 1%N. Definition nv_a := 2%N. Definition nv_n := 3%N. Definition nv_b := 4%N.
Definition nv_store := mkD (Dict [(nv_c, Dict [(nv_a, Leaf 1); (nv_n, Dict [(nv_b, Leaf 0)])])]) [] None.
Definition nv_def := MSet [nv_c; nv_n; nv_b] (SExpr (EBin BMul (ERef [nv_c; nv_a]) (EConst 2)) [[nv_c; nv_a]] [[nv_c; nv_n]; [nv_c; nv_n; nv_b]])
                          [[nv_c; nv_n]; [nv_c; nv_n; nv_b]] [].
Definition nv_set := MSet [nv_c; nv_a] (SPlain (Leaf 5)) [[nv_c; nv_a]] [[nv_c; nv_n; nv_b]].

Example C01_nonvacuous :
  hist_ok empty_mgr nv_store [nv_def; nv_set] /\
  nget (d_st (snd (final_mgr empty_mgr nv_store [nv_def; nv_set]))) [nv_c; nv_n; nv_b] = Some (Leaf 10).
Proof.
  split; [|vm_compute; reflexivity].
  assert (Hsem : sem_wf [([nv_c; nv_n; nv_b],
             mk_expr_task [nv_c; nv_n; nv_b] (EBin BMul (ERef [nv_c; nv_a]) (EConst 2)) [[nv_c; nv_a]] [[nv_c; nv_n]; [nv_c; nv_n; nv_b]])]).
  { apply sem_wf_Forall. constructor; [|constructor]. cbn [fst snd].
    exists (EBin BMul (ERef [nv_c; nv_a]) (EConst 2)). cbn. split; [reflexivity|split; [reflexivity|split; [lia|split]]].
    - intros x; tauto.
    - intros q [<-|[]]. split; [cbn; lia|]. cbn. intros x [<-|[]]; auto. }
  assert (Hwd : writes_disjoint [([nv_c; nv_n; nv_b],
             mk_expr_task [nv_c; nv_n; nv_b] (EBin BMul (ERef [nv_c; nv_a]) (EConst 2)) [[nv_c; nv_a]] [[nv_c; nv_n]; [nv_c; nv_n; nv_b]])]).
  { intros a b Ta Tb Ha Hb Hab. apply aget_In_pair in Ha, Hb. destruct Ha as [Ha|[]], Hb as [Hb|[]]. congruence. }
  assert (Hns : no_self_read [([nv_c; nv_n; nv_b],
             mk_expr_task [nv_c; nv_n; nv_b] (EBin BMul (ERef [nv_c; nv_a]) (EConst 2)) [[nv_c; nv_a]] [[nv_c; nv_n]; [nv_c; nv_n; nv_b]])]).
  { intros a T e Ha Hact q Hq. apply aget_In_pair in Ha. destruct Ha as [Ha|[]]. inversion Ha; subst.
    cbn in Hact. injection Hact as <-. cbn in Hq. destruct Hq as [<-|[]]. reflexivity. }
  cbn [hist_ok]. split; [|split; [|exact I]].
  - cbn [assign_ok nv_def]. vm_compute set_value. cbn [fst snd o_err o_trace m_tasks].
    repeat split; auto; try (repeat constructor; cbn; intuition discriminate); try lia.
    all: try (intros a T Ha Hne; apply aget_In_pair in Ha; destruct Ha as [Ha|[]]; inversion Ha; subst; exfalso; apply Hne; reflexivity).
  - vm_compute step. cbn [fst snd]. cbn [assign_ok nv_set]. vm_compute set_value. cbn [fst snd o_err o_trace m_tasks].
    repeat split; auto; try (repeat constructor; cbn; intuition discriminate); try lia.
    all: try (intros a T Ha Hne; apply aget_In_pair in Ha; destruct Ha as [Ha|[]]; inversion Ha; subst; reflexivity).
    intros u w [<-|[]] [<-|[]] Hne. exfalso; apply Hne; reflexivity.
Qed.

(* ---- tie to the source: gen/GenTasksData.v is regenerated from xdeps/tasks.py on every run; the translated
   Manager.set_value (with the translated register / unregister / find_tasks / run_tasks and the run methods of
   the three task classes under it) IS the model's set_value: same manager, same containers, same tasks run,
   same exception, for every manager, store, target, value and pair of set orders *)
Theorem C01_set_value_is_source : forall (m : dmgr) s r v sd so,
  src_set_value task_run r v sd so (m, s, []) =
  let '(m', s', out) := set_value m s r v sd so in ((m', s', o_trace out), res_of (o_err out)).
Proof. exact src_set_value_eq. Qed.

(* every public route of an assignment - ref[key] = v, ref.attr = v, ref._set_to_expr(e), the DepEnv proxy - as written
   (bodies checked against refs.py / tasks.py on every run) IS set_value on the location owner ++ [key]: the same manager,
   containers, tasks run and exception as the model's set_value *)
Theorem C01_routes_are_set_value : forall (m : dmgr) s owner key v sd so,
  src_setitem task_run owner key v sd so (m, s, []) = src_set_value task_run (owner ++ [key]) v sd so (m, s, []) /\
  src_setattr task_run owner key v sd so (m, s, []) = src_set_value task_run (owner ++ [key]) v sd so (m, s, []) /\
  src_env_set task_run owner key v sd so (m, s, []) = src_set_value task_run (owner ++ [key]) v sd so (m, s, []) /\
  src_set_to_expr task_run (owner ++ [key]) v sd so (m, s, []) =
    (let '(m', s', out) := set_value m s (owner ++ [key]) v sd so in ((m', s', o_trace out), res_of (o_err out))).
Proof. intros. repeat split; try reflexivity. apply src_set_value_eq. Qed.

Theorem C01_task_run_is_source : forall (t : dtask) (m : dmgr) s tr,
  task_run t (m, s, tr) = let '(s', er) := exec t s in ((m, s', tr), res_of er).
Proof. exact task_run_eq. Qed.

Theorem C01_exprtask_init_is_source : forall r e dord tord,
  src_exprtask_init r e dord tord = mk_expr_task r e dord tord.
Proof. exact src_exprtask_init_eq. Qed.

Print Assumptions C01_step_partial.
Print Assumptions C01_history_partial.
Print Assumptions C01_run_order.
Print Assumptions C01_linear_knob.
Print Assumptions C01_order_independent_partial.
Print Assumptions C01_refuted_nested_siblings.
Print Assumptions C01_nonvacuous.
Print Assumptions C01_set_value_is_source.
Print Assumptions C01_routes_are_set_value.
Print Assumptions C01_task_run_is_source.
Print Assumptions C01_exprtask_init_is_source.
