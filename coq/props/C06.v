(* C06 — references are equal, and hash equally, exactly when they denote the
   same access path.  Statements only; proofs in proofs/RefsShowProofs.v and
   lib/PyStr.v.

   [show], [eq_model], [hash_tuple] interpret the tables regenerated from
   xdeps/refs.py (gen/GenRefsRepr.v: repr_tpl, eq_impl, hash_tpl).  Oracles:
   [printable] (Unicode printability), [repr_float] (Python's float repr) and
   [xid] (identifier characters beyond ASCII) are universally quantified;
   [H] is Python's hash of a tuple: any function. *)
From Coq Require Import List Bool ZArith NArith.
From XD Require Import model.RefSyntax model.ReprSyntax gen.GenRefsRepr lib.PyStr model.RefsShow proofs.RefsShowProofs.
Import ListNotations.
Open Scope N_scope.

(* repr of a str has a left inverse, whatever follows it *)
Theorem C06_unrepr_repr : forall (printable : N -> bool) s rest,
  valid_str s -> unrepr_str (repr_str printable s ++ rest) = Some (s, rest).
Proof. exact unrepr_repr. Qed.
Print Assumptions C06_unrepr_repr.

(* Well-formed paths (identifier label and attribute names; item keys: strings
   of any code points, ints, floats, tuples of these) that print alike are the
   same path.  _partial: float printing is an injective oracle, attribute names
   are identifiers (see C06_refuted_dotted_attr). *)
Theorem C06_show_inj_partial :
  forall (printable : N -> bool) (repr_float : N -> pystr) (xid : N -> bool) (kind_of : pystr -> bool),
  (forall t, forallb numchar (repr_float t) = true) ->
  (forall t, existsb float_mark (repr_float t) = true) ->
  (forall t u, repr_float t = repr_float u -> t = u) ->
  forall p q : path, wf_path xid p = true -> wf_path xid q = true ->
  show printable repr_float (term_of_path kind_of p) = show printable repr_float (term_of_path kind_of q) ->
  p = q.
Proof. exact show_inj. Qed.
Print Assumptions C06_show_inj_partial.

(* the left inverse itself *)
Theorem C06_parse_show_path :
  forall (printable : N -> bool) (repr_float : N -> pystr) (xid : N -> bool) (kind_of : pystr -> bool),
  (forall t, forallb numchar (repr_float t) = true) ->
  (forall t, existsb float_mark (repr_float t) = true) ->
  (forall t u, repr_float t = repr_float u -> t = u) ->
  forall p fuel, wf_path xid p = true -> (fuel >= path_fuel p)%nat ->
  parse_path xid fuel (show printable repr_float (term_of_path kind_of p)) =
  Some (p_label p, map (raw_step printable repr_float) (p_steps p)).
Proof.
  intros pr rf xid kind H1 H2 H3 p fuel Hw Hf. rewrite show_term_of_path.
  apply parse_show_path; assumption.
Qed.
Print Assumptions C06_parse_show_path.

(* == (the extracted body of BaseRef.__eq__) holds exactly for the same path *)
Theorem C06_eq_iff_partial :
  forall (printable : N -> bool) (repr_float : N -> pystr) (xid : N -> bool) (kind_of : pystr -> bool),
  (forall t, forallb numchar (repr_float t) = true) ->
  (forall t, existsb float_mark (repr_float t) = true) ->
  (forall t u, repr_float t = repr_float u -> t = u) ->
  forall p q : path, wf_path xid p = true -> wf_path xid q = true ->
  (eq_model printable repr_float (term_of_path kind_of p) (term_of_path kind_of q) = true <-> p = q).
Proof. exact eq_iff. Qed.
Print Assumptions C06_eq_iff_partial.

(* The tuple hashed in __cinit__ depends on the structure only: two references
   built independently (any managers [ann1] [ann2], any positions) for the same
   path have equal hashes, for every tuple-hash function. *)
Theorem C06_hash :
  forall (H : list hval -> Z) (ann1 ann2 : list nat -> N) (kind_of : pystr -> bool) (p q : path),
  p = q -> hash_term H ann1 (term_of_path kind_of p) = hash_term H ann2 (term_of_path kind_of q).
Proof.
  intros H ann1 ann2 kind p q ->. unfold hash_term. f_equal.
  apply hash_tuple_indep. apply path_classes_ok.
Qed.
Print Assumptions C06_hash.

(* the same for every expression node class *)
Theorem C06_hash_expr :
  forall (H : list hval -> Z) (ann1 ann2 : list nat -> N) (t : term),
  classes_okb t = true -> hash_term H ann1 t = hash_term H ann2 t.
Proof. intros H ann1 ann2 t Hok. unfold hash_term. f_equal. apply hash_tuple_indep; assumption. Qed.
Print Assumptions C06_hash_expr.

(* Expressions of identical structure (one skeleton [sk]) whose references are
   pairwise equal well-formed paths are equal and hash equally. *)
Theorem C06_expr_struct :
  forall (printable : N -> bool) (repr_float : N -> pystr) (xid : N -> bool) (kind_of : pystr -> bool),
  (forall t, forallb numchar (repr_float t) = true) ->
  (forall t, existsb float_mark (repr_float t) = true) ->
  (forall t u, repr_float t = repr_float u -> t = u) ->
  forall (sk : term) (s1 s2 : pystr -> bool -> term),
  (forall l oa, equal_path_refs printable repr_float xid kind_of (s1 l oa) (s2 l oa)) ->
  classes_okb (fill s1 sk) = true ->
  eq_model printable repr_float (fill s1 sk) (fill s2 sk) = true /\
  forall (H : list hval -> Z) (ann1 ann2 : list nat -> N),
    hash_term H ann1 (fill s1 sk) = hash_term H ann2 (fill s2 sk).
Proof.
  intros pr rf xid kind H1 H2 H3 sk s1 s2 Hs Hok.
  rewrite <- (expr_struct pr rf xid kind H1 H2 H3 sk s1 s2 Hs). split.
  - unfold eq_model. destruct eq_impl. apply pystr_eqb_refl.
  - intros H ann1 ann2. unfold hash_term. f_equal. apply hash_tuple_indep; assumption.
Qed.
Print Assumptions C06_expr_struct.

(* Known finding: the one-step path getattr(c, 'a.b') and the two-step path
   c.a.b print alike, so they are equal by ==, yet they are different paths
   and the tuples hashed differ (third component 'a.b' vs 'b'). *)
Theorem C06_refuted_dotted_attr :
  forall (printable : N -> bool) (repr_float : N -> pystr),
  show printable repr_float dot_one = show printable repr_float dot_two /\
  eq_model printable repr_float dot_one dot_two = true /\
  dot_one <> dot_two /\
  forall H ann1 ann2, hash_tuple H ann1 [] dot_one <> hash_tuple H ann2 [] dot_two.
Proof. exact dotted_refutes. Qed.
Print Assumptions C06_refuted_dotted_attr.

(* ---- non-vacuity *)

(* a float oracle meeting the three hypotheses exists *)
Example C06_float_oracle_exists :
  (forall t, forallb numchar (demo_float t) = true) /\
  (forall t, existsb float_mark (demo_float t) = true) /\
  (forall t u, demo_float t = demo_float u -> t = u).
Proof. exact demo_float_ok. Qed.
Print Assumptions C06_float_oracle_exists.

(* a depth-5 path with a string key holding both quotes and a newline, an
   attribute, a negative int, a tuple (int, string with a bracket) and a float
   key is well formed, prints as expected and parses back *)
Example C06_wf_nonvacuous :
  let p := {| p_label := [99];
              p_steps := [SItem (LStr [97; 39; 34; 10]); SAttr [120]; SItem (LInt (-3));
                          SItem (LTup [LInt 1; LStr [98; 93]]); SItem (LFloat 7)] |} in
  wf_path (fun _ => false) p = true /\
  show (fun _ => true) demo_float (term_of_path (fun _ => false) p) =
    [99; 91; 39; 97; 92; 39; 34; 92; 110; 39; 93; 46; 120; 91; 45; 51; 93;
     91; 40; 49; 44; 32; 39; 98; 93; 39; 41; 93; 91; 55; 46; 53; 93] /\
  parse_path (fun _ => false) (path_fuel p) (show (fun _ => true) demo_float (term_of_path (fun _ => false) p)) =
    Some (p_label p, map (raw_step (fun _ => true) demo_float) (p_steps p)).
Proof. vm_compute. repeat split. Qed.
Print Assumptions C06_wf_nonvacuous.
