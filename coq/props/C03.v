(* C03 — removing or replacing a definition leaves no trace (history independence).
   Statements only; proofs in proofs/ManagerInv.v, ManagerHist.v, ManagerDataInv.v. *)
From Coq Require Import List Bool Arith ZArith NArith Permutation.
From XD Require Import lib.ListAux lib.Toposort model.Manager model.ManagerData
  proofs.ManagerIdx proofs.ManagerInv proofs.ManagerHist proofs.ManagerTrace proofs.ManagerDataInv proofs.ManagerExtra.
From XD Require Import model.TasksSem model.TasksSemData gen.GenTasks gen.GenTasksData proofs.TasksSrc proofs.TasksSrcData proofs.TasksSrcRefresh.
Import ListNotations.
Local Open Scope nat_scope.

Section Generic.
Context {K A : Type}.
Variable eqb : K -> K -> bool.
Hypothesis eqb_spec : forall a b, eqb a b = true <-> a = b.

(* Inv m: with multiplicities,
     rdeps[d][t] = #{A | d in deps A, t in targets A},  deptasks[d][a] = [d in deps a],
     tartasks[t][a] = [t in targets a],                 rtasks[a][b] = |targets a /\ deps b|
   over the registered tasks only. *)
Theorem C03_inv_register : forall (T : @task K A) (m : @mgr K A),
  Inv eqb m -> aget eqb (t_id T) (m_tasks m) = None -> NoDup (t_deps T) -> NoDup (t_targets T) ->
  Inv eqb (register_nofreeze eqb T m) /\
  m_tasks (register_nofreeze eqb T m) = m_tasks m ++ [(t_id T, T)] /\
  m_frozen (register_nofreeze eqb T m) = m_frozen m.
Proof. exact (register_Inv eqb eqb_spec). Qed.

Theorem C03_inv_unregister : forall tid (T : @task K A) (m : @mgr K A),
  Inv eqb m -> aget eqb tid (m_tasks m) = Some T -> m_frozen m = false ->
  exists m', unregister eqb tid m = Ok m' /\ Inv eqb m' /\
             m_tasks m' = adrop eqb tid (m_tasks m) /\ m_frozen m' = false.
Proof. exact (unregister_Inv eqb eqb_spec). Qed.

(* the indices are a function of the surviving task set: two managers with the
   same tasks (in any order, reached by any histories) agree on every count,
   hence on every query derived from the indices *)
Theorem C03_history_independent : forall (m1 m2 : @mgr K A),
  Inv eqb m1 -> Inv eqb m2 -> Permutation (m_tasks m1) (m_tasks m2) ->
  (forall d t, icount eqb (m_rdeps m1) d t = icount eqb (m_rdeps m2) d t) /\
  (forall d a, icount eqb (m_deptasks m1) d a = icount eqb (m_deptasks m2) d a) /\
  (forall t a, icount eqb (m_tartasks m1) t a = icount eqb (m_tartasks m2) t a) /\
  (forall a b, icount eqb (m_rtasks m1) a b = icount eqb (m_rtasks m2) a b).
Proof. exact (history_independent eqb eqb_spec). Qed.

(* refresh() regenerates exactly the manager clone() builds, which satisfies the
   invariant over the same tasks: regeneration never changes a count *)
Theorem C03_refresh_is_clone : forall (m : @mgr K A),
  tasks_wf eqb (m_tasks m) -> m_frozen m = false -> refresh eqb m = Ok (clone eqb m).
Proof. exact (refresh_is_clone eqb eqb_spec). Qed.

Theorem C03_clone_identity : forall (m : @mgr K A),
  Inv eqb m -> Inv eqb (clone eqb m) /\ m_tasks (clone eqb m) = m_tasks m.
Proof. exact (clone_Inv eqb eqb_spec). Qed.

(* the consistency self-check succeeds on every manager satisfying the invariant *)
Theorem C03_verify_ok : forall (m : @mgr K A),
  Inv eqb m -> exists m', verify eqb m = Ok m' /\ Inv eqb m' /\ m_tasks m' = m_tasks m.
Proof. exact (verify_ok eqb eqb_spec). Qed.
(* the query "dependants of a location" (ref._find_dependant_targets / find_deps) on every
   manager satisfying the invariant: exactly the locations reachable through "some surviving
   task reads d and writes t", each once, sources first — a function of the surviving tasks *)
Theorem C03_find_deps : forall (m : @mgr K A) start,
  Inv eqb m ->
  let L := find_deps eqb m start in
  NoDup L /\
  (forall w, In w L <-> exists r, In r start /\ clos (influences eqb (m_tasks m)) r w) /\
  (forall u v, In u L -> influences eqb (m_tasks m) u v -> before u v L \/ clos (influences eqb (m_tasks m)) v u).
Proof. exact (find_deps_spec eqb eqb_spec). Qed.
End Generic.

(* after every history of assignments (value / expression / in-place), register,
   unregister, load, refresh, verify, cleanup, freeze, unfreeze, faulty or not,
   the invariant holds *)
Theorem C03_reachable : forall ops m s,
  Inv path_eqb m -> ops_wf m s ops -> Inv path_eqb (fst (final_mgr m s ops)).
Proof. exact reachable_Inv. Qed.

Theorem C03_empty : Inv path_eqb (@empty_mgr path action).
Proof. exact (Inv_empty path_eqb). Qed.

(* non-vacuity: a history over a nested container (one task's target is a sibling
   of another task's dependency), with a replacement and a removal, is well-formed *)
Definition ex_c := 1%N. Definition ex_n := 2%N. Definition ex_x := 3%N. Definition ex_y := 4%N. Definition ex_z := 5%N.
Definition ex_st := mkD (Dict [(ex_c, Dict [(ex_n, Dict [(ex_x, Leaf 1); (ex_y, Leaf 2); (ex_z, Leaf 0)])])]) [] None.
Definition ex_ops :=
  [MSet [ex_c; ex_n; ex_z] (SExpr (EBin BAdd (ERef [ex_c; ex_n; ex_x]) (EConst 1)) [[ex_c; ex_n]; [ex_c; ex_n; ex_x]] [[ex_c; ex_n]; [ex_c; ex_n; ex_z]])
        [[ex_c; ex_n]; [ex_c; ex_n; ex_z]] [[ex_c; ex_n; ex_z]];
   MSet [ex_c; ex_n; ex_y] (SExpr (ERef [ex_c; ex_n; ex_z]) [[ex_c; ex_n]; [ex_c; ex_n; ex_z]] [[ex_c; ex_n]; [ex_c; ex_n; ex_y]])
        [[ex_c; ex_n]; [ex_c; ex_n; ex_y]] [[ex_c; ex_n; ex_z]; [ex_c; ex_n; ex_y]];
   MSet [ex_c; ex_n; ex_z] (SPlain (Leaf 5)) [[ex_c; ex_n]; [ex_c; ex_n; ex_z]] [[ex_c; ex_n; ex_y]];
   MUnregister [ex_c; ex_n; ex_y]].

Example C03_nonvacuous :
  ops_wf empty_mgr ex_st ex_ops /\
  map (fun r => o_err (snd r)) (run_hist empty_mgr ex_st ex_ops) = [None; None; None; None] /\
  m_tasks (fst (final_mgr empty_mgr ex_st ex_ops)) = [].
Proof.
  split; [|split; vm_compute; reflexivity].
  vm_compute. repeat split; repeat constructor; cbn; intuition discriminate.
Qed.

(* ---- tie to the source: gen/GenTasks.v is regenerated from xdeps/tasks.py and xdeps/refs.py on every
   run (tools/py2v/gen_tasks.py); the translated register / unregister / RefCount methods ARE the
   functions the theorems above speak about, for every manager and every task *)
Theorem C03_register_is_source : forall (K A : Type) (eqb : K -> K -> bool) (t : @task K A) (m : @mgr K A),
  src_register eqb t m = register eqb t m.
Proof. intros K A eqb. exact (src_register_eq eqb). Qed.

Theorem C03_register_is_source_paths : forall (t : dtask) (m : dmgr),
  src_register path_eqb t m = register path_eqb t m.
Proof. exact (src_register_eq path_eqb). Qed.

Theorem C03_unregister_is_source_paths : forall (tid : path) (m : dmgr),
  src_unregister path_eqb tid m = unregister path_eqb tid m.
Proof. exact (src_unregister_eq path_eqb path_eqb_spec). Qed.

Theorem C03_refcount_is_source : forall (k : path) (ks : list path) (rc : @refcount path),
  src_rc_append path_eqb k rc = Ok (rc_append path_eqb k rc) /\
  src_rc_extend path_eqb ks rc = Ok (rc_extend path_eqb ks rc) /\
  src_rc_remove path_eqb k rc = match rc_remove path_eqb k rc with Some r => Ok r | None => Err EKey end.
Proof. intros k ks rc. split; [apply src_rc_append_eq|split; [apply src_rc_extend_eq|apply src_rc_remove_eq]]. Qed.

(* the translated Manager.refresh is the model's refresh (frozen guard first, then the four indices rebuilt
   from the task list, then cleanup); the translated cleanup is the model's cleanup on every manager whose
   indices have duplicate-free keys (every reachable one: Inv implies it) *)
Theorem C03_refresh_is_source : forall (m : dmgr), src_refresh path_eqb m = refresh path_eqb m.
Proof. exact (src_refresh_eq path_eqb path_eqb_spec). Qed.

Theorem C03_cleanup_is_source : forall (m : dmgr), Inv path_eqb m -> src_cleanup path_eqb m = Ok (cleanup m).
Proof.
  intros m (W & _). apply (src_cleanup_eq path_eqb path_eqb_spec). now apply (mwf_keys_ok path_eqb).
Qed.

(* the translated Manager.load (after the texts were evaluated to (target, expression) pairs) is the model's MLoad step *)
Theorem C03_load_is_source : forall (s : dstate) ow dump (m : dmgr) tr,
  src_load dump ow (m, s, tr) =
  let '(m', s', out) := step m s (MLoad (map load_task dump) ow) in ((m', s', tr), res_of (o_err out)).
Proof. exact src_load_eq. Qed.

(* the translated Manager.clone and Manager.verify are the model's (verify on managers whose indices have duplicate-free keys) *)
Theorem C03_clone_is_source : forall (m : dmgr), src_clone path_eqb m = Ok (clone path_eqb m).
Proof. exact (src_clone_eq path_eqb path_eqb_spec). Qed.

Theorem C03_verify_is_source : forall (m : dmgr), Inv path_eqb m -> src_verify path_eqb m = verify path_eqb m.
Proof. intros m (W & _). apply (src_verify_eq path_eqb path_eqb_spec). now apply (mwf_keys_ok path_eqb). Qed.

Print Assumptions C03_inv_register.
Print Assumptions C03_inv_unregister.
Print Assumptions C03_history_independent.
Print Assumptions C03_refresh_is_clone.
Print Assumptions C03_clone_identity.
Print Assumptions C03_verify_ok.
Print Assumptions C03_find_deps.
Print Assumptions C03_reachable.
Print Assumptions C03_empty.
Print Assumptions C03_nonvacuous.
Print Assumptions C03_register_is_source.
Print Assumptions C03_register_is_source_paths.
Print Assumptions C03_unregister_is_source_paths.
Print Assumptions C03_refcount_is_source.
Print Assumptions C03_refresh_is_source.
Print Assumptions C03_cleanup_is_source.
Print Assumptions C03_load_is_source.
Print Assumptions C03_clone_is_source.
Print Assumptions C03_verify_is_source.
