(* The translated Manager.cleanup and Manager.refresh (coq/gen/GenTasks.v) are the
   model's cleanup (on indices with duplicate-free keys, as every reachable manager
   has) and refresh (unconditionally). *)
From Coq Require Import List Bool Arith Lia.
From XD Require Import lib.ListAux lib.Toposort model.Manager model.TasksSem gen.GenTasks
  proofs.TasksSrc proofs.ManagerIdx proofs.ManagerInv.
Import ListNotations.

Section R.
Context {K A : Type}.
Variable eqb : K -> K -> bool.
Hypothesis eqb_spec : forall a b, eqb a b = true <-> a = b.

Notation mgrT := (@mgr K A).
Notation MT := (@M K A).

Definition emptyb (p : K * @refcount K) : bool := Nat.eqb (length (snd p)) 0.

Definition cstep (cur : @index K) (p : K * @refcount K) : @index K :=
  if emptyb p then adrop eqb (fst p) cur else cur.

Lemma adrop_filter {V} k (l : list (K * V)) : adrop eqb k l = filter (fun p => negb (eqb k (fst p))) l.
Proof. induction l as [|[k' v] t IH]; cbn; auto. destruct (eqb k k'); cbn; now rewrite IH. Qed.

Lemma filter_filter {X} (f g : X -> bool) l : filter f (filter g l) = filter (fun x => g x && f x) l.
Proof. induction l as [|x t IH]; cbn; auto. destruct (g x); cbn; [destruct (f x); cbn; now rewrite IH|exact IH]. Qed.

Lemma fold_cstep_filter l : forall cur,
  fold_left cstep l cur =
  filter (fun q => negb (existsb (fun p => emptyb p && eqb (fst p) (fst q)) l)) cur.
Proof.
  induction l as [|p l IH]; intros cur; cbn [fold_left existsb].
  - induction cur as [|x t IHc]; cbn; [reflexivity|]. cbn in IHc. now rewrite <- IHc.
  - rewrite IH. unfold cstep. destruct (emptyb p) eqn:E; cbn [andb orb].
    + rewrite adrop_filter, filter_filter. apply filter_ext. intros q. now rewrite negb_orb.
    + reflexivity.
Qed.

Lemma keys_inj (d : @index K) p q : NoDup (map fst d) -> In p d -> In q d -> fst p = fst q -> p = q.
Proof.
  induction d as [|x t IH]; cbn; intros Hn Hp Hq He; [destruct Hp|]. inversion Hn; subst.
  destruct Hp as [->|Hp], Hq as [->|Hq]; auto.
  - exfalso. apply H1. rewrite He. now apply in_map.
  - exfalso. apply H1. rewrite <- He. now apply in_map.
Qed.

Lemma cleanup_index_fold (d : @index K) : NoDup (map fst d) -> fold_left cstep d d = cleanup_index d.
Proof.
  intros Hn. rewrite fold_cstep_filter. unfold cleanup_index. apply filter_ext_in. intros q Hq. f_equal.
  change (Nat.eqb (length (snd q)) 0) with (emptyb q).
  destruct (emptyb q) eqn:E.
  - apply existsb_exists. exists q. split; [exact Hq|]. cbn beta. rewrite E. cbn. apply (eqb_refl eqb eqb_spec).
  - destruct (existsb (fun p => emptyb p && eqb (fst p) (fst q)) d) eqn:X; [|exact X].
    apply existsb_exists in X. destruct X as (p & Hp & Hb).
    cbn beta in Hb. apply andb_true_iff in Hb. destruct Hb as [Hb1 Hb2]. apply eqb_spec in Hb2.
    rewrite (keys_inj d p q Hn Hp Hq Hb2) in Hb1. congruence.
Qed.

Lemma items_loop_cleanup i : forall (l : @index K) (m : mgrT),
  NoDup (map fst l) -> (forall k, In k (map fst l) -> aget eqb k (ix_get i m) <> None) ->
  items_loop l (fun kk ss => if_empty ss (del_key eqb i kk)) m = Ok (ix_set i (fold_left cstep l (ix_get i m)) m).
Proof.
  induction l as [|p r IH]; intros m Hn Hk; cbn [items_loop fold_left].
  - unfold ret. now rewrite (ix_set_get i m).
  - inversion Hn; subst. unfold seq, if_empty, cstep, emptyb. destruct (Nat.eqb (length (snd p)) 0).
    + unfold del_key. destruct (aget eqb (fst p) (ix_get i m)) eqn:E; [|exfalso; apply (Hk (fst p)); [now left|exact E]].
      rewrite IH; [now rewrite ix_get_set, ix_set_set|exact H2|].
      intros k Hin. rewrite ix_get_set, (aget_adrop_other eqb eqb_spec); [apply Hk; now right|].
      intros Heq. rewrite <- Heq in Hin. contradiction.
    + unfold ret. apply IH; [exact H2|]. intros k Hin. apply Hk. now right.
Qed.

Lemma for_items_cleanup i (m : mgrT) : NoDup (map fst (ix_get i m)) ->
  for_items i (fun kk ss => if_empty ss (del_key eqb i kk)) m = Ok (ix_set i (cleanup_index (ix_get i m)) m).
Proof.
  intros Hn. unfold for_items. rewrite items_loop_cleanup; [now rewrite cleanup_index_fold|exact Hn|].
  intros k Hin E. apply (aget_None_keys eqb eqb_spec) in E. contradiction.
Qed.

Definition keys_ok (m : mgrT) : Prop :=
  NoDup (map fst (m_rdeps m)) /\ NoDup (map fst (m_rtasks m)) /\ NoDup (map fst (m_deptasks m)) /\ NoDup (map fst (m_tartasks m)).

Theorem src_cleanup_eq (m : mgrT) : keys_ok m -> src_cleanup eqb m = Ok (cleanup m).
Proof.
  intros (H1 & H2 & H3 & H4). unfold src_cleanup. cbn [for_indices]. unfold seq.
  rewrite (for_items_cleanup IRdeps m H1).
  rewrite (for_items_cleanup IRtasks); [|exact H2].
  rewrite (for_items_cleanup IDeptasks); [|exact H3].
  rewrite (for_items_cleanup ITartasks); [|exact H4].
  reflexivity.
Qed.

Lemma mwf_keys_ok (m : mgrT) : mwf eqb m -> keys_ok m.
Proof. intros ((A1 & _) & (A2 & _) & (A3 & _) & (A4 & _)). repeat split; assumption. Qed.

(* ---- refresh ---------------------------------------------------------------------------------- *)
Lemma register_nofreeze_mwf (T : @task K A) (m : mgrT) : mwf eqb m ->
  mwf eqb (register_nofreeze eqb T m) /\ m_frozen (register_nofreeze eqb T m) = m_frozen m.
Proof.
  intros W. unfold register_nofreeze.
  set (m0 := mkMgr (aset eqb (t_id T) T (m_tasks m)) (m_rdeps m) (m_rtasks m) (m_deptasks m) (m_tartasks m) (m_frozen m)).
  assert (W0 : mwf eqb m0) by exact W.
  destruct (reg_deps_effect eqb eqb_spec (t_id T) (t_targets T) (t_deps T) m0 W0) as (W1 & _ & F1 & _).
  destruct (reg_tars_effect eqb eqb_spec (t_id T) (t_targets T) _ W1) as (W2 & _ & F2 & _).
  split; [exact W2|]. rewrite F2, F1. reflexivity.
Qed.

Lemma tasks_loop_register l : forall m : mgrT, mwf eqb m -> m_frozen m = false ->
  let m' := fold_left (fun o p => register_nofreeze eqb (snd p) o) l m in
  tasks_loop l (fun task => src_register eqb task) m = Ok m' /\ mwf eqb m'.
Proof.
  induction l as [|p l IH]; intros m W F; cbn [tasks_loop fold_left]; [split; [reflexivity|exact W]|].
  unfold seq. rewrite src_register_eq. unfold register. rewrite F.
  destruct (register_nofreeze_mwf (snd p) m W) as (W' & F').
  apply IH; [exact W'|congruence].
Qed.

Theorem src_refresh_eq (m : mgrT) : src_refresh eqb m = refresh eqb m.
Proof.
  unfold src_refresh, refresh. unfold seq at 1. unfold raise_if_frozen.
  destruct (m_frozen m) eqn:F; [reflexivity|].
  unfold seq, reset_index. cbn [ix_set m_tasks m_rdeps m_rtasks m_deptasks m_tartasks m_frozen].
  unfold for_tasks. cbn [m_tasks]. rewrite F.
  set (o1 := mkMgr (m_tasks m) [] [] [] [] false).
  assert (W1 : mwf eqb o1).
  { unfold mwf, o1. cbn [m_rdeps m_rtasks m_deptasks m_tartasks]. pose proof (idx_wf_nil eqb) as Hnil. tauto. }
  destruct (tasks_loop_register (m_tasks m) o1 W1 eq_refl) as (E & W). rewrite E.
  apply src_cleanup_eq. now apply mwf_keys_ok.
Qed.

(* ---- clone / verify ------------------------------------------------------------------------------ *)
Lemma mwf_empty : mwf eqb (@empty_mgr K A).
Proof. unfold mwf, empty_mgr. cbn [m_rdeps m_rtasks m_deptasks m_tartasks]. pose proof (idx_wf_nil eqb) as Hnil. tauto. Qed.

Theorem src_clone_eq (m : mgrT) : src_clone eqb m = Ok (clone eqb m).
Proof.
  unfold src_clone, clone, seq.
  destruct (tasks_loop_register (m_tasks m) empty_mgr mwf_empty eq_refl) as (E & W). rewrite E.
  apply src_cleanup_eq. now apply mwf_keys_ok.
Qed.

Theorem src_verify_eq (m : mgrT) : keys_ok m -> src_verify eqb m = verify eqb m.
Proof.
  intros Hk. unfold src_verify, verify. rewrite (src_cleanup_eq m Hk), src_clone_eq.
  cbn [forallb ix_get]. unfold verify_index. rewrite andb_true_r, !andb_assoc. reflexivity.
Qed.

End R.
