(* The lemmas behind the theorems of props/C09.v, C10.v (except limits,
   max_step, non-interference) and C15.v, for every environment E (carrier,
   operations, oracles) and every configuration. *)
From Coq Require Import List Bool Arith NArith ZArith Lia.
From XD Require Import model.Opt proofs.OptBase proofs.OptInner proofs.OptOuter.
Import ListNotations.

Section Thm.
  Variable E : env.
  Notation F := (eF E).
  Variable cf : cfg F.
  Notation state := (state F).
  Notation row := (row F).
  Notation ws := (c_w cf).
  Notation truthful := (truthful E cf).
  Notation synced := (synced E cf).
  Notation rt_write := (rt_write E cf).

  (* every active target (flags [act]) of the evaluation result r is within
     its tolerance: |transform_i(r_i) - value_i| < tol_i, where transform_i is the
     target's `transform` hook (the identity when it has none) *)
  Definition within_tol (act : list bool) (r : list F) : Prop :=
    forall i ri v t, nth_error act i = Some true -> nth_error r i = Some ri ->
      nth_error (c_tval cf) i = Some v -> nth_error (c_tol cf) i = Some t ->
      e_ltb E (e_abs E (e_sub E (apply_tr E (tr_at E cf i) ri) v)) t = true.

  Lemma synced_flag s : synced s -> lpwt s = true ->
    exists r, e_f E (knobs s) = Some r /\ lres s = r /\ within_tol (ta s) r.
  Proof.
    intros (out & r & H1 & H2 & H3 & H4 & H5) Hl. exists r. split; auto. split; auto.
    intros i ri v t Ha Hr Hv Ht. rewrite H4 in Hl.
    pose proof (within_nth E cf r i ri v t Hr Hv Ht) as Hw.
    exact (all_ok_spec _ _ Hl i Ha _ Hw).
  Qed.

  (* ---- clear_log, reload(tag=...) -------------------------------------------------- *)
  Lemma reload_tag_cases t s :
    reload_tag E cf t s = Err EValue s \/ exists i, reload_tag E cf t s = reload E cf i s.
  Proof. unfold reload_tag. destruct (last_with_tag E t 0 (log s) None); eauto. Qed.

  (* ---- C09 ---------------------------------------------------------------------------- *)
  Definition evaluating (o : op) : Prop :=
    match o with
    | OStep _ _ a _ => a = no_args
    | OSolve _ _ _ | OReload _ | OReloadTag _ | OTag _ | OClear => True
    | OEnable _ _ _ | ODisable _ _ _ => False
    end.

  Lemma op_synced fuel o s s' : run_op E cf fuel o s = Ok s' -> evaluating o -> synced s'.
  Proof.
    destruct o as [nn tb a b|nn tb b|i|t|t| |t v vn|t v vn]; cbn; intros H Hev; try tauto.
    - subst a. rewrite opt_step_no_args in H. pose proof (step_core_spec E cf fuel nn tb b (pre_clip E cf s)) as P.
      rewrite H in P. cbn in P. tauto.
    - pose proof (solve_spec E cf fuel nn tb b s) as P. rewrite H in P. cbn in P. tauto.
    - pose proof (reload_spec E cf i s) as P. rewrite H in P. cbn in P.
      destruct P as (r & r' & P). tauto.
    - destruct (reload_tag_cases t s) as [Hc|[i Hc]]; rewrite Hc in H; [discriminate|].
      pose proof (reload_spec E cf i s) as P. rewrite H in P. cbn in P. destruct P as (r & r' & P). tauto.
    - pose proof (add_point_spec E cf t s) as P. rewrite H in P. cbn in P. tauto.
    - unfold clear_log in H. pose proof (add_point_spec E cf 0%N (set_log s [])) as P. rewrite H in P. cbn in P. tauto.
  Qed.

  Lemma flag_invariant fuel o s s' : run_op E cf fuel o s = Ok s' -> evaluating o -> lpwt s' = true ->
    exists r, e_f E (knobs s') = Some r /\ lres s' = r /\ within_tol (ta s') r.
  Proof. intros H Hev Hl. apply synced_flag; auto. eapply op_synced; eauto. Qed.

  Lemma solve_success fuel nn tb b s s' :
    solve E cf fuel nn tb b s = Ok s' -> c_assert cf = true ->
    exists r, e_f E (knobs s') = Some r /\ within_tol (ta s') r.
  Proof.
    intros H Ha. pose proof (solve_spec E cf fuel nn tb b s) as P. rewrite H in P. cbn in P.
    destruct P as (_ & Sy & Hl & _). destruct (synced_flag s' Sy (Hl Ha)) as (r & H1 & _ & H3). eauto.
  Qed.

  Lemma solve_failure_restores fuel nn tb b s e s' r0 rest :
    solve E cf fuel nn tb b s = Err e s' -> c_restore cf = true -> log s = r0 :: rest ->
    va s' = r_va r0 /\ ta s' = r_ta r0 /\ rt_rel E ws (r_knobs r0) (knobs s').
  Proof.
    intros H Hr Hl. pose proof (solve_spec E cf fuel nn tb b s) as P. rewrite H in P. cbn in P.
    destruct P as (_ & _ & P). destruct (P Hr _ _ Hl) as (A & B & C). rewrite C. repeat split; auto.
    apply rt_write_rel.
  Qed.

  Lemma solve_failure_restores_unit fuel nn tb b s e s' r0 rest :
    (forall x, e_mul E (e_div E x (e_one E)) (e_one E) = x) -> Forall (fun w => w = e_one E) ws ->
    solve E cf fuel nn tb b s = Err e s' -> c_restore cf = true -> log s = r0 :: rest ->
    va s' = r_va r0 /\ ta s' = r_ta r0 /\ knobs s' = r_knobs r0.
  Proof.
    intros Hu Hw H Hr Hl. destruct (solve_failure_restores _ _ _ _ _ _ _ _ _ H Hr Hl) as (A & B & C).
    repeat split; auto. eapply rt_rel_unit; eauto.
  Qed.

  (* ---- C15: rows --------------------------------------------------------------------- *)
  Lemma op_rows_truthful fuel o s :
    Forall truthful (log s) ->
    post (run_op E cf fuel o s) (fun s' => Forall truthful (log s')) (fun e s' => Forall truthful (log s')).
  Proof.
    intros Hs.
    assert (Hext : forall s', ext_truth E cf s s' -> Forall truthful (log s')).
    { intros s' (m & L & Fm). rewrite L. apply Forall_app; auto. }
    assert (Hrel : forall i, post (reload E cf i s) (fun s' => Forall truthful (log s')) (fun e s' => Forall truthful (log s'))).
    { intros i. eapply post_weaken; [apply reload_spec| |].
      - intros s' (r & r' & _ & _ & _ & _ & L & _ & _ & _ & _ & T & _). rewrite L. apply Forall_app; auto.
      - intros e s' [[_ ->]|(r & _ & _ & _ & _ & L & _)]; auto. rewrite L; auto. }
    destruct o as [nn tb a b|nn tb b|i|t|t| |t v vn|t v vn]; cbn.
    - unfold opt_step. destruct (pre_flags_data E cf a (pre_clip E cf s)) as (_ & Lp & _).
      destruct (pre_clip_facts E cf s) as (_ & _ & Lc & _). rewrite Lc in Lp.
      eapply post_bind'; [apply step_core_spec| |].
      + intros e s' (_ & X). apply ext_rows_truth in X. destruct X as (m & L & Fm). rewrite L, Lp.
        apply Forall_app; auto.
      + intros s1 (_ & _ & _ & (r0 & M & extra & L & _ & Fm & _)). unfold post.
        destruct (post_flags_data E cf a s1) as (_ & Lq & _). rewrite Lq, L, Lp. apply Forall_app; split; auto.
        eapply Forall_impl; [|exact Fm]. intros r [H _]; exact H.
    - eapply post_weaken; [apply solve_spec| |].
      + intros s' (_ & _ & _ & X). auto.
      + intros e s' (X & _). auto.
    - apply Hrel.
    - destruct (reload_tag_cases t s) as [Hc|[i Hc]]; rewrite Hc; [cbn; auto|apply Hrel].
    - eapply post_weaken; [apply add_point_spec| |].
      + intros s' (_ & _ & _ & _ & _ & (r & L & _ & _ & _ & _ & T)). rewrite L. apply Forall_app; auto.
      + intros e s' (_ & L & _). rewrite L; auto.
    - unfold clear_log. eapply post_weaken; [apply add_point_spec| |].
      + intros s' (_ & _ & _ & _ & _ & (r & L & _ & _ & _ & _ & T)). rewrite L. cbn. auto.
      + intros e s' (_ & L & _). rewrite L; cbn; auto.
    - exact Hs.
    - exact Hs.
  Qed.

  (* states reachable from a constructed optimizer by any sequence of
     operations, failing ones included *)
  Inductive reach (s0 : state) : state -> Prop :=
  | reach_refl : reach s0 s0
  | reach_ok s1 fuel o s2 : reach s0 s1 -> run_op E cf fuel o s1 = Ok s2 -> reach s0 s2
  | reach_err s1 fuel o e s2 : reach s0 s1 -> run_op E cf fuel o s1 = Err e s2 -> reach s0 s2
  (* a foreign call (run_simplex, run_ls_trf, status tables, views of the merit function, direct
     assignments by the user ...): anything may change except the rows already logged; the rows such
     calls append are appended by tag() *)
  | reach_havoc s1 s2 : reach s0 s1 -> log s2 = log s1 -> reach s0 s2.

  Lemma rows_truthful k0 va0 s0 s :
    init E cf k0 va0 = Ok s0 -> reach s0 s -> Forall truthful (log s).
  Proof.
    intros Hi Hr. induction Hr as [|s1 fuel o s2 Hr IH Ho|s1 fuel o e s2 Hr IH Ho|s1 s2 Hr IHHr H].
    - unfold init in Hi. destruct (e_f E k0); [|discriminate].
      pose proof (add_point_spec E cf 0%N (pre_init E cf k0 va0)) as P.
      destruct (c_check cf).
      + rewrite Hi in P. cbn in P.
        destruct P as (_ & _ & _ & _ & _ & (r & L & _ & _ & _ & _ & T)). rewrite L. cbn. auto.
      + destruct (add_point E cf 0%N (pre_init E cf k0 va0)) as [s1|e1 s1|]; cbn in Hi; try discriminate.
        cbn in P. destruct P as (_ & _ & _ & _ & _ & (r & L & _ & _ & _ & _ & T)).
        pose proof (add_point_spec E cf 0%N (set_knobs s1 (clip_knobs E (va s1) (c_lim cf) (knobs s1)))) as P2.
        rewrite Hi in P2. cbn in P2. destruct P2 as (_ & _ & _ & _ & _ & (r2 & L2 & _ & _ & _ & _ & T2)).
        rewrite L2. stsimpl. rewrite L. cbn. auto.
    - pose proof (op_rows_truthful fuel o s1 IH) as P. rewrite Ho in P. exact P.
    - pose proof (op_rows_truthful fuel o s1 IH) as P. rewrite Ho in P. exact P.
    - rewrite H. exact IHHr.
  Qed.

  (* the row add_point_to_log writes is a function of the container values and the
     active flags only: no other field of the state (solver x, masks, last-evaluation
     fields, counters, earlier rows) influences it *)
  Lemma add_point_frame tg s1 s2 :
    knobs s1 = knobs s2 -> va s1 = va s2 -> ta s1 = ta s2 ->
    match add_point E cf tg s1, add_point E cf tg s2 with
    | Ok a, Ok b => exists r, log a = log s1 ++ [r] /\ log b = log s2 ++ [r] /\ knobs a = knobs b
    | Err e1 a, Err e2 b => e1 = e2 /\ knobs a = knobs b /\ log a = log s1 /\ log b = log s2
    | Div, Div => True
    | _, _ => False
    end.
  Proof.
    intros K V T. unfold add_point, solver_eval, merit_call. rewrite <- K, <- V, <- T.
    destruct (write_knobs E (c_check cf) (va s1) (c_lim cf) (x_to_knobs E cf (knobs_to_x E cf (knobs s1))) (knobs s1)) as [k' e].
    destruct e; [cbn; auto|].
    destruct (e_f E k') as [r|]; [|cbn; auto].
    destruct (log_bad E (ta s1) (c_tlog cf) r (c_tval cf)); cbn; [auto|].
    eexists. stsimpl. split; [reflexivity|]. split; [rewrite V, T; reflexivity|reflexivity].
  Qed.

  Lemma truthful_unit r :
    (forall x, e_mul E (e_div E x (e_one E)) (e_one E) = x) -> Forall (fun w => w = e_one E) ws ->
    truthful r ->
    exists res, e_f E (r_knobs r) = Some res /\ r_targets r = res /\ r_tolmet r = within E cf res /\
                r_pen r = e_pen E (merit_out E cf (r_ta r) res).
  Proof.
    intros Hu Hw (kk & res & H1 & H2). apply (rt_rel_unit E ws _ _ Hu Hw) in H1. subst kk. exists res. exact H2.
  Qed.

  (* ---- C15: reload ---------------------------------------------------------------------- *)
  Lemma reload_row i s s' :
    reload E cf i s = Ok s' ->
    exists r r', nth_error (log s) i = Some r /\ va s' = r_va r /\ ta s' = r_ta r /\
      rt_rel E ws (r_knobs r) (knobs s') /\ knobs s' = rt_write (r_va r) (r_knobs r) /\
      log s' = log s ++ [r'] /\ r_knobs r' = r_knobs r /\ r_va r' = r_va r /\ r_ta r' = r_ta r /\ truthful r'.
  Proof.
    intros H. pose proof (reload_spec E cf i s) as P. rewrite H in P. cbn in P.
    destruct P as (r & r' & Hn & V & T & K & L & Q1 & Q2 & Q3 & Q4 & Q5 & _).
    exists r, r'. rewrite K. repeat split; auto. apply rt_write_rel.
  Qed.

  Lemma reload_row_unit i s s' :
    (forall x, e_mul E (e_div E x (e_one E)) (e_one E) = x) -> Forall (fun w => w = e_one E) ws ->
    Forall truthful (log s) -> reload E cf i s = Ok s' ->
    exists r r', nth_error (log s) i = Some r /\ va s' = r_va r /\ ta s' = r_ta r /\ knobs s' = r_knobs r /\
      log s' = log s ++ [r'] /\ r_knobs r' = r_knobs r /\ r_va r' = r_va r /\ r_ta r' = r_ta r /\
      r_targets r' = r_targets r /\ r_pen r' = r_pen r /\ r_tolmet r' = r_tolmet r.
  Proof.
    intros Hu Hw Hl H. destruct (reload_row i s s' H) as (r & r' & Hn & V & T & Rt & K & L & Q1 & Q2 & Q3 & Q5).
    assert (Tr : truthful r) by (eapply Forall_forall; [exact Hl|eapply nth_error_In; eauto]).
    destruct (truthful_unit r Hu Hw Tr) as (res & A1 & A2 & A3 & A4).
    destruct (truthful_unit r' Hu Hw Q5) as (res' & B1 & B2 & B3 & B4).
    rewrite Q1 in B1. assert (res' = res) by congruence. subst res'.
    exists r, r'. repeat split; auto; try congruence.
    eapply rt_rel_unit; eauto.
  Qed.

  (* ---- C15: take_best ---------------------------------------------------------------- *)
  Section ArgMin.
    Hypothesis ltb_trans : forall a b c : F, e_ltb E a b = true -> e_ltb E b c = true -> e_ltb E a c = true.
    Hypothesis ltb_irrefl : forall a : F, e_ltb E a a = false.
    (* nothing is below a NaN (b <= b fails exactly for NaN) *)
    Hypothesis nan_cmp : forall a b : F, e_leb E b b = false -> e_ltb E a b = false.

    Lemma first_nan_spec : forall l k i, first_nan E k l = Some i ->
      exists j p, i = k + j /\ nth_error l j = Some p /\ e_leb E p p = false.
    Proof.
      induction l as [|p l IH]; intros k i H; cbn in H; [discriminate|].
      destruct (isnan E p) eqn:Hp.
      - inversion H; subst. exists 0, p. split; [lia|]. split; auto. unfold isnan in Hp.
        destruct (e_leb E p p); auto; discriminate.
      - destruct (IH _ _ H) as (j & q & A & B & C). exists (S j), q. split; [lia|]. auto.
    Qed.

    Lemma argmin_from_spec : forall l best bp i, best < i ->
      exists v, ((argmin_from E best bp i l = best /\ v = bp) \/
                 (exists j, argmin_from E best bp i l = i + j /\ nth_error l j = Some v /\ e_ltb E v bp = true)) /\
                e_ltb E bp v = false /\ (forall e, In e l -> e_ltb E e v = false).
    Proof.
      induction l as [|p l IH]; intros best bp i Hlt; cbn [argmin_from].
      - exists bp. split; [left; auto|]. split; auto. intros e [].
      - destruct (e_ltb E p bp) eqn:Hp.
        + destruct (IH i p (S i) (Nat.lt_succ_diag_r i)) as (v & Hc & H1 & H2).
          exists v. split; [right|split].
          * destruct Hc as [[Hr ->]|(j & Hr & Hn & Hv)].
            -- exists 0. rewrite Hr. split; [lia|]. split; auto.
            -- exists (S j). rewrite Hr. split; [lia|]. split; auto. eapply ltb_trans; eauto.
          * destruct (e_ltb E bp v) eqn:Hb; auto. exfalso.
            destruct Hc as [[_ ->]|(j & _ & _ & Hv)].
            -- pose proof (ltb_trans _ _ _ Hb Hp) as Hx. rewrite ltb_irrefl in Hx. discriminate.
            -- pose proof (ltb_trans _ _ _ (ltb_trans _ _ _ Hb Hv) Hp) as Hx. rewrite ltb_irrefl in Hx. discriminate.
          * intros e [<-|He]; auto.
        + destruct (IH best bp (S i) (Nat.lt_lt_succ_r _ _ Hlt)) as (v & Hc & H1 & H2).
          exists v. split; [|split; auto].
          * destruct Hc as [[Hr ->]|(j & Hr & Hn & Hv)]; [left; auto|right].
            exists (S j). rewrite Hr. split; [lia|]. split; auto.
          * intros e [<-|He]; auto.
            destruct Hc as [[_ ->]|(j & _ & _ & Hv)]; auto.
            destruct (e_ltb E p v) eqn:Hpv; auto. rewrite (ltb_trans _ _ _ Hpv Hv) in Hp. discriminate.
    Qed.

    Lemma argmin_spec l v : nth_error l (argmin E l) = Some v -> forall e, In e l -> e_ltb E e v = false.
    Proof.
      unfold argmin. destruct (first_nan E 0 l) as [i|] eqn:Hf.
      { destruct (first_nan_spec _ _ _ Hf) as (j & p & A & B & C). cbn in A. subst i.
        intros Hn e _. rewrite B in Hn. inversion Hn; subst. apply nan_cmp; auto. }
      destruct l as [|p l]; [intros _ e []|].
      destruct (argmin_from_spec l 0 p 1 Nat.lt_0_1) as (w & Hc & H1 & H2). intros Hn.
      assert (w = v).
      { destruct Hc as [[Hr ->]|(j & Hr & Hj & _)]; rewrite Hr in Hn; cbn in Hn; congruence. }
      subst w. intros e [<-|He]; auto.
    Qed.

    Lemma take_best fuel nn a b s s' :
      opt_step E cf fuel nn true a b s = Ok s' ->
      exists r0 M extra, log s' = log s ++ (r0 :: M) ++ extra /\ r_knobs r0 = knobs (pre_clip E cf s) /\
        ((exists res, e_f E (knobs s') = Some res /\ within_tol (ta (pre_flags E cf a (pre_clip E cf s))) res) \/
         exists rb, In rb (r0 :: M) /\ (forall r, In r (r0 :: M) -> e_ltb E (r_pen r) (r_pen rb) = false) /\
                    rt_rel E ws (r_knobs rb) (knobs s')).
    Proof.
      unfold opt_step. intros H.
      pose proof (step_core_spec E cf fuel nn true b (pre_flags E cf a (pre_clip E cf s))) as P.
      destruct (step_core E cf fuel nn true b (pre_flags E cf a (pre_clip E cf s))) as [s1|e s1|]; cbn in H; try discriminate.
      inversion H; subst s'. unfold post in P.
      destruct P as ((_ & Ft & _) & Sy & _ & (r0 & M & extra & L & Rk & _ & Htb)).
      destruct (pre_flags_data E cf a (pre_clip E cf s)) as (Kp & Lp & _).
      destruct (pre_clip_facts E cf s) as (_ & _ & Lc & _).
      destruct (post_flags_data E cf a s1) as (Kq & Lq & _).
      exists r0, M, extra. rewrite Lq, Kq, L, Lp, Lc, Rk, Kp. split; auto. split; auto.
      destruct (Htb eq_refl) as [Hl|(rb & Hn & Hrt)].
      - left. destruct (synced_flag s1 Sy Hl) as (r & A & _ & B). exists r. rewrite <- Ft. auto.
      - right. exists rb. split; [eapply nth_error_In; eauto|]. split; auto.
        intros r Hr. apply (argmin_spec (map r_pen (r0 :: M)) (r_pen rb)).
        + apply map_nth_error; auto.
        + apply in_map; auto.
    Qed.
  End ArgMin.

  (* ---- C10: disabled knobs, temporary flags --------------------------------------------- *)
  Lemma step_inactive fuel nn tb a b s :
    post (opt_step E cf fuel nn tb a b s)
      (fun s' => kn_inact E (va (pre_flags E cf a (pre_clip E cf s))) (knobs (pre_clip E cf s)) (knobs s'))
      (fun e s' => kn_inact E (va (pre_flags E cf a (pre_clip E cf s))) (knobs (pre_clip E cf s)) (knobs s')).
  Proof.
    unfold opt_step. destruct (pre_flags_data E cf a (pre_clip E cf s)) as (Kp & _).
    eapply post_bind'; [apply step_core_spec| |].
    - intros e s' ((_ & _ & Hk) & _). rewrite Kp in Hk. exact Hk.
    - intros s1 ((_ & _ & Hk) & _). unfold post. destruct (post_flags_data E cf a s1) as (Kq & _).
      rewrite Kq. rewrite Kp in Hk. exact Hk.
  Qed.

  Lemma solve_inactive fuel nn tb b s s' :
    solve E cf fuel nn tb b s = Ok s' -> kn_inact E (va s) (knobs s) (knobs s').
  Proof.
    intros H. pose proof (solve_spec E cf fuel nn tb b s) as P. rewrite H in P. cbn in P.
    destruct P as ((_ & _ & Hk) & _). exact Hk.
  Qed.

  Lemma pre_flags_flags a s1 s2 : va s1 = va s2 -> ta s1 = ta s2 ->
    va (pre_flags E cf a s1) = va (pre_flags E cf a s2) /\ ta (pre_flags E cf a s1) = ta (pre_flags E cf a s2).
  Proof. intros Hv Ht. unfold pre_flags. rewrite !able_va, !able_ta. cbn. rewrite Hv, Ht. auto. Qed.

  Lemma step_flags fuel nn tb a b s s' :
    opt_step E cf fuel nn tb a b s = Ok s' ->
    va s' = va (post_flags E cf a (pre_flags E cf a s)) /\ ta s' = ta (post_flags E cf a (pre_flags E cf a s)).
  Proof.
    unfold opt_step. intros H.
    pose proof (step_core_spec E cf fuel nn tb b (pre_flags E cf a (pre_clip E cf s))) as P.
    destruct (step_core E cf fuel nn tb b (pre_flags E cf a (pre_clip E cf s))) as [s1|e s1|]; cbn in H; try discriminate.
    inversion H; subst s'. unfold post in P. destruct P as ((Fv & Ft & _) & _).
    destruct (pre_clip_facts E cf s) as (Vc & Tc & _).
    destruct (pre_flags_flags a _ _ Vc Tc) as [Pv Pt].
    apply post_flags_flags; congruence.
  Qed.

  (* which positions a list selector names *)
  Definition hits (attr : list N) (l : list entry) (i : nat) : bool :=
    existsb (fun e => match e with
                      | EIdx j => Nat.eqb j i
                      | EName t => match nth_error attr i with Some a => e_match E t a | None => false end
                      end) l.
  Definition hits_opt (attr : list N) (o : option sel) (i : nat) : bool :=
    match o with Some (SList l) => hits attr l i | _ => false end.
  Definition list_sel (o : option sel) : Prop :=
    match o with None | Some (SList _) => True | _ => False end.

  Lemma set_nth_nth {A} j (v : A) l i b : nth_error l i = Some b ->
    nth_error (set_nth j v l) i = Some (if Nat.eqb j i then v else b).
  Proof.
    revert j i; induction l as [|h l IH]; intros [|j] [|i]; cbn; try discriminate; auto.
  Qed.

  Lemma map2_keep_nth (g : N -> bool -> bool) attr flags i b : nth_error flags i = Some b ->
    nth_error (map2_keep g attr flags) i = Some (match nth_error attr i with Some a => g a b | None => b end).
  Proof.
    revert attr i; induction flags as [|y fl IH]; intros [|a attr] [|i]; cbn; try discriminate; auto;
      try (intros H; inversion H; subst; reflexivity).
  Qed.

  Lemma hits_cons attr e l i :
    hits attr (e :: l) i =
    (match e with
     | EIdx j => Nat.eqb j i
     | EName t => match nth_error attr i with Some a => e_match E t a | None => false end
     end) || hits attr l i.
  Proof. reflexivity. Qed.

  Lemma set_flags_list attr st l : forall flags i b, nth_error flags i = Some b ->
    nth_error (set_flags E attr st (Some (SList l)) flags) i = Some (if hits attr l i then st else b).
  Proof.
    cbn [set_flags]. induction l as [|e l IH]; intros flags i b Hb; [cbn; auto|].
    rewrite hits_cons. cbn [fold_left]. destruct e as [j|t]; cbn [set_entry].
    - rewrite (IH _ i _ (set_nth_nth j st flags i b Hb)). destruct (Nat.eqb j i); cbn [orb]; auto.
      destruct (hits attr l i); auto.
    - rewrite (IH _ i _ (map2_keep_nth _ attr flags i b Hb)).
      destruct (nth_error attr i) as [a|]; cbn [orb]; auto. destruct (e_match E t a); cbn [orb]; auto.
      destruct (hits attr l i); auto.
  Qed.

  Lemma set_flags_opt attr st o flags i b : list_sel o -> nth_error flags i = Some b ->
    nth_error (set_flags E attr st o flags) i = Some (if hits_opt attr o i then st else b).
  Proof.
    destruct o as [[| |l]|]; cbn [list_sel]; try tauto; intros _ Hb.
    all: try (apply set_flags_list; auto). all: try (cbn; auto).
  Qed.

  Lemma temporary_restored fuel nn tb dt dv dvn b s s' :
    list_sel dt -> list_sel dv -> list_sel dvn ->
    opt_step E cf fuel nn tb (mkArgs None None None dt dv dvn) b s = Ok s' ->
    (forall i f0, nth_error (va s) i = Some f0 ->
       nth_error (va s') i = Some (if hits_opt (c_vtag cf) dv i || hits_opt (c_vname cf) dvn i then true else f0)) /\
    (forall i f0, nth_error (ta s) i = Some f0 ->
       nth_error (ta s') i = Some (if hits_opt (c_ttag cf) dt i then true else f0)).
  Proof.
    intros L1 L2 L3 H. destruct (step_flags _ _ _ _ _ _ _ H) as [Hv Ht]. rewrite Hv, Ht.
    unfold post_flags, pre_flags. cbn [a_et a_ev a_evn a_dt a_dv a_dvn]. rewrite !able_va, !able_ta. cbn [set_flags].
    split; intros i f0 Hf.
    - pose proof (set_flags_opt (c_vtag cf) false dv _ i f0 L2 Hf) as A1.
      pose proof (set_flags_opt (c_vname cf) false dvn _ i _ L3 A1) as A2.
      pose proof (set_flags_opt (c_vtag cf) true dv _ i _ L2 A2) as A3.
      pose proof (set_flags_opt (c_vname cf) true dvn _ i _ L3 A3) as A4.
      rewrite A4. destruct (hits_opt (c_vtag cf) dv i), (hits_opt (c_vname cf) dvn i); reflexivity.
    - pose proof (set_flags_opt (c_ttag cf) false dt _ i f0 L1 Hf) as A1.
      pose proof (set_flags_opt (c_ttag cf) true dt _ i _ L1 A1) as A2.
      rewrite A2. destruct (hits_opt (c_ttag cf) dt i); reflexivity.
  Qed.

  Lemma step_inactive_ok fuel nn tb a b s s' :
    opt_step E cf fuel nn tb a b s = Ok s' ->
    forall i, nth_error (va (pre_flags E cf a s)) i = Some false ->
              nth_error (knobs s') i = nth_error (knobs (pre_clip E cf s)) i.
  Proof.
    intros H. pose proof (step_inactive fuel nn tb a b s) as P. rewrite H in P. unfold post in P.
    destruct (pre_clip_facts E cf s) as (Vc & Tc & _).
    destruct (pre_flags_flags a _ _ Vc Tc) as [Pv _]. rewrite Pv in P.
    apply (kn_inact_nth E _ _ _ P).
  Qed.
  Lemma step_inactive_err fuel nn tb a b s e s' :
    opt_step E cf fuel nn tb a b s = Err e s' ->
    forall i, nth_error (va (pre_flags E cf a s)) i = Some false ->
              nth_error (knobs s') i = nth_error (knobs (pre_clip E cf s)) i.
  Proof.
    intros H. pose proof (step_inactive fuel nn tb a b s) as P. rewrite H in P. unfold post in P.
    destruct (pre_clip_facts E cf s) as (Vc & Tc & _).
    destruct (pre_flags_flags a _ _ Vc Tc) as [Pv _]. rewrite Pv in P.
    apply (kn_inact_nth E _ _ _ P).
  Qed.
  Lemma solve_inactive_ok fuel nn tb b s s' :
    solve E cf fuel nn tb b s = Ok s' ->
    forall i, nth_error (va s) i = Some false -> nth_error (knobs s') i = nth_error (knobs s) i.
  Proof. intros H. apply (kn_inact_nth E _ _ _ (solve_inactive _ _ _ _ _ _ H)). Qed.

  Lemma rows_truthful_unit k0 va0 s0 s :
    (forall x, e_mul E (e_div E x (e_one E)) (e_one E) = x) -> Forall (fun w => w = e_one E) ws ->
    init E cf k0 va0 = Ok s0 -> reach s0 s ->
    forall r, In r (log s) ->
      exists res, e_f E (r_knobs r) = Some res /\ r_targets r = res /\ r_tolmet r = within E cf res /\
                  r_pen r = e_pen E (merit_out E cf (r_ta r) res).
  Proof.
    intros Hu Hw Hi Hr r Hin. apply truthful_unit; auto.
    eapply (proj1 (Forall_forall _ _) (rows_truthful k0 va0 s0 s Hi Hr)); eauto.
  Qed.
End Thm.
