(* Frozen windows (C17, last sentence): a manager that is frozen and unfrozen any
   number of times (freeze when already frozen and unfreeze when not frozen
   included) ends in exactly the state of the manager that was never frozen and
   on which the rejected calls were simply not made.  The calls a frozen manager
   rejects are characterised by a boolean function of the state. *)
From Coq Require Import List Bool Arith ZArith NArith Lia.
From XD Require Import lib.ListAux lib.Toposort model.Manager model.ManagerData
  proofs.ManagerIdx proofs.ManagerInv proofs.ManagerHist proofs.ManagerTrace
  proofs.ManagerDataInv proofs.ManagerDefs.
Import ListNotations.
Local Open Scope nat_scope.

(* the calls a frozen manager rejects *)
Definition rejectedb (m : dmgr) (s : dstate) (o : mop) : bool :=
  match o with
  | MSet r (SExpr _ _ _) _ _ => true
  | MSet r (SPlain _) _ _ => is_task r m
  | MInPlace r _ _ _ _ _ _ =>
      match task_expr r m with
      | Some _ => true
      | None => match nget (d_st s) r with Some (Leaf _) => is_task r m | _ => false end
      end
  | MRegister _ | MUnregister _ | MRefresh => true
  | MLoad ts overwrite => existsb (fun t => negb (is_task (t_id t) m) || overwrite) ts
  | _ => false
  end.

Definition is_toggle (o : mop) : bool :=
  match o with MFreeze | MUnfreeze => true | _ => false end.

Definition lift (b : bool) (r : dmgr * dstate * outcome) : dmgr * dstate * outcome :=
  let '(m', s', out) := r in (set_frozen b m', s', out).

Lemma is_task_frozen b r (m : dmgr) : is_task r (set_frozen b m) = is_task r m.
Proof. reflexivity. Qed.

Lemma task_expr_frozen b r (m : dmgr) : task_expr r (set_frozen b m) = task_expr r m.
Proof. reflexivity. Qed.

Lemma register_frozen_err t (m : dmgr) : register path_eqb t (set_frozen true m) = Err EFrozen.
Proof. reflexivity. Qed.

Lemma unregister_frozen_err r (m : dmgr) : unregister path_eqb r (set_frozen true m) = Err EFrozen.
Proof. reflexivity. Qed.

Lemma set_plain_task_frozen (m : dmgr) s r x sd so : is_task r m = true ->
  set_value (set_frozen true m) s r (SPlain x) sd so = (set_frozen true m, s, mkOut (Some EFrozen) []).
Proof. intros Ht. unfold set_value. rewrite is_task_frozen, Ht, unregister_frozen_err. reflexivity. Qed.

Lemma set_expr_frozen (m : dmgr) s r e d t sd so :
  set_value (set_frozen true m) s r (SExpr e d t) sd so = (set_frozen true m, s, mkOut (Some EFrozen) []).
Proof.
  unfold set_value. rewrite is_task_frozen. destruct (is_task r m).
  - rewrite unregister_frozen_err. reflexivity.
  - rewrite register_frozen_err. reflexivity.
Qed.

Lemma set_plain_lift (m : dmgr) s r x sd so : is_task r m = false ->
  set_value (set_frozen true m) s r (SPlain x) sd so = lift true (set_value m s r (SPlain x) sd so).
Proof.
  intros Ht. rewrite (frozen_values_propagate m s r x sd so true Ht). unfold lift.
  destruct (set_value m s r (SPlain x) sd so) as [[m' s'] out]. reflexivity.
Qed.

Lemma load_frozen (m : dmgr) s ow : forall ts,
  (existsb (fun t => negb (is_task (t_id t) m) || ow) ts = true ->
   step (set_frozen true m) s (MLoad ts ow) = (set_frozen true m, s, mkOut (Some EFrozen) [])) /\
  (existsb (fun t => negb (is_task (t_id t) m) || ow) ts = false ->
   step (set_frozen true m) s (MLoad ts ow) = (set_frozen true m, s, mkOut None []) /\
   step m s (MLoad ts ow) = (m, s, mkOut None [])).
Proof.
  induction ts as [|t ts IH].
  - split; [discriminate|]. intros _. split; reflexivity.
  - destruct IH as [IH1 IH2]. cbn [existsb].
    change (step (set_frozen true m) s (MLoad (t :: ts) ow)) with
      (if is_task (t_id t) (set_frozen true m) then
         if ow then match unregister path_eqb (t_id t) (set_frozen true m) with
                    | Err e => (set_frozen true m, s, mkOut (Some e) [])
                    | Ok m1 => match register path_eqb t m1 with
                               | Err e => (m1, s, mkOut (Some e) [])
                               | Ok m2 => step m2 s (MLoad ts ow)
                               end
                    end
         else step (set_frozen true m) s (MLoad ts ow)
       else match register path_eqb t (set_frozen true m) with
            | Err e => (set_frozen true m, s, mkOut (Some e) [])
            | Ok m2 => step m2 s (MLoad ts ow)
            end).
    change (step m s (MLoad (t :: ts) ow)) with
      (if is_task (t_id t) m then
         if ow then match unregister path_eqb (t_id t) m with
                    | Err e => (m, s, mkOut (Some e) [])
                    | Ok m1 => match register path_eqb t m1 with
                               | Err e => (m1, s, mkOut (Some e) [])
                               | Ok m2 => step m2 s (MLoad ts ow)
                               end
                    end
         else step m s (MLoad ts ow)
       else match register path_eqb t m with
            | Err e => (m, s, mkOut (Some e) [])
            | Ok m2 => step m2 s (MLoad ts ow)
            end).
    rewrite is_task_frozen. destruct (is_task (t_id t) m) eqn:Ht; cbn [negb orb].
    + destruct ow.
      * split; [|discriminate]. intros _. rewrite unregister_frozen_err. reflexivity.
      * split; [exact IH1|exact IH2].
    + split; [|discriminate]. intros _. rewrite register_frozen_err. reflexivity.
Qed.

Lemma find_tasks_lift (m : dmgr) sd so :
  find_tasks path_eqb (set_frozen true m) sd so =
  match find_tasks path_eqb m sd so with Ok (l, m') => Ok (l, set_frozen true m') | Err e => Err e end.
Proof.
  unfold find_tasks, find_taskids. cbn [set_frozen m_deptasks m_rtasks m_tasks m_rdeps m_tartasks m_frozen].
  destruct (start_set path_eqb sd (m_deptasks m)) as [set dt].
  destruct (same_set path_eqb so set); [|reflexivity].
  cbn [m_tasks].
  destruct (lookup_tasks path_eqb (m_tasks m) _) as [l|e]; reflexivity.
Qed.

(* every call other than freeze / unfreeze on a frozen manager: either it is one of
   the rejected calls — the frozen error, nothing changed — or it behaves exactly
   as on the unfrozen manager *)
Theorem frozen_step (m : dmgr) s o : is_toggle o = false ->
  step (set_frozen true m) s o =
  if rejectedb m s o then (set_frozen true m, s, mkOut (Some EFrozen) []) else lift true (step m s o).
Proof.
  intros Ht. destruct o; try discriminate; cbn [rejectedb].
  - destruct v as [x|e d t].
    + cbn [step]. destruct (is_task r m) eqn:E; [now apply set_plain_task_frozen|now apply set_plain_lift].
    + apply set_expr_frozen.
  - cbn [step]. rewrite task_expr_frozen. destruct (task_expr r m) as [e|].
    + apply set_expr_frozen.
    + destruct (nget (d_st s) r) as [[x| |]|]; try reflexivity.
      destruct (is_task r m) eqn:E; [now apply set_plain_task_frozen|now apply set_plain_lift].
  - reflexivity.
  - reflexivity.
  - destruct (load_frozen m s overwrite ts) as [L1 L2].
    match goal with |- _ = if ?c then _ else _ => destruct c eqn:E end.
    + now apply L1.
    + destruct (L2 eq_refl) as [A B]. rewrite A, B. reflexivity.
  - reflexivity.
  - cbn [step]. unfold verify, clone, cleanup.
    cbn [set_frozen m_tasks m_rdeps m_rtasks m_deptasks m_tartasks m_frozen].
    destruct (_ && _)%bool; reflexivity.
  - reflexivity.
  - reflexivity.
  - reflexivity.
  - cbn [step]. unfold mk_fun. destruct (same_set path_eqb sd_order _); [|reflexivity].
    rewrite find_tasks_lift. destruct (find_tasks path_eqb m sd_order start_order) as [[tl m']|e]; [|reflexivity].
    destruct (exec_fun tl args s) as [[s' tr] er]. reflexivity.
Qed.

(* ---- the frozen flag is changed by freeze / unfreeze only ------------------------------- *)
Lemma register_nofreeze_frozen t (m : dmgr) : m_frozen (register_nofreeze path_eqb t m) = m_frozen m.
Proof. unfold register_nofreeze. now rewrite reg_tars_frozen, reg_deps_frozen. Qed.

Lemma fold_register_frozen (ts : list (path * dtask)) : forall o : dmgr,
  m_frozen (fold_left (fun (o : dmgr) (p : path * dtask) => register_nofreeze path_eqb (snd p) o) ts o) = m_frozen o.
Proof. induction ts as [|p ts IH]; intros o; cbn [fold_left]; [reflexivity|]. now rewrite IH, register_nofreeze_frozen. Qed.

Lemma load_frozen_eq s ow : forall ts (m : dmgr), m_frozen (fst (fst (step m s (MLoad ts ow)))) = m_frozen m.
Proof.
  induction ts as [|t ts IH]; intros m; [reflexivity|].
  change (step m s (MLoad (t :: ts) ow)) with
      (if is_task (t_id t) m then
         if ow then match unregister path_eqb (t_id t) m with
                    | Err e => (m, s, mkOut (Some e) [])
                    | Ok m1 => match register path_eqb t m1 with
                               | Err e => (m1, s, mkOut (Some e) [])
                               | Ok m2 => step m2 s (MLoad ts ow)
                               end
                    end
         else step m s (MLoad ts ow)
       else match register path_eqb t m with
            | Err e => (m, s, mkOut (Some e) [])
            | Ok m2 => step m2 s (MLoad ts ow)
            end).
  destruct (is_task (t_id t) m).
  - destruct ow; [|apply IH].
    destruct (unregister path_eqb (t_id t) m) as [m1|e] eqn:U; [|reflexivity].
    pose proof (unregister_frozen_eq _ _ _ U) as F1.
    destruct (register path_eqb t m1) as [m2|e] eqn:R; [|exact F1].
    rewrite IH. rewrite (register_frozen_eq _ _ _ R). exact F1.
  - destruct (register path_eqb t m) as [m2|e] eqn:R; [|reflexivity].
    rewrite IH. exact (register_frozen_eq _ _ _ R).
Qed.

Theorem step_frozen_eq (m : dmgr) s o : is_toggle o = false ->
  m_frozen (fst (fst (step m s o))) = m_frozen m.
Proof.
  intros Ht. destruct o; try discriminate; cbn [step].
  - apply set_value_frozen_eq.
  - destruct (task_expr r m); [apply set_value_frozen_eq|].
    destruct (nget (d_st s) r) as [[x| |]|]; try reflexivity. apply set_value_frozen_eq.
  - destruct (register path_eqb t m) as [m'|e] eqn:R; [|reflexivity].
    pose proof (register_frozen_eq _ _ _ R) as F.
    destruct (t_act t); try exact F. destruct (nget (d_st s) src) as [[x| |]|]; exact F.
  - destruct (unregister path_eqb tid m) as [m'|e] eqn:U; [|reflexivity]. exact (unregister_frozen_eq _ _ _ U).
  - apply load_frozen_eq.
  - unfold refresh. destruct (m_frozen m) eqn:F; [exact F|]. cbn [fst]. unfold cleanup. cbn [m_frozen].
    rewrite fold_register_frozen. reflexivity.
  - unfold verify. destruct (_ && _)%bool; reflexivity.
  - reflexivity.
  - reflexivity.
  - reflexivity.
  - unfold mk_fun. destruct (same_set path_eqb sd_order _); [|reflexivity].
    destruct (find_tasks path_eqb m sd_order start_order) as [[tl m']|e] eqn:F; [|reflexivity].
    destruct (exec_fun tl args s) as [[s' tr] er]. exact (find_tasks_frozen_eq _ _ _ _ _ F).
Qed.

(* ---- whole histories ---------------------------------------------------------------------- *)
Fixpoint run_final (m : dmgr) (s : dstate) (ops : list mop) : dmgr * dstate :=
  match ops with
  | [] => (m, s)
  | o :: r => let '(m', s', _) := step m s o in run_final m' s' r
  end.

(* the same history on a manager that is never frozen: freeze / unfreeze only move a
   flag kept OUTSIDE the manager, and the calls a frozen manager rejects are not made *)
Fixpoint never_frozen (m : dmgr) (s : dstate) (f : bool) (ops : list mop) : dmgr * dstate * bool :=
  match ops with
  | [] => (m, s, f)
  | o :: r =>
      match o with
      | MFreeze => never_frozen m s true r
      | MUnfreeze => never_frozen m s false r
      | _ => if f && rejectedb m s o then never_frozen m s f r
             else let '(m', s', _) := step m s o in never_frozen m' s' f r
      end
  end.

Lemma set_frozen_false_id (m : dmgr) : m_frozen m = false -> set_frozen false m = m.
Proof. destruct m; cbn. intros ->. reflexivity. Qed.

Theorem frozen_windows_transparent ops : forall (m : dmgr) s f, m_frozen m = false ->
  run_final (set_frozen f m) s ops =
  let '(m', s', f') := never_frozen m s f ops in (set_frozen f' m', s').
Proof.
  induction ops as [|o ops IH]; intros m s f Hm; [reflexivity|].
  destruct (is_toggle o) eqn:Tg.
  - destruct o; try discriminate; cbn [run_final never_frozen step];
      change (set_frozen ?b (set_frozen f m)) with (set_frozen b m); now apply IH.
  - assert (Hnf : never_frozen m s f (o :: ops) =
                  if f && rejectedb m s o then never_frozen m s f ops
                  else let '(m', s', _) := step m s o in never_frozen m' s' f ops).
    { destruct o; try discriminate; reflexivity. }
    rewrite Hnf. cbn [run_final].
    pose proof (step_frozen_eq m s o Tg) as Fz.
    destruct f; cbn [andb].
    + rewrite (frozen_step m s o Tg). destruct (rejectedb m s o).
      * now apply IH.
      * unfold lift. destruct (step m s o) as [[m' s'] out]. cbn [fst] in Fz. apply IH. congruence.
    + rewrite (set_frozen_false_id m Hm). destruct (step m s o) as [[m' s'] out]. cbn [fst] in Fz.
      assert (Hm' : m_frozen m' = false) by congruence.
      rewrite <- (set_frozen_false_id m' Hm') at 1. now apply IH.
Qed.

Lemma never_frozen_unfrozen ops : forall (m : dmgr) s f m' s' f', m_frozen m = false ->
  never_frozen m s f ops = (m', s', f') -> m_frozen m' = false.
Proof.
  induction ops as [|o ops IH]; intros m s f m' s' f' Hm H.
  - cbn in H. congruence.
  - destruct (is_toggle o) eqn:Tg.
    + destruct o; try discriminate; cbn [never_frozen] in H; eapply IH; eauto.
    + assert (Hnf : never_frozen m s f (o :: ops) =
                    if f && rejectedb m s o then never_frozen m s f ops
                    else let '(m', s', _) := step m s o in never_frozen m' s' f ops).
      { destruct o; try discriminate; reflexivity. }
      rewrite Hnf in H. pose proof (step_frozen_eq m s o Tg) as Fz.
      destruct (f && rejectedb m s o); [eapply IH; eauto|].
      destruct (step m s o) as [[m1 s1] out]. cbn [fst] in Fz. eapply IH; [|exact H]. congruence.
Qed.

(* in particular: a history that ends unfrozen ends in the very state of the run that
   never froze *)
Corollary frozen_windows_end_unfrozen ops (m : dmgr) s m' s' :
  m_frozen m = false -> never_frozen m s false ops = (m', s', false) ->
  run_final m s ops = (m', s').
Proof.
  intros Hm H. pose proof (frozen_windows_transparent ops m s false Hm) as T.
  rewrite (set_frozen_false_id m Hm), H in T. rewrite T.
  now rewrite (set_frozen_false_id m' (never_frozen_unfrozen ops m s false m' s' false Hm H)).
Qed.

(* every call whose effect would be a change of the graph is among the rejected ones *)
Lemma changes_graph_rejected (m : dmgr) s o : changes_graph m o -> rejectedb m s o = true.
Proof.
  destruct o; cbn [changes_graph rejectedb]; try contradiction; auto.
  - destruct v; auto.
  - destruct (task_expr r m); [reflexivity|congruence].
  - destruct ts as [|t ts]; [contradiction|]. cbn [existsb].
    intros [H | H]; [rewrite H|rewrite H, orb_true_r]; reflexivity.
Qed.
