(* Data layer: every operation of a history preserves the index invariant
   (C03), the run trace of an assignment is the list find_taskids returns
   (C02), and a frozen manager rejects every change of the graph while plain
   assignments behave as if it had never been frozen (C17). *)
From Coq Require Import List Bool Arith ZArith NArith Lia Permutation.
From XD Require Import lib.ListAux lib.Toposort model.Manager model.ManagerData
  proofs.ManagerIdx proofs.ManagerInv proofs.ManagerHist proofs.ManagerTrace.
Import ListNotations.
Local Open Scope nat_scope.

Lemma path_eqb_spec : forall a b : path, path_eqb a b = true <-> a = b.
Proof.
  induction a as [|x s IH]; destruct b as [|y t]; cbn; split; try discriminate; auto.
  - intros H. apply andb_true_iff in H. destruct H as [H1 H2].
    apply N.eqb_eq in H1. apply IH in H2. now subst.
  - intros H. inversion H; subst. apply andb_true_iff. split; [apply N.eqb_refl|now apply IH].
Qed.

Notation PInv := (@Inv path action path_eqb).

(* ---- well-formed operations ------------------------------------------------------------ *)
Definition vsrc_wf (v : vsrc) : Prop :=
  match v with SPlain _ => True | SExpr _ dord tord => NoDup dord /\ NoDup tord end.

Definition op_wf (m : dmgr) (o : mop) : Prop :=
  match o with
  | MSet _ v _ _ => vsrc_wf v
  | MInPlace _ _ _ dord tord _ _ => NoDup dord /\ NoDup tord
  | MRegister t => aget path_eqb (t_id t) (m_tasks m) = None /\ NoDup (t_deps t) /\ NoDup (t_targets t)
  | MLoad ts _ => forall t, In t ts -> NoDup (t_deps t) /\ NoDup (t_targets t)
  | _ => True
  end.

Lemma find_tasks_inv (m : dmgr) sd order ts m' :
  find_tasks path_eqb m sd order = Ok (ts, m') ->
  exists L, find_taskids path_eqb m sd order = Ok (L, m') /\ lookup_tasks path_eqb (m_tasks m') L = Ok ts.
Proof.
  unfold find_tasks. destruct (find_taskids path_eqb m sd order) as [[L m1]|e]; [|discriminate].
  destruct (lookup_tasks path_eqb (m_tasks m1) L) eqn:E; [|discriminate].
  intros H; inversion H; subst. eauto.
Qed.

Lemma unregister_cases (m : dmgr) tid : PInv m ->
  (exists e, unregister path_eqb tid m = Err e) \/
  (exists m', unregister path_eqb tid m = Ok m' /\ PInv m' /\ m_frozen m' = false /\ m_frozen m = false /\
              m_tasks m' = adrop path_eqb tid (m_tasks m)).
Proof.
  intros HI. destruct (m_frozen m) eqn:Hf.
  - left. unfold unregister. rewrite Hf. eauto.
  - destruct (aget path_eqb tid (m_tasks m)) as [T|] eqn:E.
    + right. destruct (unregister_Inv path_eqb path_eqb_spec tid T m HI E Hf) as (m' & H1 & H2 & H3 & H4).
      exists m'. auto.
    + left. unfold unregister. rewrite Hf, E. eauto.
Qed.

Lemma register_cases (m : dmgr) t : PInv m -> aget path_eqb (t_id t) (m_tasks m) = None ->
  NoDup (t_deps t) -> NoDup (t_targets t) ->
  (m_frozen m = true /\ register path_eqb t m = Err EFrozen) \/
  (exists m', register path_eqb t m = Ok m' /\ PInv m' /\ m_frozen m' = false /\
              m_tasks m' = m_tasks m ++ [(t_id t, t)]).
Proof.
  intros HI Hfr Hd Ht. unfold register. destruct (m_frozen m) eqn:Hf; [left; auto|right].
  destruct (register_Inv path_eqb path_eqb_spec t m HI Hfr Hd Ht) as (H1 & H2 & H3).
  eexists; split; [reflexivity|]. split; [exact H1|split; [congruence|exact H2]].
Qed.

Theorem set_value_Inv (m : dmgr) s r v sd so : PInv m -> vsrc_wf v ->
  PInv (fst (fst (set_value m s r v sd so))).
Proof.
  intros HI Hv. unfold set_value.
  assert (H1 : (exists m1, (if is_task r m then unregister path_eqb r m else Ok m) = Ok m1 /\ PInv m1 /\
                           aget path_eqb r (m_tasks m1) = None)
               \/ (exists e, (if is_task r m then unregister path_eqb r m else Ok m) = Err e)).
  { unfold is_task. destruct (aget path_eqb r (m_tasks m)) eqn:E.
    - destruct (unregister_cases m r HI) as [(e & He)|(m' & He & HI' & _ & _ & Ht)].
      + right; eauto.
      + left. exists m'. split; [exact He|split; [exact HI'|]]. rewrite Ht. apply (aget_adrop_same path_eqb).
    - left. exists m. auto. }
  destruct H1 as [(m1 & -> & HI1 & Hnone)|(e & ->)]; [|exact HI].
  destruct v as [x|e dord tord].
  - cbn [fst snd]. destruct (dwrite s r x) as [s1|e]; [|exact HI1].
    destruct (find_tasks path_eqb m1 sd so) as [[ts m3]|e] eqn:Ef; [|exact HI1].
    destruct (find_tasks_inv _ _ _ _ _ Ef) as (L & EL & _).
    destruct (find_taskids_spec path_eqb path_eqb_spec m1 sd so L m3 HI1 EL) as (_ & _ & _ & HI3 & _).
    destruct (run_tasks ts s1) as [[s2 tr] er]. exact HI3.
  - destruct Hv as [Hd Ht].
    destruct (register_cases m1 (mk_expr_task r e dord tord) HI1 Hnone Hd Ht) as [[_ ->]|(m2 & -> & HI2 & _)]; [exact HI1|].
    destruct (eval (d_st s) e); [|exact HI2].
    destruct (dwrite s r n) as [s1|er]; [|exact HI2].
    destruct (find_tasks path_eqb m2 sd so) as [[ts m3]|er] eqn:Ef; [|exact HI2].
    destruct (find_tasks_inv _ _ _ _ _ Ef) as (L & EL & _).
    destruct (find_taskids_spec path_eqb path_eqb_spec m2 sd so L m3 HI2 EL) as (_ & _ & _ & HI3 & _).
    destruct (run_tasks ts s1) as [[s2 tr] er]. exact HI3.
Qed.

Lemma set_frozen_Inv (m : dmgr) b : PInv m -> PInv (set_frozen b m).
Proof. intros H. exact H. Qed.

Theorem step_Inv (m : dmgr) s o : PInv m -> op_wf m o -> PInv (fst (fst (step m s o))).
Proof.
  intros HI Hw. destruct o; cbn [step op_wf] in *.
  - now apply set_value_Inv.
  - destruct (task_expr r m); [apply set_value_Inv; auto|].
    destruct (nget (d_st s) r) as [[z| |kids]|]; try exact HI. apply set_value_Inv; cbn; auto.
  - destruct Hw as (Hf & Hd & Ht).
    destruct (register_cases m t HI Hf Hd Ht) as [[_ ->]|(m2 & -> & HI2 & _)]; [exact HI|].
    destruct (t_act t); try exact HI2. destruct (nget (d_st s) src) as [[z| |kids]|]; exact HI2.
  - destruct (unregister_cases m tid HI) as [(e & ->)|(m' & -> & HI' & _)]; [exact HI|exact HI'].
  - revert m HI. induction ts as [|t ts IH]; intros m HI; [exact HI|].
    assert (Hw' : forall t0, In t0 ts -> NoDup (t_deps t0) /\ NoDup (t_targets t0)) by (intros; apply Hw; now right).
    destruct (Hw t (or_introl eq_refl)) as [Hd Ht].
    unfold is_task. destruct (aget path_eqb (t_id t) (m_tasks m)) eqn:E.
    + destruct overwrite; [|apply IH; auto].
      destruct (unregister_cases m (t_id t) HI) as [(e & ->)|(m' & -> & HI' & _ & _ & Htt)]; [exact HI|].
      assert (Hn : aget path_eqb (t_id t) (m_tasks m') = None) by (rewrite Htt; apply (aget_adrop_same path_eqb)).
      destruct (register_cases m' t HI' Hn Hd Ht) as [[_ ->]|(m2 & -> & HI2 & _)]; [exact HI'|].
      apply IH; auto.
    + destruct (register_cases m t HI E Hd Ht) as [[_ ->]|(m2 & -> & HI2 & _)]; [exact HI|].
      apply IH; auto.
  - exact HI.
  - exact HI.
  - destruct (m_frozen m) eqn:Hf.
    + unfold refresh. rewrite Hf. exact HI.
    + pose proof HI as (_ & TW & _).
      rewrite (refresh_is_clone path_eqb path_eqb_spec m TW Hf). apply (clone_Inv path_eqb path_eqb_spec m HI).
  - destruct (verify_ok path_eqb path_eqb_spec m HI) as (m' & -> & HI' & _). exact HI'.
  - now apply (cleanup_Inv path_eqb path_eqb_spec).
  - exact HI.
  - exact HI.
  - unfold mk_fun. destruct (same_set path_eqb sd_order (args_start (map fst args))); [|exact HI].
    destruct (find_tasks path_eqb m sd_order start_order) as [[tl m3]|e] eqn:Ef; [|exact HI].
    destruct (find_tasks_inv _ _ _ _ _ Ef) as (L & EL & _).
    destruct (find_taskids_spec path_eqb path_eqb_spec m sd_order start_order L m3 HI EL) as (_ & _ & _ & HI3 & _).
    destruct (exec_fun tl args s) as [[s2 tr] er]. exact HI3.
Qed.

(* every reachable manager satisfies the invariant *)
Fixpoint ops_wf (m : dmgr) (s : dstate) (ops : list mop) : Prop :=
  match ops with
  | [] => True
  | o :: rest => op_wf m o /\ ops_wf (fst (fst (step m s o))) (snd (fst (step m s o))) rest
  end.

Definition final_mgr (m : dmgr) (s : dstate) (ops : list mop) : dmgr * dstate :=
  fold_left (fun ms o => fst (step (fst ms) (snd ms) o)) ops (m, s).

Lemma reachable_Inv_gen ops : forall ms : dmgr * dstate,
  PInv (fst ms) -> ops_wf (fst ms) (snd ms) ops ->
  PInv (fst (fold_left (fun ms o => fst (step (fst ms) (snd ms) o)) ops ms)).
Proof.
  induction ops as [|o rest IH]; intros [m s]; cbn [fold_left fst snd]; intros HI Hw; [exact HI|].
  destruct Hw as [Ho Hr]. apply IH; [now apply step_Inv|exact Hr].
Qed.

Theorem reachable_Inv ops m s : PInv m -> ops_wf m s ops -> PInv (fst (final_mgr m s ops)).
Proof. intros HI Hw. unfold final_mgr. now apply (reachable_Inv_gen ops (m, s)). Qed.

(* ---- the run trace of an assignment (C02) -------------------------------------------------- *)
Lemma run_tasks_trace ts : forall s s' tr er, run_tasks ts s = (s', tr, er) ->
  (er = None -> tr = map (@t_id path action) ts) /\
  exists rest, map (@t_id path action) ts = tr ++ rest.
Proof.
  induction ts as [|t ts IH]; intros s s' tr er; cbn [run_tasks].
  - intros H; inversion H; subst. split; auto. exists []; reflexivity.
  - destruct (exec t s) as [s1 [e|]].
    + intros H; inversion H; subst. split; [discriminate|]. exists (map (@t_id path action) (t :: ts)); reflexivity.
    + destruct (run_tasks ts s1) as [[s2 tr2] er2] eqn:E. intros H; inversion H; subst.
      destruct (IH _ _ _ _ E) as [H1 (rest & H2)]. split.
      * intros He. cbn. now rewrite H1.
      * exists rest. cbn. now rewrite H2.
Qed.

Lemma lookup_tasks_ids (ts : list (path * @task path action)) : (forall k T, aget path_eqb k ts = Some T -> t_id T = k) ->
  forall L l, lookup_tasks path_eqb ts L = Ok l -> map (@t_id path action) l = L.
Proof.
  intros Hid. induction L as [|i L IH]; intros l; cbn [lookup_tasks].
  - intros H; inversion H; reflexivity.
  - destruct (aget path_eqb i ts) eqn:E; [|discriminate].
    destruct (lookup_tasks path_eqb ts L) eqn:E2; [|discriminate].
    intros H; inversion H; subst. cbn. rewrite (Hid _ _ E). f_equal. now apply IH.
Qed.

(* manager after the graph part of set_value (unregister the old definition,
   register the new one): the one whose tasks get triggered *)
Theorem set_value_trace (m : dmgr) s r v sd so m' s' out :
  PInv m -> vsrc_wf v -> set_value m s r v sd so = (m', s', out) ->
  PInv m' /\
  (o_err out = None ->
   NoDup (o_trace out) /\
   (forall w, In w (o_trace out) <-> Triggered path_eqb (m_tasks m') sd w) /\
   (forall u v, In u (o_trace out) -> edge path_eqb (m_tasks m') u v ->
                before u v (o_trace out) \/ clos (edge path_eqb (m_tasks m')) v u)) /\
  (* in every case, completed or not: no task outside the triggered set ran, none ran twice *)
  (forall w, In w (o_trace out) -> Triggered path_eqb (m_tasks m') sd w) /\ NoDup (o_trace out).
Proof.
  intros HI Hv E. pose proof (set_value_Inv m s r v sd so HI Hv) as HI'. rewrite E in HI'. cbn [fst] in HI'.
  split; [exact HI'|].
  unfold set_value in E.
  destruct (if is_task r m then unregister path_eqb r m else Ok m) as [m1|e] eqn:E1;
    [|inversion E; subst; cbn; repeat split; try discriminate; try constructor; intros w []].
  assert (HI1 : PInv m1 /\ aget path_eqb r (m_tasks m1) = None).
  { unfold is_task in E1. destruct (aget path_eqb r (m_tasks m)) eqn:Eg.
    - destruct (unregister_cases m r HI) as [(e & He)|(mx & He & HIx & _ & _ & Ht)]; [congruence|].
      rewrite He in E1. inversion E1; subst. split; auto. rewrite Ht. apply (aget_adrop_same path_eqb).
    - inversion E1; subst. auto. }
  destruct HI1 as [HI1 Hn1].
  assert (Hcore : forall m2 s1, PInv m2 ->
            (match find_tasks path_eqb m2 sd so with
             | Err e => (m2, s1, mkOut (Some e) [])
             | Ok (ts, m3) => let '(s2, tr, er) := run_tasks ts s1 in (m3, s2, mkOut er tr)
             end) = (m', s', out) ->
            (o_err out = None ->
             NoDup (o_trace out) /\
             (forall w, In w (o_trace out) <-> Triggered path_eqb (m_tasks m') sd w) /\
             (forall u v, In u (o_trace out) -> edge path_eqb (m_tasks m') u v ->
                          before u v (o_trace out) \/ clos (edge path_eqb (m_tasks m')) v u)) /\
            (forall w, In w (o_trace out) -> Triggered path_eqb (m_tasks m') sd w) /\ NoDup (o_trace out)).
  { intros m2 s1 HI2 Ec.
    destruct (find_tasks path_eqb m2 sd so) as [[ts m3]|e] eqn:Ef;
      [|inversion Ec; subst; cbn; repeat split; try discriminate; try constructor; intros w []].
    destruct (find_tasks_inv _ _ _ _ _ Ef) as (L & EL & Elk).
    destruct (find_taskids_spec path_eqb path_eqb_spec m2 sd so L m3 HI2 EL) as (HN & HT & HO & HI3 & Ht3 & _).
    destruct (run_tasks ts s1) as [[s2 tr] er] eqn:Er. inversion Ec; subst. cbn [o_err o_trace].
    destruct (run_tasks_trace _ _ _ _ _ Er) as [Hfull (rest & Hpre)].
    pose proof HI3 as (_ & (_ & Hok) & _).
    assert (Hids : map (@t_id path action) ts = L).
    { eapply lookup_tasks_ids; [|exact Elk]. intros k T Hk. now destruct (Hok _ _ Hk). }
    rewrite Ht3. split; [|split].
    - intros ->. rewrite (Hfull eq_refl), Hids. auto.
    - intros w Hw. apply HT. rewrite <- Hids, Hpre. apply in_app_iff. now left.
    - rewrite <- Hids, Hpre in HN. now apply NoDup_app_l in HN. }
  destruct v as [x|e dord tord].
  - destruct (dwrite s r x) as [s1|er];
      [|inversion E; subst; cbn; repeat split; try discriminate; try constructor; intros w []].
    eapply Hcore; eauto.
  - destruct Hv as [Hd Ht].
    destruct (register_cases m1 (mk_expr_task r e dord tord) HI1 Hn1 Hd Ht) as [[_ Hr]|(m2 & Hr & HI2 & _)];
      rewrite Hr in E; [inversion E; subst; cbn; repeat split; try discriminate; try constructor; intros w []|].
    destruct (eval (d_st s) e) as [x|];
      [|inversion E; subst; cbn; repeat split; try discriminate; try constructor; intros w []].
    destruct (dwrite s r x) as [s1|er];
      [|inversion E; subst; cbn; repeat split; try discriminate; try constructor; intros w []].
    eapply Hcore; eauto.
Qed.

(* ---- frozen managers (C17) -------------------------------------------------------------------- *)
Definition changes_graph (m : dmgr) (o : mop) : Prop :=
  match o with
  | MSet r (SExpr _ _ _) _ _ => True
  | MSet r (SPlain _) _ _ => is_task r m = true
  | MInPlace r _ _ _ _ _ _ => task_expr r m <> None
  | MRegister _ | MUnregister _ | MRefresh => True
  | MLoad (t :: _) overwrite => is_task (t_id t) m = false \/ overwrite = true
  | _ => False
  end.

Theorem frozen_rejects (m : dmgr) s o :
  m_frozen m = true -> changes_graph m o ->
  step m s o = (m, s, mkOut (Some EFrozen) []).
Proof.
  intros Hf Hc. destruct o; cbn [step changes_graph] in *; try contradiction.
  - unfold set_value. destruct v as [x|e dord tord].
    + rewrite Hc. unfold unregister. now rewrite Hf.
    + destruct (is_task r m).
      * unfold unregister. now rewrite Hf.
      * unfold register. now rewrite Hf.
  - destruct (task_expr r m) as [e|] eqn:E; [|congruence].
    assert (Ht : is_task r m = true).
    { unfold task_expr in E. unfold is_task. destruct (aget path_eqb r (m_tasks m)); [reflexivity|discriminate]. }
    unfold set_value. rewrite Ht. unfold unregister. now rewrite Hf.
  - unfold register. now rewrite Hf.
  - unfold unregister. now rewrite Hf.
  - destruct ts as [|t ts]; [contradiction|].
    destruct Hc as [Hc| ->].
    + rewrite Hc. unfold register. now rewrite Hf.
    + destruct (is_task (t_id t) m); [unfold unregister|unfold register]; now rewrite Hf.
  - unfold refresh. now rewrite Hf.
Qed.

(* assigning a plain value to a location without a definition never consults
   the frozen flag: the frozen manager behaves exactly like the unfrozen one *)
Theorem frozen_values_propagate (m : dmgr) s r x sd so b :
  is_task r m = false ->
  set_value (set_frozen b m) s r (SPlain x) sd so =
  let '(m', s', out) := set_value m s r (SPlain x) sd so in (set_frozen b m', s', out).
Proof.
  intros Ht. unfold set_value.
  assert (Ht' : is_task r (set_frozen b m) = false) by exact Ht. rewrite Ht, Ht'.
  destruct (dwrite s r x) as [s1|e]; [|reflexivity].
  unfold find_tasks, find_taskids. cbn [set_frozen m_deptasks m_rtasks m_tasks m_rdeps m_tartasks m_frozen].
  destruct (start_set path_eqb sd (m_deptasks m)) as [set dt].
  destruct (same_set path_eqb so set); [|reflexivity].
  cbn [m_tasks].
  destruct (lookup_tasks path_eqb (m_tasks m) _) as [l|e]; [|reflexivity].
  destruct (run_tasks l s1) as [[s2 tr] er]. reflexivity.
Qed.

Theorem unfreeze_transparent (m : dmgr) : m_frozen m = false -> set_frozen false (set_frozen true m) = m.
Proof. destruct m; cbn. intros ->. reflexivity. Qed.

(* read-only calls on a frozen manager leave every definition and every count unchanged *)
Theorem frozen_readonly (m : dmgr) s o : PInv m -> (o = MVerify \/ o = MCleanup) ->
  let m' := fst (fst (step m s o)) in
  m_tasks m' = m_tasks m /\ m_frozen m' = m_frozen m /\ snd (fst (step m s o)) = s /\
  (forall a b, icount path_eqb (m_rdeps m') a b = icount path_eqb (m_rdeps m) a b) /\
  (forall a b, icount path_eqb (m_rtasks m') a b = icount path_eqb (m_rtasks m) a b) /\
  (forall a b, icount path_eqb (m_deptasks m') a b = icount path_eqb (m_deptasks m) a b) /\
  (forall a b, icount path_eqb (m_tartasks m') a b = icount path_eqb (m_tartasks m) a b).
Proof.
  intros HI Ho.
  pose proof HI as ((W1 & W2 & W3 & W4) & _).
  assert (Hcl : let m' := cleanup m in
     m_tasks m' = m_tasks m /\ m_frozen m' = m_frozen m /\
     (forall a b, icount path_eqb (m_rdeps m') a b = icount path_eqb (m_rdeps m) a b) /\
     (forall a b, icount path_eqb (m_rtasks m') a b = icount path_eqb (m_rtasks m) a b) /\
     (forall a b, icount path_eqb (m_deptasks m') a b = icount path_eqb (m_deptasks m) a b) /\
     (forall a b, icount path_eqb (m_tartasks m') a b = icount path_eqb (m_tartasks m) a b)).
  { cbn. repeat split; intros; apply (icount_cleanup path_eqb path_eqb_spec); assumption. }
  destruct Hcl as (C1 & C2 & C3 & C4 & C5 & C6).
  destruct Ho as [-> | ->]; cbn [step].
  - unfold verify. destruct (verify_ok path_eqb path_eqb_spec m HI) as (m' & Hv & _).
    unfold verify in Hv. destruct (_ && _)%bool; [|discriminate]. cbn [fst snd]. repeat split; auto.
  - cbn [fst snd]. repeat split; auto.
Qed.
