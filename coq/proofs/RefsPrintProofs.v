(* C11: parsing the tokens of a printed expression (Python's grammar and
   operator dispatch, model/RefsPrint.v) in a namespace that rebinds the
   container labels rebuilds the expression with the labels substituted. *)
From Coq Require Import List Bool Arith ZArith NArith String Lia.
From XD Require Import model.RefSyntax model.ReprSyntax gen.GenRefsRepr lib.PyStr model.RefsShow model.RefsPrint
  proofs.RefsPrintEqs.
Import ListNotations.
Open Scope N_scope.

Definition trailer_start (ts : list token) : bool :=
  match ts with KOp o :: _ => is_op o "." || is_op o "[" || is_op o "(" | _ => false end.

(* first token of an operand that is not a sign or a number *)
Definition hd_ok (ts : list token) : bool :=
  match ts with KName _ :: _ => true | KOp o :: _ => is_op o "(" | _ => false end.

Definition no_kw_head (ts : list token) : bool :=
  match ts with KName _ :: KOp e :: _ => negb (is_op e "=") | _ => true end.

Definition head_not_eq (ts : list token) : bool :=
  match ts with KOp e :: _ => negb (is_op e "=") | [] => true | _ => false end.

Ltac norm_app := repeat (rewrite <- app_assoc || (progress cbn [List.app])).

Lemma tsize_pos t : (tsize t >= 1)%nat.
Proof. destruct t; cbn; lia. Qed.

Lemma hd_ok_bin ts : hd_ok ts = true -> match ts with KOp o :: _ => is_op o "(" | _ => true end = true.
Proof. destruct ts as [|[]]; auto. Qed.

(* ---------------------------------------------------- one step of the parser *)

Section StepEqs.
  Variable ns : pystr -> option term.
  Variable rec : parsers.
  Notation stp := (step ns rec).

  Lemma op_num v r : pp_operand stp (KNum v :: r) = Some (TConst v, r).
  Proof. reflexivity. Qed.
  Lemma op_neg v r : pp_operand stp (K "-" :: KNum v :: r) = Some (TConst (lit_neg v), r).
  Proof. reflexivity. Qed.
  Lemma op_strlit s r : pp_operand stp (KStr s :: r) = Some (TConst (LStr s), r).
  Proof. reflexivity. Qed.
  Lemma op_paren ts : pp_operand stp (K "(" :: ts) = paren_step rec ts.
  Proof. reflexivity. Qed.

  Lemma reserved_split l : mem_str l reserved_labels = false ->
    mem_str l (map (fun e => snd (fst e)) (filter (fun e => pystr_eqb (fst (fst e)) (s2p "builtins")) py_builtins)) = false
    /\ pystr_eqb l (s2p "math") = false.
  Proof.
    unfold mem_str. cbn. intros H.
    repeat (apply orb_false_iff in H as [? H]). repeat split; auto.
    repeat (apply orb_false_iff; split; auto).
  Qed.

  Lemma op_label l b ts : mem_str l reserved_labels = false -> ns l = Some b ->
    pp_operand stp (KName l :: ts) = pp_trailers rec b ts.
  Proof.
    intros Hr Hn. destruct (reserved_split l Hr) as [A B].
    cbn [pp_operand step operand_step]. unfold named_step. rewrite A, B, Hn.
    destruct ts as [|[]]; try reflexivity. rewrite !andb_false_r. reflexivity.
  Qed.

  Lemma op_builtin nm ts : mem_str nm (map s2p ["abs"; "round"; "divmod"]%string) = true ->
    pp_operand stp (KName nm :: K "(" :: ts) = call_builtin rec (s2p "builtins") nm ts.
  Proof.
    intros H. cbn [pp_operand step operand_step]. unfold named_step.
    replace (mem_str nm (map (fun e => snd (fst e)) (filter (fun e => pystr_eqb (fst (fst e)) (s2p "builtins")) py_builtins)))
      with true by (symmetry; exact H).
    reflexivity.
  Qed.

  Lemma op_math f ts : mem_str f (map s2p ["floor"; "ceil"; "trunc"]%string) = true ->
    pp_operand stp (KName (s2p "math") :: K "." :: KName f :: K "(" :: ts) = call_builtin rec (s2p "math") f ts.
  Proof. reflexivity. Qed.

  Lemma paren_binary ts : match ts with KOp o :: _ => is_op o "(" | _ => true end = true ->
    paren_step rec ts = binary_step rec ts.
  Proof.
    destruct ts as [|[s|v|s|o] r]; try reflexivity. intros H. unfold paren_step.
    destruct (pystr_eqb_spec o (s2p "(")) as [E _]. unfold is_op in H. apply E in H. subst o. reflexivity.
  Qed.

  Lemma paren_negconst v r : paren_step rec (K "-" :: KNum v :: K ")" :: r) = Some (TConst (lit_neg v), r).
  Proof. reflexivity. Qed.

  Lemma paren_neglit v o2 r2 : is_op o2 ")" = false -> is_op o2 "**" = false ->
    paren_step rec (K "-" :: KNum v :: KOp o2 :: r2) =
    match pp_operand rec r2 with
    | Some (rhs, r3) => close_paren rec (build_bin o2 (TConst (lit_neg v)) rhs) r3
    | None => None
    end.
  Proof. intros A B. unfold paren_step. cbn [is_op]. change (is_op (s2p "-") "-") with true. cbv iota. rewrite A, B. reflexivity. Qed.

  Lemma paren_unary s ts : is_op s "-" || is_op s "+" || is_op s "~" = true -> hd_ok ts = true ->
    paren_step rec (KOp s :: ts) =
    match pp_operand rec ts with
    | Some (a, r2) => close_paren rec (build_un s a) r2
    | None => None
    end.
  Proof.
    intros Hs Hh. unfold paren_step.
    destruct (is_op s "-") eqn:E1.
    - destruct ts as [|[x|v|x|o] r]; try discriminate Hh; reflexivity.
    - cbn [orb] in Hs. rewrite Hs. reflexivity.
  Qed.

  Lemma close_ok t r : close_paren rec (Some t) (K ")" :: r) = pp_trailers rec t r.
  Proof. reflexivity. Qed.

  Lemma tr_stop b ts : trailer_start ts = false -> pp_trailers stp b ts = Some (b, ts).
  Proof.
    intros H. cbn [pp_trailers step]. unfold trailers_step.
    destruct ts as [|[s|v|s|o] r]; try reflexivity. cbn in H.
    apply orb_false_iff in H as [H H3]. apply orb_false_iff in H as [H1 H2]. rewrite H1, H2, H3. reflexivity.
  Qed.

  Lemma tr_attr b nm r : private_name nm = false -> is_method nm = false -> is_ref b = true ->
    pp_trailers stp b (K "." :: KName nm :: r) = pp_trailers rec (sm_attr b nm) r.
  Proof.
    intros Hp Hm Hb. cbn [pp_trailers step]. unfold trailers_step. change (is_op (s2p ".") ".") with true. cbv iota.
    rewrite Hm, Hp, mk_access_attr by assumption. reflexivity.
  Qed.

  Lemma tr_method b nm ts x r : is_method nm = true -> pp_operand rec ts = Some (x, K ")" :: r) ->
    pp_trailers stp b (K "." :: KName nm :: K "(" :: ts) =
    match call_method nm b x with Some t => pp_trailers rec t r | None => None end.
  Proof.
    intros Hm Hx. cbn [pp_trailers step]. unfold trailers_step. change (is_op (s2p ".") ".") with true. cbv iota.
    rewrite Hm. change (is_op (s2p "(") "(") with true. cbv iota. rewrite Hx.
    change (is_op (s2p ")") ")") with true. cbv iota. reflexivity.
  Qed.

  Lemma bin_paren ts l r : pp_operand rec ts = Some (l, K ")" :: r) -> is_ref l = true ->
    binary_step rec ts = pp_trailers rec l r.
  Proof. intros H Hl. unfold binary_step. rewrite H. change (is_op (s2p ")") ")") with true. cbv iota. rewrite Hl. reflexivity. Qed.

  Lemma bin_op ts l o r : pp_operand rec ts = Some (l, KOp o :: r) -> is_op o ")" = false ->
    binary_step rec ts =
    match pp_operand rec r with
    | Some (rr, r2) => close_paren rec (build_bin o l rr) r2
    | None => None
    end.
  Proof. intros H Ho. unfold binary_step. rewrite H, Ho. reflexivity. Qed.

  Lemma tr_item b k ts r : is_ref b = true -> pp_operand rec ts = Some (k, K "]" :: r) ->
    pp_trailers stp b (K "[" :: ts) = pp_trailers rec (TItem b k) r.
  Proof.
    intros Hb Hk. cbn [pp_trailers step]. unfold trailers_step.
    change (is_op (s2p "[") ".") with false. change (is_op (s2p "[") "[") with true. cbv iota.
    rewrite Hk. change (is_op (s2p "]") "]") with true. cbv iota. rewrite mk_access_item by assumption. reflexivity.
  Qed.

  Lemma tr_call0 b r : is_ref b = true ->
    pp_trailers stp b (K "(" :: K ")" :: r) = pp_trailers rec (TCall b [] []) r.
  Proof.
    intros Hb. cbn [pp_trailers step]. unfold trailers_step.
    change (is_op (s2p "(") ".") with false. change (is_op (s2p "(") "[") with false. change (is_op (s2p "(") "(") with true.
    cbv iota. change (is_op (s2p ")") ")") with true. cbv iota. rewrite mk_call_ref by assumption. reflexivity.
  Qed.

  Lemma tr_call b ts args kw r : is_ref b = true ->
    match ts with KOp c :: _ => is_op c ")" | _ => false end = false ->
    pp_args rec false ts = Some (args, kw, r) ->
    pp_trailers stp b (K "(" :: ts) = pp_trailers rec (TCall b args kw) r.
  Proof.
    intros Hb Hh Ha. cbn [pp_trailers step]. unfold trailers_step.
    change (is_op (s2p "(") ".") with false. change (is_op (s2p "(") "[") with false. change (is_op (s2p "(") "(") with true.
    cbv iota. destruct ts as [|[x|v|x|c] ts']; rewrite ?Hh, Ha, mk_call_ref by assumption; reflexivity.
  Qed.

  (* arguments *)
  Definition finish_arg (kwmode : bool) (item : term + (pystr * term)) (rest : list token)
    : option (list term * list (pystr * term) * list token) :=
    let add res := match res with
                   | Some (a, k, r) => Some (match item with inl x => (x :: a, k, r) | inr p => (a, p :: k, r) end)
                   | None => None
                   end in
    match rest with
    | KOp c :: r2 =>
        if is_op c ")" then add (Some ([], [], r2))
        else if is_op c "," then add (pp_args rec (match item with inl _ => kwmode | inr _ => true end) r2)
        else None
    | _ => None
    end.

  Lemma args_positional ts : no_kw_head ts = true ->
    pp_args stp false ts =
    match pp_operand rec ts with Some (v, rest) => finish_arg false (inl v) rest | None => None end.
  Proof.
    intros H. cbn [pp_args step]. unfold args_step, finish_arg.
    destruct ts as [|[k|v|s|o] [|[k2|v2|s2|e] r]]; try reflexivity.
    cbn in H. apply negb_true_iff in H. rewrite H. reflexivity.
  Qed.

  Lemma args_keyword kwmode k ts :
    pp_args stp kwmode (KName k :: K "=" :: ts) =
    match pp_operand rec ts with Some (v, rest) => finish_arg kwmode (inr (k, v)) rest | None => None end.
  Proof. reflexivity. Qed.
End StepEqs.

(* ------------------------------------------------------------ the round trip *)

Section Main.
  Variable ns : pystr -> option term.
  Notation Pn := (P ns).
  Notation sub := (subst ns).
  Notation wf := (wf ns).

  Definition wf_operand (x : term) : bool := match x with TConst v => is_num v | _ => wf x end.

  Lemma wf_is_ref e : wf e = true -> is_ref e = true.
  Proof. destruct e; intros H; try discriminate H; reflexivity. Qed.

  Lemma sm_attr_ref b n : is_ref (sm_attr b n) = true.
  Proof. destruct b as [| l [|] | | | | | | |]; reflexivity. Qed.

  Lemma sub_is_ref e : wf e = true -> is_ref (sub e) = true.
  Proof.
    destruct e; intros H; try discriminate H; try reflexivity.
    - cbn in *. apply andb_true_iff in H as [_ H]. destruct (ns label); [exact H|discriminate H].
    - cbn in H. apply andb_true_iff in H as [_ H]. destruct e2 as [[]| | | | | | | |]; try discriminate H.
      cbn. apply sm_attr_ref.
  Qed.

  Lemma sub_operand x : wf_operand x = true -> is_ref x = false -> sub x = x.
  Proof. destruct x; intros H1 H2; try discriminate H2. reflexivity. Qed.

  (* the statement proved by induction: continuing with the trailers *)
  Definition S_stmt (e : term) : Prop :=
    forall n0 rest res, (n0 >= 1)%nat ->
      (forall n, (n >= n0)%nat -> pp_trailers (Pn n) (sub e) rest = Some res) ->
      forall n, (n >= n0 + tsize e)%nat -> pp_operand (Pn n) (T e ++ rest) = Some res.

  Definition O_stmt (x : term) : Prop :=
    forall n rest, (n > tsize x)%nat -> trailer_start rest = false ->
      pp_operand (Pn n) (ostr x ++ rest) = Some (sub x, rest).

  Lemma Pn_S n : Pn (S n) = step ns (Pn n).
  Proof. reflexivity. Qed.

  Lemma O_num v : is_num v = true -> O_stmt (TConst v).
  Proof.
    intros Hv n rest Hn _. destruct n; [lia|]. rewrite Pn_S, ostr_num by assumption. unfold num_toks.
    destruct (lit_isneg v) eqn:Es.
    - cbn [List.app]. rewrite op_neg, lit_neg_abs by assumption. reflexivity.
    - cbn [List.app]. rewrite op_num. reflexivity.
  Qed.

  Lemma O_from_S x : (wf x = true -> S_stmt x) -> wf_operand x = true -> O_stmt x.
  Proof.
    intros HS Hw. destruct (is_ref x) eqn:Er.
    - assert (Hwf : wf x = true) by (destruct x; try discriminate Er; exact Hw).
      intros n rest Hn Hr. rewrite ostr_ref by assumption.
      apply (HS Hwf 1%nat rest (sub x, rest)); [lia| |lia].
      intros m Hm. destruct m; [lia|]. rewrite Pn_S. apply tr_stop. exact Hr.
    - destruct x; try discriminate Er. apply O_num. exact Hw.
  Qed.

  (* shape of the first tokens of a printed reference *)
  Lemma T_shape e : wf e = true -> forall rest,
    hd_ok (T e ++ rest) = true /\ (head_not_eq rest = true -> no_kw_head (T e ++ rest) = true).
  Proof.
    induction e as [v|l oa|o k IHo IHk|o k IHo IHk|c l r IHl IHr|c a IHa|v|f a ps IHa IHps|f args kw IHf IHargs IHkw]
      using term_ind'; intros Hw rest; try discriminate Hw.
    - rewrite T_top. cbn. split; [reflexivity|]. intros Hr. destruct rest as [|[]]; try reflexivity; try discriminate Hr. exact Hr.
    - cbn [RefsPrint.wf] in Hw. apply andb_true_iff in Hw as [Ho _].
      rewrite T_item, orepr_ref by (apply wf_is_ref; exact Ho). rewrite <- app_assoc.
      destruct (IHo Ho ((K "[" :: orepr k ++ [K "]"]) ++ rest)) as [A B]. split; [exact A|intros _; apply B; reflexivity].
    - cbn [RefsPrint.wf] in Hw. apply andb_true_iff in Hw as [Ho Hk].
      destruct k as [[]| | | | | | | |]; try discriminate Hk.
      rewrite T_attr, ostr_ref by (apply wf_is_ref; exact Ho). rewrite <- app_assoc.
      destruct (IHo Ho ([K "."; KName s] ++ rest)) as [A B]. split; [exact A|intros _; apply B; reflexivity].
    - cbn [RefsPrint.wf] in Hw. destruct (op_str c) as [s|] eqn:Es; [|rewrite andb_false_r in Hw; discriminate Hw].
      apply andb_true_iff in Hw as [Hw _]. apply andb_true_iff in Hw as [Hw _]. apply andb_true_iff in Hw as [Hc _].
      destruct (is_eq_op s) eqn:Ee.
      + rewrite (T_eq c l r s Hc Es Ee). split; reflexivity.
      + rewrite (T_bin c l r s Hc Es Ee). split; reflexivity.
    - cbn [RefsPrint.wf] in Hw. apply andb_true_iff in Hw as [Hc _].
      assert (exists s, op_str c = Some s) as [s Es].
      { cbn in Hc. repeat (apply orb_true_iff in Hc as [Hc|Hc]; [apply N.eqb_eq in Hc; subst c; eexists; reflexivity|]). discriminate Hc. }
      rewrite (T_un c a s Hc Es). split; reflexivity.
    - cbn [RefsPrint.wf] in Hw. apply andb_true_iff in Hw as [_ Hok].
      unfold builtin_okb in Hok. destruct (builtin_fn f) as [[m nm]|] eqn:Ef; [|discriminate Hok].
      rewrite (T_builtin f a ps m nm Ef). destruct (pystr_eqb m (s2p "math")); split; reflexivity.
    - cbn [RefsPrint.wf] in Hw. apply andb_true_iff in Hw as [Hw _]. apply andb_true_iff in Hw as [Hf _].
      rewrite T_call by (apply wf_is_ref; exact Hf). rewrite <- app_assoc.
      destruct (IHf Hf ((K "(" :: join sep (map orepr args ++ map kw_toks kw) ++ [K ")"]) ++ rest)) as [A B].
      split; [exact A|intros _; apply B; reflexivity].
  Qed.

  Lemma operand_shape x : wf_operand x = true -> forall rest, head_not_eq rest = true ->
    no_kw_head (ostr x ++ rest) = true.
  Proof.
    intros Hw rest Hr. destruct (is_ref x) eqn:Er.
    - rewrite ostr_ref by assumption. apply T_shape; [destruct x; try discriminate Er; exact Hw|exact Hr].
    - destruct x; try discriminate Er. rewrite ostr_num by exact Hw. unfold num_toks. destruct (lit_isneg v); reflexivity.
  Qed.

  Definition lsize (l : list term) : nat := fold_right (fun x acc => S (tsize x + acc)) 0%nat l.
  Definition ksize (l : list (pystr * term)) : nat := fold_right (fun p acc => S (tsize (snd p) + acc)) 0%nat l.

  Definition sub_kw (p : pystr * term) : pystr * term := (fst p, sub (snd p)).

  Lemma orepr_ostr x : wf_operand x = true -> orepr x = ostr x.
  Proof.
    intros H. destruct (is_ref x) eqn:Er; [rewrite orepr_ref, ostr_ref by assumption; reflexivity|].
    destruct x; try discriminate Er. rewrite orepr_num, ostr_num by exact H. reflexivity.
  Qed.

  (* keyword arguments k=v, ..., then ")" *)
  Lemma kw_parse kws : Forall (fun p => O_stmt (snd p)) kws -> forallb (fun p => wf_operand (snd p)) kws = true ->
    kws <> [] -> forall kwmode n rest, (n > ksize kws)%nat ->
    pp_args (Pn n) kwmode (join sep (map kw_toks kws) ++ K ")" :: rest) = Some ([], map sub_kw kws, rest).
  Proof.
    induction kws as [|[k v] kws IH]; intros HO Hw Hne kwmode n rest Hn; [congruence|].
    inversion HO as [|? ? Hv HO']; subst. cbn [snd] in Hv. cbn [forallb snd] in Hw. apply andb_true_iff in Hw as [Hwv Hwk].
    cbn [ksize fold_right snd] in Hn. destruct n; [lia|]. rewrite Pn_S.
    destruct kws as [|p2 kws'].
    - cbn [map join kw_toks fst snd List.app]. rewrite args_keyword.
      rewrite (Hv n (K ")" :: rest)); [|cbn in *; lia|reflexivity]. reflexivity.
    - change (map kw_toks ((k, v) :: p2 :: kws')) with (kw_toks (k, v) :: map kw_toks (p2 :: kws')).
      remember (p2 :: kws') as kws2 eqn:E2.
      assert (Ej : join sep (kw_toks (k, v) :: map kw_toks kws2) = kw_toks (k, v) ++ sep ++ join sep (map kw_toks kws2))
        by (subst kws2; reflexivity).
      rewrite Ej. unfold kw_toks at 1. cbn [fst snd]. rewrite <- !app_assoc. cbn [List.app].
      replace (sep ++ join sep (map kw_toks kws2) ++ K ")" :: rest) with (K "," :: join sep (map kw_toks kws2) ++ K ")" :: rest) by reflexivity.
      rewrite args_keyword.
      rewrite (Hv n (K "," :: join sep (map kw_toks kws2) ++ K ")" :: rest)); [|fold (ksize kws2) in Hn; lia|reflexivity].
      unfold finish_arg. change (is_op (s2p ",") ")") with false. change (is_op (s2p ",") ",") with true. cbv iota.
      rewrite (IH HO' Hwk ltac:(subst kws2; discriminate) true n rest); [reflexivity|fold (ksize kws2) in Hn; lia].
  Qed.

  (* positional arguments, then keyword arguments, then ")" *)
  Lemma args_parse args : Forall O_stmt args -> forallb wf_operand args = true ->
    forall kws, Forall (fun p => O_stmt (snd p)) kws -> forallb (fun p => wf_operand (snd p)) kws = true ->
    args ++ map snd kws <> [] -> forall n rest, (n > lsize args + ksize kws)%nat ->
    pp_args (Pn n) false (join sep (map orepr args ++ map kw_toks kws) ++ K ")" :: rest)
    = Some (map sub args, map sub_kw kws, rest).
  Proof.
    induction args as [|a args IH]; intros HO Hw kws HOk Hwk Hne n rest Hn.
    - cbn [map List.app]. apply kw_parse; auto; try (cbn in Hn; lia). destruct kws; [cbn in Hne; congruence|discriminate].
    - inversion HO as [|? ? Ha HO']; subst. cbn [forallb] in Hw. apply andb_true_iff in Hw as [Hwa Hwl].
      cbn [lsize fold_right] in Hn. fold (lsize args) in Hn. destruct n; [lia|]. rewrite Pn_S.
      cbn [map List.app]. rewrite (orepr_ostr a Hwa).
      destruct (map orepr args ++ map kw_toks kws) as [|t2 L] eqn:EL.
      + (* last argument *)
        assert (args = [] /\ kws = []) as [-> ->].
        { destruct args; [|discriminate EL]. destruct kws; [auto|discriminate EL]. }
        cbn [join]. rewrite args_positional by (apply operand_shape; [exact Hwa|reflexivity]).
        rewrite (Ha n (K ")" :: rest)); [|lia|reflexivity]. reflexivity.
      + assert (Ej : join sep (ostr a :: t2 :: L) = ostr a ++ sep ++ join sep (t2 :: L)) by reflexivity.
        rewrite Ej, <- !app_assoc.
        replace (sep ++ join sep (t2 :: L) ++ K ")" :: rest) with (K "," :: join sep (t2 :: L) ++ K ")" :: rest) by reflexivity.
        rewrite args_positional by (apply operand_shape; [exact Hwa|reflexivity]).
        rewrite (Ha n (K "," :: join sep (t2 :: L) ++ K ")" :: rest)); [|lia|reflexivity].
        unfold finish_arg. change (is_op (s2p ",") ")") with false. change (is_op (s2p ",") ",") with true. cbv iota.
        rewrite <- EL. rewrite (IH HO' Hwl kws HOk Hwk); [reflexivity| |lia].
        intros E. apply app_eq_nil in E as [-> E]. apply map_eq_nil in E. subst kws. discriminate EL.
  Qed.

  Lemma wf_operand_forall l : forallb (fun x => match x with TConst v => is_num v | _ => wf x end) l = forallb wf_operand l.
  Proof. reflexivity. Qed.

  Theorem S_all e : wf e = true -> S_stmt e.
  Proof.
    induction e as [v|l oa|o k IHo IHk|o k IHo IHk|c l r IHl IHr|c a IHa|v|f a ps IHa IHps|f args kw IHf IHargs IHkw]
      using term_ind'; intros Hw; try discriminate Hw; intros n0 rest res Hn0 Htr n Hn.
    - (* container label *)
      cbn [RefsPrint.wf] in Hw. apply andb_true_iff in Hw as [Hres Hns]. apply negb_true_iff in Hres.
      destruct (ns l) as [b|] eqn:El; [|discriminate Hns].
      cbn [tsize] in Hn. destruct n; [lia|]. rewrite Pn_S, T_top. cbn [List.app].
      rewrite (op_label ns (Pn n) l b rest Hres El). cbn [subst] in Htr. rewrite El in Htr. apply Htr. lia.
    - (* item *)
      cbn [RefsPrint.wf] in Hw. apply andb_true_iff in Hw as [Ho Hk].
      cbn [tsize] in Hn. rewrite T_item, orepr_ref by (apply wf_is_ref; exact Ho).
      rewrite <- app_assoc. cbn [List.app]. rewrite <- app_assoc. cbn [List.app].
      apply (IHo Ho (n0 + tsize k + 1)%nat); [lia| |lia].
      intros m Hm. destruct m; [lia|]. rewrite Pn_S.
      assert (Hkey : pp_operand (Pn m) (orepr k ++ K "]" :: rest) = Some (sub k, K "]" :: rest)).
      { destruct k as [[z|b|t|s| |lt]|? ?|? ?|? ?|? ? ?|? ?|?|? ? ?|? ? ?]; try discriminate Hk.
        - rewrite orepr_ostr by exact Hk. apply (O_num (LInt z)); [reflexivity|cbn [tsize] in Hm |- *; lia|reflexivity].
        - rewrite orepr_ostr by exact Hk. apply (O_num (LFloat t)); [reflexivity|cbn [tsize] in Hm |- *; lia|reflexivity].
        - rewrite orepr_str. destruct m; [cbn [tsize] in Hm; lia|]. rewrite Pn_S. apply op_strlit.
        - rewrite orepr_ostr by exact Hk. apply (O_from_S _ IHk Hk); [lia|reflexivity].
        - rewrite orepr_ostr by exact Hk. apply (O_from_S _ IHk Hk); [lia|reflexivity].
        - rewrite orepr_ostr by exact Hk. apply (O_from_S _ IHk Hk); [lia|reflexivity].
        - rewrite orepr_ostr by exact Hk. apply (O_from_S _ IHk Hk); [lia|reflexivity].
        - rewrite orepr_ostr by exact Hk. apply (O_from_S _ IHk Hk); [lia|reflexivity].
        - rewrite orepr_ostr by exact Hk. apply (O_from_S _ IHk Hk); [lia|reflexivity].
        - rewrite orepr_ostr by exact Hk. apply (O_from_S _ IHk Hk); [lia|reflexivity]. }
      rewrite (tr_item ns (Pn m) (sub o) (sub k) _ rest (sub_is_ref o Ho) Hkey). apply Htr. lia.
    - (* attribute *)
      cbn [RefsPrint.wf] in Hw. apply andb_true_iff in Hw as [Ho Hk].
      destruct k as [[z|b|t|nm| |lt]|? ?|? ?|? ?|? ? ?|? ?|?|? ? ?|? ? ?]; try discriminate Hk.
      apply andb_true_iff in Hk as [Hk Hmeth]. apply negb_true_iff in Hk. apply negb_true_iff in Hmeth.
      cbn [tsize] in Hn. rewrite T_attr, ostr_ref by (apply wf_is_ref; exact Ho). rewrite <- app_assoc. cbn [List.app].
      apply (IHo Ho (n0 + 1)%nat); [lia| |lia].
      intros m Hm. destruct m; [lia|]. rewrite Pn_S.
      rewrite (tr_attr ns (Pn m) (sub o) nm rest Hk Hmeth (sub_is_ref o Ho)). apply Htr. lia.
    - (* binary operation *)
      cbn [RefsPrint.wf] in Hw. destruct (op_str c) as [s|] eqn:Es; [|rewrite andb_false_r in Hw; discriminate Hw].
      apply andb_true_iff in Hw as [Hw Hcase]. apply andb_true_iff in Hw as [Hw Hwr]. apply andb_true_iff in Hw as [Hc Hwl].
      fold (wf_operand l) in Hwl. fold (wf_operand r) in Hwr.
      pose proof (O_from_S r IHr Hwr) as Or.
      cbn [tsize] in Hn. destruct n; [lia|]. rewrite Pn_S.
      destruct (is_eq_op s) eqn:Hne.
      { (* deferred comparison: (l)._eq(r) *)
        pose proof (tsize_pos l) as Hpl. pose proof (tsize_pos r) as Hpr.
        assert (Hwfl : wf l = true) by (destruct l; try discriminate Hcase; exact Hwl).
        destruct (call_method_ok c s (sub l) (sub r) Hc Es Hne (sub_is_ref l Hwfl)) as [Hcm Hm].
        rewrite (T_eq c l r s Hc Es Hne), ostr_ref by (apply wf_is_ref; exact Hwfl). cbn [List.app]. rewrite op_paren. norm_app.
        rewrite paren_binary by (apply hd_ok_bin; apply T_shape; exact Hwfl).
        rewrite <- (ostr_ref l) by (apply wf_is_ref; exact Hwfl).
        rewrite (bin_paren (Pn n) _ (sub l) (K "." :: KName (eq_method s) :: K "(" :: ostr r ++ K ")" :: rest));
          [|apply (O_from_S l IHl Hwl); [lia|reflexivity]|apply sub_is_ref; exact Hwfl].
        destruct n; [lia|]. rewrite Pn_S.
        rewrite (tr_method ns (Pn n) (sub l) (eq_method s) _ (sub r) rest Hm); [|apply Or; [lia|reflexivity]].
        cbn [subst] in Htr. rewrite Hcm. apply Htr. lia. }
      destruct (bin_op_shape c s Hc Es) as (Sh1 & Sh2 & Sh3 & Sh4).
      assert (Hstop : trailer_start (KOp s :: ostr r ++ K ")" :: rest) = false) by (cbn; rewrite Sh1, Sh2, Sh3; reflexivity).
      rewrite (T_bin c l r s Hc Es Hne). cbn [List.app]. rewrite op_paren.
      destruct (is_ref l) eqn:Erl.
      + (* reference on the left *)
        assert (Hwfl : wf l = true) by (destruct l; try discriminate Erl; exact Hwl).
        replace (sh_isref (shx l)) with true by (destruct l; try discriminate Erl; reflexivity).
        rewrite andb_false_r. cbn [andb]. norm_app.
        rewrite paren_binary.
        2:{ apply hd_ok_bin. rewrite ostr_ref by assumption. apply T_shape. exact Hwfl. }
        rewrite (bin_op (Pn n) _ (sub l) s (ostr r ++ K ")" :: rest)); [|apply (O_from_S l IHl Hwl); [lia|exact Hstop]|exact Sh4].
        rewrite (Or n (K ")" :: rest)); [|lia|reflexivity].
        rewrite (build_bin_ref c s (sub l) (sub r) Hc Es Hne (sub_is_ref l Hwfl)).
        rewrite close_ok. apply Htr. lia.
      + (* numeric constant on the left *)
        destruct l as [v|? ?|? ?|? ?|? ? ?|? ?|?|? ? ?|? ? ?]; try discriminate Erl.
        cbn [orb] in Hcase. apply andb_true_iff in Hcase as [Hrr Hrefl].
        assert (Hwfr : wf r = true) by (destruct r; try discriminate Hrr; exact Hwr).
        cbn [wf_operand] in Hwl. cbn [shx sh_const sh_isref negb]. rewrite andb_true_r.
        rewrite (ostr_num v Hwl). unfold num_toks.
        assert (Hb : forall v', build_bin s (TConst v') (sub r) = Some (TBin c (TConst v') (sub r)))
          by (intros; apply (build_bin_reflected c s); auto; apply sub_is_ref; exact Hwfr).
        destruct (lit_isneg v) eqn:Eneg.
        * change (toks_prefix [K "-"] [K "-"; KNum (lit_abs v)]) with true. rewrite andb_true_r.
          destruct (is_op s "**") eqn:Epow.
          -- (* ((-v) ** r) *)
             norm_app.
             rewrite paren_binary by reflexivity.
             destruct n; [lia|].
             rewrite (bin_op (Pn (S n)) _ (TConst v) s (ostr r ++ K ")" :: rest));
               [|rewrite Pn_S, op_paren, paren_negconst, lit_neg_abs by assumption; reflexivity|exact Sh4].
             rewrite (Or (S n) (K ")" :: rest)); [|lia|reflexivity].
             cbn [subst] in *. rewrite Hb. rewrite close_ok. apply Htr. lia.
          -- (* (-v op r) *)
             norm_app. rewrite paren_neglit by assumption.
             rewrite (Or n (K ")" :: rest)); [|lia|reflexivity].
             rewrite lit_neg_abs by assumption. cbn [subst] in *. rewrite Hb. rewrite close_ok. apply Htr. lia.
        * change (toks_prefix [K "-"] [KNum v]) with false. rewrite andb_false_r.
          norm_app. rewrite paren_binary by reflexivity.
          destruct n; [lia|].
          rewrite (bin_op (Pn (S n)) _ (TConst v) s (ostr r ++ K ")" :: rest)); [|rewrite Pn_S; apply op_num|exact Sh4].
          rewrite (Or (S n) (K ")" :: rest)); [|lia|reflexivity].
          cbn [subst] in *. rewrite Hb. rewrite close_ok. apply Htr. lia.
    - (* unary operation *)
      cbn [RefsPrint.wf] in Hw. apply andb_true_iff in Hw as [Hc Ha].
      assert (exists s, op_str c = Some s) as [s Es].
      { cbn in Hc. repeat (apply orb_true_iff in Hc as [Hc|Hc]; [apply N.eqb_eq in Hc; subst c; eexists; reflexivity|]). discriminate Hc. }
      destruct (build_un_ref c s (sub a) Hc Es (sub_is_ref a Ha)) as [Hb Hs].
      cbn [tsize] in Hn. destruct n; [lia|]. rewrite Pn_S.
      rewrite (T_un c a s Hc Es), ostr_ref by (apply wf_is_ref; exact Ha). cbn [List.app]. rewrite op_paren.
      norm_app.
      rewrite paren_unary; [|exact Hs|apply T_shape; exact Ha].
      assert (Oa : O_stmt a) by (apply O_from_S; [exact IHa|destruct a; try discriminate Ha; exact Ha]).
      rewrite <- (ostr_ref a) by (apply wf_is_ref; exact Ha).
      rewrite (Oa n (K ")" :: rest)); [|lia|reflexivity].
      cbn [subst] in *. rewrite Hb. rewrite close_ok. apply Htr. lia.
    - (* builtin *)
      cbn [RefsPrint.wf] in Hw. apply andb_true_iff in Hw as [Hw Hok]. apply andb_true_iff in Hw as [Ha Hps].
      rewrite wf_operand_forall in Hps.
      pose proof Hok as Hok'. unfold builtin_okb in Hok'. destruct (builtin_fn f) as [[m nm]|] eqn:Ef; [|discriminate Hok']. clear Hok'.
      assert (Hlen : List.length (map sub ps) = List.length ps) by apply map_length.
      destruct (build_builtin_ok f m nm (sub a) (map sub ps) Ef ltac:(rewrite Hlen; exact Hok) (sub_is_ref a Ha)) as [Hb Hmod].
      assert (Oargs : Forall O_stmt (a :: ps)).
      { constructor; [apply O_from_S; [exact IHa|destruct a; try discriminate Ha; exact Ha]|].
        clear - IHps Hps. induction ps as [|x ps IH]; constructor; inversion IHps; subst;
          cbn in Hps; apply andb_true_iff in Hps as [Hx Hps]; [apply O_from_S; assumption|apply IH; assumption]. }
      assert (Hwargs : forallb wf_operand (a :: ps) = true).
      { cbn [forallb]. rewrite Hps, andb_true_r. destruct a; try discriminate Ha; exact Ha. }
      cbn [tsize] in Hn. fold (lsize ps) in Hn.
      assert (Hargs : forall m', (m' > lsize (a :: ps))%nat ->
                pp_args (Pn m') false (join sep (ostr a :: map ostr ps) ++ K ")" :: rest) = Some (sub a :: map sub ps, [], rest)).
      { intros m' Hm'. pose proof (args_parse (a :: ps) Oargs Hwargs [] (Forall_nil _) eq_refl ltac:(discriminate) m' rest ltac:(cbn [ksize fold_right]; lia)) as A.
        cbn [map List.app] in A. rewrite app_nil_r in A.
        rewrite (orepr_ostr a) in A by (destruct a; try discriminate Ha; exact Ha).
        replace (map orepr ps) with (map ostr ps) in A; [exact A|].
        clear - Hps. induction ps as [|x ps IH]; [reflexivity|]. cbn in Hps. apply andb_true_iff in Hps as [Hx Hps].
        cbn. rewrite (orepr_ostr x Hx), IH by assumption. reflexivity. }
      rewrite (T_builtin f a ps m nm Ef).
      destruct Hmod as [[Em Hnm]|[Em [-> Hnm]]]; rewrite Em.
      + (* math.<fn>(...) *)
        apply pystr_eqb_spec in Em. subst m. norm_app.
        destruct n; [lia|]. rewrite Pn_S. rewrite (op_math ns (Pn n) nm _ Hnm). unfold call_builtin.
        rewrite Hargs by (cbn [lsize fold_right]; fold (lsize ps); lia).
        rewrite Hb. apply Htr. lia.
      + norm_app.
        destruct n; [lia|]. rewrite Pn_S. rewrite (op_builtin ns (Pn n) nm _ Hnm). unfold call_builtin.
        rewrite Hargs by (cbn [lsize fold_right]; fold (lsize ps); lia).
        rewrite Hb. apply Htr. lia.
    - (* call *)
      cbn [RefsPrint.wf] in Hw. apply andb_true_iff in Hw as [Hw Hkw]. apply andb_true_iff in Hw as [Hf Hargs].
      rewrite wf_operand_forall in Hargs.
      cbn [tsize] in Hn. fold (lsize args) in Hn. fold (ksize kw) in Hn.
      rewrite T_call by (apply wf_is_ref; exact Hf). norm_app.
      apply (IHf Hf (n0 + lsize args + ksize kw + 1)%nat); [lia| |lia].
      intros m Hm. destruct m; [lia|]. rewrite Pn_S.
      cbn [subst] in Htr.
      destruct (map orepr args ++ map kw_toks kw) as [|t1 L] eqn:EL.
      + assert (args = [] /\ kw = []) as [-> ->].
        { destruct args; [|discriminate EL]. destruct kw; [auto|discriminate EL]. }
        cbn [join List.app]. rewrite tr_call0 by (apply sub_is_ref; exact Hf). apply Htr. lia.
      + assert (Oargs : Forall O_stmt args).
        { clear - IHargs Hargs. induction args as [|x l IH]; constructor; inversion IHargs; subst;
            cbn in Hargs; apply andb_true_iff in Hargs as [Hx Hl]; [apply O_from_S; assumption|apply IH; assumption]. }
        assert (Okw : Forall (fun p => O_stmt (snd p)) kw).
        { clear - IHkw Hkw. induction kw as [|x l IH]; constructor; inversion IHkw; subst;
            cbn in Hkw; apply andb_true_iff in Hkw as [Hx Hl]; [apply O_from_S; assumption|apply IH; assumption]. }
        assert (Hne : args ++ map snd kw <> []).
        { intros E. apply app_eq_nil in E as [-> E]. apply map_eq_nil in E. subst kw. discriminate EL. }
        pose proof (args_parse args Oargs Hargs kw Okw Hkw Hne m rest ltac:(lia)) as A.
        rewrite EL in A.
        rewrite (tr_call ns (Pn m) (sub f) _ (map sub args) (map sub_kw kw) rest (sub_is_ref f Hf)); [apply Htr; lia| |exact A].
        (* the first argument does not start with ")" *)
        rewrite <- EL. clear - Hargs Hkw Hne.
        destruct args as [|x args].
        * destruct kw as [|[k v] kw]; [cbn in Hne; congruence|].
          cbn [map List.app]. destruct (map kw_toks kw); reflexivity.
        * cbn in Hargs. apply andb_true_iff in Hargs as [Hx _].
          assert (Hh : forall tl, match orepr x ++ tl with KOp c :: _ => is_op c ")" | _ => false end = false).
          { intros tl. rewrite (orepr_ostr x Hx). destruct (is_ref x) eqn:Er.
            - rewrite ostr_ref by assumption.
              destruct (T_shape x ltac:(destruct x; try discriminate Er; exact Hx) tl) as [Hh _].
              destruct (T x ++ tl) as [|[? | ? | ? | o] ?]; try reflexivity.
              cbn in Hh. unfold is_op in *. apply pystr_eqb_spec in Hh. subst o. reflexivity.
            - destruct x; try discriminate Er. rewrite ostr_num by exact Hx. unfold num_toks. destruct (lit_isneg v); reflexivity. }
          cbn [map List.app]. destruct (map orepr args ++ map kw_toks kw) as [|t2 L2].
          -- cbn [join]. apply Hh.
          -- change (join sep (orepr x :: t2 :: L2)) with (orepr x ++ sep ++ join sep (t2 :: L2)).
             rewrite <- app_assoc. apply Hh.
  Qed.
End Main.

(* ------------------------------------------------------------ consequences *)

Section Consequences.
  Variable ns : pystr -> option term.

  (* eval(str(e), ns) rebuilds e with the container labels rebound by ns *)
  Theorem parse_show_subst e fuel : wf ns e = true -> (fuel > tsize e)%nat ->
    parse ns fuel (T e) = Some (subst ns e).
  Proof.
    intros Hw Hf. unfold parse.
    pose proof (S_all ns e Hw 1%nat [] (subst ns e, []) ltac:(lia)) as H.
    rewrite app_nil_r in H. rewrite H; [reflexivity| |lia].
    intros n Hn. destruct n; [lia|]. apply tr_stop. reflexivity.
  Qed.
End Consequences.

Lemma subst_id kind e : kinds_okb kind e = true -> subst (id_ns kind) e = e.
Proof.
  induction e as [v|l oa|o k IHo IHk|o k IHo IHk|c l r IHl IHr|c a IHa|v|f a ps IHa IHps|f args kw IHf IHargs IHkw]
    using term_ind'; intros H; cbn [subst]; try reflexivity.
  - cbn in *. apply eqb_prop in H. subst oa. reflexivity.
  - cbn in H. apply andb_true_iff in H as [Ho Hk]. rewrite IHo, IHk by assumption. reflexivity.
  - cbn [kinds_okb] in H. apply andb_true_iff in H as [H Hobj]. apply andb_true_iff in H as [Ho Hk].
    rewrite IHo by assumption. destruct k as [[]| | | | | | | |]; try (rewrite IHk by assumption; reflexivity).
    destruct o as [| l' [|] | | | | | | |]; try discriminate Hobj; reflexivity.
  - cbn in H. apply andb_true_iff in H as [Hl Hr]. rewrite IHl, IHr by assumption. reflexivity.
  - cbn in H. rewrite IHa by assumption. reflexivity.
  - cbn [kinds_okb] in H. apply andb_true_iff in H as [Ha Hps]. rewrite IHa by assumption. f_equal.
    induction ps as [|x ps IH]; [reflexivity|]. inversion IHps; subst. cbn in Hps. apply andb_true_iff in Hps as [Hx Hps].
    cbn. f_equal; auto.
  - cbn [kinds_okb] in H. apply andb_true_iff in H as [H Hkw]. apply andb_true_iff in H as [Hf Hargs].
    rewrite IHf by assumption. f_equal.
    + induction args as [|x l IH]; [reflexivity|]. inversion IHargs; subst. cbn in Hargs. apply andb_true_iff in Hargs as [Hx Hl].
      cbn. f_equal; auto.
    + induction kw as [|[k x] l IH]; [reflexivity|]. inversion IHkw; subst. cbn in Hkw. apply andb_true_iff in Hkw as [Hx Hl].
      cbn. f_equal; auto. f_equal. auto.
Qed.

Theorem parse_show kind e fuel : wf (id_ns kind) e = true -> kinds_okb kind e = true -> (fuel > tsize e)%nat ->
  parse (id_ns kind) fuel (T e) = Some e.
Proof. intros Hw Hk Hf. rewrite parse_show_subst by assumption. rewrite subst_id by assumption. reflexivity. Qed.

(* ------------------------------------------------ dump / load / copy_expr_from *)

Section Tasks.
  Variable ns : pystr -> option term.
  Variable fuel : nat.

  Definition subpair (d : taskdef) : taskdef := (subst ns (fst d), subst ns (snd d)).

  Definition wf_task (d : taskdef) : bool :=
    wf ns (fst d) && wf ns (snd d) && (tsize (fst d) <? fuel)%nat && (tsize (snd d) <? fuel)%nat.

  (* what load leaves in the manager, as a function of the definitions read *)
  Definition merge (overwrite : bool) (dst new : list taskdef) : list taskdef :=
    fold_left (fun acc d =>
                 if has_task acc (fst d)
                 then (if overwrite then unregister acc (fst d) ++ [d] else acc)
                 else acc ++ [d]) new dst.

  Theorem load_dump_spec overwrite src : forallb wf_task src = true ->
    forall dst, load ns fuel overwrite (dump src) dst = Some (merge overwrite dst (map subpair src)).
  Proof.
    induction src as [|[t e] src IH]; intros Hw dst; [reflexivity|].
    cbn [forallb] in Hw. apply andb_true_iff in Hw as [Hd Hw].
    unfold wf_task in Hd. cbn [fst snd] in Hd.
    apply andb_true_iff in Hd as [Hd He2]. apply andb_true_iff in Hd as [Hd Ht2]. apply andb_true_iff in Hd as [Ht He].
    apply Nat.ltb_lt in Ht2. apply Nat.ltb_lt in He2.
    cbn [dump map load fst snd]. rewrite !parse_show_subst by (assumption || lia).
    unfold merge. cbn [map fold_left subpair fst snd].
    destruct (has_task dst (subst ns t)); [destruct overwrite|]; apply IH; assumption.
  Qed.

  (* later definitions never collide with earlier ones *)
  Fixpoint fresh_targets (seen l : list taskdef) : bool :=
    match l with
    | [] => true
    | d :: r => negb (has_task seen (fst d)) && fresh_targets (seen ++ [d]) r
    end.

  Lemma merge_fresh overwrite new : forall dst, fresh_targets dst new = true -> merge overwrite dst new = dst ++ new.
  Proof.
    induction new as [|d new IH]; intros dst H; [cbn; rewrite app_nil_r; reflexivity|].
    cbn in H. apply andb_true_iff in H as [Hd Hn]. apply negb_true_iff in Hd.
    unfold merge in *. cbn [fold_left]. rewrite Hd.
    rewrite IH by assumption. rewrite <- app_assoc. reflexivity.
  Qed.

  (* overwrite=False keeps every existing definition, in place *)
  Lemma merge_keep new : forall dst, exists extra, merge false dst new = dst ++ extra /\
    forall d, In d extra -> In d new /\ has_task dst (fst d) = false.
  Proof.
    induction new as [|d new IH]; intros dst.
    - exists []. cbn. rewrite app_nil_r. split; [reflexivity|intros ? []].
    - unfold merge in *. cbn [fold_left]. destruct (has_task dst (fst d)) eqn:Eh.
      + destruct (IH dst) as (extra & E & Hx). exists extra. split; [exact E|].
        intros x Hin. destruct (Hx x Hin). split; [right|]; assumption.
      + destruct (IH (dst ++ [d])) as (extra & E & Hx). exists (d :: extra).
        split; [rewrite <- app_assoc in E; exact E|].
        intros x [<-|Hin]; [split; [left; reflexivity|exact Eh]|].
        destruct (Hx x Hin) as [A B]. split; [right; exact A|].
        unfold has_task in *. rewrite existsb_app in B. apply orb_false_iff in B as [B _]. exact B.
  Qed.
End Tasks.

(* ----------------------------------------- histories on one target manager *)

Lemma mstep_containers fuel st op st' : mstep fuel st op = Some st' -> ms_containers st' = ms_containers st.
Proof.
  destruct op as [ow src|ow sel binds|t v]; cbn [mstep]; intros H.
  - destruct (load _ _ _ _ _); inversion H; reflexivity.
  - destruct (load _ _ _ _ _); inversion H; reflexivity.
  - inversion H; reflexivity.
Qed.

Lemma mrun_containers fuel ops : forall st l, mrun fuel st ops = Some l ->
  Forall (fun s => ms_containers s = ms_containers st) l.
Proof.
  induction ops as [|op ops IH]; intros st l H; cbn [mrun] in H.
  - inversion H. constructor.
  - destruct (mstep fuel st op) as [st'|] eqn:E; [|discriminate H].
    destruct (mrun fuel st' ops) as [l'|] eqn:E'; [|discriminate H]. inversion H; subst.
    pose proof (mstep_containers _ _ _ _ E) as C. constructor; [exact C|].
    specialize (IH st' l' E'). rewrite C in IH. exact IH.
Qed.

(* what each operation leaves, as a function of the ORIGINAL container map *)
Definition op_tasks (cs : list (pystr * term)) (ts : list taskdef) (op : mop) : list taskdef :=
  match op with
  | MLoad ow src => merge ow ts (map (subpair (ns_of cs)) src)
  | MCopy ow sel binds => merge ow ts (map (subpair (ns_with cs binds)) sel)
  | MAssign t v => unregister ts t ++ (match v with Some e => [(t, e)] | None => [] end)
  end.

Definition op_wf (cs : list (pystr * term)) (fuel : nat) (op : mop) : bool :=
  match op with
  | MLoad _ src => forallb (wf_task (ns_of cs) fuel) src
  | MCopy _ sel binds => forallb (wf_task (ns_with cs binds) fuel) sel
  | MAssign _ _ => true
  end.

Fixpoint spec_run (cs : list (pystr * term)) (ts : list taskdef) (ops : list mop) : list (list taskdef) :=
  match ops with
  | [] => []
  | op :: r => let ts' := op_tasks cs ts op in ts' :: spec_run cs ts' r
  end.

Theorem mrun_spec cs fuel ops : forallb (op_wf cs fuel) ops = true -> forall ts,
  mrun fuel {| ms_containers := cs; ms_tasks := ts |} ops =
  Some (map (fun t => {| ms_containers := cs; ms_tasks := t |}) (spec_run cs ts ops)).
Proof.
  induction ops as [|op ops IH]; intros Hw ts; [reflexivity|].
  cbn [forallb] in Hw. apply andb_true_iff in Hw as [Hop Hw].
  cbn [mrun spec_run map].
  assert (E : mstep fuel {| ms_containers := cs; ms_tasks := ts |} op =
              Some {| ms_containers := cs; ms_tasks := op_tasks cs ts op |}).
  { destruct op as [ow src|ow sel binds|t v]; cbn [mstep op_tasks ms_containers ms_tasks op_wf] in *.
    - rewrite load_dump_spec by assumption. reflexivity.
    - rewrite load_dump_spec by assumption. reflexivity.
    - reflexivity. }
  rewrite E, IH by assumption. reflexivity.
Qed.

(* ------------------------------------------- selection by the root container *)

Lemma select_owner_spec name tasks d :
  In d (select_owner name tasks) <-> In d tasks /\ root_label (fst d) = Some name.
Proof.
  unfold select_owner. rewrite filter_In. unfold owned_by. split; intros [H1 H2]; split; auto.
  - destruct (root_label (fst d)); [|discriminate H2]. apply pystr_eqb_spec in H2. subst. reflexivity.
  - rewrite H2. apply pystr_eqb_refl.
Qed.

(* the selection keeps the dict order and depends on the targets only: nothing
   about the container OBJECTS (their type, their ==) enters *)
Lemma select_owner_app name a b : select_owner name (a ++ b) = select_owner name a ++ select_owner name b.
Proof. apply filter_app. Qed.

Lemma select_owner_partition name tasks :
  (List.length (select_owner name tasks) + List.length (filter (fun d => negb (owned_by name d)) tasks) = List.length tasks)%nat.
Proof. unfold select_owner. induction tasks as [|d r IH]; cbn; [reflexivity|]. destruct (owned_by name d); cbn; lia. Qed.

Theorem copy_expr_from_spec cs fuel ts src name binds ow :
  forallb (wf_task (ns_with cs binds) fuel) (select_owner name src) = true ->
  copy_expr_from fuel {| ms_containers := cs; ms_tasks := ts |} src name binds ow =
  Some {| ms_containers := cs;
          ms_tasks := merge ow ts (map (subpair (ns_with cs binds)) (select_owner name src)) |}.
Proof.
  intros Hw. unfold copy_expr_from. cbn [mstep ms_containers ms_tasks].
  rewrite load_dump_spec by assumption. reflexivity.
Qed.
