(* The translated SOURCE of the data-layer methods (coq/gen/GenTasksData.v, regenerated
   from xdeps/tasks.py on every run) denotes the functions of the hand-written model
   (model/ManagerData.v): ExprTask.__init__ = mk_expr_task, <Task>.run = exec,
   Manager.run_tasks = run_tasks, Manager.find_tasks = find_tasks,
   Manager.set_value = set_value. *)
From Coq Require Import List Bool Arith ZArith NArith Lia.
From XD Require Import lib.ListAux lib.Toposort model.Manager model.ManagerData
  model.TasksSem model.TasksSemData gen.GenTasks gen.GenTasksData proofs.TasksSrc proofs.ManagerDataInv.
Import ListNotations.
Local Open Scope nat_scope.

Definition res_of (er : option merr) : res unit :=
  match er with None => Ok tt | Some e => Err e end.

(* task.run(): Python dispatches on the class of the task *)
Definition task_run (t : dtask) : DM unit :=
  match t_act t with
  | AExpr e => src_exprtask_run t e
  | AFun ws => src_functiontask_run ws
  | AKnob src wts => src_linearknob_run t src wts
  end.

Theorem src_exprtask_init_eq r e dord tord : src_exprtask_init r e dord tord = mk_expr_task r e dord tord.
Proof. reflexivity. Qed.

Lemma call_action_eq ws : forall (m : dmgr) s tr,
  d_call_action ws (m, s, tr) = let '(s', er) := do_writes s ws in ((m, s', tr), res_of er).
Proof.
  induction ws as [|[p e] r IH]; intros m s tr; cbn [d_call_action do_writes]; [reflexivity|].
  unfold dbind, d_get_value. destruct (eval (d_st s) e) as [v|]; [|reflexivity].
  unfold dseq, dbind, d_set_value_ref. destruct (dwrite s p v) as [s1|er]; [|reflexivity].
  apply IH.
Qed.

Lemma for_zip_eq (delta : Z) wts : forall (m : dmgr) s tr,
  d_for_zip wts (fun w t => dbind (d_get_number t) (fun t_value => d_set_value_ref t (Leaf (t_value + w * delta)%Z))) (m, s, tr)
  = let '(s', er) := knob_writes s delta wts in ((m, s', tr), res_of er).
Proof.
  induction wts as [|[w t] r IH]; intros m s tr; cbn [d_for_zip knob_writes]; [reflexivity|].
  unfold dseq, dbind, d_get_number. destruct (nget (d_st s) t) as [[x| |]|]; try reflexivity.
  unfold d_set_value_ref. destruct (dwrite s t (Leaf (x + w * delta))) as [s1|er]; [|reflexivity].
  apply IH.
Qed.

Theorem task_run_eq (t : dtask) (m : dmgr) s tr :
  task_run t (m, s, tr) = let '(s', er) := exec t s in ((m, s', tr), res_of er).
Proof.
  unfold task_run, exec. destruct (t_act t) as [e|ws|src wts].
  - unfold src_exprtask_run, dbind, d_get_value. cbn [do_writes].
    destruct (eval (d_st s) e) as [v|]; [|reflexivity].
    unfold d_set_value_ref. destruct (dwrite s (t_id t) v); reflexivity.
  - apply call_action_eq.
  - unfold src_linearknob_run. unfold dbind at 1. unfold d_get_number at 1.
    destruct (nget (d_st s) src) as [[v| |]|];
      try (destruct (aget path_eqb (t_id t) (d_prev s)); reflexivity).
    unfold dbind at 1. unfold d_get_prev.
    destruct (aget path_eqb (t_id t) (d_prev s)) as [pv|]; [|reflexivity].
    cbv zeta. unfold dseq at 1. unfold dbind at 1. rewrite for_zip_eq.
    destruct (knob_writes s (v - pv) wts) as [s' [er|]]; reflexivity.
Qed.

Theorem src_run_tasks_eq ts : forall (m : dmgr) s tr,
  src_run_tasks task_run ts (m, s, tr) =
  let '(s2, tr2, er) := run_tasks ts s in ((m, s2, tr ++ tr2), res_of er).
Proof.
  unfold src_run_tasks. induction ts as [|t r IH]; intros m s tr; cbn [d_for_tasks run_tasks].
  - unfold dret. now rewrite app_nil_r.
  - unfold dbind at 1. rewrite task_run_eq. destruct (exec t s) as [s' [e|]]; cbn [res_of].
    + now rewrite app_nil_r.
    + unfold dseq, dbind. rewrite IH. destruct (run_tasks r s') as [[s2 tr2] er].
      now rewrite <- app_assoc.
Qed.

Theorem src_find_tasks_eq (sd order : list path) (m : dmgr) :
  src_find_tasks path_eqb sd order m = find_tasks path_eqb m sd order.
Proof.
  unfold src_find_tasks, find_tasks. rewrite (src_find_taskids_eq path_eqb).
  destruct (find_taskids path_eqb m sd order) as [[ids m1]|e]; reflexivity.
Qed.

(* the part of set_value after the optional unregister *)
Definition sv_rest (r : path) (v : vsrc) (sd so : list path) : DM unit :=
  dbind (d_if_isref v (fun value deps_order targets_order =>
           dseq (d_call (src_register path_eqb (src_exprtask_init r value deps_order targets_order)))
                (d_get_value value)))
  (fun value =>
  dseq (d_set_value_ref r value)
  (dseq (dbind (d_query (src_find_tasks path_eqb sd so)) (fun tasks => src_run_tasks task_run tasks))
  (dret tt))).

Definition sv_tail_model (m1 : dmgr) (s : dstate) (r : path) (v : vsrc) (sd_order start_order : list path)
  : dmgr * dstate * outcome :=
      let step2 : res (dmgr * option node) :=
        match v with
        | SPlain x => Ok (m1, Some x)
        | SExpr e dord tord =>
            match register path_eqb (mk_expr_task r e dord tord) m1 with
            | Err er => Err er
            | Ok m2 => Ok (m2, eval (d_st s) e)
            end
        end in
      match step2 with
      | Err e => (m1, s, mkOut (Some e) [])
      | Ok (m2, None) => (m2, s, mkOut (Some EType) [])
      | Ok (m2, Some x) =>
          match dwrite s r x with
          | Err e => (m2, s, mkOut (Some e) [])
          | Ok s1 =>
              match find_tasks path_eqb m2 sd_order start_order with
              | Err e => (m2, s1, mkOut (Some e) [])
              | Ok (ts, m3) =>
                  let '(s2, tr, er) := run_tasks ts s1 in (m3, s2, mkOut er tr)
              end
          end
      end.

Lemma set_value_split (m : dmgr) s r v sd so :
  set_value m s r v sd so =
  match (if is_task r m then unregister path_eqb r m else Ok m) with
  | Err e => (m, s, mkOut (Some e) [])
  | Ok m1 => sv_tail_model m1 s r v sd so
  end.
Proof. reflexivity. Qed.

Lemma sv_tail_eq (m2 : dmgr) s1 sd so :
  dseq (dbind (d_query (src_find_tasks path_eqb sd so)) (fun tasks => src_run_tasks task_run tasks)) (dret tt) (m2, s1, []) =
  match find_tasks path_eqb m2 sd so with
  | Err e => ((m2, s1, []), Err e)
  | Ok (ts, m3) => let '(s2, tr, er) := run_tasks ts s1 in ((m3, s2, tr), res_of er)
  end.
Proof.
  unfold dseq. unfold dbind at 1. unfold dbind at 1. unfold d_query. rewrite src_find_tasks_eq.
  destruct (find_tasks path_eqb m2 sd so) as [[ts m3]|er]; [|reflexivity].
  rewrite src_run_tasks_eq. destruct (run_tasks ts s1) as [[s2 tr2] er]. destruct er; reflexivity.
Qed.

Lemma sv_rest_eq (m1 : dmgr) s r v sd so :
  sv_rest r v sd so (m1, s, []) =
  let '(m', s', out) := sv_tail_model m1 s r v sd so in ((m', s', o_trace out), res_of (o_err out)).
Proof.
  unfold sv_rest, sv_tail_model. unfold dbind at 1. destruct v as [x|e dord tord]; cbn [d_if_isref].
  - unfold dret at 1. unfold dseq at 1. unfold dbind at 1. unfold d_set_value_ref.
    destruct (dwrite s r x) as [s1|er]; [|reflexivity].
    rewrite sv_tail_eq. destruct (find_tasks path_eqb m1 sd so) as [[ts m3]|er]; [|reflexivity].
    destruct (run_tasks ts s1) as [[s2 tr2] er]. reflexivity.
  - unfold dseq at 1. unfold dbind at 1. unfold d_call. rewrite (src_register_eq path_eqb), src_exprtask_init_eq.
    destruct (register path_eqb (mk_expr_task r e dord tord) m1) as [m2|er]; [|reflexivity].
    unfold d_get_value. destruct (eval (d_st s) e) as [x|]; [|reflexivity].
    unfold dseq at 1. unfold dbind at 1. unfold d_set_value_ref.
    destruct (dwrite s r x) as [s1|er]; [|reflexivity].
    rewrite sv_tail_eq. destruct (find_tasks path_eqb m2 sd so) as [[ts m3]|er]; [|reflexivity].
    destruct (run_tasks ts s1) as [[s2 tr2] er]. reflexivity.
Qed.

Theorem src_set_value_eq (m : dmgr) s r v sd so :
  src_set_value task_run r v sd so (m, s, []) =
  let '(m', s', out) := set_value m s r v sd so in ((m', s', o_trace out), res_of (o_err out)).
Proof.
  rewrite set_value_split.
  change (src_set_value task_run r v sd so) with
    (dseq (d_when (d_in_tasks r) (d_call (src_unregister path_eqb r))) (sv_rest r v sd so)).
  unfold dseq at 1. unfold dbind at 1. unfold d_when, d_in_tasks. cbn [fst].
  destruct (is_task r m).
  - unfold d_call. rewrite (src_unregister_eq path_eqb path_eqb_spec).
    destruct (unregister path_eqb r m) as [m1|e]; [|reflexivity]. apply sv_rest_eq.
  - apply sv_rest_eq.
Qed.

(* ---- Manager.load ------------------------------------------------------------------------------ *)
Definition load_task (item : path * expr * list path * list path) : dtask :=
  let '(lhs, rhs, deps_order, targets_order) := item in mk_expr_task lhs rhs deps_order targets_order.

Theorem src_load_eq (s : dstate) ow dump : forall (m : dmgr) tr,
  src_load dump ow (m, s, tr) =
  let '(m', s', out) := step m s (MLoad (map load_task dump) ow) in ((m', s', tr), res_of (o_err out)).
Proof.
  induction dump as [|[[[lhs rhs] dord] tord] dump IH]; intros m tr; [reflexivity|].
  cbn [map]. set (t := load_task (lhs, rhs, dord, tord)).
  change (step m s (MLoad (t :: map load_task dump) ow)) with
      (if is_task (t_id t) m then
         if ow then match unregister path_eqb (t_id t) m with
                    | Err e => (m, s, mkOut (Some e) [])
                    | Ok m1 => match register path_eqb t m1 with
                               | Err e => (m1, s, mkOut (Some e) [])
                               | Ok m2 => step m2 s (MLoad (map load_task dump) ow)
                               end
                    end
         else step m s (MLoad (map load_task dump) ow)
       else match register path_eqb t m with
            | Err e => (m, s, mkOut (Some e) [])
            | Ok m2 => step m2 s (MLoad (map load_task dump) ow)
            end).
  unfold src_load. cbn [d_for_each]. fold (src_load dump ow).
  unfold dseq at 1. unfold dbind at 1. unfold d_ifelse, d_in_tasks. cbn [fst].
  change (t_id t) with lhs. rewrite src_exprtask_init_eq. change (mk_expr_task lhs rhs dord tord) with t.
  destruct (is_task lhs m).
  - destruct ow.
    + unfold dseq, dbind, d_call. rewrite (src_unregister_eq path_eqb path_eqb_spec).
      destruct (unregister path_eqb lhs m) as [m1|e]; [|reflexivity].
      rewrite (src_register_eq path_eqb). destruct (register path_eqb t m1) as [m2|e]; [|reflexivity].
      apply IH.
    + unfold dret. apply IH.
  - unfold d_call. rewrite (src_register_eq path_eqb). destruct (register path_eqb t m) as [m2|e]; [|reflexivity].
    apply IH.
Qed.

(* ---- mk_fun / gen_fun ---------------------------------------------------------------------------- *)
Definition is_expr_task (t : dtask) : Prop := exists e, t_act t = AExpr e.

Lemma assign_lines_run args : forall pre rest (m : dmgr) s tr,
  run_lines (assign_lines (length pre) (map fst args) ++ rest) (pre ++ map snd args) (m, s, tr) =
  match arg_writes s args with
  | (s1, Some e) => ((m, s1, tr), Err e)
  | (s1, None) => run_lines rest (pre ++ map snd args) (m, s1, tr)
  end.
Proof.
  induction args as [|[p v] args IH]; intros pre rest m s tr; cbn [map fst snd assign_lines app arg_writes]; [reflexivity|].
  cbn [run_lines].
  assert (Hn : nth_error (pre ++ v :: map snd args) (length pre) = Some v).
  { rewrite nth_error_app2 by lia. now rewrite Nat.sub_diag. }
  rewrite Hn. unfold dseq, dbind, d_set_value_ref.
  destruct (dwrite s p v) as [s1|e]; [|reflexivity].
  specialize (IH (pre ++ [v]) rest m s1 tr).
  rewrite app_length in IH. cbn [length] in IH. rewrite Nat.add_1_r, <- app_assoc in IH. cbn [app] in IH.
  exact IH.
Qed.

Lemma task_lines_run values tl : forall (m : dmgr) s tr, Forall is_expr_task tl ->
  run_lines (map LTask tl) values (m, s, tr) =
  let '(s2, tr2, er) := run_tasks tl s in ((m, s2, tr ++ tr2), res_of er).
Proof.
  induction tl as [|t tl IH]; intros m s tr Hf; cbn [map run_lines run_tasks].
  - unfold dret. now rewrite app_nil_r.
  - inversion Hf as [|x l [e He] Hl]; subst. unfold exec. rewrite He. cbn [do_writes].
    unfold dbind, d_get_value. destruct (eval (d_st s) e) as [v|]; [|now rewrite app_nil_r].
    unfold dseq, dbind, d_set_value_ref. destruct (dwrite s (t_id t) v) as [s1|er]; [|now rewrite app_nil_r].
    rewrite (IH m s1 (tr ++ [t_id t]) Hl). destruct (run_tasks tl s1) as [[s2 tr2] er].
    now rewrite <- app_assoc.
Qed.

Theorem src_gen_fun_eq (m : dmgr) s args sd so :
  (forall tl m', find_tasks path_eqb m sd so = Ok (tl, m') -> Forall is_expr_task tl) ->
  src_gen_fun_call (map fst args) (map snd args) sd so (m, s, []) =
  let '(m', s', out) := step m s (MGenFun args sd so) in ((m', s', o_trace out), res_of (o_err out)).
Proof.
  intros Hex. unfold src_gen_fun_call, dbind, d_query, src_mk_fun. cbn [step]. unfold mk_fun.
  change (fold_left d_deps_into (map fst args) []) with (args_start (map fst args)).
  destruct (same_set path_eqb sd (args_start (map fst args))); [|reflexivity].
  rewrite src_find_tasks_eq. destruct (find_tasks path_eqb m sd so) as [[tl m']|e] eqn:F; [|reflexivity].
  unfold exec_fun.
  pose proof (assign_lines_run args [] (map LTask tl) m' s []) as H. cbn [length app] in H. rewrite H.
  destruct (arg_writes s args) as [s1 [e|]]; [reflexivity|].
  rewrite (task_lines_run _ tl m' s1 [] (Hex tl m' eq_refl)).
  destruct (run_tasks tl s1) as [[s2 tr2] er]. reflexivity.
Qed.
