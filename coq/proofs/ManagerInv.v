(* The index invariant of the manager (C03): the four indices always hold,
   with multiplicities, exactly what the registered tasks define:

     rdeps[d][t]     = #{A | d in deps A, t in targets A}
     deptasks[d][a]  = [a registered and d in deps a]
     tartasks[t][a]  = [a registered and t in targets a]
     rtasks[a][b]    = |targets a  /\  deps b|        (a, b registered)

   register (of a fresh id) and unregister (of a registered id) preserve it;
   hence it holds after every history, and the indices are a function of the
   surviving task set only. *)
From Coq Require Import List Bool Arith Lia.
From XD Require Import lib.ListAux lib.Toposort model.Manager proofs.ManagerIdx.
Import ListNotations.

Section Inv.
Context {K A : Type}.
Variable eqb : K -> K -> bool.
Hypothesis eqb_spec : forall a b, eqb a b = true <-> a = b.

Notation task := (@task K A).
Notation mgr := (@mgr K A).
Notation icount := (icount eqb).
Notation idx_wf := (idx_wf eqb).
Notation memb := (mem eqb).

Lemma cntp_andc {X} (p : X -> bool) (c : bool) l :
  cntp (fun x => p x && c) l = b2n c * cntp p l.
Proof.
  destruct c; cbn [b2n].
  - rewrite Nat.mul_1_l. apply cntp_ext. intros x _. now rewrite andb_true_r.
  - cbn. unfold cntp. induction l as [|x t IH]; cbn; auto. now rewrite andb_false_r.
Qed.

Lemma cntp_candp {X} (p : X -> bool) (c : bool) l :
  cntp (fun x => c && p x) l = b2n c * cntp p l.
Proof. rewrite <- cntp_andc. apply cntp_ext. intros x _. apply andb_comm. Qed.

Lemma cntp_false {X} (l : list X) : cntp (fun _ => false) l = 0.
Proof. unfold cntp. induction l; cbn; auto. Qed.

Definition inter (l1 l2 : list K) : nat := cntp (fun x => memb x l2) l1.

Lemma cntp_or_disjoint {X} (p q : X -> bool) l :
  (forall x, In x l -> p x = true -> q x = false) ->
  cntp (fun x => p x || q x) l = cntp p l + cntp q l.
Proof.
  induction l as [|x t IH]; intros H; [reflexivity|].
  rewrite !cntp_cons, IH by (intros y Hy; apply H; now right).
  destruct (p x) eqn:E; cbn [orb b2n]; [rewrite (H x (or_introl eq_refl) E)|]; cbn; lia.
Qed.

(* |l1 /\ l2| is symmetric for duplicate-free lists *)
Lemma inter_sym l1 : forall l2, NoDup l1 -> NoDup l2 -> inter l1 l2 = inter l2 l1.
Proof.
  unfold inter. induction l1 as [|x t IH]; intros l2 H1 H2.
  - unfold cntp; cbn. induction l2 as [|y s IHs]; [reflexivity|]. inversion H2; subst. cbn. now apply IHs.
  - inversion H1; subst. rewrite cntp_cons, IH by assumption.
    rewrite (cntp_ext (fun y => memb y (x :: t)) (fun y => eqb y x || memb y t)) by reflexivity.
    rewrite cntp_or_disjoint.
    + rewrite (cntp_eq_NoDup eqb eqb_spec) by assumption. reflexivity.
    + intros y _ E. apply eqb_spec in E; subst y. now apply (mem_nIn eqb eqb_spec).
Qed.

(* ---- effect of register ------------------------------------------------------- *)
Definition mwf (m : mgr) : Prop :=
  idx_wf (m_rdeps m) /\ idx_wf (m_rtasks m) /\ idx_wf (m_deptasks m) /\ idx_wf (m_tartasks m).

Lemma reg_dep_effect tid tg m dep : mwf m ->
  let m' := reg_dep eqb tid tg m dep in
  mwf m' /\ m_tasks m' = m_tasks m /\ m_frozen m' = m_frozen m /\
  (forall d t, icount (m_rdeps m') d t = icount (m_rdeps m) d t + b2n (eqb dep d) * cntp (fun x => eqb x t) tg) /\
  (forall d a, icount (m_deptasks m') d a = icount (m_deptasks m) d a + b2n (eqb dep d) * b2n (eqb tid a)) /\
  (forall t a, icount (m_tartasks m') t a = icount (m_tartasks m) t a) /\
  (forall a b, icount (m_rtasks m') a b =
               icount (m_rtasks m) a b + b2n (eqb tid b) * b2n (1 <=? icount (m_tartasks m) dep a)).
Proof.
  intros (W1 & W2 & W3 & W4). unfold reg_dep.
  pose proof (iget_fst eqb dep (m_tartasks m)) as F1.
  pose proof (iget_snd_wf eqb eqb_spec dep (m_tartasks m) W4) as F2.
  pose proof (fun a b => icount_iget eqb dep (m_tartasks m) a b) as F3.
  destruct (iget eqb dep (m_tartasks m)) as [tks tart]. cbn [fst snd] in *. subst tks.
  cbn [m_rdeps m_rtasks m_deptasks m_tartasks m_tasks m_frozen].
  split; [|split; [reflexivity|split; [reflexivity|split; [|split; [|split]]]]].
  - split; [|split; [|split]]; auto.
    + apply (idx_wf_iupd eqb eqb_spec); auto. intros rc; apply (rc_wf_extend eqb eqb_spec).
    + apply (idx_wf_fold_append eqb eqb_spec (fun x => x) (fun _ => tid)); auto.
    + apply (idx_wf_iupd eqb eqb_spec); auto. intros rc; apply (rc_wf_append eqb eqb_spec).
  - intros d t. rewrite (icount_iupd eqb eqb_spec). destruct (eqb dep d) eqn:E; cbn [b2n]; [|lia].
    apply eqb_spec in E; subst d. rewrite (rcount_extend eqb eqb_spec). unfold ManagerIdx.icount. lia.
  - intros d a. rewrite (icount_iupd eqb eqb_spec). destruct (eqb dep d) eqn:E; cbn [b2n]; [|lia].
    apply eqb_spec in E; subst d. rewrite (rcount_append eqb eqb_spec). unfold ManagerIdx.icount. lia.
  - intros t a. apply F3.
  - intros a b.
    rewrite (icount_fold_append eqb eqb_spec (fun x => x) (fun _ => tid)).
    f_equal. rewrite cntp_andc. f_equal.
    rewrite (cntp_eq_NoDup eqb eqb_spec) by (apply (keys_NoDup eqb); exact W4).
    destruct (memb a (rc_keys (ipeek eqb dep (m_tartasks m)))) eqn:Em.
    + apply (memK_In eqb eqb_spec) in Em. apply (keys_icount eqb eqb_spec) in Em; [|exact W4].
      apply Nat.leb_le in Em. now rewrite Em.
    + assert (~ 1 <= icount (m_tartasks m) dep a).
      { intros H. apply (keys_icount eqb eqb_spec) in H; [|exact W4].
        apply (memK_In eqb eqb_spec) in H. congruence. }
      destruct (1 <=? icount (m_tartasks m) dep a) eqn:E2; [apply Nat.leb_le in E2; contradiction|reflexivity].
Qed.

Lemma reg_deps_effect tid tg ds : forall m, mwf m ->
  let m' := fold_left (reg_dep eqb tid tg) ds m in
  mwf m' /\ m_tasks m' = m_tasks m /\ m_frozen m' = m_frozen m /\
  (forall d t, icount (m_rdeps m') d t = icount (m_rdeps m) d t + cntp (fun x => eqb x d) ds * cntp (fun x => eqb x t) tg) /\
  (forall d a, icount (m_deptasks m') d a = icount (m_deptasks m) d a + cntp (fun x => eqb x d) ds * b2n (eqb tid a)) /\
  (forall t a, icount (m_tartasks m') t a = icount (m_tartasks m) t a) /\
  (forall a b, icount (m_rtasks m') a b =
               icount (m_rtasks m) a b + b2n (eqb tid b) * cntp (fun dep => 1 <=? icount (m_tartasks m) dep a) ds).
Proof.
  induction ds as [|dep ds IH]; intros m W; cbn [fold_left].
  - split; [exact W|]. repeat split; intros; unfold cntp; cbn [filter length]; rewrite ?Nat.mul_0_l, ?Nat.mul_0_r; lia.
  - destruct (reg_dep_effect tid tg m dep W) as (W' & T1 & Fz1 & R1 & D1 & Ta1 & Rt1).
    destruct (IH _ W') as (W'' & T2 & Fz2 & R2 & D2 & Ta2 & Rt2).
    split; [exact W''|]. split; [congruence|]. split; [congruence|].
    split; [|split; [|split]].
    + intros d t. rewrite R2, R1, cntp_cons. lia.
    + intros d a. rewrite D2, D1, cntp_cons. lia.
    + intros t a. now rewrite Ta2, Ta1.
    + intros a b. rewrite Rt2, Rt1, cntp_cons.
      rewrite (cntp_ext (fun dep0 => 1 <=? icount (m_tartasks (reg_dep eqb tid tg m dep)) dep0 a)
                        (fun dep0 => 1 <=? icount (m_tartasks m) dep0 a)) by (intros x _; now rewrite Ta1).
      lia.
Qed.

Lemma reg_tar_effect tid m tar : mwf m ->
  let m' := reg_tar eqb tid m tar in
  mwf m' /\ m_tasks m' = m_tasks m /\ m_frozen m' = m_frozen m /\
  (forall d t, icount (m_rdeps m') d t = icount (m_rdeps m) d t) /\
  (forall d a, icount (m_deptasks m') d a = icount (m_deptasks m) d a) /\
  (forall t a, icount (m_tartasks m') t a = icount (m_tartasks m) t a + b2n (eqb tar t) * b2n (eqb tid a)) /\
  (forall a b, icount (m_rtasks m') a b =
               icount (m_rtasks m) a b + b2n (eqb tid a) * b2n (1 <=? icount (m_deptasks m) tar b)).
Proof.
  intros (W1 & W2 & W3 & W4). unfold reg_tar.
  pose proof (iget_fst eqb tar (m_deptasks m)) as F1.
  pose proof (iget_snd_wf eqb eqb_spec tar (m_deptasks m) W3) as F2.
  pose proof (fun a b => icount_iget eqb tar (m_deptasks m) a b) as F3.
  destruct (iget eqb tar (m_deptasks m)) as [other dt]. cbn [fst snd] in *. subst other.
  cbn [m_rdeps m_rtasks m_deptasks m_tartasks m_tasks m_frozen].
  split; [|split; [reflexivity|split; [reflexivity|split; [|split; [|split]]]]].
  - split; [|split; [|split]]; auto.
    + apply (idx_wf_fold_append eqb eqb_spec (fun _ => tid) (fun x => x)); auto.
    + apply (idx_wf_iupd eqb eqb_spec); auto. intros rc; apply (rc_wf_append eqb eqb_spec).
  - reflexivity.
  - intros d a. apply F3.
  - intros t a. rewrite (icount_iupd eqb eqb_spec). destruct (eqb tar t) eqn:E; cbn [b2n]; [|lia].
    apply eqb_spec in E; subst t. rewrite (rcount_append eqb eqb_spec). unfold ManagerIdx.icount. lia.
  - intros a b.
    rewrite (icount_fold_append eqb eqb_spec (fun _ => tid) (fun x => x)).
    f_equal. rewrite cntp_candp. f_equal.
    rewrite (cntp_eq_NoDup eqb eqb_spec) by (apply (keys_NoDup eqb); exact W3).
    destruct (memb b (rc_keys (ipeek eqb tar (m_deptasks m)))) eqn:Em.
    + apply (memK_In eqb eqb_spec) in Em. apply (keys_icount eqb eqb_spec) in Em; [|exact W3].
      apply Nat.leb_le in Em. now rewrite Em.
    + assert (~ 1 <= icount (m_deptasks m) tar b).
      { intros H. apply (keys_icount eqb eqb_spec) in H; [|exact W3].
        apply (memK_In eqb eqb_spec) in H. congruence. }
      destruct (1 <=? icount (m_deptasks m) tar b) eqn:E2; [apply Nat.leb_le in E2; contradiction|reflexivity].
Qed.

Lemma reg_tars_effect tid tg : forall m, mwf m ->
  let m' := fold_left (reg_tar eqb tid) tg m in
  mwf m' /\ m_tasks m' = m_tasks m /\ m_frozen m' = m_frozen m /\
  (forall d t, icount (m_rdeps m') d t = icount (m_rdeps m) d t) /\
  (forall d a, icount (m_deptasks m') d a = icount (m_deptasks m) d a) /\
  (forall t a, icount (m_tartasks m') t a = icount (m_tartasks m) t a + cntp (fun x => eqb x t) tg * b2n (eqb tid a)) /\
  (forall a b, icount (m_rtasks m') a b =
               icount (m_rtasks m) a b + b2n (eqb tid a) * cntp (fun tar => 1 <=? icount (m_deptasks m) tar b) tg).
Proof.
  induction tg as [|tar tg IH]; intros m W; cbn [fold_left].
  - split; [exact W|]. repeat split; intros; unfold cntp; cbn [filter length]; rewrite ?Nat.mul_0_l, ?Nat.mul_0_r; lia.
  - destruct (reg_tar_effect tid m tar W) as (W' & T1 & Fz1 & R1 & D1 & Ta1 & Rt1).
    destruct (IH _ W') as (W'' & T2 & Fz2 & R2 & D2 & Ta2 & Rt2).
    split; [exact W''|]. split; [congruence|]. split; [congruence|].
    split; [|split; [|split]].
    + intros d t. now rewrite R2, R1.
    + intros d a. now rewrite D2, D1.
    + intros t a. rewrite Ta2, Ta1, cntp_cons. lia.
    + intros a b. rewrite Rt2, Rt1, cntp_cons.
      rewrite (cntp_ext (fun tar0 => 1 <=? icount (m_deptasks (reg_tar eqb tid m tar)) tar0 b)
                        (fun tar0 => 1 <=? icount (m_deptasks m) tar0 b)) by (intros x _; now rewrite D1).
      lia.
Qed.

(* ---- the canonical counts ---------------------------------------------------------- *)
Definition c_rdeps (ts : list (K * task)) (d t : K) : nat :=
  fold_right (fun p acc => b2n (memb d (t_deps (snd p))) * b2n (memb t (t_targets (snd p))) + acc) 0 ts.

Definition c_deptasks (ts : list (K * task)) (d a : K) : nat :=
  match aget eqb a ts with Some T => b2n (memb d (t_deps T)) | None => 0 end.

Definition c_tartasks (ts : list (K * task)) (t a : K) : nat :=
  match aget eqb a ts with Some T => b2n (memb t (t_targets T)) | None => 0 end.

Definition c_rtasks (ts : list (K * task)) (a b : K) : nat :=
  match aget eqb a ts, aget eqb b ts with
  | Some Ta, Some Tb => inter (t_targets Ta) (t_deps Tb)
  | _, _ => 0
  end.

Definition task_ok (k : K) (T : task) : Prop :=
  t_id T = k /\ NoDup (t_deps T) /\ NoDup (t_targets T).

Definition tasks_wf (ts : list (K * task)) : Prop :=
  NoDup (map fst ts) /\ forall k T, aget eqb k ts = Some T -> task_ok k T.

Definition Inv (m : mgr) : Prop :=
  mwf m /\ tasks_wf (m_tasks m) /\
  (forall d t, icount (m_rdeps m) d t = c_rdeps (m_tasks m) d t) /\
  (forall d a, icount (m_deptasks m) d a = c_deptasks (m_tasks m) d a) /\
  (forall t a, icount (m_tartasks m) t a = c_tartasks (m_tasks m) t a) /\
  (forall a b, icount (m_rtasks m) a b = c_rtasks (m_tasks m) a b).

Lemma Inv_empty : Inv empty_mgr.
Proof.
  split; [repeat split; cbn; try apply NoDup_nil; intros; discriminate|].
  split; [split; [cbn; apply NoDup_nil|intros k T H; discriminate]|].
  repeat split; intros; reflexivity.
Qed.

Lemma b2n_leb1 n : n <= 1 -> b2n (1 <=? n) = n.
Proof. intros H. destruct n as [|[|n]]; cbn; auto; lia. Qed.

Lemma b2n_le1 b : b2n b <= 1.
Proof. destruct b; cbn; lia. Qed.

Lemma aset_fresh (k : K) (T : task) ts : aget eqb k ts = None -> aset eqb k T ts = ts ++ [(k, T)].
Proof.
  induction ts as [|[k' T'] t IH]; cbn; auto.
  destruct (eqb k k'); [discriminate|]. intros H. now rewrite IH.
Qed.

Lemma c_rdeps_app ts1 ts2 d t : c_rdeps (ts1 ++ ts2) d t = c_rdeps ts1 d t + c_rdeps ts2 d t.
Proof. unfold c_rdeps. induction ts1 as [|p r IH]; cbn; auto. rewrite IH. lia. Qed.

(* ---- register preserves the invariant ------------------------------------------------- *)
Theorem register_Inv (T : task) (m : mgr) :
  Inv m -> aget eqb (t_id T) (m_tasks m) = None -> NoDup (t_deps T) -> NoDup (t_targets T) ->
  Inv (register_nofreeze eqb T m) /\
  m_tasks (register_nofreeze eqb T m) = m_tasks m ++ [(t_id T, T)] /\
  m_frozen (register_nofreeze eqb T m) = m_frozen m.
Proof.
  intros (W & TW & IR & ID & IT & IRt) Hfresh Hnd Hnt. unfold register_nofreeze.
  set (tid := t_id T) in *.
  set (m0 := mkMgr (aset eqb tid T (m_tasks m)) (m_rdeps m) (m_rtasks m) (m_deptasks m) (m_tartasks m) (m_frozen m)).
  assert (W0 : mwf m0) by exact W.
  destruct (reg_deps_effect tid (t_targets T) (t_deps T) m0 W0) as (W1 & T1 & Fz1 & R1 & D1 & Ta1 & Rt1).
  set (m1 := fold_left (reg_dep eqb tid (t_targets T)) (t_deps T) m0) in *.
  destruct (reg_tars_effect tid (t_targets T) m1 W1) as (W2 & T2 & Fz2 & R2 & D2 & Ta2 & Rt2).
  set (m2 := fold_left (reg_tar eqb tid) (t_targets T) m1) in *.
  assert (Hts : m_tasks m2 = m_tasks m ++ [(tid, T)]).
  { rewrite T2, T1. cbn [m0 m_tasks]. now apply aset_fresh. }
  split; [|split; [exact Hts|now rewrite Fz2, Fz1]].
  destruct TW as [TN TO].
  assert (Hget : forall k, aget eqb k (m_tasks m ++ [(tid, T)]) =
                           match aget eqb k (m_tasks m) with Some x => Some x | None => if eqb k tid then Some T else None end).
  { intros k. rewrite aget_app. destruct (aget eqb k (m_tasks m)); auto. }
  split; [exact W2|]. split; [|split; [|split; [|split]]].
  - rewrite Hts. split.
    + rewrite map_app; cbn. apply NoDup_snoc; auto. now apply (aget_None_keys eqb eqb_spec).
    + intros k T'. rewrite Hget. destruct (aget eqb k (m_tasks m)) eqn:E.
      * intros H; inversion H; subst. now apply TO.
      * destruct (eqb k tid) eqn:E2; [|discriminate]. intros H; inversion H; subst T'.
        apply eqb_spec in E2. subst k. repeat split; auto.
  - intros d t. rewrite R2, R1. cbn [m0 m_rdeps]. rewrite IR, Hts, c_rdeps_app.
    rewrite !(cntp_eq_NoDup eqb eqb_spec) by assumption.
    unfold c_rdeps; cbn [fold_right snd]. nia.
  - intros d a. rewrite D2, D1. cbn [m0 m_deptasks]. rewrite ID, Hts.
    unfold c_deptasks. rewrite Hget. rewrite (cntp_eq_NoDup eqb eqb_spec) by assumption.
    rewrite (eqb_sym eqb eqb_spec tid a).
    destruct (aget eqb a (m_tasks m)) eqn:E.
    + destruct (eqb a tid) eqn:E2; [apply eqb_spec in E2; subst a; congruence|]. cbn; lia.
    + destruct (eqb a tid); cbn; lia.
  - intros t a. rewrite Ta2, Ta1. cbn [m0 m_tartasks]. rewrite IT, Hts.
    unfold c_tartasks. rewrite Hget. rewrite (cntp_eq_NoDup eqb eqb_spec) by assumption.
    rewrite (eqb_sym eqb eqb_spec tid a).
    destruct (aget eqb a (m_tasks m)) eqn:E.
    + destruct (eqb a tid) eqn:E2; [apply eqb_spec in E2; subst a; congruence|]. cbn; lia.
    + destruct (eqb a tid); cbn; lia.
  - intros a b. rewrite Rt2, Rt1. cbn [m0 m_rtasks m_tartasks]. rewrite IRt, Hts.
    (* counts met by the two loops, in canonical form *)
    assert (L1 : cntp (fun dep => 1 <=? icount (m_tartasks m) dep a) (t_deps T) =
                 match aget eqb a (m_tasks m) with Some Ta => inter (t_targets Ta) (t_deps T) | None => 0 end).
    { rewrite (cntp_ext _ (fun dep => match aget eqb a (m_tasks m) with Some Ta => memb dep (t_targets Ta) | None => false end)).
      - destruct (aget eqb a (m_tasks m)) as [Ta|] eqn:E.
        + destruct (TO _ _ E) as (_ & _ & Hta). rewrite (inter_sym _ _ Hta Hnd). reflexivity.
        + apply cntp_false.
      - intros x _. rewrite IT. unfold c_tartasks. destruct (aget eqb a (m_tasks m)); [|reflexivity].
        destruct (memb x (t_targets t)); reflexivity. }
    assert (L2 : cntp (fun tar => 1 <=? icount (m_deptasks m1) tar b) (t_targets T) =
                 match aget eqb b (m_tasks m) with
                 | Some Tb => inter (t_targets T) (t_deps Tb)
                 | None => if eqb b tid then inter (t_targets T) (t_deps T) else 0 end).
    { rewrite (cntp_ext _ (fun tar => match aget eqb b (m_tasks m) with
                                      | Some Tb => memb tar (t_deps Tb)
                                      | None => if eqb b tid then memb tar (t_deps T) else false end)).
      - destruct (aget eqb b (m_tasks m)) as [Tb|] eqn:E; [reflexivity|].
        destruct (eqb b tid); [reflexivity|]. apply cntp_false.
      - intros x _. rewrite D1. cbn [m0 m_deptasks]. rewrite ID. unfold c_deptasks.
        rewrite (cntp_eq_NoDup eqb eqb_spec) by assumption. rewrite (eqb_sym eqb eqb_spec tid b).
        destruct (aget eqb b (m_tasks m)) eqn:E.
        + destruct (eqb b tid) eqn:E2; [apply eqb_spec in E2; subst b; congruence|].
          rewrite Nat.mul_0_r, Nat.add_0_r. destruct (memb x (t_deps t)); reflexivity.
        + destruct (eqb b tid); cbn [b2n]; rewrite ?Nat.mul_1_r, ?Nat.mul_0_r; cbn;
            destruct (memb x (t_deps T)); reflexivity. }
    rewrite L1, L2. unfold c_rtasks. rewrite !Hget.
    rewrite (eqb_sym eqb eqb_spec tid a), (eqb_sym eqb eqb_spec tid b).
    destruct (aget eqb a (m_tasks m)) as [Ta|] eqn:Ea; destruct (aget eqb b (m_tasks m)) as [Tb|] eqn:Eb.
    + assert (eqb a tid = false) by (destruct (eqb a tid) eqn:E2; auto; apply eqb_spec in E2; subst a; congruence).
      assert (eqb b tid = false) by (destruct (eqb b tid) eqn:E2; auto; apply eqb_spec in E2; subst b; congruence).
      rewrite H, H0. cbn; lia.
    + assert (eqb a tid = false) by (destruct (eqb a tid) eqn:E2; auto; apply eqb_spec in E2; subst a; congruence).
      rewrite H. destruct (eqb b tid); cbn; lia.
    + assert (eqb b tid = false) by (destruct (eqb b tid) eqn:E2; auto; apply eqb_spec in E2; subst b; congruence).
      rewrite H. destruct (eqb a tid); cbn; lia.
    + destruct (eqb a tid); destruct (eqb b tid); cbn; lia.
Qed.

(* ---- effect of unregister ------------------------------------------------------------- *)
Lemma unreg_dep_effect tid tg m dep : mwf m ->
  let m' := unreg_dep eqb tid tg m dep in
  mwf m' /\ m_tasks m' = m_tasks m /\ m_frozen m' = m_frozen m /\
  (forall d t, icount (m_rdeps m') d t = icount (m_rdeps m) d t - b2n (eqb dep d) * cntp (fun x => eqb x t) tg) /\
  (forall d a, icount (m_deptasks m') d a = icount (m_deptasks m) d a - b2n (eqb dep d) * b2n (eqb tid a)) /\
  (forall t a, icount (m_tartasks m') t a = icount (m_tartasks m) t a) /\
  (forall a b, icount (m_rtasks m') a b =
               icount (m_rtasks m) a b - b2n (eqb tid b) * b2n (1 <=? icount (m_tartasks m) dep a)).
Proof.
  intros (W1 & W2 & W3 & W4). unfold unreg_dep.
  pose proof (iget_fst eqb dep (m_tartasks m)) as F1.
  pose proof (iget_snd_wf eqb eqb_spec dep (m_tartasks m) W4) as F2.
  pose proof (fun a b => icount_iget eqb dep (m_tartasks m) a b) as F3.
  destruct (iget eqb dep (m_tartasks m)) as [tks tart]. cbn [fst snd] in *. subst tks.
  cbn [m_rdeps m_rtasks m_deptasks m_tartasks m_tasks m_frozen].
  split; [|split; [reflexivity|split; [reflexivity|split; [|split; [|split]]]]].
  - split; [|split; [|split]]; auto.
    + apply (idx_wf_fold_idec eqb eqb_spec (fun _ => dep) (fun x => x)); auto.
    + apply (idx_wf_fold_idec eqb eqb_spec (fun x => x) (fun _ => tid)); auto.
    + apply (idx_wf_idec eqb eqb_spec); auto.
  - intros d t. rewrite (icount_fold_idec eqb eqb_spec (fun _ => dep) (fun x => x)) by assumption. now rewrite cntp_candp.
  - intros d a. rewrite (icount_idec eqb eqb_spec) by assumption.
    destruct (eqb dep d); destruct (eqb tid a); cbn; lia.
  - intros t a. apply F3.
  - intros a b. rewrite (icount_fold_idec eqb eqb_spec (fun x => x) (fun _ => tid)) by assumption.
    f_equal. rewrite cntp_andc. f_equal.
    rewrite (cntp_eq_NoDup eqb eqb_spec) by (apply (keys_NoDup eqb); exact W4).
    destruct (memb a (rc_keys (ipeek eqb dep (m_tartasks m)))) eqn:Em.
    + apply (memK_In eqb eqb_spec) in Em. apply (keys_icount eqb eqb_spec) in Em; [|exact W4].
      apply Nat.leb_le in Em. now rewrite Em.
    + assert (~ 1 <= icount (m_tartasks m) dep a).
      { intros H. apply (keys_icount eqb eqb_spec) in H; [|exact W4].
        apply (memK_In eqb eqb_spec) in H. congruence. }
      destruct (1 <=? icount (m_tartasks m) dep a) eqn:E2; [apply Nat.leb_le in E2; contradiction|reflexivity].
Qed.

Lemma unreg_deps_effect tid tg ds : forall m, mwf m ->
  let m' := fold_left (unreg_dep eqb tid tg) ds m in
  mwf m' /\ m_tasks m' = m_tasks m /\ m_frozen m' = m_frozen m /\
  (forall d t, icount (m_rdeps m') d t = icount (m_rdeps m) d t - cntp (fun x => eqb x d) ds * cntp (fun x => eqb x t) tg) /\
  (forall d a, icount (m_deptasks m') d a = icount (m_deptasks m) d a - cntp (fun x => eqb x d) ds * b2n (eqb tid a)) /\
  (forall t a, icount (m_tartasks m') t a = icount (m_tartasks m) t a) /\
  (forall a b, icount (m_rtasks m') a b =
               icount (m_rtasks m) a b - b2n (eqb tid b) * cntp (fun dep => 1 <=? icount (m_tartasks m) dep a) ds).
Proof.
  induction ds as [|dep ds IH]; intros m W; cbn [fold_left].
  - split; [exact W|]. repeat split; intros; unfold cntp; cbn [filter length]; rewrite ?Nat.mul_0_l, ?Nat.mul_0_r; lia.
  - destruct (unreg_dep_effect tid tg m dep W) as (W' & T1 & Fz1 & R1 & D1 & Ta1 & Rt1).
    destruct (IH _ W') as (W'' & T2 & Fz2 & R2 & D2 & Ta2 & Rt2).
    split; [exact W''|]. split; [congruence|]. split; [congruence|].
    split; [|split; [|split]].
    + intros d t. rewrite R2, R1, cntp_cons. lia.
    + intros d a. rewrite D2, D1, cntp_cons. lia.
    + intros t a. now rewrite Ta2, Ta1.
    + intros a b. rewrite Rt2, Rt1, cntp_cons.
      rewrite (cntp_ext (fun dep0 => 1 <=? icount (m_tartasks (unreg_dep eqb tid tg m dep)) dep0 a)
                        (fun dep0 => 1 <=? icount (m_tartasks m) dep0 a)) by (intros x _; now rewrite Ta1).
      lia.
Qed.

Lemma unreg_tars_effect tid tars : forall tart, idx_wf tart -> NoDup tars ->
  (forall tar, In tar tars -> 1 <= icount tart tar tid) ->
  exists tart', unreg_tars eqb tid tars tart = Some tart' /\ idx_wf tart' /\
    forall t a, icount tart' t a = icount tart t a - cntp (fun x => eqb x t) tars * b2n (eqb tid a).
Proof.
  induction tars as [|tar tars IH]; intros tart W Hnd Hin; cbn [unreg_tars].
  - exists tart. split; [reflexivity|split; [exact W|]]. intros; unfold cntp; cbn [filter length]; lia.
  - pose proof (iget_fst eqb tar tart) as F1.
    pose proof (iget_snd_wf eqb eqb_spec tar tart W) as F2.
    pose proof (fun k => iget_snd_peek eqb tar tart k) as F3.
    destruct (iget eqb tar tart) as [rc tart1]. cbn [fst snd] in *. subst rc.
    pose proof (ipeek_wf eqb tart tar W) as Hw.
    assert (H1 : 1 <= rcount eqb (ipeek eqb tar tart) tid) by (apply Hin; now left).
    rewrite (rc_remove_some eqb tid _ Hw H1).
    inversion Hnd; subst.
    set (tart2 := aset eqb tar (rc_remove_if eqb tid (ipeek eqb tar tart)) tart1).
    assert (W2 : idx_wf tart2) by (apply (idx_wf_aset eqb eqb_spec); auto; now apply (rc_wf_remove_if eqb eqb_spec)).
    assert (C2 : forall t a, icount tart2 t a = icount tart t a - b2n (eqb tar t) * b2n (eqb tid a)).
    { intros t a. unfold ManagerIdx.icount, tart2. rewrite (ipeek_aset eqb eqb_spec), F3.
      destruct (eqb tar t) eqn:E.
      - apply eqb_spec in E; subst t. rewrite (rcount_remove_if eqb eqb_spec) by assumption. cbn [b2n]. lia.
      - cbn; lia. }
    destruct (IH tart2 W2 H3) as (tart' & E' & W' & C').
    + intros x Hx. rewrite C2. destruct (eqb tar x) eqn:E.
      * apply eqb_spec in E; subst x. contradiction.
      * cbn. rewrite Nat.sub_0_r. apply Hin; now right.
    + exists tart'. split; [exact E'|split; [exact W'|]].
      intros t a. rewrite C', C2, cntp_cons. lia.
Qed.

Lemma adrop_notin (k : K) (ts : list (K * task)) : ~ In k (map fst ts) -> adrop eqb k ts = ts.
Proof.
  induction ts as [|[k' T'] t IH]; cbn; auto. intros H.
  destruct (eqb k k') eqn:E; [apply eqb_spec in E; subst; tauto|]. rewrite IH; auto.
Qed.

Lemma c_rdeps_adrop tid T ts d t : NoDup (map fst ts) -> aget eqb tid ts = Some T ->
  c_rdeps ts d t = c_rdeps (adrop eqb tid ts) d t + b2n (memb d (t_deps T)) * b2n (memb t (t_targets T)).
Proof.
  induction ts as [|[k' T'] r IH]; cbn; [discriminate|]. intros Hnd.
  inversion Hnd; subst. destruct (eqb tid k') eqn:E.
  - apply eqb_spec in E; subst k'. intros H; inversion H; subst T'.
    rewrite adrop_notin by assumption. unfold c_rdeps; cbn [fold_right snd]. lia.
  - intros H. unfold c_rdeps in *; cbn [fold_right snd]. rewrite (IH H2 H). lia.
Qed.

Lemma tasks_wf_adrop tid ts : tasks_wf ts -> tasks_wf (adrop eqb tid ts).
Proof.
  intros [Hn Ho]. split; [now apply (NoDup_keys_adrop eqb eqb_spec)|].
  intros k T. destruct (eqb tid k) eqn:E.
  - apply eqb_spec in E; subst. now rewrite (aget_adrop_same eqb).
  - rewrite (aget_adrop_other eqb eqb_spec); [apply Ho|].
    intros ->. now rewrite (eqb_refl eqb eqb_spec) in E.
Qed.

Lemma aget_adrop k k' (ts : list (K * task)) :
  aget eqb k' (adrop eqb k ts) = if eqb k k' then None else aget eqb k' ts.
Proof.
  destruct (eqb k k') eqn:E.
  - apply eqb_spec in E; subst. apply (aget_adrop_same eqb).
  - apply (aget_adrop_other eqb eqb_spec). intros ->. now rewrite (eqb_refl eqb eqb_spec) in E.
Qed.

(* the producers met by a task's dependency loop, in canonical form *)
Lemma cnt_producers (m : mgr) a ds : Inv m -> NoDup ds ->
  cntp (fun dep => 1 <=? icount (m_tartasks m) dep a) ds =
  match aget eqb a (m_tasks m) with Some Ta => inter (t_targets Ta) ds | None => 0 end.
Proof.
  intros (W & (TN & TO) & IR & ID & IT & IRt) Hnd.
  rewrite (cntp_ext _ (fun dep => match aget eqb a (m_tasks m) with Some Ta => memb dep (t_targets Ta) | None => false end)).
  - destruct (aget eqb a (m_tasks m)) as [Ta|] eqn:E.
    + destruct (TO _ _ E) as (_ & _ & Hta). rewrite (inter_sym _ _ Hta Hnd). reflexivity.
    + apply cntp_false.
  - intros x _. rewrite IT. unfold c_tartasks. destruct (aget eqb a (m_tasks m)); [|reflexivity].
    destruct (memb x (t_targets t)); reflexivity.
Qed.

Theorem unregister_Inv tid T (m : mgr) :
  Inv m -> aget eqb tid (m_tasks m) = Some T -> m_frozen m = false ->
  exists m', unregister eqb tid m = Ok m' /\ Inv m' /\
             m_tasks m' = adrop eqb tid (m_tasks m) /\ m_frozen m' = false.
Proof.
  intros HI Hget Hfz. pose proof HI as (W & (TN & TO) & IR & ID & IT & IRt).
  destruct (TO _ _ Hget) as (Hid & Hnd & Hnt).
  unfold unregister. rewrite Hfz, Hget.
  destruct (unreg_deps_effect tid (t_targets T) (t_deps T) m W) as (W1 & T1 & Fz1 & R1 & D1 & Ta1 & Rt1).
  set (m1 := fold_left (unreg_dep eqb tid (t_targets T)) (t_deps T) m) in *.
  destruct W1 as (W1a & W1b & W1c & W1d).
  destruct (unreg_tars_effect tid (t_targets T) (m_tartasks m1) W1d Hnt) as (tart' & E' & W' & C').
  { intros tar Hin. rewrite Ta1, IT. unfold c_tartasks. rewrite Hget.
    apply (memK_In eqb eqb_spec) in Hin. rewrite Hin. cbn; lia. }
  rewrite E'. eexists; split; [reflexivity|].
  cbn [m_tasks m_frozen]. split; [|split; [now rewrite T1|now rewrite Fz1]].
  split; [|split; [|split; [|split; [|split]]]]; cbn [m_rdeps m_rtasks m_deptasks m_tartasks m_tasks].
  - split; [exact W1a|split; [now apply (idx_wf_adrop eqb eqb_spec)|split; [exact W1c|exact W']]].
  - rewrite T1. now apply tasks_wf_adrop.
  - intros d t. rewrite R1, IR, T1, (c_rdeps_adrop tid T _ d t TN Hget).
    rewrite !(cntp_eq_NoDup eqb eqb_spec) by assumption. nia.
  - intros d a. rewrite D1, ID, T1. unfold c_deptasks. rewrite aget_adrop.
    rewrite (cntp_eq_NoDup eqb eqb_spec) by assumption.
    destruct (eqb tid a) eqn:E.
    + apply eqb_spec in E; subst a. rewrite Hget. cbn [b2n]. lia.
    + cbn [b2n]. lia.
  - intros t a. rewrite C', Ta1, IT, T1. unfold c_tartasks. rewrite aget_adrop.
    rewrite (cntp_eq_NoDup eqb eqb_spec) by assumption.
    destruct (eqb tid a) eqn:E.
    + apply eqb_spec in E; subst a. rewrite Hget. cbn [b2n]. lia.
    + cbn [b2n]. lia.
  - intros a b. rewrite (icount_adrop eqb eqb_spec), T1. unfold c_rtasks. rewrite !aget_adrop.
    destruct (eqb tid a) eqn:Ea; [reflexivity|].
    rewrite Rt1, IRt, (cnt_producers m a (t_deps T) HI Hnd). unfold c_rtasks.
    destruct (eqb tid b) eqn:Eb.
    + apply eqb_spec in Eb; subst b. rewrite Hget. cbn [b2n].
      destruct (aget eqb a (m_tasks m)); lia.
    + cbn [b2n]. lia.
Qed.

End Inv.
