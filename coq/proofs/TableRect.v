(* Proofs about the shape-level model of the table-producing API
   (model/TableRect.v): the Rect invariant. *)
From Coq Require Import List Bool Arith ZArith NArith Lia ZifyBool.
From XD Require Import lib.ListAux model.Table model.TableSel model.TableRect proofs.TableSelAux.
Import ListNotations.

Lemma Neqb_ok : forall a b : N, N.eqb a b = true <-> a = b.
Proof. intros; apply N.eqb_eq. Qed.

Lemma memN_In x l : memN x l = true <-> In x l.
Proof.
  unfold memN. rewrite existsb_exists. split.
  - intros (y & Hy & E). apply N.eqb_eq in E. now subst.
  - intros H. exists x. split; auto. apply N.eqb_refl.
Qed.

Lemma memN_false x l : memN x l = false <-> ~ In x l.
Proof. rewrite <- memN_In. destruct (memN x l); split; congruence. Qed.

Lemma aget_same k (e : entry) d : aget N.eqb k (aset N.eqb k e d) = Some e.
Proof. apply (aget_aset_same _ Neqb_ok). Qed.

Lemma aget_other k k' (e : entry) d : k <> k' -> aget N.eqb k' (aset N.eqb k e d) = aget N.eqb k' d.
Proof. apply (aget_aset_other _ Neqb_ok). Qed.

(* an array of length n *)
Definition arr_of (n : nat) (e : entry) : Prop := exists l, e = EArr l /\ length l = n.

Definition cols_are (d : rdata) (cols : list N) (n : nat) : Prop :=
  forall c, In c cols -> exists e, aget N.eqb c d = Some e /\ arr_of n e.

Lemma entry_len_arr d c n : (exists e, aget N.eqb c d = Some e /\ arr_of n e) -> entry_len d c = n.
Proof. intros (e & H & l & -> & Hl). unfold entry_len. now rewrite H. Qed.

Lemma rect_intro d cols index n :
  NoDup cols -> In index cols -> cols_are d cols n ->
  Rect (mkRT d cols index) /\ rlen (mkRT d cols index) = n.
Proof.
  intros Hn Hi Hc.
  assert (Hl : rlen (mkRT d cols index) = n).
  { unfold rlen; cbn. destruct cols as [|c0 r]; [destruct Hi|]. apply entry_len_arr, Hc. now left. }
  split; auto. repeat split; auto. cbn [r_cols r_data]. intros c Hin.
  destruct (Hc c Hin) as (e & H & l & -> & Hlen). exists l. split; auto. congruence.
Qed.

Lemma rect_cols_are t : Rect t -> cols_are (r_data t) (r_cols t) (rlen t).
Proof.
  intros (_ & _ & H) c Hin. destruct (H c Hin) as (l & Ha & Hl). exists (EArr l). split; auto. now exists l.
Qed.

Lemma rect_eta t : mkRT (r_data t) (r_cols t) (r_index t) = t.
Proof. now destruct t. Qed.

(* ---- the checked constructor ------------------------------------------------------ *)

Lemma first_bad_none d cn : first_bad d cn = None ->
  forall c, In c cn -> exists l, aget N.eqb c d = Some (EArr l).
Proof.
  induction cn as [|c0 r IH]; cbn; [intros _ c []|].
  destruct (aget N.eqb c0 d) as [[l|v]|] eqn:E; try discriminate.
  intros H c [<-|Hin]; [now exists l | now apply IH].
Qed.

Lemma first_bad_ok d cn n : cols_are d cn n -> first_bad d cn = None.
Proof.
  induction cn as [|c0 r IH]; intros H; cbn; auto.
  destruct (H c0 (or_introl eq_refl)) as (e & -> & l & -> & _).
  apply IH. intros c Hc. apply H. now right.
Qed.

Lemma all_same_len_spec d cn : all_same_len d cn = true ->
  forall c, In c cn -> entry_len d c = match cn with [] => 0%nat | c0 :: _ => entry_len d c0 end.
Proof.
  destruct cn as [|c0 r]; cbn; [intros _ c []|].
  rewrite forallb_forall. intros H c [<-|Hin]; auto. apply Nat.eqb_eq, H, Hin.
Qed.

Theorem ctor_inv d cols index t :
  ctor d cols index = Ok t ->
  let cn := match cols with Some l => l | None => map fst d end in
  t = mkRT d cn index /\ In index cn /\ cols_are d cn (rlen t).
Proof.
  unfold ctor. set (cn := match cols with Some l => l | None => map fst d end).
  destruct (first_bad d cn) eqn:Eb; [discriminate|].
  destruct (all_same_len d cn) eqn:Es; [|discriminate].
  destruct (memN index cn) eqn:Em; [|discriminate].
  intros H; inversion H; subst t. cbn zeta. split; auto. split; [now apply memN_In|].
  intros c Hin. destruct (first_bad_none _ _ Eb c Hin) as (l & Hl). exists (EArr l). split; auto.
  exists l. split; auto.
  pose proof (all_same_len_spec _ _ Es c Hin) as Hs. unfold entry_len in Hs at 1. rewrite Hl in Hs.
  unfold rlen; cbn [r_cols r_data]. exact Hs.
Qed.

Theorem ctor_rect d cols index t :
  ctor d cols index = Ok t -> NoDup (match cols with Some l => l | None => map fst d end) ->
  Rect t /\ r_data t = d /\ r_index t = index.
Proof.
  intros H Hn. destruct (ctor_inv _ _ _ _ H) as (-> & Hi & Hc). cbn [r_data r_index].
  split; auto. repeat split; auto. cbn [r_cols r_data]. intros c Hin.
  destruct (Hc c Hin) as (e & He & l & -> & Hl). now exists l.
Qed.

Lemma ctor_ok d cn index n : cols_are d cn n -> In index cn -> ctor d (Some cn) index = Ok (mkRT d cn index).
Proof.
  intros Hc Hi. unfold ctor. rewrite (first_bad_ok _ _ _ Hc).
  assert (Hs : all_same_len d cn = true).
  { destruct cn as [|c0 r]; cbn; auto. apply forallb_forall. intros c Hin. apply Nat.eqb_eq.
    rewrite (entry_len_arr d c n) by (apply Hc; now right).
    rewrite (entry_len_arr d c0 n) by (apply Hc; now left). reflexivity. }
  rewrite Hs. now rewrite (proj2 (memN_In index cn) Hi).
Qed.

Theorem copy_rect t : Rect t -> copy t = Ok t.
Proof.
  intros Hr. unfold copy. rewrite (ctor_ok _ _ _ (rlen t)); [now rewrite rect_eta | now apply rect_cols_are | apply Hr].
Qed.

(* ---- column-wise updates ------------------------------------------------------------- *)

Lemma upd_cols_inv F (P Q : entry -> Prop) cols0 :
  (forall c e e', In c cols0 -> P e -> F c e = Ok e' -> Q e') ->
  forall cols d d', NoDup cols -> incl cols cols0 ->
  (forall c, In c cols -> exists e, aget N.eqb c d = Some e /\ P e) ->
  upd_cols F cols d = Ok d' ->
  (forall c, In c cols -> exists e', aget N.eqb c d' = Some e' /\ Q e') /\
  (forall k, ~ In k cols -> aget N.eqb k d' = aget N.eqb k d).
Proof.
  intros HF. induction cols as [|c0 r IH]; intros d d' Hn Hincl HP; cbn [upd_cols].
  - intros H; inversion H; subst. split; [intros c []|auto].
  - destruct (HP c0 (or_introl eq_refl)) as (e0 & He0 & Pe0). rewrite He0.
    destruct (F c0 e0) as [e0'|err] eqn:EF; cbn [sbind]; [|discriminate].
    inversion Hn as [|? ? Hnotin Hn']; subst. intros Hu.
    assert (HP' : forall c, In c r -> exists e, aget N.eqb c (aset N.eqb c0 e0' d) = Some e /\ P e).
    { intros c Hc. rewrite aget_other by (intros ->; contradiction). apply HP. now right. }
    destruct (IH _ _ Hn' (fun x Hx => Hincl x (or_intror Hx)) HP' Hu) as [HQ Hk]. split.
    + intros c [<-|Hc]; [|now apply HQ].
      rewrite (Hk c0 Hnotin), aget_same. exists e0'. split; auto.
      eapply HF; eauto. apply Hincl. now left.
    + intros k Hnk. rewrite Hk by (intros Hx; apply Hnk; now right).
      apply aget_other. intros ->. apply Hnk. now left.
Qed.

(* ---- row selection ---------------------------------------------------------------------- *)

Theorem rows_rect t ix t' : Rect t -> rsel_rows t ix = Ok t' ->
  Rect t' /\ r_cols t' = r_cols t /\ r_index t' = r_index t /\
  (exists ps, idx_positions (rlen t) ix = Some ps /\ rlen t' = length ps) /\
  (forall k, ~ In k (r_cols t) -> aget N.eqb k (r_data t') = aget N.eqb k (r_data t)).
Proof.
  intros Hr. unfold rsel_rows.
  destruct (upd_cols (take_entry ix) (r_cols t) (r_data t)) as [d'|e] eqn:Eu; cbn [sbind]; [|discriminate].
  intros H; inversion H; subst t'; clear H. cbn [r_cols r_index r_data].
  destruct Hr as (Hn & Hi & Hc).
  destruct (r_cols t) as [|c0 r] eqn:Ecols; [destruct Hi|].
  (* the first column decides whether the index is valid *)
  destruct (Hc c0 (or_introl eq_refl)) as (l0 & Hl0 & Hlen0).
  assert (Hps : exists ps, idx_positions (rlen t) ix = Some ps).
  { cbn [upd_cols] in Eu. rewrite Hl0 in Eu. cbn [take_entry] in Eu. rewrite Hlen0 in Eu.
    destruct (idx_positions (rlen t) ix) as [ps|]; [now exists ps | discriminate]. }
  destruct Hps as (ps & Hps).
  pose (P := arr_of (rlen t)). pose (Q := arr_of (length ps)).
  assert (HF : forall c e e', In c (c0 :: r) -> P e -> take_entry ix c e = Ok e' -> Q e').
  { intros c e e' _ (l & -> & Hl) Ht. cbn [take_entry] in Ht. rewrite Hl, Hps in Ht.
    inversion Ht; subst. exists (take 0%Z l ps). split; auto. apply take_length. }
  destruct (upd_cols_inv _ P Q (c0 :: r) HF (c0 :: r) _ _ Hn (fun x Hx => Hx)
              (fun c Hin => let '(ex_intro _ l (conj a b)) := Hc c Hin in
                            ex_intro _ (EArr l) (conj a (ex_intro _ l (conj eq_refl b)))) Eu) as [HQ Hk].
  destruct (rect_intro d' (c0 :: r) (r_index t) (length ps) Hn Hi HQ) as [HR HL].
  repeat split; auto; try apply HR. exists ps. split; auto.
Qed.

(* ---- repetition and concatenation ------------------------------------------------------------ *)

Lemma rep_length {A} k (l : list A) : length (rep k l) = (k * length l)%nat.
Proof. induction k; cbn; auto. rewrite app_length, IHk. lia. Qed.

Theorem mul_rect t k r : Rect t -> mul t k = Ok r ->
  Rect r /\ r_cols r = r_cols t /\ r_index r = r_index t /\ (0 < k)%Z /\ rlen r = (Z.to_nat k * rlen t)%nat /\
  (forall x, ~ In x (r_cols t) -> aget N.eqb x (r_data r) = aget N.eqb x (r_data t)).
Proof.
  intros Hr. unfold mul. rewrite (copy_rect t Hr). cbn [sbind].
  destruct (upd_cols (rep_entry k) (r_cols t) (r_data t)) as [d'|e] eqn:Eu; cbn [sbind]; [|discriminate].
  intros H; inversion H; subst r; clear H. cbn [r_cols r_index r_data].
  pose proof (rect_cols_are t Hr) as Hc. destruct Hr as (Hn & Hi & _).
  assert (Hk : (0 < k)%Z).
  { destruct (r_cols t) as [|c0 r0]; [destruct Hi|]. cbn [upd_cols] in Eu.
    destruct (Hc c0 (or_introl eq_refl)) as (e & He & _). rewrite He in Eu.
    unfold rep_entry in Eu. destruct (k <=? 0)%Z eqn:E; [discriminate | lia]. }
  assert (HF : forall c e e', In c (r_cols t) -> arr_of (rlen t) e -> rep_entry k c e = Ok e' ->
                              arr_of (Z.to_nat k * rlen t) e').
  { intros c e e' _ (l & -> & Hl) Ht. unfold rep_entry in Ht. destruct (k <=? 0)%Z; [discriminate|].
    inversion Ht; subst. eexists; split; [reflexivity|]. now rewrite rep_length, Hl. }
  destruct (upd_cols_inv _ _ _ (r_cols t) HF (r_cols t) _ _ Hn (fun x Hx => Hx) Hc Eu) as [HQ Hkeep].
  destruct (rect_intro d' (r_cols t) (r_index t) _ Hn Hi HQ) as [HR HL].
  repeat split; auto; apply HR.
Qed.

Theorem add_rect t u r : Rect t -> Rect u -> (forall c, In c (r_cols u) <-> In c (r_cols t)) ->
  add t u = Ok r ->
  Rect r /\ r_cols r = r_cols t /\ r_index r = r_index t /\ rlen r = (rlen t + rlen u)%nat /\
  (forall x, ~ In x (r_cols t) -> aget N.eqb x (r_data r) = aget N.eqb x (r_data t)).
Proof.
  intros Hr Hu Hsame. unfold add. rewrite (copy_rect t Hr). cbn [sbind].
  destruct (upd_cols (cat_entry (r_data u)) (r_cols u) (r_data t)) as [d'|e] eqn:Eu; cbn [sbind]; [|discriminate].
  intros H; inversion H; subst r; clear H. cbn [r_cols r_index r_data].
  pose proof (rect_cols_are t Hr) as Hc. pose proof (rect_cols_are u Hu) as Hcu.
  destruct Hr as (Hn & Hi & _). destruct Hu as (Hnu & _ & _).
  assert (HF : forall c e e', In c (r_cols u) -> arr_of (rlen t) e -> cat_entry (r_data u) c e = Ok e' ->
                              arr_of (rlen t + rlen u) e').
  { intros c e e' Hin (l & -> & Hl) Ht. unfold cat_entry in Ht.
    destruct (Hcu c Hin) as (e2 & He2 & l2 & -> & Hl2). rewrite He2 in Ht. inversion Ht; subst.
    eexists; split; [reflexivity|]. rewrite app_length. lia. }
  destruct (upd_cols_inv _ _ _ (r_cols u) HF (r_cols u) _ _ Hnu (fun x Hx => Hx)
              (fun c Hin => Hc c (proj1 (Hsame c) Hin)) Eu) as [HQ Hkeep].
  destruct (rect_intro d' (r_cols t) (r_index t) (rlen t + rlen u) Hn Hi
              (fun c Hin => HQ c (proj2 (Hsame c) Hin))) as [HR HL].
  repeat split; auto; try apply HR.
  intros x Hx. apply Hkeep. intros Hxu. apply Hx, Hsame, Hxu.
Qed.

(* ---- Table.concatenate and _t: the result passes through the checked constructor ------------- *)

Lemma cat_cols_keys ts cols d : cat_cols ts cols = Ok d -> map fst d = cols.
Proof.
  revert d; induction cols as [|c r IH]; intros d; cbn [cat_cols].
  - intros H; inversion H; reflexivity.
  - destruct (cat_all ts c); cbn [sbind]; [|discriminate].
    destruct (cat_cols ts r) as [d0|]; cbn [sbind]; [|discriminate].
    intros H; inversion H; subst. cbn. f_equal. now apply IH.
Qed.

Lemma NoDup_filter {A} (p : A -> bool) l : NoDup l -> NoDup (filter p l).
Proof.
  induction 1 as [|x l Hx Hn IH]; cbn; [constructor|]. destruct (p x); auto.
  constructor; auto. intros H. apply filter_In in H. tauto.
Qed.

Theorem concatenate_rect ts r : concatenate ts = Ok r -> Rect r /\ r_index r = name_tok.
Proof.
  unfold concatenate. destruct ts as [|t0 rest]; [discriminate|].
  set (common := filter _ _).
  destruct (cat_cols (t0 :: rest) common) as [d|] eqn:Ec; cbn [sbind]; [|discriminate].
  intros H. destruct (ctor_rect _ _ _ _ H) as (HR & _ & Hi); auto.
  cbn. rewrite (cat_cols_keys _ _ _ Ec). apply NoDup_filter, NoDup_nodup.
Qed.

Lemma cat_all_len ts c l :
  (forall t, In t ts -> exists e, aget N.eqb c (r_data t) = Some e /\ arr_of (rlen t) e) ->
  cat_all ts c = Ok l -> length l = list_sum (map rlen ts).
Proof.
  revert l; induction ts as [|t r IH]; intros l Hall; cbn [cat_all map list_sum].
  - intros H; inversion H; reflexivity.
  - destruct (Hall t (or_introl eq_refl)) as (e & -> & l1 & -> & Hl1).
    destruct (cat_all r c) as [l2|] eqn:E2; cbn [sbind]; [|discriminate].
    intros H; inversion H; subst. rewrite app_length, Hl1. unfold list_sum; cbn [fold_right]; fold (list_sum (map rlen r)). f_equal.
    apply IH; auto. intros t' Ht'. apply Hall. now right.
Qed.

(* same columns everywhere: the length is the sum of the lengths *)
Theorem concatenate_len ts r : concatenate ts = Ok r ->
  (forall t, In t ts -> Rect t) ->
  (forall t t', In t ts -> In t' ts -> forall c, In c (r_cols t) <-> In c (r_cols t')) ->
  rlen r = list_sum (map rlen ts).
Proof.
  unfold concatenate. destruct ts as [|t0 rest]; [discriminate|].
  set (common := filter _ _).
  destruct (cat_cols (t0 :: rest) common) as [d|] eqn:Ec; cbn [sbind]; [|discriminate].
  intros H Hrect Hsame. destruct (ctor_inv _ _ _ _ H) as (-> & Hi & Hc). cbn zeta in *.
  pose proof (cat_cols_keys _ _ _ Ec) as Hk. rewrite Hk in Hi.
  destruct common as [|c0 cr] eqn:Ecm; [destruct Hi|].
  cbn [cat_cols] in Ec. destruct (cat_all (t0 :: rest) c0) as [l0|] eqn:E0; cbn [sbind] in Ec; [|discriminate].
  destruct (cat_cols (t0 :: rest) cr) as [d0|]; cbn [sbind] in Ec; [|discriminate].
  inversion Ec; subst d. unfold rlen at 1. cbn [r_cols r_data map fst]. unfold entry_len. cbn [aget].
  rewrite N.eqb_refl. change (rlen t0 :: map rlen rest) with (map rlen (t0 :: rest)). apply (cat_all_len _ c0); auto.
  intros t Ht. apply rect_cols_are; [now apply Hrect|].
  assert (Hc0 : In c0 (r_cols t0)).
  { assert (Hin : In c0 common) by (rewrite Ecm; now left). unfold common in Hin.
    apply filter_In in Hin. destruct Hin as [Hin _]. now apply nodup_In in Hin. }
  apply (Hsame t0 t (or_introl eq_refl) Ht), Hc0.
Qed.

Lemma row_tok_inj i j : row_tok i = row_tok j -> i = j.
Proof. unfold row_tok. lia. Qed.

Lemma transpose_keys_nodup n : NoDup (columns_tok :: map row_tok (seq 0 n)).
Proof.
  constructor.
  - intros H. apply in_map_iff in H. destruct H as (i & E & _). unfold row_tok, columns_tok in E. lia.
  - apply FinFun.Injective_map_NoDup; [exact row_tok_inj | apply seq_NoDup].
Qed.

Lemma rlen_head d c r index l n :
  aget N.eqb c d = Some (EArr l) -> length l = n -> rlen (mkRT d (c :: r) index) = n.
Proof. intros H Hl. unfold rlen, entry_len. cbn [r_cols r_data]. now rewrite H. Qed.

Theorem transpose_rect t r : transpose t = Ok r ->
  Rect r /\ r_index r = columns_tok /\ rlen r = length (r_cols t) /\ length (r_cols r) = S (rlen t).
Proof.
  unfold transpose. intros H.
  assert (Hkeys : forall (cell : entry) n, map fst ((columns_tok, cell) :: map (fun i => (row_tok i, cell)) (seq 0 n)) =
                                           columns_tok :: map row_tok (seq 0 n)).
  { intros cell n. cbn. f_equal. rewrite map_map. reflexivity. }
  destruct (ctor_rect _ _ _ _ H) as (HR & Hd & Hi).
  { cbn zeta. rewrite Hkeys. apply transpose_keys_nodup. }
  destruct (ctor_inv _ _ _ _ H) as (Ht & _ & _). cbn zeta in Ht.
  split; [exact HR|]. split; [exact Hi|]. split.
  - rewrite Ht. cbn [map fst]. eapply rlen_head; [reflexivity | apply repeat_length].
  - rewrite Ht. cbn [r_cols]. rewrite Hkeys. cbn [length]. now rewrite map_length, seq_length.
Qed.

(* the transposition of a rectangular table always succeeds *)
Lemma aget_in_keys (f : nat -> N) (cell : entry) l k : In k (map f l) ->
  aget N.eqb k (map (fun i => (f i, cell)) l) = Some cell.
Proof.
  induction l as [|i r IH]; cbn; [intros []|]. intros [E|Hin].
  - subst k. now rewrite N.eqb_refl.
  - destruct (N.eqb k (f i)); auto.
Qed.

Theorem transpose_ok t : Rect t -> exists r, transpose t = Ok r.
Proof.
  intros _. unfold transpose. set (cell := EArr (repeat 0%Z (length (r_cols t)))).
  set (d := (columns_tok, cell) :: map (fun i => (row_tok i, cell)) (seq 0 (rlen t))).
  assert (Hc : cols_are d (map fst d) (length (r_cols t))).
  { intros c Hin. exists cell. split; [|eexists; split; [reflexivity | apply repeat_length]].
    unfold d in *. cbn [map fst] in Hin. cbn [aget]. destruct (N.eqb c columns_tok) eqn:E; auto.
    destruct Hin as [E'|Hin]; [subst c; now rewrite N.eqb_refl in E|].
    rewrite map_map in Hin. cbn [fst] in Hin. now apply aget_in_keys. }
  eexists. unfold ctor. rewrite (first_bad_ok _ _ _ Hc).
  assert (Hs : all_same_len d (map fst d) = true).
  { cbn [map fst d all_same_len]. apply forallb_forall. intros c Hin. apply Nat.eqb_eq.
    rewrite (entry_len_arr d c (length (r_cols t))) by (apply Hc; now right).
    rewrite (entry_len_arr d columns_tok (length (r_cols t))) by (apply Hc; now left). reflexivity. }
  rewrite Hs. cbn [map fst d memN existsb]. rewrite N.eqb_refl. reflexivity.
Qed.

(* ---- column selection ---------------------------------------------------------------------------- *)

Lemma put_all_app l1 l2 d : put_all (l1 ++ l2) d = put_all l2 (put_all l1 d).
Proof. revert d; induction l1 as [|[k e] r IH]; intros d; cbn; auto. Qed.

(* writing the entries of l, last to first, into a dictionary: l wins, first occurrence first *)
Lemma aget_put_all_rev k l d :
  aget N.eqb k (put_all (rev l) d) = match aget N.eqb k l with Some e => Some e | None => aget N.eqb k d end.
Proof.
  induction l as [|[k0 e0] r IH]; cbn [rev aget]; auto.
  rewrite put_all_app. cbn [put_all]. destruct (N.eqb k k0) eqn:E.
  - apply N.eqb_eq in E. subst. apply aget_same.
  - rewrite aget_other by (intros ->; rewrite N.eqb_refl in E; discriminate). exact IH.
Qed.

Lemma aget_filter_key (p : N -> bool) k (d : rdata) :
  aget N.eqb k (filter (fun q => p (fst q)) d) = if p k then aget N.eqb k d else None.
Proof.
  induction d as [|[k0 e0] r IH]; [cbn; now destruct (p k)|].
  cbn [filter fst]. destruct (p k0) eqn:Ep0; cbn [aget]; destruct (N.eqb k k0) eqn:E.
  - apply N.eqb_eq in E. subst k0. now rewrite Ep0.
  - rewrite IH. reflexivity.
  - apply N.eqb_eq in E. subst k0. rewrite IH, Ep0. reflexivity.
  - rewrite IH. reflexivity.
Qed.

Lemma aget_scalars t k : aget N.eqb k (scalars t) = if memN k (r_cols t) then None else aget N.eqb k (r_data t).
Proof.
  unfold scalars. rewrite (aget_filter_key (fun x => negb (memN x (r_cols t)))).
  now destruct (memN k (r_cols t)).
Qed.

Lemma aget_none_notin k (d : rdata) : ~ In k (map fst d) -> aget N.eqb k d = None.
Proof.
  induction d as [|[k0 e0] r IH]; cbn; auto. intros H.
  destruct (N.eqb k k0) eqn:E; [apply N.eqb_eq in E; subst; exfalso; apply H; now left|].
  apply IH. intros Hin; apply H; now right.
Qed.

Lemma req_entries_spec t l es : req_entries t l = Ok es ->
  map fst es = map req_name l /\
  forall c, In c (map req_name l) -> exists r e, In r l /\ req_name r = c /\ req_entry t r = Ok e /\ aget N.eqb c es = Some e.
Proof.
  revert es; induction l as [|r0 rest IH]; intros es; cbn [req_entries].
  - intros H; inversion H; subst. split; auto. intros c [].
  - destruct (req_entry t r0) as [e0|] eqn:E0; cbn [sbind]; [|discriminate].
    destruct (req_entries t rest) as [es0|]; cbn [sbind]; [|discriminate].
    intros H; inversion H; subst es; clear H. destruct (IH es0 eq_refl) as [Hk Hc].
    split; [cbn; now rewrite Hk|]. intros c Hin. cbn [aget].
    destruct (N.eqb c (req_name r0)) eqn:E.
    + apply N.eqb_eq in E. exists r0, e0. repeat split; auto. now left.
    + destruct Hin as [E'|Hin]; [subst c; rewrite N.eqb_refl in E; discriminate|].
      destruct (Hc c Hin) as (r & e & Hr & Hn & He & Ha). exists r, e. repeat split; auto. now right.
Qed.

Lemma nodup_len_NoDup (l : list N) : Nat.eqb (length (nodup N.eq_dec l)) (length l) = true -> NoDup l.
Proof.
  intros H. apply Nat.eqb_eq in H. induction l as [|x r IH]; [constructor|].
  cbn [nodup] in H. destruct (in_dec N.eq_dec x r) as [Hin|Hnin].
  - exfalso. pose proof (NoDup_incl_length (NoDup_nodup N.eq_dec r) (fun y Hy => proj1 (nodup_In N.eq_dec r y) Hy)).
    cbn [length] in H. lia.
  - constructor; [exact Hnin | apply IH; cbn [length] in H; lia].
Qed.

Definition reqs_names (t : rtable) (reqs : list colreq) : list N :=
  map req_name (if memN (r_index t) (map req_name reqs) then reqs else CName (r_index t) :: reqs).

Theorem cols_rect t reqs t' : Rect t -> reqs_okb t reqs = true -> rsel_cols0 t reqs = Ok t' ->
  Rect t' /\ r_cols t' = reqs_names t reqs /\ r_index t' = r_index t /\ rlen t' = rlen t /\
  (* scalars carried over *)
  (forall k, ~ In k (r_cols t) -> aget N.eqb k (r_data t) <> None -> aget N.eqb k (r_data t') = aget N.eqb k (r_data t)) /\
  (* a requested column of the table keeps its cells *)
  (forall c, In c (r_cols t) -> In c (reqs_names t reqs) -> aget N.eqb c (r_data t') = aget N.eqb c (r_data t)).
Proof.
  intros Hr Hok. unfold rsel_cols0, reqs_names. set (reqs' := if memN _ _ then reqs else _).
  destruct (req_entries t reqs') as [es|] eqn:Ee; cbn [sbind]; [|discriminate].
  intros H; inversion H; subst t'; clear H. cbn [r_cols r_index r_data].
  pose proof (rect_cols_are t Hr) as Hc. destruct Hr as (Hn & Hi & _).
  unfold reqs_okb in Hok. apply andb_true_iff in Hok. destruct Hok as [Hnd Hall].
  rewrite <- (map_length req_name) in Hnd. apply nodup_len_NoDup in Hnd. rewrite forallb_forall in Hall.
  assert (Hall' : forall r, In r reqs' -> match r with CName c => In c (r_cols t) | CExpr c => ~ In c (map fst (r_data t)) end).
  { intros r Hin. assert (Hcase : r = CName (r_index t) \/ In r reqs).
    { unfold reqs' in Hin. destruct (memN _ _); [now right | destruct Hin; auto]. }
    destruct Hcase as [->|Hin']; [exact Hi|]. specialize (Hall r Hin'). destruct r.
    - now apply memN_In. - apply memN_false. now apply negb_true_iff. }
  assert (Hnd' : NoDup (map req_name reqs')).
  { unfold reqs'. destruct (memN _ _) eqn:Em; auto. cbn. constructor; auto. now apply memN_false. }
  assert (Hidx : In (r_index t) (map req_name reqs')).
  { unfold reqs'. destruct (memN _ _) eqn:Em; [now apply memN_In | now left]. }
  destruct (req_entries_spec _ _ _ Ee) as [Hkeys Hes].
  assert (Hget : forall k, aget N.eqb k (put_all (rev (scalars t)) (put_all (rev es) [])) =
                           match aget N.eqb k (scalars t) with Some e => Some e | None => aget N.eqb k es end).
  { intros k. rewrite !aget_put_all_rev. destruct (aget N.eqb k (scalars t)); auto. now destruct (aget N.eqb k es). }
  assert (Hreq : forall c, In c (map req_name reqs') ->
                 aget N.eqb c (scalars t) = None /\
                 exists e, aget N.eqb c es = Some e /\ arr_of (rlen t) e /\ (In c (r_cols t) -> aget N.eqb c (r_data t) = Some e)).
  { intros c Hin. destruct (Hes c Hin) as (r & e & Hrin & Hname & Hre & Hae).
    specialize (Hall' r Hrin). unfold req_entry in Hre. rewrite Hname in Hre. destruct r as [c1|c1]; cbn [req_name] in Hname; subst c1.
    - destruct (Hc c Hall') as (e1 & He1 & Harr). rewrite He1 in Hre. inversion Hre; subst e1. split.
      + rewrite aget_scalars. now rewrite (proj2 (memN_In c (r_cols t)) Hall').
      + exists e. repeat split; auto.
    - rewrite (aget_none_notin c _ Hall') in Hre. inversion Hre; subst e. split.
      + rewrite aget_scalars. rewrite (aget_none_notin c _ Hall'). now destruct (memN c (r_cols t)).
      + eexists. split; [exact Hae|]. split; [eexists; split; [reflexivity | apply repeat_length]|].
        intros Hcol. exfalso. destruct (Hc c Hcol) as (e1 & He1 & _). rewrite (aget_none_notin c _ Hall') in He1. discriminate. }
  destruct (rect_intro (put_all (rev (scalars t)) (put_all (rev es) [])) (map req_name reqs') (r_index t) (rlen t) Hnd' Hidx) as [HR HL].
  { intros c Hin. destruct (Hreq c Hin) as (Hs & e & He & Harr & _). exists e. split; auto. now rewrite Hget, Hs. }
  split; [exact HR|]. split; [reflexivity|]. split; [reflexivity|]. split; [exact HL|]. split.
  - intros k Hk Hsome. rewrite Hget, aget_scalars. rewrite (proj2 (memN_false k (r_cols t)) Hk).
    destruct (aget N.eqb k (r_data t)); [reflexivity | contradiction].
  - intros c Hcol Hin. destruct (Hreq c Hin) as (Hs & e & He & _ & Hsame). rewrite Hget, Hs, He. symmetry. now apply Hsame.
Qed.

(* ---- column assignment ------------------------------------------------------------------------------- *)

Lemma NoDup_snoc {A} (l : list A) x : NoDup l -> ~ In x l -> NoDup (l ++ [x]).
Proof.
  induction 1 as [|y r Hy Hn IH]; intros Hx; cbn; [repeat constructor; intros []|].
  constructor.
  - intros Hin. apply in_app_or in Hin. destruct Hin as [Hin|[<-|[]]]; [contradiction|]. apply Hx. now left.
  - apply IH. intros Hin. apply Hx. now right.
Qed.

Theorem assign_rect t key v t' : Rect t -> assign t key v = Ok t' ->
  Rect t' /\ rlen t' = rlen t /\ r_index t' = r_index t.
Proof.
  intros Hr. pose proof (rect_cols_are t Hr) as Hc. destruct Hr as (Hn & Hi & _).
  unfold assign. destruct (memN key (r_cols t)) eqn:Em.
  - apply memN_In in Em. destruct (Hc key Em) as (e & He & old & -> & Hold). rewrite He.
    assert (Hgen : forall l, length l = rlen t ->
              Rect (mkRT (aset N.eqb key (EArr l) (r_data t)) (r_cols t) (r_index t)) /\
              rlen (mkRT (aset N.eqb key (EArr l) (r_data t)) (r_cols t) (r_index t)) = rlen t).
    { intros l Hl. apply rect_intro; auto. intros c Hin. destruct (N.eq_dec key c) as [<-|Hne].
      - rewrite aget_same. eexists; split; [reflexivity|]. now exists l.
      - rewrite aget_other by exact Hne. now apply Hc. }
    destruct v as [l|z].
    + destruct (Nat.eqb (length l) (length old)) eqn:El.
      * apply Nat.eqb_eq in El. intros H; inversion H; subst t'. destruct (Hgen l ltac:(lia)). auto.
      * destruct l as [|z [|? ?]]; try discriminate. intros H; inversion H; subst t'.
        destruct (Hgen (map (fun _ => z) old) ltac:(now rewrite map_length)). auto.
    + intros H; inversion H; subst t'. destruct (Hgen (map (fun _ => z) old) ltac:(now rewrite map_length)). auto.
  - apply memN_false in Em.
    assert (Hkeep : forall e c, In c (r_cols t) -> exists e', aget N.eqb c (aset N.eqb key e (r_data t)) = Some e' /\ arr_of (rlen t) e').
    { intros e c Hin. rewrite aget_other by (intros ->; contradiction). now apply Hc. }
    destruct v as [l|z].
    + intros H; inversion H; subst t'; clear H. cbn [r_index].
      destruct (Nat.eqb (length l) (rlen t)) eqn:El.
      * apply Nat.eqb_eq in El.
        assert (Hcols : cols_are (aset N.eqb key (EArr l) (r_data t)) (r_cols t ++ [key]) (rlen t)).
        { intros c Hin. apply in_app_or in Hin. destruct Hin as [Hin|[<-|[]]]; [now apply Hkeep|].
          rewrite aget_same. eexists; split; [reflexivity|]. now exists l. }
        destruct (rect_intro _ (r_cols t ++ [key]) (r_index t) (rlen t) (NoDup_snoc _ _ Hn Em)
                    (in_or_app _ _ _ (or_introl Hi)) Hcols) as [HR HL].
        split; [exact HR | split; [exact HL | reflexivity]].
      * destruct (rect_intro _ (r_cols t) (r_index t) (rlen t) Hn Hi (Hkeep (EArr l))) as [HR HL].
        split; [exact HR | split; [exact HL | reflexivity]].
    + intros H; inversion H; subst t'; clear H. cbn [r_index].
      destruct (rect_intro _ (r_cols t) (r_index t) (rlen t) Hn Hi (Hkeep (EVal z))) as [HR HL].
      split; [exact HR | split; [exact HL | reflexivity]].
Qed.

(* ---- every finite chain of derivations and assignments ------------------------------------------------ *)

Lemma rows_all_rect t l ts : Rect t -> rows_all t l = Ok ts -> forall u, In u ts -> Rect u.
Proof.
  intros Hr. revert ts; induction l as [|ix r IH]; intros ts; cbn [rows_all].
  - intros H; inversion H; subst. intros u [].
  - destruct (rsel_rows t ix) as [a|] eqn:Ea; cbn [sbind]; [|discriminate].
    destruct (rows_all t r) as [b|]; cbn [sbind]; [|discriminate].
    intros H; inversion H; subst. intros u [<-|Hin]; [apply (rows_rect _ _ _ Hr Ea) | now apply (IH b)].
Qed.

Lemma aget_adel_other k k' (d : rdata) : k <> k' -> aget N.eqb k' (adel N.eqb k d) = aget N.eqb k' d.
Proof.
  intros Hne. induction d as [|[k0 e0] r IH]; cbn [adel aget]; auto.
  destruct (N.eqb k k0) eqn:E.
  - apply N.eqb_eq in E. subst k0. rewrite (proj2 (N.eqb_neq k' k)) by congruence. reflexivity.
  - cbn [aget]. destruct (N.eqb k' k0); auto.
Qed.

Lemma NoDup_remove_N (x : N) l : NoDup l -> NoDup (remove N.eq_dec x l).
Proof.
  induction 1 as [|y r Hy Hn IH]; cbn; [constructor|]. destruct (N.eq_dec x y); auto.
  constructor; auto. intros Hin. apply in_remove in Hin. tauto.
Qed.

(* deleting a column other than the index, or a scalar entry *)
Theorem delete_rect t key t' : Rect t -> key <> r_index t -> delete t key = Ok t' ->
  Rect t' /\ rlen t' = rlen t /\ r_index t' = r_index t.
Proof.
  intros Hr Hne. pose proof (rect_cols_are t Hr) as Hc. destruct Hr as (Hn & Hi & _).
  unfold delete. destruct (aget N.eqb key (r_data t)); [|discriminate].
  intros H; inversion H; subst t'; clear H. cbn [r_index].
  destruct (rect_intro (adel N.eqb key (r_data t)) (remove N.eq_dec key (r_cols t)) (r_index t) (rlen t)) as [HR HL].
  - now apply NoDup_remove_N.
  - apply in_in_remove; auto.
  - intros c Hin. apply in_remove in Hin. destruct Hin as [Hin Hck].
    rewrite aget_adel_other by congruence. now apply Hc.
  - split; [exact HR | split; [exact HL | reflexivity]].
Qed.

Theorem rstep_rect o : forall t t', Rect t -> rop_okb t o = true -> rstep t o = Ok t' -> Rect t'.
Proof.
  induction o as [ix|l| |ix|k| | |l|key v|key|o' IH]; intros t t' Hr Hok; cbn [rstep rop_okb] in *; intros H.
  - apply (rows_rect _ _ _ Hr H).
  - unfold rsel_cols in H. apply (cols_rect _ _ _ Hr Hok H).
  - apply (add_rect t t _ Hr Hr (fun c => iff_refl _) H).
  - destruct (rsel_rows t ix) as [a|] eqn:Ea; cbn [sbind] in H; [|discriminate].
    destruct (rows_rect _ _ _ Hr Ea) as (Ha & Hcols & _).
    apply (add_rect t a _ Hr Ha); auto. intros c. now rewrite Hcols.
  - apply (mul_rect _ _ _ Hr H).
  - rewrite (copy_rect t Hr) in H. inversion H; now subst.
  - apply (transpose_rect _ _ H).
  - destruct (rows_all t l) as [ts|]; cbn [sbind] in H; [|discriminate]. apply (concatenate_rect _ _ H).
  - apply (assign_rect _ _ _ _ Hr H).
  - apply negb_true_iff, N.eqb_neq in Hok. apply (delete_rect _ _ _ Hr Hok H).
  - now apply (IH t t').
Qed.

Lemma rnext_rect t o : Rect t -> rop_okb t o = true -> Rect (rnext t o).
Proof.
  intros Hr Hok. unfold rnext.
  destruct o; try exact Hr;
    match goal with |- Rect (match rstep t ?o with _ => _ end) =>
      destruct (rstep t o) as [t'|] eqn:E; [eapply (rstep_rect o); eauto | exact Hr] end.
Qed.

Theorem chain_rect ops : forall t, Rect t -> rops_okb t ops = true -> Rect (rfinal t ops).
Proof.
  unfold rfinal. induction ops as [|o rest IH]; intros t Hr Hok; cbn [fold_left]; auto.
  cbn [rops_okb] in Hok. apply andb_true_iff in Hok. destruct Hok as [Ho Hrest].
  apply IH; auto. now apply rnext_rect.
Qed.

(* every intermediate table of the chain as well *)
Theorem chain_rect_prefix ops1 ops2 t : Rect t -> rops_okb t (ops1 ++ ops2) = true -> Rect (rfinal t ops1).
Proof.
  revert t; induction ops1 as [|o rest IH]; intros t Hr Hok; cbn; auto.
  cbn [app rops_okb] in Hok. apply andb_true_iff in Hok. destruct Hok as [Ho Hrest].
  apply IH; auto. now apply rnext_rect.
Qed.

Lemma rectb_Rect t : rectb t = true -> Rect t.
Proof.
  unfold rectb. rewrite !andb_true_iff, forallb_forall. intros [[Hn Hi] Hall]. split; [|split].
  - now apply nodup_len_NoDup.
  - now apply memN_In.
  - intros c Hin. specialize (Hall c Hin). destruct (aget N.eqb c (r_data t)) as [[l|]|]; try discriminate.
    exists l. split; auto. now apply Nat.eqb_eq.
Qed.

(* every table produced along a chain — the current tables and the tables
   derived from them under OStay — is rectangular *)
Theorem chain_every_table ops1 : forall o ops2 t t',
  Rect t -> rops_okb t (ops1 ++ o :: ops2) = true -> rstep (rfinal t ops1) o = Ok t' -> Rect t'.
Proof.
  induction ops1 as [|o1 rest IH]; intros o ops2 t t' Hr Hok; cbn [app rops_okb] in Hok;
    apply andb_true_iff in Hok; destruct Hok as [Ho Hrest].
  - cbn. intros H. eapply rstep_rect; eauto.
  - unfold rfinal. cbn [fold_left]. apply (IH o ops2); auto. now apply rnext_rect.
Qed.

(* cols[...] with repeated names: the repetitions are dropped first *)
Theorem cols_rect_dedup t reqs t' : Rect t -> reqs_okb t (dedup_reqs reqs) = true -> rsel_cols t reqs = Ok t' ->
  Rect t' /\ r_cols t' = reqs_names t (dedup_reqs reqs) /\ r_index t' = r_index t /\ rlen t' = rlen t /\
  (forall k, ~ In k (r_cols t) -> aget N.eqb k (r_data t) <> None -> aget N.eqb k (r_data t') = aget N.eqb k (r_data t)) /\
  (forall c, In c (r_cols t) -> In c (reqs_names t (dedup_reqs reqs)) -> aget N.eqb c (r_data t') = aget N.eqb c (r_data t)).
Proof. intros Hr Hok H. unfold rsel_cols in H. exact (cols_rect _ _ _ Hr Hok H). Qed.
