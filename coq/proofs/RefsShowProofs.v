(* Proofs for C06: the printed form of an access path determines the path
   (left-inverse parser), equality = same path, hashing ignores everything
   but the path, expressions over equal references are equal. *)
From Coq Require Import List Bool Arith ZArith NArith Lia.
From XD Require Import model.RefSyntax model.ReprSyntax gen.GenRefsRepr lib.PyStr model.RefsShow.
Import ListNotations.
Open Scope N_scope.

(* ------------------------------------------- table obligations: what show prints *)

Section ShowEqs.
  Variable printable : N -> bool.
  Variable repr_float : N -> pystr.
  Notation show := (show printable repr_float).

  Lemma show_const v : show (TConst v) = repr_lit printable repr_float v.
  Proof. reflexivity. Qed.

  Lemma show_top l oa : show (TTop l oa) = l.
  Proof. destruct oa; cbn; rewrite app_nil_r; reflexivity. Qed.

  (* ItemRef.__repr__ : f'{owner!r}[{key!r}]' *)
  Lemma show_item o k : show (TItem o k) = show o ++ 91 :: show k ++ [93].
  Proof. destruct o, k; reflexivity. Qed.

  (* AttrRef.__repr__ : f'{owner}.{key}' with a str key *)
  Lemma show_attr o n : is_ref o = true -> show (TAttr o (TConst (LStr n))) = show o ++ 46 :: n.
  Proof. destruct o; intros H; try discriminate H; cbn; rewrite ?app_nil_r; reflexivity. Qed.
End ShowEqs.

(* ------------------------------------------------------ paths and their text *)

Section PathProofs.
  Variable printable : N -> bool.
  Variable repr_float : N -> pystr.
  Variable xid : N -> bool.
  Variable kind_of : pystr -> bool.
  Hypothesis Hfl_chars : forall t, forallb numchar (repr_float t) = true.
  Hypothesis Hfl_mark : forall t, existsb float_mark (repr_float t) = true.
  Hypothesis Hfl_inj : forall t u, repr_float t = repr_float u -> t = u.

  Notation show := (show printable repr_float).
  Notation show_step := (show_step printable repr_float).
  Notation show_path := (show_path printable repr_float).
  Notation wf_path := (wf_path xid).
  Notation wf_step := (wf_step xid).
  Notation id_char := (id_char xid).
  Notation raw_step := (raw_step printable repr_float).

  Lemma fold_is_ref steps t : is_ref t = true -> is_ref (fold_left step_term steps t) = true.
  Proof. revert t; induction steps as [|s r IH]; intros t H; [exact H|]. cbn. apply IH. destruct s; reflexivity. Qed.

  Lemma show_fold steps : forall t, is_ref t = true ->
    show (fold_left step_term steps t) = show t ++ flat_map show_step steps.
  Proof.
    induction steps as [|s r IH]; intros t Ht; cbn [fold_left flat_map].
    - rewrite app_nil_r; reflexivity.
    - rewrite IH by (destruct s; reflexivity). destruct s as [k|n]; cbn [step_term show_step].
      + rewrite show_item, show_const, <- app_assoc. reflexivity.
      + rewrite show_attr by assumption. rewrite <- app_assoc. reflexivity.
  Qed.

  Theorem show_term_of_path p : show (term_of_path kind_of p) = show_path p.
  Proof. unfold term_of_path, show_path. rewrite show_fold by reflexivity. rewrite show_top. reflexivity. Qed.

  Lemma id_char_delims : id_char 46 = false /\ id_char 91 = false.
  Proof. split; reflexivity. Qed.

  Lemma steps_head steps : head_not id_char (flat_map show_step steps).
  Proof. destruct steps as [|[k|n] r]; cbn; auto. Qed.

  Lemma is_ident_chars s : is_ident xid s = true -> forallb id_char s = true /\ s <> [].
  Proof.
    unfold is_ident. destruct s as [|c r]; [discriminate|]. intros H.
    apply andb_true_iff in H as [H _]. split; [exact H|discriminate].
  Qed.

  Lemma parse_steps_show fuel steps : forallb wf_step steps = true ->
    (forall s, In s steps -> (fuel >= step_fuel s)%nat) ->
    forall n, (n > length steps)%nat ->
    parse_steps xid fuel n (flat_map show_step steps) = Some (map raw_step steps).
  Proof.
    induction steps as [|s r IH]; intros Hwf Hfuel n Hn.
    - destruct n; [cbn in Hn; lia|]. reflexivity.
    - cbn [forallb] in Hwf. apply andb_true_iff in Hwf as [Hs Hr].
      destruct n; [cbn in Hn; lia|]. cbn [length] in Hn.
      specialize (IH Hr (fun s' H' => Hfuel s' (or_intror H')) n ltac:(lia)).
      destruct s as [k|nm]; cbn [flat_map show_step map raw_step List.app parse_steps].
      + cbn [N.eqb Pos.eqb]. rewrite <- app_assoc. change ([93] ++ flat_map show_step r) with (93 :: flat_map show_step r).
        rewrite (parse_key_repr printable repr_float Hfl_chars Hfl_mark Hfl_inj k Hs fuel (93 :: flat_map show_step r));
          [|apply (Hfuel (SItem k)); left; reflexivity|reflexivity].
        cbn [List.app N.eqb Pos.eqb]. rewrite IH. reflexivity.
      + cbn [N.eqb Pos.eqb]. destruct (is_ident_chars nm Hs) as [Hc Hne].
        rewrite span_app by (auto using steps_head). destruct nm; [congruence|]. rewrite IH. reflexivity.
  Qed.

  Theorem parse_show_path p fuel : wf_path p = true -> (fuel >= path_fuel p)%nat ->
    parse_path xid fuel (show_path p) = Some (p_label p, map raw_step (p_steps p)).
  Proof.
    intros Hwf Hf. unfold wf_path in Hwf. apply andb_true_iff in Hwf as [Hl Hs].
    destruct (is_ident_chars _ Hl) as [Hc Hne].
    unfold parse_path, show_path. rewrite span_app by (auto using steps_head).
    destruct (p_label p) eqn:E; [congruence|]. unfold path_fuel in Hf.
    rewrite parse_steps_show; auto; [|lia].
    intros s Hin. clear - Hf Hin. induction (p_steps p) as [|x r IH]; [destruct Hin|].
    cbn [fold_right length] in Hf. destruct Hin as [->|Hin]; [lia|]. apply IH; [lia|assumption].
  Qed.

  Lemma raw_step_inj s t : wf_step s = true -> wf_step t = true -> raw_step s = raw_step t -> s = t.
  Proof.
    destruct s as [k|n], t as [k'|n']; cbn; intros Hs Ht E; try discriminate E.
    - inversion E as [E']. f_equal. eapply raw_key_inj; eauto.
    - congruence.
  Qed.

  Lemma raw_steps_inj l : forall l', forallb wf_step l = true -> forallb wf_step l' = true ->
    map raw_step l = map raw_step l' -> l = l'.
  Proof.
    induction l as [|s l IH]; intros [|t l'] Hl Hl' E; try discriminate E; [reflexivity|].
    cbn in *. apply andb_true_iff in Hl as [? ?]. apply andb_true_iff in Hl' as [? ?].
    inversion E. f_equal; [apply raw_step_inj; auto|apply IH; auto].
  Qed.

  Theorem show_path_inj p q : wf_path p = true -> wf_path q = true -> show_path p = show_path q -> p = q.
  Proof.
    intros Hp Hq E.
    pose proof (parse_show_path p (path_fuel p + path_fuel q) Hp ltac:(lia)) as A.
    pose proof (parse_show_path q (path_fuel p + path_fuel q) Hq ltac:(lia)) as B.
    rewrite E in A. rewrite A in B. inversion B as [[El Es]].
    unfold wf_path in Hp, Hq. apply andb_true_iff in Hp as [_ Hp]. apply andb_true_iff in Hq as [_ Hq].
    apply raw_steps_inj in Es; auto. destruct p, q; cbn in *; congruence.
  Qed.

  Theorem show_inj p q : wf_path p = true -> wf_path q = true ->
    show (term_of_path kind_of p) = show (term_of_path kind_of q) -> p = q.
  Proof. rewrite !show_term_of_path. apply show_path_inj. Qed.

  Theorem eq_iff p q : wf_path p = true -> wf_path q = true ->
    (eq_model printable repr_float (term_of_path kind_of p) (term_of_path kind_of q) = true <-> p = q).
  Proof.
    intros Hp Hq. unfold eq_model. destruct eq_impl. rewrite pystr_eqb_spec. split.
    - apply show_inj; assumption.
    - intros ->; reflexivity.
  Qed.
End PathProofs.

(* ------------------------------------------------------------------- hashing *)

Definition classes_okb : term -> bool :=
  fix ok (t : term) : bool :=
    match t with
    | TConst _ | TTop _ _ | TLiteral _ => true
    | TItem o k | TAttr o k => ok o && ok k
    | TBin c l r => existsb (N.eqb c) bin_classes && ok l && ok r
    | TUn c a => existsb (N.eqb c) un_classes && ok a
    | TBuiltin _ a ps => ok a && forallb ok ps
    | TCall f args kw => ok f && forallb ok args && forallb (fun p => ok (snd p)) kw
    end.

Section HashProofs.
  Variable H : list hval -> Z.

  Definition hvx (ann : list nat -> N) (pos : list nat) (x : term) : hval :=
    match x with TConst v => HVLit v | _ => HVObj (H (hash_tuple H ann pos x)) end.

  Fixpoint hvs_top (ann : list nat -> N) (pos : list nat) (i j : nat) (l : list term) : list hval :=
    match l with
    | [] => []
    | x :: r => hvx ann (pos ++ [i; j]) x :: hvs_top ann pos i (S j) r
    end.

  Fixpoint hkw_top (ann : list nat -> N) (pos : list nat) (j : nat) (l : list (pystr * term)) : list hval :=
    match l with
    | [] => []
    | (k, x) :: r => HVTup [HVLit (LStr k); hvx ann (pos ++ [3%nat; j]) x] :: hkw_top ann pos (S j) r
    end.

  (* the tuples hashed by __cinit__ (table obligations: hash_tpl mentions
     neither the manager nor the identity of the object) *)
  Lemma ht_top ann pos l oa : hash_tuple H ann pos (TTop l oa) =
    [HVStr (match class_name (if oa then cls_ObjectAttrRef else cls_Ref) with Some s => s | None => [] end); HVLit (LStr l)].
  Proof. destruct oa; reflexivity. Qed.

  Lemma ht_item ann pos o k : hash_tuple H ann pos (TItem o k) =
    [HVStr (match class_name cls_ItemRef with Some s => s | None => [] end); hvx ann (pos ++ [0%nat]) o; hvx ann (pos ++ [1%nat]) k].
  Proof. destruct o, k; reflexivity. Qed.

  Lemma ht_attr ann pos o k : hash_tuple H ann pos (TAttr o k) =
    [HVStr (match class_name cls_AttrRef with Some s => s | None => [] end); hvx ann (pos ++ [0%nat]) o; hvx ann (pos ++ [1%nat]) k].
  Proof. destruct o, k; reflexivity. Qed.

  Lemma ht_bin ann pos c l r : existsb (N.eqb c) bin_classes = true ->
    hash_tuple H ann pos (TBin c l r) = [HVCls c; hvx ann (pos ++ [0%nat]) l; hvx ann (pos ++ [1%nat]) r].
  Proof.
    intros Hc. cbn in Hc. repeat (apply orb_true_iff in Hc as [Hc|Hc]; [apply N.eqb_eq in Hc; subst c; destruct l, r; reflexivity|]).
    discriminate Hc.
  Qed.

  Lemma ht_un ann pos c a : existsb (N.eqb c) un_classes = true ->
    hash_tuple H ann pos (TUn c a) = [HVCls c; hvx ann (pos ++ [0%nat]) a].
  Proof.
    intros Hc. cbn in Hc. repeat (apply orb_true_iff in Hc as [Hc|Hc]; [apply N.eqb_eq in Hc; subst c; destruct a; reflexivity|]).
    discriminate Hc.
  Qed.

  Lemma ht_literal ann pos v : hash_tuple H ann pos (TLiteral v) = [HVCls cls_LiteralExpr; HVLit v].
  Proof. reflexivity. Qed.

  Ltac split_tuple :=
    repeat match goal with
           | |- _ :: _ = _ :: _ => f_equal
           | |- HVTup _ = HVTup _ => f_equal
           end; try reflexivity.

  Lemma ht_builtin ann pos f a ps : hash_tuple H ann pos (TBuiltin f a ps) =
    [HVFn f; hvx ann (pos ++ [0%nat]) a; HVTup (hvs_top ann pos 1 0 ps)].
  Proof.
    destruct a; cbn -[hvs_top]; split_tuple;
      (generalize 1%nat as i; generalize 0%nat as j; induction ps as [|x ps IH]; intros; cbn -[hash_tuple];
       [reflexivity|f_equal; first [apply IH|destruct x; reflexivity]]).
  Qed.

  Lemma hvs_inner ann pos args : forall i j,
    (fix go (i j : nat) (l : list term) {struct l} : list hval :=
       match l with
       | [] => []
       | x :: r => match x with
                   | TConst v => HVLit v
                   | _ => HVObj (H (hash_tuple H ann (pos ++ [i; j]) x))
                   end :: go i (S j) r
       end) i j args = hvs_top ann pos i j args.
  Proof.
    induction args as [|x args IH]; intros; cbn -[hash_tuple];
      [reflexivity|f_equal; first [apply IH|destruct x; reflexivity]].
  Qed.

  Lemma hkw_inner ann pos kw : forall j,
    (fix go (j : nat) (l : list (pystr * term)) {struct l} : list hval :=
       match l with
       | [] => []
       | (k, x) :: r => HVTup [HVLit (LStr k);
                               match x with
                               | TConst v => HVLit v
                               | _ => HVObj (H (hash_tuple H ann (pos ++ [3%nat; j]) x))
                               end] :: go (S j) r
       end) j kw = hkw_top ann pos j kw.
  Proof.
    induction kw as [|[k x] kw IH]; intros; cbn -[hash_tuple];
      [reflexivity|f_equal; first [apply IH|destruct x; reflexivity]].
  Qed.

  Lemma ht_call ann pos f args kw : hash_tuple H ann pos (TCall f args kw) =
    [hvx ann (pos ++ [0%nat]) f; HVTup (hvs_top ann pos 2 0 args); HVTup (hkw_top ann pos 0 kw)].
  Proof. rewrite <- hvs_inner, <- hkw_inner. destruct f; reflexivity. Qed.

  Lemma hvx_indep ann1 ann2 p1 p2 x :
    (forall ann1 ann2 pos1 pos2, hash_tuple H ann1 pos1 x = hash_tuple H ann2 pos2 x) ->
    hvx ann1 p1 x = hvx ann2 p2 x.
  Proof. intros E. unfold hvx. destruct x; try reflexivity; rewrite (E ann1 ann2 p1 p2); reflexivity. Qed.

  (* two references built independently (other managers, other objects) with
     the same structure are hashed from the same tuple *)
  Theorem hash_tuple_indep t : classes_okb t = true ->
    forall ann1 ann2 pos1 pos2, hash_tuple H ann1 pos1 t = hash_tuple H ann2 pos2 t.
  Proof.
    induction t as [v|l oa|o k IHo IHk|o k IHo IHk|c l r IHl IHr|c a IHa|v|f a ps IHa IHps|f args kw IHf IHargs IHkw]
      using term_ind'; intros Hok ann1 ann2 pos1 pos2.
    - reflexivity.
    - rewrite !ht_top. reflexivity.
    - cbn in Hok. apply andb_true_iff in Hok as [Ho Hk]. rewrite !ht_item.
      f_equal; f_equal; [|f_equal]; apply hvx_indep; auto.
    - cbn in Hok. apply andb_true_iff in Hok as [Ho Hk]. rewrite !ht_attr.
      f_equal; f_equal; [|f_equal]; apply hvx_indep; auto.
    - cbn [classes_okb] in Hok. apply andb_true_iff in Hok as [Hok Hr]. apply andb_true_iff in Hok as [Hc Hl].
      rewrite !ht_bin by assumption. f_equal; f_equal; [|f_equal]; apply hvx_indep; auto.
    - cbn [classes_okb] in Hok. apply andb_true_iff in Hok as [Hc Ha].
      rewrite !ht_un by assumption. f_equal; f_equal; apply hvx_indep; auto.
    - reflexivity.
    - cbn [classes_okb] in Hok. apply andb_true_iff in Hok as [Ha Hps]. rewrite !ht_builtin.
      f_equal; f_equal; [apply hvx_indep; auto|]. f_equal. f_equal.
      generalize 1%nat as i. generalize 0%nat as j. induction ps as [|x ps IH]; intros j i; [reflexivity|].
      inversion IHps; subst. cbn in Hps. apply andb_true_iff in Hps as [Hx Hps].
      cbn [hvs_top]. f_equal; [apply hvx_indep; auto|apply IH; assumption].
    - cbn [classes_okb] in Hok. apply andb_true_iff in Hok as [Hok Hkw]. apply andb_true_iff in Hok as [Hf Hargs].
      rewrite !ht_call. f_equal; [apply hvx_indep; auto|]. f_equal; [|f_equal].
      + f_equal. generalize 2%nat as i. generalize 0%nat as j.
        induction args as [|x args IH]; intros j i; [reflexivity|].
        inversion IHargs; subst. cbn in Hargs. apply andb_true_iff in Hargs as [Hx Hargs].
        cbn [hvs_top]. f_equal; [apply hvx_indep; auto|apply IH; assumption].
      + f_equal. generalize 0%nat as j. induction kw as [|[k x] kw IH]; intros j; [reflexivity|].
        inversion IHkw; subst. cbn in Hkw. apply andb_true_iff in Hkw as [Hx Hkw].
        cbn [hkw_top]. f_equal; [|apply IH; assumption]. f_equal. f_equal. f_equal.
        apply hvx_indep. cbn in *. auto.
  Qed.

  Lemma path_classes_ok kind_of p : classes_okb (term_of_path kind_of p) = true.
  Proof.
    unfold term_of_path. generalize (TTop (p_label p) (kind_of (p_label p))) (eq_refl : classes_okb (TTop (p_label p) (kind_of (p_label p))) = true).
    induction (p_steps p) as [|s r IH]; intros t Ht; [exact Ht|].
    cbn [fold_left]. apply IH. destruct s; cbn; rewrite Ht; reflexivity.
  Qed.
End HashProofs.

(* -------------------------------------------- expressions over equal references *)

Section Subst.
  (* a skeleton is a term whose container leaves stand for arbitrary references *)
  Variable sigma : pystr -> bool -> term.

  Fixpoint fill (t : term) : term :=
    match t with
    | TConst v => TConst v
    | TTop l oa => sigma l oa
    | TItem o k => TItem (fill o) (fill k)
    | TAttr o k => TAttr (fill o) (fill k)
    | TBin c l r => TBin c (fill l) (fill r)
    | TUn c a => TUn c (fill a)
    | TLiteral v => TLiteral v
    | TBuiltin f a ps => TBuiltin f (fill a) (map fill ps)
    | TCall f args kw => TCall (fill f) (map fill args) (map (fun p => (fst p, fill (snd p))) kw)
    end.
End Subst.

Lemma fill_ext s1 s2 t : (forall l oa, s1 l oa = s2 l oa) -> fill s1 t = fill s2 t.
Proof.
  intros E. induction t using term_ind'; cbn; try congruence.
  - f_equal; auto. induction ps as [|x ps IH]; [reflexivity|]. inversion H; subst. cbn. f_equal; auto.
  - f_equal; auto.
    + induction args as [|x args IH]; [reflexivity|]. inversion H; subst. cbn. f_equal; auto.
    + induction kw as [|x kw IH]; [reflexivity|]. inversion H0; subst. cbn. f_equal; auto. f_equal; auto.
Qed.

(* expressions of identical structure (one skeleton) over equal references *)
Section ExprStruct.
  Variable printable : N -> bool.
  Variable repr_float : N -> pystr.
  Variable xid : N -> bool.
  Variable kind_of : pystr -> bool.
  Hypothesis Hfl_chars : forall t, forallb numchar (repr_float t) = true.
  Hypothesis Hfl_mark : forall t, existsb float_mark (repr_float t) = true.
  Hypothesis Hfl_inj : forall t u, repr_float t = repr_float u -> t = u.

  Definition equal_path_refs (a b : term) : Prop :=
    exists p q, wf_path xid p = true /\ wf_path xid q = true /\
                a = term_of_path kind_of p /\ b = term_of_path kind_of q /\
                eq_model printable repr_float a b = true.

  Theorem expr_struct sk s1 s2 :
    (forall l oa, equal_path_refs (s1 l oa) (s2 l oa)) ->
    fill s1 sk = fill s2 sk.
  Proof.
    intros Hs. apply fill_ext. intros l oa.
    destruct (Hs l oa) as (p & q & Hp & Hq & -> & -> & E).
    apply (eq_iff printable repr_float xid kind_of Hfl_chars Hfl_mark Hfl_inj p q Hp Hq) in E. congruence.
  Qed.
End ExprStruct.

(* ---------------------------------------------- the known finding: dotted names *)

Section Dotted.
  Variable printable : N -> bool.
  Variable repr_float : N -> pystr.
  Definition dot_c : term := TTop [99] false.
  Definition dot_one : term := TAttr dot_c (TConst (LStr [97; 46; 98])).                       (* getattr(c, 'a.b') *)
  Definition dot_two : term := TAttr (TAttr dot_c (TConst (LStr [97]))) (TConst (LStr [98])).  (* c.a.b *)

  Lemma dotted_refutes :
    show printable repr_float dot_one = show printable repr_float dot_two /\
    eq_model printable repr_float dot_one dot_two = true /\
    dot_one <> dot_two /\
    forall H ann1 ann2, hash_tuple H ann1 [] dot_one <> hash_tuple H ann2 [] dot_two.
  Proof.
    repeat split; try reflexivity; try discriminate.
  Qed.
End Dotted.

(* --------------------------------------- a float oracle meeting the hypotheses *)

Definition demo_float (t : N) : pystr := uint_chars (N.to_uint t) ++ [46; 53].   (* "<t>.5" *)

Lemma uint_chars_inj u : forall v, uint_chars u = uint_chars v -> u = v.
Proof. induction u; intros v E; destruct v; cbn in E; try discriminate E; try reflexivity; inversion E; f_equal; auto. Qed.

Lemma demo_float_ok :
  (forall t, forallb numchar (demo_float t) = true) /\
  (forall t, existsb float_mark (demo_float t) = true) /\
  (forall t u, demo_float t = demo_float u -> t = u).
Proof.
  unfold demo_float. repeat split; intros.
  - rewrite forallb_app. apply andb_true_iff; split; [|reflexivity].
    pose proof (uint_chars_digits (N.to_uint t)) as D. rewrite forallb_forall in *. intros c Hc.
    unfold numchar. rewrite (D c Hc). reflexivity.
  - rewrite existsb_app. apply orb_true_iff. right. reflexivity.
  - apply app_inv_tail in H. apply uint_chars_inj in H.
    rewrite <- (DecimalN.Unsigned.of_to t), <- (DecimalN.Unsigned.of_to u), H. reflexivity.
Qed.
