(* List facts used by the proofs about row selection (model/TableSel.v):
   sorted lists, np.where as a filter, Python slices, numpy index wrapping. *)
From Coq Require Import List Bool Arith ZArith NArith Lia ZifyBool Sorted Permutation.
From XD Require Import lib.ListAux model.Table model.TableSel.
Import ListNotations.
Open Scope Z_scope.

(* ---- strictly increasing lists of positions ------------------------------- *)

Lemma incr_filter (p : nat -> bool) l : StronglySorted lt l -> StronglySorted lt (filter p l).
Proof.
  induction 1 as [|a l Hs IH Hf]; cbn; [constructor|].
  destruct (p a); auto. constructor; auto.
  rewrite Forall_forall in *. intros x Hx. apply filter_In in Hx. apply Hf, Hx.
Qed.

Lemma incr_seq a n : StronglySorted lt (seq a n).
Proof.
  revert a; induction n as [|n IH]; intros a; cbn; constructor; auto.
  rewrite Forall_forall. intros x Hx. apply in_seq in Hx. lia.
Qed.

Lemma incr_filter_seq p a n : StronglySorted lt (filter p (seq a n)).
Proof. apply incr_filter, incr_seq. Qed.

Lemma incr_ext (l1 l2 : list nat) :
  StronglySorted lt l1 -> StronglySorted lt l2 -> (forall x, In x l1 <-> In x l2) -> l1 = l2.
Proof.
  intros H1; revert l2; induction H1 as [|a l1 Hs IH Hf]; intros l2 H2 Hin.
  - destruct l2 as [|b l2]; auto. exfalso. apply (Hin b). now left.
  - destruct H2 as [|b l2 Hs2 Hf2].
    + exfalso. apply (Hin a). now left.
    + rewrite Forall_forall in Hf, Hf2.
      assert (a = b).
      { destruct (proj1 (Hin a) (or_introl eq_refl)) as [E|Ha]; auto.
        destruct (proj2 (Hin b) (or_introl eq_refl)) as [E|Hb]; auto.
        apply Hf2 in Ha. apply Hf in Hb. lia. }
      subst b. f_equal. apply IH; auto.
      intros x; split; intros Hx.
      * destruct (proj1 (Hin x) (or_intror Hx)) as [E|?]; auto. subst x. apply Hf in Hx; lia.
      * destruct (proj2 (Hin x) (or_intror Hx)) as [E|?]; auto. subst x. apply Hf2 in Hx; lia.
Qed.

Lemma incr_NoDup (l : list nat) : StronglySorted lt l -> NoDup l.
Proof.
  induction 1 as [|a l Hs IH Hf]; constructor; auto.
  rewrite Forall_forall in Hf. intros Ha. apply Hf in Ha. lia.
Qed.

(* ---- list.sort() ------------------------------------------------------------ *)

Lemma zinsert_perm x l : Permutation (zinsert x l) (x :: l).
Proof.
  induction l as [|y t IH]; cbn; auto.
  destruct (x <=? y); auto. rewrite IH. apply perm_swap.
Qed.

Lemma zsort_perm l : Permutation (zsort l) l.
Proof. induction l as [|x t IH]; cbn; auto. rewrite zinsert_perm. now constructor. Qed.

Lemma zinsert_sorted x l : StronglySorted Z.le l -> StronglySorted Z.le (zinsert x l).
Proof.
  induction 1 as [|y t Hs IH Hf]; cbn.
  - constructor; constructor.
  - destruct (Z.leb_spec x y).
    + constructor; [constructor; auto|]. constructor; auto.
      rewrite Forall_forall in *. intros z Hz. apply Hf in Hz. lia.
    + constructor; auto. rewrite Forall_forall in *. intros z Hz.
      apply (Permutation_in _ (zinsert_perm x t)) in Hz. destruct Hz as [<-|Hz]; [lia|auto].
Qed.

Lemma zsort_sorted l : StronglySorted Z.le (zsort l).
Proof. induction l; cbn; [constructor|]. now apply zinsert_sorted. Qed.

Lemma sorted_perm_unique (l1 l2 : list Z) :
  StronglySorted Z.le l1 -> StronglySorted Z.le l2 -> Permutation l1 l2 -> l1 = l2.
Proof.
  intros H1; revert l2; induction H1 as [|a l1 Hs IH Hf]; intros l2 H2 Hp.
  - apply Permutation_nil in Hp. now subst.
  - destruct H2 as [|b l2 Hs2 Hf2].
    + apply Permutation_sym, Permutation_nil in Hp. discriminate.
    + rewrite Forall_forall in Hf, Hf2.
      assert (a = b).
      { assert (Ha : In a (b :: l2)) by (apply (Permutation_in _ Hp); now left).
        assert (Hb : In b (a :: l1)) by (apply (Permutation_in _ (Permutation_sym Hp)); now left).
        destruct Ha as [E|Ha]; auto. destruct Hb as [E|Hb]; auto.
        apply Hf2 in Ha. apply Hf in Hb. lia. }
      subst b. f_equal. apply IH; auto. now apply Permutation_cons_inv in Hp.
Qed.

Lemma zsort_of_perm l1 l2 : Permutation l1 l2 -> zsort l1 = zsort l2.
Proof.
  intros Hp. apply sorted_perm_unique; try apply zsort_sorted.
  rewrite !zsort_perm. exact Hp.
Qed.

Lemma incr_Z_sorted (l : list nat) : StronglySorted lt l -> StronglySorted Z.le (map Z.of_nat l).
Proof.
  induction 1 as [|a l Hs IH Hf]; cbn; constructor; auto.
  rewrite Forall_forall in *. intros z Hz. apply in_map_iff in Hz. destruct Hz as (k & <- & Hk).
  apply Hf in Hk. lia.
Qed.

(* sorting a duplicate-free list whose members are exactly those of a strictly
   increasing list of positions yields that list *)
Lemma zsort_is_incr (l : list Z) (s : list nat) :
  NoDup l -> StronglySorted lt s -> (forall z, In z l <-> In z (map Z.of_nat s)) ->
  zsort l = map Z.of_nat s.
Proof.
  intros Hn Hs Hin. apply sorted_perm_unique; [apply zsort_sorted | now apply incr_Z_sorted |].
  rewrite zsort_perm. apply NoDup_Permutation; auto.
  apply FinFun.Injective_map_NoDup; [intros a b; lia | now apply incr_NoDup].
Qed.

(* ---- fmap_opt ------------------------------------------------------------------ *)

Lemma in_fmap_opt {A B} (f : A -> option B) l y :
  In y (fmap_opt f l) <-> exists x, In x l /\ f x = Some y.
Proof.
  induction l as [|a t IH]; cbn.
  - split; [tauto | intros (x & [] & _)].
  - destruct (f a) eqn:E; cbn; rewrite IH; split.
    + intros [<-|(x & Hx & Hf)]; [exists a; auto | exists x; auto].
    + intros (x & [<-|Hx] & Hf); [left; congruence | right; exists x; auto].
    + intros (x & Hx & Hf); exists x; auto.
    + intros (x & [<-|Hx] & Hf); [congruence | exists x; auto].
Qed.

Lemma fmap_opt_perm {A B} (f : A -> option B) l1 l2 :
  Permutation l1 l2 -> Permutation (fmap_opt f l1) (fmap_opt f l2).
Proof.
  induction 1; cbn; auto.
  - destruct (f x); auto.
  - destruct (f x), (f y); auto. apply perm_swap.
  - etransitivity; eauto.
Qed.

Lemma fmap_opt_NoDup {A B} (f : A -> option B) l :
  NoDup l -> (forall x1 x2 y, In x1 l -> In x2 l -> f x1 = Some y -> f x2 = Some y -> x1 = x2) ->
  NoDup (fmap_opt f l).
Proof.
  induction 1 as [|a t Ha Hn IH]; intros Hinj; cbn; [constructor|].
  assert (IH' : NoDup (fmap_opt f t)) by (apply IH; intros; eapply Hinj; eauto; now right).
  destruct (f a) eqn:E; auto. constructor; auto.
  intros Hin. apply in_fmap_opt in Hin. destruct Hin as (x & Hx & Hf).
  assert (a = x) by (eapply Hinj; eauto; [now left | now right]). subst x. contradiction.
Qed.

(* ---- np.where as a filter over positions ------------------------------------------ *)

Lemma where_from_filter {A} (p : A -> bool) (d : A) l : forall i,
  where_from p i l = map Z.of_nat (filter (fun k => p (nth (k - i) l d)) (seq i (length l))).
Proof.
  induction l as [|x t IH]; intros i; cbn [where_from length seq filter]; auto.
  rewrite Nat.sub_diag. change (nth 0 (x :: t) d) with x.
  assert (E : filter (fun k => p (nth (k - i) (x :: t) d)) (seq (S i) (length t)) =
              filter (fun k => p (nth (k - S i) t d)) (seq (S i) (length t))).
  { apply filter_ext_in. intros k Hk. apply in_seq in Hk.
    replace (k - i)%nat with (S (k - S i)) by lia. reflexivity. }
  rewrite E. destruct (p x); cbn [map]; rewrite IH; reflexivity.
Qed.

Lemma np_where_filter {A} (p : A -> bool) (d : A) l :
  np_where p l = zpos_filter (length l) (fun k => p (nth k l d)).
Proof.
  unfold np_where, zpos_filter. rewrite (where_from_filter p d). f_equal.
  apply filter_ext. intros k. now rewrite Nat.sub_0_r.
Qed.

(* ---- Python slices (step 1) ----------------------------------------------------------- *)

Lemma norm_bound_range n b : 0 <= n -> 0 <= norm_bound n b <= n.
Proof. intros Hn. unfold norm_bound. destruct (b <? 0) eqn:E; lia. Qed.

Lemma seq_as_filter (s e n : nat) : (e <= n)%nat ->
  seq s (e - s) = filter (fun i => (s <=? i)%nat && (i <? e)%nat) (seq 0 n).
Proof.
  intros He. apply incr_ext; [apply incr_seq | apply incr_filter_seq |].
  intros x. rewrite in_seq, filter_In, in_seq. lia.
Qed.

Lemma slice_range_filter n (lo hi : Z) : 0 <= lo <= Z.of_nat n -> 0 <= hi <= Z.of_nat n ->
  map Z.of_nat (seq (Z.to_nat lo) (Z.to_nat hi - Z.to_nat lo)) =
  zpos_filter n (fun i => (lo <=? Z.of_nat i) && (Z.of_nat i <? hi)).
Proof.
  intros Hlo Hhi. unfold zpos_filter. f_equal.
  rewrite (seq_as_filter _ _ n) by lia. apply filter_ext. intros i. lia.
Qed.

Lemma slice_range_bound n a b x : In x (slice_range n a b) -> (x < n)%nat.
Proof.
  unfold slice_range. intros H. apply in_seq in H.
  pose proof (norm_bound_range (Z.of_nat n)) as Hb.
  destruct b as [b|]; [specialize (Hb b ltac:(lia))|]; lia.
Qed.

(* ---- numpy index wrapping --------------------------------------------------------------- *)

Lemma wrap1_bound n i p : wrap1 n i = Some p -> (p < n)%nat.
Proof.
  unfold wrap1. destruct ((0 <=? i) && (i <? Z.of_nat n)) eqn:E1.
  - intros H; inversion H; lia.
  - destruct ((- Z.of_nat n <=? i) && (i <? 0)) eqn:E2; [|discriminate]. intros H; inversion H; lia.
Qed.

Lemma wrap1_nat n p : (p < n)%nat -> wrap1 n (Z.of_nat p) = Some p.
Proof.
  intros H. unfold wrap1. destruct ((0 <=? Z.of_nat p) && (Z.of_nat p <? Z.of_nat n)) eqn:E; [|lia].
  now rewrite Nat2Z.id.
Qed.

Lemma wrap_all_bound n l ps : wrap_all n l = Some ps -> Forall (fun p => (p < n)%nat) ps.
Proof.
  revert ps; induction l as [|i t IH]; intros ps; cbn.
  - intros H; inversion H; constructor.
  - destruct (wrap1 n i) eqn:E1; [|discriminate]. destruct (wrap_all n t) eqn:E2; [|discriminate].
    intros H; inversion H; subst. constructor; [eapply wrap1_bound; eauto | auto].
Qed.

Lemma wrap_all_nat n ps : Forall (fun p => (p < n)%nat) ps -> wrap_all n (map Z.of_nat ps) = Some ps.
Proof.
  induction 1 as [|p t Hp Hf IH]; cbn; auto. now rewrite wrap1_nat, IH.
Qed.

Lemma wrap_all_length n l ps : wrap_all n l = Some ps -> length ps = length l.
Proof.
  revert ps; induction l as [|i t IH]; intros ps; cbn.
  - intros H; inversion H; reflexivity.
  - destruct (wrap1 n i); [|discriminate]. destruct (wrap_all n t); [|discriminate].
    intros H; inversion H; subst; cbn. f_equal; auto.
Qed.

(* ---- take ------------------------------------------------------------------------------------ *)

Lemma take_length {A} (d : A) col ps : length (take d col ps) = length ps.
Proof. unfold take. apply map_length. Qed.

Lemma take_take {A} (d : A) col (abs ps : list nat) :
  Forall (fun p => (p < length abs)%nat) ps ->
  take d (take d col abs) ps = take d col (take 0%nat abs ps).
Proof.
  intros Hf. unfold take. rewrite map_map. apply map_ext_in. intros p Hp.
  rewrite Forall_forall in Hf. specialize (Hf p Hp).
  rewrite (nth_indep _ d (nth 0 col d)) by (rewrite map_length; exact Hf).
  change (nth 0 col d) with ((fun q => nth q col d) 0%nat). now rewrite map_nth.
Qed.

Lemma take_seq_id n ps : Forall (fun p => (p < n)%nat) ps -> take 0%nat (seq 0 n) ps = ps.
Proof.
  intros Hf. unfold take. rewrite <- (map_id ps) at 2. apply map_ext_in. intros p Hp.
  rewrite Forall_forall in Hf. rewrite seq_nth; auto.
Qed.
