(* C10, limits: starting inside the limits, the containers and every row of
   the log stay inside the closed limits of each knob. *)
From Coq Require Import List Bool Arith NArith ZArith Lia.
From XD Require Import model.Opt proofs.OptBase proofs.OptInner proofs.OptOuter.
Import ListNotations.

Section Limits.
  Variable E : env.
  Notation F := (eF E).
  Variable cf : cfg F.
  Notation state := (state F).
  Notation row := (row F).
  Notation lims := (c_lim cf).
  Notation n := (length (c_w cf)).
  Hypothesis Hwfc : wfc E cf.
  (* unit weights and the three facts about 1 and 0 that make the solver's x
     the knob value itself (true of IEEE doubles) *)
  Definition unit_laws : Prop :=
    Forall (fun w => w = e_one E) (c_w cf) /\ (forall x, e_mul E x (e_one E) = x) /\
    (forall x, e_div E x (e_one E) = x) /\ (forall x, e_sub E x (e_zero E) = x).
  (* either the merit function polices the limits (check_limits=True, any weights),
     or only the Jacobian solver does (check_limits=False) and the weights are 1 *)
  Hypothesis Hmode : c_check cf = true \/ (c_check cf = false /\ unit_laws).

  (* with unit weights the solver's x is itself inside the limits *)
  Definition sxinv (s : state) : Prop := unit_laws -> forall x, sx s = Some x -> lims_ok E lims x.
  Definition wfx (s : state) : Prop := wfs E cf s /\ sxinv s.

  Definition good_k (s : state) : Prop := wfx s /\ lims_ok E lims (knobs s).
  Definition row_ok (r : row) : Prop :=
    lims_ok E lims (r_knobs r) /\ length (r_knobs r) = n /\ length (r_va r) = n.
  Definition ext_ok (s s' : state) : Prop := exists more, log s' = log s ++ more /\ Forall row_ok more.
  Definition good (s : state) : Prop := good_k s /\ Forall row_ok (log s) /\ log s <> [].

  Lemma ext_ok_refl s : ext_ok s s.
  Proof. exists []. rewrite app_nil_r; auto. Qed.
  Lemma ext_ok_trans s1 s2 s3 : ext_ok s1 s2 -> ext_ok s2 s3 -> ext_ok s1 s3.
  Proof.
    intros (m1 & L1 & F1) (m2 & L2 & F2). exists (m1 ++ m2). rewrite L2, L1, app_assoc. split; auto.
    apply Forall_app; auto.
  Qed.
  Lemma ext_ok_rows s s' : ext_ok s s' -> Forall row_ok (log s) -> Forall row_ok (log s').
  Proof. intros (m & L & Fm) H. rewrite L. apply Forall_app; auto. Qed.
  Lemma ext_ok_nonempty s s' : ext_ok s s' -> log s <> [] -> log s' <> [].
  Proof. intros (m & L & _) H. rewrite L. destruct (log s); [congruence|discriminate]. Qed.

  (* ---- unit weights ------------------------------------------------------------------ *)
  Lemma map2_unit (g : F -> F -> F) (x ws : list F) :
    (forall a, g a (e_one E) = a) -> Forall (fun w => w = e_one E) ws -> length x = length ws -> map2 g x ws = x.
  Proof.
    intros Hg. revert ws; induction x as [|a x IH]; intros [|w ws] Hw Hl; cbn in *; try discriminate; auto.
    inversion Hw; subst. rewrite Hg. f_equal. apply IH; auto.
  Qed.

  Lemma wk_self act l k : write_knobs E false act l k k = (k, false).
  Proof.
    revert l k; induction act as [|a act IH]; intros [|l0 l] [|v k]; cbn; auto.
    rewrite IH. destruct a; reflexivity.
  Qed.

  Lemma unit_x_to_knobs x : unit_laws -> length x = n -> x_to_knobs E cf x = x.
  Proof. intros (U1 & U2 & _) Hl. unfold x_to_knobs. apply map2_unit; auto. Qed.
  Lemma unit_knobs_to_x k : unit_laws -> length k = n -> knobs_to_x E cf k = k.
  Proof. intros (U1 & _ & U3 & _) Hl. unfold knobs_to_x. apply map2_unit; auto. Qed.

  Lemma rt_write_unit act k : c_check cf = false -> unit_laws -> length k = n -> rt_write E cf act k = k.
  Proof.
    intros Hc U Hl. unfold rt_write. rewrite Hc, (unit_knobs_to_x k U Hl), (unit_x_to_knobs k U Hl), wk_self. reflexivity.
  Qed.

  (* an unchecked write of values that are inside the limits, over all knobs *)
  Lemma wk_cover act l kv old k' e :
    write_knobs E false act l kv old = (k', e) ->
    length act = length old -> length l = length old -> length kv = length old ->
    lims_ok E l kv -> lims_ok_in E act l old -> lims_ok E l k'.
  Proof.
    revert l kv old k' e; induction act as [|a act IH]; intros [|l0 l] [|v kv] [|o old] k' e; cbn; try discriminate;
      try (intros Hw; inversion Hw; subst; cbn; auto; fail).
    intros Hw La Ll Lk [V1 V2] [H1 H2].
    destruct (write_knobs E false act l kv old) as [t e0] eqn:Hr.
    destruct a; inversion Hw; subst; cbn; (split; [auto|eapply IH; eauto]).
  Qed.

  Lemma lim_loop_nil x this : lim_loop E x this [] = ([], []).
  Proof. destruct x; [|destruct this]; reflexivity. Qed.
  Lemma map2_nil_r (g : F -> F -> F) x : map2 g x [] = [].
  Proof. destruct x; reflexivity. Qed.
  Lemma lims_ok_nil l : lims_ok E l [].
  Proof. destruct l; cbn; auto. Qed.

  (* the limit test of JacobianSolver.step keeps x inside the limits: the test and
     the update compute the same x_i - step_i, and x_i - 0 = x_i *)
  Lemma lim_loop_lims : unit_laws -> forall (l : list (option (option F * option F))) (ws x this t : list F) h,
    Forall (fun w => w = e_one E) ws -> lims_ok E l x ->
    lim_loop E x this
      (map2 (fun (l0 : option (option F * option F)) w =>
               match l0 with
               | Some (lo, hi) => (option_map (fun a => e_div E a w) lo, option_map (fun b => e_div E b w) hi)
               | None => (Some (e_div E (e_lo E) w), Some (e_div E (e_hi E) w))
               end) l ws) = (t, h) ->
    lims_ok E l (map2 (e_sub E) x t).
  Proof.
    intros (_ & _ & U3 & U4). induction l as [|l0 l IH]; intros ws x this t h Hw Hl.
    - cbn [map2]. rewrite lim_loop_nil. intros H; inversion H; subst. rewrite map2_nil_r. apply lims_ok_nil.
    - destruct ws as [|w ws].
      { cbn [map2]. rewrite lim_loop_nil. intros H; inversion H; subst. rewrite map2_nil_r. apply lims_ok_nil. }
      destruct x as [|xi x]; [cbn; intros H; inversion H; subst; cbn; auto|].
      destruct this as [|ti this]; [cbn; intros H; inversion H; subst; cbn; auto|].
      inversion Hw; subst. destruct Hl as [Hi Hl]. cbn [map2 lim_loop].
      match goal with |- context [lim_loop E x this ?xl] => destruct (lim_loop E x this xl) as [tl hh] eqn:Hr end.
      specialize (IH _ _ _ _ _ H2 Hl Hr).
      destruct l0 as [[lo hi]|].
      + assert (Elo : option_map (fun a => e_div E a (e_one E)) lo = lo) by (destruct lo; cbn; rewrite ?U3; auto).
        assert (Ehi : option_map (fun b => e_div E b (e_one E)) hi = hi) by (destruct hi; cbn; rewrite ?U3; auto).
        rewrite Elo, Ehi.
        destruct (below E lo (e_sub E xi ti)) eqn:Hb.
        { intros H; inversion H; subst. cbn. rewrite U4. split; auto. }
        destruct (above E hi (e_sub E xi ti)) eqn:Ha.
        { intros H; inversion H; subst. cbn. rewrite U4. split; auto. }
        intros H; inversion H; subst. cbn. split; auto.
        unfold inlim, out_of_limits. rewrite Hb, Ha. reflexivity.
      + match goal with |- (if ?c then _ else _) = _ -> _ => destruct c end;
          [|match goal with |- (if ?c then _ else _) = _ -> _ => destruct c end];
          intros H; inversion H; subst; cbn; (split; [reflexivity|auto]).
  Qed.

  Lemma clip_id act l k : lims_ok E l k -> clip_knobs E act l k = k.
  Proof.
    revert l k; induction act as [|a act IH]; intros [|l0 l] [|v k]; cbn; auto.
    intros [Hi Hl]. rewrite (IH _ _ Hl). f_equal. destruct a; auto. destruct l0 as [[lo hi]|]; auto.
    unfold inlim, out_of_limits in Hi. apply orb_false_iff in Hi. destruct Hi as [Hb Ha].
    destruct lo as [a0|], hi as [b0|]; cbn in Hb, Ha; rewrite ?Hb, ?Ha; reflexivity.
  Qed.

  Lemma pre_clip_knobs s : lims_ok E lims (knobs s) -> knobs (pre_clip E cf s) = knobs s.
  Proof. intros H. unfold pre_clip. destruct (c_check cf); stsimpl; auto. apply clip_id; auto. Qed.

  (* ---- the value written by add_point_to_log's evaluation ------------------------------ *)
  Lemma rt_write_good act k : length k = n -> lims_ok E lims k ->
    lims_ok E lims (rt_write E cf act k) /\ length (rt_write E cf act k) = length k.
  Proof.
    intros Hn H. destruct Hmode as [Hc|[Hc U]].
    - unfold rt_write. rewrite Hc. split; [apply wk_lims; auto|apply wk_length].
    - rewrite (rt_write_unit act k Hc U Hn). auto.
  Qed.

  (* ---- add_point_to_log, reload ---------------------------------------------------- *)
  Lemma add_point_good tg s : good_k s ->
    post (add_point E cf tg s)
      (fun s' => good_k s' /\ exists r, log s' = log s ++ [r] /\ row_ok r)
      (fun e s' => good_k s' /\ log s' = log s).
  Proof.
    intros [((W1 & W2 & W3) & Sx) Hl].
    destruct (rt_write_good (va s) (knobs s) W1 Hl) as [G1 G2].
    eapply post_weaken; [apply add_point_spec| |].
    - intros s' ((V & T & _) & X & M & _ & K & (r & L & Rk & Rv & _)).
      split.
      + split; [|rewrite K; auto]. split.
        * split; [rewrite K, G2; auto|]. split; [congruence|].
          intros x Hx. rewrite X in Hx. rewrite M. auto.
        * intros Hc x Hx. rewrite X in Hx. eauto.
      + exists r. split; auto. unfold row_ok. rewrite Rk, Rv. auto.
    - intros e s' ((V & T & _) & L & X & M & K).
      split; auto. split; [|rewrite K; auto]. split.
      + split; [rewrite K, G2; auto|]. split; [congruence|].
        intros x Hx. rewrite X in Hx. rewrite M. auto.
      + intros Hc x Hx. rewrite X in Hx. eauto.
  Qed.

  Lemma reload_good i s : wfx s -> Forall row_ok (log s) ->
    post (reload E cf i s)
      (fun s' => good_k s' /\ exists r, log s' = log s ++ [r] /\ row_ok r)
      (fun e s' => (nth_error (log s) i = None /\ s' = s) \/ (good_k s' /\ log s' = log s)).
  Proof.
    intros ((W1 & W2 & W3) & Sx) Hr. unfold reload. destruct (nth_error (log s) i) as [r|] eqn:Hn; [|cbn; auto].
    assert (Ro : row_ok r) by (eapply Forall_forall; [exact Hr|eapply nth_error_In; eauto]).
    destruct Ro as (R1 & R2 & R3).
    eapply post_weaken; [apply add_point_good| |].
    - split; stsimpl; auto. split; [split; auto|]. exact Sx.
    - intros s' H. stsimpl. exact H.
    - intros e s' H. stsimpl. right. exact H.
  Qed.

  (* ---- one Jacobian step --------------------------------------------------------------- *)
  Lemma stepped_good s s' : good_k s -> inner E s s' -> stepped E cf s s' -> good_k s'.
  Proof.
    intros [[Hw Sx] Hl] (V & T & _ & Hk) (x' & y & kp & S1 & _ & _ & S4 & S5 & S6 & (x0 & Hx0 & S7)).
    destruct (S6 Hwfc Hw) as [X1 X2]. destruct Hw as (W1 & W2 & W3).
    pose proof (kn_inact_length _ _ _ _ Hk) as Lk. pose proof (kn_inact_length _ _ _ _ S4) as Lp.
    assert (Hwf' : wfs E cf s').
    { split; [congruence|]. split; [congruence|]. intros x Hx. rewrite S1 in Hx. inversion Hx; subst. auto. }
    assert (Hx' : unit_laws -> lims_ok E lims x').
    { intros U. pose proof (Sx U _ Hx0) as I0. destruct S7 as [->|(this & t & h & Hll & ->)]; auto.
      eapply (lim_loop_lims U); [exact (proj1 U)|exact I0|exact Hll]. }
    assert (Sx' : sxinv s') by (intros U x Hx; rewrite S1 in Hx; inversion Hx; subst; auto).
    split; [split; [exact Hwf'|exact Sx']|].
    destruct Hmode as [Hc|[Hc U]].
    - rewrite Hc in S5. eapply wk_lims_full; [exact S5| | | |].
      + congruence.
      + unfold wfc in Hwfc. congruence.
      + unfold x_to_knobs. rewrite map2_length, X1, Lp, W1. lia.
      + eapply kn_inact_lims; [exact S4|]. apply lims_ok_weak; auto.
    - rewrite Hc, (unit_x_to_knobs x' U X1) in S5. eapply wk_cover; [exact S5| | | | |].
      + congruence.
      + unfold wfc in Hwfc. congruence.
      + congruence.
      + exact (Hx' U).
      + eapply kn_inact_lims; [exact S4|]. apply lims_ok_weak; auto.
  Qed.

  Lemma innerx_wfx s s' : wfx s -> innerx E s s' -> wfx s'.
  Proof.
    intros ((W1 & W2 & W3) & Sx) ((V & _ & _ & Hk) & X & M).
    pose proof (kn_inact_length _ _ _ _ Hk) as Lk.
    split; [|intros Hc x Hx; rewrite X in Hx; eauto].
    split; [congruence|]. split; [congruence|]. intros x Hx. rewrite X in Hx. rewrite M. auto.
  Qed.

  (* solver.x := knobs / weights (solve(), and step() when the knobs moved) *)
  Lemma reset_good s : good_k s ->
    good_k (set_sx s (Some (knobs_to_x E cf (knobs s))) (map (fun _ => true) (knobs_to_x E cf (knobs s)))).
  Proof.
    intros [((W1 & W2 & W3) & Sx) Hl]. unfold good_k, wfx, wfs, sxinv; stsimpl. split; [|exact Hl]. split.
    - split; [exact W1|]. split; [exact W2|]. intros x0 Hx. inversion Hx; subst x0.
      split; [|rewrite map_length]; unfold knobs_to_x; rewrite map2_length, W1; lia.
    - intros U x0 Hx. inversion Hx; subst x0. rewrite (unit_knobs_to_x _ U W1). exact Hl.
  Qed.

  (* what is left after a failure: consistent shapes, solver x inside the limits
     and - for unit weights - the containers inside the limits too *)
  Definition semi (s : state) : Prop := wfx s /\ (unit_laws -> lims_ok E lims (knobs s)).
  Lemma good_semi s : good_k s -> semi s.
  Proof. intros [W Hl]. split; auto. Qed.

  (* "except Exception: self.set_knobs_from_x(self.solver.x)": after a raising
     solver step the containers hold the last accepted point *)
  Lemma restore_semi s0 s1 x0 : good_k s0 -> sx s0 = Some x0 -> innerx E s0 s1 -> semi (restore_x E cf s1).
  Proof.
    intros [Wx Hl] Hx0 Hi. pose proof (innerx_wfx _ _ Wx Hi) as [(W1 & W2 & W3) Sx1].
    destruct Hi as ((V & _ & _ & Hk) & X & M).
    destruct (restore_x_facts E cf s1) as (Rv & Rt & Rl & Rx & Rm & Rk).
    pose proof (kn_inact_length _ _ _ _ Rk) as Lr.
    split.
    - split; [|intros U x Hx; rewrite Rx in Hx; eauto].
      split; [congruence|]. split; [congruence|]. intros x Hx. rewrite Rx in Hx. rewrite Rm. auto.
    - intros U. assert (Hs : sx s1 = Some x0) by congruence. unfold restore_x. rewrite Hs.
      set (xs := x0) in *.
      destruct (W3 _ Hs) as [Lx _]. unfold set_knobs_from_x; stsimpl. rewrite (unit_x_to_knobs xs U Lx).
        destruct (write_knobs E false (va s1) lims xs (knobs s1)) as [k' e] eqn:Hw. cbn [fst].
        eapply wk_cover; [exact Hw| | | | |].
        * congruence.
        * unfold wfc in Hwfc. congruence.
        * congruence.
        * exact (Sx1 U _ Hs).
        * rewrite V. eapply kn_inact_lims; [exact Hk|]. apply lims_ok_weak; auto.
  Qed.

  (* ---- the loop of Optimize.step --------------------------------------------------------- *)
  Lemma step_loop_good fuel b : forall nn i s, good_k s ->
    post (step_loop E cf fuel nn i b s)
      (fun s' => good_k s' /\ ext_ok s s') (fun e s' => semi s' /\ ext_ok s s').
  Proof.
    induction nn as [|nn IH]; intros i s Hg; cbn [step_loop].
    - cbn. split; auto. apply ext_ok_refl.
    - set (x := knobs_to_x E cf (knobs s)).
      set (s0 := match sx s with
                 | Some x' => if allclose_masked E (va s) x x' then s else set_sx s (Some x) (map (fun _ => true) x)
                 | None => set_sx s (Some x) (map (fun _ => true) x) end).
      assert (H0 : good_k s0 /\ log s0 = log s).
      { pose proof (reset_good s Hg) as Hreset. fold x in Hreset.
        unfold s0. destruct (sx s); [destruct (allclose_masked E (va s) x l)|]; stsimpl; auto. }
      destruct H0 as [G0 L0].
      assert (Hs0 : exists x0, sx s0 = Some x0).
      { unfold s0. destruct (sx s) eqn:Hs; [destruct (allclose_masked E (va s) x l)|]; stsimpl; eauto. }
      destruct Hs0 as [x00 Hs0].
      pose proof (jac_step_spec E cf fuel (this_broyden b i) s0) as Pj.
      destruct (jac_step E cf fuel (this_broyden b i) s0) as [s1|e s1|]; [|clear IH|exact I].
      2:{ cbn in Pj |- *. split; [eapply restore_semi; eauto|].
          destruct Pj as ((_ & _ & L & _) & _). destruct (restore_x_facts E cf s1) as (_ & _ & Rl & _).
          exists []. rewrite app_nil_r. split; auto. congruence. }
      cbn in Pj. destruct Pj as (I1 & S1).
      pose proof (stepped_good s0 s1 G0 I1 S1) as G1.
      destruct S1 as (x' & y & kp & X1 & _ & _ & S4 & S5 & _). unfold log_step, restore_x. rewrite X1.
      assert (Hk2 : knobs (set_knobs_from_x E cf x' s1) = knobs s1).
      { unfold set_knobs_from_x; stsimpl. destruct I1 as (V & _). rewrite V. eapply wk_idem; eauto. }
      set (s2 := set_knobs_from_x E cf x' s1) in *.
      assert (G2 : good_k s2 /\ log s2 = log s1).
      { destruct G1 as [((W1 & W2 & W3) & Sx) Hl]. split; [|unfold s2, set_knobs_from_x; stsimpl; auto].
        split; [|rewrite Hk2; auto]. split; [|exact Sx]. split; [rewrite Hk2; auto|].
        unfold s2, set_knobs_from_x; stsimpl. split; auto. }
      destruct G2 as [G2 L2].
      match goal with |- post (if lpwt ?t then _ else _) _ _ => set (s3 := t) end.
      assert (G3 : good_k s3).
      { destruct G2 as [((W1 & W2 & W3) & Sx) Hl]. unfold s3; split; stsimpl; auto. split; [split; auto|exact Sx]. }
      assert (X3 : ext_ok s s3).
      { eexists. unfold s3; stsimpl. split; [rewrite L2; destruct I1 as (_ & _ & L & _); rewrite L, L0; reflexivity|].
        constructor; auto. destruct G2 as [((W1 & W2 & W3) & Sx) Hl]. unfold row_ok; cbn. auto. }
      destruct (lpwt s3).
      + cbn. auto.
      + eapply post_weaken; [apply (IH (S i) s3 G3)| |].
        * intros s' [A B]. split; auto. eapply ext_ok_trans; eauto.
        * intros e s' [A B]. split; auto. eapply ext_ok_trans; eauto.
  Qed.

  Lemma row_ok_retag r : row_ok r -> row_ok (retag E r).
  Proof. auto. Qed.

  (* ---- Optimize.step ---------------------------------------------------------------------- *)
  Lemma step_core_good fuel nn tb b s : good_k s -> Forall row_ok (log s) ->
    post (step_core E cf fuel nn tb b s)
      (fun s' => good_k s' /\ ext_ok s s') (fun e s' => semi s' /\ ext_ok s s').
  Proof.
    intros Hg Hr. unfold step_core.
    eapply post_bind'; [apply (add_point_good 0%N s Hg)| |].
    { intros e s' [A L]. split; [apply good_semi; auto|]. exists []. rewrite app_nil_r; auto. }
    intros s1 (G1 & (r0 & L1 & R0)).
    assert (X1 : ext_ok s s1) by (exists [r0]; auto).
    eapply post_bind'; [apply (step_loop_good fuel b nn 0 s1 G1)| |].
    { intros e s' [A B]. split; auto. eapply ext_ok_trans; eauto. }
    intros s2 (G2 & X2).
    pose proof (ext_ok_trans _ _ _ X1 X2) as X02.
    destruct (tb && negb (lpwt s2)); [|cbn; auto].
    match goal with |- post (if ?c then _ else _) _ _ => destruct c end; [cbn; auto|].
    eapply post_bind'; [apply reload_good; [exact (proj1 G2)|eapply ext_ok_rows; eauto]| |].
    - intros e s' [[_ ->]|[A L]].
      + split; [apply good_semi; exact G2|auto].
      + split; [apply good_semi; auto|]. destruct X02 as (m & Lm & Fm). exists m. split; auto. congruence.
    - intros s3 (G3 & (r' & L3 & R3)). cbn. rewrite L3, set_last_app.
      split.
      + destruct G3 as [((W1 & W2 & W3) & Sx) Hl]. split; stsimpl; auto. split; [split; auto|exact Sx].
      + stsimpl. eapply ext_ok_trans; [exact X02|]. exists [retag E r']. split; auto.
  Qed.

  Lemma set_entry_length attr st e fl : length (set_entry E attr st e fl) = length fl.
  Proof. destruct e; cbn; [apply set_nth_length|apply map2_keep_length]. Qed.
  Lemma set_flags_length attr st o fl : length (set_flags E attr st o fl) = length fl.
  Proof.
    destruct o as [[| |l]|]; cbn; auto; try apply map_length.
    revert fl; induction l as [|e l IH]; intros fl; cbn; auto. rewrite IH. apply set_entry_length.
  Qed.

  Lemma able_wfx st t v vn s : wfx s -> wfx (able E cf st t v vn s).
  Proof.
    intros ((W1 & W2 & W3) & Sx). destruct (able_data E cf st t v vn s) as (K & _ & X & M & _).
    split.
    - split; [congruence|]. split.
      + rewrite able_va, !set_flags_length. auto.
      + intros x Hx. rewrite X in Hx. rewrite M. auto.
    - intros Hc x Hx. rewrite X in Hx. eauto.
  Qed.
  Lemma able_good st t v vn s : good_k s -> good_k (able E cf st t v vn s).
  Proof.
    intros [W Hl]. destruct (able_data E cf st t v vn s) as (K & _).
    split; [apply able_wfx; auto|rewrite K; auto].
  Qed.
  Lemma pre_flags_good a s : good_k s -> good_k (pre_flags E cf a s).
  Proof. intros H. unfold pre_flags. repeat apply able_good. exact H. Qed.
  Lemma post_flags_good a s : good_k s -> good_k (post_flags E cf a s).
  Proof. intros H. unfold post_flags. repeat apply able_good. exact H. Qed.

  Lemma pre_clip_good s : good_k s -> good_k (pre_clip E cf s) /\ log (pre_clip E cf s) = log s.
  Proof.
    intros [((W1 & W2 & W3) & Sx) Hl]. destruct (pre_clip_facts E cf s) as (V & T & L & X & M & _).
    pose proof (pre_clip_knobs s Hl) as K. split; [|exact L].
    split; [|rewrite K; exact Hl]. split.
    - split; [congruence|]. split; [congruence|]. intros x Hx. rewrite X in Hx. rewrite M. auto.
    - intros Hc x Hx. rewrite X in Hx. eauto.
  Qed.

  Lemma opt_step_good fuel nn tb a b s : good_k s -> Forall row_ok (log s) ->
    post (opt_step E cf fuel nn tb a b s)
      (fun s' => good_k s' /\ ext_ok s s') (fun e s' => semi s' /\ ext_ok s s').
  Proof.
    intros Hg Hr. unfold opt_step. destruct (pre_clip_good s Hg) as [Hgc Lc].
    destruct (pre_flags_data E cf a (pre_clip E cf s)) as (_ & Lp & _). rewrite Lc in Lp.
    assert (Xp : forall s', ext_ok (pre_flags E cf a (pre_clip E cf s)) s' -> ext_ok s s').
    { unfold ext_ok. rewrite Lp. auto. }
    eapply post_bind'; [apply step_core_good; [apply pre_flags_good; auto|rewrite Lp; auto]| |].
    - intros e s' [A B]. auto.
    - intros s1 [A B]. unfold post. split; [apply post_flags_good; auto|].
      destruct (post_flags_data E cf a s1) as (_ & Lq & _). apply Xp in B. unfold ext_ok in *. rewrite Lq. exact B.
  Qed.

  (* ---- solve ----------------------------------------------------------------------------- *)
  Lemma semi_good_k s : unit_laws -> semi s -> good_k s.
  Proof. intros U [W H]. split; auto. Qed.

  Lemma solve_good fuel nn tb b s : good s ->
    post (solve E cf fuel nn tb b s)
      (fun s' => good s')
      (fun e s' => Forall row_ok (log s') /\ log s' <> [] /\ (c_restore cf = true \/ unit_laws -> good s')).
  Proof.
    intros (Hg & Hr & Hne). unfold solve.
    set (k := match nn with Some k => k | None => c_nmax cf end).
    set (x := knobs_to_x E cf (knobs s)).
    set (s0 := set_sx s (Some x) (map (fun _ => true) x)).
    assert (G0 : good_k s0 /\ log s0 = log s).
    { split; [|reflexivity]. exact (reset_good s Hg). }
    destruct G0 as [G0 L0].
    set (body := bind (opt_step E cf fuel k tb no_args b s0)
                      (fun s1 => if c_assert cf && negb (lpwt s1) then Err ERuntime s1 else Ok s1)).
    assert (Hbody : post body (fun s' => good_k s' /\ ext_ok s s') (fun e s' => semi s' /\ ext_ok s s')).
    { unfold body. eapply post_bind'; [apply opt_step_good; [exact G0|rewrite L0; exact Hr]| |].
      - intros e s' [A B]. split; [exact A|exact B].
      - intros s1 [A B].
        destruct (c_assert cf && negb (lpwt s1)); cbn; [split; [apply good_semi; exact A|exact B]|split; [exact A|exact B]]. }
    destruct body as [s1|e s1|]; cbn in Hbody; cbn; auto.
    - destruct Hbody as [A B]. split; auto. split; [eapply ext_ok_rows; eauto|eapply ext_ok_nonempty; eauto].
    - destruct Hbody as [A B].
      pose proof (ext_ok_rows _ _ B Hr) as R1. pose proof (ext_ok_nonempty _ _ B Hne) as N1.
      destruct (c_restore cf).
      + pose proof (reload_good 0 s1 (proj1 A) R1) as Hrl.
        destruct (reload E cf 0 s1) as [s2|e' s2|]; cbn in Hrl; cbn; auto.
        * destruct Hrl as (G2 & (r & L & Ro)).
          assert (R2 : Forall row_ok (log s2)) by (rewrite L; apply Forall_app; auto).
          assert (N2 : log s2 <> []) by (rewrite L; destruct (log s1); [congruence|discriminate]).
          split; auto. split; auto. intros _. split; auto.
        * destruct Hrl as [[Hn ->]|[G2 L]].
          -- destruct (log s1); [congruence|discriminate].
          -- rewrite L. split; auto. split; auto. intros _. split; auto. rewrite L; auto.
      + split; auto. split; auto. intros [Hf|U]; [discriminate|]. split; [apply semi_good_k; auto|auto].
  Qed.

  (* ---- every operation ---------------------------------------------------------------------- *)
  (* operations whose failure leaves the containers on a checked point: a
     failing bare step() may leave a finite-difference perturbation behind *)
  Definition restoring (o : op) : Prop :=
    match o with
    | OStep _ _ _ _ => False
    | OSolve _ _ _ => c_restore cf = true
    | OClear => False
    | _ => True
    end.
  (* a failing clear_log() leaves an empty log (no row 0) *)
  Definition keeps_log (o : op) : Prop := match o with OClear => False | _ => True end.

  Lemma run_op_good fuel o s : good s ->
    post (run_op E cf fuel o s)
      (fun s' => good s')
      (fun e s' => Forall row_ok (log s') /\ (restoring o \/ (unit_laws /\ keeps_log o) -> good s')).
  Proof.
    intros (Hg & Hr & Hne).
    assert (Hrel : forall i, post (reload E cf i s) (fun s' => good s')
                               (fun e s' => Forall row_ok (log s') /\ (True \/ (unit_laws /\ True) -> good s'))).
    { intros i. eapply post_weaken; [apply (reload_good i s (proj1 Hg) Hr)| |].
      - intros s' (G & (r & L & Ro)). split; auto. rewrite L. split; [apply Forall_app; auto|].
        destruct (log s); [congruence|discriminate].
      - intros e s' [[_ ->]|[G L]].
        + split; auto. intros _. split; auto.
        + rewrite L. split; auto. intros _. split; auto. rewrite L; auto. }
    destruct o as [nn tb a b|nn tb b|i|t|t| |t v vn|t v vn]; cbn [run_op restoring keeps_log].
    - eapply post_weaken; [apply (opt_step_good fuel nn tb a b s Hg Hr)| |].
      + intros s' [A B]. split; auto. split; [eapply ext_ok_rows; eauto|eapply ext_ok_nonempty; eauto].
      + intros e s' [A B]. split; [eapply ext_ok_rows; eauto|]. intros [[]|[U _]].
        split; [apply semi_good_k; auto|]. split; [eapply ext_ok_rows; eauto|eapply ext_ok_nonempty; eauto].
    - eapply post_weaken; [apply (solve_good fuel nn tb b s)| |].
      + split; auto.
      + auto.
      + intros e s' (A & B & C). split; auto. intros [Hc|[U _]]; auto.
    - apply Hrel.
    - unfold reload_tag. destruct (last_with_tag E t 0 (log s) None); [apply Hrel|].
      cbn. split; auto. intros _. split; auto.
    - eapply post_weaken; [apply (add_point_good t s Hg)| |].
      + intros s' (G & (r & L & Ro)). split; auto. rewrite L. split; [apply Forall_app; auto|].
        destruct (log s); [congruence|discriminate].
      + intros e s' [G L]. rewrite L. split; auto. intros _. split; auto. rewrite L; auto.
    - unfold clear_log. eapply post_weaken; [apply (add_point_good 0%N (set_log s []))| |].
      + destruct Hg as [((W1 & W2 & W3) & Sx) Hl]. split; stsimpl; auto. split; [split; auto|exact Sx].
      + intros s' (G & (r & L & Ro)). stsimpl. split; auto. rewrite L. cbn. split; auto. discriminate.
      + intros e s' [G L]. stsimpl. rewrite L. split; auto. tauto.
    - cbn. split; [apply able_good; auto|]. destruct (able_data E cf true t v vn s) as (_ & L & _). rewrite L. auto.
    - cbn. split; [apply able_good; auto|]. destruct (able_data E cf false t v vn s) as (_ & L & _). rewrite L. auto.
  Qed.

  (* the constructor *)
  Lemma init_good k0 va0 s0 :
    init E cf k0 va0 = Ok s0 -> length k0 = n -> length va0 = n -> lims_ok E lims k0 -> good s0.
  Proof.
    intros Hi Lk Lv Hl. unfold init in Hi. destruct (e_f E k0); [|discriminate].
    assert (G : good_k (pre_init E cf k0 va0)).
    { split; [|exact Hl]. split; [|intros Hc x Hx; discriminate].
      split; [exact Lk|]. split; [exact Lv|]. intros x Hx. discriminate. }
    pose proof (add_point_good 0%N _ G) as P.
    assert (Hd : c_check cf = true \/ c_check cf = false) by (destruct (c_check cf); auto).
    destruct Hd as [Hd|Hd]; rewrite Hd in Hi.
    - rewrite Hi in P. cbn in P.
      destruct P as (G1 & (r & L & Ro)). split; auto. rewrite L. cbn. split; auto. discriminate.
    - destruct (add_point E cf 0%N (pre_init E cf k0 va0)) as [s1|e1 s1|]; cbn in Hi; try discriminate.
      cbn in P. destruct P as (G1 & (r & L & Ro)).
      assert (G1c : good_k (set_knobs s1 (clip_knobs E (va s1) lims (knobs s1)))).
      { destruct G1 as [((W1 & W2 & W3) & Sx) Hl1]. rewrite (clip_id _ _ _ Hl1). split; stsimpl; auto. split; [split; auto|exact Sx]. }
      pose proof (add_point_good 0%N _ G1c) as P2. rewrite Hi in P2. cbn in P2.
      destruct P2 as (G2 & (r2 & L2 & Ro2)). split; auto. rewrite L2. stsimpl. rewrite L. cbn. split; auto. discriminate.
  Qed.

  (* sequences of operations in which every failing one is a restoring one *)
  Inductive reach_r (s0 : state) : state -> Prop :=
  | rr_refl : reach_r s0 s0
  | rr_ok s1 fuel o s2 : reach_r s0 s1 -> run_op E cf fuel o s1 = Ok s2 -> reach_r s0 s2
  | rr_err s1 fuel o e s2 : reach_r s0 s1 -> run_op E cf fuel o s1 = Err e s2 ->
                            restoring o \/ (unit_laws /\ keeps_log o) -> reach_r s0 s2.

  Lemma reach_good s0 s : good s0 -> reach_r s0 s -> good s.
  Proof.
    intros H0 Hr. induction Hr as [|s1 fuel o s2 Hr IH Ho|s1 fuel o e s2 Hr IH Ho Hres]; auto.
    - pose proof (run_op_good fuel o s1 IH) as P. rewrite Ho in P. exact P.
    - pose proof (run_op_good fuel o s1 IH) as P. rewrite Ho in P. cbn in P. tauto.
  Qed.

  (* what "good" says about limits, spelled out *)
  (* v is inside the closed limits on every side that is given (None = open side) *)
  Definition inside (lo hi : option F) (v : F) : Prop :=
    (forall a, lo = Some a -> e_ltb E v a = false) /\ (forall b, hi = Some b -> e_ltb E b v = false).

  Lemma good_meaning s : good s ->
    forall i lo hi v, nth_error lims i = Some (Some (lo, hi)) ->
      (nth_error (knobs s) i = Some v -> inside lo hi v) /\
      (forall r, In r (log s) -> nth_error (r_knobs r) i = Some v -> inside lo hi v).
  Proof.
    intros ([_ Hl] & Hr & _) i lo hi v Hi. split.
    - intros Hv. apply inlim_spec. eapply lims_ok_nth; eauto.
    - intros r Hin Hv. apply inlim_spec.
      pose proof (proj1 (Forall_forall _ _) Hr r Hin) as (Hk & _). eapply lims_ok_nth; eauto.
  Qed.
End Limits.
