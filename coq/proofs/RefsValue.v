(* C04: the value of what the overloads build = Python applied directly to the
   operand values (NaN for / // % by zero).  Generic in the table: only
   [tables_ok T = true] is used. *)
From Coq Require Import List ZArith NArith Bool Lia.
From XD Require Import model.RefSyntax model.RefTables model.Refs model.RefsOk proofs.RefsBase.
Import ListNotations.

Section Hom.
  Variables V E : Type.
  Variable of_lit : lit -> V.
  Variable pyop : binop -> V -> V -> res V E.
  Variable pyun : unop -> V -> res V E.
  Variable pybuiltin : bfun -> list V -> res V E.
  Variable pycall : V -> list V -> list (pystr * V) -> res V E.
  Variable getitem getattr : V -> V -> res V E.
  Variable nan : V.
  Variable is_zde : E -> bool.
  Variable broken : E.
  Variable T : tables.
  Hypothesis HT : tables_ok T = true.

  Notation value := (value V E of_lit pyop pyun pybuiltin pycall getitem getattr nan is_zde broken T).
  Notation pyeval := (pyeval V E of_lit pyop pyun pybuiltin pycall getitem getattr nan is_zde).
  Notation nan_guard := (nan_guard V E nan is_zde).
  Notation nanify := (nanify V E nan is_zde).

  (* ---- the pieces of tables_ok ---------------------------------------------- *)
  Lemma ok_specials : specials_ok T = true.
  Proof.
    pose proof HT as HT'. unfold tables_ok in HT'. do 6 (apply andb_prop in HT' as [HT' ?]).
    match goal with H : specials_ok T = true |- _ => exact H end.
  Qed.
  Lemma ok_special_names : special_names_ok T = true.
  Proof. pose proof HT as HT'. unfold tables_ok in HT'. do 6 (apply andb_prop in HT' as [HT' ?]). exact HT'. Qed.
  Lemma ok_binop op : binop_ok T op = true.
  Proof.
    pose proof HT as HT'. unfold tables_ok in HT'. do 6 (apply andb_prop in HT' as [HT' ?]).
    match goal with H : forallb (binop_ok T) _ = true |- _ => rewrite forallb_forall in H; apply H end.
    apply all_binops_complete.
  Qed.
  Lemma ok_unop op : unop_ok T op = true.
  Proof.
    pose proof HT as HT'. unfold tables_ok in HT'. do 6 (apply andb_prop in HT' as [HT' ?]).
    match goal with H : forallb (unop_ok T) _ = true |- _ => rewrite forallb_forall in H; apply H end.
    apply all_unops_complete.
  Qed.
  Lemma ok_builtin f : builtin_ok T f = true.
  Proof.
    pose proof HT as HT'. unfold tables_ok in HT'. do 6 (apply andb_prop in HT' as [HT' ?]).
    match goal with H : forallb (builtin_ok T) _ = true |- _ => rewrite forallb_forall in H; apply H end.
    apply all_bfuns_complete.
  Qed.
  Lemma ok_inplace op : In op inplace_ops -> inplace_ok T op = true.
  Proof.
    pose proof HT as HT'. unfold tables_ok in HT'. do 6 (apply andb_prop in HT' as [HT' ?]).
    match goal with H : forallb (inplace_ok T) _ = true |- _ => rewrite forallb_forall in H; apply H end.
  Qed.
  Lemma ok_access ci : In ci (t_classes T) -> access_ok T ci = true.
  Proof.
    pose proof HT as HT'. unfold tables_ok in HT'. do 6 (apply andb_prop in HT' as [HT' ?]).
    match goal with H : forallb (access_ok T) _ = true |- _ => rewrite forallb_forall in H; apply H end.
  Qed.

  (* ---- binary classes ----------------------------------------------------------- *)
  Definition bin_class_spec (cls : N) (op : binop) : Prop :=
    kind_is T cls KBinOp = true /\
    exists s, class_bin T cls = Some s /\ bs_op s = op /\ bs_left s = FLhs /\ bs_right s = FRhs
              /\ bs_guard s = is_div op.

  Lemma bin_class_ok_spec cls op : bin_class_ok T cls op = true -> bin_class_spec cls op.
  Proof.
    unfold bin_class_ok, bin_class_spec. intros H. apply andb_prop in H as [Hk H]. split; auto.
    destruct (class_bin T cls) as [s|]; [|discriminate]. exists s. split; auto.
    do 3 (apply andb_prop in H as [H ?]).
    repeat split; auto using binop_beq_eq, field_beq_eq, eqb_prop.
  Qed.

  Lemma value_bin cls op l r en : bin_class_spec cls op ->
    value (TBin cls l r) en =
    rbind (value l en) (fun vl => rbind (value r en) (fun vr => nan_guard op (pyop op vl vr))).
  Proof.
    intros (_ & s & Hs & Hop & Hl & Hr & Hg). cbn [Refs.value]. rewrite Hs, Hl, Hr, Hg, Hop.
    unfold Refs.nan_guard. destruct (value l en); cbn; auto.
  Qed.

  Lemma fwd_spec op : is_eqne op = false ->
    exists c, dunder_bin T op DFwd = Some c /\ cc_args c = [ASelf; AOther] /\ bin_class_spec (cc_cls c) op.
  Proof.
    intros He. pose proof (ok_binop op) as H. unfold binop_ok in H. rewrite He in H.
    destruct (dunder_bin T op DFwd) as [c|]; [|discriminate]. exists c. split; auto.
    apply andb_prop in H as [H _]. apply andb_prop in H as [Ha Hc]. split.
    - unfold args_are in Ha. now apply (list_eqb_eq _ argsel_beq_eq) in Ha.
    - now apply bin_class_ok_spec.
  Qed.

  Lemma meth_spec op : is_eqne op = true ->
    exists c, dunder_bin T op DMeth = Some c /\ cc_args c = [ASelf; AOther] /\ bin_class_spec (cc_cls c) op.
  Proof.
    intros He. pose proof (ok_binop op) as H. unfold binop_ok in H. rewrite He in H.
    destruct (dunder_bin T op DMeth) as [c|]; [|discriminate]. exists c. split; auto.
    apply andb_prop in H as [Ha Hc]. split.
    - unfold args_are in Ha. now apply (list_eqb_eq _ argsel_beq_eq) in Ha.
    - now apply bin_class_ok_spec.
  Qed.

  Lemma refl_spec op : is_eqne op = false -> is_cmp op = false ->
    exists c, dunder_bin T op DRefl = Some c /\ cc_args c = [AOther; ASelf] /\ bin_class_spec (cc_cls c) op.
  Proof.
    intros He Hc. pose proof (ok_binop op) as H. unfold binop_ok in H. rewrite He, Hc in H.
    destruct (dunder_bin T op DFwd) as [c|]; [|discriminate].
    apply andb_prop in H as [H Hr]. apply andb_prop in H as [_ Hcls]. cbn in Hr.
    destruct (dunder_bin T op DRefl) as [c'|]; [|discriminate]. exists c'. split; auto.
    apply andb_prop in Hr as [Hid Ha]. apply N.eqb_eq in Hid. split.
    - unfold args_are in Ha. now apply (list_eqb_eq _ argsel_beq_eq) in Ha.
    - rewrite Hid. now apply bin_class_ok_spec.
  Qed.

  Lemma ctor_bin_spec c op self other : cc_args c = [ASelf; AOther] -> bin_class_spec (cc_cls c) op ->
    ctor_bin T c self other = Some (TBin (cc_cls c) self other).
  Proof. intros Ha (Hk & _). unfold ctor_bin. now rewrite Ha, Hk. Qed.
  Lemma ctor_bin_spec_r c op self other : cc_args c = [AOther; ASelf] -> bin_class_spec (cc_cls c) op ->
    ctor_bin T c self other = Some (TBin (cc_cls c) other self).
  Proof. intros Ha (Hk & _). unfold ctor_bin. now rewrite Ha, Hk. Qed.

  (* what  l op r  builds *)
  Lemma apply_bin_spec op l r :
    (is_ref l = true ->
     exists cls, apply_bin T op l r = Some (TBin cls l r) /\ bin_class_spec cls op) /\
    (is_ref l = false -> is_ref r = true -> is_eqne op = false ->
     (is_cmp op = true ->
      exists cls, apply_bin T op l r = Some (TBin cls r l) /\ bin_class_spec cls (mirror op)) /\
     (is_cmp op = false ->
      exists cls, apply_bin T op l r = Some (TBin cls l r) /\ bin_class_spec cls op)).
  Proof.
    unfold apply_bin. split.
    - intros Hl. rewrite Hl. destruct (is_eqne op) eqn:He.
      + destruct (meth_spec op He) as (c & Hd & Ha & Hc). rewrite Hd. cbn.
        exists (cc_cls c). split; auto. eapply ctor_bin_spec; eauto.
      + destruct (fwd_spec op He) as (c & Hd & Ha & Hc). rewrite Hd. cbn.
        exists (cc_cls c). split; auto. eapply ctor_bin_spec; eauto.
    - intros Hl Hr He. rewrite Hl, Hr, He. split; intros Hc; rewrite Hc.
      + assert (is_eqne (mirror op) = false) as He' by (destruct op; auto; discriminate).
        destruct (fwd_spec (mirror op) He') as (c & Hd & Ha & Hcl). rewrite Hd. cbn.
        exists (cc_cls c). split; auto. eapply ctor_bin_spec; eauto.
      + destruct (refl_spec op He Hc) as (c & Hd & Ha & Hcl). rewrite Hd. cbn.
        exists (cc_cls c). split; auto. eapply ctor_bin_spec_r; eauto.
  Qed.

  Lemma apply_bin_shape op l r t : apply_bin T op l r = Some t -> exists c a b, t = TBin c a b.
  Proof.
    unfold apply_bin, ctor_bin, obind.
    repeat match goal with
           | |- context [if ?b then _ else _] => destruct b
           | |- context [match ?x with _ => _ end] => destruct x
           end; intros [= <-]; eauto.
  Qed.

  Lemma wf_bin cls op l r : bin_class_spec cls op -> wf T l = true -> wf T r = true -> wf T (TBin cls l r) = true.
  Proof. intros (Hk & _) Hl Hr. cbn [wf]. unfold cls_ok. cbn. now rewrite Hk, Hl, Hr. Qed.

  (* ---- unary ----------------------------------------------------------------------- *)
  Lemma apply_un_spec op a : is_ref a = true ->
    exists cls, apply_un T op a = Some (TUn cls a) /\ kind_is T cls KUnaryOp = true /\
                forall en, value (TUn cls a) en = rbind (value a en) (fun va => pyun op va).
  Proof.
    intros Ha. unfold apply_un. rewrite Ha. pose proof (ok_unop op) as H. unfold unop_ok in H.
    destruct (dunder_un T op) as [c|]; [|discriminate]. cbn.
    apply andb_prop in H as [H Hs]. apply andb_prop in H as [Hargs Hk].
    unfold args_are in Hargs. apply (list_eqb_eq _ argsel_beq_eq) in Hargs.
    exists (cc_cls c). unfold ctor_un. rewrite Hargs, Hk. repeat split; auto.
    intros en. cbn [Refs.value]. destruct (class_un T (cc_cls c)) as [s|]; [|discriminate].
    apply andb_prop in Hs as [Ho Hf]. apply unop_beq_eq in Ho. apply field_beq_eq in Hf.
    now rewrite Hf, Ho.
  Qed.

  Lemma apply_un_shape op a t : apply_un T op a = Some t -> is_ref a = true /\ exists c, t = TUn c a.
  Proof.
    unfold apply_un, ctor_un, obind. destruct (is_ref a); [|discriminate].
    repeat match goal with
           | |- context [if ?b then _ else _] => destruct b
           | |- context [match ?x with _ => _ end] => destruct x
           end; intros [= <-]; eauto.
  Qed.

  (* ---- builtins ---------------------------------------------------------------------- *)
  Lemma special_builtin : exists c, special T KBuiltin = Some c.
  Proof.
    destruct (specials_ok_spec T KBuiltin ok_specials) as (c & Hc & _); [cbn; auto 10|]. eauto.
  Qed.

  Lemma bcall_is_spec c f ps : bcall_is T c f ps = true ->
    builtin_fn T (bc_fn c) = Some f /\ bc_params c = ps.
  Proof.
    unfold bcall_is. intros H. apply andb_prop in H as [Hf Hp].
    destruct (builtin_fn T (bc_fn c)) as [g|]; [|discriminate]. apply bfun_beq_eq in Hf. subst.
    split; auto. now apply (list_eqb_eq _ argsel_beq_eq) in Hp.
  Qed.

  Lemma value_builtin n f a ps en : builtin_fn T n = Some f ->
    value (TBuiltin n a ps) en =
    rbind (value a en) (fun va => rbind (vmap (fun x => value x en) ps) (fun vps => pybuiltin f (va :: vps))).
  Proof. intros Hf. cbn [Refs.value]. rewrite Hf. now rewrite fix_vmap. Qed.

  (* f(a, *ps) for f among abs/round/divmod/trunc/floor/ceil *)
  Lemma apply_builtin_spec f a ps t : apply_builtin T f a ps = Some t ->
    is_ref a = true /\ exists n, t = TBuiltin n a ps /\ builtin_fn T n = Some f.
  Proof.
    unfold apply_builtin. destruct (is_ref a); [|discriminate]. intros H. split; auto.
    pose proof (ok_builtin f) as Hok. unfold builtin_ok in Hok.
    destruct (dunder_builtin T f) as [e|]; [|discriminate]. cbn [obind] in H.
    destruct special_builtin as (cb & Hcb).
    assert (Hmk : forall c o, mk_builtin T c a o = Some (TBuiltin (bc_fn c) a (map (fun s => sel s a o) (bc_params c)))).
    { intros. unfold mk_builtin. now rewrite Hcb. }
    destruct f.
    - (* divmod *)
      repeat (apply andb_prop in Hok as [Hok ?]).
      match goal with H1 : bcall_is _ _ _ _ = true |- _ => apply bcall_is_spec in H1 as [Hfn Hps] end.
      rewrite Hok in H. destruct (be_default e); [discriminate|]. destruct (be_if_none e); [discriminate|].
      destruct ps as [|p [|? ?]]; try discriminate.
      assert (Some (TBuiltin (bc_fn (be_main e)) a [p]) = Some t) as [= <-].
      { rewrite <- H. destruct p as [[]| | | | | | | |]; rewrite Hmk, Hps; reflexivity. }
      eauto.
    - (* round *)
      repeat (apply andb_prop in Hok as [Hok ?]).
      destruct (be_if_none e) as [c0|] eqn:E0; [|discriminate].
      repeat match goal with H1 : bcall_is _ _ _ _ = true |- _ => apply bcall_is_spec in H1 as [? ?] end.
      rewrite Hok in H. destruct (be_default e) as [[]|]; try discriminate.
      destruct ps as [|p [|? ?]]; try discriminate.
      + rewrite Hmk in H. injection H as <-. exists (bc_fn c0). split; auto.
        match goal with Hp : bc_params c0 = [] |- _ => now rewrite Hp end.
      + assert (Some (TBuiltin (bc_fn (be_main e)) a [p]) = Some t) as [= <-].
        { rewrite <- H. destruct p as [[]| | | | | | | |]; try discriminate; rewrite Hmk;
            match goal with Hp : bc_params (be_main e) = _ |- _ => rewrite Hp end; reflexivity. }
        eauto.
    - apply andb_prop in Hok as [Hp Hc]. apply bcall_is_spec in Hc as [Hfn Hps].
      apply negb_true_iff in Hp. rewrite Hp in H.
      destruct ps as [|p [|? ?]]; try discriminate. rewrite Hmk, Hps in H. injection H as <-. eauto.
    - apply andb_prop in Hok as [Hp Hc]. apply bcall_is_spec in Hc as [Hfn Hps].
      apply negb_true_iff in Hp. rewrite Hp in H.
      destruct ps as [|p [|? ?]]; try discriminate. rewrite Hmk, Hps in H. injection H as <-. eauto.
    - apply andb_prop in Hok as [Hp Hc]. apply bcall_is_spec in Hc as [Hfn Hps].
      apply negb_true_iff in Hp. rewrite Hp in H.
      destruct ps as [|p [|? ?]]; try discriminate. rewrite Hmk, Hps in H. injection H as <-. eauto.
    - apply andb_prop in Hok as [Hp Hc]. apply bcall_is_spec in Hc as [Hfn Hps].
      apply negb_true_iff in Hp. rewrite Hp in H.
      destruct ps as [|p [|? ?]]; try discriminate. rewrite Hmk, Hps in H. injection H as <-. eauto.
  Qed.

  (* ---- accessors ------------------------------------------------------------------------ *)
  Lemma node_kind_shape t : is_ref t = true -> node_kind (shape_kind t) = true.
  Proof. destruct t as [| ? [|] | | | | | | |]; cbn; auto; discriminate. Qed.

  Lemma access_spec o : is_ref o = true -> cls_ok T o = true ->
    exists c ci, class_of T o = Some c /\ ci_id ci = c /\ ci_kind ci = shape_kind o /\ access_ok T ci = true.
  Proof.
    intros Hr Hc. destruct (cls_ok_spec T o Hc) as (c & Hcl & Hk).
    destruct (kind_of_info T c _ Hk) as (ci & _ & Hin & Hid & Hkind).
    exists c, ci. repeat split; auto. now apply ok_access.
  Qed.

  Lemma apply_getitem_spec o k : is_ref o = true -> cls_ok T o = true ->
    apply_access T AccGetitem o k = Some (TItem o k).
  Proof.
    intros Hr Hc. destruct (access_spec o Hr Hc) as (c & ci & Hcl & Hid & Hk & Ha).
    unfold access_ok in Ha. rewrite Hk, (node_kind_shape o Hr) in Ha. cbn in Ha.
    apply andb_prop in Ha as [Ha _]. apply andb_prop in Ha as [Ha _].
    unfold apply_access. rewrite Hcl. cbn. rewrite <- Hid.
    destruct (access T (ci_id ci) AccGetitem) as [b|]; [|discriminate]. cbn.
    now rewrite (kind_is_of T b KItem Ha).
  Qed.

  Lemma apply_getattr_spec o k : is_ref o = true -> cls_ok T o = true ->
    apply_access T AccGetattr o k =
    Some (match o with TTop _ true => TItem o k | _ => TAttr o k end).
  Proof.
    intros Hr Hc. destruct (access_spec o Hr Hc) as (c & ci & Hcl & Hid & Hk & Ha).
    unfold access_ok in Ha. rewrite Hk, (node_kind_shape o Hr) in Ha. cbn in Ha.
    apply andb_prop in Ha as [Ha _]. apply andb_prop in Ha as [_ Ha].
    unfold apply_access. rewrite Hcl. cbn. rewrite <- Hid.
    destruct (access T (ci_id ci) AccGetattr) as [b|]; [|discriminate]. cbn.
    rewrite (kind_is_of T b _ Ha).
    destruct o as [| ? [|] | | | | | | |]; cbn; try reflexivity; discriminate.
  Qed.

  Lemma apply_call_spec f args kw : is_ref f = true -> cls_ok T f = true ->
    apply_call T f args kw = Some (TCall f args kw).
  Proof.
    intros Hr Hc. destruct (access_spec f Hr Hc) as (c & ci & Hcl & Hid & Hk & Ha).
    unfold access_ok in Ha. rewrite Hk, (node_kind_shape f Hr) in Ha. cbn in Ha.
    apply andb_prop in Ha as [_ Ha].
    unfold apply_call. rewrite Hcl. cbn. rewrite <- Hid.
    destruct (access T (ci_id ci) AccCall) as [b|]; [|discriminate]. cbn. now rewrite Ha.
  Qed.

  Lemma apply_access_ref a o k t : apply_access T a o k = Some t -> is_ref o = true.
  Proof. unfold apply_access. destruct o; cbn; auto; discriminate. Qed.
  Lemma apply_call_ref f args kw t : apply_call T f args kw = Some t -> is_ref f = true.
  Proof. unfold apply_call. destruct f; cbn; auto; discriminate. Qed.

  (* ---- shapes of what build returns (no table needed) ---------------------------------- *)
  Lemma build_const p v : build T p = Some (TConst v) -> p = PVal v.
  Proof.
    destruct p; cbn [build]; unfold obind.
    - now intros [= ->].
    - discriminate.
    - destruct (build T p1); [|discriminate]. destruct (build T p2); [|discriminate].
      unfold apply_access, obind. repeat match goal with |- context [match ?x with _ => _ end] => destruct x end; discriminate.
    - destruct (refused T name); [discriminate|]. destruct (build T p); [|discriminate].
      unfold apply_access, obind. repeat match goal with |- context [match ?x with _ => _ end] => destruct x end; discriminate.
    - destruct (build T p1); [|discriminate]. destruct (build T p2); [|discriminate].
      intros H. apply apply_bin_shape in H as (? & ? & ? & ?). discriminate.
    - destruct (build T p); [|discriminate]. intros H. apply apply_un_shape in H as (_ & ? & ?). discriminate.
    - destruct (build T p); [|discriminate]. rewrite fix_omap. destruct (omap (build T) ps); [|discriminate].
      intros H. apply apply_builtin_spec in H as (_ & ? & ? & _). discriminate.
    - destruct (build T p); [|discriminate]. rewrite fix_omap. destruct (omap (build T) args); [|discriminate].
      rewrite fix_omap_kw. destruct (omap _ kw); [|discriminate].
      unfold apply_call, obind. repeat match goal with |- context [match ?x with _ => _ end] => destruct x end; discriminate.
  Qed.

  Lemma build_objattr p l : build T p = Some (TTop l true) -> p = PTop l true.
  Proof.
    destruct p; cbn [build]; unfold obind.
    - discriminate.
    - now intros [= -> ->].
    - destruct (build T p1); [|discriminate]. destruct (build T p2); [|discriminate].
      unfold apply_access, obind. repeat match goal with |- context [match ?x with _ => _ end] => destruct x end; discriminate.
    - destruct (refused T name); [discriminate|]. destruct (build T p); [|discriminate].
      unfold apply_access, obind. repeat match goal with |- context [match ?x with _ => _ end] => destruct x end; discriminate.
    - destruct (build T p1); [|discriminate]. destruct (build T p2); [|discriminate].
      intros H. apply apply_bin_shape in H as (? & ? & ? & ?). discriminate.
    - destruct (build T p); [|discriminate]. intros H. apply apply_un_shape in H as (_ & ? & ?). discriminate.
    - destruct (build T p); [|discriminate]. rewrite fix_omap. destruct (omap (build T) ps); [|discriminate].
      intros H. apply apply_builtin_spec in H as (_ & ? & ? & _). discriminate.
    - destruct (build T p); [|discriminate]. rewrite fix_omap. destruct (omap (build T) args); [|discriminate].
      rewrite fix_omap_kw. destruct (omap _ kw); [|discriminate].
      unfold apply_call, obind. repeat match goal with |- context [match ?x with _ => _ end] => destruct x end; discriminate.
  Qed.

  (* ---- lists of operands ------------------------------------------------------------------- *)
  Definition hom_at (en : env V) (p : pexp) : Prop :=
    forall t, build T p = Some t -> wf T t = true /\ value t en = pyeval p en.

  Lemma hom_list en ps ts : Forall (hom_at en) ps -> omap (build T) ps = Some ts ->
    forallb (wf T) ts = true /\ vmap (fun t => value t en) ts = vmap (fun p => pyeval p en) ps.
  Proof.
    intros HF. revert ts. induction HF as [|p ps Hp _ IH]; intros ts H.
    - injection H as <-. split; reflexivity.
    - apply omap_cons_inv in H as (t & ts' & Ht & Hts & ->).
      destruct (Hp _ Ht) as [Hw Hv]. destruct (IH _ Hts) as [Hws Hvs].
      split; cbn; [now rewrite Hw, Hws|]. now rewrite Hv, Hvs.
  Qed.

  Lemma hom_kw en (kw : list (pystr * pexp)) ts : Forall (fun p => hom_at en (snd p)) kw ->
    omap (kwlift (build T)) kw = Some ts ->
    forallb (fun p => wf T (snd p)) ts = true /\
    vmap (vkw (fun t => value t en)) ts = vmap (vkw (fun p => pyeval p en)) kw.
  Proof.
    intros HF. revert ts. induction HF as [|p ps Hp _ IH]; intros ts H.
    - injection H as <-. split; reflexivity.
    - apply omap_cons_inv in H as (t & ts' & Ht & Hts & ->).
      unfold kwlift in Ht. destruct (build T (snd p)) as [y|] eqn:Ey; [|discriminate]. injection Ht as <-.
      destruct (Hp _ Ey) as [Hw Hv]. destruct (IH _ Hts) as [Hws Hvs].
      split; cbn; [now rewrite Hw, Hws|]. unfold vkw at 1 3. cbn. now rewrite Hv, Hvs.
  Qed.

  (* ---- the homomorphism ----------------------------------------------------------------------- *)
  (* Python's own law for the ordering comparisons: a < b is b > a, a <= b is
     b >= a (used only when a literal stands to the LEFT of a comparison: Python
     itself then calls the reference's mirrored method) *)
  Hypothesis py_mirror : forall op a b, is_cmp op = true -> pyop op a b = pyop (mirror op) b a.

  Theorem build_hom : forall p en, hom_at en p.
  Proof.
    intros p en. induction p using pexp_ind'; intros t Hb; cbn [build] in Hb; unfold obind in Hb.
    - injection Hb as <-. split; reflexivity.
    - injection Hb as <-. split; [|reflexivity]. cbn [wf]. apply specials_cls_ok; [apply ok_specials|].
      destruct o; cbn; auto.
    - (* item *)
      destruct (build T p1) as [o'|] eqn:E1; [|discriminate]. destruct (build T p2) as [k'|] eqn:E2; [|discriminate].
      destruct (IHp1 _ E1) as [Hwo Hvo]. destruct (IHp2 _ E2) as [Hwk Hvk].
      pose proof (apply_access_ref _ _ _ _ Hb) as Hr.
      rewrite (apply_getitem_spec o' k' Hr (wf_cls_ok T _ Hwo Hr)) in Hb. injection Hb as <-. split.
      + cbn [wf]. rewrite Hr, Hwo, Hwk. rewrite specials_cls_ok; auto using ok_specials. cbn; auto 10.
      + cbn [Refs.value Refs.pyeval]. now rewrite Hvo, Hvk.
    - (* attribute *)
      destruct (refused T n) eqn:Eref; [discriminate|].
      destruct (build T p) as [o'|] eqn:E1; [|discriminate].
      destruct (IHp _ E1) as [Hwo Hvo].
      pose proof (apply_access_ref _ _ _ _ Hb) as Hr.
      rewrite (apply_getattr_spec o' _ Hr (wf_cls_ok T _ Hwo Hr)) in Hb. injection Hb as <-.
      assert (Hcase : (exists l, o' = TTop l true /\ p = PTop l true) \/
                      ((forall l, o' <> TTop l true) /\ (forall l, p <> PTop l true))).
      { destruct o' as [| l [|] | | | | | | |]; try (right; split; [intros ? ?; discriminate|]).
        2: left; exists l; split; auto; now apply build_objattr.
        all: intros l' ->; cbn in E1; discriminate. }
      destruct Hcase as [(l & -> & ->)|[Hn1 Hn2]].
      + split.
        * cbn [wf is_ref]. rewrite !specials_cls_ok; auto using ok_specials; cbn; auto 10.
        * cbn. reflexivity.
      + assert (match o' with TTop _ true => TItem o' (TConst (LStr n)) | _ => TAttr o' (TConst (LStr n)) end
                = TAttr o' (TConst (LStr n))) as ->.
        { destruct o' as [| l [|] | | | | | | |]; auto. exfalso; eapply Hn1; eauto. }
        split.
        * cbn [wf]. rewrite Hr, Hwo. rewrite specials_cls_ok; auto using ok_specials. cbn; auto 10.
        * cbn [Refs.value Refs.pyeval]. rewrite Hvo. destruct (pyeval p en); cbn; auto.
          destruct p as [| l [|] | | | | | |]; auto. exfalso; eapply Hn2; eauto.
    - (* binary *)
      destruct (build T p1) as [l'|] eqn:E1; [|discriminate]. destruct (build T p2) as [r'|] eqn:E2; [|discriminate].
      destruct (IHp1 _ E1) as [Hwl Hvl]. destruct (IHp2 _ E2) as [Hwr Hvr].
      destruct (apply_bin_spec op l' r') as [Hfwd Hrefl].
      destruct (is_ref l') eqn:Hl.
      + destruct (Hfwd eq_refl) as (cls & Hab & Hcls). rewrite Hab in Hb. injection Hb as <-. split.
        * now apply (wf_bin cls op).
        * rewrite (value_bin cls op); auto. cbn [Refs.pyeval]. now rewrite Hvl, Hvr.
      + assert (exists v, l' = TConst v) as [v ->] by (destruct l'; try discriminate; eauto).
        apply build_const in E1. subst p1.
        destruct (is_ref r') eqn:Hr; [|unfold apply_bin in Hb; cbn in Hb; rewrite Hr in Hb; discriminate].
        destruct (is_eqne op) eqn:He; [unfold apply_bin in Hb; cbn in Hb; rewrite Hr, He in Hb; discriminate|].
        destruct (Hrefl eq_refl eq_refl eq_refl) as [Hcmp Hncmp].
        destruct (is_cmp op) eqn:Hc.
        * destruct (Hcmp eq_refl) as (cls & Hab & Hcls). rewrite Hab in Hb. injection Hb as <-. split.
          -- now apply (wf_bin cls (mirror op)).
          -- rewrite (value_bin cls (mirror op)); auto. cbn [Refs.pyeval Refs.value rbind]. rewrite Hvr.
             destruct (pyeval p2 en); cbn; auto.
             rewrite (py_mirror op _ _ Hc).
             unfold Refs.nan_guard. destruct op; try discriminate; reflexivity.
        * destruct (Hncmp eq_refl) as (cls & Hab & Hcls). rewrite Hab in Hb. injection Hb as <-. split.
          -- now apply (wf_bin cls op).
          -- rewrite (value_bin cls op); auto. cbn [Refs.pyeval]. now rewrite Hvr.
    - (* unary *)
      destruct (build T p) as [a'|] eqn:E1; [|discriminate]. destruct (IHp _ E1) as [Hwa Hva].
      destruct (apply_un_shape _ _ _ Hb) as [Hr _].
      destruct (apply_un_spec op a' Hr) as (cls & Hau & Hk & Hval). rewrite Hau in Hb. injection Hb as <-. split.
      + cbn [wf]. unfold cls_ok. cbn. now rewrite Hk, Hr, Hwa.
      + rewrite Hval. cbn [Refs.pyeval]. now rewrite Hva.
    - (* builtin *)
      destruct (build T p) as [a'|] eqn:E1; [|discriminate]. destruct (IHp _ E1) as [Hwa Hva].
      rewrite fix_omap in Hb. destruct (omap (build T) ps) as [ps'|] eqn:E2; [|discriminate].
      destruct (hom_list en ps ps' H E2) as [Hwps Hvps].
      apply apply_builtin_spec in Hb as (Hr & n & -> & Hfn). split.
      + cbn [wf]. rewrite Hr, Hwa, Hwps. rewrite specials_cls_ok; auto using ok_specials. cbn; auto 10.
      + rewrite (value_builtin n f); auto. cbn [Refs.pyeval]. rewrite fix_vmap. now rewrite Hva, Hvps.
    - (* call *)
      destruct (build T p) as [f'|] eqn:E1; [|discriminate]. destruct (IHp _ E1) as [Hwf Hvf].
      rewrite fix_omap in Hb. destruct (omap (build T) args) as [args'|] eqn:E2; [|discriminate].
      rewrite fix_omap_kw in Hb. destruct (omap (kwlift (build T)) kw) as [kw'|] eqn:E3; [|discriminate].
      destruct (hom_list en args args' H E2) as [Hwa Hva].
      destruct (hom_kw en kw kw' H0 E3) as [Hwk Hvk].
      pose proof (apply_call_ref _ _ _ _ Hb) as Hr.
      rewrite (apply_call_spec f' args' kw' Hr (wf_cls_ok T _ Hwf Hr)) in Hb. injection Hb as <-. split.
      + cbn [wf]. rewrite Hwf, Hwa, Hwk. rewrite specials_cls_ok; auto using ok_specials. cbn; auto 10.
      + cbn [Refs.value Refs.pyeval]. rewrite !fix_vmap.
        rewrite (fix_vmap_kw (fun x => value x en)), (fix_vmap_kw (fun x => pyeval x en)). now rewrite Hvf, Hva, Hvk.
  Qed.
  (* ---- every ordinary attribute name can be deferred --------------------------------------------- *)
  Lemma refused_dunder n : refused T n = true -> is_dunder n = true.
  Proof.
    unfold refused. intros H. apply existsb_exists in H as (m & Hin & Heq). apply pystr_eqb_eq in Heq. subst m.
    pose proof ok_special_names as Hs. unfold special_names_ok in Hs. rewrite forallb_forall in Hs. now apply Hs.
  Qed.

  Theorem attr_total o o' n :
    build T o = Some o' -> wf T o' = true -> is_ref o' = true -> is_dunder n = false ->
    build T (PAttr o n) =
    Some (match o' with TTop _ true => TItem o' (TConst (LStr n)) | _ => TAttr o' (TConst (LStr n)) end).
  Proof.
    intros Hb Hw Hr Hd. cbn [build]. destruct (refused T n) eqn:Eref.
    - apply refused_dunder in Eref. congruence.
    - rewrite Hb. cbn [obind]. apply apply_getattr_spec; auto. now apply wf_cls_ok.
  Qed.

  (* ---- in-place operators ------------------------------------------------------------------------ *)
  Notation inplace := (Refs.inplace V E of_lit pyop T).
  Notation assigned := (Refs.assigned V E of_lit pyop pyun pybuiltin pycall getitem getattr nan is_zde broken T).
  Notation inplace_spec := (Refs.inplace_spec V E of_lit pyop pyun pybuiltin pycall getitem getattr nan is_zde broken T).

  Lemma inplace_not_cmp op : In op inplace_ops -> is_eqne op = false /\ is_cmp op = false.
  Proof. cbn. intros H. repeat (destruct H as [<-|H]; [split; reflexivity|]). contradiction. Qed.

  Theorem inplace_correct op target cur old other en :
    In op inplace_ops ->
    (forall ex, cur = Some ex -> is_ref ex = true) ->
    exists r, inplace op target cur old other = Some r /\
              assigned r en = inplace_spec op cur old other en.
  Proof.
    intros Hin Hcur. pose proof (ok_inplace op Hin) as Hok. unfold inplace_ok in Hok.
    destruct (inplace_not_cmp op Hin) as [He Hc].
    unfold Refs.inplace. destruct (inplace_of T op) as [[e|]|]; try discriminate.
    do 3 (apply andb_prop in Hok as [Hok ?]). apply binop_beq_eq in Hok.
    match goal with H1 : binop_beq (ie_val_op e) op = true |- _ => apply binop_beq_eq in H1; rewrite H1 end.
    match goal with H1 : ie_expr_self_first e = true |- _ => rewrite H1 end.
    match goal with H1 : ie_val_self_first e = true |- _ => rewrite H1 end.
    rewrite Hok. destruct cur as [ex|].
    - pose proof (Hcur ex eq_refl) as Hr.
      destruct (apply_bin_spec op ex other) as [Hfwd _]. destruct (Hfwd Hr) as (cls & Hab & Hcls).
      exists (IExpr (TBin cls ex other)). split.
      + unfold Refs.combine. rewrite Hab. destruct ex; try discriminate; reflexivity.
      + cbn [Refs.assigned Refs.inplace_spec]. now rewrite (value_bin cls op).
    - destruct other as [k| | | | | | | |].
      1: { eexists. split; [reflexivity|]. reflexivity. }
      all: match goal with |- context [Refs.combine _ _ _ _ _ _ (TConst ?c0) ?o] =>
             destruct (apply_bin_spec op (TConst c0) o) as [_ Hrefl];
             destruct (Hrefl eq_refl eq_refl He) as [_ Hn]; destruct (Hn Hc) as (clsx & Hab & Hclsx);
             exists (IExpr (TBin clsx (TConst c0) o)); split;
             [unfold Refs.combine; now rewrite Hab
             |cbn [Refs.assigned Refs.inplace_spec]; now rewrite (value_bin clsx op)]
           end.
  Qed.
End Hom.
