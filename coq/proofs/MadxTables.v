(* C19: the tables regenerated from xdeps/madxutils.py and xdeps/refs.py
   (coq/gen/GenMadx.v) are the pinned ones, what that means callback by
   callback, and the theorems of MadxProofs.v instantiated to them. *)
From Coq Require Import String List Bool Arith.
From XD Require Import model.MadxSyn model.Madx gen.GenMadx proofs.MadxProofs.
Import ListNotations.
Open Scope string_scope.

(* alias of NAME "->" NAME in item / attribute mode, read off the extracted grammar *)
Definition elem_alias (attr : bool) : string :=
  match alias_of_shape (if attr then madx_grammar_attr else madx_grammar) shape_arrow with
  | Some a => a
  | None => ""
  end.

Lemma tables_pinned :
  (callbacks = expected_callbacks \/ callbacks = expected_callbacks_alt) /\
  eval_cfg = expected_cfg /\ ref_tabs = expected_rt /\
  madx_grammar = expected_grammar "getitem" /\ madx_grammar_attr = expected_grammar "getattr" /\
  env_consistent env_cfg = true /\ env_cfg = expected_env.
Proof.
  split; [first [left; vm_compute; reflexivity | right; vm_compute; reflexivity]|].
  vm_compute. repeat split; reflexivity.
Qed.

Lemma elem_alias_pinned attr : elem_alias attr = if attr then "getattr" else "getitem".
Proof. destruct attr; vm_compute; reflexivity. Qed.

Definition alias2 (op : pyop2) : string :=
  match op with OAdd => "add" | OSub => "sub" | OMul => "mul" | OTruediv => "div" | OPow => "pow" end.
Definition alias1 (op : pyop1) : string := match op with ONeg => "neg" | OPos => "pos" end.

Section Meaning.
  Variables (E X : Type) (stuck : E) (A : algebra E X) (v f e : X) (ea : string).
  Definition nd := node E X stuck A callbacks eval_cfg [v; f; e].

  (* what each callback of the extracted MadxEval computes, for every object algebra *)
  Lemma callbacks_meaning :
    (forall op a b, nd (alias2 op) [AObj a; AObj b] = x_op2 A op a b) /\
    (forall op a, nd (alias1 op) [AObj a] = x_op1 A op a) /\
    (forall tok, nd "number" [ATok tok] = x_float A tok) /\
    (forall n, nd "var" [ATok n] = x_getitem A v n) /\
    (forall el k, nd "getitem" [ATok el; ATok k] = bind (x_getitem A e el) (fun o => x_getitem A o k)) /\
    (forall el k, nd "getattr" [ATok el; ATok k] = bind (x_getitem A e el) (fun o => x_getattr A o k)) /\
    (forall fn args, nd "call" (ATok fn :: map AObj args) = bind (x_getattr A f fn) (fun g => x_call A g args)).
  Proof.
    repeat split.
    - intros [] a b; reflexivity.
    - intros [] a; reflexivity.
    - intros n. unfold nd; cbn. destruct (x_getitem A v n); reflexivity.
    - intros el k. unfold nd; cbn. destruct (x_getitem A e el) as [o|]; cbn; auto. destruct (x_getitem A o k); reflexivity.
    - intros el k. unfold nd; cbn. destruct (x_getitem A e el) as [o|]; cbn; auto. destruct (x_getattr A o k); reflexivity.
    - intros fn args. unfold nd; cbn. rewrite map_AObj_objs. cbn.
      destruct (x_getattr A f fn) as [g|]; cbn; auto. destruct (x_call A g args); reflexivity.
  Qed.
End Meaning.

(* which alias each written operator carries in the extracted grammar *)
Lemma grammar_meaning :
  (forall attr : bool, let g := if attr then madx_grammar_attr else madx_grammar in
     alias_of_shape g (shape_bin "+") = Some "add" /\ alias_of_shape g (shape_bin "-") = Some "sub" /\
     alias_of_shape g (shape_bin "*") = Some "mul" /\ alias_of_shape g (shape_bin "/") = Some "div" /\
     alias_of_shape g (shape_bin "^") = Some "pow" /\ alias_of_shape g (shape_bin "**") = Some "pow" /\
     alias_of_shape g (shape_un "-") = Some "neg" /\ alias_of_shape g (shape_un "+") = Some "pos" /\
     alias_of_shape g shape_number = Some "number" /\ alias_of_shape g shape_name = Some "var" /\
     alias_of_shape g shape_call = Some "call" /\ aliases_of_shape g shape_paren = [None] /\
     forallb gr_inline (g_rules g) = true) /\
  elem_alias false = "getitem" /\ elem_alias true = "getattr".
Proof. split; [intros []|]; vm_compute; repeat split; reflexivity. Qed.

(* the part of refs.py the deferred evaluator reaches *)
Lemma refs_meaning :
  (forall op, assoc (dunder2 op false) (rt_dunder_bin ref_tabs) = Some (cls_of op, false) /\
              assoc (dunder2 op true) (rt_dunder_bin ref_tabs) = Some (cls_of op, true) /\
              exists opn, assoc (cls_of op) (rt_class_bin ref_tabs) = Some (opn, pyop2_eqb op OTruediv) /\ ast_op2 opn = Some op) /\
  (forall op, assoc (dunder1 op) (rt_dunder_un ref_tabs) = Some (cls1_of op) /\
              exists opn, assoc (cls1_of op) (rt_class_un ref_tabs) = Some opn /\ ast_op1 opn = Some op) /\
  rt_mk_value_ok ref_tabs = true /\ rt_fields_ok ref_tabs = true.
Proof.
  split; [|split; [|split; reflexivity]].
  - intros []; vm_compute; (split; [reflexivity|split; [reflexivity|eexists; split; reflexivity]]).
  - intros []; vm_compute; (split; [reflexivity|eexists; split; reflexivity]).
Qed.

Section Instantiated.
  Variables (E V S : Type).
  Variable stuck : E.
  Variable is_zd : E -> bool.
  Variable e_attr : E.
  Variable nan : V.
  Variable p2 : pyop2 -> V -> V -> res E V.
  Variable p1 : pyop1 -> V -> res E V.
  Variable pfloat : string -> res E V.
  Variable getitem : S -> V -> string -> res E V.
  Variable getattr : S -> V -> string -> res E V.
  Variable pcall : S -> V -> list V -> res E V.
  Variables vs fs es : V.
  Variable attr : bool.

  (* MadxEval(variables, functions, elements[, get="attr"]).eval on the parse tree *)
  Definition c19_imm (st : S) : mtree -> res E V :=
    eval E V stuck (plain_alg E V S p2 p1 pfloat getitem getattr pcall st)
         callbacks eval_cfg [vs; fs; es] (elem_alias attr).
  (* MadxEval(vref, fref, eref[, get="attr"]).eval on the parse tree: a reference or a plain value *)
  Definition c19_def : mtree -> res E (dv V) :=
    eval E (dv V) stuck (def_alg E V stuck e_attr p2 p1 pfloat ref_tabs special_methods)
         callbacks eval_cfg [DRoot 0; DRoot 1; DRoot 2] (elem_alias attr).
  (* _get_value() in a state of the containers *)
  Definition c19_value (st : S) : dv V -> res E V :=
    value E V S stuck is_zd nan p2 p1 getitem getattr pcall [vs; fs; es] ref_tabs st.
  (* Python's evaluation of an expression; guard = true: x/0 with a non-constant operand is nan *)
  Definition c19_py (guard : bool) (st : S) : pyexpr -> res E V :=
    py_eval E V S stuck is_zd nan p2 p1 pfloat getitem getattr pcall [vs; fs; es] guard st.

  Ltac pin :=
    unfold c19_imm, c19_def, c19_value, c19_py;
    destruct tables_pinned as (Hc & -> & -> & _); rewrite ?elem_alias_pinned.

  Lemma c19_deferred_eq_immediate st t :
    names_ok special_methods attr t = true ->
    match c19_imm st t with
    | Ok v => bind (c19_def t) (c19_value st) = Ok v
    | Err e => is_zd e = true \/ exists e', bind (c19_def t) (c19_value st) = Err e'
    end.
  Proof. pin. apply deferred_eq_immediate; auto. Qed.

  Lemma c19_tracks_updates t d :
    names_ok special_methods attr t = true -> c19_def t = Ok d ->
    forall st', match c19_imm st' t with
                | Ok v => c19_value st' d = Ok v
                | Err e => is_zd e = true \/ exists e', c19_value st' d = Err e'
                end.
  Proof. pin. apply tracks_updates; auto. Qed.

  Lemma c19_deferred_nan st t :
    names_ok special_methods attr t = true ->
    res_sim (bind (c19_def t) (c19_value st)) (c19_py true st (translit attr t)) /\
    (forall v, c19_py false st (translit attr t) = Ok v -> c19_py true st (translit attr t) = Ok v).
  Proof.
    pin. split.
    - apply deferred_nan_python_run; auto.
    - intros v. apply (nan_only_on_zero_division E V S stuck is_zd nan p2 p1 pfloat getitem getattr pcall vs fs es).
  Qed.

  Lemma c19_paren_python st p t :
    parse_paren (if attr then madx_grammar_attr else madx_grammar) (elem_alias attr) p = Some t ->
    exists e, to_python attr p = Some e /\
      res_sim (c19_imm st t) (c19_py false st e) /\
      (names_ok special_methods attr t = true -> res_sim (bind (c19_def t) (c19_value st)) (c19_py true st e)).
  Proof.
    intros Hp. exists (translit attr t).
    assert (Hp' : parse_paren (expected_grammar (if attr then "getattr" else "getitem"))
                              (if attr then "getattr" else "getitem") p = Some t).
    { rewrite elem_alias_pinned in Hp. destruct tables_pinned as (_ & _ & _ & G1 & G2 & _).
      rewrite G1, G2 in Hp. destruct attr; exact Hp. }
    split; [apply paren_translit; exact Hp'|]. pin. split.
    - apply immediate_python; auto.
    - apply deferred_nan_python_run; auto.
  Qed.
End Instantiated.
