(* C13: mk_fun / gen_fun.  The generated function lists exactly the triggered
   tasks in dependency order; executing it on the plain containers yields a
   consistent store; a consistent store is unique given the untouched data. *)
From Coq Require Import List Bool Arith ZArith NArith Lia Permutation.
From XD Require Import lib.ListAux lib.Toposort model.Manager model.ManagerData
  proofs.ManagerIdx proofs.ManagerInv proofs.ManagerHist proofs.ManagerTrace proofs.ManagerDataInv
  proofs.Store proofs.ManagerC01.
Import ListNotations.
Local Open Scope nat_scope.

Lemma pmem_In p l : pmem p l = true <-> In p l.
Proof. apply (mem_In path_eqb path_eqb_spec). Qed.

Lemma union_In b : forall a x, In x (union a b) <-> In x a \/ In x b.
Proof.
  unfold union. induction b as [|y t IH]; intros a x; cbn [fold_left]; [cbn; tauto|].
  rewrite IH. destruct (pmem y a) eqn:E.
  - apply pmem_In in E. cbn. split; [tauto|]. intros [H|[<-|H]]; auto.
  - rewrite in_app_iff. cbn. tauto.
Qed.

Lemma args_start_In args : forall x, In x (args_start args) <-> exists p, In p args /\ In x (deps_of p).
Proof.
  unfold args_start.
  assert (H : forall acc x, In x (fold_left (fun acc p => union acc (deps_of p)) args acc) <->
                            In x acc \/ exists p, In p args /\ In x (deps_of p)).
  { induction args as [|p t IH]; intros acc x; cbn [fold_left].
    - split; [auto|]. intros [H|(p & [] & _)]; auto.
    - rewrite IH, union_In. split.
      + intros [[H|H]|(q & Hq & Hx)]; auto; right; [exists p|exists q]; cbn; auto.
      + intros [H|(q & [<-|Hq] & Hx)]; auto. right. exists q; auto. }
  intros x. rewrite H. cbn. tauto.
Qed.

Theorem mk_fun_spec (m : dmgr) args sd so tl m' :
  Inv path_eqb m -> mk_fun m args sd so = Ok (tl, m') ->
  let L := map (@t_id path action) tl in
  (forall x, In x sd <-> exists p, In p args /\ In x (deps_of p)) /\
  NoDup L /\
  (forall w, In w L <-> Triggered path_eqb (m_tasks m) sd w) /\
  (forall u v, In u L -> edge path_eqb (m_tasks m) u v -> before u v L \/ clos (edge path_eqb (m_tasks m)) v u) /\
  Inv path_eqb m' /\ m_tasks m' = m_tasks m.
Proof.
  intros HI. unfold mk_fun. destruct (same_set path_eqb sd (args_start args)) eqn:Es; [|discriminate].
  intros Ef. cbv zeta. set (L := map (@t_id path action) tl). destruct (same_set_spec path_eqb path_eqb_spec _ _ Es) as (_ & _ & Hsd).
  destruct (find_tasks_inv _ _ _ _ _ Ef) as (L0 & EL & Elk).
  destruct (find_taskids_spec path_eqb path_eqb_spec m sd so L0 m' HI EL) as (HN & HT & HO & HI' & Ht' & _).
  assert (Hids : L = L0).
  { pose proof HI' as (_ & (_ & Hok) & _).
    eapply lookup_tasks_ids; [|exact Elk]. intros k T Hk. now destruct (Hok _ _ Hk). }
  rewrite Hids. split; [|auto].
  intros x. rewrite Hsd. apply args_start_In.
Qed.

(* ---- executing the generated function ------------------------------------------------------------ *)
Definition args_ok (ts : ttasks) (args : list (path * node)) : Prop :=
  (forall p v, In (p, v) args -> 2 <= length p /\ forall a T, aget path_eqb a ts = Some T -> overlap p a = false) /\
  ForallOrdPairs (fun a b => overlap (fst a) (fst b) = false) args.

Lemma arg_writes_spec args : forall s s1, d_fault s = None ->
  ForallOrdPairs (fun a b => overlap (fst a) (fst b) = false) args ->
  arg_writes s args = (s1, None) ->
  d_fault s1 = None /\
  (forall p v, In (p, v) args -> nget (d_st s1) p = Some v) /\
  (forall q, (forall p, In p (map fst args) -> overlap p q = false) -> nget (d_st s1) q = nget (d_st s) q).
Proof.
  induction args as [|[p v] rest IH]; intros s s1 Hf Hpairs; cbn [arg_writes].
  - intros H; inversion H; subst. repeat split; auto. intros p v [].
  - unfold dwrite. rewrite Hf. destruct (nset (d_st s) p v) as [st'|] eqn:Es; [|discriminate].
    inversion Hpairs as [|x l Hx Hrest]; subst.
    intros Hr. destruct (IH (mkD st' (d_prev s) None) s1 eq_refl Hrest Hr) as (Hf1 & Hv & Hfr).
    split; [exact Hf1|]. split.
    + intros p' v' [H|H].
      * inversion H; subst p' v'. rewrite Hfr.
        -- cbn. eapply nget_nset_same; eauto.
        -- intros p'' Hp''. apply in_map_iff in Hp''. destruct Hp'' as ([p2 v2] & <- & Hin).
           rewrite Forall_forall in Hx. rewrite overlap_sym. apply (Hx (p2, v2) Hin).
      * now apply Hv.
    + intros q Hq. rewrite Hfr by (intros p' Hp'; apply Hq; now right).
      cbn. eapply nget_nset_disjoint; eauto. apply Hq. now left.
Qed.

Theorem exec_fun_consistent (m : dmgr) s args sd so tl m' s' tr :
  Inv path_eqb m -> Consistent (m_tasks m) (d_st s) -> d_fault s = None ->
  mk_fun m (map fst args) sd so = Ok (tl, m') -> exec_fun tl args s = (s', tr, None) ->
  sem_wf (m_tasks m) -> writes_disjoint (m_tasks m) -> no_self_read (m_tasks m) ->
  args_ok (m_tasks m) args ->
  (forall u w, In u tr -> In w tr -> u <> w -> pedge (m_tasks m) u w -> ~ clos (pedge (m_tasks m)) w u) ->
  Consistent (m_tasks m) (d_st s') /\
  (forall p v, In (p, v) args -> nget (d_st s') p = Some v) /\
  (forall q, (forall p, In p (map fst args) -> overlap p q = false) ->
             (forall a, In a tr -> overlap a q = false) -> nget (d_st s') q = nget (d_st s) q).
Proof.
  intros HI HC Hf Emk Eex Hsem Hwd Hnsr [Hargs Hpairs] Hacy.
  destruct (mk_fun_spec m (map fst args) sd so tl m' HI Emk) as (Hsd & HN & HT & HO & HI' & Ht').
  set (ts := m_tasks m) in *. set (L := map (@t_id path action) tl) in *.
  unfold exec_fun in Eex. destruct (arg_writes s args) as [s1 [e|]] eqn:Ea; [inversion Eex|].
  destruct (arg_writes_spec args s s1 Hf Hpairs Ea) as (Hf1 & Hv1 & Hfr1).
  assert (Htr : tr = L).
  { destruct (run_tasks_trace _ _ _ _ _ Eex) as [Hfull _]. now rewrite (Hfull eq_refl). }
  subst tr.
  assert (Elk : lookup_tasks path_eqb ts L = Ok tl).
  { unfold mk_fun in Emk. destruct (same_set path_eqb sd (args_start (map fst args))); [|discriminate].
    destruct (find_tasks_inv _ _ _ _ _ Emk) as (L0 & EL & Elk0).
    assert (L = L0).
    { pose proof HI' as (_ & (_ & Hok) & _).
      eapply lookup_tasks_ids; [|exact Elk0]. intros k T Hk. now destruct (Hok _ _ Hk). }
    subst L0. rewrite <- Ht'. exact Elk0. }
  destruct (run_expr_tasks ts L Hsem Hwd Hnsr HN HO Hacy L [] tl s1 s' L (d_st s1) eq_refl Elk Hf1 Eex)
    as (HA & HB & _); [intros a []|reflexivity|].
  assert (HLreg : forall b, In b L -> exists Tb, aget path_eqb b ts = Some Tb) by (eapply lookup_tasks_In; eauto).
  assert (HLclosed : forall b a, In b L -> pedge ts b a -> In a L).
  { intros b a Hb He. apply HT. apply HT in Hb. destruct Hb as (r0 & Hs & Hc). exists r0. split; auto.
    eapply clos_snoc; eauto. }
  split; [|split].
  - intros a T e Ha Hact.
    destruct (in_dec (list_eq_dec N.eq_dec) a L) as [HaL|HaL]; [now apply (HA a HaL T e)|].
    assert (Hfr_a : nget (d_st s') a = nget (d_st s1) a).
    { apply HB. intros b Hb. destruct (HLreg b Hb) as (Tb & Eb). apply (Hwd b a Tb T); auto. intros ->; contradiction. }
    assert (Hfr_e : eval (d_st s') e = eval (d_st s1) e).
    { apply eval_local. intros q Hq. apply HB. intros b Hb.
      destruct (overlap b q) eqn:Eo; [exfalso|reflexivity].
      destruct (HLreg b Hb) as (Tb & Eb). apply HaL. apply (HLclosed b a Hb). eapply overlap_edge; eauto. }
    rewrite Hfr_a, Hfr_e.
    assert (H1a : nget (d_st s1) a = nget (d_st s) a).
    { apply Hfr1. intros p Hp. apply in_map_iff in Hp. destruct Hp as ([p' v'] & <- & Hin).
      destruct (Hargs p' v' Hin) as [_ Hno]. eapply Hno; eauto. }
    assert (H1e : eval (d_st s1) e = eval (d_st s) e).
    { apply eval_local. intros q Hq. apply Hfr1. intros p Hp.
      destruct (overlap p q) eqn:Eo; [exfalso|reflexivity].
      apply in_map_iff in Hp. destruct Hp as ([p' v'] & Hpp & Hin). cbn in Hpp. subst p'.
      destruct (Hargs p v' Hin) as [Hlp _].
      apply HaL. apply HT. exists a. split; [|constructor].
      eapply overlap_start; eauto. intros x Hx. apply Hsd. exists p. split; auto.
      apply in_map_iff. exists (p, v'); auto. }
    rewrite H1a, H1e. now apply (HC a T e).
  - intros p v Hin. rewrite HB; [now apply Hv1|].
    intros b Hb. destruct (HLreg b Hb) as (Tb & Eb). destruct (Hargs p v Hin) as [_ Hno].
    rewrite overlap_sym. eapply Hno; eauto.
  - intros q Hq1 Hq2. rewrite (HB q Hq2). now apply Hfr1.
Qed.

(* ---- uniqueness of the consistent store ------------------------------------------------------------ *)
Lemma nget_app p : forall st r, nget st (p ++ r) = match nget st p with Some n => nget n r | None => None end.
Proof.
  induction p as [|k t IH]; intros st r; cbn [nget app]; [reflexivity|].
  destruct st as [z| |kids]; auto. destruct (aget N.eqb k kids); auto.
Qed.

Lemma before_in_done {X} (c b : X) done rest : NoDup (done ++ b :: rest) -> before c b (done ++ b :: rest) -> In c done.
Proof.
  intros Hn (l1 & l2 & He & Hin).
  (* b occurs after c: b is in l2; by uniqueness of b's position, c lies in done *)
  assert (Hb : In b l2) by exact Hin.
  apply in_split in Hb. destruct Hb as (l2a & l2b & ->).
  replace (l1 ++ c :: l2a ++ b :: l2b) with ((l1 ++ c :: l2a) ++ b :: l2b) in He by (rewrite <- app_assoc; reflexivity).
  destruct (NoDup_unique_split b done rest (l1 ++ c :: l2a) l2b Hn He) as [-> _].
  apply in_app_iff. right. now left.
Qed.

Theorem consistent_unique (ts : ttasks) (L : list path) (st sa sb : node) (srcs : list path) :
  sem_wf ts -> no_self_read ts -> NoDup L ->
  (forall u v, In u L -> pedge ts u v -> before u v L \/ clos (pedge ts) v u) ->
  (forall u v, In u L -> In v L -> u <> v -> pedge ts u v -> ~ clos (pedge ts) v u) ->
  (forall a, In a L -> exists T, aget path_eqb a ts = Some T) ->
  (forall a, In a L -> cons_at ts sa a) -> (forall a, In a L -> cons_at ts sb a) ->
  (forall a T e q, In a L -> aget path_eqb a ts = Some T -> t_act T = AExpr e -> In q (reads e) ->
                   (forall c, In c L -> overlap c q = false) -> nget sa q = nget sb q) ->
  (forall a T e q b, In a L -> aget path_eqb a ts = Some T -> t_act T = AExpr e -> In q (reads e) ->
                     In b L -> overlap b q = true -> is_prefix b q = true) ->
  forall a, In a L -> nget sa a = nget sb a.
Proof.
  intros Hsem Hnsr HN HO Hacy Hreg Hca Hcb Hoff Hcov.
  assert (Hgen : forall todo done, L = done ++ todo -> (forall a, In a done -> nget sa a = nget sb a) ->
                 forall a, In a L -> nget sa a = nget sb a).
  { induction todo as [|b rest IH]; intros done HL Hd a Ha.
    - rewrite app_nil_r in HL. subst done. now apply Hd.
    - apply (IH (done ++ [b])); [now rewrite <- app_assoc| |exact Ha].
      intros a' Ha'. apply in_app_iff in Ha'. destruct Ha' as [Ha'|[<-|[]]]; [now apply Hd|].
      assert (HbL : In b L) by (rewrite HL; apply in_app_iff; right; now left).
      destruct (Hreg b HbL) as (Tb & Eb). destruct (Hsem _ _ Eb) as (eb & Hact & _).
      rewrite (Hca b HbL Tb eb Eb Hact), (Hcb b HbL Tb eb Eb Hact). apply eval_local.
      intros q Hq.
      destruct (existsb (fun c => overlap c q) L) eqn:Eex.
      + apply existsb_exists in Eex. destruct Eex as (c & HcL & Hoc).
        pose proof (Hcov b Tb eb q c HbL Eb Hact Hq HcL Hoc) as Hpre.
        apply is_prefix_spec in Hpre. destruct Hpre as (r & ->).
        assert (Hcb' : c <> b).
        { intros ->. rewrite (Hnsr b Tb eb Eb Hact _ Hq) in Hoc. discriminate. }
        destruct (Hreg c HcL) as (Tc & Ec).
        assert (He : pedge ts c b) by (eapply overlap_edge; eauto).
        assert (Hcd : In c done).
        { destruct (HO c b HcL He) as [Hb|Hcl].
          - rewrite HL in Hb. eapply before_in_done; eauto. now rewrite <- HL.
          - exfalso. eapply (Hacy c b); eauto. }
        rewrite !nget_app, (Hd c Hcd). reflexivity.
      + apply (Hoff b Tb eb q HbL Eb Hact Hq). intros c Hc.
        destruct (overlap c q) eqn:Eo; [|reflexivity].
        assert (existsb (fun c0 => overlap c0 q) L = true) by (apply existsb_exists; exists c; auto). congruence. }
  apply (Hgen L []); auto. intros a [].
Qed.
