(* The index invariant holds after every history (C03), regeneration of the
   indices (refresh / clone) is the identity on every count, verify succeeds,
   and the counts depend on the surviving task set only. *)
From Coq Require Import List Bool Arith Lia Permutation.
From XD Require Import lib.ListAux lib.Toposort model.Manager proofs.ManagerIdx proofs.ManagerInv.
Import ListNotations.

Section Hist.
Context {K A : Type}.
Variable eqb : K -> K -> bool.
Hypothesis eqb_spec : forall a b, eqb a b = true <-> a = b.

Notation task := (@task K A).
Notation mgr := (@mgr K A).
Notation icount := (icount eqb).
Notation idx_wf := (idx_wf eqb).
Notation Inv := (Inv eqb).

(* ---- cleanup ------------------------------------------------------------------ *)
Lemma ipeek_cleanup (d : @index K) k : NoDup (map fst d) -> ipeek eqb k (cleanup_index d) = ipeek eqb k d.
Proof.
  unfold ipeek, cleanup_index. induction d as [|[k' rc] t IH]; cbn; auto.
  intros Hn. inversion Hn; subst. specialize (IH H2).
  destruct (Nat.eqb (length rc) 0) eqn:E; cbn.
  - destruct (eqb k k') eqn:E2; auto. apply eqb_spec in E2; subst k'.
    apply Nat.eqb_eq in E. destruct rc; [|discriminate].
    match goal with |- context [aget eqb k ?l] => assert (Hnone : aget eqb k l = None) end.
    { apply (aget_None_keys eqb eqb_spec). intros Hin. apply H1.
      apply in_map_iff in Hin. destruct Hin as (y & <- & Hy). apply filter_In in Hy. apply in_map. tauto. }
    match goal with |- match ?x with _ => _ end = _ => destruct x eqn:Ex end; [|reflexivity].
    exfalso. pose proof (eq_trans (eq_sym Ex) Hnone) as Hc. discriminate Hc.
  - destruct (eqb k k'); auto.
Qed.

Lemma icount_cleanup d a b : idx_wf d -> icount (cleanup_index d) a b = icount d a b.
Proof. intros [Hn _]. unfold ManagerIdx.icount. now rewrite ipeek_cleanup. Qed.

Lemma NoDup_map_filter {X Y} (f : X -> Y) (p : X -> bool) l : NoDup (map f l) -> NoDup (map f (filter p l)).
Proof.
  induction l as [|x t IH]; cbn; auto. intros H; inversion H; subst.
  destruct (p x); cbn; auto. constructor; auto.
  intros Hin. apply H2. apply in_map_iff in Hin. destruct Hin as (y & <- & Hy).
  apply filter_In in Hy. apply in_map. tauto.
Qed.

Lemma aget_filter_some (d : @index K) p k rc :
  aget eqb k (filter p d) = Some rc -> NoDup (map fst d) -> aget eqb k d = Some rc.
Proof.
  induction d as [|[k' rc'] t IH]; cbn; [discriminate|]. intros H Hnd. inversion Hnd; subst.
  destruct (p (k', rc')) eqn:Ep; cbn in H.
  - destruct (eqb k k'); auto.
  - destruct (eqb k k') eqn:E; auto. apply eqb_spec in E; subst k'.
    exfalso. apply H2. apply (aget_In_keys eqb eqb_spec). exists rc. now apply IH.
Qed.

Lemma idx_wf_cleanup d : idx_wf d -> idx_wf (cleanup_index d).
Proof.
  intros [Hn Hr]. split; [now apply NoDup_map_filter|].
  intros k rc H. eapply Hr. eapply aget_filter_some; eauto.
Qed.

Lemma cleanup_Inv (m : mgr) : Inv m -> Inv (cleanup m).
Proof.
  intros ((W1 & W2 & W3 & W4) & TW & IR & ID & IT & IRt). unfold cleanup.
  split; [|split; [exact TW|]]; cbn [m_rdeps m_rtasks m_deptasks m_tartasks m_tasks].
  - split; [|split; [|split]]; cbn; apply idx_wf_cleanup; assumption.
  - split; [|split; [|split]]; intros; rewrite icount_cleanup; auto.
Qed.

(* ---- registering a whole task list from scratch (clone / refresh) ------------------ *)
Lemma register_all (ts : list (K * task)) : forall (m : mgr),
  Inv m -> tasks_wf eqb (m_tasks m ++ ts) ->
  let m' := fold_left (fun o p => register_nofreeze eqb (snd p) o) ts m in
  Inv m' /\ m_tasks m' = m_tasks m ++ ts /\ m_frozen m' = m_frozen m.
Proof.
  induction ts as [|[k T] ts IH]; intros m HI Hwf; cbn [fold_left].
  - rewrite app_nil_r. auto.
  - destruct Hwf as [Hn Ho].
    assert (Hk : aget eqb k (m_tasks m ++ (k, T) :: ts) = Some T).
    { rewrite aget_app. destruct (aget eqb k (m_tasks m)) eqn:E.
      - exfalso. rewrite map_app in Hn. apply NoDup_remove_2 in Hn.
        apply Hn. rewrite in_app_iff. left. apply (aget_In_keys eqb eqb_spec). eauto.
      - cbn. now rewrite (eqb_refl eqb eqb_spec). }
    destruct (Ho _ _ Hk) as (Hid & Hnd & Hnt). cbn [snd].
    assert (Hfresh : aget eqb (t_id T) (m_tasks m) = None).
    { rewrite Hid. apply (aget_None_keys eqb eqb_spec). intros Hin.
      rewrite map_app in Hn. apply NoDup_remove_2 in Hn. apply Hn. rewrite in_app_iff. now left. }
    destruct (register_Inv eqb eqb_spec T m HI Hfresh Hnd Hnt) as (HI' & Ht' & Hf').
    rewrite Hid in Ht'.
    destruct (IH (register_nofreeze eqb T m) HI') as (HI'' & Ht'' & Hf'').
    + rewrite Ht', <- app_assoc. cbn. split; assumption.
    + split; [exact HI''|]. split; [|congruence]. rewrite Ht'', Ht', <- app_assoc. reflexivity.
Qed.

Theorem clone_Inv (m : mgr) : Inv m -> Inv (clone eqb m) /\ m_tasks (clone eqb m) = m_tasks m.
Proof.
  intros HI. unfold clone. destruct HI as (_ & TW & _).
  destruct (register_all (m_tasks m) empty_mgr (Inv_empty eqb)) as (H1 & H2 & _); [exact TW|].
  split; [now apply cleanup_Inv|]. exact H2.
Qed.

(* the index part of register does not look at the task dictionary *)
Definition same_idx (o1 o2 : mgr) : Prop :=
  m_rdeps o1 = m_rdeps o2 /\ m_rtasks o1 = m_rtasks o2 /\ m_deptasks o1 = m_deptasks o2 /\
  m_tartasks o1 = m_tartasks o2 /\ m_frozen o1 = m_frozen o2.

Lemma reg_dep_same tid tg o1 o2 dep : same_idx o1 o2 ->
  same_idx (reg_dep eqb tid tg o1 dep) (reg_dep eqb tid tg o2 dep) /\
  m_tasks (reg_dep eqb tid tg o1 dep) = m_tasks o1.
Proof.
  intros (H1 & H2 & H3 & H4 & H5). unfold reg_dep. rewrite H1, H2, H3, H4, H5.
  destruct (iget eqb dep (m_tartasks o2)). cbn. repeat split.
Qed.

Lemma reg_tar_same tid o1 o2 tar : same_idx o1 o2 ->
  same_idx (reg_tar eqb tid o1 tar) (reg_tar eqb tid o2 tar) /\
  m_tasks (reg_tar eqb tid o1 tar) = m_tasks o1.
Proof.
  intros (H1 & H2 & H3 & H4 & H5). unfold reg_tar. rewrite H1, H2, H3, H4, H5.
  destruct (iget eqb tar (m_deptasks o2)). cbn. repeat split.
Qed.

Lemma same_idx_refl o : same_idx o o.
Proof. repeat split. Qed.

Lemma reg_deps_same tid tg ds : forall o1 o2, same_idx o1 o2 ->
  same_idx (fold_left (reg_dep eqb tid tg) ds o1) (fold_left (reg_dep eqb tid tg) ds o2) /\
  m_tasks (fold_left (reg_dep eqb tid tg) ds o1) = m_tasks o1.
Proof.
  induction ds as [|d ds IH]; intros o1 o2 H; cbn [fold_left]; [split; auto|].
  destruct (reg_dep_same tid tg o1 o2 d H) as [H1 H2].
  destruct (IH _ _ H1) as [H3 H4]. split; [exact H3|congruence].
Qed.

Lemma reg_tars_same tid tg : forall o1 o2, same_idx o1 o2 ->
  same_idx (fold_left (reg_tar eqb tid) tg o1) (fold_left (reg_tar eqb tid) tg o2) /\
  m_tasks (fold_left (reg_tar eqb tid) tg o1) = m_tasks o1.
Proof.
  induction tg as [|d ds IH]; intros o1 o2 H; cbn [fold_left]; [split; auto|].
  destruct (reg_tar_same tid o1 o2 d H) as [H1 H2].
  destruct (IH _ _ H1) as [H3 H4]. split; [exact H3|congruence].
Qed.

Lemma register_same (T : task) o1 o2 : same_idx o1 o2 ->
  same_idx (register_nofreeze eqb T o1) (register_nofreeze eqb T o2) /\
  m_tasks (register_nofreeze eqb T o1) = aset eqb (t_id T) T (m_tasks o1).
Proof.
  intros H. unfold register_nofreeze.
  set (a1 := mkMgr (aset eqb (t_id T) T (m_tasks o1)) _ _ _ _ _).
  set (a2 := mkMgr (aset eqb (t_id T) T (m_tasks o2)) _ _ _ _ _).
  assert (Ha : same_idx a1 a2) by exact H.
  destruct (reg_deps_same (t_id T) (t_targets T) (t_deps T) a1 a2 Ha) as [H1 H2].
  destruct (reg_tars_same (t_id T) (t_targets T) _ _ H1) as [H3 H4].
  split; [exact H3|]. rewrite H4, H2. reflexivity.
Qed.

Lemma aset_same_value (k : K) (T : task) ts : aget eqb k ts = Some T -> aset eqb k T ts = ts.
Proof.
  induction ts as [|[k' T'] t IH]; cbn; [discriminate|].
  destruct (eqb k k') eqn:E.
  - apply eqb_spec in E; subst. intros H; inversion H; reflexivity.
  - intros H. now rewrite IH.
Qed.

Lemma mgr_ext (o1 o2 : mgr) : same_idx o1 o2 -> m_tasks o1 = m_tasks o2 -> o1 = o2.
Proof.
  destruct o1, o2; unfold same_idx; cbn. intros (-> & -> & -> & -> & ->) ->. reflexivity.
Qed.

(* refresh() is clone(): regenerating the indices in place gives exactly the
   manager that re-registering every task into a new one gives *)
Theorem refresh_is_clone (m : mgr) : tasks_wf eqb (m_tasks m) -> m_frozen m = false ->
  refresh eqb m = Ok (clone eqb m).
Proof.
  intros TW Hf. unfold refresh, clone. rewrite Hf. f_equal. f_equal.
  set (reg := fun (o : mgr) (p : K * task) => register_nofreeze eqb (snd p) o).
  assert (Hgen : forall ts (o1 o2 : mgr), same_idx o1 o2 ->
            m_tasks o1 = m_tasks m ->
            (forall k T, In (k, T) ts -> aget eqb k (m_tasks m) = Some T) ->
            same_idx (fold_left reg ts o1) (fold_left reg ts o2) /\ m_tasks (fold_left reg ts o1) = m_tasks m).
  { induction ts as [|[k T] ts IH]; intros o1 o2 Hs Ht Hin; cbn [fold_left]; [auto|].
    change (reg o1 (k, T)) with (register_nofreeze eqb T o1). change (reg o2 (k, T)) with (register_nofreeze eqb T o2).
    destruct (register_same T o1 o2 Hs) as [H1 H2].
    apply IH; auto.
    - rewrite H2, Ht. apply aset_same_value.
      assert (Hk : aget eqb k (m_tasks m) = Some T) by (apply Hin; now left).
      destruct TW as [_ Ho]. destruct (Ho _ _ Hk) as (Hid & _). now rewrite Hid.
    - intros; apply Hin; now right. }
  destruct (Hgen (m_tasks m) (mkMgr (m_tasks m) [] [] [] [] false) empty_mgr) as [H1 H2].
  - repeat split.
  - reflexivity.
  - intros k T Hin. destruct TW as [Hn _]. clear - Hin Hn eqb_spec.
    induction (m_tasks m) as [|[k' T'] t IH]; [destruct Hin|]. cbn in *. inversion Hn; subst.
    destruct Hin as [H|H].
    + inversion H; subst. now rewrite (eqb_refl eqb eqb_spec).
    + destruct (eqb k k') eqn:E; [|auto]. apply eqb_spec in E; subst k'.
      exfalso. apply H1. apply in_map_iff. exists (k, T); auto.
  - apply mgr_ext; auto.
    destruct (register_all (m_tasks m) empty_mgr (Inv_empty eqb)) as (_ & H3 & _); [exact TW|].
    fold reg in H3. rewrite H2, H3. reflexivity.
Qed.

(* ---- the counts are a function of the surviving task set ------------------------------ *)
Lemma aget_perm (k : K) (l1 l2 : list (K * task)) :
  Permutation l1 l2 -> NoDup (map fst l1) -> aget eqb k l1 = aget eqb k l2.
Proof.
  induction 1 as [|[k' T'] l1 l2 Hp IH|[k1 T1] [k2 T2] l|l1 l2 l3 Hp1 IH1 Hp2 IH2]; intros Hn; auto.
  - cbn. inversion Hn; subst. destruct (eqb k k'); auto.
  - cbn. inversion Hn; subst. inversion H2; subst.
    destruct (eqb k k2) eqn:E2; destruct (eqb k k1) eqn:E1; auto.
    apply eqb_spec in E1, E2. subst. exfalso. apply H1. now left.
  - rewrite IH1 by assumption. apply IH2.
    eapply Permutation_NoDup; [|exact Hn]. now apply Permutation_map.
Qed.

Lemma c_rdeps_perm (l1 l2 : list (K * task)) d t : Permutation l1 l2 -> c_rdeps eqb l1 d t = c_rdeps eqb l2 d t.
Proof.
  unfold c_rdeps. induction 1; cbn; auto; try lia; try congruence.
Qed.

Theorem history_independent (m1 m2 : mgr) :
  Inv m1 -> Inv m2 -> Permutation (m_tasks m1) (m_tasks m2) ->
  (forall d t, icount (m_rdeps m1) d t = icount (m_rdeps m2) d t) /\
  (forall d a, icount (m_deptasks m1) d a = icount (m_deptasks m2) d a) /\
  (forall t a, icount (m_tartasks m1) t a = icount (m_tartasks m2) t a) /\
  (forall a b, icount (m_rtasks m1) a b = icount (m_rtasks m2) a b).
Proof.
  intros (_ & (N1 & _) & R1 & D1 & T1 & Rt1) (_ & _ & R2 & D2 & T2 & Rt2) Hp.
  split; [|split; [|split]].
  - intros d t. rewrite R1, R2. now apply c_rdeps_perm.
  - intros d a. rewrite D1, D2. unfold c_deptasks. now rewrite (aget_perm a _ _ Hp N1).
  - intros t a. rewrite T1, T2. unfold c_tartasks. now rewrite (aget_perm a _ _ Hp N1).
  - intros a b. rewrite Rt1, Rt2. unfold c_rtasks. now rewrite (aget_perm a _ _ Hp N1), (aget_perm b _ _ Hp N1).
Qed.

(* ---- verify() succeeds on every manager satisfying the invariant --------------------- *)
Lemma keys_equiv_counts (a b : @refcount K) : rc_wf eqb a -> rc_wf eqb b ->
  (forall k, rcount eqb a k = rcount eqb b k) -> keys_equiv eqb a b = true.
Proof.
  intros Wa Wb H. unfold keys_equiv. apply andb_true_iff. split; apply forallb_forall; intros k Hk.
  - rewrite (rc_mem_count eqb k b Wb). apply Nat.leb_le. rewrite <- H. now apply (rc_keys_count eqb eqb_spec).
  - rewrite (rc_mem_count eqb k a Wa). apply Nat.leb_le. rewrite H. now apply (rc_keys_count eqb eqb_spec).
Qed.

Lemma verify_index_counts (d1 d2 : @index K) : idx_wf d1 -> idx_wf d2 ->
  (forall a b, icount d1 a b = icount d2 a b) -> verify_index eqb d1 d2 = true.
Proof.
  intros W1 W2 H. unfold verify_index. apply forallb_forall. intros [k rc] Hin. cbn [fst snd].
  assert (Hrc : ipeek eqb k d1 = rc).
  { unfold ipeek. destruct W1 as [Hn _]. clear - Hin Hn eqb_spec.
    induction d1 as [|[k' rc'] t IH]; [destruct Hin|]. cbn in *. inversion Hn; subst.
    destruct Hin as [H|H].
    - inversion H; subst. now rewrite (eqb_refl eqb eqb_spec).
    - destruct (eqb k k') eqn:E; [|auto]. apply eqb_spec in E; subst k'.
      exfalso. apply H1. apply in_map_iff. exists (k, rc); auto. }
  rewrite <- Hrc. apply keys_equiv_counts.
  - now apply (ipeek_wf eqb).
  - now apply (ipeek_wf eqb).
  - intros x. apply H.
Qed.

Theorem verify_ok (m : mgr) : Inv m -> exists m', verify eqb m = Ok m' /\ Inv m' /\ m_tasks m' = m_tasks m.
Proof.
  intros HI. unfold verify.
  pose proof (cleanup_Inv m HI) as HI1.
  destruct (clone_Inv (cleanup m) HI1) as [HI2 Ht2].
  assert (Hp : Permutation (m_tasks (cleanup m)) (m_tasks (clone eqb (cleanup m)))) by (rewrite Ht2; apply Permutation_refl).
  destruct (history_independent _ _ HI1 HI2 Hp) as (E1 & E2 & E3 & E4).
  pose proof HI1 as ((A1 & A2 & A3 & A4) & _). pose proof HI2 as ((B1 & B2 & B3 & B4) & _).
  rewrite !verify_index_counts by assumption. cbn [andb].
  eexists; split; [reflexivity|]. split; [exact HI1|reflexivity].
Qed.

End Hist.
