(* Facts shared by the proofs of C04, C05 and C12: decoding of the boolean
   table checks, list plumbing for the nested fixpoints. *)
From Coq Require Import List ZArith NArith Bool Lia.
From XD Require Import model.RefSyntax model.RefTables model.Refs model.RefsOk.
Import ListNotations.

Lemma binop_beq_eq a b : binop_beq a b = true -> a = b.
Proof. apply internal_binop_dec_bl. Qed.
Lemma unop_beq_eq a b : unop_beq a b = true -> a = b.
Proof. apply internal_unop_dec_bl. Qed.
Lemma bfun_beq_eq a b : bfun_beq a b = true -> a = b.
Proof. apply internal_bfun_dec_bl. Qed.
Lemma field_beq_eq a b : field_beq a b = true -> a = b.
Proof. apply internal_field_dec_bl. Qed.
Lemma kind_beq_eq a b : kind_beq a b = true -> a = b.
Proof. apply internal_kind_dec_bl. Qed.
Lemma argsel_beq_eq a b : argsel_beq a b = true -> a = b.
Proof. apply internal_argsel_dec_bl. Qed.
Lemma field_beq_refl a : field_beq a a = true.
Proof. apply internal_field_dec_lb; reflexivity. Qed.

Lemma list_eqb_eq {A} (f : A -> A -> bool) (Hf : forall a b, f a b = true -> a = b) l m :
  list_eqb f l m = true -> l = m.
Proof.
  revert m; induction l as [|x l IH]; intros [|y m] H; cbn in H; try discriminate; auto.
  apply andb_prop in H as [H1 H2]. f_equal; auto.
Qed.

Lemma pystr_eqb_eq a b : pystr_eqb a b = true -> a = b.
Proof.
  revert b; induction a as [|x a IH]; intros [|y b] H; cbn in H; try discriminate; auto.
  apply andb_prop in H as [H1 H2]. apply N.eqb_eq in H1. subst. f_equal; auto.
Qed.

Lemma pystr_eqb_refl s : pystr_eqb s s = true.
Proof. induction s as [|x s IH]; cbn; auto. now rewrite N.eqb_refl. Qed.

Lemma all_binops_complete op : In op all_binops.
Proof. destruct op; cbn; auto 25. Qed.
Lemma all_unops_complete op : In op all_unops.
Proof. destruct op; cbn; auto. Qed.
Lemma all_bfuns_complete f : In f all_bfuns.
Proof. destruct f; cbn; auto 10. Qed.

Lemma find_in {A} (f : A -> bool) l x : find f l = Some x -> In x l /\ f x = true.
Proof. apply find_some. Qed.

(* ---- nested fixpoints over argument lists are omap / vmap ------------------- *)
Lemma fix_omap {A B} (f : A -> option B) l :
  (fix go (l : list A) : option (list B) :=
     match l with
     | [] => Some []
     | x :: r => match f x, go r with Some y, Some ys => Some (y :: ys) | _, _ => None end
     end) l = omap f l.
Proof. induction l as [|x l IH]; cbn; [reflexivity|]. rewrite IH. reflexivity. Qed.

Definition kwlift {A B} (f : A -> option B) (x : pystr * A) : option (pystr * B) :=
  match f (snd x) with Some y => Some (fst x, y) | None => None end.

Lemma fix_omap_kw {A B} (f : A -> option B) (l : list (pystr * A)) :
  (fix go (l : list (pystr * A)) : option (list (pystr * B)) :=
     match l with
     | [] => Some []
     | x :: r => match f (snd x), go r with Some y, Some ys => Some ((fst x, y) :: ys) | _, _ => None end
     end) l = omap (kwlift f) l.
Proof.
  induction l as [|x l IH]; cbn; [reflexivity|]. rewrite IH. unfold kwlift.
  destruct (f (snd x)); reflexivity.
Qed.

Lemma omap_cons_inv {A B} (f : A -> option B) x l r :
  omap f (x :: l) = Some r -> exists y ys, f x = Some y /\ omap f l = Some ys /\ r = y :: ys.
Proof.
  cbn. destruct (f x) as [y|]; [|discriminate]. destruct (omap f l) as [ys|]; [|discriminate].
  intros [= <-]. eauto.
Qed.

Lemma omap_id_on {A} (f : A -> option A) l :
  Forall (fun x => f x = Some x) l -> omap f l = Some l.
Proof. induction 1 as [|x l Hx _ IH]; cbn; [reflexivity|]. now rewrite Hx, IH. Qed.

Section VMap.
  Context {V E : Type}.
  Fixpoint vmap {A W} (f : A -> res W E) (l : list A) : res (list W) E :=
    match l with
    | [] => Ok []
    | x :: r => rbind (f x) (fun v => rbind (vmap f r) (fun vs => Ok (v :: vs)))
    end.

  Lemma fix_vmap {A W} (f : A -> res W E) l :
    (fix go (l : list A) : res (list W) E :=
       match l with
       | [] => Ok []
       | x :: r => rbind (f x) (fun v => rbind (go r) (fun vs => Ok (v :: vs)))
       end) l = vmap f l.
  Proof. induction l as [|x l IH]; cbn; [reflexivity|]. now rewrite IH. Qed.

  Definition vkw {A W} (f : A -> res W E) (x : pystr * A) : res (pystr * W) E :=
    rbind (f (snd x)) (fun v => Ok (fst x, v)).

  Lemma fix_vmap_kw {A W} (f : A -> res W E) (l : list (pystr * A)) :
    (fix go (l : list (pystr * A)) : res (list (pystr * W)) E :=
       match l with
       | [] => Ok []
       | x :: r => rbind (f (snd x)) (fun v => rbind (go r) (fun vs => Ok ((fst x, v) :: vs)))
       end) l = vmap (vkw f) l.
  Proof.
    induction l as [|x l IH]; cbn; [reflexivity|]. rewrite IH. unfold vkw.
    destruct (f (snd x)); reflexivity.
  Qed.
End VMap.

(* ---- decoding the class lookups ----------------------------------------------- *)
Section Decode.
  Variable T : tables.

  Lemma kind_is_of c k : kind_is T c k = true -> kind_of T c = Some k.
  Proof.
    unfold kind_is. destruct (kind_of T c) as [k'|]; [|discriminate].
    intros H. apply kind_beq_eq in H. now subst.
  Qed.

  Lemma kind_of_info c k : kind_of T c = Some k ->
    exists ci, class_info_of T c = Some ci /\ In ci (t_classes T) /\ ci_id ci = c /\ ci_kind ci = k.
  Proof.
    unfold kind_of. destruct (class_info_of T c) as [ci|] eqn:E; [|discriminate].
    cbn. intros [= <-]. exists ci. unfold class_info_of in E. apply find_in in E as [Hin Hid].
    apply N.eqb_eq in Hid. auto.
  Qed.

  Lemma specials_ok_spec k : specials_ok T = true -> In k node_kinds ->
    exists c, special T k = Some c /\ kind_of T c = Some k.
  Proof.
    unfold specials_ok. intros H Hin. rewrite forallb_forall in H. specialize (H k Hin).
    destruct (special T k) as [c|]; [|discriminate]. exists c. split; auto. now apply kind_is_of.
  Qed.

  (* a reference term whose class is valid: its class id and its role *)
  Lemma cls_ok_spec t : cls_ok T t = true ->
    exists c, class_of T t = Some c /\ kind_of T c = Some (shape_kind t).
  Proof.
    unfold cls_ok. destruct (class_of T t) as [c|]; [|discriminate]. intros H. exists c. split; auto.
    now apply kind_is_of.
  Qed.

  Lemma wf_cls_ok t : wf T t = true -> is_ref t = true -> cls_ok T t = true.
  Proof.
    destruct t; cbn [wf is_ref]; intros H Hr; try discriminate; auto;
      repeat (apply andb_prop in H as [H ?]); auto.
  Qed.

  Lemma specials_cls_ok t : specials_ok T = true -> In (shape_kind t) node_kinds -> cls_ok T t = true.
  Proof.
    intros Hs Hin. destruct (specials_ok_spec _ Hs Hin) as (c & Hc & Hk).
    unfold cls_ok.
    assert (class_of T t = Some c) as ->.
    { destruct t as [| l [|] | | | | | | |]; cbn in *; auto;
        repeat (destruct Hin as [Hin|Hin]; try discriminate); try contradiction. }
    unfold kind_is. rewrite Hk. apply internal_kind_dec_lb; reflexivity.
  Qed.
End Decode.
