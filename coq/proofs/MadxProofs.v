(* Proofs for C19: with the pinned tables (model/Madx.v, [expected_*]) the
   deferred MAD-X evaluator followed by _get_value agrees with the immediate
   evaluator and with ordinary Python arithmetic, on trees of any depth. *)
From Coq Require Import String List Bool Arith.
From XD Require Import model.MadxSyn model.Madx.
Import ListNotations.
Open Scope string_scope.

(* two results agree: the same value, or both raise *)
Definition res_sim {E A} (a b : res E A) : Prop :=
  match a, b with
  | Ok x, Ok y => x = y
  | Err _, Err _ => True
  | _, _ => False
  end.

Lemma res_sim_refl {E A} (a : res E A) : res_sim a a.
Proof. destruct a; simpl; auto. Qed.

Section PyexprInd.
  Variable P : pyexpr -> Prop.
  Hypothesis Hf : forall t, P (PyFloat t).
  Hypothesis Hb : forall op l r, P l -> P r -> P (PyBin op l r).
  Hypothesis Hu : forall op a, P a -> P (PyUn op a).
  Hypothesis Hv : forall n, P (PyVar n).
  Hypothesis He : forall a e k, P (PyElem a e k).
  Hypothesis Hc : forall f args, Forall P args -> P (PyCall f args).
  Fixpoint pyexpr_ind' (e : pyexpr) : P e :=
    match e with
    | PyFloat t => Hf t
    | PyBin op l r => Hb op l r (pyexpr_ind' l) (pyexpr_ind' r)
    | PyUn op a => Hu op a (pyexpr_ind' a)
    | PyVar n => Hv n
    | PyElem a e k => He a e k
    | PyCall f args =>
        Hc f args ((fix gl (l : list pyexpr) : Forall P l :=
                      match l with [] => Forall_nil _ | x :: r => Forall_cons _ (pyexpr_ind' x) (gl r) end) args)
    end.
End PyexprInd.

Section PtreeInd.
  Variable P : ptree -> Prop.
  Hypothesis Hn : forall t, P (PNumber t).
  Hypothesis Hv : forall n, P (PName n).
  Hypothesis He : forall e k, P (PArrow e k).
  Hypothesis Hc : forall f args, Forall P args -> P (PCallS f args).
  Hypothesis Hu : forall lit a, P a -> P (PUnary lit a).
  Hypothesis Hb : forall lit l r, P l -> P r -> P (PBinary lit l r).
  Fixpoint ptree_ind' (p : ptree) : P p :=
    match p with
    | PNumber t => Hn t
    | PName n => Hv n
    | PArrow e k => He e k
    | PCallS f args =>
        Hc f args ((fix gl (l : list ptree) : Forall P l :=
                      match l with [] => Forall_nil _ | x :: r => Forall_cons _ (ptree_ind' x) (gl r) end) args)
    | PUnary lit a => Hu lit a (ptree_ind' a)
    | PBinary lit l r => Hb lit l r (ptree_ind' l) (ptree_ind' r)
    end.
End PtreeInd.

Section Proofs.
  Variables (E V S : Type).
  Variable stuck : E.
  Variable is_zd : E -> bool.
  Variable e_attr : E.
  Variable nan : V.
  Variable p2 : pyop2 -> V -> V -> res E V.
  Variable p1 : pyop1 -> V -> res E V.
  Variable pfloat : string -> res E V.
  Variable getitem : S -> V -> string -> res E V.
  Variable getattr : S -> V -> string -> res E V.
  Variable pcall : S -> V -> list V -> res E V.
  Variables vs fs es : V.                   (* the variables, functions, elements containers *)
  Variable special : list string.
  Variable attr : bool.                     (* element access mode *)
  Variable cbs : list (string * callback).  (* the callback table: one of the two pinned variants *)
  Hypothesis Hcbs : cbs = expected_callbacks \/ cbs = expected_callbacks_alt.

  Definition roots := [vs; fs; es].
  Definition ealias := if attr then "getattr" else "getitem".

  Definition evp (st : S) : mtree -> res E V :=
    eval E V stuck (plain_alg E V S p2 p1 pfloat getitem getattr pcall st)
         cbs expected_cfg roots ealias.

  Definition dalg := def_alg E V stuck e_attr p2 p1 pfloat expected_rt special.

  Definition evd : mtree -> res E (dv V) :=
    eval E (dv V) stuck dalg cbs expected_cfg [DRoot 0; DRoot 1; DRoot 2] ealias.

  Ltac pin_cbs := unfold evp, evd; destruct Hcbs as [Hc|Hc]; rewrite Hc.

  Definition val (st : S) : dv V -> res E V :=
    value E V S stuck is_zd nan p2 p1 getitem getattr pcall roots expected_rt st.

  Definition run_def (st : S) (t : mtree) : res E V := bind (evd t) (val st).

  Definition pye (guard : bool) (st : S) : pyexpr -> res E V :=
    py_eval E V S stuck is_zd nan p2 p1 pfloat getitem getattr pcall roots guard st.

  Definition nguard := nan_guard E V is_zd nan.

  (* ---- direct forms of the table interpreter, immediate instance ------------------ *)
  Definition cls_of (op : pyop2) : string :=
    match op with OAdd => "AddExpr" | OSub => "SubExpr" | OMul => "MulExpr"
                | OTruediv => "TruedivExpr" | OPow => "PowExpr" end.
  Definition cls1_of (op : pyop1) : string := match op with ONeg => "NegExpr" | OPos => "PosExpr" end.

  (* the node of a binary / unary operator *)
  Definition bin_node (op : pyop2) : mtree -> mtree -> mtree :=
    match op with OAdd => MAdd | OSub => MSub | OMul => MMul | OTruediv => MDiv | OPow => MPow end.
  Definition un_node (op : pyop1) : mtree -> mtree := match op with ONeg => MNeg | OPos => MPos end.

  Lemma evp_bin st op l r :
    evp st (bin_node op l r) = bind (evp st l) (fun x => bind (evp st r) (fun y => p2 op x y)).
  Proof. pin_cbs; destruct op; reflexivity. Qed.

  Lemma evp_un st op a : evp st (un_node op a) = bind (evp st a) (fun x => p1 op x).
  Proof. pin_cbs; destruct op; reflexivity. Qed.

  Lemma evp_number st tok : evp st (MNumber tok) = pfloat tok.
  Proof. pin_cbs; reflexivity. Qed.

  Lemma evp_var st n : evp st (MVar n) = getitem st vs n.
  Proof. pin_cbs; unfold ealias; destruct attr; cbn; destruct (getitem st vs n); reflexivity. Qed.

  Lemma evp_elem st e k :
    evp st (MElem e k) =
    bind (getitem st es e) (fun o => if attr then getattr st o k else getitem st o k).
  Proof.
    pin_cbs; unfold ealias; destruct attr; cbn; destruct (getitem st es e) as [o|]; cbn; auto;
      try (destruct (getattr st o k); reflexivity); destruct (getitem st o k); reflexivity.
  Qed.

  Lemma map_AObj_objs {X} (xs : list X) : objs_of (map AObj xs) = Some xs.
  Proof. induction xs; simpl; auto. rewrite IHxs; auto. Qed.

  Lemma evp_call st f args :
    evp st (MCall f args) =
    bind (mapM (evp st) args) (fun xs => bind (getattr st fs f) (fun fv => pcall st fv xs)).
  Proof.
    pin_cbs; cbn; (destruct (mapM _ args) as [xs|]; cbn; auto);
      rewrite map_AObj_objs; cbn; (destruct (getattr st fs f) as [fv|]; cbn; auto);
      destruct (pcall st fv xs); reflexivity.
  Qed.

  (* ---- direct forms, deferred instance ---------------------------------------------- *)
  Definition dop2 (op : pyop2) (a b : dv V) : res E (dv V) :=
    match a, b with
    | DPlain x, DPlain y => bind (p2 op x y) (fun v => Ok (DPlain v))
    | _, _ => Ok (DBin (cls_of op) a b)
    end.
  Definition dop1 (op : pyop1) (a : dv V) : res E (dv V) :=
    match a with
    | DPlain x => bind (p1 op x) (fun v => Ok (DPlain v))
    | _ => Ok (DUn (cls1_of op) a)
    end.

  Lemma evd_bin op l r :
    evd (bin_node op l r) = bind (evd l) (fun x => bind (evd r) (fun y => dop2 op x y)).
  Proof.
    pin_cbs; destruct op; cbn [bin_node eval]; destruct (eval _ _ _ _ _ _ _ _ l) as [x|ex]; cbn [bind]; auto;
      destruct (eval _ _ _ _ _ _ _ _ r) as [y|ey]; cbn [bind]; auto; destruct x, y; reflexivity.
  Qed.

  Lemma evd_un op a : evd (un_node op a) = bind (evd a) (fun x => dop1 op x).
  Proof.
    pin_cbs; destruct op; cbn [un_node eval]; destruct (eval _ _ _ _ _ _ _ _ a) as [x|ex]; cbn [bind]; auto;
      destruct x; reflexivity.
  Qed.

  Lemma evd_number tok : evd (MNumber tok) = bind (pfloat tok) (fun v => Ok (DPlain v)).
  Proof. pin_cbs; reflexivity. Qed.

  Lemma evd_var n : evd (MVar n) = Ok (DAcc "ItemRef" (DRoot 0) n).
  Proof. pin_cbs; unfold ealias; destruct attr; reflexivity. Qed.

  Lemma evd_elem e k :
    evd (MElem e k) =
    if attr then (if mem k special then Err e_attr else Ok (DAcc "AttrRef" (DAcc "ItemRef" (DRoot 2) e) k))
    else Ok (DAcc "ItemRef" (DAcc "ItemRef" (DRoot 2) e) k).
  Proof. pin_cbs; unfold ealias; destruct attr; cbn; auto; destruct (mem k special); reflexivity. Qed.

  Lemma evd_call f args :
    evd (MCall f args) =
    bind (mapM evd args) (fun ds =>
      if mem f special then Err e_attr else Ok (DCallN "CallRef" (DAcc "AttrRef" (DRoot 1) f) ds)).
  Proof.
    pin_cbs; cbn; (destruct (mapM _ args) as [ds|eds]; cbn; auto);
      rewrite map_AObj_objs; cbn; destruct (mem f special); reflexivity.
  Qed.

  (* ---- _get_value of the nodes the deferred evaluator builds ------------------------- *)
  Lemma val_bin st op l r :
    val st (DBin (cls_of op) l r) =
    bind (val st l) (fun lv => bind (val st r) (fun rv =>
      if pyop2_eqb op OTruediv then nguard (p2 op lv rv) else p2 op lv rv)).
  Proof. destruct op; reflexivity. Qed.

  Lemma val_un st op a : val st (DUn (cls1_of op) a) = bind (val st a) (fun av => p1 op av).
  Proof. destruct op; reflexivity. Qed.

  Lemma val_var st n : val st (DAcc "ItemRef" (DRoot 0) n) = getitem st vs n.
  Proof. reflexivity. Qed.

  Lemma val_elem_item st e k :
    val st (DAcc "ItemRef" (DAcc "ItemRef" (DRoot 2) e) k) = bind (getitem st es e) (fun o => getitem st o k).
  Proof. reflexivity. Qed.

  Lemma val_elem_attr st e k :
    val st (DAcc "AttrRef" (DAcc "ItemRef" (DRoot 2) e) k) = bind (getitem st es e) (fun o => getattr st o k).
  Proof. reflexivity. Qed.

  Lemma val_call st f ds :
    val st (DCallN "CallRef" (DAcc "AttrRef" (DRoot 1) f) ds) =
    bind (getattr st fs f) (fun fv => bind (mapM (val st) ds) (fun avs => pcall st fv avs)).
  Proof. reflexivity. Qed.

  Lemma val_plain st v : val st (DPlain v) = Ok v.
  Proof. reflexivity. Qed.

  (* ---- a uniform view of trees -------------------------------------------------------- *)
  Lemma mtree_cases (P : mtree -> Prop) :
    (forall tok, P (MNumber tok)) -> (forall n, P (MVar n)) -> (forall e k, P (MElem e k)) ->
    (forall f args, Forall P args -> P (MCall f args)) ->
    (forall op a, P a -> P (un_node op a)) ->
    (forall op l r, P l -> P r -> P (bin_node op l r)) ->
    forall t, P t.
  Proof.
    intros Hn Hv He Hc Hu Hb. induction t using mtree_ind'; auto.
    - apply (Hu ONeg); auto.
    - apply (Hu OPos); auto.
    - apply (Hb OAdd); auto.
    - apply (Hb OSub); auto.
    - apply (Hb OMul); auto.
    - apply (Hb OTruediv); auto.
    - apply (Hb OPow); auto.
  Qed.

  Lemma is_const_bin op l r : is_const (bin_node op l r) = is_const l && is_const r.
  Proof. destruct op; reflexivity. Qed.
  Lemma is_const_un op a : is_const (un_node op a) = is_const a.
  Proof. destruct op; reflexivity. Qed.
  Lemma names_ok_bin op l r :
    names_ok special attr (bin_node op l r) = names_ok special attr l && names_ok special attr r.
  Proof. destruct op; reflexivity. Qed.
  Lemma names_ok_un op a : names_ok special attr (un_node op a) = names_ok special attr a.
  Proof. destruct op; reflexivity. Qed.
  Lemma translit_bin op l r :
    translit attr (bin_node op l r) = PyBin op (translit attr l) (translit attr r).
  Proof. destruct op; reflexivity. Qed.
  Lemma translit_un op a : translit attr (un_node op a) = PyUn op (translit attr a).
  Proof. destruct op; reflexivity. Qed.

  Lemma py_const_translit t : py_const (translit attr t) = is_const t.
  Proof.
    induction t as [tok|n|e k|f args IHa|op t IHt|op t1 t2 IHt1 IHt2] using mtree_cases; try reflexivity.
    - rewrite translit_un, is_const_un; simpl; auto.
    - rewrite translit_bin, is_const_bin; simpl; congruence.
  Qed.

  (* ---- the deferred value is plain exactly on constant trees -------------------------- *)
  Lemma dop2_plain op x y d : dop2 op x y = Ok d -> is_plain d = is_plain x && is_plain y.
  Proof.
    destruct x, y; simpl; intros H; try (inversion H; reflexivity).
    destruct (p2 op v v0); simpl in H; inversion H; reflexivity.
  Qed.

  Lemma evd_plain t d : evd t = Ok d -> is_plain d = is_const t.
  Proof.
    revert d. induction t as [tok|n|e k|f args IHa|op t IHt|op t1 t2 IHt1 IHt2] using mtree_cases; intros d Hd.
    - rewrite evd_number in Hd. destruct (pfloat tok); inversion Hd; reflexivity.
    - rewrite evd_var in Hd; inversion Hd; reflexivity.
    - rewrite evd_elem in Hd. destruct attr; [destruct (mem k special)|]; inversion Hd; reflexivity.
    - rewrite evd_call in Hd. destruct (mapM evd args); simpl in Hd; [|discriminate].
      destruct (mem f special); inversion Hd; reflexivity.
    - rewrite evd_un in Hd. rewrite is_const_un. destruct (evd t) as [x|ex]; simpl in Hd; [|discriminate].
      rewrite <- (IHt x eq_refl). destruct x; simpl in *; try (inversion Hd; reflexivity).
      destruct (p1 op v); inversion Hd; reflexivity.
    - rewrite evd_bin in Hd. rewrite is_const_bin.
      destruct (evd t1) as [x|ex]; simpl in Hd; [|discriminate].
      destruct (evd t2) as [y|ey]; simpl in Hd; [|discriminate].
      rewrite <- (IHt1 x eq_refl), <- (IHt2 y eq_refl). eapply dop2_plain; eauto.
  Qed.

  (* ---- deferred versus immediate ---------------------------------------------------------- *)
  (* the invariant carried through the induction *)
  Definition agree {A} (imm : res E A) (dfr : res E A) : Prop :=
    match imm with
    | Ok v => dfr = Ok v
    | Err e => is_zd e = true \/ exists e', dfr = Err e'
    end.

  Definition inv (st : S) (t : mtree) : Prop :=
    match evd t with
    | Err _ => exists e, evp st t = Err e
    | Ok d => agree (evp st t) (val st d)
    end.

  Definition inv_list (st : S) (ts : list mtree) : Prop :=
    match mapM evd ts with
    | Err _ => exists e, mapM (evp st) ts = Err e
    | Ok ds => agree (mapM (evp st) ts) (mapM (val st) ds)
    end.

  Lemma inv_list_of st ts : Forall (inv st) ts -> inv_list st ts.
  Proof.
    unfold inv_list. induction 1 as [|t ts Ht _ IH]; simpl; auto.
    unfold inv in Ht. destruct (evd t) as [d|e1]; simpl.
    - destruct (mapM evd ts) as [ds|e2]; simpl.
      + destruct (evp st t) as [v|e]; simpl in *.
        * rewrite Ht; simpl. destruct (mapM (evp st) ts) as [vs'|e3]; simpl in *.
          -- rewrite IH; reflexivity.
          -- destruct IH as [?|[e' ->]]; auto. right; eexists; reflexivity.
        * destruct Ht as [?|[e' ->]]; auto. right; eexists; reflexivity.
      + destruct IH as [e He]. destruct (evp st t); simpl; rewrite ?He; eexists; reflexivity.
    - destruct Ht as [e ->]. eexists; reflexivity.
  Qed.

  Lemma inv_all st t : names_ok special attr t = true -> inv st t.
  Proof.
    induction t as [tok|n|e k|f args H|op t IHt|op t1 t2 IHt1 IHt2] using mtree_cases; intros Hn; unfold inv.
    - rewrite evd_number, evp_number. destruct (pfloat tok); simpl; eauto.
    - rewrite evd_var, evp_var, val_var. destruct (getitem st vs n); simpl; eauto.
    - rewrite evd_elem, evp_elem. simpl in Hn. destruct attr; simpl in Hn.
      + destruct (mem k special); [discriminate|]. rewrite val_elem_attr.
        destruct (bind _ _); simpl; eauto.
      + rewrite val_elem_item. destruct (bind _ _); simpl; eauto.
    - simpl in Hn. apply andb_prop in Hn. destruct Hn as [Hf Ha].
      assert (IL : inv_list st args).
      { apply inv_list_of. rewrite Forall_forall in *. intros x Hx. apply H; auto.
        rewrite forallb_forall in Ha. auto. }
      unfold inv_list in IL. rewrite evd_call, evp_call.
      destruct (mapM evd args) as [ds|eds]; simpl.
      + destruct (mem f special); [discriminate|]. rewrite val_call.
        destruct (mapM (evp st) args) as [xs|e]; simpl in *.
        * rewrite IL. destruct (getattr st fs f); simpl; eauto. destruct (pcall st a xs); simpl; eauto.
        * destruct IL as [?|[e' ->]]; auto. right. destruct (getattr st fs f); simpl; eauto.
      + destruct IL as [e ->]. eexists; reflexivity.
    - rewrite names_ok_un in Hn. specialize (IHt Hn). unfold inv in IHt.
      rewrite evd_un, evp_un. destruct (evd t) as [x|ex]; simpl;
        [|destruct IHt as [e0 ->]; eexists; reflexivity].
      assert (K : agree (bind (evp st t) (fun a => p1 op a)) (val st (DUn (cls1_of op) x))).
      { rewrite val_un. destruct (evp st t) as [a|e0]; simpl in *.
        - rewrite IHt; simpl. destruct (p1 op a); simpl; eauto.
        - destruct IHt as [?|[e' ->]]; auto. right; eexists; reflexivity. }
      destruct x as [a| | | | |]; try exact K.
      simpl. rewrite val_plain in IHt.
      destruct (evp st t) as [a'|e0]; simpl in *.
      + inversion IHt; subst. destruct (p1 op a'); simpl; eauto.
      + destruct IHt as [?|[e' He']]; [|discriminate]. destruct (p1 op a); simpl; eauto.
    - rewrite names_ok_bin in Hn. apply andb_prop in Hn. destruct Hn as [H1 H2].
      specialize (IHt1 H1). specialize (IHt2 H2). unfold inv in IHt1, IHt2.
      rewrite evd_bin, evp_bin.
      destruct (evd t1) as [x|ex]; simpl; [|destruct IHt1 as [e ->]; eexists; reflexivity].
      destruct (evd t2) as [y|ey]; simpl;
        [|destruct IHt2 as [e ->]; destruct (evp st t1); eexists; reflexivity].
      assert (G : forall a b, agree (p2 op a b) (if pyop2_eqb op OTruediv then nguard (p2 op a b) else p2 op a b)).
      { intros a b. destruct (pyop2_eqb op OTruediv); destruct (p2 op a b) as [v|e]; simpl; eauto.
        destruct (is_zd e) eqn:Z; eauto. }
      assert (K : agree (bind (evp st t1) (fun a => bind (evp st t2) (fun b => p2 op a b)))
                        (val st (DBin (cls_of op) x y))).
      { rewrite val_bin.
        destruct (evp st t1) as [a|e]; simpl in *.
        - rewrite IHt1; simpl. destruct (evp st t2) as [b|e]; simpl in *.
          + rewrite IHt2; simpl. apply G.
          + destruct IHt2 as [?|[e' ->]]; auto. right; eexists; reflexivity.
        - destruct IHt1 as [?|[e' ->]]; auto. right; eexists; reflexivity. }
      destruct x as [a| | | | |]; try exact K.
      destruct y as [b| | | | |]; try exact K.
      simpl. rewrite !val_plain in *.
      destruct (evp st t1) as [a'|e]; simpl in *.
      + inversion IHt1; subst. destruct (evp st t2) as [b'|e]; simpl in *.
        * inversion IHt2; subst. destruct (p2 op a' b'); simpl; eauto.
        * destruct IHt2 as [?|[e' He']]; [|discriminate]. destruct (p2 op a' b); simpl; eauto.
      + destruct IHt1 as [?|[e' He']]; [|discriminate]. destruct (p2 op a b); simpl; eauto.
  Qed.

  (* same number; a failure of the immediate evaluator other than
     ZeroDivisionError is a failure of the deferred one *)
  Theorem deferred_eq_immediate st t :
    names_ok special attr t = true ->
    match evp st t with
    | Ok v => run_def st t = Ok v
    | Err e => is_zd e = true \/ exists e', run_def st t = Err e'
    end.
  Proof.
    intros Hn. pose proof (inv_all st t Hn) as I. unfold inv, run_def in *.
    destruct (evd t) as [d|e0]; simpl.
    - exact I.
    - destruct I as [e ->]. right; eexists; reflexivity.
  Qed.

  (* the deferred expression does not depend on the state of the containers it
     was built in: it keeps agreeing after any change of the variables *)
  Theorem tracks_updates t d :
    names_ok special attr t = true -> evd t = Ok d ->
    forall st', match evp st' t with
                | Ok v => val st' d = Ok v
                | Err e => is_zd e = true \/ exists e', val st' d = Err e'
                end.
  Proof.
    intros Hn Hd st'. pose proof (inv_all st' t Hn) as I. unfold inv in I. rewrite Hd in I. exact I.
  Qed.

  (* ---- immediate = ordinary Python arithmetic ------------------------------------------- *)
  Lemma mapM_sim {A B} (f g : A -> res E B) l :
    Forall (fun x => res_sim (f x) (g x)) l -> res_sim (mapM f l) (mapM g l).
  Proof.
    induction 1 as [|x l Hx _ IH]; simpl; auto.
    destruct (f x), (g x); simpl in *; try contradiction; auto. subst.
    destruct (mapM f l), (mapM g l); simpl in *; try contradiction; auto. congruence.
  Qed.

  Lemma mapM_map {A B C} (f : B -> res E C) (g : A -> B) l : mapM f (map g l) = mapM (fun x => f (g x)) l.
  Proof. induction l; simpl; auto. rewrite IHl; reflexivity. Qed.

  (* direct forms of the Python evaluator *)
  Lemma pye_float g st tok : pye g st (PyFloat tok) = pfloat tok.
  Proof. reflexivity. Qed.
  Lemma pye_var g st n : pye g st (PyVar n) = getitem st vs n.
  Proof. reflexivity. Qed.
  Lemma pye_elem g st e k :
    pye g st (PyElem attr e k) = bind (getitem st es e) (fun o => if attr then getattr st o k else getitem st o k).
  Proof. destruct attr; reflexivity. Qed.
  Lemma pye_un g st op a : pye g st (PyUn op a) = bind (pye g st a) (fun av => p1 op av).
  Proof. reflexivity. Qed.
  Lemma pye_bin g st op l r :
    pye g st (PyBin op l r) =
    bind (pye g st l) (fun lv => bind (pye g st r) (fun rv =>
      if g && pyop2_eqb op OTruediv && negb (py_const l && py_const r) then nguard (p2 op lv rv) else p2 op lv rv)).
  Proof. reflexivity. Qed.
  Lemma pye_call g st f args :
    pye g st (PyCall f args) =
    bind (getattr st fs f) (fun fv => bind (mapM (pye g st) args) (fun avs => pcall st fv avs)).
  Proof. reflexivity. Qed.

  Theorem immediate_python st t : res_sim (evp st t) (pye false st (translit attr t)).
  Proof.
    induction t as [tok|n|e k|f args H|op t IHt|op t1 t2 IHt1 IHt2] using mtree_cases.
    - rewrite evp_number. apply res_sim_refl.
    - rewrite evp_var. apply res_sim_refl.
    - rewrite evp_elem. cbn [translit]. rewrite pye_elem. apply res_sim_refl.
    - rewrite evp_call. cbn [translit]. rewrite pye_call, mapM_map.
      pose proof (mapM_sim _ _ _ H) as M.
      destruct (mapM (evp st) args) as [xs|e1], (mapM _ args) as [ys|e2]; cbn [bind res_sim] in *; try contradiction.
      + subst. apply res_sim_refl.
      + destruct (getattr st fs f); cbn; auto.
    - rewrite evp_un, translit_un, pye_un.
      destruct (evp st t), (pye false st (translit attr t)); cbn [bind res_sim] in *; try contradiction; auto.
      subst; apply res_sim_refl.
    - rewrite evp_bin, translit_bin, pye_bin. cbn [andb].
      destruct (evp st t1), (pye false st (translit attr t1)); cbn [bind res_sim] in *; try contradiction; auto.
      subst.
      destruct (evp st t2), (pye false st (translit attr t2)); cbn [bind res_sim] in *; try contradiction; auto.
      subst; apply res_sim_refl.
  Qed.

  (* ---- deferred = Python arithmetic in which x/0 is nan --------------------------------- *)
  Definition inv2 (st : S) (t : mtree) : Prop :=
    match evd t with
    | Err _ => exists e, pye true st (translit attr t) = Err e
    | Ok d => res_sim (val st d) (pye true st (translit attr t))
    end.

  Lemma inv2_list st ts : Forall (inv2 st) ts ->
    match mapM evd ts with
    | Err _ => exists e, mapM (fun t => pye true st (translit attr t)) ts = Err e
    | Ok ds => res_sim (mapM (val st) ds) (mapM (fun t => pye true st (translit attr t)) ts)
    end.
  Proof.
    induction 1 as [|t ts Ht _ IH]; cbn [mapM bind res_sim]; auto.
    unfold inv2 in Ht. destruct (evd t) as [d|e1]; cbn [bind].
    - destruct (mapM evd ts) as [ds|e2]; cbn [bind mapM].
      + destruct (val st d), (pye true st (translit attr t)); cbn [bind res_sim] in *; try contradiction; auto. subst.
        destruct (mapM (val st) ds), (mapM _ ts); cbn [bind res_sim] in *; try contradiction; auto. congruence.
      + destruct IH as [e He]. destruct (pye true st (translit attr t)); cbn [bind]; rewrite ?He; eexists; reflexivity.
    - destruct Ht as [e ->]. eexists; reflexivity.
  Qed.

  Theorem deferred_nan_python st t : names_ok special attr t = true -> inv2 st t.
  Proof.
    induction t as [tok|n|e k|f args H|op t IHt|op t1 t2 IHt1 IHt2] using mtree_cases; intros Hn; unfold inv2.
    - rewrite evd_number. cbn [translit]. rewrite pye_float. destruct (pfloat tok); cbn; eauto.
    - rewrite evd_var, val_var. apply res_sim_refl.
    - rewrite evd_elem. cbn [names_ok] in Hn. cbn [translit]. rewrite pye_elem. destruct attr; cbn in Hn.
      + destruct (mem k special); [discriminate|]. rewrite val_elem_attr. apply res_sim_refl.
      + rewrite val_elem_item. apply res_sim_refl.
    - cbn [names_ok] in Hn. apply andb_prop in Hn. destruct Hn as [Hf Ha].
      assert (HP : Forall (inv2 st) args).
      { rewrite Forall_forall in *. intros x Hx. apply H; auto. rewrite forallb_forall in Ha; auto. }
      pose proof (inv2_list st args HP) as IL.
      rewrite evd_call. cbn [translit]. rewrite pye_call, mapM_map.
      destruct (mapM evd args) as [ds|eds]; cbn [bind].
      + destruct (mem f special); [discriminate|]. rewrite val_call.
        destruct (getattr st fs f); cbn [bind res_sim]; auto.
        destruct (mapM (val st) ds), (mapM _ args); cbn [bind res_sim] in *; try contradiction; auto.
        subst; apply res_sim_refl.
      + destruct IL as [e He]. rewrite He.
        destruct (getattr st fs f); cbn [bind]; eexists; reflexivity.
    - rewrite names_ok_un in Hn. specialize (IHt Hn). unfold inv2 in IHt.
      rewrite evd_un, translit_un, pye_un.
      destruct (evd t) as [x|ex]; cbn [bind]; [|destruct IHt as [e ->]; eexists; reflexivity].
      assert (K : res_sim (val st (DUn (cls1_of op) x)) (bind (pye true st (translit attr t)) (fun av => p1 op av))).
      { rewrite val_un.
        destruct (val st x), (pye true st (translit attr t)); cbn [bind res_sim] in *; try contradiction; auto.
        subst; apply res_sim_refl. }
      destruct x as [a| | | | |]; try exact K.
      cbn [dop1]. rewrite val_plain in IHt.
      destruct (pye true st (translit attr t)); cbn [bind res_sim] in *; try contradiction. subst.
      destruct (p1 op a0); cbn; eauto.
    - rewrite names_ok_bin in Hn. apply andb_prop in Hn. destruct Hn as [H1 H2].
      specialize (IHt1 H1). specialize (IHt2 H2). unfold inv2 in IHt1, IHt2.
      pose proof (evd_plain t1) as P1. pose proof (evd_plain t2) as P2.
      rewrite evd_bin, translit_bin, pye_bin, !py_const_translit. cbn [andb].
      destruct (evd t1) as [x|ex]; cbn [bind]; [|destruct IHt1 as [e ->]; eexists; reflexivity].
      destruct (evd t2) as [y|ey]; cbn [bind].
      2:{ destruct IHt2 as [e He]. rewrite He.
          destruct (pye true st (translit attr t1)); eexists; reflexivity. }
      specialize (P1 x eq_refl). specialize (P2 y eq_refl). rewrite <- P1, <- P2.
      assert (K : is_plain x && is_plain y = false ->
                  res_sim (val st (DBin (cls_of op) x y))
                    (bind (pye true st (translit attr t1))
                       (fun lv => bind (pye true st (translit attr t2))
                          (fun rv => if pyop2_eqb op OTruediv && negb (is_plain x && is_plain y)
                                     then nguard (p2 op lv rv) else p2 op lv rv)))).
      { intros Hp. rewrite Hp, val_bin. cbn [negb]. rewrite andb_true_r.
        destruct (val st x), (pye true st (translit attr t1)); cbn [bind res_sim] in *; try contradiction; auto.
        subst.
        destruct (val st y), (pye true st (translit attr t2)); cbn [bind res_sim] in *; try contradiction; auto.
        subst. apply res_sim_refl. }
      destruct x as [a| | | | |]; try (apply K; reflexivity).
      destruct y as [b| | | | |]; try (apply K; reflexivity).
      cbn [dop2 is_plain andb negb]. rewrite !val_plain in *. rewrite andb_false_r.
      destruct (pye true st (translit attr t1)); cbn [bind res_sim] in *; try contradiction. subst.
      destruct (pye true st (translit attr t2)); cbn [bind res_sim] in *; try contradiction. subst.
      destruct (p2 op _ _); cbn; eauto.
  Qed.

  Theorem deferred_nan_python_run st t :
    names_ok special attr t = true -> res_sim (run_def st t) (pye true st (translit attr t)).
  Proof.
    intros Hn. pose proof (deferred_nan_python st t Hn) as I. unfold inv2, run_def in *.
    destruct (evd t); cbn [bind]; auto. destruct I as [e9 ->]. exact I.
  Qed.

  (* the guard only matters when ordinary arithmetic raises ZeroDivisionError *)
  Theorem nan_only_on_zero_division st e v :
    pye false st e = Ok v -> pye true st e = Ok v.
  Proof.
    revert v. unfold pye.
    assert (L : forall args, Forall (fun e => forall v, py_eval E V S stuck is_zd nan p2 p1 pfloat getitem getattr pcall roots false st e = Ok v ->
                                   py_eval E V S stuck is_zd nan p2 p1 pfloat getitem getattr pcall roots true st e = Ok v) args ->
               forall vs', mapM (py_eval E V S stuck is_zd nan p2 p1 pfloat getitem getattr pcall roots false st) args = Ok vs' ->
                           mapM (py_eval E V S stuck is_zd nan p2 p1 pfloat getitem getattr pcall roots true st) args = Ok vs').
    { induction 1 as [|x l Hx _ IH]; simpl; auto. intros vs' Hm.
      destruct (py_eval _ _ _ _ _ _ _ _ _ _ _ _ _ _ _ x) as [a|] eqn:Ex; simpl in Hm; [|discriminate].
      rewrite (Hx a eq_refl); simpl.
      destruct (mapM _ l) as [as'|] eqn:El; simpl in Hm; [|discriminate].
      rewrite (IH as' eq_refl); simpl. exact Hm. }
    induction e as [tok|op l r IHl IHr|op a IHa|n|at' el k|f args IHargs] using pyexpr_ind'; intros v Hv; simpl in *; auto.
    - destruct (py_eval _ _ _ _ _ _ _ _ _ _ _ _ _ _ _ l) as [lv|]; simpl in Hv; [|discriminate].
      rewrite (IHl lv eq_refl); simpl.
      destruct (py_eval _ _ _ _ _ _ _ _ _ _ _ _ _ _ _ r) as [rv|]; simpl in Hv; [|discriminate].
      rewrite (IHr rv eq_refl); simpl. rewrite Hv. destruct (_ && _); reflexivity.
    - destruct (py_eval _ _ _ _ _ _ _ _ _ _ _ _ _ _ _ a) as [av|]; simpl in Hv; [|discriminate].
      rewrite (IHa av eq_refl); simpl. exact Hv.
    - destruct (getattr st fs f); simpl in *; auto.
      destruct (mapM _ args) as [avs|] eqn:Em; simpl in Hv; [|discriminate].
      rewrite (L args IHargs avs Em); simpl. exact Hv.
  Qed.
End Proofs.

(* ---- fully parenthesised input --------------------------------------------------------------- *)
Lemma omap_Forall2 {A B} (f : A -> option B) l l' :
  omap f l = Some l' -> Forall2 (fun x y => f x = Some y) l l'.
Proof.
  revert l'. induction l as [|x l IH]; simpl; intros l' H.
  - inversion H; constructor.
  - destruct (f x) eqn:Ex; [|discriminate]. destruct (omap f l) eqn:El; [|discriminate].
    inversion H; subst. constructor; auto.
Qed.

(* For the pinned grammar: the tree a fully parenthesised expression is
   labelled with transliterates to the Python expression with the same
   spelling ('^' as '**'). *)
Lemma paren_translit (attr : bool) (p : ptree) :
  forall t, parse_paren (expected_grammar (if attr then "getattr" else "getitem"))
                        (if attr then "getattr" else "getitem") p = Some t ->
            to_python attr p = Some (translit attr t).
Proof.
  induction p as [tok|n|e k|f args IH|lit a IH|lit l r IHl IHr] using ptree_ind'; intros t H.
  - destruct attr; cbn in H; inversion H; reflexivity.
  - destruct attr; cbn in H; inversion H; reflexivity.
  - destruct attr; cbn in H; inversion H; reflexivity.
  - assert (Hc : alias_of_shape (expected_grammar (if attr then "getattr" else "getitem")) shape_call = Some "call")
      by (destruct attr; reflexivity).
    cbn [parse_paren] in H. rewrite Hc in H.
    destruct (omap _ args) as [ts|] eqn:Eo; [|discriminate].
    cbn in H. destruct (Nat.eqb (length ts) 0); cbn in H; inversion H; subst. cbn [to_python translit].
    assert (Hm : omap (to_python attr) args = Some (map (translit attr) ts)).
    { clear H Hc. revert ts Eo. induction IH as [|x l Hx _ IHl]; intros ts Eo; simpl in *.
      - inversion Eo; reflexivity.
      - destruct (parse_paren _ _ x) as [tx|] eqn:Ex; [|discriminate].
        destruct (omap _ l) as [tl|] eqn:El; [|discriminate]. inversion Eo; subst.
        rewrite (Hx tx eq_refl), (IHl tl eq_refl). reflexivity. }
    rewrite Hm. reflexivity.
  - cbn [parse_paren] in H.
    destruct (parse_paren _ _ a) as [ta|] eqn:Et.
    2:{ destruct (alias_of_shape _ _); discriminate. }
    specialize (IH ta eq_refl). cbn [to_python]. rewrite IH.
    destruct lit, attr; cbn in H; inversion H; reflexivity.
  - cbn [parse_paren] in H.
    destruct (parse_paren _ _ l) as [tl|] eqn:El.
    2:{ destruct (alias_of_shape _ _); discriminate. }
    destruct (parse_paren _ _ r) as [tr|] eqn:Er.
    2:{ destruct (alias_of_shape _ _); discriminate. }
    specialize (IHl tl eq_refl). specialize (IHr tr eq_refl). cbn [to_python]. rewrite IHl, IHr.
    destruct lit, attr; cbn in H; inversion H; reflexivity.
Qed.
