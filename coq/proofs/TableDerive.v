(* Row-name resolution on derived tables (model/TableDerive.v): a derived table
   starts without a cache, hence every history of updates, lookups and
   derivations keeps the cache absent or equal to the cache of the CURRENT
   index column, and resolution on a derived table depends on its own index
   column only. *)
From Coq Require Import List Bool Arith ZArith NArith Lia.
From XD Require Import lib.ListAux model.Table model.TableSel model.TableDerive proofs.TableCache.
Import ListNotations.
Open Scope Z_scope.

Definition dop_raw_ok (col : list N) (d : dop) : Prop :=
  match d with DOp o => op_raw_ok col o | _ => True end.

Fixpoint dops_raw_ok (t : table) (ops : list dop) : Prop :=
  match ops with
  | [] => True
  | d :: rest => dop_raw_ok (t_idx t) d /\ dops_raw_ok (fst (dstep t d)) rest
  end.

Lemma append_rows_cache t r : t_cache (append_rows t r) = None.
Proof. reflexivity. Qed.

Lemma fold_append_cache t pss : forall acc, t_cache acc = None ->
  t_cache (fold_left (fun a ps => append_rows a (take_rows t ps)) pss acc) = None.
Proof. induction pss as [|ps r IH]; intros acc H; cbn [fold_left]; auto. Qed.

(* a derivation returns a table without a cache, or raises and leaves the table *)
Lemma derived_cache t d : (forall o, d <> DOp o) ->
  t_cache (fst (dstep t d)) = None \/ fst (dstep t d) = t.
Proof.
  intros Hd. destruct d as [o|  |ix|k| |ix|keep|l|labels|c old|vals]; cbn [dstep].
  - exfalso. now apply (Hd o).
  - now left.
  - destruct (idx_positions _ ix); [now left | now right].
  - destruct (k <=? 0); [now right | now left].
  - now left.
  - destruct (idx_positions _ ix); [now left | now right].
  - now left.
  - destruct (all_positions _ l); [left | now right]. cbn [fst]. now apply fold_append_cache.
  - now left.
  - destruct (aget N.eqb c (t_cols t)); [now left | now right].
  - now left.
Qed.

Theorem dstep_coherent t d : coherent t -> dop_raw_ok (t_idx t) d -> coherent (fst (dstep t d)).
Proof.
  intros Hc Hr. destruct d as [o|  |ix|k| |ix|keep|l|labels|c old|vals].
  1: { cbn [dstep dop_raw_ok] in *. now apply step_coherent. }
  all: match goal with |- coherent (fst (dstep ?tt ?d)) =>
         destruct (derived_cache tt d) as [H|H]; [intros o; discriminate | now left | now rewrite H] end.
Qed.

Theorem dfinal_coherent ops : forall t, coherent t -> dops_raw_ok t ops -> coherent (dfinal t ops).
Proof.
  unfold dfinal. induction ops as [|d rest IH]; intros t Hc Hr; cbn; auto.
  destruct Hr as [Hd Hrest]. apply IH; auto. now apply dstep_coherent.
Qed.

(* lookups on the table reached by any history of updates and derivations
   resolve against that table's own current index column *)
Theorem derived_fresh t0 ops r :
  t_cache t0 = None -> dops_raw_ok t0 ops ->
  let t := dfinal t0 ops in
  snd (step t (OGetIndex r)) = or_key (resolve_spec (t_idx t) r) /\
  (raw_ok (t_idx t) r -> forall cr,
   snd (step t (OGetCell cr r)) =
   match resolve_spec (t_idx t) r with Some i => cell_at t cr i | None => RErr KeyError end).
Proof.
  intros H0 Hr t. assert (Hc : coherent t) by (apply dfinal_coherent; [now left | exact Hr]).
  split; [now apply get_index_current|]. intros Hraw cr. now apply get_cell_current.
Qed.

(* the index column of t + t and t * k, spelled out *)
Lemma add_self_idx t : t_idx (fst (dstep t DAddSelf)) = t_idx t ++ t_idx t.
Proof. reflexivity. Qed.

Lemma mul_idx t k : 0 < k -> t_idx (fst (dstep t (DMul k))) = drep (Z.to_nat k) (t_idx t).
Proof. intros H. cbn [dstep]. destruct (k <=? 0) eqn:E; [lia | reflexivity]. Qed.
