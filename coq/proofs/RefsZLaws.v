(* The executable integer instance satisfies Python's comparison mirror law
   (hypothesis of C04_homomorphism): non-vacuity of that hypothesis. *)
From Coq Require Import List ZArith NArith Bool Lia.
From XD Require Import model.RefSyntax model.RefTables model.Refs model.RefsZ.
Import ListNotations.
Open Scope Z_scope.

Lemma z_mirror : forall op a b, is_cmp op = true -> z_pyop op a b = z_pyop (mirror op) b a.
Proof.
  intros op a b Hc. unfold z_pyop.
  destruct (to_num a) as [[x|]|], (to_num b) as [[y|]|]; destruct op; try discriminate; cbn [mirror];
    try reflexivity; f_equal; f_equal.
  - now rewrite Z.gtb_ltb.
  - now rewrite Z.geb_leb.
  - now rewrite Z.geb_leb.
  - now rewrite Z.gtb_ltb.
Qed.
