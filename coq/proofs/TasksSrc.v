(* The translated SOURCE of the bookkeeping methods (coq/gen/GenTasks.v, regenerated
   from xdeps/tasks.py and xdeps/refs.py on every run) denotes exactly the functions
   of the hand-written model (model/Manager.v): RefCount.append / extend / remove,
   Manager.register, Manager.unregister, freeze_tree, unfreeze_tree, find_taskids.
   A change of one of these methods changes the generated term, and the
   corresponding theorem below no longer goes through. *)
From Coq Require Import List Bool Arith Lia.
From XD Require Import lib.ListAux lib.Toposort model.Manager model.TasksSem gen.GenTasks.
Import ListNotations.

Section Src.
Context {K A : Type}.
Variable eqb : K -> K -> bool.
Hypothesis eqb_spec : forall a b, eqb a b = true <-> a = b.

Notation mgrT := (@mgr K A).
Notation taskT := (@task K A).
Notation MT := (@M K A).

(* ---- RefCount ---------------------------------------------------------------------------- *)
Lemma src_rc_append_eq item rc : src_rc_append eqb item rc = Ok (rc_append eqb item rc).
Proof.
  unfold src_rc_append, rc_append. destruct (aget eqb item rc) as [n|]; [|reflexivity].
  now rewrite Nat.add_1_r.
Qed.

Lemma src_rc_extend_eq l : forall rc, src_rc_extend eqb l rc = Ok (rc_extend eqb l rc).
Proof.
  unfold src_rc_extend, rc_extend. induction l as [|x l IH]; intros rc; cbn [rc_for fold_left]; [reflexivity|].
  rewrite src_rc_append_eq. apply IH.
Qed.

Lemma src_rc_remove_eq item rc :
  src_rc_remove eqb item rc = match rc_remove eqb item rc with Some r => Ok r | None => Err EKey end.
Proof.
  unfold src_rc_remove, rc_remove. destruct (aget eqb item rc) as [n|]; [|reflexivity].
  destruct (1 <? n); reflexivity.
Qed.

(* ---- record plumbing ------------------------------------------------------------------------ *)
Lemma ix_get_set i d (m : mgrT) : ix_get i (ix_set i d m) = d.
Proof. destruct i; reflexivity. Qed.

Lemma ix_set_set i d d' (m : mgrT) : ix_set i d (ix_set i d' m) = ix_set i d m.
Proof. destruct i; reflexivity. Qed.

Lemma ix_set_get i (m : mgrT) : ix_set i (ix_get i m) m = m.
Proof. destruct m, i; reflexivity. Qed.

Lemma for_list_total l (body : K -> MT) (f : K -> mgrT -> mgrT) :
  (forall x m, body x m = Ok (f x m)) ->
  forall m, for_list l body m = Ok (fold_left (fun m x => f x m) l m).
Proof.
  intros H. induction l as [|x l IH]; intros m; cbn [for_list fold_left]; [reflexivity|].
  unfold seq. rewrite H. apply IH.
Qed.

Lemma fold_ix_set i (g : K -> @index K -> @index K) l : forall m : mgrT,
  fold_left (fun m x => ix_set i (g x (ix_get i m)) m) l m =
  ix_set i (fold_left (fun d x => g x d) l (ix_get i m)) m.
Proof.
  induction l as [|x l IH]; intros m; cbn [fold_left]; [now rewrite ix_set_get|].
  rewrite IH, ix_get_set, ix_set_set. reflexivity.
Qed.

Lemma entry_call_total i k (meth : @RC K) f : (forall rc, meth rc = Ok (f rc)) ->
  forall m : mgrT, entry_call eqb i k meth m = Ok (ix_set i (iupd eqb k f (ix_get i m)) m).
Proof.
  intros H m. unfold entry_call, with_entry, iupd.
  destruct (iget eqb k (ix_get i m)) as [rc d']. rewrite H, ix_get_set, ix_set_set. reflexivity.
Qed.

Lemma iget_idem k (d : @index K) :
  iget eqb k (snd (iget eqb k d)) = (fst (iget eqb k d), snd (iget eqb k d)).
Proof.
  unfold iget. destruct (aget eqb k d) as [rc|] eqn:E; cbn [fst snd].
  - now rewrite E.
  - rewrite (aget_app eqb), E. cbn. now rewrite (eqb_refl eqb eqb_spec).
Qed.

Lemma adrop_absent {V} k (l : list (K * V)) : aget eqb k l = None -> adrop eqb k l = l.
Proof.
  induction l as [|[k' v'] t IH]; cbn; [reflexivity|].
  destruct (eqb k k'); [discriminate|]. intros H. now rewrite IH.
Qed.

(* ---- register ---------------------------------------------------------------------------------- *)
Lemma register_dep_body (tid : K) (targets : list K) dep (m : mgrT) :
  seq (entry_call eqb IRdeps dep (src_rc_extend eqb targets))
      (seq (entry_call eqb IDeptasks dep (src_rc_append eqb tid))
           (for_entry eqb ITartasks dep (fun deptask => entry_call eqb IRtasks deptask (src_rc_append eqb tid)))) m
  = Ok (reg_dep eqb tid targets m dep).
Proof.
  unfold seq.
  rewrite (entry_call_total IRdeps dep _ (rc_extend eqb targets)) by (intros; apply src_rc_extend_eq).
  rewrite (entry_call_total IDeptasks dep _ (rc_append eqb tid)) by (intros; apply src_rc_append_eq).
  unfold for_entry, with_entry, reg_dep. cbn [ix_get ix_set m_rdeps m_rtasks m_deptasks m_tartasks m_tasks m_frozen].
  destruct (iget eqb dep (m_tartasks m)) as [tks tart].
  rewrite (for_list_total _ _ (fun deptask m => ix_set IRtasks (iupd eqb deptask (rc_append eqb tid) (ix_get IRtasks m)) m))
    by (intros; apply entry_call_total; intros; apply src_rc_append_eq).
  rewrite (fold_ix_set IRtasks (fun deptask d => iupd eqb deptask (rc_append eqb tid) d)).
  reflexivity.
Qed.

Lemma register_tar_body (tid : K) tar (m : mgrT) :
  seq (entry_call eqb ITartasks tar (src_rc_append eqb tid))
      (with_entry eqb IDeptasks tar (fun other =>
         for_list (rc_keys other) (fun deptask => entry_call eqb IRtasks tid (src_rc_append eqb deptask)))) m
  = Ok (reg_tar eqb tid m tar).
Proof.
  unfold seq.
  rewrite (entry_call_total ITartasks tar _ (rc_append eqb tid)) by (intros; apply src_rc_append_eq).
  unfold with_entry, reg_tar. cbn [ix_get ix_set m_rdeps m_rtasks m_deptasks m_tartasks m_tasks m_frozen].
  destruct (iget eqb tar (m_deptasks m)) as [other dt].
  rewrite (for_list_total _ _ (fun deptask m => ix_set IRtasks (iupd eqb tid (rc_append eqb deptask) (ix_get IRtasks m)) m))
    by (intros; apply entry_call_total; intros; apply src_rc_append_eq).
  rewrite (fold_ix_set IRtasks (fun deptask d => iupd eqb tid (rc_append eqb deptask) d)).
  reflexivity.
Qed.

Theorem src_register_eq (t : taskT) (m : mgrT) : src_register eqb t m = register eqb t m.
Proof.
  unfold src_register, register. unfold seq at 1. unfold raise_if_frozen.
  destruct (m_frozen m) eqn:F; [reflexivity|].
  cbv zeta. unfold seq at 1. unfold tasks_setitem.
  unfold seq at 1.
  rewrite (for_list_total _ _ (fun dep m => reg_dep eqb (t_id t) (t_targets t) m dep)) by (intros; apply register_dep_body).
  rewrite (for_list_total _ _ (fun tar m => reg_tar eqb (t_id t) m tar)) by (intros; apply register_tar_body).
  reflexivity.
Qed.

(* ---- unregister -------------------------------------------------------------------------------- *)
Lemma if_in_remove i k v (m : mgrT) :
  if_in_entry eqb i k v (entry_call eqb i k (src_rc_remove eqb v)) m = Ok (ix_set i (idec eqb k v (ix_get i m)) m).
Proof.
  unfold if_in_entry, with_entry, idec.
  pose proof (iget_idem k (ix_get i m)) as Hid.
  destruct (iget eqb k (ix_get i m)) as [rc d'] eqn:E. cbn [fst snd] in Hid.
  destruct (rc_mem eqb v rc) eqn:Hm.
  - unfold entry_call, with_entry. rewrite ix_get_set, Hid, src_rc_remove_eq.
    unfold rc_remove_if. unfold rc_mem in Hm. unfold rc_remove.
    destruct (aget eqb v rc) as [n|]; [|discriminate].
    destruct (1 <? n); rewrite ?ix_get_set, ?ix_set_set; reflexivity.
  - reflexivity.
Qed.

Lemma unregister_dep_body (tid : K) (targets : list K) dep (m : mgrT) :
  seq (for_list targets (fun target =>
         if_in_entry eqb IRdeps dep target (entry_call eqb IRdeps dep (src_rc_remove eqb target))))
      (seq (for_entry eqb ITartasks dep (fun deptask =>
              if_in_entry eqb IRtasks deptask tid (entry_call eqb IRtasks deptask (src_rc_remove eqb tid))))
           (if_in_entry eqb IDeptasks dep tid (entry_call eqb IDeptasks dep (src_rc_remove eqb tid)))) m
  = Ok (unreg_dep eqb tid targets m dep).
Proof.
  unfold seq.
  rewrite (for_list_total _ _ (fun target m => ix_set IRdeps (idec eqb dep target (ix_get IRdeps m)) m))
    by (intros; apply if_in_remove).
  rewrite (fold_ix_set IRdeps (fun target d => idec eqb dep target d)).
  unfold for_entry, with_entry, unreg_dep. cbn [ix_get ix_set m_rdeps m_rtasks m_deptasks m_tartasks m_tasks m_frozen].
  destruct (iget eqb dep (m_tartasks m)) as [tks tart].
  rewrite (for_list_total _ _ (fun deptask m => ix_set IRtasks (idec eqb deptask tid (ix_get IRtasks m)) m))
    by (intros; apply if_in_remove).
  rewrite (fold_ix_set IRtasks (fun deptask d => idec eqb deptask tid d)).
  rewrite if_in_remove. reflexivity.
Qed.

Lemma unregister_tars_loop (tid : K) targets : forall m : mgrT,
  for_list targets (fun tar => entry_call eqb ITartasks tar (src_rc_remove eqb tid)) m =
  match unreg_tars eqb tid targets (m_tartasks m) with
  | Some tart => Ok (ix_set ITartasks tart m)
  | None => Err EKey
  end.
Proof.
  induction targets as [|tar rest IH]; intros m; cbn [for_list unreg_tars].
  - unfold ret. destruct m; reflexivity.
  - unfold seq, entry_call, with_entry. cbn [ix_get].
    destruct (iget eqb tar (m_tartasks m)) as [rc tart']. rewrite src_rc_remove_eq.
    destruct (rc_remove eqb tid rc) as [rc'|]; [|reflexivity].
    rewrite IH. cbn [ix_get ix_set m_tartasks].
    destruct (unreg_tars eqb tid rest (aset eqb tar rc' tart')); reflexivity.
Qed.

Lemma unreg_deps_tasks (tid : K) targets deps : forall m : mgrT,
  m_tasks (fold_left (unreg_dep eqb tid targets) deps m) = m_tasks m.
Proof.
  induction deps as [|d deps IH]; intros m; cbn [fold_left]; [reflexivity|].
  rewrite IH. unfold unreg_dep. destruct (iget eqb d (m_tartasks m)). reflexivity.
Qed.

Theorem src_unregister_eq (tid : K) (m : mgrT) : src_unregister eqb tid m = unregister eqb tid m.
Proof.
  unfold src_unregister, unregister. unfold seq at 1. unfold raise_if_frozen.
  destruct (m_frozen m) eqn:F; [reflexivity|].
  unfold with_task. destruct (aget eqb tid (m_tasks m)) as [t|] eqn:Ht; [|reflexivity].
  unfold seq at 1.
  rewrite (for_list_total _ _ (fun dep m => unreg_dep eqb tid (t_targets t) m dep)) by (intros; apply unregister_dep_body).
  set (m1 := fold_left (fun m x => unreg_dep eqb tid (t_targets t) m x) (t_deps t) m).
  assert (Hm1 : m1 = fold_left (unreg_dep eqb tid (t_targets t)) (t_deps t) m) by reflexivity.
  assert (Ht1 : aget eqb tid (m_tasks m1) = Some t) by (rewrite Hm1, unreg_deps_tasks; exact Ht).
  try rewrite <- Hm1. cbv zeta. unfold seq at 1. rewrite unregister_tars_loop.
  destruct (unreg_tars eqb tid (t_targets t) (m_tartasks m1)) as [tart|]; [|reflexivity].
  unfold seq, if_has_key, del_key, tasks_delitem. cbn [ix_get ix_set m_rdeps m_rtasks m_deptasks m_tartasks m_tasks m_frozen].
  destruct (aget eqb tid (m_rtasks m1)) as [x|] eqn:Hr.
  - rewrite ?Hr. cbn [m_tasks m_rdeps m_rtasks m_deptasks m_tartasks m_frozen]. rewrite Ht1. reflexivity.
  - cbn [m_tasks m_rdeps m_rtasks m_deptasks m_tartasks m_frozen]. rewrite Ht1.
    rewrite (adrop_absent tid (m_rtasks m1) Hr). reflexivity.
Qed.

(* ---- freeze / unfreeze ----------------------------------------------------------------------------- *)
Theorem src_freeze_eq (m : mgrT) : src_freeze_tree m = Ok (set_frozen true m).
Proof. reflexivity. Qed.

Theorem src_unfreeze_eq (m : mgrT) : src_unfreeze_tree m = Ok (set_frozen false m).
Proof. reflexivity. Qed.

(* ---- find_taskids ------------------------------------------------------------------------------------ *)
Lemma start_loop l : forall acc (m : mgrT),
  for_list_acc l (fun dep => set_update_entry eqb IDeptasks dep) acc m =
  let F := fold_left (fun (a : list K * @index K) dep =>
                        let '(set, dt) := a in let '(rc, dt') := iget eqb dep dt in
                        (fold_left (add_new eqb) (rc_keys rc) set, dt')) l (acc, m_deptasks m) in
  Ok (fst F, ix_set IDeptasks (snd F) m).
Proof.
  induction l as [|dep l IH]; intros acc m; cbn [for_list_acc fold_left].
  - destruct m; reflexivity.
  - unfold set_update_entry at 1. cbn [ix_get].
    destruct (iget eqb dep (m_deptasks m)) as [rc dt']. rewrite IH. cbv zeta.
    change (m_deptasks (ix_set IDeptasks dt' m)) with dt'. rewrite ix_set_set. reflexivity.
Qed.

Theorem src_find_taskids_eq (sd order : list K) (m : mgrT) :
  src_find_taskids eqb sd order m = find_taskids eqb m sd order.
Proof.
  unfold src_find_taskids, find_taskids, start_set. rewrite start_loop. cbv zeta.
  destruct (fold_left _ sd ([], m_deptasks m)) as [set dt]. cbn [fst snd].
  unfold call_toposort. cbn [ix_get ix_set m_rtasks]. destruct (same_set eqb order set); reflexivity.
Qed.

End Src.
