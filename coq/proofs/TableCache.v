(* Proofs about the row-name cache of xdeps.table.Table (model/Table.v). *)
From Coq Require Import List Bool Arith ZArith NArith Lia ZifyBool.
From XD Require Import lib.ListAux model.Table.
Import ListNotations.
Open Scope Z_scope.

Lemma Neqb_spec : forall a b : N, N.eqb a b = true <-> a = b.
Proof. intros; apply N.eqb_eq. Qed.

Lemma keyeqb_spec : forall a b : N * Z, keyeqb a b = true <-> a = b.
Proof.
  intros [a1 a2] [b1 b2]; unfold keyeqb; cbn. rewrite andb_true_iff, N.eqb_eq, Z.eqb_eq.
  split; [intros [-> ->]; reflexivity | intros H; inversion H; auto].
Qed.

(* ---- positions ---------------------------------------------------------- *)

Lemma positions_app col1 col2 n i :
  positions (col1 ++ col2) n i = positions col1 n i ++ positions col2 n (i + length col1)%nat.
Proof.
  revert i; induction col1 as [|x t IH]; intros i; cbn.
  - now rewrite Nat.add_0_r.
  - rewrite IH. replace (S i + length t)%nat with (i + S (length t))%nat by lia.
    destruct (N.eqb x n); reflexivity.
Qed.

Lemma positions_snoc col x n :
  positions (col ++ [x]) n 0 = positions col n 0 ++ (if N.eqb x n then [length col] else []).
Proof. rewrite positions_app; cbn. reflexivity. Qed.

Lemma positions_lt col n i k : In k (positions col n i) -> (i <= k < i + length col)%nat.
Proof.
  revert i; induction col as [|x t IH]; intros i; cbn; [tauto|].
  destruct (N.eqb x n); cbn; intros H.
  - destruct H as [<-|H]; [lia|]. apply IH in H; lia.
  - apply IH in H; lia.
Qed.

Lemma positions_nth col n i k : In k (positions col n i) -> nth_error col (k - i) = Some n.
Proof.
  revert i; induction col as [|x t IH]; intros i; cbn; [tauto|].
  destruct (N.eqb x n) eqn:E; cbn; intros H.
  - destruct H as [<-|H].
    + rewrite Nat.sub_diag; cbn. apply N.eqb_eq in E; now subst.
    + pose proof (positions_lt _ _ _ _ H). apply IH in H.
      replace (k - i)%nat with (S (k - S i)) by lia. exact H.
  - pose proof (positions_lt _ _ _ _ H). apply IH in H.
    replace (k - i)%nat with (S (k - S i)) by lia. exact H.
Qed.

(* ---- the loop invariant of _make_cache ---------------------------------- *)

Definition loop_inv (p : list N) (st : cache * nat) : Prop :=
  let '(c, ii) := st in
  ii = length p /\
  (forall n, aget N.eqb n (c_cnt c) =
             match positions p n 0 with [] => None | ps => Some (Z.of_nat (length ps) - 1) end) /\
  (forall n k, aget keyeqb (n, k) (c_idx c) =
               if k <? 0 then None else nth_error (positions p n 0) (Z.to_nat k)) /\
  length (c_lab c) = length p /\
  (forall i n k, nth_error (c_lab c) i = Some (n, k) ->
                 exists kk, k = Some kk /\ 0 <= kk /\ nth_error (positions p n 0) (Z.to_nat kk) = Some i).

Lemma loop_inv_init : loop_inv [] (mkCache [] [] [], 0%nat).
Proof.
  cbn. repeat split; auto.
  - intros n k. destruct (k <? 0); auto. now destruct (Z.to_nat k).
  - intros i n k H. destruct i; discriminate.
Qed.

Lemma nth_error_app_some {A} (l1 l2 : list A) i x :
  nth_error l1 i = Some x -> nth_error (l1 ++ l2) i = Some x.
Proof.
  intros H. rewrite nth_error_app1; auto. apply nth_error_Some. congruence.
Qed.

Lemma loop_inv_step p st x : loop_inv p st -> loop_inv (p ++ [x]) (cache_step st x).
Proof.
  destruct st as [c ii]. unfold loop_inv, cache_step.
  intros (Hii & Hcnt & Hidx & Hlen & Hlab).
  set (cc := cnt_get x (c_cnt c) (-1) + 1).
  assert (Hcc : cc = Z.of_nat (length (positions p x 0))).
  { unfold cc, cnt_get. rewrite Hcnt. destruct (positions p x 0); cbn [length]; lia. }
  cbn [c_idx c_cnt c_lab].
  split; [rewrite app_length; cbn; lia|].
  split; [|split; [|split]].
  - intros n. rewrite positions_snoc. destruct (N.eqb x n) eqn:E.
    + apply N.eqb_eq in E; subst n. rewrite (aget_aset_same _ Neqb_spec).
      destruct (positions p x 0 ++ [length p]) eqn:E2.
      * destruct (positions p x 0); discriminate.
      * rewrite <- E2, app_length; cbn [length]. f_equal. lia.
    + rewrite (aget_aset_other _ Neqb_spec) by (intros ->; rewrite N.eqb_refl in E; discriminate).
      rewrite app_nil_r. apply Hcnt.
  - intros n k. rewrite positions_snoc.
    destruct (keyeqb (x, cc) (n, k)) eqn:E.
    + apply keyeqb_spec in E. inversion E; subst n k.
      rewrite (aget_aset_same _ keyeqb_spec). rewrite N.eqb_refl.
      destruct (cc <? 0) eqn:E3; [lia|].
      rewrite nth_error_snoc. rewrite Hcc, Nat2Z.id, Nat.ltb_irrefl, Nat.eqb_refl.
      now rewrite Hii.
    + rewrite (aget_aset_other _ keyeqb_spec) by (intros H; rewrite H in E; rewrite (proj2 (keyeqb_spec _ _) eq_refl) in E; discriminate).
      rewrite Hidx. destruct (k <? 0) eqn:Ek; auto.
      destruct (N.eqb x n) eqn:En; [|now rewrite app_nil_r].
      apply N.eqb_eq in En; subst n.
      rewrite nth_error_snoc.
      destruct (Nat.ltb_spec (Z.to_nat k) (length (positions p x 0))); auto.
      destruct (Nat.eqb_spec (Z.to_nat k) (length (positions p x 0))).
      * exfalso. assert (k = cc) by lia. subst k.
        rewrite (proj2 (keyeqb_spec _ _) eq_refl) in E; discriminate.
      * apply nth_error_None; lia.
  - rewrite !app_length; cbn; lia.
  - intros i n k Hn. rewrite nth_error_snoc in Hn.
    destruct (Nat.ltb_spec i (length (c_lab c))).
    + destruct (Hlab _ _ _ Hn) as (kk & -> & Hk0 & Hk). exists kk; repeat split; auto.
      rewrite positions_snoc. now apply nth_error_app_some.
    + destruct (Nat.eqb_spec i (length (c_lab c))); [|discriminate].
      inversion Hn; subst n k i. exists cc; repeat split; [lia|].
      rewrite positions_snoc, N.eqb_refl, nth_error_snoc, Hcc, Nat2Z.id, Nat.ltb_irrefl, Nat.eqb_refl.
      now rewrite Hlen.
Qed.

Lemma fold_inv p2 : forall p1 st, loop_inv p1 st -> loop_inv (p1 ++ p2) (fold_left cache_step p2 st).
Proof.
  induction p2 as [|x t IH]; intros p1 st H; cbn.
  - now rewrite app_nil_r.
  - replace (p1 ++ x :: t) with ((p1 ++ [x]) ++ t) by now rewrite <- app_assoc.
    apply IH. now apply loop_inv_step.
Qed.

Lemma cache_loop_inv col : loop_inv col (fold_left cache_step col (mkCache [] [] [], 0%nat)).
Proof. apply (fold_inv col [] _ loop_inv_init). Qed.

Lemma aget_map_snd {V W} (f : V -> W) n (l : list (N * V)) :
  aget N.eqb n (map (fun p => (fst p, f (snd p))) l) = option_map f (aget N.eqb n l).
Proof. induction l as [|[k v] t IH]; cbn; auto. destruct (N.eqb n k); cbn; auto. Qed.

(* ---- C07_cache_refines_scan ---------------------------------------------- *)

Theorem cache_refines_scan col n cnt off :
  get_row_cache (make_cache col) n cnt off =
  option_map (fun i => Z.of_nat i + off)
             (nth_occurrence col n (match cnt with None => 0 | Some c => c end)).
Proof.
  pose proof (cache_loop_inv col) as H. unfold make_cache, cache_loop.
  destruct (fold_left cache_step col _) as [c ii]. cbn [fst].
  destruct H as (_ & Hcnt & Hidx & _).
  unfold get_row_cache, nth_occurrence. cbn [c_idx c_cnt].
  set (c0 := match cnt with None => 0 | Some x => x end).
  assert (Hc : cnt_get n (map (fun p => (fst p, snd p + 1)) (c_cnt c)) 0 = Z.of_nat (length (positions col n 0))).
  { unfold cnt_get. rewrite (aget_map_snd (fun z => z + 1)), Hcnt.
    destruct (positions col n 0); cbn [option_map length]; lia. }
  rewrite Hc. set (c' := if c0 <? 0 then c0 + Z.of_nat (length (positions col n 0)) else c0).
  rewrite Hidx. destruct (c' <? 0); cbn; auto.
Qed.

(* a hit of the raw dictionary is the first... k-th occurrence *)
Lemma cache_idx_get col n k :
  aget keyeqb (n, k) (c_idx (make_cache col)) =
  if k <? 0 then None else nth_error (positions col n 0) (Z.to_nat k).
Proof.
  pose proof (cache_loop_inv col) as H. unfold make_cache, cache_loop.
  destruct (fold_left cache_step col _) as [c ii]. cbn [fst c_idx].
  destruct H as (_ & _ & Hidx & _). apply Hidx.
Qed.

Lemma positions_nil_notin col n i : ~ In n col -> positions col n i = [].
Proof.
  revert i; induction col as [|x t IH]; intros i Hn; cbn; auto.
  destruct (N.eqb_spec x n); [subst; exfalso; apply Hn; now left|].
  apply IH. intros H; apply Hn; now right.
Qed.

(* ---- labels: get_index_unique resolves back to its own row ------------------ *)

Lemma make_cache_lab_length col : length (c_lab (make_cache col)) = length col.
Proof.
  pose proof (cache_loop_inv col) as H. unfold make_cache, cache_loop.
  destruct (fold_left cache_step col _) as [c ii]. cbn [fst c_lab].
  destruct H as (_ & _ & _ & Hlen & _). now rewrite map_length.
Qed.

Theorem labels_roundtrip col i n k :
  nth_error (c_lab (make_cache col)) i = Some (n, k) ->
  nth_occurrence col n (match k with None => 0 | Some c => c end) = Some i /\
  (k = None -> length (positions col n 0) = 1%nat).
Proof.
  pose proof (cache_loop_inv col) as H. unfold make_cache, cache_loop.
  destruct (fold_left cache_step col _) as [c ii]. cbn [fst c_lab].
  destruct H as (_ & Hcnt & _ & _ & Hlab).
  rewrite nth_error_map. destruct (nth_error (c_lab c) i) as [[n0 k0]|] eqn:E; [|discriminate].
  cbn [option_map fst]. destruct (Hlab _ _ _ E) as (kk & -> & Hk0 & Hk).
  unfold cnt_get. rewrite Hcnt.
  intros Heq.
  destruct (positions col n0 0) as [|p0 ps] eqn:Ep.
  - destruct (Z.to_nat kk); discriminate.
  - destruct (Z.of_nat (length (p0 :: ps)) - 1 =? 0) eqn:E0.
    + inversion Heq; subst n k. unfold nth_occurrence. rewrite Ep. cbn [length] in E0.
      assert (ps = []) by (destruct ps; [auto | cbn [length] in E0; lia]). subst ps.
      split; [|reflexivity]. cbn.
      destruct (Z.to_nat kk) as [|[|?]] eqn:Ek; cbn in Hk; try discriminate. exact Hk.
    + inversion Heq; subst n k. unfold nth_occurrence. rewrite Ep. split; [|discriminate].
      destruct (kk <? 0) eqn:E1; [lia|]. rewrite E1. exact Hk.
Qed.

Lemma nth_occurrence_nonneg col n c :
  0 <= c -> nth_occurrence col n c = nth_error (positions col n 0) (Z.to_nat c).
Proof. intros H; unfold nth_occurrence. destruct (c <? 0) eqn:E; [lia|]. now rewrite E. Qed.

(* ---- cache coherence over every API operation ------------------------------- *)

Definition coherent (t : table) : Prop :=
  t_cache t = None \/ t_cache t = Some (make_cache (t_idx t)).

Lemma get_cache_spec t : coherent t ->
  fst (get_cache t) = make_cache (t_idx t) /\
  t_idx (snd (get_cache t)) = t_idx t /\ t_cols (snd (get_cache t)) = t_cols t /\
  coherent (snd (get_cache t)).
Proof.
  unfold coherent, get_cache. intros [H|H]; rewrite H; cbn; repeat split; auto.
Qed.

Lemma row_index_spec t r : coherent t ->
  fst (row_index t r) = or_key (resolve_spec (t_idx t) r) /\
  t_idx (snd (row_index t r)) = t_idx t /\ t_cols (snd (row_index t r)) = t_cols t /\
  coherent (snd (row_index t r)).
Proof.
  intros Hc. destruct (get_cache_spec t Hc) as (H1 & H2 & H3 & H4).
  destruct r as [i|raw nm cnt off|nm cnt|nm cnt off]; cbn [row_index resolve_spec].
  - repeat split; auto.
  - destruct (get_cache t) as [c t']; cbn [fst snd] in *. subst c.
    rewrite cache_refines_scan. repeat split; auto.
  - destruct (get_cache t) as [c t']; cbn [fst snd] in *. subst c.
    rewrite cache_refines_scan. repeat split; auto.
    destruct (nth_occurrence _ _ _); cbn; auto. now rewrite Z.add_0_r.
  - destruct (get_cache t) as [c t']; cbn [fst snd] in *. subst c.
    rewrite cache_refines_scan. repeat split; auto.
Qed.

Lemma item_index_spec t r : coherent t -> raw_ok (t_idx t) r ->
  fst (item_index t r) = or_key (resolve_spec (t_idx t) r) /\
  t_idx (snd (item_index t r)) = t_idx t /\ t_cols (snd (item_index t r)) = t_cols t /\
  coherent (snd (item_index t r)).
Proof.
  intros Hc Hraw. destruct (get_cache_spec t Hc) as (H1 & H2 & H3 & H4).
  destruct r as [i|raw nm cnt off|nm cnt|nm cnt off]; cbn [item_index resolve_spec].
  - repeat split; auto.
  - destruct (get_cache t) as [c t']; cbn [fst snd] in *. subst c.
    rewrite cache_idx_get. change (0 <? 0) with false. change (Z.to_nat 0) with 0%nat. cbv iota.
    destruct Hraw as [(-> & -> & ->)|Hn].
    + match goal with |- context [nth_error ?l ?k] => destruct (nth_error l k) eqn:E end.
      * cbn [fst snd]. repeat split; auto. rewrite nth_occurrence_nonneg by lia.
        change (Z.to_nat 0) with 0%nat. rewrite E. cbn. now rewrite Z.add_0_r.
      * cbn [fst snd]. rewrite cache_refines_scan. repeat split; auto.
    + rewrite positions_nil_notin by exact Hn. cbn [nth_error fst snd].
      rewrite cache_refines_scan. repeat split; auto.
  - destruct (get_cache t) as [c t']; cbn [fst snd] in *. subst c.
    rewrite cache_idx_get.
    destruct (cnt <? 0) eqn:E0.
    + cbn [fst snd]. rewrite cache_refines_scan. repeat split; auto.
      destruct (nth_occurrence _ _ _); cbn; auto. now rewrite Z.add_0_r.
    + destruct (nth_error (positions (t_idx t) nm 0) (Z.to_nat cnt)) eqn:E.
      * cbn [fst snd]. repeat split; auto. rewrite nth_occurrence_nonneg by lia. rewrite E. reflexivity.
      * cbn [fst snd]. rewrite cache_refines_scan. repeat split; auto.
        destruct (nth_occurrence _ _ _); cbn; auto. now rewrite Z.add_0_r.
  - destruct (get_cache t) as [c t']; cbn [fst snd] in *. subst c.
    rewrite cache_refines_scan. repeat split; auto.
Qed.

Definition op_raw_ok (col : list N) (o : op) : Prop :=
  match o with
  | OGetIndex r => True
  | OGetCell _ r | OSetCellN r _ | OSetCellZ _ r _ => raw_ok col r
  | _ => True
  end.

Lemma coherent_same_idx t t' : t_idx t' = t_idx t -> t_cache t' = t_cache t -> coherent t -> coherent t'.
Proof. unfold coherent; intros -> ->; auto. Qed.

Theorem step_coherent t o : coherent t -> op_raw_ok (t_idx t) o -> coherent (fst (step t o)).
Proof.
  intros Hc Hr. destruct o; cbn [step op_raw_ok] in *.
  - destruct (row_index_spec t r Hc) as (_ & _ & _ & H). destruct (row_index t r); exact H.
  - destruct (item_index_spec t r Hc Hr) as (_ & _ & _ & H). destruct (item_index t r) as [res t']; cbn [fst snd] in *.
    destruct res; cbn; auto. destruct c; [destruct (np_pos _ _); auto|].
    destruct (aget _ _ _); auto. destruct (np_pos _ _); auto.
  - destruct (item_index_spec t r Hc Hr) as (_ & _ & _ & H). destruct (item_index t r) as [res t']; cbn [fst snd] in *.
    destruct res; cbn; auto. destruct (np_pos _ _); cbn; auto. now left.
  - destruct (aget N.eqb c (t_cols t)); cbn; auto.
    destruct (item_index_spec t r Hc Hr) as (_ & Hi & _ & H). destruct (item_index t r) as [res t']; cbn [fst snd] in *.
    destruct res; cbn; auto. destruct (np_pos _ _); cbn; auto.
  - destruct (Nat.eqb _ _); cbn; [now left|]. destruct vals as [|v [|? ?]]; cbn; now left.
  - cbn; now left.
  - destruct (aget _ _ _); destruct (Nat.eqb _ _); cbn; auto. destruct vals as [|v [|? ?]]; cbn; auto.
  - destruct (aget _ _ _); cbn; auto.
  - exact Hc.
Qed.

(* every selector occurring in an operation list keeps names separator-free
   with respect to the index column current at that point *)
Fixpoint ops_raw_ok (t : table) (ops : list op) : Prop :=
  match ops with
  | [] => True
  | o :: rest => op_raw_ok (t_idx t) o /\ ops_raw_ok (fst (step t o)) rest
  end.

Theorem final_coherent ops : forall t, coherent t -> ops_raw_ok t ops -> coherent (final t ops).
Proof.
  unfold final. induction ops as [|o rest IH]; intros t Hc Hr; cbn; auto.
  destruct Hr as [Ho Hrest]. apply IH; auto. now apply step_coherent.
Qed.

(* ---- C07_resolve_current ------------------------------------------------------ *)

Definition cell_at (t : table) (cr : colref) (i : Z) : result :=
  match cr with
  | CIdx => match np_pos (t_idx t) i with
            | Some k => match nth_error (t_idx t) k with Some v => RValN v | None => RErr IndexError end
            | None => RErr IndexError end
  | CCol cn => match aget N.eqb cn (t_cols t) with
               | Some col => match np_pos col i with
                             | Some k => match nth_error col k with Some v => RValZ v | None => RErr IndexError end
                             | None => RErr IndexError end
               | None => RErr KeyError end
  end.

Theorem get_index_current t r : coherent t ->
  snd (step t (OGetIndex r)) = or_key (resolve_spec (t_idx t) r).
Proof.
  intros Hc. cbn [step]. destruct (row_index_spec t r Hc) as (H & _).
  destruct (row_index t r); cbn [fst snd] in *. exact H.
Qed.

Theorem get_cell_current t cr r : coherent t -> raw_ok (t_idx t) r ->
  snd (step t (OGetCell cr r)) =
  match resolve_spec (t_idx t) r with
  | Some i => cell_at t cr i
  | None => RErr KeyError
  end.
Proof.
  intros Hc Hr. cbn [step]. destruct (item_index_spec t r Hc Hr) as (H & Hi & Hcols & _).
  destruct (item_index t r) as [res t']; cbn [fst snd] in *. subst res.
  destruct (resolve_spec (t_idx t) r); cbn [or_key]; [|reflexivity].
  unfold cell_at. rewrite Hi, Hcols. destruct cr.
  - destruct (np_pos _ _); reflexivity.
  - destruct (aget _ _ _); [|reflexivity]. destruct (np_pos _ _); reflexivity.
Qed.

(* writing a cell of the index column by name changes exactly the row the
   scan designates, and the table stays coherent (cache dropped) *)
Theorem set_cell_current t r v : coherent t -> raw_ok (t_idx t) r ->
  match resolve_spec (t_idx t) r with
  | Some i => match np_pos (t_idx t) i with
              | Some k => t_idx (fst (step t (OSetCellN r v))) = list_set (t_idx t) k v
                          /\ t_cache (fst (step t (OSetCellN r v))) = None
              | None => snd (step t (OSetCellN r v)) = RErr IndexError /\ t_idx (fst (step t (OSetCellN r v))) = t_idx t
              end
  | None => snd (step t (OSetCellN r v)) = RErr KeyError /\ t_idx (fst (step t (OSetCellN r v))) = t_idx t
  end.
Proof.
  intros Hc Hr. cbn [step]. destruct (item_index_spec t r Hc Hr) as (H & Hi & Hcols & _).
  destruct (item_index t r) as [res t']; cbn [fst snd] in *. subst res.
  destruct (resolve_spec (t_idx t) r); cbn [or_key].
  - rewrite Hi. destruct (np_pos _ _); cbn; auto.
  - cbn; auto.
Qed.

(* reachable states: any operation list from any freshly constructed table *)
Theorem resolve_after_history t0 ops r :
  t_cache t0 = None -> ops_raw_ok t0 ops ->
  let t := final t0 ops in
  snd (step t (OGetIndex r)) = or_key (resolve_spec (t_idx t) r) /\
  (raw_ok (t_idx t) r -> forall cr,
   snd (step t (OGetCell cr r)) =
   match resolve_spec (t_idx t) r with Some i => cell_at t cr i | None => RErr KeyError end).
Proof.
  intros H0 Hr t. assert (Hc : coherent t) by (apply final_coherent; [now left|exact Hr]).
  split; [now apply get_index_current|]. intros Hraw cr. now apply get_cell_current.
Qed.
