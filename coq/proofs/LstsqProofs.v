(* Proofs for C16 (exact arithmetic, MathComp): the formulas regenerated from
   optimize.py / matrixutils.py satisfy the algebra the property states. *)
From Coq Require Import String ZArith.
From mathcomp Require Import all_ssreflect all_algebra.
From XD Require Import model.OptExpr model.Lstsq gen.GenOpt.
Set Implicit Arguments.
Unset Strict Implicit.
Unset Printing Implicit Defensive.
Import Order.TTheory GRing.Theory Num.Theory.
Local Open Scope ring_scope.

(* ---- the extracted code has the shapes the model is written for --------------------- *)
Lemma code_shapes :
  lq_formula lstsq = expected_formula /\ lq_slices lstsq = expected_slices /\
  lq_defaults lstsq = expected_defaults /\ lq_init lstsq = ("s_inv", "zeros_like(s)")%string /\
  lq_result lstsq = "x"%string /\
  wc_source x_to_knobs_code = "x"%string /\ wc_source knobs_to_x_code = "knob_values"%string /\
  wc_guard x_to_knobs_code = "weight"%string /\ wc_guard knobs_to_x_code = "weight"%string /\
  fd_steps fd = AApp "_knobs_to_x" (AVar "steps_for_jacobian") /\
  fd_perturb fd = AAdd (AVar "x") (AVar "steps") /\ fd_restore fd = ASub (AVar "x") (AVar "steps") /\
  fd_skip_inactive fd = true /\
  vj_prescale view_jac = "_scaled_to_native"%string /\ vj_native view_jac = "get_jacobian"%string /\
  vc_prescale view_call = "_scaled_to_native"%string /\
  vc_kwargs view_call = [:: "check_limits"; "return_scalar"; "zero_if_met"]%string /\
  vj_scalar_f0_kwargs view_jac = [:: "check_limits"; "zero_if_met"]%string.
Proof. by do !split. Qed.

Section Scalars.
  Variable R : realFieldType.
  Implicit Types x w lo hi : R.

  Lemma weights_inverse x w : w != 0 ->
    weight_apply knobs_to_x_code (weight_apply x_to_knobs_code x w) w = x /\
    weight_apply x_to_knobs_code (weight_apply knobs_to_x_code x w) w = x.
  Proof. by move=> w0; rewrite /weight_apply /=; split; [rewrite mulfK | rewrite divfK]. Qed.

  Definition to_native x lo hi (s0 s1 : R) : R :=
    aeval (env_rescale x lo hi s0 s1) (@no_fun R) (@no_dot R) scaled_to_native_expr.
  Definition from_native x lo hi (s0 s1 : R) : R :=
    aeval (env_rescale x lo hi s0 s1) (@no_fun R) (@no_dot R) scaled_from_native_expr.

  Lemma to_nativeE x lo hi (s0 s1 : R) : to_native x lo hi s0 s1 = lo + (x - s0) * (hi - lo) / (s1 - s0).
  Proof. by []. Qed.
  Lemma from_nativeE x lo hi (s0 s1 : R) : from_native x lo hi s0 s1 = s0 + (x - lo) * (s1 - s0) / (hi - lo).
  Proof. by []. Qed.

  Lemma rescale_inverse x lo hi (s0 s1 : R) : hi != lo -> s1 != s0 ->
    from_native (to_native x lo hi s0 s1) lo hi s0 s1 = x /\
    to_native (from_native x lo hi s0 s1) lo hi s0 s1 = x.
  Proof.
    move=> hl sl. have hl0 : hi - lo != 0 by rewrite subr_eq0.
    have sl0 : s1 - s0 != 0 by rewrite subr_eq0.
    rewrite !to_nativeE !from_nativeE; split.
    - by rewrite [lo + _]addrC addrK divfK // mulfK // addrC subrK.
    - by rewrite [s0 + _]addrC addrK divfK // mulfK // addrC subrK.
  Qed.

  (* dx_native/dx_scaled of the chain rule, from the extracted line *)
  Definition dxdx lo hi (s0 s1 : R) : R :=
    aeval (fun _ => 0) (fun _ y => to_native y lo hi s0 s1) (@no_dot R) (vj_dxdx view_jac).

  Lemma dxdxE lo hi (s0 s1 : R) : dxdx lo hi s0 s1 = (hi - lo) / (s1 - s0).
  Proof.
    rewrite /dxdx /= !to_nativeE mulr0 addr0 mulr1n.
    by rewrite opprD addrACA subrr add0r -mulrBl -mulrBl sub0r opprK subrK mul1r.
  Qed.

  (* the masking rules of SVD.lstsq, element by element *)
  Lemma sinv_elemE (si sf : R) (rcond : option R) :
    sinv_elem (lq_masks lstsq) si sf rcond =
    if (0 < si) && (if rcond is Some rc then ~~ (si < rc * sf) else true) then si^-1 else 0.
  Proof.
    rewrite /sinv_elem /= /mask_step /=.
    case: rcond => [rc|] /=; rewrite ?andbT ?andbF mulr1n div1r.
    - by case: (si < rc * sf); case: (0 < si).
    - by case: (0 < si).
  Qed.
End Scalars.

(* ---- SVD.lstsq: normal equations, minimiser, minimum norm -------------------------------- *)
Section LstsqThm.
  Variables (R : realFieldType) (m n k' : nat).
  Local Notation k := k'.+1.
  Variables (U : 'M[R]_(m, k)) (Vh : 'M[R]_(k, n)) (s : 'rV[R]_k).
  Variable rcond : option R.
  Variable cutoff : nat.
  Hypothesis HU : U^T *m U = 1%:M.            (* orthonormal columns of U *)
  Hypothesis HV : Vh *m Vh^T = 1%:M.          (* orthonormal columns of V = Vh^T *)

  Local Notation kp := (keep s rcond cutoff).
  Local Notation sinv := (s_inv s (lq_masks lstsq) rcond cutoff).
  Local Notation sk := (s_keep s rcond cutoff).
  Local Notation A := (A_keep U Vh s rcond cutoff).
  Local Notation xof := (lstsq_x U Vh s (lq_masks lstsq) rcond cutoff).

  Lemma sinvE : sinv = \row_i (if kp i then (s 0 i)^-1 else 0).
  Proof.
    apply/rowP=> i; rewrite !mxE sinv_elemE /keep /s_first.
    by case: (i < cutoff)%N => //=.
  Qed.

  Lemma keep_neq0 i : kp i -> s 0 i != 0.
  Proof. by rewrite /keep => /and3P[_ /lt0r_neq0 ->]. Qed.

  (* diag(s_keep) diag(s_inv) is the projector on the retained indices *)
  Definition proj : 'rV[R]_k := \row_i (if kp i then 1 else 0).

  Lemma sk_sinv : diag_mx sk *m diag_mx sinv = diag_mx proj.
  Proof.
    rewrite sinvE mulmx_diag; congr diag_mx; apply/rowP=> i; rewrite !mxE.
    by case: ifP => [/keep_neq0 h|_]; rewrite ?mulr0 ?mulfV.
  Qed.

  Lemma sinv_sk : diag_mx sinv *m diag_mx sk = diag_mx proj.
  Proof.
    rewrite sinvE mulmx_diag; congr diag_mx; apply/rowP=> i; rewrite !mxE.
    by case: ifP => [/keep_neq0 h|_]; rewrite ?mulr0 ?mulVf.
  Qed.

  Lemma proj_sk : diag_mx proj *m diag_mx sk = diag_mx sk.
  Proof.
    rewrite mulmx_diag; congr diag_mx; apply/rowP=> i; rewrite !mxE.
    by case: ifP => _; rewrite ?mul1r ?mulr0.
  Qed.

  Lemma sk_proj : diag_mx sk *m diag_mx proj = diag_mx sk.
  Proof.
    rewrite mulmx_diag; congr diag_mx; apply/rowP=> i; rewrite !mxE.
    by case: ifP => _; rewrite ?mulr1 ?mulr0.
  Qed.

  Lemma sinv_proj : diag_mx sinv *m diag_mx proj = diag_mx sinv.
  Proof.
    rewrite sinvE mulmx_diag; congr diag_mx; apply/rowP=> i; rewrite !mxE.
    by case: ifP => _; rewrite ?mulr1 ?mulr0.
  Qed.

  (* A x = U P U^T b *)
  Lemma A_x b : A *m xof b = U *m diag_mx proj *m U^T *m b.
  Proof.
    rewrite /A_keep /lstsq_x !mulmxA -[U *m diag_mx sk *m Vh *m Vh^T]mulmxA HV mulmx1.
    by rewrite -[U *m diag_mx sk *m diag_mx sinv]mulmxA sk_sinv.
  Qed.

  Lemma A_tr : A^T = Vh^T *m diag_mx sk *m U^T.
  Proof. by rewrite /A_keep !trmx_mul tr_diag_mx mulmxA. Qed.

  Theorem normal_equations b : A^T *m (A *m xof b - b) = 0.
  Proof.
    rewrite mulmxBr A_x A_tr !mulmxA.
    rewrite -[Vh^T *m diag_mx sk *m U^T *m U]mulmxA HU mulmx1.
    rewrite -[Vh^T *m diag_mx sk *m diag_mx proj]mulmxA sk_proj.
    by rewrite subrr.
  Qed.

  (* ---- squared norms ---- *)
  Lemma normsqE p (v : 'cV[R]_p) : normsq v = \sum_i v i 0 ^+ 2.
  Proof. by rewrite /normsq mxE; apply: eq_bigr => i _; rewrite mxE expr2. Qed.

  Lemma normsq_ge0 p (v : 'cV[R]_p) : 0 <= normsq v.
  Proof. by rewrite normsqE; apply: sumr_ge0 => i _; rewrite sqr_ge0. Qed.

  Lemma normsq_eq0 p (v : 'cV[R]_p) : normsq v = 0 -> v = 0.
  Proof.
    rewrite normsqE => /eqP; rewrite psumr_eq0 => [/allP h|i _]; last by rewrite sqr_ge0.
    apply/colP=> i; rewrite mxE; apply/eqP; rewrite -sqrf_eq0.
    by apply: (implyP (h i _)); rewrite // mem_index_enum.
  Qed.

  Lemma dotE p (u v : 'cV[R]_p) : (u^T *m v) 0 0 = \sum_i u i 0 * v i 0.
  Proof. by rewrite mxE; apply: eq_bigr => i _; rewrite mxE. Qed.

  Lemma normsqD p (u v : 'cV[R]_p) : normsq (u + v) = normsq u + (u^T *m v) 0 0 *+ 2 + normsq v.
  Proof.
    rewrite !normsqE dotE -sumrMnl -!big_split /=; apply: eq_bigr => i _.
    by rewrite mxE sqrrD.
  Qed.

  (* the value of the objective at any z, relative to x *)
  Lemma objective_split b (z : 'cV[R]_n) :
    normsq (A *m z - b) = normsq (A *m xof b - b) + normsq (A *m (z - xof b)).
  Proof.
    have -> : A *m z - b = (A *m xof b - b) + A *m (z - xof b).
      by rewrite mulmxBr [RHS]addrC addrA subrK.
    rewrite normsqD.
    have -> : ((A *m xof b - b)^T *m (A *m (z - xof b))) 0 0 = 0.
      rewrite mulmxA -[(A *m xof b - b)^T *m A]trmxK trmx_mul trmxK.
      by rewrite normal_equations trmx0 mul0mx mxE.
    by rewrite mul0rn addr0.
  Qed.

  Theorem minimiser b (z : 'cV[R]_n) : normsq (A *m xof b - b) <= normsq (A *m z - b).
  Proof. by rewrite (objective_split b z) ler_addl normsq_ge0. Qed.

  (* x is orthogonal to the kernel of A_keep *)
  Lemma x_orth_ker b (w : 'cV[R]_n) : A *m w = 0 -> ((xof b)^T *m w) 0 0 = 0.
  Proof.
    move=> Aw.
    have h : diag_mx sk *m Vh *m w = 0.
      have := congr1 (mulmx U^T) Aw.
      by rewrite /A_keep !mulmxA HU mul1mx mulmx0.
    have h2 : diag_mx sinv *m Vh *m w = 0.
      have -> : diag_mx sinv = diag_mx sinv *m diag_mx sinv *m diag_mx sk.
        by rewrite -mulmxA sinv_sk sinv_proj.
      by rewrite -!mulmxA [diag_mx sk *m (Vh *m w)]mulmxA h !mulmx0.
    rewrite /lstsq_x !trmx_mul !trmxK tr_diag_mx -!mulmxA.
    by rewrite [diag_mx sinv *m (Vh *m w)]mulmxA h2 !mulmx0 mxE.
  Qed.

  Theorem minimum_norm b (z : 'cV[R]_n) :
    (forall y : 'cV[R]_n, normsq (A *m z - b) <= normsq (A *m y - b)) -> normsq (xof b) <= normsq z.
  Proof.
    move=> zmin.
    have Aw : A *m (z - xof b) = 0.
      apply: normsq_eq0; apply/eqP; rewrite eq_le normsq_ge0 andbT.
      by have := zmin (xof b); rewrite (objective_split b z) ger_addl.
    have -> : z = xof b + (z - xof b) by rewrite addrC subrK.
    by rewrite normsqD (x_orth_ker b Aw) mul0rn addr0 ler_addl normsq_ge0.
  Qed.
End LstsqThm.

(* ---- forward differences of an affine function are its matrix ----------------------------- *)
Section ForwardDifferences.
  Variables (R : realFieldType) (m n : nat).

  (* g moves along coordinate j with slope (col j B), from every point: affine
     functions, also after the coordinate-wise affine rescaling of a view *)
  Definition coord_affine (g : 'cV[R]_n -> 'cV[R]_m) (B : 'M[R]_(m, n)) : Prop :=
    forall (y : 'cV[R]_n) (h : R) (j : 'I_n), g (y + h *: delta_mx j 0) = g y + h *: col j B.

  Lemma affine_coord (A : 'M[R]_(m, n)) (t : 'cV[R]_m) : coord_affine (affine A t) A.
  Proof.
    move=> y h j; rewrite /affine mulmxDr -scalemxAr -colE.
    by rewrite -!addrA [h *: _ - t]addrC.
  Qed.

  Lemma fd_jac_coord g B x (h : 'cV[R]_n) : coord_affine g B -> (forall j, h j 0 != 0) ->
    fd_jac (fd_column fd) g x h = B.
  Proof.
    move=> gB h0; apply/matrixP=> i j; rewrite !mxE /= gB !mxE.
    by rewrite [g x i 0 + _]addrC addrK mulrC mulKf.
  Qed.

  Theorem fd_jac_affine (A : 'M[R]_(m, n)) t x (h : 'cV[R]_n) : (forall j, h j 0 != 0) ->
    fd_jac (fd_column fd) (affine A t) x h = A.
  Proof. by apply: fd_jac_coord; apply: affine_coord. Qed.
End ForwardDifferences.

(* ---- one Newton step on a consistent full-column-rank affine problem ------------------------ *)
Section Newton.
  Variables (R : realFieldType) (m k' : nat).
  Local Notation n := k'.+1.
  Variables (U : 'M[R]_(m, n)) (Vh : 'M[R]_(n, n)) (s : 'rV[R]_n).
  Variable rcond : option R.
  Variable cutoff : nat.
  Hypothesis HU : U^T *m U = 1%:M.
  Hypothesis HV : Vh *m Vh^T = 1%:M.
  (* full column rank, well conditioned within rcond, no truncation: every singular value is retained *)
  Hypothesis Hkeep : forall i, keep s rcond cutoff i.
  Variables (A : 'M[R]_(m, n)) (t : 'cV[R]_m) (xstar : 'cV[R]_n).
  Hypothesis HA : A = U *m diag_mx s *m Vh.      (* numpy.linalg.svd returned a decomposition of the Jacobian *)
  Hypothesis Hcons : A *m xstar = t.             (* consistent *)

  Lemma A_keep_all : A_keep U Vh s rcond cutoff = A.
  Proof.
    rewrite HA /A_keep; congr (_ *m diag_mx _ *m _).
    by apply/rowP=> i; rewrite mxE Hkeep.
  Qed.

  Lemma proj_all : diag_mx (proj s rcond cutoff) = 1%:M.
  Proof.
    rewrite -diag_const_mx; congr diag_mx; apply/rowP=> i.
    by rewrite !mxE Hkeep.
  Qed.

  Lemma pinv_left (d : 'cV[R]_n) : lstsq_x U Vh s (lq_masks lstsq) rcond cutoff (A *m d) = d.
  Proof.
    rewrite /lstsq_x -{1}A_keep_all /A_keep !mulmxA.
    rewrite -[Vh^T *m diag_mx _ *m U^T *m U]mulmxA HU mulmx1.
    rewrite -[Vh^T *m diag_mx _ *m diag_mx _]mulmxA sinv_sk proj_all mulmx1.
    by rewrite (mulmx1C HV) mul1mx.
  Qed.

  Theorem newton_lands x0 (h : 'cV[R]_n) : (forall j, h j 0 != 0) ->
    let f := affine A t in
    let J := fd_jac (fd_column fd) f x0 h in
    J = A /\ f (x0 - lstsq_x U Vh s (lq_masks lstsq) rcond cutoff (f x0)) = 0.
  Proof.
    move=> h0 /=; split; first exact: fd_jac_affine.
    have -> : affine A t x0 = A *m (x0 - xstar) by rewrite /affine mulmxBr Hcons.
    by rewrite pinv_left opprB addrC subrK /affine Hcons subrr.
  Qed.
End Newton.

(* ---- Jacobians reported by the views ------------------------------------------------------------ *)
Section Views.
  Variables (R : realFieldType) (m n : nat).
  Variables (A : 'M[R]_(m, n)) (t : 'cV[R]_m).
  Variables (lo hi : 'cV[R]_n) (s0 s1 : R).
  Hypothesis Hs : s1 != s0.

  Local Notation f := (affine A t).

  (* _scaled_to_native on a vector *)
  Definition native_of (xs : 'cV[R]_n) : 'cV[R]_n := \col_j to_native (xs j 0) (lo j 0) (hi j 0) s0 s1.
  Definition slope (j : 'I_n) : R := dxdx (lo j 0) (hi j 0) s0 s1.

  (* the view under rescale_x:  __call__ = merit_function(_scaled_to_native(x)) *)
  Definition rescaled_view (xs : 'cV[R]_n) : 'cV[R]_m := f (native_of xs).

  (* the Jacobian it reports: native forward differences at the native point,
     column jj multiplied by dx_native_dx_scaled[jj] (the extracted chain-rule line) *)
  Definition rescaled_reported (xs h : 'cV[R]_n) : 'M[R]_(m, n) :=
    \matrix_(i, j)
      aeval (fun v => if String.eqb v "jac_native" then fd_jac (fd_column fd) f (native_of xs) h i j
                      else if String.eqb v "dx_native_dx_scaled" then slope j else 0)
            (@no_fun R) (@no_dot R) (vj_scaled_column view_jac).

  Lemma native_of_step xs (e : R) j :
    native_of (xs + e *: delta_mx j 0) = native_of xs + (e * slope j) *: delta_mx j 0.
  Proof.
    apply/colP=> i; rewrite !mxE /slope dxdxE !to_nativeE eqxx andbT.
    case: (altP (i =P j)) => [->|ij] /=; rewrite ?mulr1 ?mulr0 ?addr0 //.
    rewrite -addrA; congr (_ + _).
    by rewrite [xs j 0 + e - s0]addrAC mulrDl mulrDl mulrA.
  Qed.

  Lemma rescaled_coord : coord_affine rescaled_view (\matrix_(i, j) (A i j * slope j)).
  Proof.
    move=> y e j; rewrite /rescaled_view native_of_step (affine_coord A t); congr (_ + _).
    by apply/colP=> i; rewrite !mxE -mulrA [slope j * _]mulrC.
  Qed.

  (* native view: reported = finite differences of the same view (any point, any non-zero steps);
     rescaled view: reported (chain rule) = finite differences of the rescaled view *)
  Theorem view_jacobian_vector x (h h' : 'cV[R]_n) xs :
    (forall j, h j 0 != 0) -> (forall j, h' j 0 != 0) ->
    fd_jac (fd_column fd) f x h = fd_jac (fd_column fd) f x h' /\
    rescaled_reported xs h = fd_jac (fd_column fd) rescaled_view xs h'.
  Proof.
    move=> h0 h0'; split; first by rewrite !fd_jac_affine.
    rewrite (fd_jac_coord xs rescaled_coord h0'); apply/matrixP=> i j.
    by rewrite mxE /= fd_jac_affine // mxE.
  Qed.

  (* scalar view: sum of squares of any coordinate-affine vector view g with Jacobian B
     (B = A for the native view, A * slope for the rescaled one).  Reported: the extracted
     `2 * np.dot(f0, jac)`.  Finite differences add the explicit term h * |col j B|^2. *)
  Definition scalar_reported (g : 'cV[R]_n -> 'cV[R]_m) (B : 'M[R]_(m, n)) (y : 'cV[R]_n) (j : 'I_n) : R :=
    aeval (fun _ => 0) (@no_fun R) (fun a b => \sum_i g y i 0 * B i j) (vj_scalar view_jac).

  Theorem view_jacobian_scalar g B y (e : R) j : coord_affine g B -> e != 0 ->
    (sumsq (g (y + e *: delta_mx j 0)) - sumsq (g y)) / e = scalar_reported g B y j + e * \sum_i B i j ^+ 2.
  Proof.
    move=> gB e0; rewrite /scalar_reported /= gB /sumsq.
    have -> : \sum_i (g y + e *: col j B) i 0 ^+ 2 =
              (\sum_i g y i 0 ^+ 2) + e * (2%:R * (\sum_i g y i 0 * B i j) + e * (\sum_i B i j ^+ 2)).
      rewrite [2%:R * _]mulr_sumr [e * (\sum_i B _ _ ^+ 2)]mulr_sumr -big_split /= mulr_sumr -big_split /=.
      apply: eq_bigr => i _; rewrite !mxE sqrrD exprMn -mulr_natl -addrA; congr (_ + _).
      rewrite mulrDr; congr (_ + _); last by rewrite expr2 mulrA.
      by rewrite [g y i 0 * (e * _)]mulrCA mulrCA.
    have -> : Pos.to_nat 2 = 2%N by [].
    by rewrite addrC addKr mulrC mulKf.
  Qed.
End Views.

(* ---- the step of a call depends on that call's arguments only ------------------------------------ *)
Lemma step_code_local :
  sc_lstsq_kwargs step_args = [:: ("rcond", ArgParam "rcond"); ("sing_val_cutoff", ArgParam "sing_val_cutoff")]%string /\
  sc_params_rebound step_args = [::] /\ sc_self_stores step_args = [::] /\
  sc_optimize_step_kwargs step_args =
    [:: ("rcond", ArgParam "rcond"); ("sing_val_cutoff", ArgParam "sing_val_cutoff"); ("broyden", ArgLocal "this_broyden")]%string /\
  sc_solve_kwargs step_args =
    [:: ("rcond", ArgParam "rcond"); ("sing_val_cutoff", ArgParam "sing_val_cutoff"); ("broyden", ArgParam "broyden")]%string /\
  sc_broyden_update step_args = true.
Proof. by do !split. Qed.

Section StepLocal.
  Variables (R : realFieldType) (m k' : nat).
  Local Notation n := k'.+1.
  Variables (f : 'cV[R]_n -> 'cV[R]_m) (h : 'cV[R]_n).
  Variable lst : call_args R -> 'M[R]_(m, n) -> 'cV[R]_m -> 'cV[R]_n.
  Local Notation sstep := (solver_step f h (fd_column fd) lst).
  Local Notation run := (run_calls f h (fd_column fd) lst).

  (* the step taken by a call is the least-squares solution for THAT call's arguments, of the
     Jacobian and residual at the current point; the new state holds nothing of the arguments *)
  Lemma solver_stepE a st :
    sstep a st = mk_sstate (st_x st - lst a (step_jac f h (fd_column fd) a st) (f (st_x st)))
                           (Some (step_jac f h (fd_column fd) a st, st_x st, f (st_x st))).
  Proof. by []. Qed.

  (* whatever was called before, with whatever arguments: two histories that reach the same point
     with the same Jacobian cache take the same step for the same arguments *)
  Lemma step_args_local pre1 pre2 st1 st2 a :
    st_x (run pre1 st1) = st_x (run pre2 st2) -> st_cache (run pre1 st1) = st_cache (run pre2 st2) ->
    sstep a (run pre1 st1) = sstep a (run pre2 st2).
  Proof. by case: (run pre1 st1) (run pre2 st2) => [x1 c1] [x2 c2] /= -> ->. Qed.

  (* ---- affine problems: after ANY history of calls a plain call lands ---- *)
  Variables (U : 'M[R]_(m, n)) (Vh : 'M[R]_(n, n)) (s : 'rV[R]_n).
  Variable default_rcond : R.                       (* SVD's constructor default *)
  Hypothesis HU : U^T *m U = 1%:M.
  Hypothesis HV : Vh *m Vh^T = 1%:M.
  Variables (A : 'M[R]_(m, n)) (t : 'cV[R]_m) (xstar : 'cV[R]_n).
  Hypothesis HA : A = U *m diag_mx s *m Vh.
  Hypothesis Hcons : A *m xstar = t.
  Hypothesis Hh : forall j, h j 0 != 0.
  Hypothesis Hf : f = affine A t.

  Definition eff_rcond (a : call_args R) : option R := Some (if ca_rcond a is Some r then r else default_rcond).
  Definition eff_cutoff (a : call_args R) : nat := if ca_cutoff a is Some c then c else n.

  (* numpy's decomposition of the Jacobian A is (U, s, Vh); on other matrices lst is arbitrary *)
  Hypothesis Hlst : forall a y, lst a A y = lstsq_x U Vh s (lq_masks lstsq) (eff_rcond a) (eff_cutoff a) y.

  Definition cache_ok (st : sstate R m n) : Prop :=
    match st_cache st with Some (J, xl, yl) => J = A /\ yl = f xl | None => True end.

  Lemma step_jac_affine a st : cache_ok st -> step_jac f h (fd_column fd) a st = A.
  Proof.
    rewrite /step_jac /cache_ok.
    case: (st_cache st) => [[[J xl] yl] [EJ Ey]|_]; case: (ca_broyden a) => /=; rewrite ?Hf ?fd_jac_affine //.
    rewrite EJ Ey Hf /broyden_update /affine opprB addrA subrK -mulmxBr subrr mul0mx scaler0 addr0 //.
  Qed.

  Lemma cache_ok_step a st : cache_ok st -> cache_ok (sstep a st).
  Proof. by move=> ok; rewrite /cache_ok /= step_jac_affine. Qed.

  Lemma cache_ok_run calls st : cache_ok st -> cache_ok (run calls st).
  Proof. by elim: calls st => //= a calls IH st ok; apply: IH; apply: cache_ok_step. Qed.

  Theorem plain_call_lands_after_any_history calls x0 a :
    (forall i, keep s (eff_rcond a) (eff_cutoff a) i) ->
    f (st_x (sstep a (run calls (mk_sstate x0 None)))) = 0.
  Proof.
    move=> Hk; have ok : cache_ok (run calls (mk_sstate x0 None)) by apply: cache_ok_run.
    rewrite solver_stepE /= step_jac_affine // Hlst.
    by have /= [_] := newton_lands HU HV Hk HA Hcons (st_x (run calls (mk_sstate x0 None))) Hh; rewrite -Hf.
  Qed.
End StepLocal.
