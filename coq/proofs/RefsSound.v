(* C05, semantic half: the value of an expression is a function of the values
   of the locations it reports (occ) and of the containers it uses bare. *)
From Coq Require Import List ZArith NArith Bool Lia.
From XD Require Import model.RefSyntax model.RefTables model.Refs model.RefsOk proofs.RefsBase.
Import ListNotations.

Section Sound.
  Variables V E : Type.
  Variable of_lit : lit -> V.
  Variable pyop : binop -> V -> V -> res V E.
  Variable pyun : unop -> V -> res V E.
  Variable pybuiltin : bfun -> list V -> res V E.
  Variable pycall : V -> list V -> list (pystr * V) -> res V E.
  Variable getitem getattr : V -> V -> res V E.
  Variable nan : V.
  Variable is_zde : E -> bool.
  Variable broken : E.
  Variable T : tables.

  Notation value := (value V E of_lit pyop pyun pybuiltin pycall getitem getattr nan is_zde broken T).

  Definition agree (en en' : env V) (t : term) : Prop :=
    (forall l, In l (occ t) -> value l en = value l en') /\
    (forall c, In c (bare_tops t) -> en c = en' c).

  Lemma agree_sub en en' t u :
    (forall l, In l (occ u) -> In l (occ t)) -> (forall c, In c (bare_tops u) -> In c (bare_tops t)) ->
    agree en en' t -> agree en en' u.
  Proof. intros H1 H2 [Ha Hb]. split; auto. Qed.

  Lemma vmap_agree en en' (l : list term) :
    Forall (fun x => agree en en' x -> value x en = value x en') l ->
    (forall x, In x l -> agree en en' x) ->
    vmap (fun x => value x en) l = vmap (fun x => value x en') l.
  Proof.
    induction 1 as [|x l Hx _ IH]; intros Hag; cbn; [reflexivity|].
    rewrite Hx by (apply Hag; cbn; auto). rewrite IH; auto. intros y Hy. apply Hag. cbn; auto.
  Qed.

  Theorem value_noninterference : forall t en en', agree en en' t -> value t en = value t en'.
  Proof.
    intros t en en'. induction t using term_ind'; intros Hag.
    - reflexivity.
    - cbn. f_equal. destruct Hag as [_ Hb]. apply Hb. cbn; auto.
    - destruct Hag as [Ha _]. apply Ha. cbn. rewrite !in_app_iff. cbn; auto.
    - destruct Hag as [Ha _]. apply Ha. cbn. rewrite !in_app_iff. cbn; auto.
    - cbn [Refs.value]. rewrite IHt1, IHt2; auto.
      + eapply agree_sub; [| |exact Hag]; cbn; intros ? ?; rewrite in_app_iff; auto.
      + eapply agree_sub; [| |exact Hag]; cbn; intros ? ?; rewrite in_app_iff; auto.
    - cbn [Refs.value]. rewrite IHt; auto.
    - reflexivity.
    - cbn [Refs.value]. rewrite !fix_vmap. rewrite IHt.
      + rewrite (vmap_agree en en' ps); auto.
        intros x Hx. eapply agree_sub; [| |exact Hag]; cbn; intros ? ?; rewrite in_app_iff; right;
          apply in_flat_map; eauto.
      + eapply agree_sub; [| |exact Hag]; cbn; intros ? ?; rewrite in_app_iff; auto.
    - cbn [Refs.value]. rewrite !fix_vmap.
      rewrite (fix_vmap_kw (fun x => value x en)), (fix_vmap_kw (fun x => value x en')). rewrite IHt.
      + rewrite (vmap_agree en en' args); auto.
        * assert (vmap (vkw (fun x => value x en)) kw = vmap (vkw (fun x => value x en')) kw) as ->; [|reflexivity].
          assert (Hk : forall x, In x kw -> agree en en' (snd x)).
          { intros x Hx. eapply agree_sub; [| |exact Hag]; cbn; intros ? ?; rewrite !in_app_iff; right; right;
              apply in_flat_map; eauto. }
          clear Hag IHt H. induction H0 as [|x kw Hx _ IH]; cbn; [reflexivity|].
          unfold vkw at 1 3. rewrite Hx by (apply Hk; cbn; auto). rewrite IH; auto.
          intros y Hy. apply Hk. cbn; auto.
        * intros x Hx. eapply agree_sub; [| |exact Hag]; cbn; intros ? ?; rewrite !in_app_iff; right; left;
            apply in_flat_map; eauto.
      + eapply agree_sub; [| |exact Hag]; cbn; intros ? ?; rewrite in_app_iff; auto.
  Qed.
End Sound.
