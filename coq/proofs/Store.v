(* Facts about the data store (model/ManagerData.v): locality of writes,
   locality of expression evaluation, structure of _get_dependencies. *)
From Coq Require Import List Bool Arith ZArith NArith Lia.
From XD Require Import lib.ListAux lib.Toposort model.Manager model.ManagerData proofs.ManagerDataInv.
Import ListNotations.
Local Open Scope nat_scope.

Definition prefix (p q : path) : Prop := exists r, q = p ++ r.

Fixpoint is_prefix (p q : path) : bool :=
  match p, q with
  | [], _ => true
  | x :: s, y :: t => N.eqb x y && is_prefix s t
  | _ :: _, [] => false
  end.

Lemma is_prefix_spec p : forall q, is_prefix p q = true <-> prefix p q.
Proof.
  induction p as [|x s IH]; intros q; cbn.
  - split; [intros _; exists q; reflexivity|auto].
  - destruct q as [|y t].
    + split; [discriminate|intros (r & H); discriminate].
    + rewrite andb_true_iff, N.eqb_eq, IH. split.
      * intros (-> & r & ->). exists r; reflexivity.
      * intros (r & H). inversion H; subst. split; auto. exists r; reflexivity.
Qed.

Definition overlap (p q : path) : bool := is_prefix p q || is_prefix q p.

Lemma overlap_false p q : overlap p q = false <-> ~ prefix p q /\ ~ prefix q p.
Proof.
  unfold overlap. rewrite orb_false_iff. rewrite <- !is_prefix_spec.
  destruct (is_prefix p q), (is_prefix q p); intuition congruence.
Qed.

Lemma overlap_sym p q : overlap p q = overlap q p.
Proof. unfold overlap. apply orb_comm. Qed.

Lemma prefix_refl p : prefix p p.
Proof. exists []. now rewrite app_nil_r. Qed.

(* ---- writes are local --------------------------------------------------------------- *)
Lemma nget_nset_same p : forall st v st', nset st p v = Some st' -> nget st' p = Some v.
Proof.
  induction p as [|k r IH]; intros st v st'; cbn [nset].
  - intros H; inversion H; reflexivity.
  - destruct st as [z| |kids]; try discriminate. destruct r as [|k2 r2].
    + intros H; inversion H; subst. cbn. now rewrite (aget_aset_same N.eqb N.eqb_eq).
    + destruct (aget N.eqb k kids) as [c|] eqn:E; [|discriminate].
      destruct (nset c (k2 :: r2) v) as [c'|] eqn:E2; [|discriminate].
      intros H; inversion H; subst. cbn [nget]. rewrite (aget_aset_same N.eqb N.eqb_eq). now apply (IH c).
Qed.

Lemma nget_nset_other p : forall st v st' q, nset st p v = Some st' ->
  ~ prefix p q -> ~ prefix q p -> nget st' q = nget st q.
Proof.
  induction p as [|k r IH]; intros st v st' q; cbn [nset].
  - intros _ H. exfalso. apply H. exists q; reflexivity.
  - destruct st as [z| |kids]; try discriminate.
    destruct q as [|k' q']; [intros _ _ H; exfalso; apply H; exists (k :: r); reflexivity|].
    destruct r as [|k2 r2].
    + intros H Hn1 Hn2; inversion H; subst. cbn [nget].
      destruct (N.eqb_spec k k') as [->|Hne].
      * exfalso. apply Hn1. exists q'; reflexivity.
      * rewrite (aget_aset_other N.eqb N.eqb_eq) by assumption. reflexivity.
    + destruct (aget N.eqb k kids) as [c|] eqn:E; [|discriminate].
      destruct (nset c (k2 :: r2) v) as [c'|] eqn:E2; [|discriminate].
      intros H Hn1 Hn2; inversion H; subst. cbn [nget].
      destruct (N.eqb_spec k k') as [->|Hne].
      * rewrite (aget_aset_same N.eqb N.eqb_eq), E. apply (IH c v c' q' E2).
        -- intros (x & Hx). apply Hn1. exists x. now rewrite Hx.
        -- intros (x & Hx). apply Hn2. exists x. now rewrite Hx.
      * rewrite (aget_aset_other N.eqb N.eqb_eq) by assumption. reflexivity.
Qed.

Lemma nget_nset_disjoint p st v st' q :
  nset st p v = Some st' -> overlap p q = false -> nget st' q = nget st q.
Proof. intros H Ho. apply overlap_false in Ho. destruct Ho. eapply nget_nset_other; eauto. Qed.

(* ---- evaluation reads only the listed locations -------------------------------------- *)
Lemma eval_local e : forall st st', (forall q, In q (reads e) -> nget st q = nget st' q) -> eval st e = eval st' e.
Proof.
  induction e as [z|p|o a IHa b IHb|f a|f a|k a IHa]; intros st st' H; cbn [eval reads] in *.
  - reflexivity.
  - apply H. now left.
  - assert (Ha : eval st a = eval st' a) by (apply IHa; intros q Hq; apply H; apply in_app_iff; auto).
    assert (Hb : eval st b = eval st' b) by (apply IHb; intros q Hq; apply H; apply in_app_iff; auto).
    now rewrite Ha, Hb.
  - assert (Hf : nget st f = nget st' f) by (apply H; cbn; auto).
    assert (Ha : nget st a = nget st' a) by (apply H; cbn; auto).
    now rewrite Hf, Ha.
  - assert (Hf : nget st f = nget st' f) by (apply H; cbn; auto).
    assert (Ha : nget st a = nget st' a) by (apply H; cbn; auto).
    now rewrite Hf, Ha.
  - now rewrite (IHa st st' H).
Qed.

(* ---- MutableRef._get_dependencies ------------------------------------------------------ *)
Lemma prefixes_from_In rest : forall pre x,
  In x (prefixes_from pre rest) <-> exists r1 r2, rest = r1 ++ r2 /\ r1 <> [] /\ x = pre ++ r1.
Proof.
  induction rest as [|k r IH]; intros pre x; cbn [prefixes_from].
  - split; [intros []|]. intros (r1 & r2 & H & Hn & _). destruct r1; [congruence|discriminate].
  - cbn [In]. rewrite IH. split.
    + intros [<-|(r1 & r2 & -> & Hn & ->)].
      * exists [k], r. split; [reflexivity|split; [discriminate|reflexivity]].
      * exists (k :: r1), r2. split; [reflexivity|split; [discriminate|]]. now rewrite <- app_assoc.
    + intros (r1 & r2 & H & Hn & ->). destruct r1 as [|k' r1']; [congruence|]. inversion H; subst.
      destruct r1' as [|k2 r1''].
      * left; reflexivity.
      * right. exists (k2 :: r1''), r2. split; [reflexivity|split; [discriminate|]]. now rewrite <- app_assoc.
Qed.

Lemma deps_of_In p x : In x (deps_of p) <-> prefix x p /\ 2 <= length x.
Proof.
  destruct p as [|l rest]; cbn [deps_of].
  - split; [intros []|]. intros ((r & H) & Hl). destruct x; [cbn in Hl; lia|discriminate].
  - rewrite prefixes_from_In. split.
    + intros (r1 & r2 & -> & Hn & ->). split; [exists r2; reflexivity|].
      destruct r1; [congruence|cbn; lia].
    + intros ((r & H) & Hl). destruct x as [|l' x']; [cbn in Hl; lia|]. inversion H; subst.
      exists x', r. split; [reflexivity|split; [|reflexivity]]. destruct x'; [cbn in Hl; lia|discriminate].
Qed.

(* two overlapping references (each below its container) share a reported dependency *)
Lemma overlap_common a q : 2 <= length a -> 2 <= length q -> overlap a q = true ->
  exists x, In x (deps_of a) /\ In x (deps_of q).
Proof.
  intros Ha Hq Ho. unfold overlap in Ho. apply orb_true_iff in Ho.
  destruct Ho as [H|H]; apply is_prefix_spec in H.
  - exists a. rewrite !deps_of_In. repeat split; auto. apply prefix_refl.
  - exists q. rewrite !deps_of_In. repeat split; auto. apply prefix_refl.
Qed.
