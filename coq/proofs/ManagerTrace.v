(* C02: the list of tasks that find_taskids / find_tasks returns for an
   assignment — hence the run trace of set_value — is duplicate-free, is
   exactly the set of tasks that transitively depend on the start
   locations, and respects the ordering relation (producers first) unless
   the consumer reaches the producer (a cycle); for every iteration order of
   the start set. *)
From Coq Require Import List Bool Arith Lia Permutation.
From XD Require Import lib.ListAux lib.Toposort model.Manager proofs.ManagerIdx proofs.ManagerInv.
Import ListNotations.

Section Trace.
Context {K A : Type}.
Variable eqb : K -> K -> bool.
Hypothesis eqb_spec : forall a b, eqb a b = true <-> a = b.

Notation task := (@task K A).
Notation mgr := (@mgr K A).
Notation icount := (icount eqb).
Notation idx_wf := (idx_wf eqb).
Notation Inv := (Inv eqb).
Notation memb := (mem eqb).

(* ---- boolean set checks ------------------------------------------------------------ *)
Lemma nodupb_go l : forall seen,
  (fix go (l seen : list K) : bool :=
     match l with [] => true | x :: r => negb (memb x seen) && go r (x :: seen) end) l seen = true ->
  NoDup l /\ forall x, In x l -> ~ In x seen.
Proof.
  induction l as [|x r IH]; intros seen H.
  - split; [constructor|intros x []].
  - apply andb_true_iff in H. destruct H as [H1 H2]. apply negb_true_iff in H1.
    apply (mem_nIn eqb eqb_spec) in H1. destruct (IH _ H2) as [Hn Hd]. split.
    + constructor; auto. intros Hin. apply (Hd x Hin). now left.
    + intros y [<-|Hy]; auto. intros Hs. apply (Hd y Hy). now right.
Qed.

Lemma nodupb_spec l : nodupb eqb l = true -> NoDup l.
Proof. intros H. apply (nodupb_go l [] H). Qed.

Lemma same_set_spec a b : same_set eqb a b = true ->
  NoDup a /\ NoDup b /\ forall x, In x a <-> In x b.
Proof.
  unfold same_set. intros H. repeat (apply andb_true_iff in H; destruct H as [H ?]).
  apply Nat.eqb_eq in H. apply nodupb_spec in H2. apply nodupb_spec in H1.
  assert (Hab : incl a b).
  { intros x Hx. rewrite forallb_forall in H0. apply (mem_In eqb eqb_spec). now apply H0. }
  split; [exact H2|split; [exact H1|]]. intros x; split; [apply Hab|].
  apply NoDup_length_incl; auto. lia.
Qed.

(* ---- the start set ------------------------------------------------------------------- *)
Lemma add_new_In ks : forall set x, In x (fold_left (add_new eqb) ks set) <-> In x set \/ In x ks.
Proof.
  induction ks as [|k ks IH]; intros set x; cbn [fold_left]; [cbn; tauto|].
  rewrite IH. unfold add_new. destruct (memb k set) eqn:E.
  - apply (mem_In eqb eqb_spec) in E. cbn. split; [tauto|]. intros [H|[<-|H]]; auto.
  - rewrite in_app_iff. cbn. tauto.
Qed.

Lemma start_set_spec sd : forall set dt, idx_wf dt ->
  let r := fold_left (fun acc dep => let '(set, dt) := acc in
                                     let '(rc, dt') := iget eqb dep dt in
                                     (fold_left (add_new eqb) (rc_keys rc) set, dt')) sd (set, dt) in
  idx_wf (snd r) /\ (forall a b, icount (snd r) a b = icount dt a b) /\
  (forall x, In x (fst r) <-> In x set \/ exists dep, In dep sd /\ 1 <= icount dt dep x).
Proof.
  induction sd as [|dep sd IH]; intros set dt W; cbn [fold_left].
  - cbn. split; [exact W|split; [reflexivity|]]. intros x; split; [auto|intros [H|(dep & [] & _)]; auto].
  - pose proof (iget_fst eqb dep dt) as F1.
    pose proof (iget_snd_wf eqb eqb_spec dep dt W) as F2.
    pose proof (fun a b => icount_iget eqb dep dt a b) as F3.
    destruct (iget eqb dep dt) as [rc dt']. cbn [fst snd] in *. subst rc.
    destruct (IH (fold_left (add_new eqb) (rc_keys (ipeek eqb dep dt)) set) dt' F2) as (W' & C' & S').
    split; [exact W'|]. split; [intros a b; now rewrite C', F3|].
    intros x. rewrite S', add_new_In. rewrite (keys_icount eqb eqb_spec dt dep x W).
    split.
    + intros [[H|H]|(d & Hd & Hc)]; auto.
      * right. exists dep. split; [now left|exact H].
      * right. exists d. split; [now right|]. now rewrite <- F3.
    + intros [H|(d & [<-|Hd] & Hc)]; auto.
      right. exists d. split; auto. now rewrite F3.
Qed.

(* ---- the universe of the search -------------------------------------------------------- *)
Definition all_keys (rt : @index K) : list K :=
  flat_map (fun p => fst p :: rc_keys (snd p)) rt.

Lemma graph_size_spec (rt : @index K) : forall n,
  fold_left (fun n p => n + 1 + length (snd p)) rt n = n + length (all_keys rt).
Proof.
  induction rt as [|[k rc] t IH]; intros n; cbn [fold_left all_keys flat_map]; [cbn; lia|].
  rewrite IH. cbn [fst snd length]. rewrite app_length.
  assert (Hl : length (rc_keys rc) = length rc) by (unfold rc_keys; apply map_length).
  fold (all_keys t). change (length (k :: rc_keys rc)) with (S (length (rc_keys rc))). lia.
Qed.

Lemma succs_in_all_keys (rt : @index K) u v : In v (succs eqb rt u) -> In v (all_keys rt).
Proof.
  unfold succs, ipeek, all_keys. induction rt as [|[k rc] t IH]; cbn; [tauto|].
  destruct (eqb u k); intros H.
  - right. apply in_app_iff. now left.
  - right. apply in_app_iff. right. now apply IH.
Qed.

(* ---- specification in terms of the registered tasks --------------------------------------- *)
Definition edge (ts : list (K * task)) (a b : K) : Prop :=
  exists Ta Tb, aget eqb a ts = Some Ta /\ aget eqb b ts = Some Tb /\
                exists x, In x (t_targets Ta) /\ In x (t_deps Tb).

Definition starts (ts : list (K * task)) (sd : list K) (a : K) : Prop :=
  exists Ta, aget eqb a ts = Some Ta /\ exists d, In d sd /\ In d (t_deps Ta).

Inductive clos (R : K -> K -> Prop) : K -> K -> Prop :=
| clos_refl x : clos R x x
| clos_step x y z : R x y -> clos R y z -> clos R x z.

Definition Triggered (ts : list (K * task)) (sd : list K) (w : K) : Prop :=
  exists r, starts ts sd r /\ clos (edge ts) r w.

Lemma inter_pos l1 l2 : 1 <= inter eqb l1 l2 <-> exists x, In x l1 /\ In x l2.
Proof.
  unfold inter, cntp. induction l1 as [|y t IH]; cbn.
  - split; [lia|intros (x & [] & _)].
  - destruct (memb y l2) eqn:E; cbn.
    + split; [intros _|lia]. exists y. split; [now left|now apply (mem_In eqb eqb_spec)].
    + rewrite IH. split.
      * intros (x & H1 & H2). exists x; auto.
      * intros (x & [<-|H1] & H2); [|exists x; auto].
        apply (mem_In eqb eqb_spec) in H2. congruence.
Qed.

Lemma succs_edge (m : mgr) u v : Inv m -> (In v (succs eqb (m_rtasks m) u) <-> edge (m_tasks m) u v).
Proof.
  intros (W & TW & IR & ID & IT & IRt). destruct W as (_ & W2 & _).
  unfold succs. rewrite (keys_icount eqb eqb_spec _ _ _ W2), IRt. unfold c_rtasks, edge.
  destruct (aget eqb u (m_tasks m)) as [Ta|]; [destruct (aget eqb v (m_tasks m)) as [Tb|]|].
  - rewrite inter_pos. split; [intros H; exists Ta, Tb; auto|intros (Ta' & Tb' & E1 & E2 & H)].
    inversion E1; inversion E2; subst. exact H.
  - split; [lia|intros (Ta' & Tb' & _ & E & _); discriminate].
  - split; [lia|intros (Ta' & Tb' & E & _); discriminate].
Qed.

Lemma reach_clos (m : mgr) u v : Inv m ->
  (reach (succs eqb (m_rtasks m)) u v <-> clos (edge (m_tasks m)) u v).
Proof.
  intros HI. split.
  - induction 1 as [x|x y z Hxy _ IH]; [constructor|]. econstructor; [|exact IH]. now apply (succs_edge m).
  - induction 1 as [x|x y z Hxy _ IH]; [constructor|]. econstructor; [|exact IH]. now apply (succs_edge m).
Qed.

(* ---- the theorem ---------------------------------------------------------------------------- *)
Theorem find_taskids_spec (m : mgr) sd order L m' :
  Inv m -> find_taskids eqb m sd order = Ok (L, m') ->
  NoDup L /\
  (forall w, In w L <-> Triggered (m_tasks m) sd w) /\
  (forall u v, In u L -> edge (m_tasks m) u v ->
               before u v L \/ clos (edge (m_tasks m)) v u) /\
  Inv m' /\ m_tasks m' = m_tasks m /\ m_frozen m' = m_frozen m /\ m_rtasks m' = m_rtasks m.
Proof.
  intros HI. pose proof HI as ((W1 & W2 & W3 & W4) & TW & IR & ID & IT & IRt).
  unfold find_taskids, start_set.
  pose proof (start_set_spec sd [] (m_deptasks m) W3) as HS.
  destruct (fold_left _ sd ([], m_deptasks m)) as [set dt]. cbn [fst snd] in HS.
  destruct HS as (Wd & Cd & Sd).
  destruct (same_set eqb order set) eqn:Ess; [|discriminate].
  intros H; inversion H; subst L m'; clear H.
  destruct (same_set_spec _ _ Ess) as (Hno & _ & Hoe).
  set (g := succs eqb (m_rtasks m)).
  set (univ := order ++ all_keys (m_rtasks m)).
  assert (Hclosed : forall u v, In u univ -> In v (g u) -> In v univ).
  { intros u v _ Hv. unfold univ. apply in_app_iff. right. eapply succs_in_all_keys; eauto. }
  assert (Hstart : incl order univ) by (intros x Hx; unfold univ; apply in_app_iff; now left).
  assert (Hfuel : length univ < S (graph_size (m_rtasks m) + length order)).
  { unfold univ, graph_size. rewrite app_length, graph_size_spec. lia. }
  destruct (toposort_correct eqb eqb_spec g univ Hclosed _ order Hstart Hfuel) as (HN & HR & HO).
  split; [exact HN|]. split; [|split; [|split; [|repeat split]]].
  - intros w. rewrite HR. unfold Triggered. split.
    + intros (r & Hr & Hre). exists r. split; [|now apply (reach_clos m)].
      apply Hoe, Sd in Hr. destruct Hr as [[]|(dep & Hdep & Hc)].
      rewrite ID in Hc. unfold c_deptasks in Hc. unfold starts.
      destruct (aget eqb r (m_tasks m)) as [Ta|]; [|lia]. exists Ta. split; auto.
      exists dep. split; auto. apply (mem_In eqb eqb_spec). destruct (memb dep (t_deps Ta)); [reflexivity|cbn in Hc; lia].
    + intros (r & (Ta & Ea & d & Hd & Hdt) & Hre). exists r. split; [|now apply (reach_clos m)].
      apply Hoe, Sd. right. exists d. split; auto. rewrite ID. unfold c_deptasks. rewrite Ea.
      apply (mem_In eqb eqb_spec) in Hdt. rewrite Hdt. cbn; lia.
  - intros u v Hu He. apply (succs_edge m u v HI) in He. destruct (HO u v Hu He) as [Hb|Hr]; [now left|right].
    now apply (reach_clos m).
  - (* Inv of the manager with the touched deptasks *)
    split; [split; [exact W1|split; [exact W2|split; [exact Wd|exact W4]]]|]. split; [exact TW|].
    cbn [m_rdeps m_rtasks m_deptasks m_tartasks m_tasks].
    split; [exact IR|split; [|split; [exact IT|exact IRt]]]. intros d a. now rewrite Cd, ID.
Qed.

End Trace.
