(* Specifications of the inner transitions of the optimizer model: the merit
   call, JacobianSolver.eval, get_jacobian, the bisection loop and one
   JacobianSolver.step.  For every oracle (environment E) and configuration. *)
From Coq Require Import List Bool Arith NArith ZArith Lia.
From XD Require Import model.Opt proofs.OptBase.
Import ListNotations.

Section Inner.
  Variable E : env.
  Notation F := (eF E).
  Variable cf : cfg F.
  Notation state := (state F).
  Notation lims := (c_lim cf).
  Notation n := (length (c_w cf)).

  (* ---- frames ----------------------------------------------------------- *)
  (* flags, log, solver x untouched; inactive knobs untouched *)
  Definition inner0 (s s' : state) : Prop :=
    va s' = va s /\ ta s' = ta s /\ log s' = log s /\
    sx s' = sx s /\ mfl s' = mfl s /\ kn_inact E (va s) (knobs s) (knobs s').
  Definition inner (s s' : state) : Prop :=
    va s' = va s /\ ta s' = ta s /\ log s' = log s /\
    kn_inact E (va s) (knobs s) (knobs s').

  Lemma inner0_refl s : inner0 s s.
  Proof. unfold inner0; repeat split; auto. apply kn_inact_refl. Qed.
  Lemma inner0_trans s1 s2 s3 : inner0 s1 s2 -> inner0 s2 s3 -> inner0 s1 s3.
  Proof.
    unfold inner0. intros (A1 & A2 & A3 & A5 & A6 & A7) (B1 & B2 & B3 & B5 & B6 & B7).
    repeat split; try congruence. rewrite A1 in B7. eapply kn_inact_trans; eauto.
  Qed.
  Lemma inner0_inner s s' : inner0 s s' -> inner s s'.
  Proof. unfold inner0, inner; tauto. Qed.
  Lemma inner_refl s : inner s s.
  Proof. unfold inner; repeat split; auto. apply kn_inact_refl. Qed.
  Lemma inner_trans s1 s2 s3 : inner s1 s2 -> inner s2 s3 -> inner s1 s3.
  Proof.
    unfold inner. intros (A1 & A2 & A3 & A7) (B1 & B2 & B3 & B7).
    repeat split; try congruence. rewrite A1 in B7. eapply kn_inact_trans; eauto.
  Qed.

  (* the fields of the last evaluation describe an evaluation of the user's
     function at the current container values with the current target flags *)
  Definition evald (s : state) (out : list F) : Prop :=
    exists r, e_f E (knobs s) = Some r /\ lres s = r /\ ltw s = within E cf r /\
              lpwt s = all_ok (within E cf r) (ta s) /\ out = merit_out E cf (ta s) r.
  Definition synced (s : state) : Prop := exists out, evald s out.

  (* well-formed shapes *)
  Definition wfc : Prop := length lims = n.
  Definition wfs (s : state) : Prop :=
    length (knobs s) = n /\ length (va s) = n /\
    (forall x, sx s = Some x -> length x = n /\ length (mfl s) = n).

  (* ---- merit call --------------------------------------------------------- *)
  Lemma merit_spec x chk s :
    post (merit_call E cf x chk s)
      (fun p => inner0 s (snd p) /\ evald (snd p) (fst p) /\
                write_knobs E chk (va s) lims (x_to_knobs E cf x) (knobs s) = (knobs (snd p), false))
      (fun e s' => inner0 s s' /\ knobs s' = fst (write_knobs E chk (va s) lims (x_to_knobs E cf x) (knobs s))).
  Proof.
    unfold merit_call.
    pose proof (wk_inact E chk (va s) lims (x_to_knobs E cf x) (knobs s)) as Hi.
    destruct (write_knobs E chk (va s) lims (x_to_knobs E cf x) (knobs s)) as [k' e] eqn:Hw. cbn [fst] in Hi.
    destruct e.
    - cbn. stsimpl. unfold inner0; stsimpl. repeat split; auto.
    - destruct (e_f E k') as [r|] eqn:Hf.
      + destruct (log_bad E (ta s) (c_tlog cf) r (c_tval cf)).
        * cbn. stsimpl. unfold inner0; stsimpl. repeat split; auto.
        * cbn. stsimpl. unfold inner0, evald; stsimpl. repeat split; auto. exists r. repeat split; auto.
      + cbn. stsimpl. unfold inner0; stsimpl. repeat split; auto.
  Qed.

  Lemma eval_spec x s :
    post (solver_eval E cf x s)
      (fun p => let '(y, pn, s') := p in
                inner0 s s' /\ evald s' y /\ pn = e_pen E y /\
                write_knobs E (c_check cf) (va s) lims (x_to_knobs E cf x) (knobs s) = (knobs s', false))
      (fun e s' => inner0 s s' /\ knobs s' = fst (write_knobs E (c_check cf) (va s) lims (x_to_knobs E cf x) (knobs s))).
  Proof.
    unfold solver_eval. eapply post_bind'; [apply merit_spec| |].
    - intros e s' H; exact H.
    - intros [y s'] (H1 & H2 & H3). cbn in *. auto.
  Qed.

  (* a failing checked evaluation keeps the containers inside the limits *)
  Lemma eval_err_lims x s e s' :
    c_check cf = true -> solver_eval E cf x s = Err e s' -> lims_ok E lims (knobs s) -> lims_ok E lims (knobs s').
  Proof.
    intros Hc He Hl. pose proof (eval_spec x s) as H. rewrite He in H. cbn in H. destruct H as [_ ->].
    rewrite Hc. apply wk_lims; auto.
  Qed.

  Lemma eval_ok_lims x s y pn s' :
    c_check cf = true -> solver_eval E cf x s = Ok (y, pn, s') -> lims_ok E lims (knobs s) -> lims_ok E lims (knobs s').
  Proof.
    intros Hc He Hl. pose proof (eval_spec x s) as H. rewrite He in H. cbn in H. destruct H as (_ & _ & _ & Hw).
    rewrite Hc in Hw.
    pose proof (wk_lims E (va s) lims (x_to_knobs E cf x) (knobs s) Hl) as H. rewrite Hw in H. exact H.
  Qed.

  (* ---- get_jacobian ------------------------------------------------------- *)
  Lemma jac_cols_spec pre act steps suf f0 s :
    post (jac_cols E cf pre act steps suf f0 s) (fun p => inner0 s (snd p)) (fun e s' => inner0 s s').
  Proof.
    revert pre steps suf s. induction act as [|a act IH]; intros pre steps suf s; cbn.
    - apply inner0_refl.
    - destruct steps as [|h steps]; [cbn; apply inner0_refl|].
      destruct suf as [|xi suf]; [cbn; apply inner0_refl|].
      destruct a.
      + eapply post_bind'; [apply merit_spec| |].
        * intros e s' [Hp _]. exact Hp.
        * intros [y s1] (H1 & _). cbn [snd] in *.
          eapply post_bind'; [apply IH| |].
          -- intros e s' Hp. exact (inner0_trans _ _ _ H1 Hp).
          -- intros [cols s2] Hp. cbn in *. exact (inner0_trans _ _ _ H1 Hp).
      + eapply post_bind'; [apply IH| |].
        * intros e s' Hp. exact Hp.
        * intros [cols s2] Hp. cbn in *. exact Hp.
  Qed.

  Lemma get_jacobian_spec x f0 s :
    post (get_jacobian E cf x f0 s) (fun p => inner0 s (snd p)) (fun e s' => inner0 s s').
  Proof. unfold get_jacobian. apply jac_cols_spec. Qed.

  (* ---- lengths --------------------------------------------------------------- *)
  Lemma clip_loop_length i ms ws out : length (clip_loop E i ms ws out) = length out.
  Proof.
    revert i ws out; induction ms as [|m ms IH]; intros i [|w ws] out; cbn; auto.
    rewrite IH. destruct m; auto. destruct (e_ltb E _ _); auto. apply map_length.
  Qed.

  Lemma scatter_length m v : length (scatter E m v) = length m.
  Proof. revert v; induction m as [|[|] m IH]; intros v; cbn; auto. destruct v; cbn; auto. Qed.

  Lemma lim_loop_length x this xl t h :
    lim_loop E x this xl = (t, h) ->
    length t = Nat.min (length x) (Nat.min (length this) (length xl)) /\ length h = length t.
  Proof.
    revert this xl t h; induction x as [|xi x IH]; intros [|ti this] [|[lo hi] xl] t h; cbn;
      try (intros H; inversion H; subst; cbn; auto; fail).
    destruct (lim_loop E x this xl) as [tl hh] eqn:Hr. specialize (IH _ _ _ _ Hr). destruct IH as [I1 I2].
    destruct (below E lo (e_sub E xi ti)); [|destruct (above E hi (e_sub E xi ti))];
      intros H; inversion H; subst; cbn; auto.
  Qed.

  Lemma x_limits_length : length (x_limits E cf) = Nat.min (length lims) n.
  Proof. unfold x_limits. apply map2_length. Qed.

  (* ---- bisection loop --------------------------------------------------------- *)
  (* the state is the result of a checked evaluation at x - t, started from
     containers kp that differ from those of s0 only in active knobs *)
  Definition landed (s0 : state) (x : list F) (s : state) (np : F) (t : list F) : Prop :=
    exists y kp, evald s y /\ np = e_pen E y /\ kn_inact E (va s0) (knobs s0) kp /\
      write_knobs E (c_check cf) (va s0) lims (x_to_knobs E cf (map2 (e_sub E) x t)) kp = (knobs s, false).
  Definition from_lim (x xstep t : list F) (h : list bool) : Prop :=
    exists this, length this = length xstep /\ lim_loop E x this (x_limits E cf) = (t, h).

  Lemma bisect_spec s0 x xstep pn fuel : forall an prev s,
    inner0 s0 s ->
    (forall np t h, prev = Some (np, t, h) -> landed s0 x s np t /\ from_lim x xstep t h) ->
    post (bisect E cf fuel an prev x xstep pn s)
      (fun p => let '(a, np, t, h, s') := p in inner0 s0 s' /\ landed s0 x s' np t /\ from_lim x xstep t h)
      (fun e s' => inner0 s0 s').
  Proof.
    induction fuel as [|fuel IH]; intros an prev s H0 Hprev; [cbn; auto|].
    cbn [bisect].
    match goal with |- post (match ?c with Some _ => _ | None => _ end) _ _ => destruct c as [[[np t] h]|] eqn:Hhead end.
    - cbn. destruct (5 <=? an); [|discriminate]. destruct prev as [[[np' t'] h']|]; [|discriminate].
      destruct (e_ltb E np' _); inversion Hhead; subst. destruct (Hprev _ _ _ eq_refl) as [L1 L2]. auto.
    - clear Hhead.
      destruct (lim_loop E x (map (fun v => e_mul E (pow2neg E an) v) xstep) (x_limits E cf)) as [this' hit] eqn:Hl.
      eapply post_bind'; [apply eval_spec| |].
      + intros e s' [Hp _]. exact (inner0_trans _ _ _ H0 Hp).
      + intros [[y newpen] s'] (I1 & I2 & I3 & I4).
        assert (Hland : landed s0 x s' newpen this' /\ from_lim x xstep this' hit).
        { split.
          - exists y, (knobs s). repeat split; auto.
            + destruct H0 as (_ & _ & _ & _ & _ & Hk). exact Hk.
            + destruct H0 as (Hva & _). rewrite <- Hva. exact I4.
          - exists (map (fun v => e_mul E (pow2neg E an) v) xstep). split; auto. apply map_length. }
        pose proof (inner0_trans _ _ _ H0 I1) as H0'.
        destruct (e_ltb E newpen pn).
        * cbn. destruct Hland. auto.
        * apply IH; auto. intros np t h Hs. inversion Hs; subst. exact Hland.
  Qed.

  (* ---- one JacobianSolver.step ------------------------------------------------ *)
  Definition stepped (s0 s' : state) : Prop :=
    exists x' y kp, sx s' = Some x' /\ evald s' y /\ pen_after s' = e_pen E y /\
      kn_inact E (va s0) (knobs s0) kp /\
      write_knobs E (c_check cf) (va s0) lims (x_to_knobs E cf x') kp = (knobs s', false) /\
      (wfc -> wfs s0 -> length x' = n /\ length (mfl s') = n) /\
      (* the new solver x is the old one, or the old one minus a step that went through the limit test *)
      (exists x0, sx s0 = Some x0 /\
         (x' = x0 \/ exists this t h, lim_loop E x0 this (x_limits E cf) = (t, h) /\ x' = map2 (e_sub E) x0 t)).

  Lemma evald_frame s s' out :
    evald s out -> knobs s' = knobs s -> ta s' = ta s -> lres s' = lres s -> ltw s' = ltw s -> lpwt s' = lpwt s ->
    evald s' out.
  Proof. intros (r & H1 & H2 & H3 & H4 & H5) K T L W P. exists r. rewrite K, T, L, W, P. auto. Qed.

  (* error exits leave solver.x and the shape of mask_from_limits alone *)
  Definition innerx (s s' : state) : Prop :=
    inner s s' /\ sx s' = sx s /\ length (mfl s') = length (mfl s).
  Lemma inner0_innerx s s' : inner0 s s' -> innerx s s'.
  Proof. intros H. split; [apply inner0_inner; auto|]. destruct H as (_ & _ & _ & H5 & H6 & _). rewrite H6; auto. Qed.
  Lemma innerx_refl s : innerx s s.
  Proof. split; [apply inner_refl|auto]. Qed.
  Lemma innerx_trans s1 s2 s3 : innerx s1 s2 -> innerx s2 s3 -> innerx s1 s3.
  Proof. intros (A & B & C) (A' & B' & C'). split; [eapply inner_trans; eauto|split; congruence]. Qed.

  Lemma jac_step_spec fuel b s :
    post (jac_step E cf fuel b s) (fun s' => inner s s' /\ stepped s s') (fun e s' => innerx s s').
  Proof.
    unfold jac_step. destruct (sx s) as [x|] eqn:Hsx; [|cbn; apply innerx_refl].
    eapply post_bind'; [apply eval_spec| |].
    { intros e s' [Hp _]. apply inner0_innerx; auto. }
    intros [[y penalty] s1] (I1 & I2 & I3 & I4).
    assert (Hearly : inner s (set_pen s1 penalty) /\ stepped s (set_pen s1 penalty)).
    { split.
      - apply inner0_inner in I1. unfold inner in *; stsimpl. exact I1.
      - exists x, y, (knobs s). stsimpl. repeat split; auto.
        + destruct I1 as (_ & _ & _ & Hx & _). congruence.
        + apply kn_inact_refl.
        + destruct H0 as (_ & _ & Hw). apply (Hw _ Hsx).
        + destruct I1 as (_ & _ & _ & _ & Hm & _). destruct H0 as (_ & _ & Hw). rewrite Hm. apply (Hw _ Hsx).
        + exists x. split; auto. }
    destruct (e_ltb E penalty (e_tolj E)); [cbn; exact Hearly|].
    cbn [lpwt set_pen]. destruct (lpwt s1) eqn:Hl1; [cbn; exact Hearly|]. clear Hearly.
    set (s1p := set_pen s1 penalty).
    assert (I1p : inner0 s s1p). { unfold s1p, inner0 in *; stsimpl. exact I1. }
    eapply post_bind' with (P' := fun p => inner0 s (snd p)) (Q' := fun e s' => inner0 s s').
    { destruct (if b then bro s1p else None) as [[[lj lx] ly]|].
      - cbn. exact I1p.
      - eapply post_weaken; [apply get_jacobian_spec| |].
        + intros p Hp. exact (inner0_trans _ _ _ I1p Hp).
        + intros e s' Hp. exact (inner0_trans _ _ _ I1p Hp). }
    { intros e s' Hp. apply inner0_innerx; auto. }
    intros [jac s2] J. cbn [snd] in J.
    set (s2b := set_bro s2 (Some (jac, x, y))).
    assert (J2 : inner0 s s2b). { unfold s2b, inner0 in *; stsimpl. exact J. }
    destruct (negb (existsb (fun b0 : bool => b0) (va s2b))); [cbn; apply inner0_innerx; exact J2|].
    match goal with |- post (match ?m with Some _ => _ | None => _ end) _ _ => destruct m as [nstep|] end;
      [|cbn; apply inner0_innerx; exact J2].
    set (mi := map2 andb (va s2b) (mfl s2b)).
    set (xstep := clip_to_max_steps E cf (scatter E mi nstep)).
    set (s3 := set_mfl s2b (map (fun _ => true) (mfl s2b))).
    assert (J3' : innerx s s3).
    { destruct J2 as (A1 & A2 & A3 & A5 & A6 & A7). unfold s3, innerx, inner; stsimpl.
      rewrite map_length, A6. repeat split; auto. }
    assert (Hb : post (bisect E cf fuel 0 None x xstep penalty s3)
                   (fun p => let '(a, np, t, h, s') := p in
                             innerx s s' /\ landed s x s' np t /\ from_lim x xstep t h)
                   (fun e s' => innerx s s')).
    { eapply post_weaken; [apply (bisect_spec s3 x xstep penalty fuel 0 None s3 (inner0_refl s3))| |].
      - intros np t h Hs; discriminate.
      - intros [[[[a np] t] h] s'] (B1 & B2 & B3).
        pose proof (innerx_trans _ _ _ J3' (inner0_innerx _ _ B1)) as B1'.
        split; [exact B1'|]. split; [|exact B3].
        destruct J3' as ((A1 & A2 & A3 & A6) & _).
        destruct B2 as (y' & kp & D1 & D2 & D3 & D4). exists y', kp. rewrite A1 in D3, D4. repeat split; auto.
        eapply kn_inact_trans; eauto.
      - intros e s' B1. exact (innerx_trans _ _ _ J3' (inner0_innerx _ _ B1)). }
    eapply post_bind'; [exact Hb| |].
    { intros e s' Hp; exact Hp. }
    intros [[[[alpha newpen] this'] hit] s4] (K1 & K3 & K4).
    destruct (e_ltb E (e_mul E penalty (e_hundred E)) newpen).
    - eapply post_bind'; [apply eval_spec| |].
      + intros e s' [Hp _]. apply inner0_innerx in Hp. exact (innerx_trans _ _ _ K1 Hp).
      + intros [[y5 p5] s5] (L1 & _). cbn. apply inner0_innerx in L1. exact (innerx_trans _ _ _ K1 L1).
    - cbn. destruct K1 as (K1 & K2 & _). split.
      + unfold inner in *; stsimpl. exact K1.
      + destruct K3 as (y' & kp & D1 & D2 & D3 & D4).
        exists (map2 (e_sub E) x this'), y', kp. stsimpl.
        split; [reflexivity|]. split; [eapply evald_frame; eauto|]. split; [exact D2|]. split; [exact D3|].
        split; [exact D4|].
        split; [|exists x; split; [exact Hsx|right; destruct K4 as (this & _ & T2); exists this, this', hit; auto]].
        intros Hc Hs. destruct K4 as (this & T1 & T2). apply lim_loop_length in T2. destruct T2 as [T2 T3].
        destruct Hs as (W1 & W2 & W3). destruct (W3 _ Hsx) as [W4 W5].
        assert (Hxs : length xstep = n).
        { unfold xstep, clip_to_max_steps. rewrite clip_loop_length, scatter_length. unfold mi. rewrite map2_length.
          unfold s2b; stsimpl. destruct J as (V1 & _ & _ & _ & V2 & _). rewrite V1, V2. lia. }
        rewrite map2_length, map_length, T3, T2, x_limits_length, T1, Hxs, W4. unfold wfc in Hc. rewrite Hc. lia.
  Qed.
End Inner.
