(* C12: rebuilding a node from its __reduce__ tuple gives the node back, deeply;
   a manager's task list survives.  Generic in the table: only
   [sig_ok T = true] is used. *)
From Coq Require Import List ZArith NArith Bool Lia.
From XD Require Import model.RefSyntax model.RefTables model.Refs model.RefsOk proofs.RefsBase.
Import ListNotations.

Section PickleProof.
  Variable T : tables.
  Hypothesis HS : sig_ok T = true.

  Lemma so_specials : specials_ok T = true.
  Proof. pose proof HS as H. unfold sig_ok in H. now apply andb_prop in H as [H _]. Qed.
  Lemma so_class ci : In ci (t_classes T) -> class_sig_ok T ci = true.
  Proof.
    pose proof HS as H. unfold sig_ok in H. apply andb_prop in H as [_ H].
    rewrite forallb_forall in H. apply H.
  Qed.

  Lemma positions_spec asg fs i f : positions_ok asg fs i = true -> In f fs ->
    exists j, assign_of asg f = Some (i + j) /\ nth_error fs j = Some f.
  Proof.
    revert i. induction fs as [|g fs IH]; intros i Hp Hin; [contradiction|].
    cbn in Hp. apply andb_prop in Hp as [Hg Hrest]. destruct Hin as [->|Hin].
    - exists 0. split; [|reflexivity]. destruct (assign_of asg f) as [j|]; [|discriminate].
      apply Nat.eqb_eq in Hg. subst. f_equal. lia.
    - destruct (IH (S i) Hrest Hin) as (j & Ha & Hn). exists (S j). split; auto. rewrite Ha. f_equal. lia.
  Qed.

  Lemma mk_term_ext k c fld fld' : (forall f, In f (fields_of_kind k) -> fld f = fld' f) ->
    mk_term k c fld = mk_term k c fld'.
  Proof.
    intros H. destruct k; cbn in *; try reflexivity;
      repeat match goal with |- context [fld ?f] => rewrite (H f) by auto 10 end; reflexivity.
  Qed.

  Lemma mk_term_get t c : is_ref t = true -> class_of T t = Some c ->
    mk_term (shape_kind t) c (get_field t) = Some t.
  Proof.
    destruct t as [| l [|] | | | | | | |]; cbn; intros Hr Hc; try discriminate; try reflexivity;
      try (now rewrite pystr_eqb_refl); now injection Hc as ->.
  Qed.

  Lemma node_kind_shape' t : is_ref t = true -> node_kind (shape_kind t) = true.
  Proof. destruct t as [| ? [|] | | | | | | |]; cbn; auto; discriminate. Qed.

  (* pickle's reconstruction of one node *)
  Theorem renode_id t : is_ref t = true -> cls_ok T t = true -> renode T t = Some t.
  Proof.
    intros Hr Hc. destruct (cls_ok_spec T t Hc) as (c & Hcl & Hk).
    destruct (kind_of_info T c _ Hk) as (ci & _ & Hin & Hid & Hkind).
    pose proof (so_class ci Hin) as Hok. unfold class_sig_ok in Hok.
    rewrite Hkind, (node_kind_shape' t Hr), Hid in Hok. cbn in Hok.
    destruct (reduce_of T c) as [fs|] eqn:Er; [|discriminate].
    destruct (cinit_of T c) as [ps|] eqn:Ec; [|discriminate].
    destruct (cinit_assign_of T c) as [asg|] eqn:Ea; [|discriminate].
    apply andb_prop in Hok as [Hok Hpos]. apply andb_prop in Hok as [Hlen Hall].
    unfold renode, reduce. rewrite Hcl. cbn [obind]. rewrite Er. cbn [obind].
    unfold rebuild. rewrite Hk. cbn [obind]. rewrite Ec. cbn [obind]. rewrite Ea. cbn [obind].
    rewrite map_length, Hlen.
    rewrite <- (mk_term_get t c Hr Hcl). apply mk_term_ext. intros f Hf.
    rewrite forallb_forall in Hall. specialize (Hall f Hf). apply existsb_exists in Hall as (g & Hg & Heq).
    apply field_beq_eq in Heq. subst g.
    destruct (positions_spec asg fs 0 f Hpos Hg) as (j & -> & Hn). cbn.
    apply nth_error_nth. now apply map_nth_error.
  Qed.

  (* the whole expression, bottom-up *)
  Theorem roundtrip_id : forall t, wf T t = true -> roundtrip T t = Some t.
  Proof.
    induction t using term_ind'; intros Hw; cbn [roundtrip]; try reflexivity.
    - apply renode_id; auto.
    - pose proof (wf_cls_ok T _ Hw eq_refl) as Hc. cbn [wf] in Hw.
      do 3 (apply andb_prop in Hw as [Hw ?]). rewrite IHt1, IHt2 by auto. cbn. now apply renode_id.
    - pose proof (wf_cls_ok T _ Hw eq_refl) as Hc. cbn [wf] in Hw.
      do 3 (apply andb_prop in Hw as [Hw ?]). rewrite IHt1, IHt2 by auto. cbn. now apply renode_id.
    - pose proof (wf_cls_ok T _ Hw eq_refl) as Hc. cbn [wf] in Hw.
      do 2 (apply andb_prop in Hw as [Hw ?]). rewrite IHt1, IHt2 by auto. cbn. now apply renode_id.
    - pose proof (wf_cls_ok T _ Hw eq_refl) as Hc. cbn [wf] in Hw.
      do 2 (apply andb_prop in Hw as [Hw ?]). rewrite IHt by auto. cbn. now apply renode_id.
    - apply renode_id; auto.
    - pose proof (wf_cls_ok T _ Hw eq_refl) as Hc. cbn [wf] in Hw.
      do 3 (apply andb_prop in Hw as [Hw ?]). rewrite IHt by auto. cbn [obind]. rewrite fix_omap.
      rewrite (omap_id_on (roundtrip T) ps).
      + cbn. now apply renode_id.
      + match goal with Hps : forallb (wf T) ps = true |- _ => rewrite forallb_forall in Hps end.
        rewrite Forall_forall in *. auto.
    - pose proof (wf_cls_ok T _ Hw eq_refl) as Hc. cbn [wf] in Hw.
      do 3 (apply andb_prop in Hw as [Hw ?]). rewrite IHt by auto. cbn [obind]. rewrite fix_omap.
      rewrite (omap_id_on (roundtrip T) args).
      + cbn [obind]. rewrite fix_omap_kw. rewrite (omap_id_on (kwlift (roundtrip T)) kw).
        * cbn. now apply renode_id.
        * match goal with Hkw : forallb _ kw = true |- _ => rewrite forallb_forall in Hkw end.
          rewrite Forall_forall in *. intros [n x] Hin. unfold kwlift. cbn.
          match goal with H1 : forall x : pystr * term, In x kw -> wf T (snd x) = true -> _,
                          H2 : forall x : pystr * term, In x kw -> wf T (snd x) = true |- _ =>
            pose proof (H1 (n, x) Hin (H2 (n, x) Hin)) as Hrt end.
          cbn in Hrt. now rewrite Hrt.
      + match goal with Ha : forallb (wf T) args = true |- _ => rewrite forallb_forall in Ha end.
        rewrite Forall_forall in *. auto.
  Qed.

  (* the definitions of a manager: every (target, expression) pair comes back
     unchanged, in the same order *)
  Theorem roundtrip_tasks_id (m : tasklist) :
    Forall (fun p => wf T (fst p) = true /\ wf T (snd p) = true) m -> roundtrip_tasks T m = Some m.
  Proof.
    intros H. unfold roundtrip_tasks. apply omap_id_on. eapply Forall_impl; [|exact H].
    intros [a b] [Ha Hb]. cbn in *. rewrite (roundtrip_id a Ha), (roundtrip_id b Hb). reflexivity.
  Qed.
End PickleProof.
