(* C18: a fault in the middle of an update.  The k-th container write of the
   update raises (k = 0 is the write of the assigned location itself).
   - the exception reaches the caller;
   - definitions are those of the fault-free call and every index count agrees;
   - the tasks that ran are a prefix of the fault-free run and the data is what
     that prefix produces; nothing after the failing write ran;
   - only the assigned location and targets of triggered tasks may have changed,
     hence a fault-free repeat re-establishes every definition (via C01). *)
From Coq Require Import List Bool Arith ZArith NArith Lia Permutation.
From XD Require Import lib.ListAux lib.Toposort model.Manager model.ManagerData
  proofs.ManagerIdx proofs.ManagerInv proofs.ManagerHist proofs.ManagerTrace proofs.ManagerDataInv
  proofs.Store proofs.ManagerC01.
Import ListNotations.
Local Open Scope nat_scope.

Definition with_fault (s : dstate) (f : option nat) : dstate := mkD (d_st s) (d_prev s) f.

Definition is_expr_task (t : ttask) : Prop := exists e, t_act t = AExpr e.

(* ---- definitions do not depend on the data ------------------------------------------------ *)
Lemma find_tasks_tasks (m : dmgr) sd so tl m' : find_tasks path_eqb m sd so = Ok (tl, m') -> m_tasks m' = m_tasks m.
Proof.
  unfold find_tasks, find_taskids. destruct (start_set path_eqb sd (m_deptasks m)) as [set dt].
  destruct (same_set path_eqb so set); [|discriminate]. cbn [m_tasks].
  destruct (lookup_tasks path_eqb (m_tasks m) _); [|discriminate]. intros H; inversion H; reflexivity.
Qed.

Definition graph_tasks (m : dmgr) (r : path) (v : vsrc) : list (path * ttask) :=
  match (if is_task r m then unregister path_eqb r m else Ok m) with
  | Err _ => m_tasks m
  | Ok m1 =>
      match v with
      | SPlain _ => m_tasks m1
      | SExpr e dord tord =>
          match register path_eqb (mk_expr_task r e dord tord) m1 with
          | Err _ => m_tasks m1
          | Ok m2 => m_tasks m2
          end
      end
  end.

Lemma set_value_tasks (m : dmgr) s r v sd so :
  m_tasks (fst (fst (set_value m s r v sd so))) = graph_tasks m r v.
Proof.
  unfold set_value, graph_tasks.
  destruct (if is_task r m then unregister path_eqb r m else Ok m) as [m1|e]; [|reflexivity].
  destruct v as [x|e dord tord].
  - destruct (dwrite s r x) as [s1|e]; [|reflexivity].
    destruct (find_tasks path_eqb m1 sd so) as [[ts m3]|e] eqn:Ef; [|reflexivity].
    destruct (run_tasks ts s1) as [[s2 tr] er]. cbn. eapply find_tasks_tasks; eauto.
  - destruct (register path_eqb (mk_expr_task r e dord tord) m1) as [m2|er]; [|reflexivity].
    destruct (eval (d_st s) e) as [x|]; [|reflexivity].
    destruct (dwrite s r x) as [s1|er]; [|reflexivity].
    destruct (find_tasks path_eqb m2 sd so) as [[ts m3]|er] eqn:Ef; [|reflexivity].
    destruct (run_tasks ts s1) as [[s2 tr] er]. cbn. eapply find_tasks_tasks; eauto.
Qed.

Theorem set_value_tasks_indep (m : dmgr) s1 s2 r v sd so :
  m_tasks (fst (fst (set_value m s1 r v sd so))) = m_tasks (fst (fst (set_value m s2 r v sd so))).
Proof. now rewrite !set_value_tasks. Qed.

(* with the invariant on both sides, every index count agrees as well *)
Theorem fault_defs_unchanged (m : dmgr) s1 s2 r v sd so :
  Inv path_eqb m -> vsrc_wf v ->
  let ma := fst (fst (set_value m s1 r v sd so)) in
  let mb := fst (fst (set_value m s2 r v sd so)) in
  m_tasks ma = m_tasks mb /\
  (forall d t, icount path_eqb (m_rdeps ma) d t = icount path_eqb (m_rdeps mb) d t) /\
  (forall d a, icount path_eqb (m_deptasks ma) d a = icount path_eqb (m_deptasks mb) d a) /\
  (forall t a, icount path_eqb (m_tartasks ma) t a = icount path_eqb (m_tartasks mb) t a) /\
  (forall a b, icount path_eqb (m_rtasks ma) a b = icount path_eqb (m_rtasks mb) a b).
Proof.
  intros HI Hv ma mb.
  pose proof (set_value_tasks_indep m s1 s2 r v sd so) as Ht. fold ma mb in Ht.
  split; [exact Ht|].
  apply (history_independent path_eqb path_eqb_spec ma mb).
  - apply set_value_Inv; auto.
  - apply set_value_Inv; auto.
  - rewrite Ht. apply Permutation_refl.
Qed.

(* ---- the tasks that ran are a prefix of the fault-free run -------------------------------------- *)
Lemma exec_expr_fault (t : ttask) s e k : t_act t = AExpr e -> d_fault s = None ->
  exec t (with_fault s (Some k)) =
  match eval (d_st s) e with
  | None => (with_fault s (Some k), Some EType)
  | Some v =>
      match k with
      | O => (with_fault s (Some O), Some EFault)
      | S k' => match nset (d_st s) (t_id t) v with
                | Some st' => (mkD st' (d_prev s) (Some k'), None)
                | None => (with_fault s (Some k), Some EKey)
                end
      end
  end.
Proof.
  intros Ha Hf. unfold exec. rewrite Ha. cbn [do_writes with_fault d_st].
  destruct (eval (d_st s) e) as [v|]; [|reflexivity].
  unfold dwrite, with_fault. cbn [d_fault d_st d_prev]. destruct k as [|k']; [reflexivity|].
  destruct (nset (d_st s) (t_id t) v); reflexivity.
Qed.

Lemma exec_expr_nofault (t : ttask) s e : t_act t = AExpr e -> d_fault s = None ->
  exec t s =
  match eval (d_st s) e with
  | None => (s, Some EType)
  | Some v => match nset (d_st s) (t_id t) v with
              | Some st' => (mkD st' (d_prev s) None, None)
              | None => (s, Some EKey)
              end
  end.
Proof.
  intros Ha Hf. unfold exec. rewrite Ha. cbn [do_writes].
  destruct (eval (d_st s) e) as [v|]; [|reflexivity].
  unfold dwrite. rewrite Hf. destruct (nset (d_st s) (t_id t) v); reflexivity.
Qed.

Theorem run_tasks_fault_prefix tl : Forall is_expr_task tl -> forall k s sf trf,
  d_fault s = None ->
  run_tasks tl (with_fault s (Some k)) = (sf, trf, Some EFault) ->
  exists tl1 t tl2 s0,
    tl = tl1 ++ t :: tl2 /\
    run_tasks tl1 s = (s0, map (@t_id path action) tl1, None) /\
    trf = map (@t_id path action) tl1 /\
    d_st sf = d_st s0 /\ d_prev sf = d_prev s0.
Proof.
  induction 1 as [|t tl [e Ha] Hall IH]; intros k s sf trf Hf Hrun.
  - cbn in Hrun. inversion Hrun.
  - cbn [run_tasks] in Hrun. rewrite (exec_expr_fault t s e k Ha Hf) in Hrun.
    destruct (eval (d_st s) e) as [v|] eqn:Ev; [|inversion Hrun].
    destruct k as [|k'].
    + inversion Hrun; subst. exists [], t, tl, s. cbn. repeat split; reflexivity.
    + destruct (nset (d_st s) (t_id t) v) as [st'|] eqn:Es; [|inversion Hrun].
      change (mkD st' (d_prev s) (Some k')) with (with_fault (mkD st' (d_prev s) None) (Some k')) in Hrun.
      destruct (run_tasks tl (with_fault (mkD st' (d_prev s) None) (Some k'))) as [[s2 tr2] er2] eqn:Er.
      inversion Hrun; subst s2 trf er2.
      destruct (IH k' (mkD st' (d_prev s) None) sf tr2 eq_refl Er) as (tl1 & t' & tl2 & s0 & -> & Hr & -> & Hd1 & Hd2).
      exists (t :: tl1), t', tl2, s0. split; [reflexivity|]. split; [|repeat split; auto].
      cbn [run_tasks]. rewrite (exec_expr_nofault t s e Ha Hf), Ev, Es, Hr. reflexivity.
Qed.

(* ---- only the assigned location and targets of triggered tasks can change ------------------------ *)
Lemma run_tasks_frame tl : Forall is_expr_task tl -> forall s s' tr er,
  run_tasks tl s = (s', tr, er) ->
  forall q, (forall t, In t tl -> overlap (t_id t) q = false) -> nget (d_st s') q = nget (d_st s) q.
Proof.
  induction 1 as [|t tl [e Ha] Hall IH]; intros s s' tr er Hrun q Hq.
  - cbn in Hrun. inversion Hrun; reflexivity.
  - cbn [run_tasks] in Hrun.
    assert (Hex : forall s1 er1, exec t s = (s1, er1) -> nget (d_st s1) q = nget (d_st s) q).
    { intros s1 er1. unfold exec. rewrite Ha. cbn [do_writes].
      destruct (eval (d_st s) e) as [v|]; [|intros H; inversion H; reflexivity].
      unfold dwrite. destruct (d_fault s) as [[|k]|].
      - intros H; inversion H; reflexivity.
      - destruct (nset (d_st s) (t_id t) v) as [st'|] eqn:Es; cbn [do_writes]; intros H; inversion H; [|reflexivity].
        cbn. eapply nget_nset_disjoint; eauto. apply Hq. now left.
      - destruct (nset (d_st s) (t_id t) v) as [st'|] eqn:Es; cbn [do_writes]; intros H; inversion H; [|reflexivity].
        cbn. eapply nget_nset_disjoint; eauto. apply Hq. now left. }
    destruct (exec t s) as [s1 [e1|]] eqn:Ex.
    + inversion Hrun; subst. eapply Hex; eauto.
    + destruct (run_tasks tl s1) as [[s2 tr2] er2] eqn:Er. inversion Hrun; subst.
      rewrite (IH _ _ _ _ Er q) by (intros t' Ht'; apply Hq; now right). eapply Hex; eauto.
Qed.

Lemma lookup_tasks_Forall (ts : ttasks) (P : ttask -> Prop) :
  (forall a T, aget path_eqb a ts = Some T -> P T) ->
  forall L tl, lookup_tasks path_eqb ts L = Ok tl -> Forall P tl.
Proof.
  intros HP. induction L as [|i L IH]; intros tl; cbn [lookup_tasks].
  - intros H; inversion H; constructor.
  - destruct (aget path_eqb i ts) eqn:E; [|discriminate].
    destruct (lookup_tasks path_eqb ts L) eqn:E2; [|discriminate].
    intros H; inversion H; subst. constructor; eauto.
Qed.

Theorem set_value_frame (m : dmgr) s r v sd so m' s' out :
  Inv path_eqb m -> vsrc_wf v -> set_value m s r v sd so = (m', s', out) -> sem_wf (m_tasks m') ->
  forall q, overlap r q = false ->
            (forall b, Triggered path_eqb (m_tasks m') sd b -> overlap b q = false) ->
            nget (d_st s') q = nget (d_st s) q.
Proof.
  intros HI Hv E Hsem q Hq1 Hq2. unfold set_value in E.
  destruct (if is_task r m then unregister path_eqb r m else Ok m) as [m1|e] eqn:E1;
    [|inversion E; reflexivity].
  assert (HI1 : Inv path_eqb m1 /\ aget path_eqb r (m_tasks m1) = None).
  { unfold is_task in E1. destruct (aget path_eqb r (m_tasks m)) eqn:Eg.
    - destruct (unregister_cases m r HI) as [(e & He)|(mx & He & HIx & _ & _ & Ht)]; [congruence|].
      rewrite He in E1. inversion E1; subst. split; auto. rewrite Ht. apply (aget_adrop_same path_eqb).
    - inversion E1; subst. auto. }
  destruct HI1 as [HI1 Hn1].
  assert (Hcore : forall m2 x, Inv path_eqb m2 ->
     (match dwrite s r x with
      | Err e => (m2, s, mkOut (Some e) [])
      | Ok s1 => match find_tasks path_eqb m2 sd so with
                 | Err e => (m2, s1, mkOut (Some e) [])
                 | Ok (ts, m3) => let '(s2, tr, er) := run_tasks ts s1 in (m3, s2, mkOut er tr)
                 end
      end) = (m', s', out) -> nget (d_st s') q = nget (d_st s) q).
  { intros m2 x HI2 Ec.
    assert (Hw : forall s1, dwrite s r x = Ok s1 -> nget (d_st s1) q = nget (d_st s) q).
    { intros s1. unfold dwrite. destruct (d_fault s) as [[|k]|]; [discriminate| |];
        (destruct (nset (d_st s) r x) as [st'|] eqn:Es; [|discriminate]); intros H; inversion H; cbn;
        eapply nget_nset_disjoint; eauto. }
    destruct (dwrite s r x) as [s1|e] eqn:Ew; [|inversion Ec; reflexivity].
    destruct (find_tasks path_eqb m2 sd so) as [[tl m3]|e] eqn:Ef; [|inversion Ec; subst; now apply Hw].
    destruct (find_tasks_inv _ _ _ _ _ Ef) as (L & EL & Elk).
    destruct (find_taskids_spec path_eqb path_eqb_spec m2 sd so L m3 HI2 EL) as (_ & HT & _ & HI3 & Ht3 & _).
    destruct (run_tasks tl s1) as [[s2 tr] er] eqn:Er. inversion Ec; subst m3 s2 out.
    assert (Hall : Forall is_expr_task tl).
    { eapply lookup_tasks_Forall; [|exact Elk]. intros a T Ha. destruct (Hsem a T Ha) as (e & He & _). exists e; auto. }
    rewrite (run_tasks_frame tl Hall _ _ _ _ Er q); [now apply Hw|].
    intros t Ht. apply Hq2. rewrite Ht3. apply HT.
    pose proof HI3 as (_ & (_ & Hok) & _).
    assert (Hids : map (@t_id path action) tl = L).
    { eapply lookup_tasks_ids; [|exact Elk]. intros k T Hk. now destruct (Hok _ _ Hk). }
    rewrite <- Hids. now apply in_map. }
  destruct v as [x|e dord tord].
  - eapply Hcore; eauto.
  - destruct Hv as [Hd Ht].
    destruct (register_cases m1 (mk_expr_task r e dord tord) HI1 Hn1 Hd Ht) as [[_ Hr]|(m2 & Hr & HI2 & _)];
      rewrite Hr in E; [inversion E; reflexivity|].
    destruct (eval (d_st s) e) as [x|]; [|inversion E; reflexivity].
    eapply Hcore; eauto.
Qed.

(* ---- recovery: a fault-free repeat re-establishes every definition ----------------------------------- *)
Lemma graph_tasks_other (m : dmgr) r v a : Inv path_eqb m -> vsrc_wf v -> a <> r ->
  aget path_eqb a (graph_tasks m r v) = aget path_eqb a (m_tasks m).
Proof.
  intros HI Hv Har. unfold graph_tasks.
  destruct (if is_task r m then unregister path_eqb r m else Ok m) as [m1|e] eqn:E1; [|reflexivity].
  assert (H1 : Inv path_eqb m1 /\ aget path_eqb r (m_tasks m1) = None /\
               aget path_eqb a (m_tasks m1) = aget path_eqb a (m_tasks m)).
  { unfold is_task in E1. destruct (aget path_eqb r (m_tasks m)) eqn:Eg.
    - destruct (unregister_cases m r HI) as [(e & He)|(mx & He & HIx & _ & _ & Ht)]; [congruence|].
      rewrite He in E1. inversion E1; subst. split; [auto|]. rewrite Ht. split.
      + apply (aget_adrop_same path_eqb).
      + apply (aget_adrop_other path_eqb path_eqb_spec). congruence.
    - inversion E1; subst. auto. }
  destruct H1 as (HI1 & Hn1 & Ha1).
  destruct v as [x|e dord tord]; [exact Ha1|]. destruct Hv as [Hd Ht].
  destruct (register_cases m1 (mk_expr_task r e dord tord) HI1 Hn1 Hd Ht) as [[_ ->]|(m2 & -> & _ & _ & Ht2)]; [exact Ha1|].
  rewrite Ht2, aget_app, Ha1. destruct (aget path_eqb a (m_tasks m)); auto.
  cbn. destruct (path_eqb a r) eqn:Ea; [apply path_eqb_spec in Ea; contradiction|reflexivity].
Qed.

Lemma edge_ext (ts1 ts2 : ttasks) : (forall k, aget path_eqb k ts1 = aget path_eqb k ts2) ->
  forall a b, pedge ts1 a b -> pedge ts2 a b.
Proof. intros H a b (Ta & Tb & E1 & E2 & Hx). exists Ta, Tb. rewrite <- !H. auto. Qed.

Lemma clos_ext {X} (R1 R2 : X -> X -> Prop) : (forall a b, R1 a b -> R2 a b) -> forall a b, clos R1 a b -> clos R2 a b.
Proof. intros H a b. induction 1; [constructor|econstructor; eauto]. Qed.

Lemma Triggered_ext (ts1 ts2 : ttasks) sd : (forall k, aget path_eqb k ts1 = aget path_eqb k ts2) ->
  forall w, Triggered path_eqb ts1 sd w -> Triggered path_eqb ts2 sd w.
Proof.
  intros H w (r0 & (Ta & Ea & Hd) & Hc). exists r0. split.
  - exists Ta. rewrite <- H. auto.
  - eapply clos_ext; [|exact Hc]. apply edge_ext; auto.
Qed.

Lemma Triggered_registered (ts : ttasks) sd w : Triggered path_eqb ts sd w -> exists T, aget path_eqb w ts = Some T.
Proof.
  intros (r0 & (Ta & Ea & _) & Hc). revert Ta Ea. induction Hc as [x|x y z Hxy _ IH]; intros Ta Ea; [eauto|].
  destruct Hxy as (Tx & Ty & _ & Ey & _). eapply IH; eauto.
Qed.

Theorem fault_recover (m : dmgr) s sfault r v sd so mf sf outf sok so2 m' s' out :
  Inv path_eqb m -> vsrc_wf v -> Consistent (m_tasks m) (d_st s) ->
  (* the faulty call: same data, any fault counter, any outcome *)
  d_st sfault = d_st s -> set_value m sfault r v sd so = (mf, sf, outf) ->
  (* the repeat once the fault is gone: same data as left by the faulty call *)
  d_st sok = d_st sf -> d_fault sok = None ->
  set_value mf sok r v sd so2 = (m', s', out) -> o_err out = None ->
  (forall k, aget path_eqb k (m_tasks m') = aget path_eqb k (m_tasks mf)) ->
  2 <= length r -> (forall x, In x (deps_of r) -> In x sd) ->
  sem_wf (m_tasks mf) -> writes_disjoint (m_tasks mf) -> no_self_read (m_tasks mf) ->
  (forall a T, aget path_eqb a (m_tasks mf) = Some T -> a <> r -> overlap r a = false) ->
  (forall u w, In u (o_trace out) -> In w (o_trace out) -> u <> w -> pedge (m_tasks m') u w ->
               ~ clos (pedge (m_tasks m')) w u) ->
  Consistent (m_tasks m') (d_st s').
Proof.
  intros HI Hv HC Hds Ef Hdok Hfok Eok Herr Hsame Hlr Hsd Hsem Hwd Hnsr Hro Hacy.
  assert (HIf : Inv path_eqb mf).
  { pose proof (set_value_Inv m sfault r v sd so HI Hv) as H. now rewrite Ef in H. }
  assert (Hsem' : sem_wf (m_tasks m')) by (intros a T Ha; rewrite Hsame in Ha; now apply Hsem).
  assert (Hwd' : writes_disjoint (m_tasks m')).
  { intros a b Ta Tb Ha Hb. rewrite Hsame in Ha, Hb. now apply (Hwd a b Ta Tb). }
  assert (Hnsr' : no_self_read (m_tasks m')).
  { intros a T e Ha. rewrite Hsame in Ha. now apply (Hnsr a T e). }
  assert (Hro' : forall a T, aget path_eqb a (m_tasks m') = Some T -> a <> r -> overlap r a = false).
  { intros a T Ha. rewrite Hsame in Ha. now apply (Hro a T). }
  destruct (set_value_trace mf sok r v sd so2 m' s' out HIf Hv Eok) as (_ & Htr & _).
  destruct (Htr Herr) as (_ & HT & _).
  apply (set_value_consistent mf sok r v sd so2 m' s' out HIf Hv Eok Herr Hfok Hlr Hsd Hsem' Hwd' Hnsr' Hro' Hacy).
  intros a Har HaL T e Ha Hact. rewrite Hdok.
  (* a is not triggered *)
  assert (Hnt : ~ Triggered path_eqb (m_tasks mf) sd a).
  { intros H. apply HaL. apply HT. eapply Triggered_ext; [|exact H]. intros k. symmetry. apply Hsame. }
  assert (Hmf : m_tasks mf = graph_tasks m r v).
  { pose proof (set_value_tasks m sfault r v sd so) as H. now rewrite Ef in H. }
  assert (Ham : aget path_eqb a (m_tasks m) = Some T).
  { rewrite <- (graph_tasks_other m r v a HI Hv Har), <- Hmf. exact Ha. }
  pose proof (set_value_frame m sfault r v sd so mf sf outf HI Hv Ef Hsem) as Hfr.
  assert (Hfa : nget (d_st sf) a = nget (d_st s) a).
  { rewrite <- Hds. apply Hfr; [eapply Hro; eauto|].
    intros b Hb. destruct (Triggered_registered _ _ _ Hb) as (Tb & Eb).
    apply (Hwd b a Tb T); auto. intros ->. contradiction. }
  assert (Hfe : eval (d_st sf) e = eval (d_st s) e).
  { apply eval_local. intros q Hq. rewrite <- Hds. apply Hfr.
    - destruct (overlap r q) eqn:Eo; [exfalso|reflexivity]. apply Hnt.
      exists a. split; [|constructor]. eapply overlap_start; eauto.
    - intros b Hb. destruct (overlap b q) eqn:Eo; [exfalso|reflexivity].
      destruct (Triggered_registered _ _ _ Hb) as (Tb & Eb). apply Hnt.
      destruct Hb as (r0 & Hs & Hc). exists r0. split; auto. eapply clos_snoc; eauto.
      eapply overlap_edge; eauto. }
  rewrite Hfa, Hfe. now apply (HC a T e).
Qed.
