(* sorting.toposort as written (iterative _dfs, gen/GenSorting.v checks the source text) computes the recursive
   toposort the model's find_taskids calls, on the manager's task graph and with the fuel find_taskids uses. *)
From Coq Require Import List Bool Arith Lia.
From XD Require Import lib.ListAux lib.Toposort lib.ToposortIter model.Manager gen.GenSorting.
Import ListNotations.

Section S.
Context {K : Type}.
Variable eqb : K -> K -> bool.
Hypothesis eqb_spec : forall a b, eqb a b = true <-> a = b.

(* every vertex that can occur: the start vertices, the keys of the graph and their successors *)
Definition rt_univ (rt : @index K) (order : list K) : list K :=
  order ++ flat_map (fun p => fst p :: rc_keys (snd p)) rt.

Lemma aget_In {V} k (l : list (K * V)) v : aget eqb k l = Some v -> exists k', In (k', v) l.
Proof.
  induction l as [|[k' v'] t IH]; cbn; [discriminate|].
  destruct (eqb k k'); [intros H; inversion H; subst; eauto|].
  intros H. destruct (IH H) as (k2 & H2). eauto.
Qed.

Lemma rt_univ_closed rt order u v : In u (rt_univ rt order) -> In v (succs eqb rt u) -> In v (rt_univ rt order).
Proof.
  intros _ Hv. unfold succs, ipeek in Hv. destruct (aget eqb u rt) as [rc|] eqn:E; [|destruct Hv].
  destruct (aget_In u rt rc E) as (k' & Hin).
  unfold rt_univ. apply in_app_iff. right. apply in_flat_map. exists (k', rc). split; [exact Hin|]. now right.
Qed.

Lemma graph_size_fold (rt : @index K) : forall n,
  fold_left (fun n p => n + 1 + length (snd p)) rt n = n + length (flat_map (fun p => fst p :: rc_keys (snd p)) rt).
Proof.
  induction rt as [|p rt IH]; intros n; cbn [fold_left flat_map]; [cbn [length]; lia|].
  rewrite IH. cbn [app length]. rewrite app_length. unfold rc_keys. rewrite map_length. unfold refcount in *. lia.
Qed.

Lemma rt_univ_length rt order : length (rt_univ rt order) = graph_size rt + length order.
Proof. unfold rt_univ, graph_size. rewrite app_length, graph_size_fold. lia. Qed.

(* the toposort call of find_taskids *)
Theorem src_toposort_eq (rt : @index K) (order : list K) :
  exists n, forall passes, n <= passes ->
    src_toposort eqb (succs eqb rt) passes order =
    toposort eqb (succs eqb rt) (S (graph_size rt + length order)) order.
Proof.
  unfold src_toposort.
  apply (itoposort_eq eqb eqb_spec (succs eqb rt) (rt_univ rt order) (rt_univ_closed rt order)).
  - intros x Hx. unfold rt_univ. apply in_app_iff. now left.
  - rewrite rt_univ_length. lia.
Qed.

End S.
