(* Histories in which every call comes with the configuration current at that
   call (the user may re-assign tol / value / weight / limits / max_step ... of the
   public Target and Vary objects between calls). *)
From Coq Require Import List Bool Arith NArith ZArith.
From XD Require Import model.Opt proofs.OptBase proofs.OptInner proofs.OptOuter proofs.OptThm.
Import ListNotations.

Section Hist.
  Variable E : env.
  Notation F := (eF E).

  (* the state after a history (an operation that raises leaves its error state) *)
  Fixpoint run_hist (fuel : nat) (h : list (cfg F * op)) (s : state F) : state F :=
    match h with
    | [] => s
    | (c, o) :: h' =>
        match run_op E c fuel o s with
        | Ok s' => run_hist fuel h' s'
        | Err _ s' => run_hist fuel h' s'
        | Div => s
        end
    end.

  (* the state carries no configuration: what a call does is a function of the
     configuration given to THIS call, the operation and the state reached *)
  Lemma outcome_local fuel h1 h2 s1 s2 c o :
    run_hist fuel h1 s1 = run_hist fuel h2 s2 ->
    run_op E c fuel o (run_hist fuel h1 s1) = run_op E c fuel o (run_hist fuel h2 s2).
  Proof. intros ->. reflexivity. Qed.

  (* whatever configurations the earlier calls ran with, solve() returning normally
     means: within the tolerances of the configuration current at this call *)
  Lemma success_after_history fuel h s0 c n tb b s' :
    solve E c fuel n tb b (run_hist fuel h s0) = Ok s' -> c_assert c = true ->
    exists r, e_f E (knobs s') = Some r /\ within_tol E c (ta s') r.
  Proof. apply solve_success. Qed.
End Hist.
