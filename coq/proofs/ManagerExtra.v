(* Further coverage of the manager: find_deps (the query behind
   ref._find_dependant_targets), and what function / linear-knob tasks prescribe. *)
From Coq Require Import List Bool Arith ZArith NArith Lia Permutation.
From XD Require Import lib.ListAux lib.Toposort model.Manager model.ManagerData
  proofs.ManagerIdx proofs.ManagerInv proofs.ManagerHist proofs.ManagerTrace proofs.ManagerDataInv
  proofs.Store proofs.ManagerC01 proofs.ManagerFault.
Import ListNotations.
Local Open Scope nat_scope.

(* ---- find_deps: toposort(self.rdeps, start) -------------------------------------------------- *)
Section FindDeps.
Context {K A : Type}.
Variable eqb : K -> K -> bool.
Hypothesis eqb_spec : forall a b, eqb a b = true <-> a = b.

Definition find_deps (m : @mgr K A) (start : list K) : list K :=
  toposort eqb (succs eqb (m_rdeps m)) (S (graph_size (m_rdeps m) + length start)) start.

(* d -> t : some registered task has d among its dependencies and t among its targets *)
Definition influences (ts : list (K * @task K A)) (d t : K) : Prop :=
  exists k T, aget eqb k ts = Some T /\ In d (t_deps T) /\ In t (t_targets T).

Lemma c_rdeps_pos ts d t : tasks_wf eqb ts -> (1 <= c_rdeps eqb ts d t <-> influences ts d t).
Proof.
  intros [Hn Ho]. unfold c_rdeps, influences.
  assert (G : forall l, (forall k T, In (k, T) l -> In (k, T) ts) -> NoDup (map fst l) ->
     (1 <= fold_right (fun p acc => b2n (mem eqb d (t_deps (snd p))) * b2n (mem eqb t (t_targets (snd p))) + acc) 0 l <->
      exists k T, In (k, T) l /\ In d (t_deps T) /\ In t (t_targets T))).
  { induction l as [|[k T] l IH]; intros Hsub Hnd; cbn [fold_right].
    - split; [lia|intros (k & T & [] & _)].
    - inversion Hnd; subst. cbn [snd].
      destruct (mem eqb d (t_deps T)) eqn:E1; destruct (mem eqb t (t_targets T)) eqn:E2; cbn [b2n].
      + split; [intros _|lia]. exists k, T. split; [now left|]. split; now apply (mem_In eqb eqb_spec).
      + rewrite Nat.mul_0_r, Nat.add_0_l, IH by (auto; intros; apply Hsub; now right). split.
        * intros (k' & T' & Hin & H); exists k', T'; split; [now right|exact H].
        * intros (k' & T' & [Heq|Hin] & Hd & Ht); [inversion Heq; subst; apply (mem_In eqb eqb_spec) in Ht; congruence|eauto].
      + rewrite Nat.mul_0_l, Nat.add_0_l, IH by (auto; intros; apply Hsub; now right). split.
        * intros (k' & T' & Hin & H); exists k', T'; split; [now right|exact H].
        * intros (k' & T' & [Heq|Hin] & Hd & Ht); [inversion Heq; subst; apply (mem_In eqb eqb_spec) in Hd; congruence|eauto].
      + rewrite Nat.mul_0_l, Nat.add_0_l, IH by (auto; intros; apply Hsub; now right). split.
        * intros (k' & T' & Hin & H); exists k', T'; split; [now right|exact H].
        * intros (k' & T' & [Heq|Hin] & Hd & Ht); [inversion Heq; subst; apply (mem_In eqb eqb_spec) in Hd; congruence|eauto]. }
  rewrite (G ts (fun k T H => H) Hn). split.
  - intros (k & T & Hin & H). exists k, T. split; [|exact H].
    clear - Hin Hn eqb_spec. induction ts as [|[k' T'] l IH]; [destruct Hin|]. cbn in *. inversion Hn; subst.
    destruct Hin as [Heq|Hin].
    + inversion Heq; subst. now rewrite (eqb_refl eqb eqb_spec).
    + destruct (eqb k k') eqn:E; [|auto]. apply eqb_spec in E; subst. exfalso. apply H1. apply in_map_iff. exists (k', T); auto.
  - intros (k & T & Hk & H). exists k, T. split; [|exact H].
    clear - Hk eqb_spec. induction ts as [|[k' T'] l IH]; cbn in *; [discriminate|].
    destruct (eqb k k') eqn:E; [apply eqb_spec in E; subst; inversion Hk; now left|right; auto].
Qed.

Theorem find_deps_spec (m : @mgr K A) start :
  Inv eqb m ->
  let L := find_deps m start in
  NoDup L /\
  (forall w, In w L <-> exists r, In r start /\ clos (influences (m_tasks m)) r w) /\
  (forall u v, In u L -> influences (m_tasks m) u v -> before u v L \/ clos (influences (m_tasks m)) v u).
Proof.
  intros HI L. pose proof HI as ((W1 & _) & TW & IR & _).
  set (g := succs eqb (m_rdeps m)).
  assert (Hedge : forall u v, In v (g u) <-> influences (m_tasks m) u v).
  { intros u v. unfold g, succs. rewrite (keys_icount eqb eqb_spec _ _ _ W1), IR. now apply c_rdeps_pos. }
  assert (Hreach : forall u v, reach g u v <-> clos (influences (m_tasks m)) u v).
  { intros u v. split; induction 1 as [x|x y z Hxy _ IH]; try constructor; econstructor; [|exact IH| |exact IH]; now apply Hedge. }
  set (univ := start ++ all_keys (m_rdeps m)).
  assert (Hclosed : forall u v, In u univ -> In v (g u) -> In v univ).
  { intros u v _ Hv. unfold univ. apply in_app_iff. right. eapply succs_in_all_keys; eauto. }
  assert (Hstart : incl start univ) by (intros x Hx; unfold univ; apply in_app_iff; now left).
  assert (Hfuel : length univ < S (graph_size (m_rdeps m) + length start)).
  { unfold univ, graph_size. rewrite app_length, graph_size_spec. lia. }
  destruct (toposort_correct eqb eqb_spec g univ Hclosed _ start Hstart Hfuel) as (HN & HR & HO).
  split; [exact HN|]. split.
  - intros w. fold g in HR. unfold L, find_deps. fold g. rewrite HR. split; intros (r & Hr & Hc); exists r; split; auto; now apply Hreach.
  - intros u v Hu He. apply Hedge in He. destruct (HO u v Hu He) as [H|H]; [now left|right; now apply Hreach].
Qed.
End FindDeps.

(* ---- what a LinearKnob prescribes --------------------------------------------------------------- *)
Lemma knob_writes_spec wts : forall s delta, d_fault s = None ->
  (forall w t, In (w, t) wts -> exists z, nget (d_st s) t = Some (Leaf z)) ->
  ForallOrdPairs (fun a b => overlap (snd a) (snd b) = false) wts ->
  exists s', knob_writes s delta wts = (s', None) /\ d_fault s' = None /\ d_prev s' = d_prev s /\
    (forall w t z, In (w, t) wts -> nget (d_st s) t = Some (Leaf z) -> nget (d_st s') t = Some (Leaf (z + w * delta)%Z)) /\
    (forall q, (forall w t, In (w, t) wts -> overlap t q = false) -> nget (d_st s') q = nget (d_st s) q).
Proof.
  induction wts as [|[w t] rest IH]; intros s delta Hf Hleaf Hpairs.
  - exists s. cbn. repeat split; auto. intros w t z [].
  - cbn [knob_writes]. destruct (Hleaf w t (or_introl eq_refl)) as (z & Hz). rewrite Hz.
    unfold dwrite. rewrite Hf.
    destruct (nset (d_st s) t (Leaf (z + w * delta)%Z)) as [st'|] eqn:Es.
    + inversion Hpairs as [|x l Hx Hrest]; subst.
      assert (Hfr : forall q, overlap t q = false -> nget st' q = nget (d_st s) q) by (intros q Hq; eapply nget_nset_disjoint; eauto).
      destruct (IH (mkD st' (d_prev s) None) delta eq_refl) as (s' & E' & Hf' & Hp' & Hv' & Hfr'); auto.
      * intros w' t' Hin. destruct (Hleaf w' t' (or_intror Hin)) as (z' & Hz'). exists z'. cbn. rewrite Hfr; auto.
        rewrite Forall_forall in Hx. apply (Hx (w', t') Hin).
      * exists s'. split; [exact E'|]. split; [exact Hf'|]. split; [exact Hp'|]. split.
        -- intros w' t' z' [Heq|Hin] Hz'.
           ++ inversion Heq; subst w' t'. rewrite Hz in Hz'. inversion Hz'; subst z'.
              rewrite Hfr'; [cbn; eapply nget_nset_same; eauto|].
              intros w2 t2 Hin2. rewrite Forall_forall in Hx. rewrite overlap_sym. apply (Hx (w2, t2) Hin2).
           ++ apply Hv'; auto. cbn. rewrite Hfr; auto. rewrite Forall_forall in Hx. apply (Hx (w', t') Hin).
        -- intros q Hq. rewrite Hfr' by (intros w2 t2 Hin2; apply (Hq w2 t2); now right). cbn. apply Hfr. apply (Hq w t). now left.
    + (* the target exists (it holds a leaf), so the write cannot fail *)
      exfalso. clear - Hz Es. revert Hz Es. generalize (d_st s) as st. generalize (Leaf (z + w * delta)%Z) as v.
      induction t as [|k r IHt]; intros v st Hz Es; cbn in *; [discriminate|].
      destruct st as [z0| |kids]; try discriminate. destruct r as [|k2 r2]; [discriminate|].
      destruct (aget N.eqb k kids) as [c|]; [|discriminate].
      destruct (nset c (k2 :: r2) v) eqn:E2; [discriminate|]. eapply IHt; eauto.
Qed.

(* a linear knob that runs to completion: every target is incremented by weight * (new source value -
   value seen at the previous run), prev_value becomes the new source value, nothing else changes *)
Theorem knob_exec_spec (t : ttask) s src wts v p :
  t_act t = AKnob src wts -> d_fault s = None ->
  nget (d_st s) src = Some (Leaf v) -> aget path_eqb (t_id t) (d_prev s) = Some p ->
  (forall w tg, In (w, tg) wts -> exists z, nget (d_st s) tg = Some (Leaf z)) ->
  ForallOrdPairs (fun a b => overlap (snd a) (snd b) = false) wts ->
  exists s', exec t s = (s', None) /\
    (forall w tg z, In (w, tg) wts -> nget (d_st s) tg = Some (Leaf z) ->
                    nget (d_st s') tg = Some (Leaf (z + w * (v - p))%Z)) /\
    aget path_eqb (t_id t) (d_prev s') = Some v /\
    (forall q, (forall w tg, In (w, tg) wts -> overlap tg q = false) -> nget (d_st s') q = nget (d_st s) q).
Proof.
  intros Ha Hf Hsrc Hprev Hleaf Hpairs. unfold exec. rewrite Ha, Hsrc, Hprev.
  destruct (knob_writes_spec wts s (v - p)%Z Hf Hleaf Hpairs) as (s' & E' & Hf' & Hp' & Hv' & Hfr').
  rewrite E'. eexists; split; [reflexivity|]. cbn [d_st d_prev]. split; [exact Hv'|]. split; [|exact Hfr'].
  apply (aget_aset_same path_eqb path_eqb_spec).
Qed.
