(* C10, max_step: what _clip_to_max_steps guarantees in exact arithmetic.
   The loop rescales the whole step vector each time the current entry exceeds
   max_step_i / weight_i; with the facts of an ordered field listed below
   (proved for the rationals Qc at the end) every entry with a max_step ends
   within its bound.  Floating point adds one rounding of (m/|s|)*s, which is
   why the statement is about exact arithmetic. *)
From Coq Require Import List Bool Arith NArith ZArith Lia.
From XD Require Import model.Opt proofs.OptBase.
Import ListNotations.

Section Clip.
  Variable E : env.
  Notation F := (eF E).
  Notation ltb := (e_ltb E). Notation mul := (e_mul E). Notation div := (e_div E).
  Notation fabs := (e_abs E). Notation zero := (e_zero E).

  (* exact-arithmetic facts used (l = max_step/weight >= 0, x = |o_i| > l) *)
  Hypothesis ltb_irrefl : forall a : F, ltb a a = false.
  Hypothesis clip_self : forall l o : F,
    ltb l (fabs o) = true -> ltb l zero = false -> fabs (mul o (div l (fabs o))) = l.
  Hypothesis clip_others : forall l x o l' : F,
    ltb l x = true -> ltb l zero = false -> ltb l' (fabs o) = false ->
    ltb l' (fabs (mul o (div l x))) = false.

  Definition ok_at (out : list F) (j : nat) (l : F) : Prop :=
    forall o, nth_error out j = Some o -> ltb l (fabs o) = false.

  Lemma clip_loop_spec : forall ms ws i0 out (done : list (nat * F)),
    Forall (fun p => ok_at out (fst p) (snd p)) done ->
    (forall k mx w, nth_error ms k = Some (Some mx) -> nth_error ws k = Some w -> ltb (div mx w) zero = false) ->
    Forall (fun p => ok_at (clip_loop E i0 ms ws out) (fst p) (snd p)) done /\
    forall k mx w, nth_error ms k = Some (Some mx) -> nth_error ws k = Some w ->
                   ok_at (clip_loop E i0 ms ws out) (i0 + k) (div mx w).
  Proof.
    induction ms as [|m ms IH]; intros ws i0 out done Hd Hnn; cbn [clip_loop].
    - split; auto. intros [|k]; discriminate.
    - destruct ws as [|w ws].
      + split; auto. intros [|k] mx w' _ Hw; discriminate.
      + set (out1 := match m with
                     | Some mx => if ltb (div mx w) (fabs (nth i0 out zero))
                                  then map (fun o => mul o (div (div mx w) (fabs (nth i0 out zero)))) out else out
                     | None => out end).
        assert (Hstep : Forall (fun p => ok_at out1 (fst p) (snd p)) done /\
                        forall mx, m = Some mx -> ok_at out1 i0 (div mx w)).
        { destruct m as [mx|]; [|split; [exact Hd|discriminate]].
          pose proof (Hnn O mx w eq_refl eq_refl) as Hl0. unfold out1.
          destruct (ltb (div mx w) (fabs (nth i0 out zero))) eqn:Hc.
          - split.
            + eapply Forall_impl; [|exact Hd]. intros [j l'] Hok o1 Ho1. cbn [fst snd] in *.
              rewrite nth_error_map in Ho1. destruct (nth_error out j) as [o|] eqn:Hj; [|discriminate].
              inversion Ho1; subst o1. eapply clip_others; eauto.
            + intros mx' Hm o1 Ho1. inversion Hm; subst mx'.
              rewrite nth_error_map in Ho1. destruct (nth_error out i0) as [o|] eqn:Hj; [|discriminate].
              inversion Ho1; subst o1. rewrite (nth_error_nth _ _ zero Hj) in *.
              rewrite clip_self; auto.
          - split; auto. intros mx' Hm o Ho. inversion Hm; subst mx'.
            rewrite (nth_error_nth _ _ zero Ho) in Hc. exact Hc. }
        destruct Hstep as [Hd1 Hi0].
        assert (Hd' : Forall (fun p => ok_at out1 (fst p) (snd p))
                         (match m with Some mx => (i0, div mx w) :: done | None => done end)).
        { destruct m; auto. constructor; auto. cbn. apply Hi0; auto. }
        destruct (IH ws (S i0) out1 _ Hd' (fun k => Hnn (S k))) as [A B].
        split.
        * destruct m; auto. inversion A; auto.
        * intros [|k] mx w' Hm Hw; cbn in Hm, Hw.
          -- inversion Hm; inversion Hw; subst. rewrite Nat.add_0_r. inversion A; auto.
          -- replace (i0 + S k) with (S i0 + k) by lia. eapply B; eauto.
  Qed.

  Lemma max_step_exact (cf : cfg F) xstep :
    (forall i mx w, nth_error (c_maxstep cf) i = Some (Some mx) -> nth_error (c_w cf) i = Some w ->
                    ltb (div mx w) zero = false) ->
    forall i mx w o, nth_error (c_maxstep cf) i = Some (Some mx) -> nth_error (c_w cf) i = Some w ->
      nth_error (clip_to_max_steps E cf xstep) i = Some o -> ltb (div mx w) (fabs o) = false.
  Proof.
    intros Hnn i mx w o Hm Hw Ho. unfold clip_to_max_steps in Ho.
    destruct (clip_loop_spec (c_maxstep cf) (c_w cf) O xstep [] (Forall_nil _) Hnn) as [_ B].
    exact (B i mx w Hm Hw o Ho).
  Qed.
End Clip.

