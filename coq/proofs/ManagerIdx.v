(* Counting view of the manager's indices: [icount d k k2] is the
   multiplicity of k2 in d[k].  Every index operation of model/Manager.v is
   characterised by its effect on these counts. *)
From Coq Require Import List Bool Arith Lia.
From XD Require Import lib.ListAux lib.Toposort model.Manager.
Import ListNotations.

Section Idx.
Context {K : Type}.
Variable eqb : K -> K -> bool.
Hypothesis eqb_spec : forall a b, eqb a b = true <-> a = b.

Notation refcount := (@refcount K).
Notation index := (@index K).

Definition b2n (b : bool) : nat := if b then 1 else 0.

Definition cntp {X} (p : X -> bool) (l : list X) : nat := length (filter p l).

Lemma cntp_cons {X} (p : X -> bool) x l : cntp p (x :: l) = b2n (p x) + cntp p l.
Proof. unfold cntp; cbn. destruct (p x); reflexivity. Qed.

Lemma cntp_app {X} (p : X -> bool) l1 l2 : cntp p (l1 ++ l2) = cntp p l1 + cntp p l2.
Proof. unfold cntp. now rewrite filter_app, app_length. Qed.

Lemma cntp_ext {X} (p q : X -> bool) l : (forall x, In x l -> p x = q x) -> cntp p l = cntp q l.
Proof.
  induction l as [|x t IH]; intros H; [reflexivity|]. rewrite !cntp_cons, IH.
  - rewrite (H x); [reflexivity|now left].
  - intros y Hy; apply H; now right.
Qed.

Lemma eqb_sym a b : eqb a b = eqb b a.
Proof.
  destruct (eqb a b) eqn:E1, (eqb b a) eqn:E2; auto.
  - apply eqb_spec in E1; subst. now rewrite (eqb_refl eqb eqb_spec) in E2.
  - apply eqb_spec in E2; subst. now rewrite (eqb_refl eqb eqb_spec) in E1.
Qed.

Lemma memK_In x l : mem eqb x l = true <-> In x l.
Proof. apply (mem_In eqb eqb_spec). Qed.

(* for a duplicate-free list, counting the elements equal to y is membership *)
Lemma cntp_eq_NoDup y l : NoDup l -> cntp (fun x => eqb x y) l = b2n (mem eqb y l).
Proof.
  induction l as [|x t IH]; intros H; [reflexivity|]. inversion H; subst.
  rewrite cntp_cons, IH by assumption. unfold mem; cbn [existsb]. rewrite (eqb_sym y x).
  destruct (eqb x y) eqn:E; cbn; auto.
  apply eqb_spec in E; subst. fold (mem eqb y t).
  destruct (mem eqb y t) eqn:E2; auto. apply memK_In in E2. contradiction.
Qed.

(* ---- reference counts ---------------------------------------------------- *)
Definition rcount (rc : refcount) (k : K) : nat :=
  match aget eqb k rc with Some n => n | None => 0 end.

Definition rc_wf (rc : refcount) : Prop :=
  NoDup (map fst rc) /\ forall k n, aget eqb k rc = Some n -> 1 <= n.

Lemma rc_wf_nil : rc_wf [].
Proof. split; [constructor|intros k n H; discriminate]. Qed.

Lemma rcount_append x rc y : rcount (rc_append eqb x rc) y = rcount rc y + b2n (eqb x y).
Proof.
  unfold rcount, rc_append. destruct (eqb x y) eqn:E.
  - apply eqb_spec in E; subst y. rewrite (aget_aset_same eqb eqb_spec).
    destruct (aget eqb x rc); cbn; lia.
  - rewrite (aget_aset_other eqb eqb_spec).
    + cbn; lia.
    + intros ->. now rewrite (eqb_refl eqb eqb_spec) in E.
Qed.

Lemma rc_wf_append x rc : rc_wf rc -> rc_wf (rc_append eqb x rc).
Proof.
  intros [Hn Hp]. unfold rc_append. split.
  - now apply (NoDup_keys_aset eqb eqb_spec).
  - intros k n. destruct (eqb x k) eqn:E.
    + apply eqb_spec in E; subst k. rewrite (aget_aset_same eqb eqb_spec).
      intros H; inversion H; subst. destruct (aget eqb x rc); lia.
    + rewrite (aget_aset_other eqb eqb_spec); [apply Hp|].
      intros ->. now rewrite (eqb_refl eqb eqb_spec) in E.
Qed.

Lemma rcount_extend xs : forall rc y,
  rcount (rc_extend eqb xs rc) y = rcount rc y + cntp (fun x => eqb x y) xs.
Proof.
  unfold rc_extend. induction xs as [|x t IH]; intros rc y; cbn [fold_left].
  - unfold cntp; cbn; lia.
  - rewrite IH, rcount_append, cntp_cons. lia.
Qed.

Lemma rc_wf_extend xs : forall rc, rc_wf rc -> rc_wf (rc_extend eqb xs rc).
Proof.
  unfold rc_extend. induction xs as [|x t IH]; intros rc H; cbn [fold_left]; auto.
  apply IH. now apply rc_wf_append.
Qed.

Lemma rcount_remove_if x rc y : rc_wf rc ->
  rcount (rc_remove_if eqb x rc) y = rcount rc y - b2n (eqb x y).
Proof.
  intros [Hn Hp]. unfold rc_remove_if, rc_remove, rcount.
  destruct (aget eqb x rc) as [n|] eqn:Hx.
  - pose proof (Hp _ _ Hx) as Hn1. destruct (1 <? n) eqn:E1.
    + apply Nat.ltb_lt in E1. destruct (eqb x y) eqn:E.
      * apply eqb_spec in E; subst y. rewrite (aget_aset_same eqb eqb_spec), Hx. cbn; lia.
      * rewrite (aget_aset_other eqb eqb_spec); [cbn; lia|].
        intros ->. now rewrite (eqb_refl eqb eqb_spec) in E.
    + apply Nat.ltb_ge in E1. destruct (eqb x y) eqn:E.
      * apply eqb_spec in E; subst y. rewrite (aget_adrop_same eqb), Hx. cbn; lia.
      * rewrite (aget_adrop_other eqb eqb_spec); [cbn; lia|].
        intros ->. now rewrite (eqb_refl eqb eqb_spec) in E.
  - destruct (eqb x y) eqn:E; [|cbn; lia].
    apply eqb_spec in E; subst y. rewrite Hx. reflexivity.
Qed.

Lemma rc_wf_remove_if x rc : rc_wf rc -> rc_wf (rc_remove_if eqb x rc).
Proof.
  intros [Hn Hp]. unfold rc_remove_if, rc_remove.
  destruct (aget eqb x rc) as [n|] eqn:Hx; [|split; auto].
  destruct (1 <? n) eqn:E1.
  - apply Nat.ltb_lt in E1. split; [now apply (NoDup_keys_aset eqb eqb_spec)|].
    intros k m. destruct (eqb x k) eqn:E.
    + apply eqb_spec in E; subst k. rewrite (aget_aset_same eqb eqb_spec). intros H; inversion H; lia.
    + rewrite (aget_aset_other eqb eqb_spec); [apply Hp|].
      intros ->. now rewrite (eqb_refl eqb eqb_spec) in E.
  - split; [now apply (NoDup_keys_adrop eqb eqb_spec)|].
    intros k m. destruct (eqb x k) eqn:E.
    + apply eqb_spec in E; subst k. now rewrite (aget_adrop_same eqb).
    + rewrite (aget_adrop_other eqb eqb_spec); [apply Hp|].
      intros ->. now rewrite (eqb_refl eqb eqb_spec) in E.
Qed.

Lemma rc_mem_count x rc : rc_wf rc -> rc_mem eqb x rc = (1 <=? rcount rc x).
Proof.
  intros [_ Hp]. unfold rc_mem, rcount. destruct (aget eqb x rc) as [n|] eqn:E; [|reflexivity].
  apply Hp in E. symmetry. apply Nat.leb_le. exact E.
Qed.

Lemma rc_keys_count x rc : rc_wf rc -> (In x (rc_keys rc) <-> 1 <= rcount rc x).
Proof.
  intros [_ Hp]. unfold rc_keys, rcount. rewrite <- (aget_In_keys eqb eqb_spec).
  destruct (aget eqb x rc) as [n|] eqn:E.
  - apply Hp in E. split; [intros _; exact E|intros _; eauto].
  - split; [intros (v & H); discriminate|lia].
Qed.

Lemma rc_remove_some x rc : rc_wf rc -> 1 <= rcount rc x ->
  rc_remove eqb x rc = Some (rc_remove_if eqb x rc).
Proof.
  intros _ H. unfold rc_remove_if, rc_remove, rcount in *.
  destruct (aget eqb x rc); [destruct (1 <? n); reflexivity|lia].
Qed.

Lemma rc_remove_none x rc : rcount rc x = 0 -> rc_wf rc -> rc_remove eqb x rc = None.
Proof.
  intros H [_ Hp]. unfold rc_remove, rcount in *.
  destruct (aget eqb x rc) as [n|] eqn:E; [|reflexivity]. apply Hp in E. lia.
Qed.

(* ---- indices ---------------------------------------------------------------- *)
Definition icount (d : index) (k k2 : K) : nat := rcount (ipeek eqb k d) k2.

Definition idx_wf (d : index) : Prop :=
  NoDup (map fst d) /\ forall k rc, aget eqb k d = Some rc -> rc_wf rc.

Lemma idx_wf_nil : idx_wf [].
Proof. split; [constructor|intros k rc H; discriminate]. Qed.

Lemma ipeek_wf d k : idx_wf d -> rc_wf (ipeek eqb k d).
Proof.
  intros [_ H]. unfold ipeek. destruct (aget eqb k d) eqn:E; [eapply H; eauto|apply rc_wf_nil].
Qed.

Lemma iget_fst k d : fst (iget eqb k d) = ipeek eqb k d.
Proof. unfold iget, ipeek. destruct (aget eqb k d); reflexivity. Qed.

Lemma iget_snd_peek k d k' : ipeek eqb k' (snd (iget eqb k d)) = ipeek eqb k' d.
Proof.
  unfold iget, ipeek. destruct (aget eqb k d) eqn:E; cbn [snd]; auto.
  rewrite aget_app. destruct (aget eqb k' d) eqn:E2; auto. cbn.
  destruct (eqb k' k); reflexivity.
Qed.

Lemma iget_snd_wf k d : idx_wf d -> idx_wf (snd (iget eqb k d)).
Proof.
  intros [Hn Hr]. unfold iget. destruct (aget eqb k d) eqn:E; cbn [snd]; [split; auto|].
  split.
  - rewrite map_app; cbn. apply NoDup_snoc; auto. now apply (aget_None_keys eqb eqb_spec).
  - intros k' rc. rewrite aget_app. destruct (aget eqb k' d) eqn:E2.
    + intros H; inversion H; subst; eapply Hr; eauto.
    + cbn. destruct (eqb k' k); [intros H; inversion H; apply rc_wf_nil|discriminate].
Qed.

Lemma ipeek_aset k rc d k' : ipeek eqb k' (aset eqb k rc d) = if eqb k k' then rc else ipeek eqb k' d.
Proof.
  unfold ipeek. destruct (eqb k k') eqn:E.
  - apply eqb_spec in E; subst. now rewrite (aget_aset_same eqb eqb_spec).
  - rewrite (aget_aset_other eqb eqb_spec); auto.
    intros ->. now rewrite (eqb_refl eqb eqb_spec) in E.
Qed.

Lemma idx_wf_aset k rc d : idx_wf d -> rc_wf rc -> idx_wf (aset eqb k rc d).
Proof.
  intros [Hn Hr] Hrc. split; [now apply (NoDup_keys_aset eqb eqb_spec)|].
  intros k' rc'. destruct (eqb k k') eqn:E.
  - apply eqb_spec in E; subst. rewrite (aget_aset_same eqb eqb_spec). intros H; inversion H; now subst.
  - rewrite (aget_aset_other eqb eqb_spec); [apply Hr|].
    intros ->. now rewrite (eqb_refl eqb eqb_spec) in E.
Qed.

Lemma ipeek_iupd k f d k' :
  ipeek eqb k' (iupd eqb k f d) = if eqb k k' then f (ipeek eqb k d) else ipeek eqb k' d.
Proof.
  unfold iupd. pose proof (iget_fst k d) as H1. pose proof (iget_snd_peek k d k') as H2.
  destruct (iget eqb k d) as [rc d']. cbn [fst snd] in *. subst rc.
  rewrite ipeek_aset, H2. reflexivity.
Qed.

Lemma icount_iupd k f d k' y :
  icount (iupd eqb k f d) k' y = if eqb k k' then rcount (f (ipeek eqb k d)) y else icount d k' y.
Proof. unfold icount. rewrite ipeek_iupd. destruct (eqb k k'); reflexivity. Qed.

Lemma idx_wf_iupd k f d : (forall rc, rc_wf rc -> rc_wf (f rc)) -> idx_wf d -> idx_wf (iupd eqb k f d).
Proof.
  intros Hf Hd. unfold iupd. pose proof (iget_fst k d) as H1. pose proof (iget_snd_wf k d Hd) as H2.
  destruct (iget eqb k d) as [rc d']. cbn [fst snd] in *. subst rc.
  apply idx_wf_aset; auto. apply Hf. now apply ipeek_wf.
Qed.

Lemma icount_iget k d a b : icount (snd (iget eqb k d)) a b = icount d a b.
Proof. unfold icount. now rewrite iget_snd_peek. Qed.

(* a loop of appends *)
Lemma icount_fold_append {X} (kf vf : X -> K) xs : forall d a b,
  icount (fold_left (fun d x => iupd eqb (kf x) (rc_append eqb (vf x)) d) xs d) a b =
  icount d a b + cntp (fun x => eqb (kf x) a && eqb (vf x) b) xs.
Proof.
  induction xs as [|x t IH]; intros d a b; cbn [fold_left].
  - unfold cntp; cbn; lia.
  - rewrite IH, icount_iupd, cntp_cons. destruct (eqb (kf x) a) eqn:E; cbn [andb].
    + apply eqb_spec in E. rewrite rcount_append. unfold icount. rewrite E. lia.
    + cbn; lia.
Qed.

Lemma idx_wf_fold_append {X} (kf vf : X -> K) xs : forall d, idx_wf d ->
  idx_wf (fold_left (fun d x => iupd eqb (kf x) (rc_append eqb (vf x)) d) xs d).
Proof.
  induction xs as [|x t IH]; intros d H; cbn [fold_left]; auto.
  apply IH. apply idx_wf_iupd; auto. intros rc; apply rc_wf_append.
Qed.

(* a guarded decrement:  if v in d[k]: d[k].remove(v) *)
Notation idec := (idec eqb).

Lemma icount_idec k v d a b : idx_wf d ->
  icount (idec k v d) a b = icount d a b - b2n (eqb k a && eqb v b).
Proof.
  intros Hd. unfold idec. pose proof (iget_fst k d) as H1. pose proof (iget_snd_peek k d a) as H2.
  destruct (iget eqb k d) as [rc d']. cbn [fst snd] in *. subst rc.
  pose proof (ipeek_wf d k Hd) as Hw.
  destruct (rc_mem eqb v (ipeek eqb k d)) eqn:Em.
  - unfold icount. rewrite ipeek_aset, H2. destruct (eqb k a) eqn:E; cbn [andb].
    + apply eqb_spec in E; subst a. now rewrite rcount_remove_if.
    + cbn; lia.
  - unfold icount. rewrite H2. destruct (eqb k a) eqn:E; cbn [andb]; [|cbn; lia].
    apply eqb_spec in E; subst a. destruct (eqb v b) eqn:E2; [|cbn; lia].
    apply eqb_spec in E2; subst b. rewrite rc_mem_count in Em by assumption.
    apply Nat.leb_gt in Em. cbn. lia.
Qed.

Lemma idx_wf_idec k v d : idx_wf d -> idx_wf (idec k v d).
Proof.
  intros Hd. unfold idec. pose proof (iget_fst k d) as H1. pose proof (iget_snd_wf k d Hd) as H2.
  destruct (iget eqb k d) as [rc d']. cbn [fst snd] in *. subst rc.
  destruct (rc_mem eqb v (ipeek eqb k d)); auto.
  apply idx_wf_aset; auto. apply rc_wf_remove_if. now apply ipeek_wf.
Qed.

Lemma icount_fold_idec {X} (kf vf : X -> K) xs : forall d a b, idx_wf d ->
  icount (fold_left (fun d x => idec (kf x) (vf x) d) xs d) a b =
  icount d a b - cntp (fun x => eqb (kf x) a && eqb (vf x) b) xs.
Proof.
  induction xs as [|x t IH]; intros d a b Hd; cbn [fold_left].
  - unfold cntp; cbn; lia.
  - rewrite IH by now apply idx_wf_idec. rewrite icount_idec, cntp_cons by assumption. lia.
Qed.

Lemma idx_wf_fold_idec {X} (kf vf : X -> K) xs : forall d, idx_wf d ->
  idx_wf (fold_left (fun d x => idec (kf x) (vf x) d) xs d).
Proof.
  induction xs as [|x t IH]; intros d H; cbn [fold_left]; auto.
  apply IH. now apply idx_wf_idec.
Qed.

Lemma icount_adrop k d a b : icount (adrop eqb k d) a b = if eqb k a then 0 else icount d a b.
Proof.
  unfold icount, ipeek. destruct (eqb k a) eqn:E.
  - apply eqb_spec in E; subst. now rewrite (aget_adrop_same eqb).
  - rewrite (aget_adrop_other eqb eqb_spec); auto.
    intros ->. now rewrite (eqb_refl eqb eqb_spec) in E.
Qed.

Lemma idx_wf_adrop k d : idx_wf d -> idx_wf (adrop eqb k d).
Proof.
  intros [Hn Hr]. split; [now apply (NoDup_keys_adrop eqb eqb_spec)|].
  intros k' rc. destruct (eqb k k') eqn:E.
  - apply eqb_spec in E; subst. now rewrite (aget_adrop_same eqb).
  - rewrite (aget_adrop_other eqb eqb_spec); [apply Hr|].
    intros ->. now rewrite (eqb_refl eqb eqb_spec) in E.
Qed.

(* keys of an entry = the keys with a positive count *)
Lemma keys_icount d k x : idx_wf d -> (In x (rc_keys (ipeek eqb k d)) <-> 1 <= icount d k x).
Proof. intros Hd. unfold icount. apply rc_keys_count. now apply ipeek_wf. Qed.

Lemma keys_NoDup d k : idx_wf d -> NoDup (rc_keys (ipeek eqb k d)).
Proof. intros Hd. destruct (ipeek_wf d k Hd) as [H _]. exact H. Qed.

End Idx.
