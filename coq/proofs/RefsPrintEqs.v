(* Table obligations of C11: what [show_tokens] emits for every node class,
   and what Python's operator dispatch builds from the regenerated dunder
   tables.  Every lemma here is re-checked against gen/GenRefsRepr.v, so an
   edit of a __repr__ or of an operator dunder in xdeps/refs.py that changes
   the tables breaks exactly the lemma that names the class. *)
From Coq Require Import List Bool Arith ZArith NArith String Lia.
From XD Require Import model.RefSyntax model.ReprSyntax gen.GenRefsRepr lib.PyStr model.RefsShow model.RefsPrint.
Import ListNotations.
Open Scope N_scope.

Notation T := show_tokens.
Definition K (s : string) : token := KOp (s2p s).

Definition shx (x : term) : shown (A := token) :=
  match x with
  | TConst v => sh_const token_writer v
  | _ => {| sh_str := T x; sh_repr := T x; sh_isref := true |}
  end.
Definition ostr (x : term) : list token := sh_str (shx x).
Definition orepr (x : term) : list token := sh_repr (shx x).

Lemma ostr_ref x : is_ref x = true -> ostr x = T x.
Proof. destruct x; intros H; try discriminate H; reflexivity. Qed.
Lemma orepr_ref x : is_ref x = true -> orepr x = T x.
Proof. destruct x; intros H; try discriminate H; reflexivity. Qed.

Definition num_toks (v : lit) : list token :=
  if lit_isneg v then [K "-"; KNum (lit_abs v)] else [KNum v].

Lemma ostr_num v : is_num v = true -> ostr (TConst v) = num_toks v.
Proof. destruct v; intros H; try discriminate H; reflexivity. Qed.
Lemma orepr_num v : is_num v = true -> orepr (TConst v) = num_toks v.
Proof. destruct v; intros H; try discriminate H; reflexivity. Qed.
Lemma orepr_str s : orepr (TConst (LStr s)) = [KStr s].
Proof. reflexivity. Qed.

(* ------------------------------------------------------------- show_tokens *)

Lemma T_top l oa : T (TTop l oa) = [KName l].
Proof. destruct oa; reflexivity. Qed.

(* ItemRef: f'{owner!r}[{key!r}]' *)
Lemma T_item o k : T (TItem o k) = orepr o ++ K "[" :: orepr k ++ [K "]"].
Proof. destruct o, k; cbn; rewrite ?app_nil_r; reflexivity. Qed.

(* AttrRef: f'{owner}.{key}' *)
Lemma T_attr o n : T (TAttr o (TConst (LStr n))) = ostr o ++ [K "."; KName n].
Proof. destruct o; cbn; rewrite ?app_nil_r; reflexivity. Qed.

Lemma T_bin_unfold c l r :
  T (TBin c l r) = run_tpl token_writer c (env_or (env1 FLhs (VOne (shx l))) (env1 FRhs (VOne (shx r)))).
Proof. destruct l, r; reflexivity. Qed.

(* BinOpExpr: f'({lhs} {op} {rhs})' with a negative literal on the left of **
   parenthesised (every operator class except the deferred comparisons) *)
Lemma T_bin c l r s : existsb (N.eqb c) bin_classes = true -> op_str c = Some s -> is_eq_op s = false ->
  T (TBin c l r) =
  K "(" :: (if is_op s "**" && negb (sh_isref (shx l)) && toks_prefix [K "-"] (ostr l)
            then K "(" :: ostr l ++ [K ")"] else ostr l)
        ++ KOp s :: ostr r ++ [K ")"].
Proof.
  intros Hc Hs He. rewrite T_bin_unfold. cbn in Hc.
  repeat (apply orb_true_iff in Hc as [Hc|Hc];
          [apply N.eqb_eq in Hc; subst c; injection Hs as <-; try discriminate He; cbn; unfold ostr, K;
           repeat (match goal with |- context [if ?b then _ else _] => destruct b end);
           cbn; rewrite ?app_nil_r, <- ?app_assoc; reflexivity|]).
  discriminate Hc.
Qed.

(* the method that builds the deferred comparison printed by EqExpr / NeExpr *)
Definition eq_method (s : pystr) : pystr := if pystr_eqb s (s2p "==") then s2p "_eq" else s2p "_neq".

(* EqExpr / NeExpr: f'({lhs})._eq({rhs})' / f'({lhs})._neq({rhs})' *)
Lemma T_eq c l r s : existsb (N.eqb c) bin_classes = true -> op_str c = Some s -> is_eq_op s = true ->
  T (TBin c l r) = K "(" :: ostr l ++ K ")" :: K "." :: KName (eq_method s) :: K "(" :: ostr r ++ [K ")"].
Proof.
  intros Hc Hs He. rewrite T_bin_unfold. cbn in Hc.
  repeat (apply orb_true_iff in Hc as [Hc|Hc];
          [apply N.eqb_eq in Hc; subst c; injection Hs as <-; try discriminate He; cbn; unfold ostr, K;
           cbn; rewrite ?app_nil_r, <- ?app_assoc; reflexivity|]).
  discriminate Hc.
Qed.

(* ref._eq(x) / ref._neq(x) build the class that prints them *)
Lemma call_method_ok c s l r : existsb (N.eqb c) bin_classes = true -> op_str c = Some s -> is_eq_op s = true ->
  is_ref l = true ->
  call_method (eq_method s) l r = Some (TBin c l r) /\ is_method (eq_method s) = true.
Proof.
  intros Hc Hs He Hl. cbn in Hc.
  repeat (apply orb_true_iff in Hc as [Hc|Hc];
          [apply N.eqb_eq in Hc; subst c; injection Hs as <-; try discriminate He;
           unfold call_method; rewrite Hl; split; reflexivity|]).
  discriminate Hc.
Qed.

Lemma T_un_unfold c a : T (TUn c a) = run_tpl token_writer c (env1 FArg (VOne (shx a))).
Proof. destruct a; reflexivity. Qed.

(* UnaryOpExpr: f'({op}{arg})' *)
Lemma T_un c a s : existsb (N.eqb c) un_classes = true -> op_str c = Some s ->
  T (TUn c a) = K "(" :: KOp s :: ostr a ++ [K ")"].
Proof.
  intros Hc Hs. rewrite T_un_unfold. cbn in Hc.
  repeat (apply orb_true_iff in Hc as [Hc|Hc];
          [apply N.eqb_eq in Hc; subst c; injection Hs as <-; cbn; unfold ostr, K; rewrite ?app_nil_r, <- ?app_assoc; reflexivity|]).
  discriminate Hc.
Qed.

Definition sep : list token := [K ","].

(* BuiltinRef: f'{op_symbol}({", ".join(str(a) for a in (arg,) + params)})', math functions qualified *)
Lemma T_builtin f a ps m nm : builtin_fn f = Some (m, nm) ->
  T (TBuiltin f a ps) =
  (if pystr_eqb m (s2p "math") then [KName (s2p "math"); K "."] else [])
  ++ KName nm :: K "(" :: join sep (ostr a :: map ostr ps) ++ [K ")"].
Proof.
  intros Hf.
  assert (E : T (TBuiltin f a ps) =
              run_tpl token_writer cls_BuiltinRef
                (env_or (env1 FOp (VFn f)) (env_or (env1 FArg (VOne (shx a))) (env1 FParams (VMany (map shx ps)))))).
  { destruct a; reflexivity. }
  rewrite E. unfold run_tpl. cbn [repr_tpl cls_BuiltinRef repr_BuiltinRef flat_map interp_seg eval_cond].
  cbn [env_or env1]. rewrite Hf.
  change (s2p "math") with [109; 97; 116; 104].
  destruct (pystr_eqb m [109; 97; 116; 104]); cbn -[join builtin_fn]; rewrite Hf; cbn -[join]; rewrite ?app_nil_r, map_map; reflexivity.
Qed.

Definition kw_toks (p : pystr * term) : list token := KName (fst p) :: K "=" :: ostr (snd p).

(* CallRef: f'{fname}({", ".join([repr(a) ...] + [f"{k}={v}" ...])})' *)
Lemma T_call f args kw : is_ref f = true ->
  T (TCall f args kw) = T f ++ K "(" :: join sep (map orepr args ++ map kw_toks kw) ++ [K ")"].
Proof.
  intros Hf.
  assert (E : T (TCall f args kw) =
              run_tpl token_writer cls_CallRef
                (env_or (env1 FFunc (VOne (shx f)))
                   (env_or (env1 FArgs (VMany (map shx args)))
                      (env1 FKwargs (VKw (map (fun p => (fst p, shx (snd p))) kw)))))).
  { destruct f; reflexivity. }
  rewrite E. unfold run_tpl. cbn [repr_tpl cls_CallRef repr_CallRef flat_map interp_seg eval_cond].
  cbn [env_or env1]. destruct f; try discriminate Hf; cbn -[join T]; rewrite ?app_nil_r, !map_map; reflexivity.
Qed.

(* ------------------------------------------------------- operator dispatch *)

Lemma lit_neg_abs v : is_num v = true -> lit_isneg v = true -> lit_neg (lit_abs v) = v.
Proof.
  destruct v as [z| |t| | |]; intros Hn Hs; try discriminate Hn; unfold lit_abs; rewrite Hs; cbn in *.
  - f_equal. lia.
  - rewrite Hs. f_equal.
    assert (Ht : t <> 0) by (intros ->; discriminate Hs).
    replace (N.odd (t - 1)) with false.
    + lia.
    + symmetry. rewrite <- N.negb_even. rewrite N.even_sub by lia. rewrite <- N.negb_odd, Hs. reflexivity.
Qed.

Lemma lit_abs_num v : is_num v = true -> is_num (lit_abs v) = true.
Proof. destruct v; intros H; try discriminate H; unfold lit_abs; destruct (lit_isneg _); reflexivity. Qed.

(* a op b with a reference on the left builds the node class of the operator *)
Lemma build_bin_ref c s l r : existsb (N.eqb c) bin_classes = true -> op_str c = Some s ->
  is_eq_op s = false -> is_ref l = true -> build_bin s l r = Some (TBin c l r).
Proof.
  intros Hc Hs He Hl. cbn in Hc.
  repeat (apply orb_true_iff in Hc as [Hc|Hc];
          [apply N.eqb_eq in Hc; subst c; injection Hs as <-; try discriminate He;
           unfold build_bin; cbn; rewrite Hl; reflexivity|]).
  discriminate Hc.
Qed.

(* const op b: the reflected dunder builds the same class with the constant on the left *)
Lemma build_bin_reflected c s l r : existsb (N.eqb c) bin_classes = true -> op_str c = Some s ->
  mem_str s reflectable_ops = true -> is_ref l = false -> is_ref r = true -> build_bin s l r = Some (TBin c l r).
Proof.
  intros Hc Hs He Hl Hr. cbn in Hc.
  repeat (apply orb_true_iff in Hc as [Hc|Hc];
          [apply N.eqb_eq in Hc; subst c; injection Hs as <-; try discriminate He;
           unfold build_bin; cbn; rewrite Hl, Hr; reflexivity|]).
  discriminate Hc.
Qed.

Lemma build_un_ref c s a : existsb (N.eqb c) un_classes = true -> op_str c = Some s ->
  is_ref a = true -> build_un s a = Some (TUn c a) /\ (is_op s "-" || is_op s "+" || is_op s "~" = true).
Proof.
  intros Hc Hs Ha. cbn in Hc.
  repeat (apply orb_true_iff in Hc as [Hc|Hc];
          [apply N.eqb_eq in Hc; subst c; injection Hs as <-; unfold build_un; rewrite Ha; split; reflexivity|]).
  discriminate Hc.
Qed.

(* operator strings are neither brackets nor separators *)
Lemma bin_op_shape c s : existsb (N.eqb c) bin_classes = true -> op_str c = Some s ->
  is_op s "." = false /\ is_op s "[" = false /\ is_op s "(" = false /\ is_op s ")" = false.
Proof.
  intros Hc Hs. cbn in Hc.
  repeat (apply orb_true_iff in Hc as [Hc|Hc];
          [apply N.eqb_eq in Hc; subst c; injection Hs as <-; repeat split; reflexivity|]).
  discriminate Hc.
Qed.

Lemma mk_access_item b k : is_ref b = true -> mk_access b (s2p "__getitem__") k = Some (TItem b k).
Proof. intros H. unfold mk_access. rewrite H. destruct b as [| l [|] | | | | | | |]; try discriminate H; reflexivity. Qed.

Lemma mk_access_attr b n : is_ref b = true -> mk_access b (s2p "__getattr__") (TConst (LStr n)) = Some (sm_attr b n).
Proof. intros H. unfold mk_access. rewrite H. destruct b as [| l [|] | | | | | | |]; try discriminate H; reflexivity. Qed.

Lemma mk_call_ref b args kw : is_ref b = true -> mk_call b args kw = Some (TCall b args kw).
Proof. intros H. unfold mk_call. rewrite H. destruct b as [| l [|] | | | | | | |]; try discriminate H; reflexivity. Qed.

(* the function printed for a BuiltinRef, called on a reference, builds it again *)
Lemma build_builtin_ok f m nm x ps : builtin_fn f = Some (m, nm) -> builtin_okb f (List.length ps) = true ->
  is_ref x = true ->
  build_builtin m nm (x :: ps) = Some (TBuiltin f x ps) /\
  ((pystr_eqb m (s2p "math") = true /\ mem_str nm (map s2p ["floor"; "ceil"; "trunc"]%string) = true) \/
   (pystr_eqb m (s2p "math") = false /\ m = s2p "builtins" /\ mem_str nm (map s2p ["abs"; "round"; "divmod"]%string) = true)).
Proof.
  intros Hf Hok Hx. unfold builtin_okb in Hok. rewrite Hf in Hok.
  unfold build_builtin in *. rewrite Hx. cbn [is_ref] in Hok.
  rewrite repeat_length in Hok.
  destruct f as [|[[[?|?|]|[?|?|]|]|[[?|?|]|[?|?|]|]|]]; try discriminate Hf;
    cbn in Hf; injection Hf as <- <-; cbn in Hok |- *;
    repeat (match goal with
            | H : context [if ?b then _ else _] |- _ => destruct b eqn:?; try discriminate H
            end);
    (split; [reflexivity|]); auto.
Qed.
