(* C01: after an assignment every expression-defined location holds the value
   of its expression on the current containers, provided the ordering
   relation restricted to the triggered tasks has no cycle (self-loops
   ignored), written locations do not overlap and no expression reads its own
   target.  Locations that no triggered task writes keep their values. *)
From Coq Require Import List Bool Arith ZArith NArith Lia Permutation.
From XD Require Import lib.ListAux lib.Toposort model.Manager model.ManagerData
  proofs.ManagerIdx proofs.ManagerInv proofs.ManagerHist proofs.ManagerTrace proofs.ManagerDataInv proofs.Store.
Import ListNotations.
Local Open Scope nat_scope.

Notation ttask := (@task path action).
Notation ttasks := (list (path * @task path action)).
Notation pedge := (edge path_eqb).

(* ---- semantic well-formedness of the registered tasks ---------------------------------- *)
(* an ExprTask built by the library: targets are the target reference and its
   enclosing containers, dependencies contain every location the expression
   reads together with its enclosing containers *)
Definition sem_ok (tid : path) (T : ttask) : Prop :=
  exists e, t_act T = AExpr e /\ t_id T = tid /\ 2 <= length tid /\
    (forall x, In x (t_targets T) <-> In x (deps_of tid)) /\
    (forall q, In q (reads e) -> 2 <= length q /\ forall x, In x (deps_of q) -> In x (t_deps T)).

Definition sem_wf (ts : ttasks) : Prop := forall a T, aget path_eqb a ts = Some T -> sem_ok a T.

Definition writes_disjoint (ts : ttasks) : Prop :=
  forall a b Ta Tb, aget path_eqb a ts = Some Ta -> aget path_eqb b ts = Some Tb -> a <> b -> overlap a b = false.

Definition no_self_read (ts : ttasks) : Prop :=
  forall a T e, aget path_eqb a ts = Some T -> t_act T = AExpr e -> forall q, In q (reads e) -> overlap a q = false.

Definition cons_at (ts : ttasks) (st : node) (a : path) : Prop :=
  forall T e, aget path_eqb a ts = Some T -> t_act T = AExpr e -> nget st a = eval st e.

Definition Consistent (ts : ttasks) (st : node) : Prop := forall a, cons_at ts st a.

Lemma overlap_edge ts a b Ta Tb eb q : sem_wf ts ->
  aget path_eqb a ts = Some Ta -> aget path_eqb b ts = Some Tb -> t_act Tb = AExpr eb ->
  In q (reads eb) -> overlap a q = true -> pedge ts a b.
Proof.
  intros Hw Ha Hb Hact Hq Ho.
  destruct (Hw _ _ Ha) as (ea & _ & _ & Hla & Hta & _).
  destruct (Hw _ _ Hb) as (eb' & Hact' & _ & _ & _ & Hrb). rewrite Hact in Hact'. inversion Hact'; subst eb'.
  destruct (Hrb q Hq) as [Hlq Hdq].
  destruct (overlap_common a q Hla Hlq Ho) as (x & Hx1 & Hx2).
  exists Ta, Tb. repeat split; auto. exists x. split; [now apply Hta|now apply Hdq].
Qed.

Lemma overlap_start ts sd r b Tb eb q : sem_wf ts ->
  aget path_eqb b ts = Some Tb -> t_act Tb = AExpr eb -> In q (reads eb) ->
  2 <= length r -> (forall x, In x (deps_of r) -> In x sd) -> overlap r q = true -> starts path_eqb ts sd b.
Proof.
  intros Hw Hb Hact Hq Hlr Hsd Ho.
  destruct (Hw _ _ Hb) as (eb' & Hact' & _ & _ & _ & Hrb). rewrite Hact in Hact'. inversion Hact'; subst eb'.
  destruct (Hrb q Hq) as [Hlq Hdq].
  destruct (overlap_common r q Hlr Hlq Ho) as (x & Hx1 & Hx2).
  exists Tb. split; auto. exists x. split; [now apply Hsd|now apply Hdq].
Qed.

(* ---- one expression task, no fault -------------------------------------------------------- *)
Lemma exec_expr (T : ttask) s s' e : t_act T = AExpr e -> d_fault s = None -> exec T s = (s', None) ->
  exists v st', eval (d_st s) e = Some v /\ nset (d_st s) (t_id T) v = Some st' /\
                d_st s' = st' /\ d_fault s' = None.
Proof.
  intros Ha Hf. unfold exec. rewrite Ha. cbn [do_writes].
  destruct (eval (d_st s) e) as [v|] eqn:Ev; [|discriminate].
  unfold dwrite. rewrite Hf. destruct (nset (d_st s) (t_id T) v) as [st'|] eqn:Es; [|discriminate].
  cbn [do_writes]. intros H; inversion H; subst. exists v, st'. cbn. repeat split; auto.
Qed.

(* ---- position facts ----------------------------------------------------------------------- *)
Lemma NoDup_unique_split {X} (b : X) l1 : forall l2 l1' l2',
  NoDup (l1 ++ b :: l2) -> l1 ++ b :: l2 = l1' ++ b :: l2' -> l1 = l1' /\ l2 = l2'.
Proof.
  induction l1 as [|x t IH]; intros l2 l1' l2' Hn He.
  - destruct l1' as [|y t']; cbn in *.
    + injection He as ->. auto.
    + injection He as <- ->. apply NoDup_cons_iff in Hn. destruct Hn as [Hn _].
      exfalso. apply Hn. apply in_app_iff. right; now left.
  - destruct l1' as [|y t']; cbn in *.
    + injection He as -> _. apply NoDup_cons_iff in Hn. destruct Hn as [Hn _].
      exfalso. apply Hn. apply in_app_iff. right; now left.
    + injection He as <- He. apply NoDup_cons_iff in Hn. destruct Hn as [_ Hn].
      destruct (IH _ _ _ Hn He) as [-> ->]. auto.
Qed.

Lemma not_before_earlier {X} (a b : X) l1 l2 :
  NoDup (l1 ++ b :: l2) -> In a l1 -> ~ before b a (l1 ++ b :: l2).
Proof.
  intros Hn Ha (l1' & l2' & He & Hin). destruct (NoDup_unique_split b l1 l2 l1' l2' Hn He) as [-> ->].
  (* a occurs in l1' and in l2' *)
  clear He. induction l1' as [|x t IH]; [destruct Ha|].
  cbn in Hn. apply NoDup_cons_iff in Hn. destruct Hn as [Hx Hn]. destruct Ha as [->|Ha].
  - apply Hx. apply in_app_iff. right. now right.
  - now apply IH.
Qed.

(* ---- running the triggered expression tasks in order ---------------------------------------- *)
Section Run.
  Variable ts : ttasks.
  Variable L : list path.
  Hypothesis Hsem : sem_wf ts.
  Hypothesis Hwd : writes_disjoint ts.
  Hypothesis Hnsr : no_self_read ts.
  Hypothesis HLn : NoDup L.
  Hypothesis HLo : forall u v, In u L -> pedge ts u v -> before u v L \/ clos (pedge ts) v u.
  Hypothesis Hacy : forall u v, In u L -> In v L -> u <> v -> pedge ts u v -> ~ clos (pedge ts) v u.

  Lemma run_expr_tasks : forall todo done tl s s2 tr st1,
    L = done ++ todo -> lookup_tasks path_eqb ts todo = Ok tl -> d_fault s = None ->
    run_tasks tl s = (s2, tr, None) ->
    (forall a, In a done -> cons_at ts (d_st s) a) ->
    (forall q, (forall a, In a done -> overlap a q = false) -> nget (d_st s) q = nget st1 q) ->
    (forall a, In a L -> cons_at ts (d_st s2) a) /\
    (forall q, (forall a, In a L -> overlap a q = false) -> nget (d_st s2) q = nget st1 q) /\
    d_fault s2 = None.
  Proof.
    induction todo as [|b rest IH]; intros done tl s s2 tr st1 HL Hlk Hf Hrun Hc Hfr.
    - cbn in Hlk. inversion Hlk; subst tl. cbn in Hrun. inversion Hrun; subst.
      rewrite app_nil_r in *. auto.
    - cbn [lookup_tasks] in Hlk. destruct (aget path_eqb b ts) as [Tb|] eqn:Eb; [|discriminate].
      destruct (lookup_tasks path_eqb ts rest) as [tl'|] eqn:Elk; [|discriminate].
      inversion Hlk; subst tl. cbn [run_tasks] in Hrun.
      destruct (exec Tb s) as [s' [er|]] eqn:Ex; [inversion Hrun|].
      destruct (run_tasks tl' s') as [[s2' tr'] er'] eqn:Er. inversion Hrun; subst s2' er'. clear Hrun.
      destruct (Hsem _ _ Eb) as (eb & Hact & Hid & Hlb & Htb & Hrb).
      destruct (exec_expr Tb s s' eb Hact Hf Ex) as (v & st' & Hev & Hset & Hst' & Hf').
      rewrite Hid in Hset.
      assert (HbL : In b L) by (rewrite HL; apply in_app_iff; right; now left).
      assert (HLn' : NoDup (done ++ b :: rest)) by now rewrite <- HL.
      apply (IH (done ++ [b]) tl' s' s2 tr' st1); auto.
      + now rewrite <- app_assoc.
      + (* consistency of the tasks already run, and of b *)
        intros a Ha. apply in_app_iff in Ha. rewrite Hst'. destruct Ha as [Ha|[<-|[]]].
        * intros Ta ea Hta Hacta.
          assert (Hab : a <> b).
          { intros ->. apply NoDup_remove_2 in HLn'. apply HLn'. apply in_app_iff. now left. }
          assert (HaL : In a L) by (rewrite HL; apply in_app_iff; now left).
          rewrite (nget_nset_disjoint b _ _ _ a Hset) by (apply (Hwd b a Tb Ta); auto).
          rewrite (Hc a Ha Ta ea Hta Hacta). apply eval_local.
          intros q Hq. symmetry. apply (nget_nset_disjoint b _ _ _ q Hset).
          destruct (overlap b q) eqn:Eo; [exfalso|reflexivity].
          assert (He : pedge ts b a) by (eapply overlap_edge; eauto).
          destruct (HLo b a HbL He) as [Hb|Hcl].
          -- rewrite HL in Hb. eapply not_before_earlier; eauto.
          -- apply (Hacy b a HbL HaL); auto.
        * intros Tb' eb' Htb' Hactb'. rewrite Eb in Htb'. inversion Htb'; subst Tb'.
          rewrite Hact in Hactb'. inversion Hactb'; subst eb'.
          rewrite (nget_nset_same b _ _ _ Hset). rewrite <- Hev. apply eval_local.
          intros q Hq. symmetry. apply (nget_nset_disjoint b _ _ _ q Hset). eapply Hnsr; eauto.
      + intros q Hq. rewrite Hst'.
        rewrite (nget_nset_disjoint b _ _ _ q Hset) by (apply Hq; apply in_app_iff; right; now left).
        apply Hfr. intros a Ha. apply Hq. apply in_app_iff. now left.
  Qed.
End Run.

(* ---- decomposition of a successful assignment ------------------------------------------------- *)
Lemma lookup_tasks_In (ts : ttasks) : forall L tl, lookup_tasks path_eqb ts L = Ok tl ->
  forall b, In b L -> exists Tb, aget path_eqb b ts = Some Tb.
Proof.
  induction L as [|i L IH]; intros tl H b Hb; [destruct Hb|]. cbn [lookup_tasks] in H.
  destruct (aget path_eqb i ts) as [Ti|] eqn:E; [|discriminate].
  destruct (lookup_tasks path_eqb ts L) as [tl'|] eqn:E2; [|discriminate].
  destruct Hb as [<-|Hb]; [eauto|]. eapply IH; eauto.
Qed.

Lemma clos_snoc {X} (R : X -> X -> Prop) x y z : clos R x y -> R y z -> clos R x z.
Proof. induction 1 as [x|x y w Hxy _ IH]; intros H; [econstructor; [exact H|constructor]|econstructor; eauto]. Qed.

Lemma set_value_ok_inv (m : dmgr) s r v sd so m' s' out :
  PInv m -> vsrc_wf v -> set_value m s r v sd so = (m', s', out) -> o_err out = None -> d_fault s = None ->
  exists m2 x s1 L tl,
    PInv m2 /\ (forall a, a <> r -> aget path_eqb a (m_tasks m2) = aget path_eqb a (m_tasks m)) /\
    match v with
    | SPlain y => x = y /\ aget path_eqb r (m_tasks m2) = None
    | SExpr e dord tord => eval (d_st s) e = Some x /\ aget path_eqb r (m_tasks m2) = Some (mk_expr_task r e dord tord)
    end /\
    nset (d_st s) r x = Some (d_st s1) /\ d_fault s1 = None /\
    find_taskids path_eqb m2 sd so = Ok (L, m') /\ lookup_tasks path_eqb (m_tasks m') L = Ok tl /\
    run_tasks tl s1 = (s', o_trace out, None).
Proof.
  intros HI Hv E Herr Hf. unfold set_value in E.
  destruct (if is_task r m then unregister path_eqb r m else Ok m) as [m1|e] eqn:E1;
    [|inversion E; subst; discriminate].
  assert (H1 : PInv m1 /\ aget path_eqb r (m_tasks m1) = None /\
               forall a, a <> r -> aget path_eqb a (m_tasks m1) = aget path_eqb a (m_tasks m)).
  { unfold is_task in E1. destruct (aget path_eqb r (m_tasks m)) eqn:Eg.
    - destruct (unregister_cases m r HI) as [(e & He)|(mx & He & HIx & _ & _ & Ht)]; [congruence|].
      rewrite He in E1. inversion E1; subst. split; [auto|]. rewrite Ht. split.
      + apply (aget_adrop_same path_eqb).
      + intros a Ha. apply (aget_adrop_other path_eqb path_eqb_spec). congruence.
    - inversion E1; subst. auto. }
  destruct H1 as (HI1 & Hn1 & Hk1).
  assert (Hcore : forall m2 x, PInv m2 ->
     (match dwrite s r x with
      | Err e => (m2, s, mkOut (Some e) [])
      | Ok s1 => match find_tasks path_eqb m2 sd so with
                 | Err e => (m2, s1, mkOut (Some e) [])
                 | Ok (ts, m3) => let '(s2, tr, er) := run_tasks ts s1 in (m3, s2, mkOut er tr)
                 end
      end) = (m', s', out) ->
     exists s1 L tl, nset (d_st s) r x = Some (d_st s1) /\ d_fault s1 = None /\
        find_taskids path_eqb m2 sd so = Ok (L, m') /\ lookup_tasks path_eqb (m_tasks m') L = Ok tl /\
        run_tasks tl s1 = (s', o_trace out, None)).
  { intros m2 x HI2 Ec. unfold dwrite in Ec. rewrite Hf in Ec.
    destruct (nset (d_st s) r x) as [st'|] eqn:Es; [|inversion Ec; subst; discriminate].
    destruct (find_tasks path_eqb m2 sd so) as [[tl m3]|e] eqn:Ef; [|inversion Ec; subst; discriminate].
    destruct (find_tasks_inv _ _ _ _ _ Ef) as (L & EL & Elk).
    destruct (run_tasks tl _) as [[s2 tr] er] eqn:Er. inversion Ec; subst. cbn in Herr. subst er.
    exists (mkD st' (d_prev s) None), L, tl. cbn. repeat split; auto. }
  destruct v as [y|e dord tord].
  - destruct (Hcore m1 y HI1 E) as (s1 & L & tl & H).
    exists m1, y, s1, L, tl. split; [exact HI1|]. split; [exact Hk1|]. split; [split; [reflexivity|exact Hn1]|]. exact H.
  - destruct Hv as [Hd Ht].
    destruct (register_cases m1 (mk_expr_task r e dord tord) HI1 Hn1 Hd Ht) as [[_ Hr]|(m2 & Hr & HI2 & _ & Ht2)];
      rewrite Hr in E; [inversion E; subst; discriminate|].
    destruct (eval (d_st s) e) as [x|] eqn:Ev; [|inversion E; subst; discriminate].
    destruct (Hcore m2 x HI2 E) as (s1 & L & tl & H).
    exists m2, x, s1, L, tl. split; [exact HI2|]. split.
    + intros a Ha. rewrite Ht2, aget_app, Hk1 by assumption. destruct (aget path_eqb a (m_tasks m)); auto.
      cbn. destruct (path_eqb a r) eqn:Ea; [apply path_eqb_spec in Ea; contradiction|reflexivity].
    + split; [|exact H]. split; [reflexivity|]. rewrite Ht2, aget_app, Hn1. cbn.
      now rewrite (proj2 (path_eqb_spec r r) eq_refl).
Qed.

(* ---- C01: one assignment --------------------------------------------------------------------- *)
Theorem set_value_consistent (m : dmgr) s r v sd so m' s' out :
  PInv m -> vsrc_wf v -> set_value m s r v sd so = (m', s', out) -> o_err out = None -> d_fault s = None ->
  2 <= length r -> (forall x, In x (deps_of r) -> In x sd) ->
  sem_wf (m_tasks m') -> writes_disjoint (m_tasks m') -> no_self_read (m_tasks m') ->
  (forall a T, aget path_eqb a (m_tasks m') = Some T -> a <> r -> overlap r a = false) ->
  (forall u w, In u (o_trace out) -> In w (o_trace out) -> u <> w -> pedge (m_tasks m') u w ->
               ~ clos (pedge (m_tasks m')) w u) ->
  (forall a, a <> r -> ~ In a (o_trace out) -> cons_at (m_tasks m) (d_st s) a) ->
  Consistent (m_tasks m') (d_st s') /\
  (forall q, overlap r q = false -> (forall a, In a (o_trace out) -> overlap a q = false) ->
             nget (d_st s') q = nget (d_st s) q) /\
  ((forall a, In a (o_trace out) -> overlap a r = false) ->
   exists x, nget (d_st s') r = Some x /\
             match v with SPlain y => x = y | SExpr e _ _ => eval (d_st s) e = Some x end).
Proof.
  intros HI Hv E Herr Hf Hlr Hsd Hsem Hwd Hnsr Hro Hacy Hpre.
  destruct (set_value_ok_inv m s r v sd so m' s' out HI Hv E Herr Hf)
    as (m2 & x & s1 & L & tl & HI2 & Hk2 & Hvx & Hset & Hf1 & EL & Elk & Erun).
  destruct (find_taskids_spec path_eqb path_eqb_spec m2 sd so L m' HI2 EL) as (HN & HT & HO & HI' & Ht' & _).
  set (ts := m_tasks m') in *.
  assert (Htr : o_trace out = L).
  { destruct (run_tasks_trace _ _ _ _ _ Erun) as [Hfull _]. rewrite (Hfull eq_refl).
    pose proof HI' as (_ & (_ & Hok) & _).
    eapply lookup_tasks_ids; [|exact Elk]. intros k T Hk. now destruct (Hok _ _ Hk). }
  rewrite Htr in *. rewrite <- Ht' in HT, HO. fold ts in HT, HO.
  destruct (run_expr_tasks ts L Hsem Hwd Hnsr HN HO Hacy L [] tl s1 s' L (d_st s1) eq_refl Elk Hf1 Erun)
    as (HA & HB & _); [intros a []|reflexivity|].
  assert (HLreg : forall b, In b L -> exists Tb, aget path_eqb b ts = Some Tb) by (eapply lookup_tasks_In; eauto).
  assert (HLclosed : forall b a, In b L -> pedge ts b a -> In a L).
  { intros b a Hb He. apply HT. apply HT in Hb. destruct Hb as (r0 & Hs & Hc). exists r0. split; auto.
    eapply clos_snoc; eauto. }
  split; [|split].
  - intros a T e Ha Hact.
    destruct (in_dec (list_eq_dec N.eq_dec) a L) as [HaL|HaL]; [now apply (HA a HaL T e)|].
    (* a is not triggered: nothing it reads or holds was written by a triggered task *)
    assert (Hfr_a : nget (d_st s') a = nget (d_st s1) a).
    { apply HB. intros b Hb. destruct (HLreg b Hb) as (Tb & Eb). apply (Hwd b a Tb T); auto. intros ->; contradiction. }
    assert (Hfr_e : eval (d_st s') e = eval (d_st s1) e).
    { apply eval_local. intros q Hq. apply HB. intros b Hb.
      destruct (overlap b q) eqn:Eo; [exfalso|reflexivity].
      destruct (HLreg b Hb) as (Tb & Eb). apply HaL. apply (HLclosed b a Hb). eapply overlap_edge; eauto. }
    rewrite Hfr_a, Hfr_e.
    destruct (list_eq_dec N.eq_dec a r) as [->|Har].
    + (* the newly defined location itself *)
      destruct v as [y|e0 dord tord]; destruct Hvx as [Hx Hr].
      * rewrite <- Ht' in Hr. fold ts in Hr. congruence.
      * rewrite <- Ht' in Hr. fold ts in Hr. rewrite Ha in Hr. inversion Hr; subst T. cbn in Hact. inversion Hact; subst e0.
        rewrite (nget_nset_same r _ _ _ Hset), <- Hx. apply eval_local.
        intros q Hq. symmetry. apply (nget_nset_disjoint r _ _ _ q Hset). eapply Hnsr; eauto.
    + rewrite (nget_nset_disjoint r _ _ _ a Hset) by (eapply Hro; eauto).
      assert (He1 : eval (d_st s1) e = eval (d_st s) e).
      { apply eval_local. intros q Hq. apply (nget_nset_disjoint r _ _ _ q Hset).
        destruct (overlap r q) eqn:Eo; [exfalso|reflexivity].
        apply HaL. apply HT. exists a. split; [|constructor]. eapply overlap_start; eauto. }
      rewrite He1. apply (Hpre a Har HaL T e); auto.
      rewrite <- (Hk2 a Har), <- Ht'. exact Ha.
  - intros q Hq1 Hq2. rewrite (HB q Hq2). now apply (nget_nset_disjoint r _ _ _ q Hset).
  - intros Hr. exists x. split.
    + rewrite (HB r Hr). apply (nget_nset_same r _ _ _ Hset).
    + destruct v; destruct Hvx; auto.
Qed.

(* ---- C01 over histories of assignments ----------------------------------------------------------- *)
Definition assign_ok (m : dmgr) (s : dstate) (o : mop) : Prop :=
  match o with
  | MSet r v sd so =>
      let m' := fst (fst (set_value m s r v sd so)) in
      let out := snd (set_value m s r v sd so) in
      vsrc_wf v /\ o_err out = None /\ d_fault s = None /\ 2 <= length r /\
      (forall x, In x (deps_of r) -> In x sd) /\
      sem_wf (m_tasks m') /\ writes_disjoint (m_tasks m') /\ no_self_read (m_tasks m') /\
      (forall a T, aget path_eqb a (m_tasks m') = Some T -> a <> r -> overlap r a = false) /\
      (forall u w, In u (o_trace out) -> In w (o_trace out) -> u <> w -> pedge (m_tasks m') u w ->
                   ~ clos (pedge (m_tasks m')) w u)
  | _ => False
  end.

Fixpoint hist_ok (m : dmgr) (s : dstate) (ops : list mop) : Prop :=
  match ops with
  | [] => True
  | o :: rest => assign_ok m s o /\ hist_ok (fst (fst (step m s o))) (snd (fst (step m s o))) rest
  end.

Lemma history_consistent_gen ops : forall ms : dmgr * dstate,
  PInv (fst ms) -> Consistent (m_tasks (fst ms)) (d_st (snd ms)) -> hist_ok (fst ms) (snd ms) ops ->
  let ms' := fold_left (fun ms o => fst (step (fst ms) (snd ms) o)) ops ms in
  PInv (fst ms') /\ Consistent (m_tasks (fst ms')) (d_st (snd ms')).
Proof.
  induction ops as [|o rest IH]; intros [m s]; cbn [fold_left fst snd]; intros HI HC Hh; [auto|].
  destruct Hh as [Ho Hr]. destruct o; cbn [assign_ok] in Ho; try contradiction.
  cbn [step] in *. destruct (set_value m s r v sd_order start_order) as [[m' s'] out] eqn:E. cbn [fst snd] in *.
  destruct Ho as (Hv & Herr & Hf & Hlr & Hsd & Hsem & Hwd & Hnsr & Hro & Hacy).
  destruct (set_value_consistent m s r v sd_order start_order m' s' out HI Hv E Herr Hf Hlr Hsd Hsem Hwd Hnsr Hro Hacy)
    as (HC' & _); [intros a _ _; apply HC|].
  apply (IH (m', s')); auto. pose proof (set_value_Inv m s r v sd_order start_order HI Hv) as H. now rewrite E in H.
Qed.

Theorem history_consistent ops m s :
  PInv m -> Consistent (m_tasks m) (d_st s) -> hist_ok m s ops ->
  Consistent (m_tasks (fst (final_mgr m s ops))) (d_st (snd (final_mgr m s ops))).
Proof. intros HI HC Hh. unfold final_mgr. now apply (history_consistent_gen ops (m, s)). Qed.

(* helpers to discharge the hypotheses on a concrete task list *)
Lemma aget_In_pair (ts : ttasks) a T : aget path_eqb a ts = Some T -> In (a, T) ts.
Proof.
  induction ts as [|[k T'] t IH]; cbn; [discriminate|].
  destruct (path_eqb a k) eqn:E; [apply path_eqb_spec in E; subst; intros H; inversion H; now left|auto].
Qed.

Lemma sem_wf_Forall (ts : ttasks) : Forall (fun p => sem_ok (fst p) (snd p)) ts -> sem_wf ts.
Proof. intros H a T Ha. apply aget_In_pair in Ha. rewrite Forall_forall in H. apply (H (a, T) Ha). Qed.
