(* C10, non-interference: two runs of the optimizer whose user functions differ
   only in the component of a disabled target take the same steps.  The two
   runs are related by a relation that is equality on everything that
   controls the optimizer and only lets last_res_values /
   last_targets_within_tol / the logged target columns differ at index j. *)
From Coq Require Import List Bool Arith NArith ZArith Lia.
From XD Require Import model.Opt proofs.OptBase proofs.OptInner proofs.OptOuter proofs.OptThm.
Import ListNotations.

(* lists equal except possibly at position j *)
Fixpoint agree_off {A} (j : nat) (a b : list A) {struct a} : Prop :=
  match a, b with
  | [], [] => True
  | x :: a', y :: b' => match j with O => a' = b' | S j' => x = y /\ agree_off j' a' b' end
  | _, _ => False
  end.

Lemma agree_off_refl {A} j (a : list A) : agree_off j a a.
Proof. revert j; induction a as [|x a IH]; intros [|j]; cbn; auto. Qed.

Lemma agree_off_nth {A} j (a b : list A) : agree_off j a b -> forall i, i <> j -> nth_error a i = nth_error b i.
Proof.
  revert j b; induction a as [|x a IH]; intros j [|y b]; cbn [agree_off]; try (intros []; fail).
  - intros _ i _. reflexivity.
  - destruct j as [|j].
    + intros H [|i] Hi; [congruence|cbn; rewrite H; reflexivity].
    + intros [H0 H] [|i] Hi; [cbn; rewrite H0; reflexivity|]. cbn. apply (IH j); auto.
Qed.

Definition with_f (E : env) (g : list (eF E) -> option (list (eF E))) : env :=
  mkEnv (eF E) (e_zero E) (e_one E) (e_half E) (e_add E) (e_sub E) (e_mul E) (e_div E) (e_abs E) (e_ltb E) (e_leb E)
        (e_tolj E) (e_ten E) (e_hundred E) (e_atol E) (e_lo E) (e_hi E) g (e_pen E) (e_newton E) (e_broyden E) (e_log10 E) (e_match E).

Section Nonint.
  Variable E : env.
  Notation F := (eF E).
  Variable cf : cfg F.
  Variables f1 f2 : list F -> option (list F).
  Variable j : nat.
  Notation E1 := (with_f E f1).
  Notation E2 := (with_f E f2).
  Notation state := (state F).
  Notation row := (row F).
  Notation res := (res F).

  (* the two user functions differ at most in component j *)
  Hypothesis fR : forall k, match f1 k, f2 k with
                            | Some a, Some b => agree_off j a b
                            | None, None => True
                            | _, _ => False
                            end.

  Definition rowR (r1 r2 : row) : Prop :=
    r_knobs r1 = r_knobs r2 /\ r_va r1 = r_va r2 /\ r_ta r1 = r_ta r2 /\ r_pen r1 = r_pen r2 /\
    agree_off j (r_targets r1) (r_targets r2) /\ agree_off j (r_tolmet r1) (r_tolmet r2) /\
    r_hit r1 = r_hit r2 /\ r_alpha r1 = r_alpha r2 /\ r_tag r1 = r_tag r2.

  Definition stR (s1 s2 : state) : Prop :=
    knobs s1 = knobs s2 /\ va s1 = va s2 /\ ta s1 = ta s2 /\ sx s1 = sx s2 /\ mfl s1 = mfl s2 /\
    lpwt s1 = lpwt s2 /\ agree_off j (lres s1) (lres s2) /\ agree_off j (ltw s1) (ltw s2) /\
    pen_after s1 = pen_after s2 /\ alpha_last s1 = alpha_last s2 /\ bro s1 = bro s2 /\
    Forall2 rowR (log s1) (log s2) /\ ncall s1 = ncall s2.

  Definition resR {A} (RA : A -> A -> Prop) (r1 r2 : res A) : Prop :=
    match r1, r2 with
    | Ok a1, Ok a2 => RA a1 a2
    | Err e1 s1, Err e2 s2 => e1 = e2 /\ stR s1 s2
    | Div, Div => True
    | _, _ => False
    end.

  Lemma resR_bind {A B} (RA : A -> A -> Prop) (RB : B -> B -> Prop) r1 r2 (k1 k2 : A -> res B) :
    resR RA r1 r2 -> (forall a1 a2, RA a1 a2 -> resR RB (k1 a1) (k2 a2)) -> resR RB (bind r1 k1) (bind r2 k2).
  Proof. destruct r1, r2; cbn; try tauto. auto. Qed.

  Lemma resR_weaken {A} (RA RB : A -> A -> Prop) r1 r2 :
    resR RA r1 r2 -> (forall a b, RA a b -> RB a b) -> resR RB r1 r2.
  Proof. destruct r1, r2; cbn; auto. Qed.

  Definition off (act : list bool) : Prop := nth j act false = false.

  (* ---- masked quantities do not see component j ------------------------------------------- *)
  Lemma transformed_agree : forall ts (jj : nat) (a b : list F),
    agree_off jj a b -> agree_off jj (transformed E ts a) (transformed E ts b).
  Proof.
    intros ts jj a; revert ts jj; induction a as [|x a IH]; intros ts jj [|y b]; cbn [agree_off transformed]; try tauto.
    destruct jj as [|jj].
    - intros ->. reflexivity.
    - intros [-> H]. split; auto.
  Qed.

  (* a' b': the transformed values (residual); a b: the raw values (logarithm of optimize_log targets) *)
  Lemma masked_eq : forall (jj : nat) (a' b' a b tv : list F) (act lg : list bool),
    agree_off jj a' b' -> agree_off jj a b -> nth jj act false = false ->
    res_pen E (map2 (e_sub E) a' tv) act lg a tv = res_pen E (map2 (e_sub E) b' tv) act lg b tv.
  Proof.
    intros jj a'; revert jj; induction a' as [|x' a' IH]; intros jj [|y' b'] a b tv act lg; cbn [agree_off]; try tauto.
    destruct tv as [|t tv]; [reflexivity|]. destruct act as [|c act]; [reflexivity|]. cbn [map2 res_pen].
    destruct a as [|x a], b as [|y b]; cbn [agree_off hd tl]; try tauto.
    - destruct jj as [|jj]; cbn [nth].
      + intros -> _ ->. reflexivity.
      + intros [-> H] _ Hc. f_equal. apply (IH jj); cbn; auto.
    - destruct jj as [|jj]; cbn [nth].
      + intros -> -> ->. reflexivity.
      + intros [-> H] [-> H'] Hc. f_equal. apply (IH jj); auto.
  Qed.

  Lemma log_bad_eq : forall (jj : nat) (a b tv : list F) (act lg : list bool),
    agree_off jj a b -> nth jj act false = false ->
    log_bad E act lg a tv = log_bad E act lg b tv.
  Proof.
    intros jj a; revert jj; induction a as [|x a IH]; intros jj [|y b] tv act lg; cbn [agree_off]; try tauto.
    destruct act as [|c act]; [reflexivity|]. destruct tv as [|t tv]; [reflexivity|]. cbn [log_bad].
    destruct jj as [|jj]; cbn [nth].
    - intros -> ->. reflexivity.
    - intros [-> H] Hc. f_equal. apply (IH jj); auto.
  Qed.

  Lemma allok_eq : forall (jj : nat) (a b tv tl : list F) (act : list bool),
    agree_off jj a b -> nth jj act false = false ->
    map2 (fun (wi a0 : bool) => wi || negb a0)
         (map2 (fun e t => e_ltb E (e_abs E e) t) (map2 (e_sub E) a tv) tl) act =
    map2 (fun (wi a0 : bool) => wi || negb a0)
         (map2 (fun e t => e_ltb E (e_abs E e) t) (map2 (e_sub E) b tv) tl) act.
  Proof.
    intros jj a; revert jj; induction a as [|x a IH]; intros jj [|y b] tv tl act; cbn; try tauto.
    destruct tv as [|t tv]; [reflexivity|]. destruct tl as [|l tl]; [reflexivity|].
    destruct act as [|c act]; [reflexivity|]. cbn.
    destruct jj as [|jj]; cbn.
    - intros -> ->. cbn. rewrite !orb_true_r. reflexivity.
    - intros [-> H] Hc. f_equal. apply (IH jj); auto.
  Qed.

  Lemma within_agree : forall (jj : nat) (a b tv tl : list F),
    agree_off jj a b ->
    agree_off jj (map2 (fun e t => e_ltb E (e_abs E e) t) (map2 (e_sub E) a tv) tl)
                 (map2 (fun e t => e_ltb E (e_abs E e) t) (map2 (e_sub E) b tv) tl).
  Proof.
    intros jj a; revert jj; induction a as [|x a IH]; intros jj [|y b] tv tl; cbn; try tauto.
    destruct tv as [|t tv]; [cbn; auto|]. destruct tl as [|l tl]; [cbn; auto|]. cbn.
    destruct jj as [|jj]; cbn.
    - intros ->. reflexivity.
    - intros [-> H]. split; auto.
  Qed.

  (* ---- the merit call ------------------------------------------------------------------------ *)
  Lemma merit_R x chk s1 s2 : stR s1 s2 -> off (ta s1) ->
    resR (fun p q => fst p = fst q /\ stR (snd p) (snd q)) (merit_call E1 cf x chk s1) (merit_call E2 cf x chk s2).
  Proof.
    intros (K & V & T & X & M & P & L & W & Pa & Al & B & Lg & Nc) Hoff.
    unfold merit_call. cbn [e_f with_f]. change (eF E1) with (eF E). change (eF E2) with (eF E).
    rewrite <- K, <- V, <- T.
    change (write_knobs E2 chk (va s1) (c_lim cf) (x_to_knobs E2 cf x) (knobs s1))
      with (write_knobs E1 chk (va s1) (c_lim cf) (x_to_knobs E1 cf x) (knobs s1)).
    destruct (write_knobs E1 chk (va s1) (c_lim cf) (x_to_knobs E1 cf x) (knobs s1)) as [k' e].
    destruct e.
    - cbn. split; auto. unfold stR; stsimpl. repeat split; auto.
    - pose proof (fR k') as Hf. destruct (f1 k') as [r1|], (f2 k') as [r2|]; try tauto.
      + change (log_bad E2) with (log_bad E). change (log_bad E1) with (log_bad E).
        rewrite (log_bad_eq j r1 r2 (c_tval cf) (ta s1) (c_tlog cf) Hf Hoff).
        pose proof (transformed_agree (c_ttrans cf) j r1 r2 Hf) as Hft.
        assert (Hwi : all_ok (within E1 cf r1) (ta s1) = all_ok (within E2 cf r2) (ta s1)).
        { unfold all_ok, within, residual. change (transformed E1) with (transformed E). change (transformed E2) with (transformed E).
          cbn [e_sub e_ltb e_abs with_f]. f_equal. apply (allok_eq j); auto. }
        assert (Hwa : agree_off j (within E1 cf r1) (within E2 cf r2)).
        { unfold within, residual. change (transformed E1) with (transformed E). change (transformed E2) with (transformed E).
          cbn [e_sub e_ltb e_abs with_f]. apply within_agree; auto. }
        destruct (log_bad E (ta s1) (c_tlog cf) r2 (c_tval cf)).
        { cbn. split; auto. unfold stR; stsimpl. repeat split; auto. }
        cbn. split.
        * unfold merit_out, residual. change (res_pen E2) with (res_pen E). change (res_pen E1) with (res_pen E).
          change (transformed E1) with (transformed E). change (transformed E2) with (transformed E).
          cbn [e_sub e_zero e_mul with_f]. f_equal. apply (masked_eq j); auto.
        * unfold stR; stsimpl. repeat split; auto.
      + cbn. split; auto. unfold stR; stsimpl. repeat split; auto.
  Qed.

  (* related states, the first one with the target flags of [s0] *)
  Definition stR' (s0 s1 s2 : state) : Prop := stR s1 s2 /\ ta s1 = ta s0.

  Lemma merit_R' x chk s1 s2 : stR s1 s2 -> off (ta s1) ->
    resR (fun p q => fst p = fst q /\ stR' s1 (snd p) (snd q)) (merit_call E1 cf x chk s1) (merit_call E2 cf x chk s2).
  Proof.
    intros H Hoff. pose proof (merit_R x chk s1 s2 H Hoff) as R. pose proof (merit_spec E1 cf x chk s1) as P.
    destruct (merit_call E1 cf x chk s1) as [[y1 t1]|e1 t1|], (merit_call E2 cf x chk s2) as [[y2 t2]|e2 t2|];
      cbn in *; try tauto.
    destruct R as [A B]. split; auto. split; auto. destruct P as ((_ & T & _) & _). exact T.
  Qed.

  Lemma eval_R x s1 s2 : stR s1 s2 -> off (ta s1) ->
    resR (fun p q => fst (fst p) = fst (fst q) /\ snd (fst p) = snd (fst q) /\ stR' s1 (snd p) (snd q))
         (solver_eval E1 cf x s1) (solver_eval E2 cf x s2).
  Proof.
    intros H Hoff. unfold solver_eval. eapply resR_bind; [apply merit_R'; auto|].
    intros [y1 t1] [y2 t2] [A B]. cbn in *. subst y2. auto.
  Qed.

  Lemma jac_cols_R : forall act pre steps suf f0 s1 s2, stR s1 s2 -> off (ta s1) ->
    resR (fun p q => fst p = fst q /\ stR' s1 (snd p) (snd q))
         (jac_cols E1 cf pre act steps suf f0 s1) (jac_cols E2 cf pre act steps suf f0 s2).
  Proof.
    induction act as [|a act IH]; intros pre steps suf f0 s1 s2 H Hoff; cbn [jac_cols].
    - cbn. split; auto. split; auto.
    - destruct steps as [|h steps]; [cbn; split; auto; split; auto|].
      destruct suf as [|xi suf]; [cbn; split; auto; split; auto|].
      destruct a.
      + eapply resR_bind; [apply merit_R'; auto|].
        intros [y1 t1] [y2 t2] (A & B & T). cbn [fst snd] in *. subst y2.
        eapply resR_bind; [apply IH; [exact B|rewrite T; exact Hoff]|].
        intros [c1 u1] [c2 u2] (C & D & T'). cbn [fst snd] in *. subst c2. cbn. split; auto. split; auto. congruence.
      + eapply resR_bind; [apply IH; auto|].
        intros [c1 u1] [c2 u2] (C & D & T'). cbn [fst snd] in *. subst c2. cbn. split; auto. split; auto.
  Qed.

  Lemma bisect_R : forall fuel an prev x xstep pn s0 s1 s2, stR s1 s2 -> ta s1 = ta s0 -> off (ta s0) ->
    resR (fun p q => fst p = fst q /\ stR' s0 (snd p) (snd q))
         (bisect E1 cf fuel an prev x xstep pn s1) (bisect E2 cf fuel an prev x xstep pn s2).
  Proof.
    induction fuel as [|fuel IH]; intros an prev x xstep pn s0 s1 s2 H T0 Hoff; cbn [bisect]; [cbn; auto|].
    change (e_ltb E2) with (e_ltb E1). change (e_mul E2) with (e_mul E1). change (e_ten E2) with (e_ten E1).
    change (eF E2) with (eF E). change (eF E1) with (eF E).
    match goal with |- resR _ (match ?c with Some _ => _ | None => _ end) _ => destruct c as [[[np t] h]|] end.
    - cbn. split; auto. split; auto.
    - change (lim_loop E2) with (lim_loop E1). change (pow2neg E2) with (pow2neg E1).
      change (x_limits E2 cf) with (x_limits E1 cf). change (e_sub E2) with (e_sub E1).
      change (eF E2) with (eF E). change (eF E1) with (eF E).
      match goal with |- context [lim_loop E1 x ?m ?l] => destruct (lim_loop E1 x m l) as [this' hit] end.
      eapply resR_bind; [apply eval_R; [exact H|rewrite T0; exact Hoff]|].
      intros [[y1 p1] t1] [[y2 p2] t2] (A & B & C & T). cbn [fst snd] in *. subst y2 p2.
      destruct (e_ltb E1 p1 pn).
      + cbn. split; auto. split; auto. congruence.
      + apply IH; auto. congruence.
  Qed.

  Ltac normE := change (eF E2) with (eF E) in *; change (eF E1) with (eF E) in *.
  Ltac stR_solve :=
    unfold stR', stR in *; stsimpl;
    repeat match goal with H : _ /\ _ |- _ => destruct H end;
    repeat split; auto; try congruence.

  Lemma jac_step_R fuel b s1 s2 : stR s1 s2 -> off (ta s1) ->
    resR (stR' s1) (jac_step E1 cf fuel b s1) (jac_step E2 cf fuel b s2).
  Proof.
    intros H Hoff. unfold jac_step. normE.
    assert (Hx : sx s2 = sx s1) by (destruct H as (_ & _ & _ & X & _); auto). rewrite Hx.
    destruct (sx s1) as [x|]; [|cbn; split; auto].
    eapply resR_bind; [apply eval_R; auto|].
    intros [[y1 p1] t1] [[y2 p2] t2] (A & B & C & T). cbn [fst snd] in *. subst y2 p2.
    change (e_ltb E2) with (e_ltb E1). change (e_tolj E2) with (e_tolj E1).
    assert (C1 : stR' s1 (set_pen t1 p1) (set_pen t2 p1)) by stR_solve.
    destruct (e_ltb E1 p1 (e_tolj E1)); [cbn; exact C1|].
    cbn [lpwt set_pen].
    assert (Hl : lpwt t2 = lpwt t1) by (destruct C as (_ & _ & _ & _ & _ & L & _); auto). rewrite Hl.
    destruct (lpwt t1); [cbn; exact C1|].
    assert (Hb : bro (set_pen t2 p1) = bro (set_pen t1 p1)).
    { cbn. destruct C as (_ & _ & _ & _ & _ & _ & _ & _ & _ & _ & Bq & _); auto. }
    rewrite Hb. change (e_broyden E2) with (e_broyden E1).
    eapply resR_bind with (RA := fun p q => fst p = fst q /\ stR' s1 (snd p) (snd q)).
    { destruct (if b then bro (set_pen t1 p1) else None) as [[[lj lx] ly]|].
      - cbn. split; auto.
      - unfold get_jacobian. change (knobs_to_x E2 cf) with (knobs_to_x E1 cf). normE. cbn [va set_pen].
        assert (Hv : va t2 = va t1) by (destruct C as (_ & V & _); auto).
        rewrite Hv.
        assert (Ho : off (ta (set_pen t1 p1))) by (cbn; rewrite T; auto).
        pose proof (jac_cols_R (va t1) [] (knobs_to_x E1 cf (c_step cf)) x y1
                      (set_pen t1 p1) (set_pen t2 p1) (proj1 C1) Ho) as R.
        eapply resR_weaken; [exact R|].
        intros [c1 u1] [c2 u2] (R1 & R2 & R3). cbn [fst snd] in *. split; auto. split; auto.
        cbn in R3. congruence. }
    intros [jac u1] [jac' u2] (J0 & J1 & J2). cbn [fst snd] in *. subst jac'.
    set (w1 := set_bro u1 (Some (jac, x, y1))). set (w2 := set_bro u2 (Some (jac, x, y1))).
    assert (W : stR' s1 w1 w2) by (unfold w1, w2; stR_solve).
    assert (Wv : va w2 = va w1 /\ mfl w2 = mfl w1 /\ ta w2 = ta w1).
    { destruct W as ((_ & V & T' & _ & M & _) & _). auto. }
    destruct Wv as (Wv & Wm & Wt). rewrite Wv, Wm, Wt.
    destruct (negb (existsb (fun b0 : bool => b0) (va w1))); [cbn; split; auto; exact (proj1 W)|].
    change (e_newton E2) with (e_newton E1).
    match goal with |- resR _ (match ?m with Some _ => _ | None => _ end) _ => destruct m as [nstep|] end;
      [|cbn; split; auto; exact (proj1 W)].
    change (clip_to_max_steps E2 cf) with (clip_to_max_steps E1 cf). change (scatter E2) with (scatter E1).
    set (xstep := clip_to_max_steps E1 cf (scatter E1 (map2 andb (va w1) (mfl w1)) nstep)).
    assert (W3 : stR (set_mfl w1 (map (fun _ => true) (mfl w1))) (set_mfl w2 (map (fun _ => true) (mfl w1)))).
    { unfold w1, w2 in *. stR_solve. }
    eapply resR_bind; [apply (bisect_R fuel 0 None x xstep p1 s1 _ _ W3)|].
    { cbn. destruct W as (_ & T'). exact T'. }
    { exact Hoff. }
    intros [[[[al np] th] hi] v1] [[[[al' np'] th'] hi'] v2] (Q0 & Q1 & Q2). cbn [fst snd] in *.
    inversion Q0; subst al' np' th' hi'.
    change (e_mul E2) with (e_mul E1). change (e_hundred E2) with (e_hundred E1). change (e_sub E2) with (e_sub E1).
    destruct (e_ltb E1 (e_mul E1 p1 (e_hundred E1)) np).
    - eapply resR_bind; [apply eval_R; [exact Q1|rewrite Q2; exact Hoff]|].
      intros [[y5 p5] z1] [[y5' p5'] z2] (_ & _ & Z & _). cbn. split; auto.
    - cbn. stR_solve.
  Qed.

  (* ---- outer transitions -------------------------------------------------------------------- *)
  Definition rows_off (s : state) : Prop := Forall (fun r => off (r_ta r)) (log s).
  Definition offS (s : state) : Prop := off (ta s) /\ rows_off s.
  Definition stRo (t1 t2 : state) : Prop := stR t1 t2 /\ offS t1.

  Lemma add_point_R tg s1 s2 : stR s1 s2 -> offS s1 ->
    resR stRo (add_point E1 cf tg s1) (add_point E2 cf tg s2).
  Proof.
    intros H [Hoff Hrows]. unfold add_point. change (knobs_to_x E2 cf) with (knobs_to_x E1 cf). normE.
    assert (Hk : knobs s2 = knobs s1) by (destruct H as (K & _); auto). rewrite Hk.
    pose proof (eval_R (knobs_to_x E1 cf (knobs s1)) s1 s2 H Hoff) as R.
    pose proof (eval_spec E1 cf (knobs_to_x E1 cf (knobs s1)) s1) as P.
    destruct (solver_eval E1 cf (knobs_to_x E1 cf (knobs s1)) s1) as [[[y1 p1] t1]|e1 t1|],
             (solver_eval E2 cf (knobs_to_x E1 cf (knobs s1)) s2) as [[[y2 p2] t2]|e2 t2|]; cbn in R, P; try tauto.
    - destruct R as (A & B & C & T). subst y2 p2. destruct P as ((_ & _ & L & _) & _). normE.
      cbn. split.
      + unfold stR in *; stsimpl. repeat match goal with H : _ /\ _ |- _ => destruct H end.
        repeat split; auto. apply Forall2_app; auto. constructor; auto.
        unfold rowR; cbn. repeat split; auto; congruence.
      + split; stsimpl; [congruence|]. unfold rows_off; stsimpl. rewrite L. apply Forall_app; split; auto.
        constructor; auto. cbn. congruence.
    - cbn. exact R.
  Qed.

  Lemma rows_nth (l1 l2 : list row) i : Forall2 rowR l1 l2 ->
    match nth_error l1 i, nth_error l2 i with
    | Some r1, Some r2 => rowR r1 r2
    | None, None => True
    | _, _ => False
    end.
  Proof.
    intros H. revert i. induction H as [|r1 r2 l1 l2 Hr H IH]; intros [|i]; cbn; auto. apply IH.
  Qed.

  Lemma reload_R i s1 s2 : stR s1 s2 -> offS s1 ->
    resR stRo (reload E1 cf i s1) (reload E2 cf i s2).
  Proof.
    intros H Ho. unfold reload. normE.
    pose proof (rows_nth (log s1) (log s2) i ltac:(destruct H as (_&_&_&_&_&_&_&_&_&_&_&L&_); exact L)) as Hn.
    destruct (nth_error (log s1) i) as [r1|] eqn:N1, (nth_error (log s2) i) as [r2|]; try tauto.
    - destruct Hn as (R1 & R2 & R3 & _).
      assert (Hin : off (r_ta r1)).
      { destruct Ho as [_ Hr]. eapply (proj1 (Forall_forall _ _) Hr). eapply nth_error_In; eauto. }
      eapply resR_weaken; [apply add_point_R| auto].
      + rewrite <- R1, <- R2, <- R3. stR_solve.
      + split; stsimpl; auto. destruct Ho; auto.
    - cbn. split; auto.
  Qed.

  Lemma skx_R xs u1 u2 : stR u1 u2 -> stR (set_knobs_from_x E1 cf xs u1) (set_knobs_from_x E1 cf xs u2).
  Proof.
    intros (K & V & R). unfold set_knobs_from_x. normE. rewrite <- K, <- V. unfold stR; stsimpl.
    repeat match goal with H : _ /\ _ |- _ => destruct H end. repeat split; auto.
  Qed.

  Definition skx (Ex : env) (c : cfg (eF Ex)) (u : Opt.state (eF Ex)) : Opt.state (eF Ex) :=
    match sx u with Some xs => set_knobs_from_x Ex c xs u | None => u end.
  Definition addrow (s2 : state) : state :=
    set_log s2 (log s2 ++ [mkRow (knobs s2) (va s2) (ta s2) (pen_after s2) (lres s2) (ltw s2)
                                 (map negb (mfl s2)) (alpha_last s2) 0%N]).
  Lemma log_step_eq1 u : log_step E1 cf u = addrow (skx E1 cf u).
  Proof. reflexivity. Qed.
  Lemma log_step_eq2 u : log_step E2 cf u = addrow (skx E2 cf u).
  Proof. reflexivity. Qed.

  Lemma skx_R' u1 u2 : stR u1 u2 ->
    stR (skx E1 cf u1) (skx E2 cf u2) /\ ta (skx E1 cf u1) = ta u1 /\ log (skx E1 cf u1) = log u1.
  Proof.
    intros U. unfold skx. normE. change (set_knobs_from_x E2 cf) with (set_knobs_from_x E1 cf).
    assert (Hxu : sx u2 = sx u1) by (destruct U as (_ & _ & _ & X & _); auto). rewrite Hxu.
    destruct (sx u1); [|auto]. split; [apply skx_R; auto|split; reflexivity].
  Qed.

  Lemma addrow_R v1 v2 : stR v1 v2 -> stR (addrow v1) (addrow v2).
  Proof.
    intros V. unfold addrow. unfold stR in V |- *; stsimpl. repeat match goal with H : _ /\ _ |- _ => destruct H end.
    repeat split; auto. apply Forall2_app; auto. constructor; auto.
    unfold rowR; cbn [r_knobs r_va r_ta r_pen r_targets r_tolmet r_hit r_alpha r_tag].
    repeat split; auto; try congruence; f_equal; auto.
  Qed.

  Lemma log_step_R u1 u2 : stR u1 u2 ->
    stR (log_step E1 cf u1) (log_step E2 cf u2) /\ ta (log_step E1 cf u1) = ta u1 /\
    exists r, log (log_step E1 cf u1) = log u1 ++ [r] /\ r_ta r = ta u1.
  Proof.
    intros U. rewrite log_step_eq1, log_step_eq2. destruct (skx_R' u1 u2 U) as (V & Tv & Lv).
    split; [apply addrow_R; exact V|]. split; [exact Tv|].
    exists (mkRow (knobs (skx E1 cf u1)) (va (skx E1 cf u1)) (ta (skx E1 cf u1)) (pen_after (skx E1 cf u1))
                  (lres (skx E1 cf u1)) (ltw (skx E1 cf u1)) (map negb (mfl (skx E1 cf u1)))
                  (alpha_last (skx E1 cf u1)) 0%N).
    split; [|exact Tv]. rewrite <- Lv. reflexivity.
  Qed.

  Lemma step_loop_R fuel b : forall nn i s1 s2, stR s1 s2 -> offS s1 ->
    resR stRo (step_loop E1 cf fuel nn i b s1) (step_loop E2 cf fuel nn i b s2).
  Proof.
    induction nn as [|nn IH]; intros i s1 s2 H Ho; cbn [step_loop]; [cbn; split; auto|].
    change (knobs_to_x E2 cf) with (knobs_to_x E1 cf). change (allclose_masked E2) with (allclose_masked E1). normE.
    assert (Hf : knobs s2 = knobs s1 /\ sx s2 = sx s1 /\ va s2 = va s1).
    { destruct H as (K & V & _ & X & _). auto. }
    destruct Hf as (Hk & Hx & Hv). rewrite Hk, Hx, Hv.
    set (x := knobs_to_x E1 cf (knobs s1)).
    match goal with |- resR _ (match jac_step E1 cf fuel _ ?a with Ok _ => _ | Err _ _ => _ | Div => _ end)
                              (match jac_step E2 cf fuel _ ?c with Ok _ => _ | Err _ _ => _ | Div => _ end) =>
      set (a0 := a); set (c0 := c) end.
    assert (H0 : stR a0 c0 /\ offS a0).
    { unfold a0, c0. destruct Ho as [O1 O2]. destruct (sx s1) as [x'|]; [destruct (allclose_masked E1 (va s1) x x')|];
        (split; [stR_solve|split; stsimpl; auto]). }
    destruct H0 as [H0 O0].
    pose proof (jac_step_spec E1 cf fuel (this_broyden b i) a0) as P.
    pose proof (jac_step_R fuel (this_broyden b i) a0 c0 H0 (proj1 O0)) as R.
    destruct (jac_step E1 cf fuel (this_broyden b i) a0) as [u1|e1 u1|],
             (jac_step E2 cf fuel (this_broyden b i) c0) as [u2|e2 u2|]; cbn in R, P; try tauto.
    2:{ destruct R as [-> R]. cbn. split; auto.
        change (restore_x E1 cf u1) with (skx E1 cf u1). change (restore_x E2 cf u2) with (skx E2 cf u2).
        exact (proj1 (skx_R' u1 u2 R)). }
    normE. destruct R as (U & Tu). destruct P as ((_ & _ & Lu & _) & _).
    destruct (log_step_R u1 u2 U) as (W & Tw & (r & Lw & Rr)).
    assert (Ow : offS (log_step E1 cf u1)).
    { destruct O0 as [Oa Or]. normE. unfold off in *. split; [rewrite Tw, Tu; exact Oa|]. unfold rows_off in *. rewrite Lw, Lu.
      apply Forall_app; split; auto. constructor; auto. rewrite Rr, Tu; exact Oa. }
    cbv zeta.
    assert (Hl : lpwt (log_step E2 cf u2) = lpwt (log_step E1 cf u1)).
    { destruct W as (_ & _ & _ & _ & _ & L & _); auto. }
    normE. rewrite Hl.
    match goal with |- resR _ (if ?c then _ else _) _ => destruct c end; [cbn; split; auto|]. apply IH; auto.
  Qed.

  Lemma rows_len (l1 l2 : list row) : Forall2 rowR l1 l2 -> length l1 = length l2.
  Proof. intros H; induction H; cbn; auto. Qed.

  Lemma rows_pen (l1 l2 : list row) k : Forall2 rowR l1 l2 ->
    map r_pen (skipn k l1) = map r_pen (skipn k l2).
  Proof.
    intros H. revert k. induction H as [|r1 r2 l1 l2 Hr H IH]; intros [|k]; cbn; auto.
    - f_equal; [destruct Hr as (_ & _ & _ & P & _); exact P|]. apply (IH 0).
  Qed.

  Lemma set_last_R (l1 l2 : list row) :
    Forall2 rowR l1 l2 -> Forall2 rowR (set_last (retag E1) l1) (set_last (retag E1) l2).
  Proof.
    intros H. induction H as [|r1 r2 l1 l2 Hr H IH]; cbn; auto.
    destruct H as [|r1' r2' l1' l2' Hr' H'].
    - constructor; auto. unfold rowR, retag in *; cbn. tauto.
    - constructor; auto.
  Qed.

  Lemma set_last_off (l : list row) :
    Forall (fun r => off (r_ta r)) l -> Forall (fun r => off (r_ta r)) (set_last (retag E1) l).
  Proof.
    intros H. induction H as [|r l Hr H IH]; cbn; auto. destruct l; [constructor; auto|constructor; auto].
  Qed.

  Lemma step_core_R fuel nn tb b s1 s2 : stR s1 s2 -> offS s1 ->
    resR stRo (step_core E1 cf fuel nn tb b s1) (step_core E2 cf fuel nn tb b s2).
  Proof.
    intros H Ho. unfold step_core.
    eapply resR_bind; [apply add_point_R; auto|].
    intros t1 t2 [T Ot].
    assert (Hlen : length (log t2) = length (log t1)).
    { destruct T as (_&_&_&_&_&_&_&_&_&_&_&L&_). symmetry. apply rows_len; auto. }
    normE. rewrite Hlen.
    eapply resR_bind; [apply step_loop_R; auto|].
    intros u1 u2 [U Ou].
    assert (Hl : lpwt u2 = lpwt u1) by (destruct U as (_ & _ & _ & _ & _ & L & _); auto).
    normE. rewrite Hl. destruct (tb && negb (lpwt u1)); [|cbn; split; auto].
    assert (Hp : map r_pen (skipn (pred (length (log t1))) (log u2)) = map r_pen (skipn (pred (length (log t1))) (log u1))).
    { symmetry. apply rows_pen. destruct U as (_&_&_&_&_&_&_&_&_&_&_&L&_). exact L. }
    change (argmin E2) with (argmin E1). rewrite Hp.
    match goal with |- resR _ (if ?c then _ else _) _ => destruct c end; [cbn; split; auto|].
    eapply resR_bind; [apply reload_R; auto|].
    intros v1 v2 [V Ov]. cbn.
    assert (HL : Forall2 rowR (log v1) (log v2)) by (destruct V as (_&_&_&_&_&_&_&_&_&_&_&L&_); exact L).
    split.
    - apply set_last_R in HL. unfold retag in HL. unfold stR in V |- *; stsimpl.
      repeat match goal with H : _ /\ _ |- _ => destruct H end. repeat split; auto.
    - destruct Ov as [O1 O2]. split; stsimpl; auto. unfold rows_off in *; stsimpl. apply (set_last_off _ O2).
  Qed.

  Lemma able_R st t v vn s1 s2 : stR s1 s2 -> stR (able E1 cf st t v vn s1) (able E2 cf st t v vn s2).
  Proof.
    intros H. unfold able. normE. change (set_flags E2) with (set_flags E1). unfold stR in H |- *; stsimpl.
    repeat match goal with H : _ /\ _ |- _ => destruct H end. repeat split; auto; congruence.
  Qed.
  Lemma pre_flags_R a s1 s2 : stR s1 s2 -> stR (pre_flags E1 cf a s1) (pre_flags E2 cf a s2).
  Proof. intros H. unfold pre_flags. repeat apply able_R. exact H. Qed.
  Lemma post_flags_R a s1 s2 : stR s1 s2 -> stR (post_flags E1 cf a s1) (post_flags E2 cf a s2).
  Proof. intros H. unfold post_flags. repeat apply able_R. exact H. Qed.

  Lemma pre_clip_R s1 s2 : stR s1 s2 -> stR (pre_clip E1 cf s1) (pre_clip E2 cf s2).
  Proof.
    intros H. unfold pre_clip. normE. change (clip_knobs E2) with (clip_knobs E1). destruct (c_check cf); auto.
    assert (Hq : knobs s2 = knobs s1 /\ va s2 = va s1) by (destruct H as (K & V & _); auto).
    destruct Hq as [-> ->]. stR_solve.
  Qed.

  (* related results, and in the first run every logged row has target j disabled *)
  Definition stRl (t1 t2 : state) : Prop := stR t1 t2 /\ rows_off t1.

  Lemma opt_step_R fuel nn tb a b s1 s2 :
    stR s1 s2 -> off (ta (pre_flags E1 cf a s1)) -> rows_off s1 ->
    resR stRl (opt_step E1 cf fuel nn tb a b s1) (opt_step E2 cf fuel nn tb a b s2).
  Proof.
    intros H Hoff Hrows. unfold opt_step.
    eapply resR_bind; [apply step_core_R; [apply pre_flags_R; apply pre_clip_R; exact H|]|].
    - destruct (pre_clip_facts E1 cf s1) as (Vc & Tc & Lc & _).
      destruct (pre_flags_flags E1 cf a _ _ Vc Tc) as [_ Pt].
      split; [unfold off in *; normE; rewrite Pt; exact Hoff|]. unfold rows_off in *.
      destruct (pre_flags_data E1 cf a (pre_clip E1 cf s1)) as (_ & L & _). normE.
      rewrite L, Lc. exact Hrows.
    - intros t1 t2 [T [_ Ot]]. unfold resR. split; [apply post_flags_R; exact T|].
      unfold rows_off in *. destruct (post_flags_data E1 cf a t1) as (_ & L & _). normE. rewrite L. exact Ot.
  Qed.

  Lemma resR_err_rows r1 r2 : resR stRo r1 r2 -> resR stRl r1 r2.
  Proof. intros H. eapply resR_weaken; [exact H|]. intros t1 t2 [A [_ B]]. split; auto. Qed.

  Lemma solve_R fuel nn tb b s1 s2 : stR s1 s2 -> offS s1 ->
    resR stRo (solve E1 cf fuel nn tb b s1) (solve E2 cf fuel nn tb b s2).
  Proof.
    intros H Ho. unfold solve. change (knobs_to_x E2 cf) with (knobs_to_x E1 cf). normE.
    assert (Hk : knobs s2 = knobs s1) by (destruct H as (K & _); auto). rewrite Hk.
    set (k := match nn with Some k => k | None => c_nmax cf end).
    set (x := knobs_to_x E1 cf (knobs s1)).
    assert (H0 : stR (set_sx s1 (Some x) (map (fun _ => true) x)) (set_sx s2 (Some x) (map (fun _ => true) x))) by stR_solve.
    assert (O0 : offS (set_sx s1 (Some x) (map (fun _ => true) x))) by (destruct Ho; split; auto).
    rewrite (opt_step_no_args E1), (opt_step_no_args E2).
    destruct (pre_clip_facts E1 cf (set_sx s1 (Some x) (map (fun _ => true) x))) as (_ & Tc & Lc & _).
    assert (O0c : offS (pre_clip E1 cf (set_sx s1 (Some x) (map (fun _ => true) x)))).
    { destruct O0 as [Oa Or]. unfold offS, rows_off, off in *. normE. rewrite Tc, Lc. auto. }
    pose proof (step_core_R fuel k tb b _ _ (pre_clip_R _ _ H0) O0c) as R.
    match goal with |- resR _ (match ?b1 with Ok _ => _ | Err _ _ => _ | Div => _ end)
                              (match ?b2 with Ok _ => _ | Err _ _ => _ | Div => _ end) =>
      set (B1 := b1); set (B2 := b2) end.
    assert (Rb : resR stRo B1 B2).
    { unfold B1, B2. eapply resR_bind; [exact R|]. intros t1 t2 [T Ot].
      assert (Hl : lpwt t2 = lpwt t1) by (destruct T as (_ & _ & _ & _ & _ & L & _); auto).
      normE. rewrite Hl. destruct (c_assert cf && negb (lpwt t1)); cbn; auto. split; auto. }
    assert (Pb : post B1 (fun _ => True) (fun e t1 => rows_off t1)).
    { assert (Hrows : forall t m, log t = log s1 ++ m ->
                Forall (good_new E1 cf (pre_clip E1 cf (set_sx s1 (Some x) (map (fun _ => true) x)))) m -> rows_off t).
      { intros t m L Fm. unfold rows_off. rewrite L. apply Forall_app; split; [exact (proj2 Ho)|].
        eapply Forall_impl; [|exact Fm]. intros r [_ (_ & Rt & _)]. unfold off. normE. rewrite Rt, Tc. exact (proj1 Ho). }
      unfold B1. eapply post_bind'; [apply (step_core_spec E1 cf fuel k tb b)| |].
      - intros e t (_ & (m & L & Fm)). normE. rewrite Lc in L. eapply Hrows; eauto.
      - intros t (_ & _ & _ & (r0 & M & extra & L & _ & Fm & _)). normE. rewrite Lc in L.
        destruct (c_assert cf && negb (lpwt t)); cbn; auto. eapply Hrows; eauto. }
    destruct B1 as [t1|e1 t1|], B2 as [t2|e2 t2|]; cbn in Rb, Pb; try tauto.
    destruct Rb as [-> T].
    destruct (c_restore cf); [|cbn; auto].
    assert (Ot : offS t1 \/ True) by auto.
    pose proof (rows_nth (log t1) (log t2) 0 ltac:(destruct T as (_&_&_&_&_&_&_&_&_&_&_&L&_); exact L)) as Hn.
    unfold reload. normE.
    destruct (nth_error (log t1) 0) as [r1|] eqn:N1, (nth_error (log t2) 0) as [r2|]; try tauto; [|cbn; auto].
    destruct Hn as (R1 & R2 & R3 & _).
    assert (Hin : off (r_ta r1)).
    { eapply (proj1 (Forall_forall _ _) Pb). eapply nth_error_In; eauto. }
    pose proof (add_point_R 0%N (set_ta (set_va (set_knobs t1 (r_knobs r1)) (r_va r1)) (r_ta r1))
                  (set_ta (set_va (set_knobs t2 (r_knobs r2)) (r_va r2)) (r_ta r2))) as Ra.
    assert (Ha1 : stR (set_ta (set_va (set_knobs t1 (r_knobs r1)) (r_va r1)) (r_ta r1))
                      (set_ta (set_va (set_knobs t2 (r_knobs r2)) (r_va r2)) (r_ta r2))).
    { rewrite <- R1, <- R2, <- R3. stR_solve. }
    assert (Ha2 : offS (set_ta (set_va (set_knobs t1 (r_knobs r1)) (r_va r1)) (r_ta r1))).
    { split; stsimpl; auto. }
    specialize (Ra Ha1 Ha2).
    match goal with |- resR _ (match ?a with Ok _ => _ | Err _ _ => _ | Div => _ end)
                              (match ?c with Ok _ => _ | Err _ _ => _ | Div => _ end) =>
      destruct a as [w1|ew1 w1|], c as [w2|ew2 w2|] end; cbn in Ra |- *; try tauto.
    destruct Ra as [Ra _]. auto.
  Qed.

  (* ---- every operation ---------------------------------------------------------------------- *)
  (* target j is disabled while the operation runs *)
  Definition quiet (o : op) (s : state) : Prop :=
    match o with
    | OStep _ _ a _ => off (ta (pre_flags E1 cf a s))
    | OEnable _ _ _ | ODisable _ _ _ => True
    | _ => off (ta s)
    end.

  Lemma run_op_R fuel o s1 s2 : stR s1 s2 -> rows_off s1 -> quiet o s1 ->
    resR stRl (run_op E1 cf fuel o s1) (run_op E2 cf fuel o s2).
  Proof.
    intros H Hr Hq. destruct o as [nn tb a b|nn tb b|i|t|t| |t v vn|t v vn]; cbn [run_op quiet] in *.
    - apply opt_step_R; auto.
    - apply resR_err_rows. apply solve_R; auto. split; auto.
    - apply resR_err_rows. apply reload_R; auto. split; auto.
    - apply resR_err_rows. unfold reload_tag. normE.
      assert (Ht : last_with_tag E2 t 0 (log s2) None = last_with_tag E1 t 0 (log s1) None).
      { destruct H as (_&_&_&_&_&_&_&_&_&_&_&L&_). generalize (@None nat). generalize 0.
        induction L as [|r1 r2 l1 l2 Hr' L IH]; intros k acc; cbn; auto.
        destruct Hr' as (_&_&_&_&_&_&_&_&Tg). normE. rewrite <- Tg. apply IH. }
      rewrite Ht. destruct (last_with_tag E1 t 0 (log s1) None); [apply reload_R; auto; split; auto|].
      cbn. split; auto.
    - apply resR_err_rows. apply add_point_R; auto. split; auto.
    - apply resR_err_rows. unfold clear_log. apply add_point_R; [stR_solve|].
      split; stsimpl; auto. unfold rows_off; stsimpl. constructor.
    - cbn. split; [apply able_R; auto|]. unfold rows_off in *. destruct (able_data E1 cf true t v vn s1) as (_ & L & _).
      normE. rewrite L. exact Hr.
    - cbn. split; [apply able_R; auto|]. unfold rows_off in *. destruct (able_data E1 cf false t v vn s1) as (_ & L & _).
      normE. rewrite L. exact Hr.
  Qed.
End Nonint.
