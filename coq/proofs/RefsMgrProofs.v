(* C04, in-place operators inside a manager: the expression an in-place
   operator starts from is the one registered under exactly that reference;
   definitions of relatives (members, owners, siblings) play no role. *)
From Coq Require Import List ZArith NArith Bool Lia.
From XD Require Import model.RefSyntax model.RefTables model.Refs model.RefsOk model.RefsMgr
  proofs.RefsBase proofs.RefsValue.
Import ListNotations.

(* ---- boolean equality of terms is equality --------------------------------------- *)

Section LitInd.
  Variable P : lit -> Prop.
  Hypothesis Hint : forall z, P (LInt z).
  Hypothesis Hbool : forall b, P (LBool b).
  Hypothesis Hfloat : forall t, P (LFloat t).
  Hypothesis Hstr : forall s, P (LStr s).
  Hypothesis Hnone : P LNone.
  Hypothesis Htup : forall l, Forall P l -> P (LTup l).
  Fixpoint lit_ind' (v : lit) : P v :=
    match v with
    | LInt z => Hint z | LBool b => Hbool b | LFloat t => Hfloat t | LStr s => Hstr s | LNone => Hnone
    | LTup l => Htup l ((fix go (l : list lit) : Forall P l :=
                           match l with [] => Forall_nil _ | x :: r => Forall_cons _ (lit_ind' x) (go r) end) l)
    end.
End LitInd.

Lemma lit_eqb_eq : forall a b, lit_eqb a b = true -> a = b.
Proof.
  induction a using lit_ind'; intros [] Hb; cbn in Hb; try discriminate.
  - apply Z.eqb_eq in Hb. now subst.
  - apply eqb_prop in Hb. now subst.
  - apply N.eqb_eq in Hb. now subst.
  - apply pystr_eqb_eq in Hb. now subst.
  - reflexivity.
  - f_equal. revert l0 Hb. induction H as [|x l Hx _ IH]; intros [|y m] Hb; try discriminate; auto.
    apply andb_prop in Hb as [H1 H2]. f_equal; auto.
Qed.

Lemma lit_eqb_refl : forall a, lit_eqb a a = true.
Proof.
  induction a using lit_ind'; cbn; auto using Z.eqb_refl, eqb_reflx, N.eqb_refl, pystr_eqb_refl.
  induction H as [|x l Hx _ IH]; auto. now rewrite Hx, IH.
Qed.

Lemma term_list_eqb_eq (l : list term) :
  Forall (fun a => forall b, term_eqb a b = true -> a = b) l ->
  forall m,
    (fix go (l m : list term) : bool :=
       match l, m with
       | [], [] => true
       | p :: l', q :: m' => term_eqb p q && go l' m'
       | _, _ => false
       end) l m = true -> l = m.
Proof.
  induction 1 as [|x l Hx _ IH]; intros [|y m] Hb; try discriminate; auto.
  apply andb_prop in Hb as [H1 H2]. f_equal; auto.
Qed.

Lemma term_eqb_eq : forall a b, term_eqb a b = true -> a = b.
Proof.
  induction a using term_ind'; intros [] Hb; cbn [term_eqb] in Hb; try discriminate.
  - apply lit_eqb_eq in Hb. now subst.
  - apply andb_prop in Hb as [H1 H2]. apply pystr_eqb_eq in H1. apply eqb_prop in H2. now subst.
  - apply andb_prop in Hb as [H1 H2]. f_equal; auto.
  - apply andb_prop in Hb as [H1 H2]. f_equal; auto.
  - apply andb_prop in Hb as [Hb H3]. apply andb_prop in Hb as [H1 H2]. apply N.eqb_eq in H1. subst. f_equal; auto.
  - apply andb_prop in Hb as [H1 H2]. apply N.eqb_eq in H1. subst. f_equal; auto.
  - apply lit_eqb_eq in Hb. now subst.
  - apply andb_prop in Hb as [Hb H3]. apply andb_prop in Hb as [H1 H2]. apply N.eqb_eq in H1. subst.
    f_equal; auto. now apply term_list_eqb_eq.
  - apply andb_prop in Hb as [Hb H3]. apply andb_prop in Hb as [H1 H2].
    f_equal; auto; [now apply term_list_eqb_eq|].
    clear H1 H2 H. revert kwargs H3. induction H0 as [|x l Hx _ IH]; intros [|y m] Hb; try discriminate; auto.
    apply andb_prop in Hb as [Hb H3]. apply andb_prop in Hb as [H1 H2]. apply pystr_eqb_eq in H1.
    f_equal; auto. destruct x, y; cbn in *. f_equal; auto.
Qed.

Lemma term_eqb_refl : forall a, term_eqb a a = true.
Proof.
  induction a using term_ind'; cbn [term_eqb];
    rewrite ?lit_eqb_refl, ?pystr_eqb_refl, ?eqb_reflx, ?N.eqb_refl, ?IHa, ?IHa1, ?IHa2; auto; cbn.
  - induction H as [|x l Hx _ IH]; auto. now rewrite Hx, IH.
  - assert ((fix go (l m : list term) : bool :=
               match l, m with
               | [], [] => true
               | p :: l', q :: m' => term_eqb p q && go l' m'
               | _, _ => false
               end) args args = true) as ->.
    { clear H0. induction H as [|x l Hx _ IH]; auto. now rewrite Hx, IH. }
    cbn. induction H0 as [|x l Hx _ IH]; auto. now rewrite pystr_eqb_refl, Hx, IH.
Qed.

(* ---- _expr: the task registered under exactly this reference ---------------------- *)
Lemma expr_of_own m r e : expr_of m r = Some e -> In (r, e) m.
Proof.
  unfold expr_of. destruct (find _ m) as [[t e']|] eqn:F; [|discriminate]. cbn. intros [= <-].
  apply find_some in F as [Hin Heq]. cbn in Heq. apply term_eqb_eq in Heq. now subst.
Qed.

Lemma expr_of_none m r : (forall e, ~ In (r, e) m) -> expr_of m r = None.
Proof.
  intros H. destruct (expr_of m r) as [e|] eqn:E; auto. exfalso. exact (H e (expr_of_own _ _ _ E)).
Qed.

Lemma expr_of_defined m r e : In (r, e) m -> exists e', expr_of m r = Some e'.
Proof.
  intros Hin. unfold expr_of. destruct (find _ m) as [p|] eqn:F; [eexists; reflexivity|].
  exfalso. apply (find_none _ _ F) in Hin. cbn in Hin. now rewrite term_eqb_refl in Hin.
Qed.

(* definitions registered under OTHER references -- members, owners, siblings,
   anything -- do not change what _expr returns *)
Lemma find_skip {A} (f : A -> bool) l m : (forall x, In x l -> f x = false) -> find f (l ++ m) = find f m.
Proof. induction l as [|x l IH]; intros H; cbn; auto. rewrite (H x) by (cbn; auto). apply IH. intros; apply H; cbn; auto. Qed.

Lemma find_skip_r {A} (f : A -> bool) l m : (forall x, In x m -> f x = false) -> find f (l ++ m) = find f l.
Proof.
  induction l as [|x l IH]; intros H; cbn.
  - destruct (find f m) eqn:F; auto. apply find_some in F as [Hin Hf]. rewrite (H _ Hin) in Hf. discriminate.
  - destruct (f x); auto.
Qed.

Lemma not_registered_under (relatives : tasklist) r :
  (forall p, In p relatives -> fst p <> r) -> forall x, In x relatives -> term_eqb (fst x) r = false.
Proof.
  intros H x Hin. destruct (term_eqb (fst x) r) eqn:E; auto. apply term_eqb_eq in E. exfalso. exact (H x Hin E).
Qed.

Theorem expr_of_relatives m relatives r :
  (forall p, In p relatives -> fst p <> r) ->
  expr_of (relatives ++ m) r = expr_of m r /\ expr_of (m ++ relatives) r = expr_of m r.
Proof.
  intros H. unfold expr_of. split.
  - rewrite find_skip; auto. now apply not_registered_under.
  - rewrite find_skip_r; auto. now apply not_registered_under.
Qed.

Section InplaceAtProofs.
  Variables V E : Type.
  Variable of_lit : lit -> V.
  Variable pyop : binop -> V -> V -> res V E.
  Variable pyun : unop -> V -> res V E.
  Variable pybuiltin : bfun -> list V -> res V E.
  Variable pycall : V -> list V -> list (pystr * V) -> res V E.
  Variable getitem getattr : V -> V -> res V E.
  Variable nan : V.
  Variable is_zde : E -> bool.
  Variable broken : E.
  Variable T : tables.

  Notation inplace_at := (inplace_at V E of_lit pyop T).
  Notation value := (value V E of_lit pyop pyun pybuiltin pycall getitem getattr nan is_zde broken T).
  Notation assigned := (assigned V E of_lit pyop pyun pybuiltin pycall getitem getattr nan is_zde broken T).
  Notation nan_guard := (nan_guard V E nan is_zde).

  (* the result of  target op= other  is a function of the target's own
     definition (and of its value, the operand): two managers that agree on
     what is registered under the target give the same result *)
  Theorem inplace_at_own op m m' target oldv oldl other :
    expr_of m target = expr_of m' target ->
    inplace_at op m target oldv oldl other = inplace_at op m' target oldv oldl other.
  Proof. intros H. unfold RefsMgr.inplace_at. now rewrite H. Qed.

  Theorem inplace_at_relatives op m relatives target oldv oldl other :
    (forall p, In p relatives -> fst p <> target) ->
    inplace_at op (relatives ++ m) target oldv oldl other = inplace_at op m target oldv oldl other /\
    inplace_at op (m ++ relatives) target oldv oldl other = inplace_at op m target oldv oldl other.
  Proof.
    intros H. destruct (expr_of_relatives m relatives target H) as [H1 H2].
    split; apply inplace_at_own; auto.
  Qed.

  Hypothesis HT : tables_ok T = true.

  (* what it is: own expression op operand when the target has a definition ... *)
  Theorem inplace_at_defined op m target ex oldv oldl other en :
    In op inplace_ops -> expr_of m target = Some ex -> is_ref ex = true ->
    exists r, inplace_at op m target oldv oldl other = Some r /\
              assigned r en =
              rbind (value ex en) (fun ve => rbind (value other en) (fun vo => nan_guard op (pyop op ve vo))).
  Proof.
    intros Hin He Hr. unfold RefsMgr.inplace_at. rewrite He.
    destruct (inplace_correct V E of_lit pyop pyun pybuiltin pycall getitem getattr nan is_zde broken T HT
                op target (Some ex) LNone other en Hin) as (r & Hr1 & Hr2).
    - intros ? [= <-]. exact Hr.
    - exists r. split; auto.
  Qed.

  (* ... and the operator applied to its current VALUE and the plain operand otherwise *)
  Theorem inplace_at_plain op m target oldv oldl k :
    In op inplace_ops -> expr_of m target = None ->
    inplace_at op m target oldv oldl (TConst k) = Some (IVal (pyop op oldv (of_lit k))).
  Proof.
    intros Hin He. unfold RefsMgr.inplace_at, inplace_val. rewrite He.
    pose proof (ok_inplace T HT op Hin) as Hok. unfold inplace_ok in Hok.
    destruct (inplace_of T op) as [[e|]|]; try discriminate.
    do 3 (apply andb_prop in Hok as [Hok ?]).
    match goal with H1 : binop_beq (ie_val_op e) op = true |- _ => apply binop_beq_eq in H1; rewrite H1 end.
    match goal with H1 : ie_val_self_first e = true |- _ => rewrite H1 end.
    reflexivity.
  Qed.
End InplaceAtProofs.
