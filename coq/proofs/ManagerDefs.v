(* C20 (hash-seed half): the definitions held by the manager — hence the dumped
   text, which lists them in insertion order — do not depend on any iteration
   order of a Python set (dependencies/targets of a task, the start set, the
   dependencies of the assigned reference), over any history of assignments. *)
From Coq Require Import List Bool Arith ZArith NArith Lia Permutation.
From XD Require Import lib.ListAux lib.Toposort model.Manager model.ManagerData
  proofs.ManagerIdx proofs.ManagerInv proofs.ManagerHist proofs.ManagerTrace proofs.ManagerDataInv
  proofs.Store proofs.ManagerC01 proofs.ManagerFault.
Import ListNotations.
Local Open Scope nat_scope.

(* what dump() shows: (target, action) in insertion order *)
Definition defs (m : dmgr) : list (path * action) := map (fun p => (fst p, t_act (snd p))) (m_tasks m).

Definition dump (m : dmgr) : list (path * expr) :=
  flat_map (fun p => match snd p with AExpr e => [(fst p, e)] | _ => [] end) (defs m).

(* the same assignment, up to the iteration orders of the new task's sets *)
Definition same_assign (v1 v2 : vsrc) : Prop :=
  match v1, v2 with
  | SPlain x, SPlain y => x = y
  | SExpr e1 _ _, SExpr e2 _ _ => e1 = e2
  | _, _ => False
  end.

Lemma defs_aget (ts1 ts2 : ttasks) :
  map (fun p => (fst p, t_act (snd p))) ts1 = map (fun p => (fst p, t_act (snd p))) ts2 ->
  forall k, (aget path_eqb k ts1 = None <-> aget path_eqb k ts2 = None).
Proof.
  revert ts2. induction ts1 as [|[k1 T1] t1 IH]; intros [|[k2 T2] t2] H k; cbn in *; try discriminate; [tauto|].
  inversion H; subst. destruct (path_eqb k k2); [split; discriminate|]. now apply IH.
Qed.

Lemma defs_adrop (ts1 ts2 : ttasks) r :
  map (fun p => (fst p, t_act (snd p))) ts1 = map (fun p => (fst p, t_act (snd p))) ts2 ->
  map (fun p => (fst p, t_act (snd p))) (adrop path_eqb r ts1) = map (fun p => (fst p, t_act (snd p))) (adrop path_eqb r ts2).
Proof.
  revert ts2. induction ts1 as [|[k1 T1] t1 IH]; intros [|[k2 T2] t2] H; cbn in *; try discriminate; auto.
  inversion H; subst. destruct (path_eqb r k2); cbn; [now apply IH|]. f_equal; [congruence|now apply IH].
Qed.

Lemma graph_tasks_defs (m1 m2 : dmgr) r v1 v2 :
  Inv path_eqb m1 -> Inv path_eqb m2 -> vsrc_wf v1 -> vsrc_wf v2 -> same_assign v1 v2 ->
  defs m1 = defs m2 -> m_frozen m1 = m_frozen m2 ->
  map (fun p => (fst p, t_act (snd p))) (graph_tasks m1 r v1) = map (fun p => (fst p, t_act (snd p))) (graph_tasks m2 r v2).
Proof.
  intros HI1 HI2 Hv1 Hv2 Hsa Hd Hfz. unfold graph_tasks, is_task.
  pose proof (defs_aget _ _ Hd r) as Hr.
  destruct (aget path_eqb r (m_tasks m1)) as [T1|] eqn:E1; destruct (aget path_eqb r (m_tasks m2)) as [T2|] eqn:E2;
    try (exfalso; destruct Hr as [Ha Hb]; (discriminate (Ha eq_refl) || discriminate (Hb eq_refl))).
  - (* both hold a definition at r: unregister *)
    destruct (m_frozen m1) eqn:F1.
    + unfold unregister. rewrite F1, <- Hfz. exact Hd.
    + destruct (unregister_Inv path_eqb path_eqb_spec r T1 m1 HI1 E1 F1) as (ma & -> & HIa & Hta & Hfa).
      assert (F2 : m_frozen m2 = false) by congruence.
      destruct (unregister_Inv path_eqb path_eqb_spec r T2 m2 HI2 E2 F2) as (mb & -> & HIb & Htb & Hfb).
      assert (Hdab : map (fun p => (fst p, t_act (snd p))) (m_tasks ma) = map (fun p => (fst p, t_act (snd p))) (m_tasks mb))
        by (rewrite Hta, Htb; now apply defs_adrop).
      destruct v1 as [x1|e1 d1 t1]; destruct v2 as [x2|e2 d2 t2]; cbn in Hsa; try contradiction; [exact Hdab|].
      subst e2. destruct Hv1 as [Hd1 Ht1]. destruct Hv2 as [Hd2 Ht2].
      assert (Hna : aget path_eqb r (m_tasks ma) = None) by (rewrite Hta; apply (aget_adrop_same path_eqb)).
      assert (Hnb : aget path_eqb r (m_tasks mb) = None) by (rewrite Htb; apply (aget_adrop_same path_eqb)).
      destruct (register_cases ma (mk_expr_task r e1 d1 t1) HIa Hna Hd1 Ht1) as [[Hf _]|(ma2 & -> & _ & _ & Hta2)]; [congruence|].
      destruct (register_cases mb (mk_expr_task r e1 d2 t2) HIb Hnb Hd2 Ht2) as [[Hf _]|(mb2 & -> & _ & _ & Htb2)]; [congruence|].
      rewrite Hta2, Htb2, !map_app, Hdab. reflexivity.
  - destruct v1 as [x1|e1 d1 t1]; destruct v2 as [x2|e2 d2 t2]; cbn in Hsa; try contradiction; [exact Hd|].
    subst e2. destruct Hv1 as [Hd1 Ht1]. destruct Hv2 as [Hd2 Ht2].
    destruct (m_frozen m1) eqn:F1.
    + unfold register. rewrite F1, <- Hfz. exact Hd.
    + assert (F2 : m_frozen m2 = false) by congruence.
      destruct (register_cases m1 (mk_expr_task r e1 d1 t1) HI1 E1 Hd1 Ht1) as [[Hf _]|(ma2 & -> & _ & _ & Hta2)]; [congruence|].
      destruct (register_cases m2 (mk_expr_task r e1 d2 t2) HI2 E2 Hd2 Ht2) as [[Hf _]|(mb2 & -> & _ & _ & Htb2)]; [congruence|].
      rewrite Hta2, Htb2, !map_app. unfold defs in Hd. rewrite Hd. reflexivity.
Qed.

Lemma unreg_deps_frozen r tg l : forall m : dmgr, m_frozen (fold_left (unreg_dep path_eqb r tg) l m) = m_frozen m.
Proof.
  induction l as [|d l IH]; intros m; cbn [fold_left]; [reflexivity|].
  rewrite IH. unfold unreg_dep. destruct (iget path_eqb d (m_tartasks m)). reflexivity.
Qed.

Lemma unregister_frozen_eq r (m m' : dmgr) : unregister path_eqb r m = Ok m' -> m_frozen m' = m_frozen m.
Proof.
  unfold unregister. destruct (m_frozen m) eqn:F; [discriminate|].
  destruct (aget path_eqb r (m_tasks m)) as [t|]; [|discriminate].
  destruct (unreg_tars _ _ _ _); [|discriminate]. intros H; inversion H; cbn.
  now rewrite unreg_deps_frozen.
Qed.

Lemma reg_deps_frozen tid tg l : forall o : dmgr, m_frozen (fold_left (reg_dep path_eqb tid tg) l o) = m_frozen o.
Proof.
  induction l as [|x l IHl]; intros o; cbn [fold_left]; [reflexivity|]. rewrite IHl. unfold reg_dep.
  destruct (iget path_eqb x (m_tartasks o)). reflexivity.
Qed.

Lemma reg_tars_frozen tid l : forall o : dmgr, m_frozen (fold_left (reg_tar path_eqb tid) l o) = m_frozen o.
Proof.
  induction l as [|x l IHl]; intros o; cbn [fold_left]; [reflexivity|]. rewrite IHl. unfold reg_tar.
  destruct (iget path_eqb x (m_deptasks o)). reflexivity.
Qed.

Lemma register_frozen_eq t (m m' : dmgr) : register path_eqb t m = Ok m' -> m_frozen m' = m_frozen m.
Proof.
  unfold register. destruct (m_frozen m) eqn:F; [discriminate|]. intros H; inversion H.
  unfold register_nofreeze. rewrite reg_tars_frozen, reg_deps_frozen. cbn. exact F.
Qed.

Lemma find_tasks_frozen_eq (m : dmgr) sd so tl m' : find_tasks path_eqb m sd so = Ok (tl, m') -> m_frozen m' = m_frozen m.
Proof.
  unfold find_tasks, find_taskids. destruct (start_set path_eqb sd (m_deptasks m)) as [set dt].
  destruct (same_set path_eqb so set); [|discriminate]. cbn [m_tasks].
  destruct (lookup_tasks path_eqb (m_tasks m) _); [|discriminate]. intros H; inversion H; reflexivity.
Qed.

Lemma set_value_frozen_eq (m : dmgr) s r v sd so : m_frozen (fst (fst (set_value m s r v sd so))) = m_frozen m.
Proof.
  unfold set_value.
  destruct (if is_task r m then unregister path_eqb r m else Ok m) as [mx|e] eqn:E1; [|reflexivity].
  assert (Hmx : m_frozen mx = m_frozen m).
  { destruct (is_task r m); [now apply (unregister_frozen_eq r)|inversion E1; reflexivity]. }
  destruct v as [x|e dord tord].
  - destruct (dwrite s r x) as [s1|e]; [|exact Hmx].
    destruct (find_tasks path_eqb mx sd so) as [[tl m3]|e] eqn:Ef; [|exact Hmx].
    destruct (run_tasks tl s1) as [[s2 tr] er]. cbn. rewrite (find_tasks_frozen_eq _ _ _ _ _ Ef). exact Hmx.
  - destruct (register path_eqb (mk_expr_task r e dord tord) mx) as [my|er] eqn:Er; [|exact Hmx].
    pose proof (register_frozen_eq _ _ _ Er) as Hmy.
    destruct (eval (d_st s) e) as [x|]; [|cbn; congruence].
    destruct (dwrite s r x) as [s1|e2]; [|cbn; congruence].
    destruct (find_tasks path_eqb my sd so) as [[tl m3]|e2] eqn:Ef; [|cbn; congruence].
    destruct (run_tasks tl s1) as [[s2 tr] er2]. cbn. rewrite (find_tasks_frozen_eq _ _ _ _ _ Ef). congruence.
Qed.

(* one assignment: whatever the iteration orders (of the new task's sets, of the
   assigned reference's dependencies, of the start set) and whatever the data, the
   resulting definitions are the same *)
Theorem defs_assign_indep (m1 m2 : dmgr) s1 s2 r v1 v2 sd1 so1 sd2 so2 :
  Inv path_eqb m1 -> Inv path_eqb m2 -> vsrc_wf v1 -> vsrc_wf v2 -> same_assign v1 v2 ->
  defs m1 = defs m2 -> m_frozen m1 = m_frozen m2 ->
  let ma := fst (fst (set_value m1 s1 r v1 sd1 so1)) in
  let mb := fst (fst (set_value m2 s2 r v2 sd2 so2)) in
  defs ma = defs mb /\ dump ma = dump mb /\ m_frozen ma = m_frozen mb /\ Inv path_eqb ma /\ Inv path_eqb mb.
Proof.
  intros HI1 HI2 Hv1 Hv2 Hsa Hd Hfz ma mb.
  assert (Hdefs : defs ma = defs mb).
  { unfold defs, ma, mb. rewrite !set_value_tasks. now apply graph_tasks_defs. }
  split; [exact Hdefs|]. split; [unfold dump; now rewrite Hdefs|].
  split; [unfold ma, mb; rewrite !set_value_frozen_eq; exact Hfz|].
  split; apply set_value_Inv; auto.
Qed.

(* histories: two executions of the same assignments that may differ in every
   iteration order and may therefore even diverge in the data *)
Inductive assigns_related : list mop -> list mop -> Prop :=
| ar_nil : assigns_related [] []
| ar_cons r v1 v2 sd1 so1 sd2 so2 l1 l2 :
    vsrc_wf v1 -> vsrc_wf v2 -> same_assign v1 v2 -> assigns_related l1 l2 ->
    assigns_related (MSet r v1 sd1 so1 :: l1) (MSet r v2 sd2 so2 :: l2).

Theorem dump_history_indep ops1 ops2 : assigns_related ops1 ops2 ->
  forall (m1 m2 : dmgr) s1 s2, Inv path_eqb m1 -> Inv path_eqb m2 -> defs m1 = defs m2 -> m_frozen m1 = m_frozen m2 ->
  dump (fst (final_mgr m1 s1 ops1)) = dump (fst (final_mgr m2 s2 ops2)) /\
  defs (fst (final_mgr m1 s1 ops1)) = defs (fst (final_mgr m2 s2 ops2)).
Proof.
  unfold final_mgr. induction 1 as [|r v1 v2 sd1 so1 sd2 so2 l1 l2 Hv1 Hv2 Hsa Hrel IH]; intros m1 m2 s1 s2 HI1 HI2 Hd Hfz.
  - cbn. split; [unfold dump; now rewrite Hd|exact Hd].
  - cbn [fold_left fst snd step].
    destruct (defs_assign_indep m1 m2 s1 s2 r v1 v2 sd1 so1 sd2 so2 HI1 HI2 Hv1 Hv2 Hsa Hd Hfz) as (Hd' & _ & Hf' & HIa & HIb).
    destruct (set_value m1 s1 r v1 sd1 so1) as [[ma sa] oa]. destruct (set_value m2 s2 r v2 sd2 so2) as [[mb sb] ob].
    cbn [fst snd] in *. now apply IH.
Qed.
