(* Basic facts about the optimizer model (model/Opt.v): outcome combinators,
   the knob-writing loop of the merit function, weight round trips, limits. *)
From Coq Require Import List Bool Arith NArith ZArith Lia.
From XD Require Import model.Opt.
Import ListNotations.

Ltac stsimpl :=
  unfold set_knobs, set_va, set_ta, set_sx, set_mfl, set_eval, set_eval0, set_pen, set_alpha, set_bro, set_log in *;
  cbn [knobs va ta sx mfl lpwt lres ltw pen_after alpha_last bro log ncall] in *.

Lemma map2_length {A B C} (g : A -> B -> C) a b : length (map2 g a b) = Nat.min (length a) (length b).
Proof. revert b; induction a as [|x a IH]; intros [|y b]; cbn; auto. Qed.

Lemma map2_keep_length {A B} (g : A -> B -> B) a b : length (map2_keep g a b) = length b.
Proof. revert a; induction b as [|y b IH]; intros [|x a]; cbn; auto. Qed.

Lemma set_nth_length {A} i (v : A) l : length (set_nth i v l) = length l.
Proof. revert i; induction l as [|h t IH]; intros [|i]; cbn; auto. Qed.

Section Post.
  Variable F : Type.
  Notation state := (state F).
  Notation res := (res F).

  Definition post {A} (r : res A) (P : A -> Prop) (Q : err -> state -> Prop) : Prop :=
    match r with Ok a => P a | Err e s => Q e s | Div => True end.

  Lemma post_bind {A B} (r : res A) (k : A -> res B) P Q (P' : A -> Prop) :
    post r P' Q -> (forall a, P' a -> post (k a) P Q) -> post (bind r k) P Q.
  Proof. destruct r; cbn; auto. Qed.

  Lemma post_bind' {A B} (r : res A) (k : A -> res B) (P : B -> Prop) (Q : err -> state -> Prop) (P' : A -> Prop) (Q' : err -> state -> Prop) :
    post r P' Q' -> (forall e s, Q' e s -> Q e s) -> (forall a, P' a -> post (k a) P Q) -> post (bind r k) P Q.
  Proof. destruct r; cbn; auto. Qed.

  Lemma post_weaken {A} (r : res A) (P P' : A -> Prop) (Q Q' : err -> state -> Prop) :
    post r P Q -> (forall a, P a -> P' a) -> (forall e s, Q e s -> Q' e s) -> post r P' Q'.
  Proof. destruct r; cbn; auto. Qed.

  Lemma post_ok {A} (r : res A) P Q a : post r P Q -> r = Ok a -> P a.
  Proof. intros H ->; exact H. Qed.

  Lemma post_err {A} (r : res A) P Q e s : post r P Q -> r = Err e s -> Q e s.
  Proof. intros H ->; exact H. Qed.

  Lemma post_and {A} (r : res A) P1 P2 Q1 Q2 :
    post r P1 Q1 -> post r P2 Q2 -> post r (fun a => P1 a /\ P2 a) (fun e s => Q1 e s /\ Q2 e s).
  Proof. destruct r; cbn; auto. Qed.
End Post.
Arguments post {F A}.

Section Knobs.
  Variable E : env.
  Notation F := (eF E).
  Variable cf : cfg F.
  Notation mul := (e_mul E). Notation div := (e_div E). Notation ltb := (e_ltb E).

  Definition inlim (l : option (option F * option F)) (v : F) : Prop := out_of_limits E l v = false.

  (* every knob inside its closed limits: not (v < lo) and not (hi < v) *)
  Fixpoint lims_ok (lims : list (option (option F * option F))) (k : list F) : Prop :=
    match lims, k with
    | l :: lims', v :: k' => inlim l v /\ lims_ok lims' k'
    | _, _ => True
    end.
  (* the inactive knobs inside their limits *)
  Fixpoint lims_ok_in (act : list bool) (lims : list (option (option F * option F))) (k : list F) : Prop :=
    match act, lims, k with
    | a :: act', l :: lims', v :: k' => (a = false -> inlim l v) /\ lims_ok_in act' lims' k'
    | [], l :: lims', v :: k' => inlim l v /\ lims_ok_in [] lims' k'
    | _, _, _ => True
    end.

  (* inside the closed limits, on each side that is given *)
  Lemma inlim_spec lo hi v : inlim (Some (lo, hi)) v <->
    (forall a, lo = Some a -> ltb v a = false) /\ (forall b, hi = Some b -> ltb b v = false).
  Proof.
    unfold inlim, out_of_limits, below, above. rewrite orb_false_iff. split.
    - intros [H1 H2]. split; intros c ->; auto.
    - intros [H1 H2]. split; [destruct lo; auto|destruct hi; auto].
  Qed.

  Lemma lims_ok_nth lims k : lims_ok lims k ->
    forall i l v, nth_error lims i = Some l -> nth_error k i = Some v -> inlim l v.
  Proof.
    revert k; induction lims as [|l0 lims IH]; intros [|v0 k] H i l v Hl Hv; destruct i; cbn in *; try discriminate.
    all: try (inversion Hl; inversion Hv; subst; tauto).
    eapply IH; eauto; tauto.
  Qed.

  Lemma lims_ok_weak act lims k : lims_ok lims k -> lims_ok_in act lims k.
  Proof.
    revert act k; induction lims as [|l lims IH]; intros [|a act] [|v k]; cbn; auto;
      intros [H1 H2]; split; auto.
  Qed.

  (* positions where [act] is false (or exhausted) are equal *)
  Fixpoint kn_inact (act : list bool) (k k' : list F) : Prop :=
    match act, k, k' with
    | a :: act', x :: k1, y :: k1' => (a = false -> y = x) /\ kn_inact act' k1 k1'
    | [], _, _ => k' = k
    | _ :: _, [], [] => True
    | _, _, _ => False
    end.

  Lemma kn_inact_refl act k : kn_inact act k k.
  Proof. revert k; induction act as [|a act IH]; intros [|x k]; cbn; auto. Qed.

  Lemma kn_inact_trans act k1 k2 k3 : kn_inact act k1 k2 -> kn_inact act k2 k3 -> kn_inact act k1 k3.
  Proof.
    revert k1 k2 k3; induction act as [|a act IH]; intros [|x k1] [|y k2] [|z k3]; cbn; try tauto; try congruence.
    intros [H1 H2] [H3 H4]; split; eauto. intros Ha. rewrite H3, H1; auto.
  Qed.

  Lemma kn_inact_length act k k' : kn_inact act k k' -> length k' = length k.
  Proof.
    revert k k'; induction act as [|a act IH]; intros [|x k] [|y k']; cbn; try tauto; try congruence.
    intros [_ H]; f_equal; auto.
  Qed.

  Lemma kn_inact_nth act k k' : kn_inact act k k' ->
    forall i, nth_error act i = Some false -> nth_error k' i = nth_error k i.
  Proof.
    revert k k'; induction act as [|a act IH]; intros [|x k] [|y k'] H [|i] Hi; cbn in *; try discriminate; try tauto.
    - inversion Hi; subst. destruct H as [H _]. rewrite H; auto.
    - apply IH; tauto.
  Qed.

  Lemma kn_inact_lims act lims k k' :
    kn_inact act k k' -> lims_ok_in act lims k -> lims_ok_in act lims k'.
  Proof.
    revert lims k k'; induction act as [|a act IH]; intros [|l lims] [|x k] [|y k']; cbn; try tauto;
      try (intros Heq; inversion Heq; subst; tauto).
    intros [H1 H2] [H3 H4]; split; eauto. intros Ha; rewrite H1; auto.
  Qed.

  (* ---- the knob-writing loop --------------------------------------------- *)
  Lemma wk_length chk act lims kv old : length (fst (write_knobs E chk act lims kv old)) = length old.
  Proof.
    revert lims kv old; induction act as [|a act IH]; intros [|l lims] [|v kv] [|o old]; cbn; auto.
    destruct a.
    - destruct (chk && out_of_limits E l v); cbn; auto.
      specialize (IH lims kv old). destruct (write_knobs E chk act lims kv old); cbn in *; auto.
    - specialize (IH lims kv old). destruct (write_knobs E chk act lims kv old); cbn in *; auto.
  Qed.

  Lemma wk_inact chk act lims kv old : kn_inact act old (fst (write_knobs E chk act lims kv old)).
  Proof.
    revert lims kv old; induction act as [|a act IH]; intros [|l lims] [|v kv] [|o old]; cbn; auto;
      try (split; [auto | apply kn_inact_refl]).
    destruct a.
    - destruct (chk && out_of_limits E l v); cbn.
      + split; [discriminate | apply kn_inact_refl].
      + specialize (IH lims kv old). destruct (write_knobs E chk act lims kv old); cbn in *. split; [discriminate | auto].
    - specialize (IH lims kv old). destruct (write_knobs E chk act lims kv old); cbn in *. split; auto.
  Qed.

  (* with check_limits every value written is inside the limits *)
  Lemma wk_lims act lims kv old : lims_ok lims old -> lims_ok lims (fst (write_knobs E true act lims kv old)).
  Proof.
    revert lims kv old; induction act as [|a act IH]; intros [|l lims] [|v kv] [|o old]; cbn; auto.
    intros [H1 H2]. destruct a.
    - destruct (out_of_limits E l v) eqn:Ho; cbn; auto.
      specialize (IH lims kv old H2). destruct (write_knobs E true act lims kv old); cbn in *. split; auto.
    - specialize (IH lims kv old H2). destruct (write_knobs E true act lims kv old); cbn in *. split; auto.
  Qed.

  (* a complete checked pass over all knobs puts every active knob inside *)
  Lemma wk_lims_full act lims kv old k' :
    write_knobs E true act lims kv old = (k', false) ->
    length act = length old -> length lims = length old -> length kv = length old ->
    lims_ok_in act lims old -> lims_ok lims k'.
  Proof.
    revert lims kv old k'; induction act as [|a act IH]; intros [|l lims] [|v kv] [|o old] k'; cbn; try discriminate;
      try (intros Hw; inversion Hw; subst; cbn; auto; fail).
    intros Hw La Ll Lk [H1 H2]. destruct a.
    - destruct (out_of_limits E l v) eqn:Ho; cbn in Hw; [inversion Hw|].
      destruct (write_knobs E true act lims kv old) as [t e] eqn:Hr. inversion Hw; subst.
      cbn; split; auto. eapply IH; eauto.
    - destruct (write_knobs E true act lims kv old) as [t e] eqn:Hr. inversion Hw; subst.
      cbn; split; auto. eapply IH; eauto.
  Qed.

  (* writing the same values twice = writing them once *)
  Lemma wk_idem chk act lims kv old k' :
    write_knobs E chk act lims kv old = (k', false) ->
    fst (write_knobs E false act lims kv k') = k'.
  Proof.
    revert lims kv old k'; induction act as [|a act IH]; intros [|l lims] [|v kv] [|o old] k'; cbn;
      try (intros Hw; inversion Hw; subst; reflexivity).
    destruct a.
    - destruct (chk && out_of_limits E l v); [intros Hw; inversion Hw|].
      destruct (write_knobs E chk act lims kv old) as [t e] eqn:Hr. intros Hw; inversion Hw; subst.
      cbn. specialize (IH _ _ _ _ Hr). destruct (write_knobs E false act lims kv t); cbn in *; congruence.
    - destruct (write_knobs E chk act lims kv old) as [t e] eqn:Hr. intros Hw; inversion Hw; subst.
      cbn. specialize (IH _ _ _ _ Hr). destruct (write_knobs E false act lims kv t); cbn in *; congruence.
  Qed.

  (* ---- weight round trip -------------------------------------------------- *)
  (* k' is k where some coordinates were replaced by (k_i / w_i) * w_i *)
  Fixpoint rt_rel (ws k k' : list F) : Prop :=
    match k, k' with
    | [], [] => True
    | a :: k1, b :: k1' =>
        (b = a \/ match ws with w :: _ => b = mul (div a w) w | [] => False end) /\ rt_rel (tl ws) k1 k1'
    | _, _ => False
    end.

  Lemma rt_rel_refl ws k : rt_rel ws k k.
  Proof. revert ws; induction k as [|a k IH]; intros ws; cbn; auto. Qed.

  Lemma wk_rt chk act lims ws k :
    rt_rel ws k (fst (write_knobs E chk act lims (map2 mul (map2 div k ws) ws) k)).
  Proof.
    revert lims ws k; induction act as [|a act IH]; intros lims ws k.
    - cbn. apply rt_rel_refl.
    - destruct lims as [|l lims]; [cbn; apply rt_rel_refl|].
      destruct k as [|o k]; [cbn; auto|]. destruct ws as [|w ws]; [cbn; split; auto; apply rt_rel_refl|].
      cbn. destruct a.
      + destruct (chk && out_of_limits E l (mul (div o w) w)); cbn.
        * split; auto. apply rt_rel_refl.
        * specialize (IH lims ws k). destruct (write_knobs E chk act lims (map2 mul (map2 div k ws) ws) k); cbn in *; auto.
      + specialize (IH lims ws k). destruct (write_knobs E chk act lims (map2 mul (map2 div k ws) ws) k); cbn in *; auto.
  Qed.

  Lemma rt_rel_unit ws k k' :
    (forall x, mul (div x (e_one E)) (e_one E) = x) -> Forall (fun w => w = e_one E) ws ->
    rt_rel ws k k' -> k' = k.
  Proof.
    intros Hu. revert ws k'; induction k as [|a k IH]; intros ws [|b k'] Hw; cbn; try tauto.
    intros [H1 H2]. f_equal.
    - destruct H1 as [H1|H1]; auto. destruct ws as [|w ws]; [tauto|]. inversion Hw; subst. apply Hu.
    - apply (IH (tl ws)); auto. destruct ws; cbn; auto. inversion Hw; auto.
  Qed.

  Lemma rt_rel_length ws k k' : rt_rel ws k k' -> length k' = length k.
  Proof. revert ws k'; induction k as [|a k IH]; intros ws [|b k']; cbn; try tauto. intros [_ H]; f_equal; eauto. Qed.

  (* ---- all_ok --------------------------------------------------------------- *)
  Lemma all_ok_spec w act : all_ok w act = true ->
    forall i, nth_error act i = Some true -> forall b, nth_error w i = Some b -> b = true.
  Proof.
    unfold all_ok. revert act; induction w as [|x w IH]; intros [|a act]; cbn; intros H [|i] Hi b Hb; cbn in *; try discriminate.
    - inversion Hi; inversion Hb; subst. apply andb_true_iff in H. destruct H as [H _]. rewrite orb_false_r in H; auto.
    - apply andb_true_iff in H. destruct H as [_ H]. eapply IH; eauto.
  Qed.

  (* the transform hook of target i (TId when there is none) *)
  Definition tr_at (i : nat) : ttrans F := nth i (c_ttrans cf) TId.

  Lemma transformed_nth : forall ts r i ri, nth_error r i = Some ri ->
    nth_error (transformed E ts r) i = Some (apply_tr E (nth i ts TId) ri).
  Proof.
    intros ts r; revert ts; induction r as [|x r IH]; intros ts [|i] ri H; cbn in *; try discriminate.
    - inversion H; subst. destruct ts; reflexivity.
    - rewrite (IH (tl ts) i ri H). destruct ts; cbn; auto. destruct i; reflexivity.
  Qed.

  Lemma map2_sub_nth (a tv : list F) i x v :
    nth_error a i = Some x -> nth_error tv i = Some v -> nth_error (map2 (e_sub E) a tv) i = Some (e_sub E x v).
  Proof.
    revert tv i; induction a as [|y a IH]; intros [|z tv] [|i]; cbn; try discriminate.
    - intros H1 H2; inversion H1; inversion H2; subst; auto.
    - apply IH.
  Qed.

  Lemma within_nth r i ri v t :
    nth_error r i = Some ri -> nth_error (c_tval cf) i = Some v -> nth_error (c_tol cf) i = Some t ->
    nth_error (within E cf r) i = Some (ltb (e_abs E (e_sub E (apply_tr E (tr_at i) ri) v)) t).
  Proof.
    intros Hr Hv Ht. unfold within, residual.
    pose proof (map2_sub_nth _ _ i _ _ (transformed_nth (c_ttrans cf) r i ri Hr) Hv) as Hs.
    unfold tr_at. revert Hs Ht. generalize (e_sub E (apply_tr E (nth i (c_ttrans cf) TId) ri) v).
    generalize (map2 (e_sub E) (transformed E (c_ttrans cf) r) (c_tval cf)) (c_tol cf). clear.
    induction i as [|i IH]; intros [|x l] [|z tl] e; cbn; try discriminate.
    - intros H1 H3; inversion H1; inversion H3; subst; auto.
    - apply IH.
  Qed.
End Knobs.
