(* C01, order independence: assigning a plain value under two different iteration
   orders (of the assigned reference's dependencies and of the start set) leaves
   the same value at every triggered target, at the assigned location and at every
   location that overlaps neither. *)
From Coq Require Import List Bool Arith ZArith NArith Lia Permutation.
From XD Require Import lib.ListAux lib.Toposort model.Manager model.ManagerData
  proofs.ManagerIdx proofs.ManagerInv proofs.ManagerHist proofs.ManagerTrace proofs.ManagerDataInv
  proofs.Store proofs.ManagerC01 proofs.ManagerFault proofs.ManagerFun.
Import ListNotations.
Local Open Scope nat_scope.

Lemma starts_ext (ts : ttasks) sd1 sd2 : (forall x, In x sd1 <-> In x sd2) ->
  forall a, starts path_eqb ts sd1 a -> starts path_eqb ts sd2 a.
Proof. intros H a (Ta & Ea & d & Hd & Hdt). exists Ta. split; auto. exists d. split; auto. now apply H. Qed.

Lemma Triggered_sd_ext (ts : ttasks) sd1 sd2 : (forall x, In x sd1 <-> In x sd2) ->
  forall w, Triggered path_eqb ts sd1 w <-> Triggered path_eqb ts sd2 w.
Proof.
  intros H w. split; intros (r0 & Hs & Hc); exists r0; split; auto.
  - eapply starts_ext; eauto.
  - eapply starts_ext; [|exact Hs]. intros x. symmetry. apply H.
Qed.

Theorem plain_assign_order_independent (m : dmgr) s r x sd1 so1 sd2 so2 m1 s1 out1 m2 s2 out2 :
  Inv path_eqb m -> Consistent (m_tasks m) (d_st s) -> d_fault s = None ->
  set_value m s r (SPlain x) sd1 so1 = (m1, s1, out1) -> o_err out1 = None ->
  set_value m s r (SPlain x) sd2 so2 = (m2, s2, out2) -> o_err out2 = None ->
  2 <= length r ->
  (forall y, In y sd1 <-> In y (deps_of r)) -> (forall y, In y sd2 <-> In y (deps_of r)) ->
  let ts := m_tasks m1 in
  sem_wf ts -> writes_disjoint ts -> no_self_read ts ->
  (forall a T, aget path_eqb a ts = Some T -> a <> r -> overlap r a = false) ->
  (forall u w, Triggered path_eqb ts sd1 u -> Triggered path_eqb ts sd1 w -> u <> w -> pedge ts u w ->
               ~ clos (pedge ts) w u) ->
  (* what a triggered task reads is either disjoint from, or at or below, every written location *)
  (forall a T e q, Triggered path_eqb ts sd1 a -> aget path_eqb a ts = Some T -> t_act T = AExpr e -> In q (reads e) ->
                   (overlap r q = true -> is_prefix r q = true) /\
                   (forall b, Triggered path_eqb ts sd1 b -> overlap b q = true -> is_prefix b q = true)) ->
  m_tasks m2 = ts /\
  (forall a, In a (o_trace out1) <-> In a (o_trace out2)) /\
  (forall a, In a (o_trace out1) -> nget (d_st s1) a = nget (d_st s2) a) /\
  nget (d_st s1) r = nget (d_st s2) r /\
  (forall q, overlap r q = false -> (forall a, In a (o_trace out1) -> overlap a q = false) ->
             nget (d_st s1) q = nget (d_st s2) q).
Proof.
  intros HI HC Hf E1 He1 E2 He2 Hlr Hsd1 Hsd2 ts Hsem Hwd Hnsr Hro Hacy Hcov.
  assert (Hv : vsrc_wf (SPlain x)) by exact I.
  assert (Hts2 : m_tasks m2 = ts).
  { unfold ts. pose proof (set_value_tasks m s r (SPlain x) sd1 so1) as A1.
    pose proof (set_value_tasks m s r (SPlain x) sd2 so2) as A2. rewrite E1 in A1. rewrite E2 in A2. cbn in A1, A2. congruence. }
  destruct (set_value_trace m s r (SPlain x) sd1 so1 m1 s1 out1 HI Hv E1) as (HI1 & Htr1 & _).
  destruct (set_value_trace m s r (SPlain x) sd2 so2 m2 s2 out2 HI Hv E2) as (HI2 & Htr2 & _).
  destruct (Htr1 He1) as (HN1 & HT1 & HO1). destruct (Htr2 He2) as (HN2 & HT2 & HO2).
  fold ts in HT1, HO1. rewrite Hts2 in HT2, HO2.
  assert (Hsd12 : forall y, In y sd1 <-> In y sd2) by (intros y; rewrite Hsd1, Hsd2; tauto).
  assert (Hsame : forall a, In a (o_trace out1) <-> In a (o_trace out2)).
  { intros a. rewrite HT1, HT2. apply Triggered_sd_ext; auto. }
  assert (Hacy1 : forall u w, In u (o_trace out1) -> In w (o_trace out1) -> u <> w -> pedge ts u w -> ~ clos (pedge ts) w u).
  { intros u w Hu Hw. apply Hacy; now apply HT1. }
  assert (Hacy2 : forall u w, In u (o_trace out2) -> In w (o_trace out2) -> u <> w -> pedge (m_tasks m2) u w -> ~ clos (pedge (m_tasks m2)) w u).
  { rewrite Hts2. intros u w Hu Hw. apply Hacy; apply HT1; now apply Hsame. }
  destruct (set_value_consistent m s r (SPlain x) sd1 so1 m1 s1 out1 HI Hv E1 He1 Hf Hlr (fun y Hy => proj2 (Hsd1 y) Hy)
              Hsem Hwd Hnsr Hro Hacy1) as (HC1 & Hfr1 & Hr1); [intros a _ _; apply HC|].
  destruct (set_value_consistent m s r (SPlain x) sd2 so2 m2 s2 out2 HI Hv E2 He2 Hf Hlr (fun y Hy => proj2 (Hsd2 y) Hy))
    as (HC2 & Hfr2 & Hr2); try (rewrite Hts2; assumption); [exact Hacy2|intros a _ _; apply HC|].
  rewrite Hts2 in HC2.
  assert (Hreg : forall a, In a (o_trace out1) -> exists T, aget path_eqb a ts = Some T).
  { intros a Ha. apply HT1 in Ha. eapply Triggered_registered; eauto. }
  assert (Hrr : nget (d_st s1) r = nget (d_st s2) r).
  { (* r is not a definition any more (plain assignment), so no triggered target overlaps it *)
    assert (Hno : forall a, In a (o_trace out1) -> overlap a r = false).
    { intros a Ha. destruct (Hreg a Ha) as (T & Ea). rewrite overlap_sym. eapply Hro; eauto.
      intros ->.
      destruct (set_value_ok_inv m s r (SPlain x) sd1 so1 m1 s1 out1 HI Hv E1 He1 Hf)
        as (mx & x' & s1x & L & tl & HIx & _ & (_ & Hnone) & _ & _ & EL & _).
      destruct (find_taskids_spec path_eqb path_eqb_spec mx sd1 so1 L m1 HIx EL) as (_ & _ & _ & _ & Htx & _).
      fold ts in Htx. rewrite Htx in Ea.
      congruence. }
    destruct (Hr1 Hno) as (y1 & Hy1 & ->).
    destruct (Hr2 (fun a Ha => Hno a (proj2 (Hsame a) Ha))) as (y2 & Hy2 & ->). congruence. }
  split; [exact Hts2|]. split; [exact Hsame|]. split; [|split; [exact Hrr|]].
  - apply (consistent_unique ts (o_trace out1) (d_st s) (d_st s1) (d_st s2) [] Hsem Hnsr HN1 HO1 Hacy1 Hreg).
    + intros a Ha. apply HC1.
    + intros a Ha. apply HC2.
    + intros a T e q Ha Ea Hact Hq Hoff.
      destruct (Hcov a T e q (proj1 (HT1 a) Ha) Ea Hact Hq) as [Hcr _].
      destruct (overlap r q) eqn:Eo.
      * pose proof (Hcr eq_refl) as Hp. apply is_prefix_spec in Hp. destruct Hp as (rest & ->).
        rewrite !nget_app, Hrr. reflexivity.
      * rewrite (Hfr1 q Eo Hoff). symmetry. apply Hfr2; auto. intros c Hc. apply Hoff. now apply Hsame.
    + intros a T e q b Ha Ea Hact Hq Hb Hob.
      destruct (Hcov a T e q (proj1 (HT1 a) Ha) Ea Hact Hq) as [_ Hcb]. apply Hcb; auto. now apply HT1.
  - intros q Hq1 Hq2. rewrite (Hfr1 q Hq1 Hq2). symmetry. apply Hfr2; auto. intros c Hc. apply Hq2. now apply Hsame.
Qed.
